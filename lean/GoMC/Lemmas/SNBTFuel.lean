/-
  Lemmas for C04_parse_total, part 3: the fuel `2·len + 8` of the parser model is never exhausted — every
  recursive call and every loop iteration of the emitters happens after at least one more byte was consumed.
-/
import GoMC.Lemmas.SNBTTotal
namespace GoMC.Model.SNBT
open GoMC Scanner DState

/-- offsets are in range, and an opcode that `eof` cannot return was produced by a real byte -/
def DI (d : DState) : Prop :=
  d.off ≤ d.data.length + 1 ∧ (d.opcode ≠ .error → d.opcode ≠ .end_ → d.off ≤ d.data.length)

/-- `d'` is a later state of the same scan -/
def Adv (d d' : DState) : Prop := d'.data = d.data ∧ d.off ≤ d'.off ∧ DI d'

theorem Adv.trans {a b c : DState} (h1 : Adv a b) (h2 : Adv b c) : Adv a c :=
  ⟨h2.1.trans h1.1, Nat.le_trans h1.2.1 h2.2.1, h2.2.2⟩

theorem Adv.refl {a : DState} (h : DI a) : Adv a a := ⟨rfl, Nat.le_refl _, h⟩

theorem scanLoop_off (op : Op) (data : Bytes) :
    ∀ (rest : Bytes) (s : Scanner) (i : Nat), rest = data.drop i → i ≤ data.length + 1 →
      (scanLoop op data s rest i).data = data ∧ i ≤ (scanLoop op data s rest i).off ∧
      (scanLoop op data s rest i).off ≤ data.length + 1 ∧
      (i ≤ data.length → i + 1 ≤ (scanLoop op data s rest i).off) ∧
      ((scanLoop op data s rest i).opcode ≠ .error → (scanLoop op data s rest i).opcode ≠ .end_ →
        (scanLoop op data s rest i).off ≤ data.length) := by
  intro rest
  induction rest with
  | nil =>
    intro s i hr hi
    unfold scanLoop
    refine ⟨rfl, by simp only; omega, Nat.le_refl _, fun _ => by simp only; omega, ?_⟩
    intro h1 h2
    rcases Scanner.eof_op s with h | h
    · exact absurd h h1
    · exact absurd h h2
  | cons c cs ih =>
    intro s i hr hi
    obtain ⟨hlt, _, hdrop⟩ := drop_cons_of data i c cs hr.symm
    unfold scanLoop
    dsimp only
    split
    · exact ⟨rfl, by simp only; omega, by simp only; omega, fun _ => Nat.le_refl _, fun _ _ => by simp only; omega⟩
    · obtain ⟨a, b, c', d, e⟩ := ih (s.step c).1 (i + 1) hdrop.symm (by omega)
      exact ⟨a, by omega, c', fun _ => by have := d (by omega); omega, e⟩

theorem adv_scanWhile (op : Op) (d : DState) (h : d.off ≤ d.data.length + 1) :
    Adv d (scanWhile op d) ∧ (d.off ≤ d.data.length → d.off + 1 ≤ (scanWhile op d).off) := by
  obtain ⟨a, b, c, e, g⟩ := scanLoop_off op d.data (d.data.drop d.off) d.scan d.off rfl h
  unfold scanWhile
  refine ⟨⟨a, b, ?_, ?_⟩, e⟩
  · rw [a]; exact c
  · intro h1 h2; rw [a]; exact g h1 h2

theorem adv_scanNext (d : DState) (h : d.off ≤ d.data.length + 1) :
    Adv d d.scanNext ∧ (d.off ≤ d.data.length → d.off + 1 ≤ d.scanNext.off) := by
  unfold scanNext
  split
  · rename_i c hc
    have hlt : d.off < d.data.length := by
      apply Classical.byContradiction; intro hn
      rw [List.getElem?_eq_none (by omega)] at hc; cases hc
    exact ⟨⟨rfl, by simp only; omega, by simp only; omega, fun _ _ => by simp only; omega⟩, fun _ => Nat.le_refl _⟩
  · refine ⟨⟨rfl, by simp only; omega, Nat.le_refl _, ?_⟩, fun _ => by simp only; omega⟩
    intro h1 h2
    rcases Scanner.eof_op d.scan with e | e
    · exact absurd e h1
    · exact absurd e h2

theorem adv_skip (d : DState) (h : DI d) : Adv d (skip d) := by
  unfold skip
  split
  · exact (adv_scanWhile _ d h.1).1
  · exact Adv.refl h

theorem DI.real {d : DState} (h : DI d) {o : Op} (ho : d.opcode = o) (h1 : o ≠ .error) (h2 : o ≠ .end_) :
    d.off ≤ d.data.length := h.2 (by rw [ho]; exact h1) (by rw [ho]; exact h2)

theorem adv_readLiteral (d d' : DState) (lit : Bytes) (h : DI d) (hb : d.opcode = .beginLiteral)
    (hr : readLiteral d = .ok (d', lit)) : Adv d d' ∧ d.off + 1 ≤ d'.off := by
  unfold readLiteral at hr
  dsimp only at hr
  have hoff : d.off ≤ d.data.length := h.real hb (by simp) (by simp)
  have ha := adv_scanWhile .cont d h.1
  generalize scanWhile .cont d = d1 at hr ha
  split at hr
  · cases hr
  · split at hr
    · cases hr
    · injection hr with hr; injection hr with e1 e2
      subst e1
      exact ⟨ha.1, ha.2 hoff⟩



theorem unquoteLoop_ne_fuel (q : Byte) : ∀ (n : Nat) (bs acc : Bytes), bs.length ≤ n → unquoteLoop q bs acc ≠ .fuel := by
  intro n
  induction n with
  | zero =>
    intro bs acc h
    cases bs with
    | nil => unfold unquoteLoop; simp
    | cons c cs => simp at h
  | succ n ih =>
    intro bs acc h
    cases bs with
    | nil => unfold unquoteLoop; simp
    | cons c cs =>
      unfold unquoteLoop
      split
      · simp
      · split
        · cases cs with
          | nil => simp
          | cons c2 rest => exact ih _ _ (by simp at h ⊢; omega)
        · exact ih _ _ (by simp at h ⊢; omega)

theorem parseLiteral_ne_fuel (fo : FloatOracle) (lit : Bytes) : parseLiteral fo lit ≠ .fuel := by
  unfold parseLiteral
  split
  · simp
  · split
    · rename_i q rest _
      have := unquoteLoop_ne_fuel q rest.length rest [] (Nat.le_refl _)
      split <;> simp_all
    · dsimp only
      repeat' split
      all_goals simp

theorem readLiteral_ne_fuel (d : DState) : readLiteral d ≠ .fuel := by
  unfold readLiteral
  dsimp only
  split
  · simp
  · split <;> simp



/-- bytes (plus the end-of-input event) not yet scanned -/
def M (d : DState) : Nat := d.data.length + 1 - d.off

/-- the call returned a later state (at least `strict` bytes further) if it returned normally, and did not run
out of fuel if `bound ≤ f` -/
def FP {α} (d : DState) (strict bound f : Nat) (r : PRes (DState × α)) : Prop :=
  (∀ d' out, r = .ok (d', out) → Adv d d' ∧ d.off + strict ≤ d'.off) ∧ (bound ≤ f → r ≠ .fuel)

theorem FP.err {α} {d : DState} {s b f : Nat} : FP (α := α) d s b f .err := by
  refine ⟨?_, ?_⟩
  · intro _ _ h; cases h
  · intro _ h; cases h
theorem FP.panic {α} {d : DState} {s b f : Nat} : FP (α := α) d s b f .panic := by
  refine ⟨?_, ?_⟩
  · intro _ _ h; cases h
  · intro _ h; cases h
theorem FP.ok {α} {d d' : DState} {out : α} {s b f : Nat} (h1 : Adv d d') (h2 : d.off + s ≤ d'.off) :
    FP d s b f (.ok (d', out)) :=
  ⟨fun d'' out' h => by injection h with h; injection h with e1 e2; subst e1; exact ⟨h1, h2⟩, fun _ => by simp⟩
theorem FP.lift {α} {d d2 : DState} {s s2 b b2 f f2 : Nat} {r : PRes (DState × α)}
    (h : FP d2 s2 b2 f2 r) (ha : Adv d d2) (hs : d.off + s ≤ d2.off + s2) (hb : b ≤ f → b2 ≤ f2) : FP d s b f r :=
  ⟨fun d' out e => ⟨ha.trans (h.1 d' out e).1, by have := (h.1 d' out e).2; omega⟩, fun hbf => h.2 (hb hbf)⟩

theorem Adv.M_le {d d' : DState} (h : Adv d d') : M d' ≤ M d := by
  unfold M; rw [h.1]; have := h.2.1; omega
theorem Adv.M_lt {d d' : DState} (h : Adv d d') (h2 : d.off + 1 ≤ d'.off) : M d' + 1 ≤ M d := by
  unfold M; rw [h.1]; have := h.2.2.1; rw [h.1] at this; omega

theorem arrayLoop_fuel (fo : FloatOracle) (et : Byte) :
    ∀ (f : Nat) (d : DState) (count : Nat) (buf : Bytes), DI d →
      FP d 0 (2 * M d + 1) f (arrayLoop fo et f d count buf) := by
  intro f
  induction f with
  | zero =>
    intro d count buf _
    exact ⟨fun _ _ h => by simp [arrayLoop] at h, fun h => by omega⟩
  | succ f ih =>
    intro d count buf hdi
    unfold arrayLoop
    dsimp only
    have a1 := adv_skip d hdi
    generalize skip d = d1 at a1 ⊢
    by_cases hb : d1.opcode = .beginLiteral
    · rw [if_neg (by simp [hb])]
      cases hr : readLiteral d1 with
      | err => exact FP.err
      | panic => exact FP.panic
      | fuel => exact absurd hr (readLiteral_ne_fuel d1)
      | ok p =>
        obtain ⟨d2, lit⟩ := p
        obtain ⟨a2, s2⟩ := adv_readLiteral d1 d2 lit a1.2.2 hb hr
        dsimp only
        cases hpl : parseLiteral fo lit with
        | err => exact FP.err
        | panic => exact FP.panic
        | fuel => exact absurd hpl (parseLiteral_ne_fuel fo lit)
        | ok q =>
          obtain ⟨t, v⟩ := q
          cases v with
          | none => exact FP.err
          | some v =>
            dsimp only
            split
            · exact FP.err
            · split
              · exact FP.panic
              · have a3 := adv_skip d2 a2.2.2
                generalize skip d2 = d3 at a3 ⊢
                have a13 : Adv d d3 := a1.trans (a2.trans a3)
                split
                · exact FP.err
                · split
                  · exact FP.ok a13 (by have := a13.2.1; omega)
                  · split
                    · exact FP.panic
                    · have a4 := (adv_scanWhile .skipSpace d3 a3.2.2.1).1
                      refine (ih _ _ _ a4.2.2).lift (a13.trans a4) (by have := (a13.trans a4).2.1; omega) (fun hbf => ?_)
                      have : M (scanWhile .skipSpace d3) + 1 ≤ M d :=
                        (a1.trans (a2.trans (a3.trans a4))).M_lt (by
                          have := a1.2.1; have := a3.2.1; have := a4.2.1; have := a2.2.1; omega)
                      omega
    · rw [if_pos (by simp [hb])]; exact FP.err




/-- same outcome class and, for `ok`, the same final state -/
def Same {α β} : PRes (DState × α) → PRes (DState × β) → Prop
  | .ok (d, _), .ok (d', _) => d = d'
  | .err, .err => True
  | .panic, .panic => True
  | .fuel, .fuel => True
  | _, _ => False

theorem FP.same {α β} {d : DState} {s b f : Nat} {r : PRes (DState × α)} {r' : PRes (DState × β)}
    (h : FP d s b f r) (hs : Same r r') : FP d s b f r' := by
  cases r with
  | ok p =>
    obtain ⟨d1, o1⟩ := p
    cases r' with
    | ok p' =>
      obtain ⟨d2, o2⟩ := p'
      simp only [Same] at hs; subst hs
      exact FP.ok (h.1 d1 o1 rfl).1 (h.1 d1 o1 rfl).2
    | _ => simp [Same] at hs
  | err => cases r' <;> simp [Same] at hs; exact FP.err
  | panic => cases r' <;> simp [Same] at hs; exact FP.panic
  | fuel =>
    cases r' <;> simp [Same] at hs
    refine ⟨?_, fun hb => absurd rfl (h.2 hb)⟩
    intro _ _ e; cases e

/-- the callee's result followed by the trailing `d.scanNext()` of `writeListOrArray` -/
def NextRel {α β} : PRes (DState × α) → PRes (DState × β) → Prop
  | .ok (d, _), .ok (d', _) => d' = d.scanNext
  | .err, .err => True
  | .panic, .panic => True
  | .fuel, .fuel => True
  | _, _ => False

theorem FP.next {α β} {d d0 : DState} {b b0 f f0 : Nat} {r : PRes (DState × α)}
    (h : FP d 0 b f r) (ha : Adv d0 d) (hb : b0 ≤ f0 → b ≤ f) (r' : PRes (DState × β)) (hrel : NextRel r r') :
    FP d0 0 b0 f0 r' := by
  cases r with
  | err => cases r' <;> simp [NextRel] at hrel; exact FP.err
  | panic => cases r' <;> simp [NextRel] at hrel; exact FP.panic
  | fuel =>
    cases r' <;> simp [NextRel] at hrel
    refine ⟨?_, fun hbf => absurd rfl (h.2 (hb hbf))⟩
    intro _ _ e; cases e
  | ok p =>
    obtain ⟨d1, o1⟩ := p
    cases r' with
    | ok p' =>
      obtain ⟨d2, o2⟩ := p'
      simp only [NextRel] at hrel; subst hrel
      have a1 := (h.1 d1 o1 rfl).1
      have a2 := (adv_scanNext d1 a1.2.2.1).1
      exact FP.ok (ha.trans (a1.trans a2)) (by have := (ha.trans (a1.trans a2)).2.1; omega)
    | _ => simp [NextRel] at hrel

theorem scanWhile_real (op : Op) (d : DState) (h : d.off ≤ d.data.length + 1)
    (h1 : (scanWhile op d).opcode ≠ .error) (h2 : (scanWhile op d).opcode ≠ .end_) :
    d.off + 1 ≤ (scanWhile op d).off := by
  obtain ⟨a, p⟩ := adv_scanWhile op d h
  apply p
  have := a.2.2.2 h1 h2
  rw [a.1] at this
  have := a.2.1
  omega

theorem writeArray_fuel (fo : FloatOracle) (et : Byte) (f : Nat) (d : DState) (hdi : DI d) :
    FP d 0 (2 * M d + 1) f (writeArray fo f d et) := by
  unfold writeArray
  dsimp only
  have a1 := adv_skip d hdi
  generalize skip d = d1 at a1 ⊢
  have a2 := (adv_scanWhile .skipSpace d1 a1.2.2.1).1
  generalize scanWhile .skipSpace d1 = d2 at a2 ⊢
  have a12 := a1.trans a2
  split
  · exact FP.ok a12 (by have := a12.2.1; omega)
  · exact (arrayLoop_fuel fo et f d2 0 [] a2.2.2).lift a12 (by have := a12.2.1; omega)
      (fun hb => by have := a12.M_le; omega)

theorem litListLoop_fuel (fo : FloatOracle) :
    ∀ (f : Nat) (d : DState) (lit : Bytes) (e : Byte) (count : Nat) (buf : Bytes), DI d →
      FP d 0 (2 * M d + 1) f (litListLoop fo f d lit e count buf) := by
  intro f
  induction f with
  | zero =>
    intro d lit e count buf _
    exact ⟨fun _ _ h => by simp [litListLoop] at h, fun h => by omega⟩
  | succ f ih =>
    intro d lit e count buf hdi
    unfold litListLoop
    cases hpl : parseLiteral fo lit with
    | err => exact FP.err
    | panic => exact FP.panic
    | fuel => exact absurd hpl (parseLiteral_ne_fuel fo lit)
    | ok q =>
      obtain ⟨t, v⟩ := q
      cases v with
      | none => exact FP.err
      | some v =>
        dsimp only
        generalize (if (e == 0) = true then t else e) = e2
        split
        · exact FP.err
        split
        · exact FP.err
        · have a3 := adv_skip d hdi
          generalize skip d = d3 at a3 ⊢
          split
          · exact FP.err
          · split
            · exact FP.ok a3 (by have := a3.2.1; omega)
            · split
              · exact FP.panic
              · have a4 := (adv_scanWhile .skipSpace d3 a3.2.2.1).1
                generalize scanWhile .skipSpace d3 = d4 at a4 ⊢
                split
                · exact FP.err
                · split
                  · exact FP.err
                  · rename_i hb
                    have hb' : d4.opcode = .beginLiteral := by simpa using hb
                    cases hr : readLiteral d4 with
                    | err => exact FP.err
                    | panic => exact FP.panic
                    | fuel => exact absurd hr (readLiteral_ne_fuel d4)
                    | ok p =>
                      obtain ⟨d5, lit5⟩ := p
                      obtain ⟨a5, s5⟩ := adv_readLiteral d4 d5 lit5 a4.2.2 hb' hr
                      dsimp only
                      have a15 := a3.trans (a4.trans a5)
                      refine (ih _ _ _ _ _ a5.2.2).lift a15 (by have := a15.2.1; omega) (fun hbf => ?_)
                      have : M d5 + 1 ≤ M d := a15.M_lt (by have := a3.2.1; have := a4.2.1; omega)
                      omega



def FWV (fo : FloatOracle) (f : Nat) : Prop :=
  ∀ (d : DState) (ifw : Bool) (name : Bytes), d.off ≤ d.data.length + 1 →
    FP d 0 (2 * M d + 1) f (writeValue fo f d ifw name)
def FCL (fo : FloatOracle) (f : Nat) : Prop :=
  ∀ (d : DState) (acc : Bytes), d.off ≤ d.data.length + 1 → FP d 0 (2 * M d + 1) f (compLoop fo f d acc)
def FWL (fo : FloatOracle) (f : Nat) : Prop :=
  ∀ (d : DState) (ifw : Bool) (name : Bytes), d.off ≤ d.data.length + 1 →
    FP d 0 (2 * M d + 1) f (writeListOrArray fo f d ifw name)
def FLL (fo : FloatOracle) (f : Nat) : Prop :=
  ∀ (d : DState) (e : Byte) (c : Nat) (b : Bytes), DI d → FP d 0 (2 * M d + 2) f (listListLoop fo f d e c b)
def FCLL (fo : FloatOracle) (f : Nat) : Prop :=
  ∀ (d : DState) (c : Nat) (b : Bytes), DI d → FP d 0 (2 * M d + 2) f (compListLoop fo f d c b)

theorem FP.fuel_absurd {α} {d : DState} {b f : Nat} (h : ¬ b ≤ f) : FP (α := α) d 0 b f .fuel := by
  refine ⟨?_, fun hb => absurd hb h⟩
  intro _ _ e; cases e

theorem FWV_step (fo : FloatOracle) (f : Nat) (hCL : FCL fo f) (hWL : FWL fo f) : FWV fo (f + 1) := by
  intro d ifw name hoff
  unfold writeValue
  dsimp only
  have a1 := (adv_scanWhile .skipSpace d hoff).1
  have hreal := scanWhile_real .skipSpace d hoff
  generalize scanWhile .skipSpace d = d1 at a1 hreal ⊢
  cases hop : d1.opcode with
  | error => exact FP.err
  | beginLiteral =>
    dsimp only
    cases hr : readLiteral d1 with
    | err => exact FP.err
    | panic => exact FP.panic
    | fuel => exact absurd hr (readLiteral_ne_fuel d1)
    | ok p =>
      obtain ⟨d2, lit⟩ := p
      obtain ⟨a2, _⟩ := adv_readLiteral d1 d2 lit a1.2.2 hop hr
      dsimp only
      cases hpl : parseLiteral fo lit with
      | err => exact FP.err
      | panic => exact FP.panic
      | fuel => exact absurd hpl (parseLiteral_ne_fuel fo lit)
      | ok q =>
        obtain ⟨t, v⟩ := q
        cases v with
        | none => exact FP.err
        | some v =>
          dsimp only
          split
          · exact FP.err
          · exact FP.ok (a1.trans a2) (by have := (a1.trans a2).2.1; omega)
  | beginCompound =>
    dsimp only
    have hp := hreal (by rw [hop]; simp) (by rw [hop]; simp)
    have := (hCL d1 [] a1.2.2.1).lift (s := 0) (b := 2 * M d + 1) (f := f + 1) a1 (by have := a1.2.1; omega)
      (fun hb => by have := a1.M_lt hp; omega)
    refine this.same ?_
    cases compLoop fo f d1 [] with
    | ok p => obtain ⟨d2, o⟩ := p; simp [Same]
    | _ => simp [Same]
  | beginList =>
    dsimp only
    have hp := hreal (by rw [hop]; simp) (by rw [hop]; simp)
    have := (hWL d1 ifw name a1.2.2.1).lift (s := 0) (b := 2 * M d + 1) (f := f + 1) a1 (by have := a1.2.1; omega)
      (fun hb => by have := a1.M_lt hp; omega)
    refine this.same ?_
    cases writeListOrArray fo f d1 ifw name with
    | ok p => obtain ⟨d2, t, o⟩ := p; simp [Same]
    | _ => simp [Same]
  | _ => exact FP.panic



theorem FCL_step (fo : FloatOracle) (f : Nat) (hWV : FWV fo f) (hCL : FCL fo f) : FCL fo (f + 1) := by
  intro d acc hoff
  unfold compLoop
  dsimp only
  have a1 := (adv_scanWhile .skipSpace d hoff).1
  have hreal := scanWhile_real .skipSpace d hoff
  generalize scanWhile .skipSpace d = d1 at a1 hreal ⊢
  split
  · have a2 := (adv_scanNext d1 a1.2.2.1).1
    exact FP.ok (a1.trans a2) (by have := (a1.trans a2).2.1; omega)
  · split
    · exact FP.err
    · split
      · exact FP.panic
      · rename_i hb
        have hb' : d1.opcode = .beginLiteral := by simpa using hb
        have hp := hreal (by rw [hb']; simp) (by rw [hb']; simp)
        cases hr : readLiteral d1 with
        | err => exact FP.err
        | panic => exact FP.panic
        | fuel => exact absurd hr (readLiteral_ne_fuel d1)
        | ok p =>
          obtain ⟨d2, nm⟩ := p
          obtain ⟨a2, _⟩ := adv_readLiteral d1 d2 nm a1.2.2 hb' hr
          dsimp only
          cases nm with
          | nil => exact FP.panic
          | cons q rest =>
            dsimp only
            generalize hX : (ite ((q == 34 || q == 39) = true) _ _ : PRes Bytes) = X
            cases X with
            | err => exact FP.err
            | panic => exact FP.panic
            | fuel =>
              exfalso
              by_cases hq : (q == 34 || q == 39) = true
              · rw [if_pos hq] at hX
                split at hX
                all_goals first
                  | (cases hX; done)
                  | (rename_i h; exact absurd h (parseLiteral_ne_fuel _ _))
              · rw [if_neg hq] at hX; cases hX
            | ok tn =>
              dsimp only
              split
              · exact FP.err
              have a3 := adv_skip d2 a2.2.2
              generalize skip d2 = d3 at a3 ⊢
              have a13 := a1.trans (a2.trans a3)
              split
              · exact FP.err
              · split
                · exact FP.panic
                · have hlt : M d3 + 1 ≤ M d := a13.M_lt (by have := a2.2.1; have := a3.2.1; omega)
                  have hw := hWV d3 true tn a3.2.2.1
                  cases hrw : writeValue fo f d3 true tn with
                  | err => exact FP.err
                  | panic => exact FP.panic
                  | fuel => rw [hrw] at hw; exact FP.fuel_absurd (fun hb => absurd rfl (hw.2 (by omega)))
                  | ok p =>
                    obtain ⟨d4, out⟩ := p
                    rw [hrw] at hw
                    have a4 := (hw.1 d4 out rfl).1
                    dsimp only
                    have a5 := adv_skip d4 a4.2.2
                    generalize skip d4 = d5 at a5 ⊢
                    have a15 := a13.trans (a4.trans a5)
                    split
                    · exact FP.err
                    · split
                      · have a6 := (adv_scanNext d5 a5.2.2.1).1
                        exact FP.ok (a15.trans a6) (by have := (a15.trans a6).2.1; omega)
                      · split
                        · exact FP.panic
                        · refine (hCL d5 _ a5.2.2.1).lift a15 (by have := a15.2.1; omega) (fun hb => ?_)
                          have : M d5 ≤ M d3 := (a4.trans a5).M_le
                          omega



theorem FWL_step (fo : FloatOracle) (f : Nat) (hLL : FLL fo f) (hCLL : FCLL fo f) : FWL fo (f + 1) := by
  intro d ifw name hoff
  unfold writeListOrArray
  dsimp only
  have a1 := (adv_scanWhile .skipSpace d hoff).1
  have hreal := scanWhile_real .skipSpace d hoff
  generalize scanWhile .skipSpace d = d1 at a1 hreal ⊢
  split
  · have a2 := (adv_scanNext d1 a1.2.2.1).1
    exact FP.ok (a1.trans a2) (by have := (a1.trans a2).2.1; omega)
  · cases hop : d1.opcode with
    | error => exact FP.err
    | beginLiteral =>
      dsimp only
      have hp := hreal (by rw [hop]; simp) (by rw [hop]; simp)
      cases hr : readLiteral d1 with
      | err => exact FP.err
      | panic => exact FP.panic
      | fuel => exact absurd hr (readLiteral_ne_fuel d1)
      | ok p =>
        obtain ⟨d2, lit⟩ := p
        obtain ⟨a2, _⟩ := adv_readLiteral d1 d2 lit a1.2.2 hop hr
        dsimp only
        have a3 := adv_skip d2 a2.2.2
        generalize skip d2 = d3 at a3 ⊢
        have a13 := a1.trans (a2.trans a3)
        have hlt : M d3 + 1 ≤ M d := a13.M_lt (by have := a2.2.1; have := a3.2.1; omega)
        split
        · exact FP.err
        · split
          · cases lit with
            | nil => exact FP.panic
            | cons c0 rest =>
              dsimp only
              have hw : ∀ (tt et : Byte),
                  FP d 0 (2 * M d + 1) (f + 1)
                    (match writeArray fo f d3 et with
                     | .err => .err | .panic => .panic | .fuel => .fuel
                     | .ok (d', out) => (.ok (scanNext d', tt, hdr ifw tt name ++ out) : PRes (DState × Byte × Bytes))) := by
                intro tt et
                refine (writeArray_fuel fo et f d3 a3.2.2).next (b0 := 2 * M d + 1) (f0 := f + 1) a13
                  (fun hb => by omega) _ ?_
                cases writeArray fo f d3 et with
                | ok p => obtain ⟨d', o⟩ := p; simp [NextRel]
                | _ => simp [NextRel]
              by_cases c1 : (c0 == 66) = true
              · simp only [c1, if_true]; exact hw _ _
              · by_cases c2 : (c0 == 73) = true
                · simp only [c1, c2, if_true, Bool.false_eq_true, if_false]; exact hw _ _
                · by_cases c3 : (c0 == 76) = true
                  · simp only [c1, c2, c3, if_true, Bool.false_eq_true, if_false]; exact hw _ _
                  · simp only [c1, c2, c3, Bool.false_eq_true, if_false]; exact FP.err
          · split
            · exact FP.panic
            · refine (litListLoop_fuel fo f d3 lit 0 0 [] a3.2.2).next (b0 := 2 * M d + 1) (f0 := f + 1)
                a13 (fun hb => by omega) _ ?_
              cases litListLoop fo f d3 lit 0 0 [] with
              | ok p => obtain ⟨d', o⟩ := p; simp [NextRel]
              | _ => simp [NextRel]
    | beginList =>
      dsimp only
      have hp := hreal (by rw [hop]; simp) (by rw [hop]; simp)
      refine (hLL d1 0 0 [] a1.2.2).next (b0 := 2 * M d + 1) (f0 := f + 1) a1
        (fun hb => by have := a1.M_lt hp; omega) _ ?_
      cases listListLoop fo f d1 0 0 [] with
      | ok p => obtain ⟨d', o⟩ := p; simp [NextRel]
      | _ => simp [NextRel]
    | beginCompound =>
      dsimp only
      have hp := hreal (by rw [hop]; simp) (by rw [hop]; simp)
      refine (hCLL d1 0 [] a1.2.2).next (b0 := 2 * M d + 1) (f0 := f + 1) a1
        (fun hb => by have := a1.M_lt hp; omega) _ ?_
      cases compListLoop fo f d1 0 [] with
      | ok p => obtain ⟨d', o⟩ := p; simp [NextRel]
      | _ => simp [NextRel]
    | _ =>
      dsimp only
      have a2 := (adv_scanNext d1 a1.2.2.1).1
      exact FP.ok (a1.trans a2) (by have := (a1.trans a2).2.1; omega)

theorem FLL_step (fo : FloatOracle) (f : Nat) (hWL : FWL fo f) (hLL : FLL fo f) : FLL fo (f + 1) := by
  intro d e c b hdi
  unfold listListLoop
  dsimp only
  have a1 := adv_skip d hdi
  generalize skip d = d1 at a1 ⊢
  split
  · exact FP.err
  · have hw := hWL d1 false [] a1.2.2.1
    cases hrw : writeListOrArray fo f d1 false [] with
    | err => exact FP.err
    | panic => exact FP.panic
    | fuel => rw [hrw] at hw; exact FP.fuel_absurd (fun hb => absurd rfl (hw.2 (by have := a1.M_le; omega)))
    | ok p =>
      obtain ⟨d2, t, out⟩ := p
      rw [hrw] at hw
      have a2 := (hw.1 d2 (t, out) rfl).1
      dsimp only
      split
      · exact FP.err
      · have a3 := adv_skip d2 a2.2.2
        generalize skip d2 = d3 at a3 ⊢
        have a13 := a1.trans (a2.trans a3)
        split
        · exact FP.err
        · split
          · exact FP.ok a13 (by have := a13.2.1; omega)
          · split
            · exact FP.panic
            · rename_i h1 h2 h3
              have hop : d3.opcode = .listValue := by simpa using h3
              have hle : d3.off ≤ d3.data.length := a3.2.2.real hop (by simp) (by simp)
              obtain ⟨a4, s4⟩ := adv_scanNext d3 a3.2.2.1
              refine (hLL _ _ _ _ a4.2.2).lift (a13.trans a4) (by have := (a13.trans a4).2.1; omega) (fun hb => ?_)
              have : M d3.scanNext + 1 ≤ M d := (a13.trans a4).M_lt (by have := s4 hle; have := a13.2.1; omega)
              omega

theorem FCLL_step (fo : FloatOracle) (f : Nat) (hCL : FCL fo f) (hCLL : FCLL fo f) : FCLL fo (f + 1) := by
  intro d c b hdi
  unfold compListLoop
  dsimp only
  have a1 := adv_skip d hdi
  generalize skip d = d1 at a1 ⊢
  split
  · exact FP.err
  · have hw := hCL d1 [] a1.2.2.1
    cases hrw : compLoop fo f d1 [] with
    | err => exact FP.err
    | panic => exact FP.panic
    | fuel => rw [hrw] at hw; exact FP.fuel_absurd (fun hb => absurd rfl (hw.2 (by have := a1.M_le; omega)))
    | ok p =>
      obtain ⟨d2, out⟩ := p
      rw [hrw] at hw
      have a2 := (hw.1 d2 out rfl).1
      dsimp only
      have a3 := adv_skip d2 a2.2.2
      generalize skip d2 = d3 at a3 ⊢
      have a3' := adv_skip d3 a3.2.2
      generalize skip d3 = d4 at a3' ⊢
      have a13 := a1.trans (a2.trans (a3.trans a3'))
      split
      · exact FP.err
      · split
        · exact FP.ok a13 (by have := a13.2.1; omega)
        · split
          · exact FP.panic
          · rename_i h1 h2 h3
            have hop : d4.opcode = .listValue := by simpa using h3
            have hle : d4.off ≤ d4.data.length := a3'.2.2.real hop (by simp) (by simp)
            obtain ⟨a4, s4⟩ := adv_scanNext d4 a3'.2.2.1
            refine (hCLL _ _ _ a4.2.2).lift (a13.trans a4) (by have := (a13.trans a4).2.1; omega) (fun hb => ?_)
            have : M d4.scanNext + 1 ≤ M d := (a13.trans a4).M_lt (by have := s4 hle; have := a13.2.1; omega)
            omega

/-- with fuel `2·(bytes left + 1) + 1` (`+ 2` for the two list loops) no emitter runs out of fuel -/
theorem emitters_fuel (fo : FloatOracle) : ∀ f : Nat, FWV fo f ∧ FCL fo f ∧ FWL fo f ∧ FLL fo f ∧ FCLL fo f := by
  intro f
  induction f with
  | zero =>
    refine ⟨?_, ?_, ?_, ?_, ?_⟩
    · intro d ifw name _; exact ⟨fun _ _ h => by simp [writeValue] at h, fun h => by omega⟩
    · intro d acc _; exact ⟨fun _ _ h => by simp [compLoop] at h, fun h => by omega⟩
    · intro d ifw name _; exact ⟨fun _ _ h => by simp [writeListOrArray] at h, fun h => by omega⟩
    · intro d e c b _; exact ⟨fun _ _ h => by simp [listListLoop] at h, fun h => by omega⟩
    · intro d c b _; exact ⟨fun _ _ h => by simp [compListLoop] at h, fun h => by omega⟩
  | succ f ih =>
    obtain ⟨hWV, hCL, hWL, hLL, hCLL⟩ := ih
    exact ⟨FWV_step fo f hCL hWL, FCL_step fo f hWV hCL, FWL_step fo f hLL hCLL, FLL_step fo f hWL hLL,
      FCLL_step fo f hCL hCLL⟩

/-- `MarshalNBT` with the fuel `parseFuel text = 2·len + 8` never runs out of it -/
theorem marshal_no_fuel (fo : FloatOracle) (text : Bytes) : marshal fo text ≠ .fuel := by
  unfold marshal marshalWith
  dsimp only
  have h := (emitters_fuel fo (parseFuel text)).1 { data := text, scan := Scanner.reset } false []
    (by simp)
  have hb : 2 * M { data := text, scan := Scanner.reset } + 1 ≤ parseFuel text := by
    unfold M parseFuel; simp only; omega
  cases hr : writeValue fo (parseFuel text) { data := text, scan := Scanner.reset } false [] with
  | err => simp
  | panic => simp
  | fuel => rw [hr] at h; exact absurd rfl (h.2 hb)
  | ok p =>
    obtain ⟨d, out⟩ := p
    dsimp only
    split
    · simp
    · split <;> simp


end GoMC.Model.SNBT
