/-
  C06 lemmas about `packet.NBTField`, stated over the shared model `Go.fieldRead` (Model/NBTField.lean, typed NBT
  codec). What C02 proves for the field (never panics for every well-shaped prior value, fragmentation
  invariance, count = bytes consumed, round trip into a FRESH variable on the plain fragment) is used as is;
  this file adds what C06 is about — the destination's PRIOR STATE:
    * a lone TAG_End zeroes every destination, whatever it held;
    * `*RawMessage`: exact round trip for every prior value (and the `RT` instance that nests it in Ary/Option/Tuple);
    * `*any` holding nil: the Go tree of the document;
    * strict prefixes of a document are rejected (`*RawMessage`).
-/
import GoMC.Model.PkNBTField
import GoMC.Lemmas.NBTField
import GoMC.Lemmas.NBTDecode
import GoMC.Lemmas.Fields
namespace GoMC.Lemmas.PkNBTField
open GoMC GoMC.Rd GoMC.Model GoMC.Model.Go GoMC.Model.NBTF GoMC.Lemmas.NBTDecode
open GoMC.Spec (NBT encPayload encDoc Format)

/-! ### TAG_End as the root tag -/

theorem refuseG_end {α : Type} (s : Stream) : (refuseG 0#8 : Rd α) s = (Res.err, s) := by
  simp [refuseG, NBT.refuse, Rd.bind_apply, Rd.fail]

/-- `decodingNull`: every destination but `dynbt.Value` answers TAG_End with an error (ErrEND) and reads nothing -/
theorem unmarshal_end (cx : SnbtCarrier) (d : Bool) (f : Nat) (ty : GoType) (old : GoVal) (hty : ty ≠ .dyn)
    (s : Stream) : unmarshal cx d (f + 1) ty old 0#8 s = (Res.err, s) := by
  have h0 : (0#8 : Byte).toNat = 0 := rfl
  cases ty with
  | dyn => exact absurd rfl hty
  | raw => simp [unmarshal, umCarrier, Rd.fail]
  | snbt => simp [unmarshal, umCarrier, Rd.fail]
  | ptr e => simp [unmarshal, umPtr, Rd.fail]
  | iface => simp [unmarshal, umIface, Rd.fail]
  | bool => simp only [unmarshal, umBool, h0]; exact refuseG_end s
  | int k => simp only [unmarshal, umInt, h0, intAccepts]; exact refuseG_end s
  | f32 => simp only [unmarshal, umF32, h0]; exact refuseG_end s
  | f64 => simp only [unmarshal, umF64, h0]; exact refuseG_end s
  | str => simp only [unmarshal, umStr, h0]; exact refuseG_end s
  | slice e => simp only [unmarshal, umSlice, h0]; exact refuseG_end s
  | array n e => simp only [unmarshal, umArray, h0]; exact refuseG_end s
  | map e => simp only [unmarshal, umMap, h0]; exact refuseG_end s
  | struct n fs => simp only [unmarshal, umStruct, h0]; exact refuseG_end s

theorem typedFuel_pos (s : Stream) (ty : GoType) (old : GoVal) : ∃ f, typedFuel s ty old = f + 1 := by
  refine ⟨typedFuel s ty old - 1, ?_⟩
  unfold typedFuel NBT.fuelFor; omega

/-- "no value": one byte, count 1, the destination zeroed — whatever it held (every type but `dynbt.Value`, which
accepts TAG_End itself) -/
theorem fieldRead_absent (cx : SnbtCarrier) (allow : Bool) (ty : GoType) (old : GoVal) (hty : ty ≠ .dyn)
    (s : Stream) (rest : Bytes) (hs : s.flat = 0#8 :: rest) :
    ∃ s', fieldRead cx allow ty old s = (Res.ok (ty.zero, 1), s') ∧ s'.flat = rest ∧ s'.failing = s.failing := by
  obtain ⟨hb, hf⟩ := Lemmas.readByte_cons s _ rest hs
  obtain ⟨f, hfuel⟩ := typedFuel_pos s ty old
  have hd : decodeInto cx true (!allow) ty old s = (Res.err, s.drop 1) := by
    unfold decodeInto NBT.readHead
    simp only [if_true]
    rw [Rd.bind_apply, Rd.bind_ok hb]
    simp only [Rd.pure_apply]
    rw [hfuel, Rd.bind_apply, unmarshal_end cx _ f ty old hty]
  refine ⟨s.drop 1, ?_, hf, rfl⟩
  unfold fieldRead
  rw [hd]
  simp only [hs, List.head?_cons, if_true, hf, List.length_cons]
  congr 3
  omega

/-! ### exact reads of a well-formed document -/

/-- from an exact read of the value to the field: value, count = length of the document, rest untouched -/
theorem fieldRead_of_R {v : GoVal} (cx : SnbtCarrier) (allow : Bool) (ty : GoType) (old : GoVal) (t : NBT)
    (s : Stream) (rest : Bytes) (hs : s.flat = encDoc .network [] t ++ rest)
    (h : R (cost t ≤ typedFuel s ty old) (unmarshal cx (!allow) (typedFuel s ty old) ty old t.tag) (encPayload t) v) :
    ∃ s', fieldRead cx allow ty old s = (Res.ok (v, (encDoc .network [] t).length), s') ∧ s'.flat = rest
      ∧ s'.failing = s.failing := by
  have hf := fuelFor_enough .network [] t rest s hs
  have hsplit : encDoc .network [] t = [t.tag] ++ encPayload t := by simp [encDoc]
  have hR : R (cost t ≤ typedFuel s ty old)
      (do let (tg, name) ← NBT.readHead true
          let v ← unmarshal cx (!allow) (typedFuel s ty old) ty old tg
          Pure.pure (v, name)) (encDoc .network [] t) (v, ([] : Bytes)) := by
    rw [hsplit]
    have hh : R (cost t ≤ typedFuel s ty old) (NBT.readHead true) [t.tag] (t.tag, ([] : Bytes)) := by
      unfold NBT.readHead
      simp only [if_true]
      exact R_enc (by simp) (R_bind (R_readByte _ t.tag) (R_pure _ _))
    apply R_bind hh
    simp only
    exact R_enc (by simp) (R_bind h (R_pure _ _))
  rcases hR s rest hs with ⟨s', h1, h2, h3⟩ | ⟨hn, _⟩
  · refine ⟨s', ?_, h2, h3⟩
    have hd : decodeInto cx true (!allow) ty old s = (Res.ok (v, []), s') := h1
    unfold fieldRead
    rw [hd]
    simp only [h2, hs, List.length_append]
    congr 3
    omega
  · exact absurd (by unfold typedFuel; omega) hn

/-- `*RawMessage`: tag and exact payload, for EVERY prior value of the destination -/
theorem fieldRead_raw (cx : SnbtCarrier) (allow : Bool) (t : NBT) (old : GoVal) (s : Stream) (rest : Bytes)
    (hwf : t.WF) (hs15 : S15 t) (hs : s.flat = encDoc .network [] t ++ rest) :
    ∃ s', fieldRead cx allow .raw old s = (Res.ok (.raw t.tag (encPayload t), (encDoc .network [] t).length), s')
      ∧ s'.flat = rest ∧ s'.failing = s.failing := by
  apply fieldRead_of_R cx allow .raw old t s rest hs
  obtain ⟨f, hfuel⟩ := typedFuel_pos s .raw old
  rw [hfuel]
  simp only [unmarshal, umCarrier]
  rw [if_neg (tag_not_magic t).1]
  exact R_enc (by simp) (R_bind (raw_R t (f + 1) hwf hs15) (R_pure _ _))

/-- `*any` holding nil: the Go tree of the document -/
theorem fieldRead_any (cx : SnbtCarrier) (allow : Bool) (t : NBT) (s : Stream) (rest : Bytes)
    (hwf : t.WF) (hs15 : S15 t) (hs : s.flat = encDoc .network [] t ++ rest) :
    ∃ s', fieldRead cx allow .iface (.iface none) s =
        (Res.ok (.iface (some (ofAny (goAny t))), (encDoc .network [] t).length), s')
      ∧ s'.flat = rest ∧ s'.failing = s.failing := by
  apply fieldRead_of_R cx allow .iface (.iface none) t s rest hs
  obtain ⟨f, hfuel⟩ := typedFuel_pos s .iface (.iface none)
  rw [hfuel]
  simp only [unmarshal, umIface]
  rw [if_neg (tag_not_magic t).1]
  exact R_enc (by simp) (R_bind (any_R t (f + 1) hwf hs15) (R_pure _ _))

/-! ### the `RT` instance for `*RawMessage` cells -/

/-- a cell to write: "no value" (one TAG_End byte) or the network-format document of a well-formed tree -/
def CellDom (c : Cell) : Prop :=
  c.wire = [0#8] ∨ ∃ t : NBT, t.WF ∧ S15 t ∧ c.wire = encDoc .network [] t

/-- what a `*RawMessage` destination must hold after reading the cell `v` -/
def CellEqvRaw (d v : Cell) : Prop :=
  (v.wire = [0#8] → d.dst = .raw 0 []) ∧
  (∀ t : NBT, t.WF → S15 t → v.wire = encDoc .network [] t → d.dst = .raw t.tag (encPayload t))

theorem encDoc_ne_end (t : NBT) : encDoc .network [] t ≠ [0#8] := by
  intro h
  have : encDoc .network [] t = t.tag :: encPayload t := by simp [encDoc]
  rw [this] at h
  injection h with h1 _
  exact (tag_not_magic t).1 h1

theorem rt_cell_raw (cx : SnbtCarrier) (allow : Bool) : Lemmas.RT (cellC cx allow .raw) CellDom CellEqvRaw := by
  intro v d s rest hv hs
  have hw : ((cellC cx allow .raw).enc v).1 = v.wire := rfl
  rw [hw] at hs ⊢
  rcases hv with h0 | ⟨t, hwf, hs15, ht⟩
  · rw [h0] at hs
    obtain ⟨s', h, hf, hfl⟩ := fieldRead_absent cx allow .raw d.dst (by simp) s rest (by simpa using hs)
    refine ⟨⟨d.wire, GoType.zero .raw⟩, s', ?_, ⟨fun _ => rfl, ?_⟩, hf, hfl⟩
    · show ((fieldRead cx allow .raw d.dst) >>= _) s = _
      rw [Rd.bind_ok h, h0]; rfl
    · intro t _ _ ht; exact absurd ht.symm (by rw [h0]; exact encDoc_ne_end t)
  · rw [ht] at hs
    obtain ⟨s', h, hf, hfl⟩ := fieldRead_raw cx allow t d.dst s rest hwf hs15 hs
    refine ⟨⟨d.wire, .raw t.tag (encPayload t)⟩, s', ?_, ⟨?_, ?_⟩, hf, hfl⟩
    · show ((fieldRead cx allow .raw d.dst) >>= _) s = _
      rw [Rd.bind_ok h, ht]; rfl
    · intro h0; exact absurd (ht ▸ h0) (encDoc_ne_end t)
    · intro t' hwf' hs15' ht'
      have heq : encDoc .network [] t ++ [] = encDoc .network [] t' ++ [] := by rw [← ht, ← ht']
      have := Spec.encDoc_prefix_free .network [] [] t t' [] [] (by decide) (by decide) hwf hwf' heq
      rw [this.2.1]

/-! ### a strict prefix of a document is never accepted (`*RawMessage`) -/

theorem fieldRead_raw_prefix (cx : SnbtCarrier) (allow : Bool) (t : NBT) (old : GoVal) (hwf : t.WF) (hs15 : S15 t)
    (pre more : Bytes) (hdoc : encDoc .network [] t = pre ++ more) (hmore : more ≠ [])
    (u : Stream) (hu : u.flat = pre) : ∀ b, (fieldRead cx allow .raw old u).1 ≠ Res.ok b := by
  obtain ⟨f, hfuel⟩ := typedFuel_pos u .raw old
  -- the decode at the budget of `u`, as a program of its own
  let p : Rd (GoVal × Bytes) := do
    let (tg, name) ← NBT.readHead true
    let v ← unmarshal cx (!allow) (f + 1) .raw old tg
    Pure.pure (v, name)
  have hp : decodeInto cx true (!allow) .raw old u = p u := by
    show _ = (do let (tg, name) ← NBT.readHead true
                 let v ← unmarshal cx (!allow) (f + 1) .raw old tg
                 Pure.pure (v, name)) u
    unfold decodeInto; rw [hfuel]
  have hsplit : encDoc .network [] t = [t.tag] ++ encPayload t := by simp [encDoc]
  have hR : R (cost t ≤ f + 1) p (encDoc .network [] t) (.raw t.tag (encPayload t), ([] : Bytes)) := by
    rw [hsplit]
    have hh : R (cost t ≤ f + 1) (NBT.readHead true) [t.tag] (t.tag, ([] : Bytes)) := by
      unfold NBT.readHead
      simp only [if_true]
      exact R_enc (by simp) (R_bind (R_readByte _ t.tag) (R_pure _ _))
    apply R_bind hh
    simp only
    simp only [unmarshal, umCarrier]
    rw [if_neg (tag_not_magic t).1]
    exact R_enc (by simp) (R_bind (R_bind (raw_R t (f + 1) hwf hs15) (R_pure _ _)) (R_pure _ _))
  have hE : ExtStable p := by
    have hP := closed_extStable
    have hraw := fun tg => (closed_raw hP (f + 1)).1 tg
    have hhead := closed_readHead hP true
    refine hP.bind hhead (fun x => ?_)
    obtain ⟨tg, name⟩ := x
    refine hP.bind ?_ (fun _ => hP.pure _)
    simp only [unmarshal, umCarrier]
    exact hP.ite hP.fail (hP.bind (hraw tg) (fun _ => hP.pure _))
  have hno := R_prefix hR hE pre more hdoc hmore u hu
  intro b hb
  unfold fieldRead at hb
  rw [hp] at hb
  rcases hpu : p u with ⟨r, u'⟩
  rw [hpu] at hb
  cases r with
  | ok a => exact hno a (by rw [hpu])
  | err =>
    simp only at hb
    split at hb
    · -- a prefix starting with TAG_End: impossible, the document starts with its (non-End) tag
      rename_i h0
      have : pre ≠ [] → pre.head? = some t.tag := by
        intro hne
        cases pre with
        | nil => exact absurd rfl hne
        | cons x xs =>
          rw [hsplit] at hdoc
          simp only [List.cons_append, List.nil_append, List.cons.injEq] at hdoc
          simp [hdoc.1]
      rw [hu] at h0
      cases pre with
      | nil => simp at h0
      | cons x xs =>
        have := this (by simp)
        rw [this] at h0
        exact absurd (Option.some.inj h0) (tag_not_magic t).1
    · simp at hb
  | panic => simp at hb

end GoMC.Lemmas.PkNBTField
