/-
  Lemmas for C06 (shared with C08 / C09): what "round trip" means for a field codec (`RT`), the leaf
  codecs' round trips and layouts, and `FragInv` / `ExtStable` for every leaf decoder model.
  New generic `Rd` lemmas (not in Basic/Core): `readFull_append`, `readByte_cons`, `fragInv_varLoop`,
  `extStable_varLoop`, `extStable_map`-style closure through `bind`.
-/
import GoMC.Model.Fields
import GoMC.Model.Combinators
import GoMC.Lemmas.VarInt
import GoMC.Props.C05
namespace GoMC.Lemmas
open GoMC GoMC.Model GoMC.Spec

/-! ### definitions -/

/-- the count `WriteTo` returns is the number of bytes it produced -/
def CountOK {α} (c : Codec α) : Prop := ∀ v, (c.enc v).2 = (c.enc v).1.length

/-- Round trip, at full strength: for every value `v` in the domain, **every prior destination `d`**, every
source whose content starts with the encoding of `v` (however it is fragmented, whatever follows):
`ReadFrom` succeeds, returns exactly the number of bytes of the encoding, leaves the rest of the
source untouched, and the destination now holds a value equivalent to `v`. -/
def RT {α} (c : Codec α) (dom : α → Prop) (eqv : α → α → Prop) : Prop :=
  ∀ (v d : α) (s : Stream) (rest : Bytes), dom v → s.flat = (c.enc v).1 ++ rest →
    ∃ d' s', c.dec d s = (Res.ok (d', (c.enc v).1.length), s') ∧ eqv d' v ∧ s'.flat = rest ∧ s'.failing = s.failing

/-! ### reader primitives on a known prefix -/

theorem readFull_append (s : Stream) (bs rest : Bytes) (hs : s.flat = bs ++ rest) :
    Rd.readFull bs.length s = (Res.ok bs, s.drop bs.length) ∧ (s.drop bs.length).flat = rest := by
  unfold Rd.readFull
  have : bs.length ≤ s.flat.length := by rw [hs]; simp
  simp only [this, if_true, Stream.flat_drop, hs]
  simp

theorem readByte_cons (s : Stream) (b : Byte) (rest : Bytes) (hs : s.flat = b :: rest) :
    Rd.readByte s = (Res.ok b, s.drop 1) ∧ (s.drop 1).flat = rest := by
  unfold Rd.readByte
  rw [hs]
  simp [hs]

/-! ### big-endian -/

theorem toBE_length (k x : Nat) : (toBE k x).length = k := by
  induction k generalizing x with
  | zero => rfl
  | succ k ih => simp [toBE, ih]

theorem ofBE_append (a b : Bytes) : ofBE (a ++ b) = ofBE a * 256 ^ b.length + ofBE b := by
  induction a with
  | nil => simp [ofBE]
  | cons x xs ih =>
    simp only [List.cons_append, ofBE, ih, List.length_append, Nat.pow_add]
    rw [Nat.add_mul, Nat.mul_assoc]
    omega

theorem ofBE_toBE (k x : Nat) : ofBE (toBE k x) = x % 256 ^ k := by
  induction k generalizing x with
  | zero => simp [toBE, ofBE, Nat.mod_one]
  | succ k ih =>
    simp only [toBE, ofBE_append, ih, ofBE, List.length_cons, List.length_nil, BitVec.toNat_ofNat]
    have h256 : (2 : Nat) ^ 8 = 256 := by decide
    rw [h256, Nat.pow_succ, Nat.mul_comm (256 ^ k) 256, Nat.mod_mul]
    simp
    omega

theorem be_succ_low (k x : Nat) : be (k + 1) x = be k (x / 256) ++ [BitVec.ofNat 8 x] := by
  induction k with
  | zero => simp [be]
  | succ k ih =>
    rw [be, ih, be]
    simp only [List.cons_append, List.cons.injEq, and_true]
    rw [Nat.div_div_eq_div_mul, Nat.pow_succ, Nat.mul_comm]

/-- the model's byte order is the spec's -/
theorem toBE_eq_be (k x : Nat) : toBE k x = be k x := by
  induction k generalizing x with
  | zero => rfl
  | succ k ih => rw [toBE, ih, be_succ_low]

theorem ofNat_ofBE_toBE (k : Nat) (v : BitVec (8 * k)) : BitVec.ofNat (8 * k) (ofBE (toBE k v.toNat)) = v := by
  rw [ofBE_toBE]
  apply BitVec.eq_of_toNat_eq
  have : (256 : Nat) ^ k = 2 ^ (8 * k) := by
    rw [Nat.pow_mul]
  simp [this]

/-! ### leaf round trips -/

theorem countOK_wr (bs : Bytes) : (wr bs).2 = (wr bs).1.length := rfl

theorem readByte1_cons (s : Stream) (b : Byte) (rest : Bytes) (hs : s.flat = b :: rest) :
    readByte1 s = (Res.ok (b, 1), s.drop 1) := by
  unfold readByte1
  rw [Rd.bind_ok (readByte_cons s b rest hs).1]
  rfl

theorem rt_bool : RT boolC (fun _ => True) (fun d v => d = v) := by
  intro v d s rest _ hs
  have hb := readByte_cons s _ rest (by simpa [boolC, boolEnc, wr] using hs)
  refine ⟨v, s.drop 1, ?_, rfl, hb.2, rfl⟩
  have h1 := readByte1_cons s _ rest (by simpa [boolC, boolEnc, wr] using hs)
  simp only [boolC, boolDec]
  rw [Rd.bind_ok h1]
  cases v <;> simp [boolEnc, wr]

theorem rt_byte : RT byteC (fun _ => True) (fun d v => d = v) := by
  intro v d s rest _ hs
  have hb := readByte_cons s v rest (by simpa [byteC, byteEnc, wr] using hs)
  refine ⟨v, s.drop 1, ?_, rfl, hb.2, rfl⟩
  have h1 := readByte1_cons s v rest (by simpa [byteC, byteEnc, wr] using hs)
  simp only [byteC, byteDec]
  rw [Rd.bind_ok h1]
  simp [byteEnc, wr]

theorem rt_fix (k : Nat) : RT (fixC k) (fun _ => True) (fun d v => d = v) := by
  intro v d s rest _ hs
  have hs' : s.flat = toBE k v.toNat ++ rest := by simpa [fixC, fixEnc, wr] using hs
  have hb := readFull_append s _ rest hs'
  rw [toBE_length] at hb
  refine ⟨v, s.drop k, ?_, rfl, hb.2, rfl⟩
  simp only [fixC, fixDec]
  rw [Rd.bind_ok hb.1]
  simp [fixEnc, wr, toBE_length, ofNat_ofBE_toBE]

theorem leb32_le (v : BitVec 32) : (leb v.toNat).length ≤ maxVarIntLen := by
  rw [leb_length_le _ _ (by decide)]
  have := v.isLt
  have p : (128 : Nat) ^ maxVarIntLen = 34359738368 := by decide
  omega

theorem leb64_le (v : BitVec 64) : (leb v.toNat).length ≤ maxVarLongLen := by
  rw [leb_length_le _ _ (by decide)]
  have := v.isLt
  have p : (128 : Nat) ^ maxVarLongLen = 1180591620717411303424 := by decide
  omega

theorem varIntRead_leb (v : BitVec 32) (rest : Bytes) (s : Stream) (hs : s.flat = leb v.toNat ++ rest) :
    ∃ s', varIntRead s = (Res.ok (v, (leb v.toNat).length), s') ∧ s'.flat = rest ∧ s'.failing = s.failing := by
  obtain ⟨s', h, hf, hfl⟩ := varLoop_leb 32 maxVarIntLen 0 v.toNat 0#32 rest s (leb32_le v) hs
  refine ⟨s', ?_, hf, hfl⟩
  unfold varIntRead
  rw [h]; simp

theorem varLongRead_leb (v : BitVec 64) (rest : Bytes) (s : Stream) (hs : s.flat = leb v.toNat ++ rest) :
    ∃ s', varLongRead s = (Res.ok (v, (leb v.toNat).length), s') ∧ s'.flat = rest ∧ s'.failing = s.failing := by
  obtain ⟨s', h, hf, hfl⟩ := varLoop_leb 64 maxVarLongLen 0 v.toNat 0#64 rest s (leb64_le v) hs
  refine ⟨s', ?_, hf, hfl⟩
  unfold varLongRead
  rw [h]; simp

theorem varLongBytes_eq (v : BitVec 64) : varLongBytes v = leb v.toNat := Props.C05.C05_varlong_bytes v

theorem rt_varInt : RT varIntC (fun _ => True) (fun d v => d = v) := by
  intro v d s rest _ hs
  obtain ⟨s', h, hf, hfl⟩ := varIntRead_leb v rest s (by simpa [varIntC, varIntEnc, wr, varIntBytes] using hs)
  exact ⟨v, s', by simpa [varIntC, varIntEnc, wr, varIntBytes] using h, rfl, hf, hfl⟩

theorem rt_varLong : RT varLongC (fun _ => True) (fun d v => d = v) := by
  intro v d s rest _ hs
  obtain ⟨s', h, hf, hfl⟩ := varLongRead_leb v rest s (by simpa [varLongC, varLongEnc, wr, varLongBytes_eq] using hs)
  exact ⟨v, s', by simpa [varLongC, varLongEnc, wr, varLongBytes_eq] using h, rfl, hf, hfl⟩

/-- a length below 2^31 survives the conversion to VarInt and back, and is not negative -/
theorem len32 (n : Nat) (h : n < 2 ^ 31) :
    (BitVec.ofNat 32 n).toNat = n ∧ ¬ (BitVec.ofNat 32 n).toInt < 0 := by
  have h1 : (BitVec.ofNat 32 n).toNat = n := by simp [BitVec.toNat_ofNat]; omega
  refine ⟨h1, ?_⟩
  rw [BitVec.toInt_eq_toNat_cond, h1]
  have : 2 * n < 2 ^ 32 := by omega
  simp [this]

theorem rt_string : RT stringC (fun v => v.length < 2 ^ 31) (fun d v => d = v) := by
  intro v d s rest hdom hs
  obtain ⟨hn, hneg⟩ := len32 v.length hdom
  have henc : (stringEnc v).1 = leb v.length ++ v := by
    simp [stringEnc, varIntEnc, wr, varIntBytes, hn]
  change s.flat = (stringEnc v).1 ++ rest at hs
  rw [henc, List.append_assoc] at hs
  obtain ⟨s1, h1, hf1, hfl1⟩ := varIntRead_leb (BitVec.ofNat 32 v.length) (v ++ rest) s (by rw [hn]; exact hs)
  have hb := readFull_append s1 v rest hf1
  refine ⟨v, s1.drop v.length, ?_, rfl, hb.2, by simpa using hfl1⟩
  simp only [stringC, stringDec]
  rw [Rd.bind_ok h1]
  simp only [hneg, if_false, hn]
  rw [Rd.bind_ok hb.1]
  simp [henc]

theorem rt_byteArray : RT byteArrayC (fun v => v.elems.length < 2 ^ 31) (fun d v => d.elems = v.elems) := by
  intro v d s rest hdom hs
  obtain ⟨hn, hneg⟩ := len32 v.elems.length hdom
  have henc : (byteArrayEnc v).1 = leb v.elems.length ++ v.elems := by
    simp [byteArrayEnc, varIntEnc, wr, varIntBytes, hn]
  change s.flat = (byteArrayEnc v).1 ++ rest at hs
  rw [henc, List.append_assoc] at hs
  obtain ⟨s1, h1, hf1, hfl1⟩ := varIntRead_leb (BitVec.ofNat 32 v.elems.length) (v.elems ++ rest) s (by rw [hn]; exact hs)
  have hb := readFull_append s1 v.elems rest hf1
  refine ⟨⟨v.elems, (if d.cap < v.elems.length then Slice.make 0#8 v.elems.length else d.setLen v.elems.length).spare⟩,
    s1.drop v.elems.length, ?_, rfl, hb.2, by simpa using hfl1⟩
  simp only [byteArrayC, byteArrayDec]
  rw [Rd.bind_ok h1]
  simp only [hneg, if_false, hn]
  rw [Rd.bind_ok hb.1]
  simp [henc]

theorem longsEnc_fst (xs : List (BitVec 64)) :
    (longsEnc xs).1 = (xs.map fun x => toBE 8 x.toNat).flatten ∧ (longsEnc xs).2 = (longsEnc xs).1.length := by
  induction xs with
  | nil => simp [longsEnc]
  | cons x xs ih =>
    simp only [longsEnc, List.map_cons, List.flatten_cons, ih.1]
    constructor
    · simp [longC, fixC, fixEnc, wr]
    · rw [ih.2]; simp [longC, fixC, fixEnc, wr, ih.1]

theorem longsDec_rt (vs ds : List (BitVec 64)) (hlen : ds.length = vs.length) (s : Stream) (rest : Bytes)
    (hs : s.flat = (longsEnc vs).1 ++ rest) :
    ∃ s', longsDec ds s = (Res.ok (vs, (longsEnc vs).1.length), s') ∧ s'.flat = rest ∧ s'.failing = s.failing := by
  induction vs generalizing ds s with
  | nil =>
    cases ds with
    | nil => exact ⟨s, by simp [longsDec, longsEnc], by simpa [longsEnc] using hs, rfl⟩
    | cons _ _ => simp at hlen
  | cons v vs ih =>
    cases ds with
    | nil => simp at hlen
    | cons d ds =>
      have he : (longsEnc (v :: vs)).1 = (longC.enc v).1 ++ (longsEnc vs).1 := by simp [longsEnc]
      rw [he, List.append_assoc] at hs
      obtain ⟨d', s1, h1, rfl, hf1, hfl1⟩ := rt_fix 8 v d s _ trivial hs
      have h1 : longC.dec d s = _ := h1
      obtain ⟨s2, h2, hf2, hfl2⟩ := ih ds (by simpa using hlen) s1 hf1
      refine ⟨s2, ?_, hf2, hfl2.trans hfl1⟩
      simp only [longsDec]
      rw [Rd.bind_ok h1]
      simp only
      rw [Rd.bind_ok h2]
      simp [he, longC]

theorem length_setLen {α} (s : Slice α) (n : Nat) (h : ¬ s.cap < n) : (s.setLen n).elems.length = n := by
  simp [Slice.setLen, Slice.cap] at *
  omega

theorem rt_bitSet : RT bitSetC (fun v => v.elems.length < 2 ^ 31) (fun d v => d.elems = v.elems) := by
  intro v d s rest hdom hs
  obtain ⟨hn, hneg⟩ := len32 v.elems.length hdom
  have henc : (bitSetEnc v).1 = leb v.elems.length ++ (longsEnc v.elems).1 := by
    simp [bitSetEnc, varIntEnc, wr, varIntBytes, hn]
  change s.flat = (bitSetEnc v).1 ++ rest at hs
  rw [henc, List.append_assoc] at hs
  obtain ⟨s1, h1, hf1, hfl1⟩ := varIntRead_leb (BitVec.ofNat 32 v.elems.length) _ s (by rw [hn]; exact hs)
  let dst : Slice (BitVec 64) := if v.elems.length > d.cap then Slice.make 0#64 v.elems.length else d.setLen v.elems.length
  have hdl : dst.elems.length = v.elems.length := by
    show (if v.elems.length > d.cap then Slice.make 0#64 v.elems.length else d.setLen v.elems.length).elems.length = _
    split
    · simp [Slice.make]
    · exact length_setLen d _ (by omega)
  obtain ⟨s2, h2, hf2, hfl2⟩ := longsDec_rt v.elems dst.elems hdl s1 rest hf1
  refine ⟨⟨v.elems, dst.spare⟩, s2, ?_, rfl, hf2, hfl2.trans hfl1⟩
  simp only [bitSetC, bitSetDec]
  rw [Rd.bind_ok h1]
  simp only [hneg, if_false, hn]
  rw [Rd.bind_ok h2]
  simp [henc]
  rfl

/-- PluginMessageData reads to the end of the input: it round-trips exactly when nothing follows it -/
theorem rt_plugin (v d : Bytes) (s : Stream) (hs : s.flat = v) (hf : s.failing = false) :
    ∃ s', pluginC.dec d s = (Res.ok (v, v.length), s') ∧ s'.flat = [] := by
  refine ⟨s.drained, ?_, rfl⟩
  simp [pluginC, pluginDec, Rd.bind_apply, Rd.readAll, hf, hs]

/-! ### Position: the packed word and its inverse on the 26/12/26-bit cube -/

theorem mask_bit (n i : Nat) (hn : n ≤ 64) : (BitVec.ofNat 64 (2 ^ n - 1)).getLsbD i = decide (i < n) := by
  rw [BitVec.getLsbD_ofNat, Nat.testBit_two_pow_sub_one]
  by_cases h : i < n
  · have : i < 64 := by omega
    simp [h, this]
  · simp [h]

/-- a 64-bit integer within `[-2^k, 2^k)` repeats its bit `k` in all higher bits (sign extension) -/
theorem sext_bits (x : BitVec 64) (k : Nat) (hk : k < 64)
    (hlo : -(2 ^ k : Int) ≤ x.toInt) (hhi : x.toInt < 2 ^ k) :
    ∀ i, k ≤ i → i < 64 → x.getLsbD i = x.getLsbD k := by
  intro i hki hi
  have hx := x.isLt
  have h2k : (2:Nat) ^ k < 2 ^ 64 := Nat.pow_lt_pow_right (by omega) hk
  rw [BitVec.toInt_eq_toNat_cond] at hlo hhi
  by_cases hneg : 2 * x.toNat < 2 ^ 64
  · simp only [hneg, if_true] at hlo hhi
    have hlt : x.toNat < 2 ^ k := by exact_mod_cast hhi
    have hz := high_bits_zero x k hlt
    rw [BitVec.getLsbD_eq_getElem hi, BitVec.getLsbD_eq_getElem hk, hz i hi hki, hz k hk (Nat.le_refl _)]
  · simp only [hneg, if_false] at hlo hhi
    -- the complement is small
    have hc : (~~~x).toNat < 2 ^ k := by
      rw [BitVec.toNat_not]
      have : (2:Int) ^ 64 - 2 ^ k ≤ (x.toNat : Int) := by
        have e : ((2 ^ 64 : Nat) : Int) = (2:Int) ^ 64 := by norm_cast
        omega
      have e2 : ((2 ^ k : Nat) : Int) = (2 : Int) ^ k := by norm_cast
      omega
    have hz := high_bits_zero (~~~x) k hc
    have h1 := hz i hi hki
    have h2 := hz k hk (Nat.le_refl _)
    simp only [BitVec.getElem_not] at h1 h2
    rw [BitVec.getLsbD_eq_getElem hi, BitVec.getLsbD_eq_getElem hk]
    simp only [Bool.not_eq_false'] at h1 h2
    rw [h1, h2]
theorem m26 : (67108863#64) = BitVec.ofNat 64 (2 ^ 26 - 1) := by decide
theorem m12 : (4095#64) = BitVec.ofNat 64 (2 ^ 12 - 1) := by decide

theorem pack_bit (x z y : BitVec 64) (j : Nat) (hj : j < 64) :
    (posPackW x z y).getLsbD j =
      if j < 12 then y.getLsbD j else if j < 38 then z.getLsbD (j - 12) else x.getLsbD (j - 38) := by
  unfold posPackW
  rw [m26, m12]
  simp only [BitVec.getLsbD_or, BitVec.getLsbD_shiftLeft, BitVec.getLsbD_and, mask_bit _ _ (by omega : 26 ≤ 64),
    mask_bit _ _ (by omega : 12 ≤ 64), hj, decide_true, Bool.true_and]
  by_cases h12 : j < 12
  · have : j < 38 := by omega
    simp [h12, this]
  · by_cases h38 : j < 38
    · have : j - 12 < 26 := by omega
      simp [h12, h38, this]
    · have h1 : ¬ j - 12 < 26 := by omega
      have h2 : j - 38 < 26 := by omega
      simp [h12, h38, h1, h2]

theorem unpackX_pack (x z y : BitVec 64) (hlo : -(2 ^ 25 : Int) ≤ x.toInt) (hhi : x.toInt < 2 ^ 25) :
    posUnpackX (posPackW x z y) = x := by
  apply BitVec.eq_of_getLsbD_eq
  intro i hi
  have hs := sext_bits x 25 (by omega) hlo hhi
  unfold posUnpackX
  rw [BitVec.getLsbD_sshiftRight]
  have hd : decide (64 ≤ i) = false := by simp; omega
  simp only [hd, Bool.not_false, Bool.true_and]
  by_cases h : 38 + i < 64
  · simp only [h, if_true]
    rw [pack_bit _ _ _ _ h]
    have h1 : ¬ 38 + i < 12 := by omega
    have h2 : ¬ 38 + i < 38 := by omega
    have h3 : 38 + i - 38 = i := by omega
    simp only [h1, h2, if_false, h3]
  · simp only [h, if_false, BitVec.msb_eq_getLsbD_last]
    rw [pack_bit _ _ _ _ (by omega)]
    simp only [show ¬ (64 - 1 < 12) by omega, show ¬ (64 - 1 < 38) by omega, if_false]
    rw [hs i (by omega) hi]

theorem unpackZ_pack (x z y : BitVec 64) (hlo : -(2 ^ 25 : Int) ≤ z.toInt) (hhi : z.toInt < 2 ^ 25) :
    posUnpackZ (posPackW x z y) = z := by
  apply BitVec.eq_of_getLsbD_eq
  intro i hi
  have hs := sext_bits z 25 (by omega) hlo hhi
  unfold posUnpackZ
  rw [BitVec.getLsbD_sshiftRight]
  have hd : decide (64 ≤ i) = false := by simp; omega
  simp only [hd, Bool.not_false, Bool.true_and, BitVec.getLsbD_shiftLeft, BitVec.msb_eq_getLsbD_last]
  by_cases h : 38 + i < 64
  · have h0 : ¬ 38 + i < 26 := by omega
    simp only [h, if_true, decide_true, Bool.true_and, h0, decide_false, Bool.not_false]
    rw [pack_bit _ _ _ _ (by omega)]
    have h1 : ¬ 38 + i - 26 < 12 := by omega
    have h2 : 38 + i - 26 < 38 := by omega
    have h3 : 38 + i - 26 - 12 = i := by omega
    simp only [h1, h2, if_false, if_true, h3]
  · simp only [h, if_false, show (64 - 1 < 64) by omega, decide_true, Bool.true_and,
      show ¬ (64 - 1 < 26) by omega, decide_false, Bool.not_false]
    rw [pack_bit _ _ _ _ (by omega)]
    simp only [show ¬ (64 - 1 - 26 < 12) by omega, show (64 - 1 - 26 < 38) by omega, if_false, if_true]
    rw [hs i (by omega) hi]

theorem unpackY_pack (x z y : BitVec 64) (hlo : -(2 ^ 11 : Int) ≤ y.toInt) (hhi : y.toInt < 2 ^ 11) :
    posUnpackY (posPackW x z y) = y := by
  apply BitVec.eq_of_getLsbD_eq
  intro i hi
  have hs := sext_bits y 11 (by omega) hlo hhi
  unfold posUnpackY
  rw [BitVec.getLsbD_sshiftRight]
  have hd : decide (64 ≤ i) = false := by simp; omega
  simp only [hd, Bool.not_false, Bool.true_and, BitVec.getLsbD_shiftLeft, BitVec.msb_eq_getLsbD_last]
  by_cases h : 52 + i < 64
  · have h0 : ¬ 52 + i < 52 := by omega
    simp only [h, if_true, decide_true, Bool.true_and, h0, decide_false, Bool.not_false]
    rw [pack_bit _ _ _ _ (by omega)]
    have h3 : 52 + i - 52 = i := by omega
    have h1 : i < 12 := by omega
    simp only [h3, h1, if_true]
  · simp only [h, if_false, show (64 - 1 < 64) by omega, decide_true, Bool.true_and,
      show ¬ (64 - 1 < 52) by omega, decide_false, Bool.not_false]
    rw [pack_bit _ _ _ _ (by omega)]
    simp only [show (64 - 1 - 52 < 12) by omega, if_true]
    rw [hs i (by omega) hi]

theorem emod_pow (x : BitVec 64) : (x.toInt % 67108864).toNat = x.toNat % 67108864 := by
  rw [BitVec.toInt_eq_toNat_cond]
  have := x.isLt
  split <;> omega
theorem emod_pow12 (x : BitVec 64) : (x.toInt % 4096).toNat = x.toNat % 4096 := by
  rw [BitVec.toInt_eq_toNat_cond]
  have := x.isLt
  split <;> omega

theorem pack_toNat (x z y : BitVec 64) :
    (posPackW x z y).toNat = posPack x.toInt y.toInt z.toInt := by
  unfold posPackW posPack
  have e26 : (2:Int) ^ 26 = 67108864 := by decide
  have e12 : (2:Int) ^ 12 = 4096 := by decide
  rw [e26, e12, emod_pow, emod_pow, emod_pow12]
  simp only [BitVec.toNat_or, BitVec.toNat_shiftLeft, BitVec.toNat_and]
  have m26 : (67108863#64).toNat = 2 ^ 26 - 1 := by decide
  have m12 : (4095#64).toNat = 2 ^ 12 - 1 := by decide
  rw [m26, m12, Nat.and_two_pow_sub_one_eq_mod, Nat.and_two_pow_sub_one_eq_mod, Nat.and_two_pow_sub_one_eq_mod]
  have ha : x.toNat % 2 ^ 26 < 2 ^ 26 := Nat.mod_lt _ (by decide)
  have hb : z.toNat % 2 ^ 26 < 2 ^ 26 := Nat.mod_lt _ (by decide)
  have hc : y.toNat % 2 ^ 12 < 2 ^ 12 := Nat.mod_lt _ (by decide)
  generalize x.toNat % 2 ^ 26 = a at *
  generalize z.toNat % 2 ^ 26 = b at *
  generalize y.toNat % 2 ^ 12 = c at *
  have p26 : (2:Nat) ^ 26 = 67108864 := by decide
  have p12 : (2:Nat) ^ 12 = 4096 := by decide
  have p38 : (2:Nat) ^ 38 = 274877906944 := by decide
  have p64 : (2:Nat) ^ 64 = 18446744073709551616 := by decide
  rw [Nat.shiftLeft_eq, Nat.shiftLeft_eq, Nat.mod_eq_of_lt (by omega), Nat.mod_eq_of_lt (by omega)]
  rw [← Nat.shiftLeft_eq, ← Nat.shiftLeft_eq, Nat.or_assoc]
  rw [← Nat.shiftLeft_add_eq_or_of_lt (by omega : c < 2 ^ 12)]
  rw [← Nat.shiftLeft_add_eq_or_of_lt (by rw [Nat.shiftLeft_eq]; omega)]
  simp only [Nat.shiftLeft_eq]
  omega

/-! ### combinators: parametric round trips -/

theorem RT.mono {α} {c : Codec α} {dom dom' : α → Prop} {eqv eqv' : α → α → Prop} (h : RT c dom eqv)
    (hd : ∀ v, dom' v → dom v) (he : ∀ d v, dom' v → eqv d v → eqv' d v) : RT c dom' eqv' := by
  intro v d s rest hv hs
  obtain ⟨d', s', h1, h2, h3, h4⟩ := h v d s rest (hd v hv) hs
  exact ⟨d', s', h1, he d' v hv h2, h3, h4⟩

theorem boolDec_cons (o : Bool) (s : Stream) (b : Byte) (rest : Bytes) (hs : s.flat = b :: rest) :
    boolDec o s = (Res.ok (b != 0#8, 1), s.drop 1) := by
  unfold boolDec
  rw [Rd.bind_ok (readByte1_cons s b rest hs)]
  rfl

/-- element-wise relation between two lists of the same length -/
def listRel {α} (r : α → α → Prop) : List α → List α → Prop
  | [], [] => True
  | a :: as, b :: bs => r a b ∧ listRel r as bs
  | _, _ => False

def optDom {α} (dom : α → Prop) (o : Bool × α) : Prop := o.1 = true → dom o.2
/-- equality of options ignores `Val` when `Has = false` (as `Pointer()` does) -/
def optEqv {α} (eqv : α → α → Prop) (d v : Bool × α) : Prop := d.1 = v.1 ∧ (v.1 = true → eqv d.2 v.2)

theorem rt_option {α} {c : Codec α} {dom eqv} (hc : RT c dom eqv) : RT (optionC c) (optDom dom) (optEqv eqv) := by
  intro v d s rest hv hs
  obtain ⟨h, x⟩ := v
  cases h with
  | false =>
    have hs' : s.flat = 0#8 :: rest := by simpa [optionC, optionEnc, boolEnc, wr] using hs
    have h1 := boolDec_cons d.1 s _ rest hs'
    refine ⟨(false, d.2), s.drop 1, ?_, ⟨rfl, by simp⟩, (readByte_cons s _ rest hs').2, rfl⟩
    simp only [optionC, optionDec]
    rw [Rd.bind_ok h1]
    simp [optionEnc, boolEnc, wr]
  | true =>
    have he : ((optionC c).enc (true, x)).1 = 1#8 :: (c.enc x).1 := by simp [optionC, optionEnc, boolEnc, wr]
    rw [he] at hs ⊢
    have h1 := boolDec_cons d.1 s _ _ hs
    have hb := (readByte_cons s _ _ hs).2
    obtain ⟨x', s2, h2, e2, f2, fl2⟩ := hc x d.2 (s.drop 1) rest (hv rfl) hb
    refine ⟨(true, x'), s2, ?_, ⟨rfl, fun _ => e2⟩, f2, by simpa using fl2⟩
    simp only [optionC, optionDec]
    rw [Rd.bind_ok h1]
    have : ((1#8 != 0#8) = true) := by decide
    simp only [this, Bool.not_true, Bool.false_eq_true, if_false]
    rw [Rd.bind_ok h2]
    simp [Nat.add_comm]

theorem rt_pair {α β} {a : Codec α} {b : Codec β} {da ea db eb} (ha : RT a da ea) (hb : RT b db eb) :
    RT (pairC a b) (fun v => da v.1 ∧ db v.2) (fun d v => ea d.1 v.1 ∧ eb d.2 v.2) := by
  intro v d s rest hv hs
  have he : ((pairC a b).enc v).1 = (a.enc v.1).1 ++ (b.enc v.2).1 := by simp [pairC, pairEnc]
  rw [he, List.append_assoc] at hs
  obtain ⟨x, s1, h1, e1, f1, fl1⟩ := ha v.1 d.1 s _ hv.1 hs
  obtain ⟨y, s2, h2, e2, f2, fl2⟩ := hb v.2 d.2 s1 rest hv.2 f1
  refine ⟨(x, y), s2, ?_, ⟨e1, e2⟩, f2, fl2.trans fl1⟩
  simp only [pairC, pairDec]
  rw [Rd.bind_ok h1]
  simp only
  rw [Rd.bind_ok h2]
  simp [pairEnc]

theorem rt_unit : RT unitC (fun _ => True) (fun _ _ => True) := by
  intro v d s rest _ hs
  exact ⟨(), s, rfl, trivial, by simpa [unitC] using hs, rfl⟩

/-- `Opt` with `has() = false`: nothing written, nothing read, destination untouched -/
theorem rt_opt0 {α} (c : Codec α) : RT (opt0C c) (fun _ => True) (fun _ _ => True) := by
  intro v d s rest _ hs
  exact ⟨d, s, rfl, trivial, by simpa [opt0C] using hs, rfl⟩

/-! ### Ary -/

theorem toInt_ofNat_small (w n : Nat) (hw : 0 < w) (h : n < 2 ^ (w - 1)) : (BitVec.ofNat w n).toInt = (n : Int) := by
  have hp : 2 ^ w = 2 * 2 ^ (w - 1) := by
    have : w = (w - 1) + 1 := by omega
    rw [this, Nat.pow_succ]; simp; omega
  have h1 : (BitVec.ofNat w n).toNat = n := by
    simp only [BitVec.toNat_ofNat]; exact Nat.mod_eq_of_lt (by omega)
  rw [BitVec.toInt_eq_toNat_cond, h1]
  have : 2 * n < 2 ^ w := by omega
  simp [this]

theorem toNat_ofNat_small (w n : Nat) (h : n < 2 ^ w) : (BitVec.ofNat w n).toNat = n := by
  simp only [BitVec.toNat_ofNat]; exact Nat.mod_eq_of_lt h

/-- the count prefix round-trips for every count the prefix type can represent -/
theorem len_rt (l : LenKind) (n : Nat) (hn : n < l.bound) (s : Stream) (rest : Bytes)
    (hs : s.flat = (lenEnc l n).1 ++ rest) :
    ∃ s', lenDec l s = (Res.ok ((n : Int), (lenEnc l n).1.length), s') ∧ s'.flat = rest ∧ s'.failing = s.failing := by
  cases l with
  | varint =>
    obtain ⟨d', s', h, rfl, f, fl⟩ := rt_varInt (BitVec.ofNat 32 n) 0 s rest trivial hs
    refine ⟨s', ?_, f, fl⟩
    have h : varIntRead s = _ := h
    simp only [lenDec]; rw [Rd.bind_ok h]
    simp [toInt_ofNat_small 32 n (by omega) hn, lenEnc, varIntC]
  | varlong =>
    obtain ⟨d', s', h, rfl, f, fl⟩ := rt_varLong (BitVec.ofNat 64 n) 0 s rest trivial hs
    refine ⟨s', ?_, f, fl⟩
    have h : varLongRead s = _ := h
    simp only [lenDec]; rw [Rd.bind_ok h]
    simp [toInt_ofNat_small 64 n (by omega) hn, lenEnc, varLongC]
  | byte =>
    obtain ⟨d', s', h, rfl, f, fl⟩ := rt_byte (BitVec.ofNat 8 n) 0 s rest trivial hs
    refine ⟨s', ?_, f, fl⟩
    have h : byteDec 0 s = _ := h
    simp only [lenDec]; rw [Rd.bind_ok h]
    simp [toInt_ofNat_small 8 n (by omega) hn, lenEnc, byteC]
  | ubyte =>
    obtain ⟨d', s', h, rfl, f, fl⟩ := rt_byte (BitVec.ofNat 8 n) 0 s rest trivial hs
    refine ⟨s', ?_, f, fl⟩
    have h : byteDec 0 s = _ := h
    simp only [lenDec]; rw [Rd.bind_ok h]
    have := toNat_ofNat_small 8 n hn
    simp only [BitVec.toNat_ofNat] at this
    simp [this, lenEnc, byteC]
  | short =>
    obtain ⟨d', s', h, rfl, f, fl⟩ := rt_fix 2 (BitVec.ofNat 16 n) 0 s rest trivial hs
    refine ⟨s', ?_, f, fl⟩
    have h : fixDec 2 0 s = _ := h
    simp only [lenDec]; rw [Rd.bind_ok h]
    simp [toInt_ofNat_small 16 n (by omega) hn, lenEnc, fixC]
  | ushort =>
    obtain ⟨d', s', h, rfl, f, fl⟩ := rt_fix 2 (BitVec.ofNat 16 n) 0 s rest trivial hs
    refine ⟨s', ?_, f, fl⟩
    have h : fixDec 2 0 s = _ := h
    simp only [lenDec]; rw [Rd.bind_ok h]
    have := toNat_ofNat_small 16 n hn
    simp only [BitVec.toNat_ofNat] at this
    simp [this, lenEnc, fixC]
  | int =>
    obtain ⟨d', s', h, rfl, f, fl⟩ := rt_fix 4 (BitVec.ofNat 32 n) 0 s rest trivial hs
    refine ⟨s', ?_, f, fl⟩
    have h : fixDec 4 0 s = _ := h
    simp only [lenDec]; rw [Rd.bind_ok h]
    simp [toInt_ofNat_small 32 n (by omega) hn, lenEnc, fixC]
  | long =>
    obtain ⟨d', s', h, rfl, f, fl⟩ := rt_fix 8 (BitVec.ofNat 64 n) 0 s rest trivial hs
    refine ⟨s', ?_, f, fl⟩
    have h : fixDec 8 0 s = _ := h
    simp only [lenDec]; rw [Rd.bind_ok h]
    simp [toInt_ofNat_small 64 n (by omega) hn, lenEnc, fixC]

theorem encElems_cons {α} (c : Codec α) (x : α) (xs : List α) :
    (encElems c (x :: xs)).1 = (c.enc x).1 ++ (encElems c xs).1 := by simp [encElems]

/-- the element loop: every element is decoded into whatever the destination held at its index -/
theorem decElems_rt {α} {c : Codec α} {dom eqv} (hc : RT c dom eqv) (vs ds : List α) (hlen : ds.length = vs.length)
    (hdom : ∀ x ∈ vs, dom x) (s : Stream) (rest : Bytes) (hs : s.flat = (encElems c vs).1 ++ rest) :
    ∃ vs' s', decElems c ds s = (Res.ok (vs', (encElems c vs).1.length), s') ∧ listRel eqv vs' vs
      ∧ s'.flat = rest ∧ s'.failing = s.failing := by
  induction vs generalizing ds s with
  | nil =>
    cases ds with
    | nil => exact ⟨[], s, by simp [decElems, encElems], trivial, by simpa [encElems] using hs, rfl⟩
    | cons _ _ => simp at hlen
  | cons v vs ih =>
    cases ds with
    | nil => simp at hlen
    | cons d ds =>
      rw [encElems_cons, List.append_assoc] at hs
      obtain ⟨x, s1, h1, e1, f1, fl1⟩ := hc v d s _ (hdom v (by simp)) hs
      obtain ⟨xs, s2, h2, e2, f2, fl2⟩ := ih ds (by simpa using hlen) (fun y hy => hdom y (by simp [hy])) s1 f1
      refine ⟨x :: xs, s2, ?_, ⟨e1, e2⟩, f2, fl2.trans fl1⟩
      simp only [decElems]
      rw [Rd.bind_ok h1]
      simp only
      rw [Rd.bind_ok h2]
      simp [encElems_cons]

def aryDom {α} (l : LenKind) (dom : α → Prop) (v : Slice α) : Prop := v.elems.length < l.bound ∧ ∀ x ∈ v.elems, dom x
def sliceEqv {α} (eqv : α → α → Prop) (d v : Slice α) : Prop := listRel eqv d.elems v.elems

/-- `RT c → RT (Ary LEN c)` for every prefix type, for counts the prefix can represent, **whatever the
destination slice's length, capacity and old elements** -/
theorem rt_ary {α} (l : LenKind) {c : Codec α} {dom eqv} (hc : RT c dom eqv) :
    RT (aryC l c) (aryDom l dom) (sliceEqv eqv) := by
  intro v d s rest hv hs
  have he : ((aryC l c).enc v).1 = (lenEnc l v.elems.length).1 ++ (encElems c v.elems).1 := by simp [aryC, aryEnc]
  rw [he, List.append_assoc] at hs
  obtain ⟨s1, h1, f1, fl1⟩ := len_rt l v.elems.length hv.1 s _ hs
  let dst : Slice α := if d.cap < v.elems.length then Slice.make c.zero v.elems.length else d.setLen v.elems.length
  have hdl : dst.elems.length = v.elems.length := by
    show (if d.cap < v.elems.length then Slice.make c.zero v.elems.length else d.setLen v.elems.length).elems.length = _
    split
    · simp [Slice.make]
    · exact length_setLen d _ (by omega)
  obtain ⟨vs', s2, h2, e2, f2, fl2⟩ := decElems_rt hc v.elems dst.elems hdl hv.2 s1 rest f1
  refine ⟨⟨vs', dst.spare⟩, s2, ?_, e2, f2, fl2.trans fl1⟩
  simp only [aryC, aryDec]
  rw [Rd.bind_ok h1]
  have : ¬ ((v.elems.length : Int) < 0) := by omega
  simp only [this, if_false, Int.toNat_natCast]
  rw [Rd.bind_ok h2]
  simp only [Rd.pure_apply, Prod.mk.injEq, Res.ok.injEq, and_true]
  exact ⟨rfl, by simp [aryEnc]⟩

open Rd

/-! ### FragInv / ExtStable for every decoder model (reused by C08, C09) -/

-- fragInv_varLoop / extStable_varLoop are in GoMC.Lemmas.VarInt

/-- both stability notions at once -/
def Stable {α} (p : Rd α) : Prop := FragInv p ∧ ExtStable p

theorem stable_pure {α} (a : α) : Stable (Pure.pure a : Rd α) := ⟨fragInv_pure a, extStable_pure a⟩
theorem stable_fail {α} : Stable (Rd.fail : Rd α) := ⟨fragInv_fail, extStable_fail⟩
theorem stable_bind {α β} {p : Rd α} {f : α → Rd β} (hp : Stable p) (hf : ∀ a, Stable (f a)) : Stable (p >>= f) :=
  ⟨fragInv_bind hp.1 fun a => (hf a).1, extStable_bind hp.2 fun a => (hf a).2⟩
theorem stable_ite {α} {c : Prop} [Decidable c] {p q : Rd α} (hp : Stable p) (hq : Stable q) :
    Stable (if c then p else q) := by split <;> assumption
theorem stable_readByte : Stable Rd.readByte := ⟨fragInv_readByte, extStable_readByte⟩
theorem stable_readFull (n : Nat) : Stable (Rd.readFull n) := ⟨fragInv_readFull n, extStable_readFull n⟩
theorem stable_varInt : Stable varIntRead := ⟨fragInv_varLoop _ _ _ _, extStable_varLoop _ _ _ _⟩
theorem stable_varLong : Stable varLongRead := ⟨fragInv_varLoop _ _ _ _, extStable_varLoop _ _ _ _⟩

theorem stable_readByte1 : Stable readByte1 := stable_bind stable_readByte fun _ => stable_pure _
theorem stable_bool (d : Bool) : Stable (boolDec d) := stable_bind stable_readByte1 fun _ => stable_pure _
theorem stable_byte (d : BitVec 8) : Stable (byteDec d) := stable_bind stable_readByte1 fun _ => stable_pure _
theorem stable_fix (k : Nat) (d : BitVec (8 * k)) : Stable (fixDec k d) :=
  stable_bind (stable_readFull k) fun _ => stable_pure _
theorem stable_string (d : Bytes) : Stable (stringDec d) := by
  unfold stringDec
  refine stable_bind stable_varInt fun ⟨l, n⟩ => ?_
  exact stable_ite stable_fail (stable_bind (stable_readFull _) fun _ => stable_pure _)
theorem stable_byteArray (d : Slice Byte) : Stable (byteArrayDec d) := by
  unfold byteArrayDec
  refine stable_bind stable_varInt fun ⟨l, n⟩ => ?_
  exact stable_ite stable_fail (stable_bind (stable_readFull _) fun _ => stable_pure _)
theorem stable_longs (ds : List (BitVec 64)) : Stable (longsDec ds) := by
  induction ds with
  | nil => exact stable_pure _
  | cons d ds ih =>
    unfold longsDec
    exact stable_bind (stable_fix 8 d) fun _ => stable_bind ih fun _ => stable_pure _
theorem stable_bitSet (d : Slice (BitVec 64)) : Stable (bitSetDec d) := by
  unfold bitSetDec
  refine stable_bind stable_varInt fun ⟨l, n⟩ => ?_
  exact stable_ite stable_fail (stable_bind (stable_longs _) fun _ => stable_pure _)
theorem stable_position (d : Pos) : Stable (positionDec d) :=
  stable_bind (stable_fix 8 0) fun _ => stable_pure _
/-- PluginMessageData is fragmentation-invariant but, reading to end of input, not extension-stable -/
theorem fragInv_plugin (d : Bytes) : FragInv (pluginDec d) :=
  fragInv_bind fragInv_readAll fun _ => fragInv_pure _

theorem stable_lenDec (l : LenKind) : Stable (lenDec l) := by
  cases l <;> unfold lenDec
  · exact stable_bind stable_varInt fun _ => stable_pure _
  · exact stable_bind stable_varLong fun _ => stable_pure _
  · exact stable_bind (stable_byte 0) fun _ => stable_pure _
  · exact stable_bind (stable_byte 0) fun _ => stable_pure _
  · exact stable_bind (stable_fix 2 0) fun _ => stable_pure _
  · exact stable_bind (stable_fix 2 0) fun _ => stable_pure _
  · exact stable_bind (stable_fix 4 0) fun _ => stable_pure _
  · exact stable_bind (stable_fix 8 0) fun _ => stable_pure _

theorem stable_decElems {α} (c : Codec α) (hc : ∀ d, Stable (c.dec d)) (ds : List α) : Stable (decElems c ds) := by
  induction ds with
  | nil => exact stable_pure _
  | cons d ds ih =>
    unfold decElems
    exact stable_bind (hc d) fun _ => stable_bind ih fun _ => stable_pure _

theorem stable_ary {α} (l : LenKind) (c : Codec α) (hc : ∀ d, Stable (c.dec d)) (d : Slice α) : Stable (aryDec l c d) := by
  unfold aryDec
  refine stable_bind (stable_lenDec l) fun ⟨len, n⟩ => ?_
  exact stable_ite stable_fail (stable_bind (stable_decElems c hc _) fun _ => stable_pure _)

theorem stable_option {α} (c : Codec α) (hc : ∀ d, Stable (c.dec d)) (d : Bool × α) : Stable (optionDec c d) := by
  unfold optionDec
  refine stable_bind (stable_bool _) fun ⟨h, n⟩ => ?_
  exact stable_ite (stable_pure _) (stable_bind (hc _) fun _ => stable_pure _)

theorem stable_pair {α β} (a : Codec α) (b : Codec β) (ha : ∀ d, Stable (a.dec d)) (hb : ∀ d, Stable (b.dec d))
    (d : α × β) : Stable (pairDec a b d) :=
  stable_bind (ha _) fun _ => stable_bind (hb _) fun _ => stable_pure _

/-- same closure for fragmentation invariance alone (types containing `pluginmsg`) -/
theorem fragInv_decElems {α} (c : Codec α) (hc : ∀ d, FragInv (c.dec d)) (ds : List α) : FragInv (decElems c ds) := by
  induction ds with
  | nil => exact fragInv_pure _
  | cons d ds ih =>
    unfold decElems
    exact fragInv_bind (hc d) fun _ => fragInv_bind ih fun _ => fragInv_pure _

theorem fragInv_ary {α} (l : LenKind) (c : Codec α) (hc : ∀ d, FragInv (c.dec d)) (d : Slice α) : FragInv (aryDec l c d) := by
  unfold aryDec
  refine fragInv_bind (stable_lenDec l).1 fun ⟨len, n⟩ => ?_
  exact fragInv_ite fragInv_fail (fragInv_bind (fragInv_decElems c hc _) fun _ => fragInv_pure _)

theorem fragInv_option {α} (c : Codec α) (hc : ∀ d, FragInv (c.dec d)) (d : Bool × α) : FragInv (optionDec c d) := by
  unfold optionDec
  refine fragInv_bind (stable_bool _).1 fun ⟨h, n⟩ => ?_
  exact fragInv_ite (fragInv_pure _) (fragInv_bind (hc _) fun _ => fragInv_pure _)

theorem fragInv_pair {α β} (a : Codec α) (b : Codec β) (ha : ∀ d, FragInv (a.dec d)) (hb : ∀ d, FragInv (b.dec d))
    (d : α × β) : FragInv (pairDec a b d) :=
  fragInv_bind (ha _) fun _ => fragInv_bind (hb _) fun _ => fragInv_pure _

/-- every decoder of the term language is fragmentation-invariant -/
theorem fragInv_codec : ∀ (t : Ty) (d : Rep t), FragInv ((codec t).dec d)
  | .bool, d => (stable_bool d).1
  | .byte, d | .ubyte, d | .angle, d => (stable_byte d).1
  | .short, d | .ushort, d => (stable_fix 2 d).1
  | .int, d | .float, d => (stable_fix 4 d).1
  | .long, d | .double, d => (stable_fix 8 d).1
  | .varint, _ => stable_varInt.1
  | .varlong, _ => stable_varLong.1
  | .string, d => (stable_string d).1
  | .pluginmsg, d => fragInv_plugin d
  | .bytearray, d => (stable_byteArray d).1
  | .position, d => (stable_position d).1
  | .uuid, d => (stable_fix 16 d).1
  | .bitset, d => (stable_bitSet d).1
  | .fixedbits n, d => (stable_fix n d).1
  | .unit, _ => fragInv_pure _
  | .pair a b, d => fragInv_pair _ _ (fragInv_codec a) (fragInv_codec b) d
  | .option t, d => fragInv_option _ (fragInv_codec t) d
  | .opt1 t, d => fragInv_codec t d
  | .opt0 _, _ => fragInv_pure _
  | .ary l t, d => fragInv_ary l _ (fragInv_codec t) d

/-- every decoder except "the rest of the packet" never looks beyond what it consumes -/
theorem extStable_codec : ∀ (t : Ty), t.regular = true → ∀ (d : Rep t), ExtStable ((codec t).dec d)
  | .bool, _, d => (stable_bool d).2
  | .byte, _, d | .ubyte, _, d | .angle, _, d => (stable_byte d).2
  | .short, _, d | .ushort, _, d => (stable_fix 2 d).2
  | .int, _, d | .float, _, d => (stable_fix 4 d).2
  | .long, _, d | .double, _, d => (stable_fix 8 d).2
  | .varint, _, _ => stable_varInt.2
  | .varlong, _, _ => stable_varLong.2
  | .string, _, d => (stable_string d).2
  | .bytearray, _, d => (stable_byteArray d).2
  | .position, _, d => (stable_position d).2
  | .uuid, _, d => (stable_fix 16 d).2
  | .bitset, _, d => (stable_bitSet d).2
  | .fixedbits n, _, d => (stable_fix n d).2
  | .unit, _, _ => extStable_pure _
  | .pair a b, h, d => by
    simp only [Ty.regular, Bool.and_eq_true] at h
    exact extStable_bind (extStable_codec a h.1 _) fun _ =>
      extStable_bind (extStable_codec b h.2 _) fun _ => extStable_pure _
  | .option t, h, d => by
    have ht : t.regular = true := by simpa [Ty.regular] using h
    show ExtStable (optionDec (codec t) d)
    unfold optionDec
    refine extStable_bind (stable_bool _).2 fun ⟨hh, n⟩ => ?_
    exact extStable_ite (extStable_pure _) (extStable_bind (extStable_codec t ht _) fun _ => extStable_pure _)
  | .opt1 t, h, d => extStable_codec t (by simpa [Ty.regular] using h) d
  | .opt0 _, _, _ => extStable_pure _
  | .ary l t, h, d => by
    have ht : t.regular = true := by simpa [Ty.regular] using h
    show ExtStable (aryDec l (codec t) d)
    unfold aryDec
    refine extStable_bind (stable_lenDec l).2 fun ⟨len, n⟩ => ?_
    refine extStable_ite extStable_fail (extStable_bind ?_ fun _ => extStable_pure _)
    generalize (if d.cap < len.toNat then Slice.make (codec t).zero len.toNat else d.setLen len.toNat).elems = ds
    induction ds with
    | nil => exact extStable_pure _
    | cons x xs ih =>
      unfold decElems
      exact extStable_bind (extStable_codec t ht x) fun _ => extStable_bind ih fun _ => extStable_pure _

/-! ### layout and counts over the term language -/

theorem lenEnc_wire (l : LenKind) (n : Nat) (hn : n < l.bound) : (lenEnc l n).1 = l.wire n := by
  cases l <;> simp only [lenEnc, LenKind.wire, LenKind.bound] at *
  · simp [varIntEnc, wr, varIntBytes, toNat_ofNat_small 32 n (by omega)]
  · simp [varLongEnc, wr, varLongBytes_eq, toNat_ofNat_small 64 n (by omega)]
  · simp [byteEnc, wr, be]
  · simp [byteEnc, wr, be]
  · simp [fixEnc, wr, toBE_eq_be, toNat_ofNat_small 16 n (by omega)]
  · simp [fixEnc, wr, toBE_eq_be, toNat_ofNat_small 16 n (by omega)]
  · simp [fixEnc, wr, toBE_eq_be, toNat_ofNat_small 32 n (by omega)]
  · simp [fixEnc, wr, toBE_eq_be, toNat_ofNat_small 64 n (by omega)]

theorem lenEnc_count (l : LenKind) (n : Nat) : (lenEnc l n).2 = (lenEnc l n).1.length := by
  cases l <;> rfl

theorem encElems_fst {α} (c : Codec α) (xs : List α) :
    (encElems c xs).1 = (xs.map fun x => (c.enc x).1).flatten := by
  induction xs with
  | nil => rfl
  | cons x xs ih => simp [encElems, ih]

theorem encElems_count {α} (c : Codec α) (hc : CountOK c) (xs : List α) :
    (encElems c xs).2 = (encElems c xs).1.length := by
  induction xs with
  | nil => rfl
  | cons x xs ih => simp [encElems, ih, hc x]

theorem countOK_codec : ∀ (t : Ty), CountOK (codec t)
  | .bool, v => countOK_wr _
  | .byte, v | .ubyte, v | .angle, v => countOK_wr _
  | .short, v | .ushort, v => countOK_wr (toBE 2 v.toNat)
  | .int, v | .float, v => countOK_wr (toBE 4 v.toNat)
  | .long, v | .double, v => countOK_wr (toBE 8 v.toNat)
  | .varint, v => countOK_wr _
  | .varlong, v => countOK_wr _
  | .pluginmsg, v => countOK_wr _
  | .position, v => countOK_wr _
  | .uuid, v => countOK_wr (toBE 16 v.toNat)
  | .fixedbits n, v => countOK_wr (toBE n v.toNat)
  | .unit, _ => rfl
  | .opt0 _, _ => rfl
  | .string, v => by simp [codec, stringC, stringEnc, varIntEnc, wr]
  | .bytearray, v => by simp [codec, byteArrayC, byteArrayEnc, varIntEnc, wr]
  | .bitset, v => by
    simp [codec, bitSetC, bitSetEnc, varIntEnc, wr, (longsEnc_fst v.elems).2]
  | .pair a b, v => by
    have ha := countOK_codec a v.1
    have hb := countOK_codec b v.2
    simp [codec, pairC, pairEnc, ha, hb]
  | .option t, (h, x) => by
    have hx := countOK_codec t x
    cases h
    · simp [codec, optionC, optionEnc, boolEnc, wr]
    · simp only [codec, optionC, optionEnc, boolEnc, wr, hx]
      simp [Nat.add_comm]
  | .opt1 t, v => countOK_codec t v
  | .ary l t, v => by
    simp [codec, aryC, aryEnc, lenEnc_count, encElems_count _ (countOK_codec t)]

theorem list_flatten_map_congr {α} (xs : List α) (f g : α → Bytes) (h : ∀ x ∈ xs, f x = g x) :
    (xs.map f).flatten = (xs.map g).flatten := by
  induction xs with
  | nil => rfl
  | cons x xs ih =>
    simp only [List.map_cons, List.flatten_cons]
    rw [h x (by simp), ih (fun y hy => h y (by simp [hy]))]

/-- the bytes `WriteTo` produces are the protocol's layout of the abstract value -/
theorem layout_codec : ∀ (t : Ty) (v : Rep t), inDom t (abs t v) → ((codec t).enc v).1 = wire t (abs t v)
  | .bool, v, _ => by cases v <;> rfl
  | .byte, v, _ | .ubyte, v, _ | .angle, v, _ => by simp [codec, byteC, byteEnc, wr, wire, abs, be]
  | .short, v, _ | .ushort, v, _ => toBE_eq_be 2 v.toNat
  | .int, v, _ | .float, v, _ => toBE_eq_be 4 v.toNat
  | .long, v, _ | .double, v, _ => toBE_eq_be 8 v.toNat
  | .varint, v, _ => rfl
  | .varlong, v, _ => varLongBytes_eq v
  | .pluginmsg, v, _ => rfl
  | .uuid, v, _ => toBE_eq_be 16 v.toNat
  | .fixedbits n, v, _ => toBE_eq_be n v.toNat
  | .unit, _, _ => rfl
  | .opt0 _, _, _ => rfl
  | .position, (x, y, z), _ => by
    show toBE 8 (posPackW x z y).toNat = be 8 (posPack x.toInt y.toInt z.toInt)
    rw [toBE_eq_be, pack_toNat]
  | .string, v, h => by
    have h : v.length < 2 ^ 31 := h
    simp [codec, stringC, stringEnc, varIntEnc, wr, varIntBytes, wire, abs, toNat_ofNat_small 32 v.length (by omega)]
  | .bytearray, v, h => by
    have h : v.elems.length < 2 ^ 31 := h
    simp [codec, byteArrayC, byteArrayEnc, varIntEnc, wr, varIntBytes, wire, abs, toNat_ofNat_small 32 v.elems.length (by omega)]
  | .bitset, v, h => by
    have h : v.elems.length < 2 ^ 31 := h
    simp [codec, bitSetC, bitSetEnc, varIntEnc, wr, varIntBytes, wire, abs, toNat_ofNat_small 32 v.elems.length (by omega),
      (longsEnc_fst v.elems).1, toBE_eq_be]
  | .pair a b, (x, y), h => by
    have h : inDom a (abs a x) ∧ inDom b (abs b y) := h
    simp [codec, pairC, pairEnc, wire, abs, layout_codec a x h.1, layout_codec b y h.2]
  | .option t, (false, x), _ => by simp [codec, optionC, optionEnc, boolEnc, wr, wire, abs]
  | .option t, (true, x), h => by
    have h : inDom t (abs t x) := h
    simp [codec, optionC, optionEnc, boolEnc, wr, wire, abs, layout_codec t x h]
  | .opt1 t, v, h => layout_codec t v h
  | .ary l t, v, h => by
    have h : (v.elems.map (abs t)).length < l.bound ∧ ∀ x ∈ v.elems.map (abs t), inDom t x := h
    rw [List.length_map] at h
    show (aryEnc l (codec t) v).1 = l.wire (v.elems.map (abs t)).length ++ ((v.elems.map (abs t)).map (wire t)).flatten
    simp only [aryEnc, lenEnc_wire l _ h.1, encElems_fst, List.length_map, List.map_map]
    congr 1
    apply list_flatten_map_congr
    intro x hx
    exact layout_codec t x (h.2 _ (List.mem_map_of_mem hx))

theorem rt_position : RT positionC (fun p => posIn p.1.toInt p.2.1.toInt p.2.2.toInt) (fun d v => d = v) := by
  intro v d s rest hv hs
  obtain ⟨x, y, z⟩ := v
  obtain ⟨hx1, hx2, hy1, hy2, hz1, hz2⟩ := hv
  have hs' : s.flat = ((fixC 8).enc (posPackW x z y)).1 ++ rest := hs
  obtain ⟨w, s', h, rfl, f, fl⟩ := rt_fix 8 (posPackW x z y) 0 s rest trivial hs'
  have h : longC.dec 0 s = _ := h
  refine ⟨(x, y, z), s', ?_, rfl, f, fl⟩
  simp only [positionC, positionDec]
  rw [Rd.bind_ok h]
  simp only [Rd.pure_apply, Prod.mk.injEq, Res.ok.injEq, and_true]
  refine ⟨⟨unpackX_pack x z y hx1 hx2, unpackY_pack x z y hy1 hy2, unpackZ_pack x z y hz1 hz2⟩, ?_⟩
  simp [positionEnc, fixC, fixEnc, wr]

theorem listRel_map {α β} (f : α → β) (ds vs : List α) (h : listRel (fun d v => f d = f v) ds vs) :
    ds.map f = vs.map f := by
  induction ds generalizing vs with
  | nil => cases vs with
    | nil => rfl
    | cons _ _ => exact absurd h (by simp [listRel])
  | cons d ds ih => cases vs with
    | nil => exact absurd h (by simp [listRel])
    | cons v vs =>
      obtain ⟨h1, h2⟩ := h
      simp [h1, ih vs h2]

/-- the protocol domain, on Go values -/
def Dom (t : Ty) (v : Rep t) : Prop := inDom t (abs t v)

theorem rt_codec : ∀ (t : Ty), t.regular = true → RT (codec t) (Dom t) (fun d v => abs t d = abs t v)
  | .bool, _ => rt_bool
  | .byte, _ | .ubyte, _ | .angle, _ => rt_byte
  | .short, _ | .ushort, _ => rt_fix 2
  | .int, _ | .float, _ => rt_fix 4
  | .long, _ | .double, _ => rt_fix 8
  | .varint, _ => rt_varInt
  | .varlong, _ => rt_varLong
  | .string, _ => rt_string
  | .uuid, _ => rt_fix 16
  | .fixedbits n, _ => rt_fix n
  | .bytearray, _ => rt_byteArray
  | .bitset, _ => rt_bitSet
  | .position, _ => rt_position.mono (fun v h => h) (fun d v _ h => h)
  | .unit, _ => rt_unit.mono (fun _ _ => trivial) (fun _ _ _ _ => rfl)
  | .opt0 t, _ => (rt_opt0 (codec t)).mono (fun _ _ => trivial) (fun _ _ _ _ => rfl)
  | .opt1 t, h => rt_codec t (by simpa [Ty.regular] using h)
  | .pair a b, h => by
    simp only [Ty.regular, Bool.and_eq_true] at h
    refine (rt_pair (rt_codec a h.1) (rt_codec b h.2)).mono ?_ ?_
    · intro v hv; exact hv
    · intro d v _ he
      show (abs a d.1, abs b d.2) = (abs a v.1, abs b v.2)
      rw [he.1, he.2]
  | .option t, h => by
    refine (rt_option (rt_codec t (by simpa [Ty.regular] using h))).mono ?_ ?_
    · intro v hv hh
      obtain ⟨b, x⟩ := v
      simp only at hh; subst hh
      exact hv
    · intro d v _ he
      obtain ⟨b, x⟩ := v
      obtain ⟨b', x'⟩ := d
      obtain ⟨h1, h2⟩ := he
      simp only at h1 h2; subst h1
      cases b' with
      | false => rfl
      | true => show some (abs t x') = some (abs t x); rw [h2 rfl]
  | .ary l t, h => by
    refine (rt_ary l (rt_codec t (by simpa [Ty.regular] using h))).mono ?_ ?_
    · intro v hv
      have hv : (v.elems.map (abs t)).length < l.bound ∧ ∀ x ∈ v.elems.map (abs t), inDom t x := hv
      rw [List.length_map] at hv
      exact ⟨hv.1, fun x hx => hv.2 _ (List.mem_map_of_mem hx)⟩
    · intro d v _ he
      exact listRel_map (abs t) _ _ he
end GoMC.Lemmas
