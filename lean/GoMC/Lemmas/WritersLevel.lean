/-
  `Wr.Exact` for the writer models of level/palette.go and `Section.WriteTo` (Model/WritersLevel.lean): on an unlimited
  sink they return the number of bytes and write exactly the bytes of the pure models (`Pal.writeTo`, `Container.writeTo`
  of C12, `secC.enc` of C13); under a budget that covers them the same; under a smaller budget the result is `err`.
-/
import GoMC.Model.WritersLevel
import GoMC.Lemmas.Writers
namespace GoMC.Lemmas
open GoMC GoMC.Model GoMC.Spec Wr

theorem exact_wVarIntBytes (v : BitVec 32) : Exact (wVarInt v) (Res.ok (varIntBytes v).length) (varIntBytes v) :=
  exact_write _

theorem exact_wPalVals (vs : List Int) :
    Exact (wPalVals vs) (Res.ok (vs.flatMap varIntOfInt).length) (vs.flatMap varIntOfInt) := by
  induction vs with
  | nil => exact exact_pure 0
  | cons v vs ih =>
    have h := exact_seq2 (exact_wVarIntBytes (BitVec.ofInt 32 v)) ih
    refine h.congr ?_ ?_
    · simp [varIntOfInt]
    · simp [varIntOfInt]

theorem exact_wPal (p : Pal) : Exact (wPal p) (Res.ok p.writeTo.length) p.writeTo := by
  cases p with
  | single s => exact exact_wVarIntBytes _
  | indirect h vals cap bits =>
    have := exact_seq2 (exact_wVarIntBytes (BitVec.ofNat 32 vals.length)) (exact_wPalVals vals)
    refine this.congr ?_ rfl
    simp [Pal.writeTo]
  | global => exact exact_pure 0

/-- three parts in sequence, counts added -/
theorem exact_seq3 {e1 e2 e3 : Wr Nat} {n1 n2 n3 : Nat} {b1 b2 b3 : Bytes}
    (h1 : Exact e1 (Res.ok n1) b1) (h2 : Exact e2 (Res.ok n2) b2) (h3 : Exact e3 (Res.ok n3) b3) :
    Exact (e1 >>= fun x => e2 >>= fun y => e3 >>= fun z => (Pure.pure (x + y + z) : Wr Nat)) (Res.ok (n1 + n2 + n3))
      (b1 ++ b2 ++ b3) := by
  have h23 : Exact (e2 >>= fun y => e3 >>= fun z => (Pure.pure (n1 + y + z) : Wr Nat)) (Res.ok (n1 + n2 + n3)) (b2 ++ b3) :=
    exact_bind (f := fun y => e3 >>= fun z => (Pure.pure (n1 + y + z) : Wr Nat)) h2 (exact_map (fun z => n1 + n2 + z) h3)
  have := exact_bind (f := fun x => e2 >>= fun y => e3 >>= fun z => (Pure.pure (x + y + z) : Wr Nat)) h1 h23
  exact this.congr rfl (by simp)

theorem exact_wContainer (c : Container) : Exact (wContainer c) (Res.ok c.writeTo.length) c.writeTo := by
  have h1 : Exact (wByte (BitVec.ofInt 8 c.bits)) (Res.ok 1) [BitVec.ofInt 8 c.bits] := exact_write _
  have := exact_seq3 h1 (exact_wPal c.pal) (exact_wBits c.data)
  refine this.congr ?_ rfl
  simp [Container.writeTo]; omega

open GoMC.Model.Chunk in
/-- `Section.WriteTo` writes the bytes of C13's section codec -/
theorem exact_wSection (bc mc : PalCfg) (s : SecCore) :
    Exact (wSection s) (Res.ok ((secC bc mc).enc s).1.length) ((secC bc mc).enc s).1 := by
  have := exact_seq3 (exact_wFix 2 s.1) (exact_wContainer s.2.1) (exact_wContainer s.2.2)
  refine this.congr ?_ ?_
  · simp [secC, pairC, pairEnc, containerC, wr, shortC, fixC, fixEnc]; omega
  · simp [secC, pairC, pairEnc, containerC, wr, shortC, fixC, fixEnc]

end GoMC.Lemmas
