/-
  C04_roundtrip, the tree induction: `wtext : NBT → Bytes` (the writer's text as a function of the tree) and the
  assembly of the closure rules into one statement over all well-formed trees.
-/
import GoMC.Lemmas.SNBTRoundList
import GoMC.Spec.SNBT
namespace GoMC.Model.SNBT
open GoMC Scanner DState Spec

mutual
  /-- the text the writer prints for a document (the binary → text walker's output, as a function of the tree) -/
  def wtext (fm : FmtOracle) : NBT → Bytes
    | .byte v => formatInt v.toInt ++ [66]
    | .short v => formatInt v.toInt ++ [83]
    | .int v => formatInt v.toInt
    | .long v => formatInt v.toInt ++ [76]
    | .float b => fm.ff32 b ++ [70]
    | .double b => fm.ff64 b ++ [68]
    | .string s => writeEscapeStr s
    | .byteArray xs => 91 :: ([66, 59] ++ joinElems (xs.map fun x => formatInt x.toInt ++ [66]) ++ [93])
    | .intArray xs => 91 :: ([73, 59] ++ joinElems (xs.map fun x => formatInt x.toInt ++ [73]) ++ [93])
    | .longArray xs => 91 :: ([76, 59] ++ joinElems (xs.map fun x => formatInt x.toInt ++ [76]) ++ [93])
    | .list _ xs => 91 :: (joinElems (wtextList fm xs) ++ [93])
    | .compound kvs => 123 :: (joinElems (wtextKvs fm kvs) ++ [125])
  def wtextList (fm : FmtOracle) : List NBT → List Bytes
    | [] => []
    | x :: xs => wtext fm x :: wtextList fm xs
  def wtextKvs (fm : FmtOracle) : List (Bytes × NBT) → List Bytes
    | [] => []
    | (k, v) :: r => (writeEscapeStr k ++ [58] ++ wtext fm v) :: wtextKvs fm r
end

mutual
  /-- brackets nested inside one another (0 for scalars and strings) -/
  def ndepth : NBT → Nat
    | .list _ xs => ndepthList xs + 1
    | .compound kvs => ndepthKvs kvs + 1
    | .byteArray _ => 1
    | .intArray _ => 1
    | .longArray _ => 1
    | _ => 0
  def ndepthList : List NBT → Nat
    | [] => 0
    | x :: xs => max (ndepth x) (ndepthList xs)
  def ndepthKvs : List (Bytes × NBT) → Nat
    | [] => 0
    | (_, v) :: r => max (ndepth v) (ndepthKvs r)
end

mutual
  /-- the `strconv` hypotheses for every float in the tree -/
  def FloatHypT (fo : FloatOracle) (fm : FmtOracle) : NBT → Prop
    | .float b => FloatText (fm.ff32 b) ∧ fo.pf32 (fm.ff32 b) = some b
    | .double b => FloatText (fm.ff64 b) ∧ fo.pf64 (fm.ff64 b) = some b
    | .list _ xs => FloatHypList fo fm xs
    | .compound kvs => FloatHypKvs fo fm kvs
    | _ => True
  def FloatHypList (fo : FloatOracle) (fm : FmtOracle) : List NBT → Prop
    | [] => True
    | x :: xs => FloatHypT fo fm x ∧ FloatHypList fo fm xs
  def FloatHypKvs (fo : FloatOracle) (fm : FmtOracle) : List (Bytes × NBT) → Prop
    | [] => True
    | (_, v) :: r => FloatHypT fo fm v ∧ FloatHypKvs fo fm r
end

theorem ndepth_mem_list {x : NBT} {xs : List NBT} (h : x ∈ xs) : ndepth x ≤ ndepthList xs := by
  induction xs with
  | nil => cases h
  | cons y r ih =>
    simp only [ndepthList]
    rcases List.mem_cons.mp h with e | e
    · subst e; exact Nat.le_max_left _ _
    · exact Nat.le_trans (ih e) (Nat.le_max_right _ _)

theorem WLSpec.mono {fo : FloatOracle} {w' : Bytes} {tt : Byte} {payload : Bytes} {dep need dep' need' : Nat}
    (h : WLSpec fo w' tt payload dep need) (hd : dep ≤ dep') (hn : need ≤ need') : WLSpec fo w' tt payload dep' need' := by
  intro pre k s o ifw name f he ht hdep hf
  exact h pre k s o ifw name f he ht (by omega) (by omega)

theorem CLSpec.mono {fo : FloatOracle} {w' : Bytes} {payload : Bytes} {dep need dep' need' : Nat}
    (h : CLSpec fo w' payload dep need) (hd : dep ≤ dep') (hn : need ≤ need') : CLSpec fo w' payload dep' need' := by
  intro pre k s o acc f he ht hdep hf
  exact h pre k s o acc f he ht (by omega) (by omega)

/-- every element text is non-empty: the joined text is long enough for the fuel accounting -/
theorem joinElems_len (ws : List Bytes) (hpos : ∀ w ∈ ws, 0 < w.length) :
    ∀ w ∈ ws, w.length + 2 * (ws.length - 1) ≤ (joinElems ws).length := by
  induction ws with
  | nil => intro w h; cases h
  | cons a r ih =>
    intro w hw
    rw [joinElems_cons]
    cases r with
    | nil =>
      simp at hw; subst hw; simp [sepJoin]
    | cons b r' =>
      have ihr := ih (fun x hx => hpos x (by simp [hx]))
      simp only [sepJoin, List.length_append, List.length_cons]
      have hlen : 1 + 2 * ((b :: r').length - 1) ≤ (joinElems (b :: r')).length := by
        have := ihr b (by simp)
        have := hpos b (by simp)
        omega
      rcases List.mem_cons.mp hw with e | e
      · subst e
        simp only [List.length_cons] at hlen ⊢; omega
      · have h1 := ihr w e
        have h2 := hpos a (by simp)
        simp only [List.length_cons] at h1 ⊢; omega



/-- the per-node statement of the tree induction: scalars are literal tokens, lists and arrays satisfy `WLSpec`,
compounds `CLSpec` (from which `ValSpec` follows for every node) -/
def Qt (fo : FloatOracle) (fm : FmtOracle) (t : NBT) : Prop :=
  match t with
  | .list _ _ => WLSpec fo (wtext fm t).tail tagList (encPayload (GoMC.Spec.SNBT.canon t)) (ndepth t - 1) (2 * (wtext fm t).length)
  | .compound _ => CLSpec fo (wtext fm t).tail (encPayload (GoMC.Spec.SNBT.canon t)) (ndepth t - 1) (2 * (wtext fm t).length)
  | .byteArray _ => WLSpec fo (wtext fm t).tail tagByteArray (encPayload t) 0 (2 * (wtext fm t).length)
  | .intArray _ => WLSpec fo (wtext fm t).tail tagIntArray (encPayload t) 0 (2 * (wtext fm t).length)
  | .longArray _ => WLSpec fo (wtext fm t).tail tagLongArray (encPayload t) 0 (2 * (wtext fm t).length)
  | _ => LitEl fo t.tag (wtext fm t) (encPayload t)

theorem canon_scalar (t : NBT) (h : ∀ e xs, t ≠ .list e xs) (h' : ∀ kvs, t ≠ .compound kvs) : GoMC.Spec.SNBT.canon t = t := by
  cases t <;> first | rfl | exact absurd rfl (h _ _) | exact absurd rfl (h' _)

/-- scalar / string nodes: the literal-element facts -/
theorem litEl_scalar (fo : FloatOracle) (fm : FmtOracle) (t : NBT) (w : Bytes) (hw : scalarText fm t = some w)
    (hf : FloatHyp fo fm t) (hlen : ∀ s, t = .string s → s.length < 2 ^ 15) : LitEl fo t.tag w (encPayload t) := by
  cases t with
  | byte v =>
    simp only [scalarText, Option.some.injEq] at hw; subst hw
    have hp := parseLiteral_int_suffix fo v.toInt 66 (Or.inl rfl)
    simp only [if_true, parseInt_toInt (by decide : 0 < 8) v, Option.map_some] at hp
    exact ⟨isTok_int _ _ (Or.inr (Or.inl rfl)), isTokL_int _ _ (Or.inr (Or.inl rfl)), _, hp,
      by simp [litPayload, encPayload], rfl⟩
  | short v =>
    simp only [scalarText, Option.some.injEq] at hw; subst hw
    have hp := parseLiteral_int_suffix fo v.toInt 83 (Or.inr (Or.inl rfl))
    simp only [show ¬ ((83 : Byte) = 66) by decide, if_false, if_true, parseInt_toInt (by decide : 0 < 16) v,
      Option.map_some] at hp
    exact ⟨isTok_int _ _ (Or.inr (Or.inr (Or.inl rfl))), isTokL_int _ _ (Or.inr (Or.inr (Or.inl rfl))), _, hp,
      by simp [litPayload, encPayload, be16], rfl⟩
  | int v =>
    simp only [scalarText, Option.some.injEq] at hw; subst hw
    have hp := parseLiteral_int_plain fo v.toInt
    simp only [parseInt_toInt (by decide : 0 < 32) v, Option.map_some] at hp
    exact ⟨by simpa using isTok_int v.toInt [] (Or.inl rfl), by simpa using isTokL_int v.toInt [] (Or.inl rfl), _, hp,
      by simp [litPayload, encPayload, be32], rfl⟩
  | long v =>
    simp only [scalarText, Option.some.injEq] at hw; subst hw
    have hp := parseLiteral_int_suffix fo v.toInt 76 (Or.inr (Or.inr (Or.inl rfl)))
    simp only [show ¬ ((76 : Byte) = 66) by decide, show ¬ ((76 : Byte) = 83) by decide, if_false, if_true,
      parseInt_toInt (by decide : 0 < 64) v, Option.map_some] at hp
    exact ⟨isTok_int _ _ (Or.inr (Or.inr (Or.inr (Or.inl rfl)))), isTokL_int _ _ (Or.inr (Or.inr (Or.inr (Or.inl rfl)))),
      _, hp, by simp [litPayload, encPayload, be64], rfl⟩
  | float b =>
    simp only [scalarText, Option.some.injEq] at hw; subst hw
    obtain ⟨hft, hpf⟩ := hf
    have hp := parseLiteral_float fo _ hft 70 (Or.inl rfl)
    simp only [if_true, hpf, Option.map_some] at hp
    exact ⟨isTok_float _ hft 70 (Or.inl rfl), isTokL_float _ hft 70 (Or.inl rfl), _, hp,
      by simp [litPayload, encPayload, be32], rfl⟩
  | double b =>
    simp only [scalarText, Option.some.injEq] at hw; subst hw
    obtain ⟨hft, hpf⟩ := hf
    have hp := parseLiteral_float fo _ hft 68 (Or.inr rfl)
    simp only [show ¬ ((68 : Byte) = 70) by decide, if_false, hpf, Option.map_some] at hp
    exact ⟨isTok_float _ hft 68 (Or.inr rfl), isTokL_float _ hft 68 (Or.inr rfl), _, hp,
      by simp [litPayload, encPayload, be64], rfl⟩
  | string str =>
    simp only [scalarText, Option.some.injEq] at hw; subst hw
    exact ⟨isTok_str str, isTokL_str str, _, parseLiteral_writeEscapeStr fo str,
      by simp [litPayload, encPayload, encString], litOk_str str (hlen str rfl)⟩
  | _ => simp [scalarText] at hw



abbrev canonT := GoMC.Spec.SNBT.canon

theorem wtextList_eq (fm : FmtOracle) (xs : List NBT) : wtextList fm xs = xs.map (wtext fm) := by
  induction xs with
  | nil => rfl
  | cons x r ih => simp [wtextList, ih]

theorem wtextKvs_eq (fm : FmtOracle) (kvs : List (Bytes × NBT)) :
    wtextKvs fm kvs = kvs.map fun kv => writeEscapeStr kv.1 ++ [58] ++ wtext fm kv.2 := by
  induction kvs with
  | nil => rfl
  | cons x r ih => obtain ⟨k, v⟩ := x; simp [wtextKvs, ih]

theorem canon_tag (t : NBT) : (canonT t).tag = t.tag := by
  cases t with
  | list e xs => cases xs <;> rfl
  | _ => rfl

theorem canonList_eq (xs : List NBT) : GoMC.Spec.SNBT.canon.canonList xs = xs.map canonT := by
  induction xs with
  | nil => rfl
  | cons x r ih => simp [GoMC.Spec.SNBT.canon.canonList, ih, canonT]

theorem encList_eq (xs : List NBT) : encList xs = (xs.map encPayload).flatten := by
  induction xs with
  | nil => rfl
  | cons x r ih => simp [encList, ih]

/-- payload of a non-empty list in canonical form -/
theorem encPayload_canon_list (e : Byte) (x : NBT) (r : List NBT) :
    encPayload (canonT (.list e (x :: r))) =
      listHeader e (r.length + 1) ++ ((x :: r).map fun y => encPayload (canonT y)).flatten := by
  show encPayload (.list e (canonT x :: GoMC.Spec.SNBT.canon.canonList r)) = _
  rw [canonList_eq]
  simp [encPayload, encList_eq, listHeader, List.map_map, Function.comp_def]

theorem formatInt_pos' (v : Int) : 0 < (formatInt v).length := formatInt_length_pos v

theorem writeEscapeStr_pos (str : Bytes) : 0 < (writeEscapeStr str).length := by
  obtain ⟨c0, ws, _, _, e, _⟩ := isTok_str str
  rw [e]; simp

theorem wtext_pos (fm : FmtOracle) (t : NBT) : 0 < (wtext fm t).length := by
  cases t <;> simp [wtext, writeEscapeStr_pos]
  all_goals first | exact formatInt_pos' _ | omega | skip
  all_goals (have := formatInt_pos' (BitVec.toInt ‹_›); omega)



/-- every node is a value: `ValSpec` from the per-node statement -/
theorem valSpec_of_Qt (fo : FloatOracle) (fm : FmtOracle) (t : NBT) (h : Qt fo fm t) :
    ValSpec fo (wtext fm t) t.tag (encPayload (canonT t)) (ndepth t) (2 * (wtext fm t).length + 1) := by
  cases t with
  | list e xs =>
    have := valSpec_of_wl fo _ _ _ _ _ h
    simpa [wtext, ndepth, NBT.tag, NBT.tagList, tagList] using this
  | compound kvs =>
    have := valSpec_of_cl fo _ _ _ _ h
    simpa [wtext, ndepth, NBT.tag, NBT.tagCompound, tagCompound] using this
  | byteArray xs =>
    have := valSpec_of_wl fo _ _ _ _ _ h
    simpa [wtext, ndepth, NBT.tag, NBT.tagByteArray, tagByteArray, canonT, GoMC.Spec.SNBT.canon] using this
  | intArray xs =>
    have := valSpec_of_wl fo _ _ _ _ _ h
    simpa [wtext, ndepth, NBT.tag, NBT.tagIntArray, tagIntArray, canonT, GoMC.Spec.SNBT.canon] using this
  | longArray xs =>
    have := valSpec_of_wl fo _ _ _ _ _ h
    simpa [wtext, ndepth, NBT.tag, NBT.tagLongArray, tagLongArray, canonT, GoMC.Spec.SNBT.canon] using this
  | byte v =>
    obtain ⟨h1, _, v', hp, hpay, hok⟩ := h
    have := (valSpec_tok fo _ h1 _ _ hp hok).mono (dep' := 0) (Nat.le_refl _) (show 1 ≤ 2 * (wtext fm (.byte v)).length + 1 by omega)
    rw [hpay] at this; exact this
  | short v =>
    obtain ⟨h1, _, v', hp, hpay, hok⟩ := h
    have := (valSpec_tok fo _ h1 _ _ hp hok).mono (dep' := 0) (Nat.le_refl _) (show 1 ≤ 2 * (wtext fm (.short v)).length + 1 by omega)
    rw [hpay] at this; exact this
  | int v =>
    obtain ⟨h1, _, v', hp, hpay, hok⟩ := h
    have := (valSpec_tok fo _ h1 _ _ hp hok).mono (dep' := 0) (Nat.le_refl _) (show 1 ≤ 2 * (wtext fm (.int v)).length + 1 by omega)
    rw [hpay] at this; exact this
  | long v =>
    obtain ⟨h1, _, v', hp, hpay, hok⟩ := h
    have := (valSpec_tok fo _ h1 _ _ hp hok).mono (dep' := 0) (Nat.le_refl _) (show 1 ≤ 2 * (wtext fm (.long v)).length + 1 by omega)
    rw [hpay] at this; exact this
  | float v =>
    obtain ⟨h1, _, v', hp, hpay, hok⟩ := h
    have := (valSpec_tok fo _ h1 _ _ hp hok).mono (dep' := 0) (Nat.le_refl _) (show 1 ≤ 2 * (wtext fm (.float v)).length + 1 by omega)
    rw [hpay] at this; exact this
  | double v =>
    obtain ⟨h1, _, v', hp, hpay, hok⟩ := h
    have := (valSpec_tok fo _ h1 _ _ hp hok).mono (dep' := 0) (Nat.le_refl _) (show 1 ≤ 2 * (wtext fm (.double v)).length + 1 by omega)
    rw [hpay] at this; exact this
  | string v =>
    obtain ⟨h1, _, v', hp, hpay, hok⟩ := h
    have := (valSpec_tok fo _ h1 _ _ hp hok).mono (dep' := 0) (Nat.le_refl _) (show 1 ≤ 2 * (wtext fm (.string v)).length + 1 by omega)
    rw [hpay] at this; exact this



def mkEntry (fm : FmtOracle) (kv : Bytes × NBT) : Entry :=
  ⟨kv.1, wtext fm kv.2, kv.2.tag, encPayload (canonT kv.2)⟩

theorem canonKvs_eq (kvs : List (Bytes × NBT)) :
    GoMC.Spec.SNBT.canon.canonKvs kvs = kvs.map fun kv => (kv.1, canonT kv.2) := by
  induction kvs with
  | nil => rfl
  | cons x r ih => obtain ⟨k, v⟩ := x; simp [GoMC.Spec.SNBT.canon.canonKvs, ih, canonT]

theorem encKvs_canon (fm : FmtOracle) (kvs : List (Bytes × NBT)) :
    encKvs (kvs.map fun kv => (kv.1, canonT kv.2)) = encEntries (kvs.map (mkEntry fm)) ++ [0] := by
  induction kvs with
  | nil => rfl
  | cons x r ih =>
    obtain ⟨k, v⟩ := x
    simp only [List.map_cons, encKvs, encEntries, mkEntry, ih, canon_tag, encString]
    simp [List.append_assoc]

theorem wKvs_mk (fm : FmtOracle) (kvs : List (Bytes × NBT)) :
    wKvs (kvs.map (mkEntry fm)) = joinElems (wtextKvs fm kvs) := by
  unfold wKvs
  rw [wtextKvs_eq, List.map_map]
  rfl

theorem ndepth_mem_kvs {kv : Bytes × NBT} {kvs : List (Bytes × NBT)} (h : kv ∈ kvs) : ndepth kv.2 ≤ ndepthKvs kvs := by
  induction kvs with
  | nil => cases h
  | cons y r ih =>
    obtain ⟨k, v⟩ := y
    simp only [ndepthKvs]
    rcases List.mem_cons.mp h with e | e
    · subst e; exact Nat.le_max_left _ _
    · exact Nat.le_trans (ih e) (Nat.le_max_right _ _)

/-- assembly: a compound whose values satisfy the per-node statement -/
theorem Qt_compound (fo : FloatOracle) (fm : FmtOracle) (kvs : List (Bytes × NBT))
    (hall : ∀ kv ∈ kvs, Qt fo fm kv.2) (hkeys : ∀ kv ∈ kvs, kv.1.length < 2 ^ 15) : Qt fo fm (.compound kvs) := by
  show CLSpec fo (joinElems (wtextKvs fm kvs) ++ [125]) (encPayload (canonT (.compound kvs))) (ndepthKvs kvs + 1 - 1)
    (2 * (wtext fm (.compound kvs)).length)
  have hpay : encPayload (canonT (.compound kvs)) = encEntries (kvs.map (mkEntry fm)) ++ [0] := by
    show encKvs (GoMC.Spec.SNBT.canon.canonKvs kvs) = _
    rw [canonKvs_eq, encKvs_canon fm]
  rw [hpay, ← wKvs_mk]
  have hW : (wtext fm (.compound kvs)).length = (wKvs (kvs.map (mkEntry fm))).length + 2 := by
    simp [wtext, wKvs_mk]
  -- fuel: every value text is much shorter than the whole
  have hlen : ∀ kv ∈ kvs, 2 * (wtext fm kv.2).length + 1 + kvs.length + 1 ≤ 2 * (wtext fm (.compound kvs)).length := by
    intro kv hkv
    have h1 := joinElems_len ((kvs.map (mkEntry fm)).map entryText)
      (by intro w hw; simp only [List.mem_map] at hw; obtain ⟨e, _, rfl⟩ := hw
          simp only [entryText, List.length_append]; have := writeEscapeStr_pos e.key; omega)
      (entryText (mkEntry fm kv)) (by simp only [List.mem_map]; exact ⟨mkEntry fm kv, ⟨kv, hkv, rfl⟩, rfl⟩)
    have h2 : (wtext fm kv.2).length + 2 ≤ (entryText (mkEntry fm kv)).length := by
      simp only [entryText, mkEntry, List.length_append, List.length_cons, List.length_nil]
      have := writeEscapeStr_pos kv.1; omega
    have h3 : 0 < kvs.length := List.length_pos_of_mem hkv
    rw [hW]
    unfold wKvs
    simp only [List.length_map] at h1
    omega
  have hcl := comp_cl fo (ndepthKvs kvs) (2 * (wtext fm (.compound kvs)).length - kvs.length - 1) (kvs.map (mkEntry fm))
    (by
      intro e he
      simp only [List.mem_map] at he
      obtain ⟨kv, hkv, rfl⟩ := he
      exact (valSpec_of_Qt fo fm kv.2 (hall kv hkv)).mono (ndepth_mem_kvs hkv) (by have := hlen kv hkv; omega))
    (by
      intro e he
      simp only [List.mem_map] at he
      obtain ⟨kv, hkv, rfl⟩ := he
      have := hkeys kv hkv
      show kv.1.length ≤ maxStrLen
      unfold maxStrLen; omega)
  refine hcl.mono (by omega) ?_
  simp only [List.length_map]
  cases kvs with
  | nil => simp [wtext, wtextKvs, joinElems]
  | cons kv r => have := hlen kv (by simp); omega



def isScalarN : NBT → Bool
  | .byte _ | .short _ | .int _ | .long _ | .float _ | .double _ | .string _ => true
  | _ => false
def isLAN : NBT → Bool
  | .list _ _ | .byteArray _ | .intArray _ | .longArray _ => true
  | _ => false
def isCompN : NBT → Bool
  | .compound _ => true
  | _ => false

theorem class_of_tag (x y : NBT) (h : y.tag = x.tag) :
    isScalarN y = isScalarN x ∧ isLAN y = isLAN x ∧ isCompN y = isCompN x := by
  cases x <;> cases y <;> first | exact ⟨rfl, rfl, rfl⟩ | (exfalso; revert h; simp [NBT.tag]; decide)

theorem class_trichotomy (x : NBT) : isScalarN x = true ∨ isLAN x = true ∨ isCompN x = true := by
  cases x <;> simp [isScalarN, isLAN, isCompN]

theorem litEl_of_Qt (fo : FloatOracle) (fm : FmtOracle) (y : NBT) (hs : isScalarN y = true) (h : Qt fo fm y) :
    LitEl fo y.tag (wtext fm y) (encPayload (canonT y)) := by
  cases y <;> simp [isScalarN] at hs <;> exact h

theorem wl_of_Qt (fo : FloatOracle) (fm : FmtOracle) (y : NBT) (hs : isLAN y = true) (h : Qt fo fm y) :
    wtext fm y = 91 :: (wtext fm y).tail ∧
    WLSpec fo (wtext fm y).tail y.tag (encPayload (canonT y)) (ndepth y - 1) (2 * (wtext fm y).length) ∧
    1 ≤ ndepth y := by
  cases y <;> simp [isLAN] at hs
  · exact ⟨rfl, h, by simp [ndepth]⟩
  · exact ⟨rfl, h, by simp [ndepth]⟩
  · exact ⟨rfl, h, by simp [ndepth]⟩
  · exact ⟨rfl, h, by simp [ndepth]⟩

theorem cl_of_Qt (fo : FloatOracle) (fm : FmtOracle) (y : NBT) (hs : isCompN y = true) (h : Qt fo fm y) :
    wtext fm y = 123 :: (wtext fm y).tail ∧
    CLSpec fo (wtext fm y).tail (encPayload (canonT y)) (ndepth y - 1) (2 * (wtext fm y).length) ∧
    1 ≤ ndepth y ∧ y.tag = tagCompound := by
  cases y <;> simp [isCompN] at hs
  exact ⟨rfl, h, by simp [ndepth], rfl⟩



theorem list_len_bound (fm : FmtOracle) (e : Byte) (xs : List NBT) (y : NBT) (hy : y ∈ xs) :
    2 * (wtext fm y).length + xs.length + 2 ≤ 2 * (wtext fm (.list e xs)).length := by
  have h1 := joinElems_len (wtextList fm xs)
    (by intro w hw; rw [wtextList_eq] at hw; simp only [List.mem_map] at hw; obtain ⟨z, _, rfl⟩ := hw; exact wtext_pos fm z)
    (wtext fm y) (by rw [wtextList_eq]; exact List.mem_map_of_mem hy)
  have h3 : 0 < xs.length := List.length_pos_of_mem hy
  have hl : (wtextList fm xs).length = xs.length := by rw [wtextList_eq]; simp
  have hW : (wtext fm (.list e xs)).length = (joinElems (wtextList fm xs)).length + 2 := by simp [wtext]
  rw [hW]; rw [hl] at h1; omega

/-- assembly: a homogeneous list whose elements satisfy the per-node statement -/
theorem Qt_list (fo : FloatOracle) (fm : FmtOracle) (e : Byte) (xs : List NBT)
    (hall : ∀ y ∈ xs, Qt fo fm y ∧ y.tag = e) : Qt fo fm (.list e xs) := by
  show WLSpec fo (joinElems (wtextList fm xs) ++ [93]) tagList (encPayload (canonT (.list e xs))) (ndepthList xs + 1 - 1)
    (2 * (wtext fm (.list e xs)).length)
  cases hxs : xs with
  | nil =>
    have := (wl_empty fo).mono (dep' := ndepthList [] + 1 - 1) (need' := 2 * (wtext fm (.list e [])).length)
      (Nat.zero_le _) (by simp [wtext, wtextList, joinElems])
    simpa [wtextList, joinElems, canonT, GoMC.Spec.SNBT.canon, encPayload, encList, listHeader, beBytes] using this
  | cons x r =>
    rw [← hxs]
    have hx := hall x (by rw [hxs]; simp)
    have hlen := list_len_bound fm e xs
    have hn : xs.length = r.length + 1 := by rw [hxs]; simp
    have hpay : encPayload (canonT (.list e xs)) =
        listHeader e xs.length ++ (xs.map fun y => encPayload (canonT y)).flatten := by
      rw [hxs, encPayload_canon_list]; simp
    rw [hpay]
    have hclass : ∀ y ∈ xs, isScalarN y = isScalarN x ∧ isLAN y = isLAN x ∧ isCompN y = isCompN x := by
      intro y hy; exact class_of_tag x y (by rw [(hall y hy).2, hx.2])
    rcases class_trichotomy x with hs | hs | hs
    · -- literals
      have hel : ∀ p ∈ xs.map (fun y => (wtext fm y, encPayload (canonT y))), LitEl fo e p.1 p.2 := by
        intro p hp
        simp only [List.mem_map] at hp
        obtain ⟨y, hy, rfl⟩ := hp
        have := litEl_of_Qt fo fm y (by rw [(hclass y hy).1]; exact hs) (hall y hy).1
        rw [(hall y hy).2] at this; exact this
      rw [hxs] at hel
      have hrule := wl_litList fo e (wtext fm x, encPayload (canonT x))
        (r.map fun y => (wtext fm y, encPayload (canonT y))) (by simpa using hel)
      rw [hxs]
      simp only [List.map_cons, List.map_map, Function.comp_def, List.length_map] at hrule
      have hw : wtextList fm (x :: r) = wtext fm x :: r.map (wtext fm) := by rw [wtextList_eq]; simp
      rw [hw]
      refine hrule.mono (Nat.zero_le _) ?_
      have := hlen x (by rw [hxs]; simp)
      rw [hxs] at this
      simp only [List.length_cons] at this ⊢; omega
    · -- lists / arrays
      have hq : ∀ y ∈ xs, wtext fm y = 91 :: (wtext fm y).tail ∧
          WLSpec fo (wtext fm y).tail e (encPayload (canonT y)) (ndepthList xs - 1)
            (2 * (wtext fm (.list e xs)).length - xs.length - 1) := by
        intro y hy
        obtain ⟨a, b, c⟩ := wl_of_Qt fo fm y (by rw [(hclass y hy).2.1]; exact hs) (hall y hy).1
        rw [(hall y hy).2] at b
        have hd := ndepth_mem_list hy
        exact ⟨a, b.mono (by omega) (by have := hlen y hy; omega)⟩
      have hdpos : 1 ≤ ndepthList xs := by
        have := (wl_of_Qt fo fm x hs hx.1).2.2
        have := ndepth_mem_list (x := x) (xs := xs) (by rw [hxs]; simp)
        omega
      have hrule := wl_listList fo e (ndepthList xs - 1) (2 * (wtext fm (.list e xs)).length - xs.length - 1)
        (xs.map fun y => ⟨(wtext fm y).tail, encPayload (canonT y)⟩) (by rw [hxs]; simp)
        (by intro p hp; simp only [List.mem_map] at hp; obtain ⟨y, hy, rfl⟩ := hp; exact (hq y hy).2)
      have htext : (xs.map fun y => (⟨(wtext fm y).tail, encPayload (canonT y)⟩ : LEl)).map (fun p => 91 :: p.w') =
          wtextList fm xs := by
        rw [wtextList_eq, List.map_map]
        apply List.map_congr_left
        intro y hy
        exact (hq y hy).1.symm
      simp only [List.length_map] at hrule
      rw [htext, List.map_map] at hrule
      refine hrule.mono (by omega) ?_
      have := hlen x (by rw [hxs]; simp); omega
    · -- compounds
      have he : e = tagCompound := by
        have := (cl_of_Qt fo fm x hs hx.1).2.2.2; rw [← hx.2]; exact this
      have hq : ∀ y ∈ xs, wtext fm y = 123 :: (wtext fm y).tail ∧
          CLSpec fo (wtext fm y).tail (encPayload (canonT y)) (ndepthList xs - 1)
            (2 * (wtext fm (.list e xs)).length - xs.length - 1) := by
        intro y hy
        obtain ⟨a, b, c, _⟩ := cl_of_Qt fo fm y (by rw [(hclass y hy).2.2]; exact hs) (hall y hy).1
        have hd := ndepth_mem_list hy
        exact ⟨a, b.mono (by omega) (by have := hlen y hy; omega)⟩
      have hdpos : 1 ≤ ndepthList xs := by
        have := (cl_of_Qt fo fm x hs hx.1).2.2.1
        have := ndepth_mem_list (x := x) (xs := xs) (by rw [hxs]; simp)
        omega
      have hrule := wl_compList fo (ndepthList xs - 1) (2 * (wtext fm (.list e xs)).length - xs.length - 1)
        (xs.map fun y => ⟨(wtext fm y).tail, encPayload (canonT y)⟩) (by rw [hxs]; simp)
        (by intro p hp; simp only [List.mem_map] at hp; obtain ⟨y, hy, rfl⟩ := hp; exact (hq y hy).2)
      have htext : (xs.map fun y => (⟨(wtext fm y).tail, encPayload (canonT y)⟩ : LEl)).map (fun p => 123 :: p.w') =
          wtextList fm xs := by
        rw [wtextList_eq, List.map_map]
        apply List.map_congr_left
        intro y hy
        exact (hq y hy).1.symm
      simp only [List.length_map] at hrule
      rw [htext, List.map_map, ← he] at hrule
      refine hrule.mono (by omega) ?_
      have := hlen x (by rw [hxs]; simp); omega



theorem Qt_byteArray (fo : FloatOracle) (fm : FmtOracle) (xs : List (BitVec 8)) : Qt fo fm (.byteArray xs) := by
  have h := array_wl fo 66 tagByte tagByteArray (Or.inl ⟨rfl, rfl, rfl⟩)
    (xs.map fun x => (formatInt x.toInt ++ [66], [x]))
    (by intro e he; simp only [List.mem_map] at he; obtain ⟨x, _, rfl⟩ := he; exact arrEl_byte fo x)
  simp only [List.map_map, Function.comp_def, List.length_map, flatten_singletons] at h
  refine h.mono (Nat.le_refl _) ?_
  have := joinElems_length_ge (xs.map fun x => formatInt x.toInt ++ [66])
  simp only [List.length_map] at this
  simp only [wtext, List.length_cons, List.length_append, List.length_nil]; omega

theorem Qt_intArray (fo : FloatOracle) (fm : FmtOracle) (xs : List (BitVec 32)) : Qt fo fm (.intArray xs) := by
  have h := array_wl fo 73 tagInt tagIntArray (Or.inr (Or.inl ⟨rfl, rfl, rfl⟩))
    (xs.map fun x => (formatInt x.toInt ++ [73], be32 x))
    (by intro e he; simp only [List.mem_map] at he; obtain ⟨x, _, rfl⟩ := he; exact arrEl_int fo x)
  simp only [List.map_map, Function.comp_def, List.length_map] at h
  refine h.mono (Nat.le_refl _) ?_
  have := joinElems_length_ge (xs.map fun x => formatInt x.toInt ++ [73])
  simp only [List.length_map] at this
  simp only [wtext, List.length_cons, List.length_append, List.length_nil]; omega

theorem Qt_longArray (fo : FloatOracle) (fm : FmtOracle) (xs : List (BitVec 64)) : Qt fo fm (.longArray xs) := by
  have h := array_wl fo 76 tagLong tagLongArray (Or.inr (Or.inr ⟨rfl, rfl, rfl⟩))
    (xs.map fun x => (formatInt x.toInt ++ [76], be64 x))
    (by intro e he; simp only [List.mem_map] at he; obtain ⟨x, _, rfl⟩ := he; exact arrEl_long fo x)
  simp only [List.map_map, Function.comp_def, List.length_map] at h
  refine h.mono (Nat.le_refl _) ?_
  have := joinElems_length_ge (xs.map fun x => formatInt x.toInt ++ [76])
  simp only [List.length_map] at this
  simp only [wtext, List.length_cons, List.length_append, List.length_nil]; omega


mutual
  /-- the tree induction: every well-formed tree (floats under the `strconv` hypotheses, strings and names shorter
  than 2^15 bytes) satisfies the per-node
  statement -/
  theorem Q_tree (fo : FloatOracle) (fm : FmtOracle) : (t : NBT) → t.WF → FloatHypT fo fm t → S15 t → Qt fo fm t
    | .byte v, _, _, _ => litEl_scalar fo fm (.byte v) _ rfl trivial (fun s h => by cases h)
    | .short v, _, _, _ => litEl_scalar fo fm (.short v) _ rfl trivial (fun s h => by cases h)
    | .int v, _, _, _ => litEl_scalar fo fm (.int v) _ rfl trivial (fun s h => by cases h)
    | .long v, _, _, _ => litEl_scalar fo fm (.long v) _ rfl trivial (fun s h => by cases h)
    | .float b, _, hf, _ => litEl_scalar fo fm (.float b) _ rfl hf (fun s h => by cases h)
    | .double b, _, hf, _ => litEl_scalar fo fm (.double b) _ rfl hf (fun s h => by cases h)
    | .string s, _, _, h15 => litEl_scalar fo fm (.string s) _ rfl trivial (fun s' h => by cases h; exact h15)
    | .byteArray xs, _, _, _ => Qt_byteArray fo fm xs
    | .intArray xs, _, _, _ => Qt_intArray fo fm xs
    | .longArray xs, _, _, _ => Qt_longArray fo fm xs
    | .list e xs, hwf, hf, h15 => Qt_list fo fm e xs (Q_list fo fm xs e hwf.2.2.2 hf h15)
    | .compound kvs, hwf, hf, h15 => Qt_compound fo fm kvs (fun kv hkv => (Q_kvs fo fm kvs hwf hf h15 kv hkv).1)
        (fun kv hkv => (Q_kvs fo fm kvs hwf hf h15 kv hkv).2)
  theorem Q_list (fo : FloatOracle) (fm : FmtOracle) : (xs : List NBT) → (e : BitVec 8) → NBT.WFList e xs →
      FloatHypList fo fm xs → S15List xs → ∀ y ∈ xs, Qt fo fm y ∧ y.tag = e
    | [], _, _, _, _ => fun y h => by cases h
    | x :: r, e, hwf, hf, h15 => fun y hy => by
      rcases List.mem_cons.mp hy with h | h
      · rw [h]; exact ⟨Q_tree fo fm x hwf.2.1 hf.1 h15.1, hwf.1⟩
      · exact Q_list fo fm r e hwf.2.2 hf.2 h15.2 y h
  theorem Q_kvs (fo : FloatOracle) (fm : FmtOracle) : (kvs : List (Bytes × NBT)) → NBT.WFKvs kvs →
      FloatHypKvs fo fm kvs → S15Kvs kvs → ∀ kv ∈ kvs, Qt fo fm kv.2 ∧ kv.1.length < 2 ^ 15
    | [], _, _, _ => fun kv h => by cases h
    | (k, v) :: r, hwf, hf, h15 => fun kv hkv => by
      rcases List.mem_cons.mp hkv with h | h
      · rw [h]; exact ⟨Q_tree fo fm v hwf.2.1 hf.1 h15.2.1, h15.1⟩
      · exact Q_kvs fo fm r hwf.2.2 hf.2 h15.2.2 kv h
end

/-- `C04_roundtrip` (text → binary): for every well-formed tree within the nesting limit, with the `strconv`
hypotheses for its floats, `MarshalNBT` of the writer's text is the payload of the tree (empty lists in canonical
form) -/
theorem marshal_wtext (fo : FloatOracle) (fm : FmtOracle) (t : NBT) (hwf : t.WF) (hf : FloatHypT fo fm t)
    (h15 : S15 t) (hd : ndepth t ≤ maxNestingDepth + 1) : marshal fo (wtext fm t) = .ok (encPayload (canonT t)) := by
  apply marshal_of_valSpec fo _ t.tag _ (ndepth t) (2 * (wtext fm t).length + 1)
    (valSpec_of_Qt fo fm t (Q_tree fo fm t hwf hf h15)) hd
  unfold parseFuel; omega





theorem encPayload_pos (t : NBT) : 1 ≤ (encPayload t).length := by
  cases t <;> simp [encPayload, be16, be32, be64, encString, beBytes_length] <;> try omega
  case compound kvs => cases kvs with
    | nil => simp [encKvs]
    | cons kv r => obtain ⟨k, v⟩ := kv; simp [encKvs]

theorem encKvs_pos (kvs : List (Bytes × NBT)) : 1 ≤ (encKvs kvs).length := by
  cases kvs with
  | nil => simp [encKvs]
  | cons kv r => obtain ⟨k, v⟩ := kv; simp [encKvs]

/-- the text the walker accumulates for the elements of a list -/
def listBody (fm : FmtOracle) (first : Bool) (xs : List NBT) : Bytes :=
  match xs with
  | [] => []
  | _ :: _ => sepIf first ++ joinElems (wtextList fm xs)

/-- the text the walker accumulates for the entries of a compound, including the closing brace -/
def kvsBody (fm : FmtOracle) (first : Bool) (kvs : List (Bytes × NBT)) : Bytes :=
  (if first then ([123] : Bytes) else match kvs with | [] => [] | _ :: _ => [44]) ++ joinElems (wtextKvs fm kvs) ++ [125]



theorem tag_facts (t : NBT) : (t.tag == 0x1f || t.tag == 0x78) = false ∧ (t.tag == 0) = false ∧ (t.tag != 0) = true := by
  cases t <;> refine ⟨?_, ?_, ?_⟩ <;> rfl

theorem listBody_cons (fm : FmtOracle) (first : Bool) (x : NBT) (r : List NBT) :
    listBody fm first (x :: r) = sepIf first ++ wtext fm x ++ listBody fm false r := by
  cases r with
  | nil => simp [listBody, wtextList, joinElems]
  | cons y r' => simp [listBody, wtextList, joinElems, sepIf, List.append_assoc]

theorem kvsBody_cons (fm : FmtOracle) (first : Bool) (k : Bytes) (v : NBT) (r : List (Bytes × NBT)) :
    kvsBody fm first ((k, v) :: r) =
      (if first then ([123] : Bytes) else [44]) ++ writeEscapeStr k ++ [58] ++ wtext fm v ++ kvsBody fm false r := by
  cases r with
  | nil => simp [kvsBody, wtextKvs, joinElems]
  | cons y r' => obtain ⟨k', v'⟩ := y; simp [kvsBody, wtextKvs, joinElems, List.append_assoc]

mutual
  /-- the walker on the payload of a well-formed tree prints `wtext` and consumes exactly the payload -/
  theorem W_tree (fm : FmtOracle) : (t : NBT) → t.WF → S15 t → ∀ (f : Nat) (s : Stream) (rest : Bytes),
      2 * (encPayload t).length + 2 ≤ f → s.flat = encPayload t ++ rest →
      ∃ s', encode fm f t.tag s = (Res.ok (wtext fm t), s') ∧ s'.flat = rest
    | .byte v, _, _ => fun f s rest hf hs => by
      obtain ⟨f, rfl⟩ : ∃ f', f = f' + 1 := ⟨f - 1, by omega⟩
      exact walker_scalar fm (.byte v) _ rfl (by intro s h; cases h) f s rest hs
    | .short v, _, _ => fun f s rest hf hs => by
      obtain ⟨f, rfl⟩ : ∃ f', f = f' + 1 := ⟨f - 1, by omega⟩
      exact walker_scalar fm (.short v) _ rfl (by intro s h; cases h) f s rest hs
    | .int v, _, _ => fun f s rest hf hs => by
      obtain ⟨f, rfl⟩ : ∃ f', f = f' + 1 := ⟨f - 1, by omega⟩
      exact walker_scalar fm (.int v) _ rfl (by intro s h; cases h) f s rest hs
    | .long v, _, _ => fun f s rest hf hs => by
      obtain ⟨f, rfl⟩ : ∃ f', f = f' + 1 := ⟨f - 1, by omega⟩
      exact walker_scalar fm (.long v) _ rfl (by intro s h; cases h) f s rest hs
    | .float v, _, _ => fun f s rest hf hs => by
      obtain ⟨f, rfl⟩ : ∃ f', f = f' + 1 := ⟨f - 1, by omega⟩
      exact walker_scalar fm (.float v) _ rfl (by intro s h; cases h) f s rest hs
    | .double v, _, _ => fun f s rest hf hs => by
      obtain ⟨f, rfl⟩ : ∃ f', f = f' + 1 := ⟨f - 1, by omega⟩
      exact walker_scalar fm (.double v) _ rfl (by intro s h; cases h) f s rest hs
    | .string str, _, h15 => fun f s rest hf hs => by
      obtain ⟨f, rfl⟩ : ∃ f', f = f' + 1 := ⟨f - 1, by omega⟩
      exact walker_scalar fm (.string str) _ rfl (by intro s h; injection h with h; subst h; exact h15) f s rest hs
    | .byteArray xs, hwf, _ => fun f s rest hf hs => by
      obtain ⟨f, rfl⟩ : ∃ f', f = f' + 1 := ⟨f - 1, by omega⟩
      exact walker_array fm (.byteArray xs) _ rfl hwf f s rest hs
    | .intArray xs, hwf, _ => fun f s rest hf hs => by
      obtain ⟨f, rfl⟩ : ∃ f', f = f' + 1 := ⟨f - 1, by omega⟩
      exact walker_array fm (.intArray xs) _ rfl hwf f s rest hs
    | .longArray xs, hwf, _ => fun f s rest hf hs => by
      obtain ⟨f, rfl⟩ : ∃ f', f = f' + 1 := ⟨f - 1, by omega⟩
      exact walker_array fm (.longArray xs) _ rfl hwf f s rest hs
    | .list e xs, hwf, h15 => fun f s rest hf hs => by
      obtain ⟨f, rfl⟩ : ∃ f', f = f' + 1 := ⟨f - 1, by omega⟩
      have hs' : s.flat = e :: (beBytes 4 xs.length ++ (encList xs ++ rest)) := by
        rw [hs]; simp [encPayload]
      have hb := readByte_cons s e _ hs'
      have hc := readCount_ok xs.length hwf.1 (s.drop 1) (encList xs ++ rest) (by rw [Stream.flat_drop, hs']; simp)
      have hlen : (encPayload (.list e xs)).length = 5 + (encList xs).length := by
        simp [encPayload, beBytes_length]; omega
      obtain ⟨s', h1, h2⟩ := W_list fm xs e hwf.2.2.2 h15 f ((s.drop 1).drop 4) rest true [] (by omega) (by
        rw [Stream.flat_drop, Stream.flat_drop, hs']; simp [List.drop_append_of_le_length, beBytes_length])
      unfold encode
      simp only [NBT.tag, NBT.tagList, show (9 : BitVec 8).toNat = 9 from rfl]
      rw [Rd.bind_ok hb, Rd.bind_ok hc]
      have hn : ¬ ((xs.length : Int) < 0) := by omega
      have he12 : ¬ (e.toNat > 12) := by have := hwf.2.2.1; omega
      simp only [hn, he12, if_false, Int.toNat_natCast]
      rw [Rd.bind_ok h1]
      refine ⟨s', ?_, h2⟩
      cases xs <;> simp [listBody, wtext, sepIf, wtextList, joinElems]
    | .compound kvs, hwf, h15 => fun f s rest hf hs => by
      obtain ⟨f, rfl⟩ : ∃ f', f = f' + 1 := ⟨f - 1, by omega⟩
      obtain ⟨s', h1, h2⟩ := W_kvs fm kvs hwf h15 f s rest true [] (by simp [encPayload] at hf; omega)
        (by simpa [encPayload] using hs)
      unfold encode
      simp only [NBT.tag, NBT.tagCompound, show (10 : BitVec 8).toNat = 10 from rfl]
      rw [h1]
      exact ⟨s', by simp [kvsBody, wtext], h2⟩
  theorem W_list (fm : FmtOracle) : (xs : List NBT) → (e : BitVec 8) → NBT.WFList e xs → S15List xs →
      ∀ (f : Nat) (s : Stream) (rest : Bytes) (first : Bool) (acc : Bytes),
      2 * (encList xs).length + 3 ≤ f → s.flat = encList xs ++ rest →
      ∃ s', wListLoop fm f e xs.length first acc s = (Res.ok (acc ++ listBody fm first xs), s') ∧ s'.flat = rest
    | [], _, _, _ => fun f s rest first acc hf hs => by
      obtain ⟨f, rfl⟩ : ∃ f', f = f' + 1 := ⟨f - 1, by omega⟩
      exact ⟨s, by simp [wListLoop, listBody], by simpa [encList] using hs⟩
    | x :: r, e, hwf, h15 => fun f s rest first acc hf hs => by
      obtain ⟨f, rfl⟩ : ∃ f', f = f' + 1 := ⟨f - 1, by omega⟩
      have hpos := encPayload_pos x
      have hl : (encList (x :: r)).length = (encPayload x).length + (encList r).length := by simp [encList]
      obtain ⟨s1, h1, h2⟩ := W_tree fm x hwf.2.1 h15.1 f s (encList r ++ rest) (by omega) (by
        rw [hs]; simp [encList])
      obtain ⟨s2, h3, h4⟩ := W_list fm r e hwf.2.2 h15.2 f s1 rest false (acc ++ sepIf first ++ wtext fm x)
        (by omega) h2
      rw [hwf.1] at h1
      simp only [List.length_cons, wListLoop]
      rw [Rd.bind_ok h1, h3]
      exact ⟨s2, by rw [listBody_cons]; simp [List.append_assoc], h4⟩
  theorem W_kvs (fm : FmtOracle) : (kvs : List (Bytes × NBT)) → NBT.WFKvs kvs → S15Kvs kvs →
      ∀ (f : Nat) (s : Stream) (rest : Bytes) (first : Bool) (acc : Bytes),
      2 * (encKvs kvs).length + 1 ≤ f → s.flat = encKvs kvs ++ rest →
      ∃ s', wCompLoop fm f first acc s = (Res.ok (acc ++ kvsBody fm first kvs), s') ∧ s'.flat = rest
    | [], _, _ => fun f s rest first acc hf hs => by
      obtain ⟨f, rfl⟩ : ∃ f', f = f' + 1 := ⟨f - 1, by omega⟩
      have hb := readByte_cons s 0 rest (by simpa [encKvs, NBT.tagEnd] using hs)
      unfold wCompLoop
      rw [Rd.bind_ok hb]
      refine ⟨s.drop 1, ?_, by rw [Stream.flat_drop, hs]; simp [encKvs]⟩
      cases first <;> simp [kvsBody, wtextKvs, joinElems] <;> rfl
    | (k, v) :: r, hwf, h15 => fun f s rest first acc hf hs => by
      obtain ⟨f, rfl⟩ : ∃ f', f = f' + 1 := ⟨f - 1, by omega⟩
      have hs' : s.flat = v.tag :: (encString k ++ (encPayload v ++ (encKvs r ++ rest))) := by
        rw [hs]; simp [encKvs]
      have hb := readByte_cons s v.tag _ hs'
      obtain ⟨s2, h2, h2'⟩ := readString_ok k h15.1 (s.drop 1) (encPayload v ++ (encKvs r ++ rest)) (by
        rw [Stream.flat_drop, hs']; simp)
      have hlen : (encKvs ((k, v) :: r)).length = 1 + (2 + k.length) + (encPayload v).length + (encKvs r).length := by
        simp [encKvs, encString, beBytes_length]; omega
      have hkp := encKvs_pos r
      obtain ⟨s3, h3, h3'⟩ := W_tree fm v hwf.2.1 h15.2.1 f s2 (encKvs r ++ rest) (by omega) h2'
      obtain ⟨s4, h4, h4'⟩ := W_kvs fm r hwf.2.2 h15.2.2 f s3 rest false
        (acc ++ (if first then ([123] : Bytes) else [44]) ++ writeEscapeStr k ++ [58] ++ wtext fm v) (by omega) h3'
      obtain ⟨t1, t2, t3⟩ := tag_facts v
      unfold wCompLoop
      rw [Rd.bind_ok hb]
      simp only [t1, t2, t3, Bool.false_eq_true, if_false, if_true]
      rw [Rd.bind_ok h2]
      rw [Rd.bind_ok h3]
      refine ⟨s4, ?_, h4'⟩
      rw [kvsBody_cons]
      cases first <;> simpa [List.append_assoc] using h4
end


/-- binary → text on a whole document: `UnmarshalNBT` prints `wtext t` and consumes exactly `encPayload t` -/
theorem unmarshal_wtext (fm : FmtOracle) (t : NBT) (hwf : t.WF) (h15 : S15 t) (s : Stream) (rest : Bytes)
    (hs : s.flat = encPayload t ++ rest) :
    ∃ s', unmarshalNBT fm t.tag s = (Res.ok (wtext fm t), s') ∧ s'.flat = rest := by
  unfold unmarshalNBT
  rw [if_neg (by rw [(tag_facts t).2.1]; simp)]
  exact W_tree fm t hwf h15 _ s rest (by unfold walkFuel; rw [hs]; simp; omega) hs

end GoMC.Model.SNBT
