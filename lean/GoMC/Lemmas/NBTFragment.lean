/-
  The fragment of the Go type universe on which the typed codec is proved to round-trip, by induction on the type.

  A class `k : Cls` for a destination type `c` names the trees a variable of type `c` stands for (`k.ok`), the Go
  value of a tree (`k.val`), the value `getTagType` hands to `marshal` for it (`k.inner`: the pointee behind
  pointers), the fuel the encoder (`k.need`) and the pointer indirections of the decoder (`k.extra`) use, and — for
  the value-side reading — which Go values are canonical (`k.canon`) and the tag a canonical value is written with
  (`k.tagV`). `Exact cx c k` says the codec is exact on the class. Base classes: `Lemmas/NBTRoundTrip`. Here: the
  closure under slices, arrays, maps, pointers and structs (flat field tables, `omitempty` included), the fragment
  `Plain`, and the theorems on whole documents.
-/
import GoMC.Lemmas.NBTRoundTrip
import GoMC.Lemmas.NBTSoundTyped
set_option linter.unusedSimpArgs false
namespace GoMC.Lemmas.NBTTyped
open GoMC GoMC.Rd GoMC.Model GoMC.Model.NBT GoMC.Model.Go GoMC.Lemmas.NBTDecode
open GoMC.Spec (NBT encPayload encList encKvs encString encDoc be16 be32 be64 beBytes beVal Format docName)

/-- a class of trees with the Go values they stand for -/
structure Cls where
  ok : NBT → Prop
  val : NBT → GoVal
  inner : NBT → GoVal
  need : NBT → Nat
  extra : Nat
  canon : GoVal → Prop
  tagV : GoVal → Byte

/-- The codec is exact on the class `k` for the destination type `c`: decoding the payload of `t` into a fresh
variable of type `c` yields `k.val t` (exactly the payload consumed; `k.extra` units of fuel beyond the nesting of
the document), `getTagType` of `k.val t` is `t`'s tag together with `k.inner t`, and `marshal` of that writes the
payload back — given `k.need t` units of fuel. -/
structure Exact (cx : SnbtCarrier) (c : GoType) (k : Cls) : Prop where
  zeroTy : c.zero.typeOf = c
  reads : ∀ d fuel t, k.ok t → R (cost t + k.extra ≤ fuel) (unmarshal cx d fuel c c.zero t.tag) (encPayload t) (k.val t)
  getTag : ∀ f t, k.ok t → k.need t ≤ f → getTagType cx f (k.val t) = (t.tag, k.inner t)
  marshal : ∀ f t, k.ok t → k.need t ≤ f → marshal cx f (k.inner t) t.tag = Res.ok (encPayload t)
  needPos : ∀ t, k.ok t → 1 ≤ k.need t
  wf : ∀ t, k.ok t → t.WF
  s15 : ∀ t, k.ok t → S15 t
  /-- the value-side reading: every canonical value is the value of a tree of the class, with the tag `tagV` says -/
  onto : ∀ v, k.canon v → ∃ t, k.ok t ∧ k.val t = v ∧ t.tag = k.tagV v

/-- a base class: no pointers -/
def Cls.base (ok : NBT → Prop) (val : NBT → GoVal) (need : NBT → Nat) (canon : GoVal → Prop) (tagV : GoVal → Byte) : Cls :=
  ⟨ok, val, val, need, 0, canon, tagV⟩

theorem ElemExact.toExact {cx : SnbtCarrier} {c : GoType} {ok : NBT → Prop} {val : NBT → GoVal} {need : NBT → Nat}
    (h : ElemExact cx c ok val need) (canon : GoVal → Prop) (tagV : GoVal → Byte)
    (hwf : ∀ t, ok t → t.WF) (hs15 : ∀ t, ok t → S15 t)
    (honto : ∀ v, canon v → ∃ t, ok t ∧ val t = v ∧ t.tag = tagV v) : Exact cx c (Cls.base ok val need canon tagV) where
  zeroTy := h.zeroTy
  reads := fun d fuel t ht => R_mono (fun hc => by simp only [Cls.base] at hc; omega) (h.reads d fuel t ht)
  getTag := h.getTag
  marshal := h.marshal
  needPos := h.needPos
  wf := hwf
  s15 := hs15
  onto := honto

/-! ### the base classes with their canonical values -/
theorem inRange_i8 (x : Int) : IK.InRange .i8 x ↔ (-128 ≤ x ∧ x < 128) := by simp [IK.InRange, IK.signed, IK.bits]
theorem inRange_u8 (x : Int) : IK.InRange .u8 x ↔ (0 ≤ x ∧ x < 256) := by simp [IK.InRange, IK.signed, IK.bits]
theorem inRange_i16 (x : Int) : IK.InRange .i16 x ↔ (-32768 ≤ x ∧ x < 32768) := by simp [IK.InRange, IK.signed, IK.bits]
theorem inRange_u16 (x : Int) : IK.InRange .u16 x ↔ (0 ≤ x ∧ x < 65536) := by simp [IK.InRange, IK.signed, IK.bits]
theorem inRange_i32 (x : Int) : IK.InRange .i32 x ↔ (-2147483648 ≤ x ∧ x < 2147483648) := by simp [IK.InRange, IK.signed, IK.bits]
theorem inRange_u32 (x : Int) : IK.InRange .u32 x ↔ (0 ≤ x ∧ x < 4294967296) := by simp [IK.InRange, IK.signed, IK.bits]
theorem inRange_i64 (x : Int) : IK.InRange .i64 x ↔ (-9223372036854775808 ≤ x ∧ x < 9223372036854775808) := by simp [IK.InRange, IK.signed, IK.bits]
theorem inRange_u64 (x : Int) : IK.InRange .u64 x ↔ (0 ≤ x ∧ x < 18446744073709551616) := by simp [IK.InRange, IK.signed, IK.bits]
theorem toInt_ofInt8 (x : Int) (h : -128 ≤ x ∧ x < 128) : (BitVec.ofInt 8 x).toInt = x := by
  rw [BitVec.toInt_ofInt]; unfold Int.bmod; simp only []; omega
theorem toNat_ofInt8 (x : Int) (h : 0 ≤ x ∧ x < 256) : ((BitVec.ofInt 8 x).toNat : Int) = x := by
  rw [BitVec.toNat_ofInt]; omega
theorem toInt_ofInt16 (x : Int) (h : -32768 ≤ x ∧ x < 32768) : (BitVec.ofInt 16 x).toInt = x := by
  rw [BitVec.toInt_ofInt]; unfold Int.bmod; simp only []; omega
theorem toNat_ofInt16 (x : Int) (h : 0 ≤ x ∧ x < 65536) : ((BitVec.ofInt 16 x).toNat : Int) = x := by
  rw [BitVec.toNat_ofInt]; omega
theorem toInt_ofInt32 (x : Int) (h : -2147483648 ≤ x ∧ x < 2147483648) : (BitVec.ofInt 32 x).toInt = x := by
  rw [BitVec.toInt_ofInt]; unfold Int.bmod; simp only []; omega
theorem toNat_ofInt32 (x : Int) (h : 0 ≤ x ∧ x < 4294967296) : ((BitVec.ofInt 32 x).toNat : Int) = x := by
  rw [BitVec.toNat_ofInt]; omega
theorem toInt_ofInt64 (x : Int) (h : -9223372036854775808 ≤ x ∧ x < 9223372036854775808) : (BitVec.ofInt 64 x).toInt = x := by
  rw [BitVec.toInt_ofInt]; unfold Int.bmod; simp only []; omega
theorem toNat_ofInt64 (x : Int) (h : 0 ≤ x ∧ x < 18446744073709551616) : ((BitVec.ofInt 64 x).toNat : Int) = x := by
  rw [BitVec.toNat_ofInt]; omega

/-- `i8`: the integers of its range -/
def clsI8 : Cls := Cls.base okI8 valI8 (fun _ => 2) (fun v => ∃ x : Int, v = .int .i8 x ∧ IK.InRange .i8 x) (fun _ => 1)
theorem exact_i8 (cx : SnbtCarrier) : Exact cx (.int .i8) clsI8 :=
  (elem_i8 cx).toExact _ _ (by rintro _ ⟨v, rfl⟩; simp [NBT.WF]) (by rintro _ ⟨v, rfl⟩; simp [S15]) (by
    rintro _ ⟨x, rfl, hx⟩
    rw [inRange_i8] at hx
    exact ⟨.byte (BitVec.ofInt 8 x), ⟨_, rfl⟩, by simp only [valI8, toInt_ofInt8 x hx], rfl⟩)

/-- `u8`: the integers of its range -/
def clsU8 : Cls := Cls.base okU8 valU8 (fun _ => 2) (fun v => ∃ x : Int, v = .int .u8 x ∧ IK.InRange .u8 x) (fun _ => 1)
theorem exact_u8 (cx : SnbtCarrier) : Exact cx (.int .u8) clsU8 :=
  (elem_u8 cx).toExact _ _ (by rintro _ ⟨v, rfl⟩; simp [NBT.WF]) (by rintro _ ⟨v, rfl⟩; simp [S15]) (by
    rintro _ ⟨x, rfl, hx⟩
    rw [inRange_u8] at hx
    exact ⟨.byte (BitVec.ofInt 8 x), ⟨_, rfl⟩, by simp only [valU8, toNat_ofInt8 x hx], rfl⟩)

/-- `i16`: the integers of its range -/
def clsI16 : Cls := Cls.base okI16 valI16 (fun _ => 2) (fun v => ∃ x : Int, v = .int .i16 x ∧ IK.InRange .i16 x) (fun _ => 2)
theorem exact_i16 (cx : SnbtCarrier) : Exact cx (.int .i16) clsI16 :=
  (elem_i16 cx).toExact _ _ (by rintro _ ⟨v, rfl⟩; simp [NBT.WF]) (by rintro _ ⟨v, rfl⟩; simp [S15]) (by
    rintro _ ⟨x, rfl, hx⟩
    rw [inRange_i16] at hx
    exact ⟨.short (BitVec.ofInt 16 x), ⟨_, rfl⟩, by simp only [valI16, toInt_ofInt16 x hx], rfl⟩)

/-- `u16`: the integers of its range -/
def clsU16 : Cls := Cls.base okU16 valU16 (fun _ => 2) (fun v => ∃ x : Int, v = .int .u16 x ∧ IK.InRange .u16 x) (fun _ => 2)
theorem exact_u16 (cx : SnbtCarrier) : Exact cx (.int .u16) clsU16 :=
  (elem_u16 cx).toExact _ _ (by rintro _ ⟨v, rfl⟩; simp [NBT.WF]) (by rintro _ ⟨v, rfl⟩; simp [S15]) (by
    rintro _ ⟨x, rfl, hx⟩
    rw [inRange_u16] at hx
    exact ⟨.short (BitVec.ofInt 16 x), ⟨_, rfl⟩, by simp only [valU16, toNat_ofInt16 x hx], rfl⟩)

/-- `i32`: the integers of its range -/
def clsI32 : Cls := Cls.base okI32 valI32 (fun _ => 2) (fun v => ∃ x : Int, v = .int .i32 x ∧ IK.InRange .i32 x) (fun _ => 3)
theorem exact_i32 (cx : SnbtCarrier) : Exact cx (.int .i32) clsI32 :=
  (elem_i32 cx).toExact _ _ (by rintro _ ⟨v, rfl⟩; simp [NBT.WF]) (by rintro _ ⟨v, rfl⟩; simp [S15]) (by
    rintro _ ⟨x, rfl, hx⟩
    rw [inRange_i32] at hx
    exact ⟨.int (BitVec.ofInt 32 x), ⟨_, rfl⟩, by simp only [valI32, toInt_ofInt32 x hx], rfl⟩)

/-- `u32`: the integers of its range -/
def clsU32 : Cls := Cls.base okU32 valU32 (fun _ => 2) (fun v => ∃ x : Int, v = .int .u32 x ∧ IK.InRange .u32 x) (fun _ => 3)
theorem exact_u32 (cx : SnbtCarrier) : Exact cx (.int .u32) clsU32 :=
  (elem_u32 cx).toExact _ _ (by rintro _ ⟨v, rfl⟩; simp [NBT.WF]) (by rintro _ ⟨v, rfl⟩; simp [S15]) (by
    rintro _ ⟨x, rfl, hx⟩
    rw [inRange_u32] at hx
    exact ⟨.int (BitVec.ofInt 32 x), ⟨_, rfl⟩, by simp only [valU32, toNat_ofInt32 x hx], rfl⟩)

/-- `i64`: the integers of its range -/
def clsI64 : Cls := Cls.base okI64 valI64 (fun _ => 2) (fun v => ∃ x : Int, v = .int .i64 x ∧ IK.InRange .i64 x) (fun _ => 4)
theorem exact_i64 (cx : SnbtCarrier) : Exact cx (.int .i64) clsI64 :=
  (elem_i64 cx).toExact _ _ (by rintro _ ⟨v, rfl⟩; simp [NBT.WF]) (by rintro _ ⟨v, rfl⟩; simp [S15]) (by
    rintro _ ⟨x, rfl, hx⟩
    rw [inRange_i64] at hx
    exact ⟨.long (BitVec.ofInt 64 x), ⟨_, rfl⟩, by simp only [valI64, toInt_ofInt64 x hx], rfl⟩)

/-- `u64`: the integers of its range -/
def clsU64 : Cls := Cls.base okU64 valU64 (fun _ => 2) (fun v => ∃ x : Int, v = .int .u64 x ∧ IK.InRange .u64 x) (fun _ => 4)
theorem exact_u64 (cx : SnbtCarrier) : Exact cx (.int .u64) clsU64 :=
  (elem_u64 cx).toExact _ _ (by rintro _ ⟨v, rfl⟩; simp [NBT.WF]) (by rintro _ ⟨v, rfl⟩; simp [S15]) (by
    rintro _ ⟨x, rfl, hx⟩
    rw [inRange_u64] at hx
    exact ⟨.long (BitVec.ofInt 64 x), ⟨_, rfl⟩, by simp only [valU64, toNat_ofInt64 x hx], rfl⟩)

def clsBool : Cls := Cls.base okBool valBool (fun _ => 2) (fun v => ∃ b, v = .bool b) (fun _ => 1)
theorem exact_bool (cx : SnbtCarrier) : Exact cx .bool clsBool :=
  (elem_bool cx).toExact _ _ (by rintro _ (rfl | rfl) <;> simp [NBT.WF]) (by rintro _ (rfl | rfl) <;> simp [S15]) (by
    rintro _ ⟨b, rfl⟩
    cases b
    · exact ⟨.byte 0, Or.inl rfl, rfl, rfl⟩
    · exact ⟨.byte 1, Or.inr rfl, rfl, rfl⟩)

/-- `float32` / `float64`: every bit pattern -/
def clsF32 : Cls := Cls.base okF32 valF32 (fun _ => 2) (fun v => ∃ b, v = .f32 b) (fun _ => 5)
theorem exact_f32 (cx : SnbtCarrier) : Exact cx .f32 clsF32 :=
  (elem_f32 cx).toExact _ _ (by rintro _ ⟨v, rfl⟩; simp [NBT.WF]) (by rintro _ ⟨v, rfl⟩; simp [S15]) (by
    rintro _ ⟨b, rfl⟩; exact ⟨.float b, ⟨_, rfl⟩, rfl, rfl⟩)
def clsF64 : Cls := Cls.base okF64 valF64 (fun _ => 2) (fun v => ∃ b, v = .f64 b) (fun _ => 6)
theorem exact_f64 (cx : SnbtCarrier) : Exact cx .f64 clsF64 :=
  (elem_f64 cx).toExact _ _ (by rintro _ ⟨v, rfl⟩; simp [NBT.WF]) (by rintro _ ⟨v, rfl⟩; simp [S15]) (by
    rintro _ ⟨b, rfl⟩; exact ⟨.double b, ⟨_, rfl⟩, rfl, rfl⟩)

/-- `string`: at most 32767 bytes -/
def clsStr : Cls := Cls.base okStr valStr (fun _ => 2) (fun v => ∃ s, v = .str s ∧ s.length < 32768) (fun _ => 8)
theorem exact_str (cx : SnbtCarrier) : Exact cx .str clsStr :=
  (elem_str cx).toExact _ _ (by rintro _ ⟨s, rfl, hs⟩; simp only [NBT.WF]; omega) (by rintro _ ⟨s, rfl, hs⟩; simpa [S15] using hs) (by
    rintro _ ⟨s, rfl, hs⟩; exact ⟨.string s, ⟨_, rfl, hs⟩, rfl, rfl⟩)

theorem map_ofInt_i8 : ∀ xs : List Int, (∀ x ∈ xs, IK.InRange .i8 x) →
    (xs.map (BitVec.ofInt 8)).map (fun b => GoVal.int .i8 b.toInt) = xs.map (GoVal.int .i8)
  | [], _ => rfl
  | x :: xs, h => by
    have hx := (inRange_i8 x).mp (h x List.mem_cons_self)
    simp only [List.map_cons, toInt_ofInt8 x hx, map_ofInt_i8 xs (fun y hy => h y (List.mem_cons_of_mem _ hy))]

theorem map_ofInt_u8 : ∀ xs : List Int, (∀ x ∈ xs, IK.InRange .u8 x) →
    (xs.map (BitVec.ofInt 8)).map (fun b => GoVal.int .u8 b.toNat) = xs.map (GoVal.int .u8)
  | [], _ => rfl
  | x :: xs, h => by
    have hx := (inRange_u8 x).mp (h x List.mem_cons_self)
    simp only [List.map_cons, toNat_ofInt8 x hx, map_ofInt_u8 xs (fun y hy => h y (List.mem_cons_of_mem _ hy))]

theorem map_ofInt_i32 : ∀ xs : List Int, (∀ x ∈ xs, IK.InRange .i32 x) →
    (xs.map (BitVec.ofInt 32)).map (fun b => GoVal.int .i32 b.toInt) = xs.map (GoVal.int .i32)
  | [], _ => rfl
  | x :: xs, h => by
    have hx := (inRange_i32 x).mp (h x List.mem_cons_self)
    simp only [List.map_cons, toInt_ofInt32 x hx, map_ofInt_i32 xs (fun y hy => h y (List.mem_cons_of_mem _ hy))]

theorem map_ofInt_u32 : ∀ xs : List Int, (∀ x ∈ xs, IK.InRange .u32 x) →
    (xs.map (BitVec.ofInt 32)).map (fun b => GoVal.int .u32 b.toNat) = xs.map (GoVal.int .u32)
  | [], _ => rfl
  | x :: xs, h => by
    have hx := (inRange_u32 x).mp (h x List.mem_cons_self)
    simp only [List.map_cons, toNat_ofInt32 x hx, map_ofInt_u32 xs (fun y hy => h y (List.mem_cons_of_mem _ hy))]

theorem map_ofInt_i64 : ∀ xs : List Int, (∀ x ∈ xs, IK.InRange .i64 x) →
    (xs.map (BitVec.ofInt 64)).map (fun b => GoVal.int .i64 b.toInt) = xs.map (GoVal.int .i64)
  | [], _ => rfl
  | x :: xs, h => by
    have hx := (inRange_i64 x).mp (h x List.mem_cons_self)
    simp only [List.map_cons, toInt_ofInt64 x hx, map_ofInt_i64 xs (fun y hy => h y (List.mem_cons_of_mem _ hy))]

theorem map_ofInt_u64 : ∀ xs : List Int, (∀ x ∈ xs, IK.InRange .u64 x) →
    (xs.map (BitVec.ofInt 64)).map (fun b => GoVal.int .u64 b.toNat) = xs.map (GoVal.int .u64)
  | [], _ => rfl
  | x :: xs, h => by
    have hx := (inRange_u64 x).mp (h x List.mem_cons_self)
    simp only [List.map_cons, toNat_ofInt64 x hx, map_ofInt_u64 xs (fun y hy => h y (List.mem_cons_of_mem _ hy))]

theorem map_ofBool : ∀ bs : List Bool,
    (bs.map fun b => if b then (1 : BitVec 8) else 0).map (fun b => GoVal.bool (b != 0)) = bs.map GoVal.bool
  | [] => rfl
  | b :: bs => by cases b <;> simp [map_ofBool bs]

/-! `[]int8`, `[]bool`: an empty one is nil (what a fresh variable keeps); the others are non-nil -/

def clsBytesI8 : Cls := Cls.base okBytesI8 valBytesI8 (fun _ => 3) (fun v => ∃ xs : List Int, v = .slice (.int .i8) xs.isEmpty (xs.map (GoVal.int .i8)) ∧ xs.length < 2147483648 ∧ ∀ x ∈ xs, IK.InRange .i8 x) (fun _ => 7)
theorem exact_bytes_i8 (cx : SnbtCarrier) : Exact cx (.slice (.int .i8)) clsBytesI8 :=
  (elem_bytes_i8 cx).toExact _ _ (by rintro _ ⟨xs, rfl, hl⟩; simp only [NBT.WF]; omega) (by rintro _ ⟨xs, rfl, hl⟩; simp [S15]) (by
    rintro _ ⟨xs, rfl, hl, hr⟩
    refine ⟨.byteArray (xs.map (BitVec.ofInt 8)), ⟨_, rfl, by simpa using hl, fun _ _ => trivial⟩, ?_, rfl⟩
    simp only [valBytesI8, map_ofInt_i8 xs hr]
    cases xs <;> rfl)

def clsBytesU8 : Cls := Cls.base okBytesU8 valBytesU8 (fun _ => 3) (fun v => ∃ xs : List Int, v = .slice (.int .u8) false (xs.map (GoVal.int .u8)) ∧ xs.length < 2147483648 ∧ ∀ x ∈ xs, IK.InRange .u8 x) (fun _ => 7)
theorem exact_bytes_u8 (cx : SnbtCarrier) : Exact cx (.slice (.int .u8)) clsBytesU8 :=
  (elem_bytes_u8 cx).toExact _ _ (by rintro _ ⟨xs, rfl, hl⟩; simp only [NBT.WF]; omega) (by rintro _ ⟨xs, rfl, hl⟩; simp [S15]) (by
    rintro _ ⟨xs, rfl, hl, hr⟩
    refine ⟨.byteArray (xs.map (BitVec.ofInt 8)), ⟨_, rfl, by simpa using hl, fun _ _ => trivial⟩, ?_, rfl⟩
    simp only [valBytesU8, map_ofInt_u8 xs hr]
    cases xs <;> rfl)

def clsBytesBool : Cls := Cls.base okBytesBool valBytesBool (fun _ => 3) (fun v => ∃ bs : List Bool, v = .slice .bool bs.isEmpty (bs.map GoVal.bool) ∧ bs.length < 2147483648) (fun _ => 7)
theorem exact_bytes_bool (cx : SnbtCarrier) : Exact cx (.slice (.bool)) clsBytesBool :=
  (elem_bytes_bool cx).toExact _ _ (by rintro _ ⟨xs, rfl, hl⟩; simp only [NBT.WF]; omega) (by rintro _ ⟨xs, rfl, hl⟩; simp [S15]) (by
    rintro _ ⟨bs, rfl, hl⟩
    refine ⟨.byteArray (bs.map fun b => if b then (1 : BitVec 8) else 0), ⟨_, rfl, by simpa using hl, ?_⟩, ?_, rfl⟩
    · intro b hb
      obtain ⟨x, _, rfl⟩ := List.mem_map.mp hb
      cases x <;> simp
    · simp only [valBytesBool, map_ofBool]
      cases bs <;> rfl)

def clsNumsI32 : Cls := Cls.base okNumsI32 valNumsI32 (fun _ => 3) (fun v => ∃ xs : List Int, v = .slice (.int .i32) false (xs.map (GoVal.int .i32)) ∧ xs.length < 2147483648 ∧ ∀ x ∈ xs, IK.InRange .i32 x) (fun _ => 11)
theorem exact_nums_i32 (cx : SnbtCarrier) : Exact cx (.slice (.int .i32)) clsNumsI32 :=
  (elem_nums_i32 cx).toExact _ _ (by rintro _ ⟨xs, rfl, hl⟩; simp only [NBT.WF]; omega) (by rintro _ ⟨xs, rfl, hl⟩; simp [S15]) (by
    rintro _ ⟨xs, rfl, hl, hr⟩
    refine ⟨.intArray (xs.map (BitVec.ofInt 32)), ⟨_, rfl, by simpa using hl⟩, ?_, rfl⟩
    simp only [valNumsI32, map_ofInt_i32 xs hr])

def clsNumsU32 : Cls := Cls.base okNumsU32 valNumsU32 (fun _ => 3) (fun v => ∃ xs : List Int, v = .slice (.int .u32) false (xs.map (GoVal.int .u32)) ∧ xs.length < 2147483648 ∧ ∀ x ∈ xs, IK.InRange .u32 x) (fun _ => 11)
theorem exact_nums_u32 (cx : SnbtCarrier) : Exact cx (.slice (.int .u32)) clsNumsU32 :=
  (elem_nums_u32 cx).toExact _ _ (by rintro _ ⟨xs, rfl, hl⟩; simp only [NBT.WF]; omega) (by rintro _ ⟨xs, rfl, hl⟩; simp [S15]) (by
    rintro _ ⟨xs, rfl, hl, hr⟩
    refine ⟨.intArray (xs.map (BitVec.ofInt 32)), ⟨_, rfl, by simpa using hl⟩, ?_, rfl⟩
    simp only [valNumsU32, map_ofInt_u32 xs hr])

def clsNumsI64 : Cls := Cls.base okNumsI64 valNumsI64 (fun _ => 3) (fun v => ∃ xs : List Int, v = .slice (.int .i64) false (xs.map (GoVal.int .i64)) ∧ xs.length < 2147483648 ∧ ∀ x ∈ xs, IK.InRange .i64 x) (fun _ => 12)
theorem exact_nums_i64 (cx : SnbtCarrier) : Exact cx (.slice (.int .i64)) clsNumsI64 :=
  (elem_nums_i64 cx).toExact _ _ (by rintro _ ⟨xs, rfl, hl⟩; simp only [NBT.WF]; omega) (by rintro _ ⟨xs, rfl, hl⟩; simp [S15]) (by
    rintro _ ⟨xs, rfl, hl, hr⟩
    refine ⟨.longArray (xs.map (BitVec.ofInt 64)), ⟨_, rfl, by simpa using hl⟩, ?_, rfl⟩
    simp only [valNumsI64, map_ofInt_i64 xs hr])

def clsNumsU64 : Cls := Cls.base okNumsU64 valNumsU64 (fun _ => 3) (fun v => ∃ xs : List Int, v = .slice (.int .u64) false (xs.map (GoVal.int .u64)) ∧ xs.length < 2147483648 ∧ ∀ x ∈ xs, IK.InRange .u64 x) (fun _ => 12)
theorem exact_nums_u64 (cx : SnbtCarrier) : Exact cx (.slice (.int .u64)) clsNumsU64 :=
  (elem_nums_u64 cx).toExact _ _ (by rintro _ ⟨xs, rfl, hl⟩; simp only [NBT.WF]; omega) (by rintro _ ⟨xs, rfl, hl⟩; simp [S15]) (by
    rintro _ ⟨xs, rfl, hl, hr⟩
    refine ⟨.longArray (xs.map (BitVec.ofInt 64)), ⟨_, rfl, by simpa using hl⟩, ?_, rfl⟩
    simp only [valNumsU64, map_ofInt_u64 xs hr])

/-! `[n]T` of the byte, int and long kinds -/

def clsArrBytesI8 (n : Nat) : Cls := Cls.base (okArrBytesI8 n) valArrBytesI8 (fun _ => 3) (fun v => ∃ xs : List Int, v = .array (.int .i8) (xs.map (GoVal.int .i8)) ∧ xs.length = n ∧ n < 2147483648 ∧ ∀ x ∈ xs, IK.InRange .i8 x) (fun _ => 7)
theorem exact_arr_bytes_i8 (cx : SnbtCarrier) (n : Nat) : Exact cx (.array n (.int .i8)) (clsArrBytesI8 n) :=
  (elem_arr_bytes_i8 cx n).toExact _ _ (by rintro _ ⟨xs, rfl, hn, hl⟩; simp only [NBT.WF]; omega) (by rintro _ ⟨xs, rfl, hn, hl⟩; simp [S15]) (by
    rintro _ ⟨xs, rfl, hn, hl, hr⟩
    refine ⟨.byteArray (xs.map (BitVec.ofInt 8)), ⟨_, rfl, by simpa using hn, hl, fun _ _ => trivial⟩, ?_, rfl⟩
    simp only [valArrBytesI8, map_ofInt_i8 xs hr])

def clsArrBytesU8 (n : Nat) : Cls := Cls.base (okArrBytesU8 n) valArrBytesU8 (fun _ => 3) (fun v => ∃ xs : List Int, v = .array (.int .u8) (xs.map (GoVal.int .u8)) ∧ xs.length = n ∧ n < 2147483648 ∧ ∀ x ∈ xs, IK.InRange .u8 x) (fun _ => 7)
theorem exact_arr_bytes_u8 (cx : SnbtCarrier) (n : Nat) : Exact cx (.array n (.int .u8)) (clsArrBytesU8 n) :=
  (elem_arr_bytes_u8 cx n).toExact _ _ (by rintro _ ⟨xs, rfl, hn, hl⟩; simp only [NBT.WF]; omega) (by rintro _ ⟨xs, rfl, hn, hl⟩; simp [S15]) (by
    rintro _ ⟨xs, rfl, hn, hl, hr⟩
    refine ⟨.byteArray (xs.map (BitVec.ofInt 8)), ⟨_, rfl, by simpa using hn, hl, fun _ _ => trivial⟩, ?_, rfl⟩
    simp only [valArrBytesU8, map_ofInt_u8 xs hr])

def clsArrBytesBool (n : Nat) : Cls := Cls.base (okArrBytesBool n) valArrBytesBool (fun _ => 3) (fun v => ∃ bs : List Bool, v = .array .bool (bs.map GoVal.bool) ∧ bs.length = n ∧ n < 2147483648) (fun _ => 7)
theorem exact_arr_bytes_bool (cx : SnbtCarrier) (n : Nat) : Exact cx (.array n (.bool)) (clsArrBytesBool n) :=
  (elem_arr_bytes_bool cx n).toExact _ _ (by rintro _ ⟨xs, rfl, hn, hl⟩; simp only [NBT.WF]; omega) (by rintro _ ⟨xs, rfl, hn, hl⟩; simp [S15]) (by
    rintro _ ⟨bs, rfl, hn, hl⟩
    refine ⟨.byteArray (bs.map fun b => if b then (1 : BitVec 8) else 0), ⟨_, rfl, by simpa using hn, hl, ?_⟩, ?_, rfl⟩
    · intro b hb
      obtain ⟨x, _, rfl⟩ := List.mem_map.mp hb
      cases x <;> simp
    · simp only [valArrBytesBool, map_ofBool])

def clsArrNumsI32 (n : Nat) : Cls := Cls.base (okArrNumsI32 n) valArrNumsI32 (fun _ => 3) (fun v => ∃ xs : List Int, v = .array (.int .i32) (xs.map (GoVal.int .i32)) ∧ xs.length = n ∧ n < 2147483648 ∧ ∀ x ∈ xs, IK.InRange .i32 x) (fun _ => 11)
theorem exact_arr_nums_i32 (cx : SnbtCarrier) (n : Nat) : Exact cx (.array n (.int .i32)) (clsArrNumsI32 n) :=
  (elem_arr_nums_i32 cx n).toExact _ _ (by rintro _ ⟨xs, rfl, hn, hl⟩; simp only [NBT.WF]; omega) (by rintro _ ⟨xs, rfl, hn, hl⟩; simp [S15]) (by
    rintro _ ⟨xs, rfl, hn, hl, hr⟩
    refine ⟨.intArray (xs.map (BitVec.ofInt 32)), ⟨_, rfl, by simpa using hn, hl⟩, ?_, rfl⟩
    simp only [valArrNumsI32, map_ofInt_i32 xs hr])

def clsArrNumsU32 (n : Nat) : Cls := Cls.base (okArrNumsU32 n) valArrNumsU32 (fun _ => 3) (fun v => ∃ xs : List Int, v = .array (.int .u32) (xs.map (GoVal.int .u32)) ∧ xs.length = n ∧ n < 2147483648 ∧ ∀ x ∈ xs, IK.InRange .u32 x) (fun _ => 11)
theorem exact_arr_nums_u32 (cx : SnbtCarrier) (n : Nat) : Exact cx (.array n (.int .u32)) (clsArrNumsU32 n) :=
  (elem_arr_nums_u32 cx n).toExact _ _ (by rintro _ ⟨xs, rfl, hn, hl⟩; simp only [NBT.WF]; omega) (by rintro _ ⟨xs, rfl, hn, hl⟩; simp [S15]) (by
    rintro _ ⟨xs, rfl, hn, hl, hr⟩
    refine ⟨.intArray (xs.map (BitVec.ofInt 32)), ⟨_, rfl, by simpa using hn, hl⟩, ?_, rfl⟩
    simp only [valArrNumsU32, map_ofInt_u32 xs hr])

def clsArrNumsI64 (n : Nat) : Cls := Cls.base (okArrNumsI64 n) valArrNumsI64 (fun _ => 3) (fun v => ∃ xs : List Int, v = .array (.int .i64) (xs.map (GoVal.int .i64)) ∧ xs.length = n ∧ n < 2147483648 ∧ ∀ x ∈ xs, IK.InRange .i64 x) (fun _ => 12)
theorem exact_arr_nums_i64 (cx : SnbtCarrier) (n : Nat) : Exact cx (.array n (.int .i64)) (clsArrNumsI64 n) :=
  (elem_arr_nums_i64 cx n).toExact _ _ (by rintro _ ⟨xs, rfl, hn, hl⟩; simp only [NBT.WF]; omega) (by rintro _ ⟨xs, rfl, hn, hl⟩; simp [S15]) (by
    rintro _ ⟨xs, rfl, hn, hl, hr⟩
    refine ⟨.longArray (xs.map (BitVec.ofInt 64)), ⟨_, rfl, by simpa using hn, hl⟩, ?_, rfl⟩
    simp only [valArrNumsI64, map_ofInt_i64 xs hr])

def clsArrNumsU64 (n : Nat) : Cls := Cls.base (okArrNumsU64 n) valArrNumsU64 (fun _ => 3) (fun v => ∃ xs : List Int, v = .array (.int .u64) (xs.map (GoVal.int .u64)) ∧ xs.length = n ∧ n < 2147483648 ∧ ∀ x ∈ xs, IK.InRange .u64 x) (fun _ => 12)
theorem exact_arr_nums_u64 (cx : SnbtCarrier) (n : Nat) : Exact cx (.array n (.int .u64)) (clsArrNumsU64 n) :=
  (elem_arr_nums_u64 cx n).toExact _ _ (by rintro _ ⟨xs, rfl, hn, hl⟩; simp only [NBT.WF]; omega) (by rintro _ ⟨xs, rfl, hn, hl⟩; simp [S15]) (by
    rintro _ ⟨xs, rfl, hn, hl, hr⟩
    refine ⟨.longArray (xs.map (BitVec.ofInt 64)), ⟨_, rfl, by simpa using hn, hl⟩, ?_, rfl⟩
    simp only [valArrNumsU64, map_ofInt_u64 xs hr])

mutual
  theorem small_s15 : ∀ t : NBT, GoMC.Lemmas.DynBT.Small t → S15 t
    | .string x, h => by simpa [S15, GoMC.Lemmas.DynBT.Small] using h
    | .list _ xs, h => by simp only [S15]; exact smallList_s15 xs (by simpa [GoMC.Lemmas.DynBT.Small] using h)
    | .compound kvs, h => by simp only [S15]; exact smallKvs_s15 kvs (by simpa [GoMC.Lemmas.DynBT.Small] using h)
    | .byte _, _ | .short _, _ | .int _, _ | .long _, _ | .float _, _ | .double _, _ | .byteArray _, _ | .intArray _, _
    | .longArray _, _ => by simp [S15]
  theorem smallList_s15 : ∀ xs : List NBT, GoMC.Lemmas.DynBT.SmallList xs → S15List xs
    | [], _ => trivial
    | x :: xs, h => ⟨small_s15 x h.1, smallList_s15 xs h.2⟩
  theorem smallKvs_s15 : ∀ kvs : List (Bytes × NBT), GoMC.Lemmas.DynBT.SmallKvs kvs → S15Kvs kvs
    | [], _ => trivial
    | (k, v) :: kvs, h => ⟨by have := h.1; omega, small_s15 v h.2.1, smallKvs_s15 kvs h.2.2⟩
end

/-! the carriers: a value is canonical when it holds the payload of a well-formed tree -/

def clsRaw : Cls := Cls.base okRaw valRaw (fun _ => 1) (fun v => ∃ t : NBT, (t.WF ∧ S15 t) ∧ v = .raw t.tag (encPayload t))
  (fun v => match v with | .raw t _ => t | _ => 0)
theorem exact_raw (cx : SnbtCarrier) : Exact cx .raw clsRaw :=
  (rawExact cx).toElem.toExact _ _ (fun _ h => h.1) (fun _ h => h.2) (by rintro _ ⟨t, ht, rfl⟩; exact ⟨t, ht, rfl, rfl⟩)

def clsDyn : Cls := Cls.base okDyn valDyn (fun _ => 1)
  (fun v => ∃ t : NBT, (t.WF ∧ GoMC.Lemmas.DynBT.Small t) ∧ v = .dyn (GoMC.Lemmas.DynBT.toVal t))
  (fun v => match v with | .dyn d => d.tag | _ => 0)
theorem exact_dyn (cx : SnbtCarrier) : Exact cx .dyn clsDyn :=
  (dynExact cx).toElem.toExact _ _ (fun _ h => h.1) (fun _ h => small_s15 _ h.2) (by
    rintro _ ⟨t, ht, rfl⟩; exact ⟨t, ht, rfl, (GoMC.Lemmas.DynBT.tag_toVal t).symm⟩)

/-! ### slices written as TagList -/

/-- `[]c`: lists of trees of the element class whose tag makes a list (not a typed array); the empty list carries
the static element tag -/
def Cls.slice (c : GoType) (k : Cls) : Cls where
  ok := fun t => match t with
    | .list e ts => (NBT.list e ts).WF ∧ (∀ t ∈ ts, k.ok t) ∧ (ts = [] → e = tagOfType c)
    | _ => False
  val := fun t => match t with
    | .list _ ts => .slice c false (ts.map k.val)
    | _ => .slice c false []
  inner := fun t => match t with
    | .list _ ts => .slice c false (ts.map k.val)
    | _ => .slice c false []
  need := fun t => match t with
    | .list _ ts => needMax k.need ts + 2
    | _ => 2
  extra := k.extra
  canon := fun v => ∃ xs, v = .slice c false xs ∧ xs.length < 2147483648 ∧ (∀ x ∈ xs, k.canon x) ∧
    (∀ x ∈ xs, ∀ y ∈ xs, k.tagV x = k.tagV y)
  tagV := fun _ => 9

theorem s15List_of : ∀ {ts : List NBT}, (∀ t ∈ ts, S15 t) → S15List ts
  | [], _ => trivial
  | t :: ts, h => ⟨h t List.mem_cons_self, s15List_of (fun t' ht' => h t' (List.mem_cons_of_mem _ ht'))⟩

theorem s15Kvs_of : ∀ {kvs : List (Bytes × NBT)}, (∀ kv ∈ kvs, kv.1.length < 32768 ∧ S15 kv.2) → S15Kvs kvs
  | [], _ => trivial
  | (k, v) :: kvs, h => ⟨(h (k, v) List.mem_cons_self).1, (h (k, v) List.mem_cons_self).2,
      s15Kvs_of (fun kv hkv => h kv (List.mem_cons_of_mem _ hkv))⟩

theorem wfList_of {e : Byte} : ∀ {ts : List NBT}, (∀ t ∈ ts, t.tag = e ∧ t.WF) → NBT.WFList e ts
  | [], _ => trivial
  | t :: ts, h => ⟨(h t List.mem_cons_self).1, (h t List.mem_cons_self).2,
      wfList_of (fun t' ht' => h t' (List.mem_cons_of_mem _ ht'))⟩

/-- the trees of a list of canonical values with one tag -/
theorem onto_list (k : Cls) (honto : ∀ v, k.canon v → ∃ t, k.ok t ∧ k.val t = v ∧ t.tag = k.tagV v) :
    ∀ xs : List GoVal, (∀ x ∈ xs, k.canon x) →
      ∃ ts : List NBT, ts.map k.val = xs ∧ (∀ t ∈ ts, k.ok t) ∧ ts.map NBT.tag = xs.map k.tagV
  | [], _ => ⟨[], rfl, (fun _ h => by cases h), rfl⟩
  | x :: xs, h => by
    obtain ⟨t, ht, hv, htag⟩ := honto x (h x List.mem_cons_self)
    obtain ⟨ts, hts, hoks, htags⟩ := onto_list k honto xs (fun y hy => h y (List.mem_cons_of_mem _ hy))
    refine ⟨t :: ts, by simp [hv, hts], ?_, by simp [htag, htags]⟩
    intro t' ht'
    rcases List.mem_cons.mp ht' with rfl | h'
    · exact ht
    · exact hoks t' h'

theorem slice_reads {cx : SnbtCarrier} {c : GoType} {k : Cls} (hx : Exact cx c k) :
    ∀ d fuel t, (Cls.slice c k).ok t →
      R (cost t + (Cls.slice c k).extra ≤ fuel) (unmarshal cx d fuel (.slice c) (GoType.slice c).zero t.tag) (encPayload t)
        ((Cls.slice c k).val t) := by
  intro d fuel t hok
  cases t with
  | list e ts =>
    obtain ⟨hwf, hoks, hemp⟩ := hok
    have hwf' := hwf
    simp only [NBT.WF, two31] at hwf'
    obtain ⟨hlen, hnz, hle, hwfl⟩ := hwf'
    cases fuel with
    | zero => unfold unmarshal; exact R_fail (by simp [cost]) _ _
    | succ f =>
      have hnz' : e ≠ 0#8 ∨ ts.length = 0 := by
        rcases hnz with h | h
        · right; simp [h]
        · exact Or.inl h
      unfold unmarshal
      have h9 : (9 : BitVec 8).toNat = 9 := rfl
      simp only [NBT.tag, NBT.tagList, umSlice, h9, encPayload, Cls.slice]
      have : e :: beBytes 4 ts.length ++ encList ts = (e :: beBytes 4 ts.length) ++ (encList ts ++ []) := by simp
      rw [this]
      apply R_bind (R_listHeader _ e ts.length hle hlen hnz')
      simp only
      apply R_bind
      · apply R_rdRepeat
        intro t ht
        have := hx.reads d f t (hoks t ht)
        rw [(wfList_mem hwfl t ht).1] at this
        exact R_mono (fun h => by
          have := cost_le_costList ht
          simp only [cost] at h; omega) this
      · exact R_pure _ _
  | _ => exact hok.elim

theorem slice_marshal {cx : SnbtCarrier} {c : GoType} {k : Cls} (hx : Exact cx c k) (f : Nat) (e : Byte) (ts : List NBT)
    (hwf : (NBT.list e ts).WF) (hoks : ∀ t ∈ ts, k.ok t) (hemp : ts = [] → e = tagOfType c)
    (hf : (Cls.slice c k).need (.list e ts) ≤ f) :
    Go.marshal cx f ((Cls.slice c k).inner (.list e ts)) (NBT.list e ts).tag = Res.ok (encPayload (.list e ts)) := by
  have hok : (Cls.slice c k).ok (.list e ts) := ⟨hwf, hoks, hemp⟩
  revert hok hf
  generalize (NBT.list e ts) = t
  intro hf hok
  revert t
  intro t hf hok
  cases t with
  | list e ts =>
    obtain ⟨hwf, hoks, hemp⟩ := hok
    have hwf' := hwf
    simp only [NBT.WF, two31] at hwf'
    obtain ⟨hlen, hnz, hle, hwfl⟩ := hwf'
    simp only [Cls.slice] at hf
    obtain ⟨f', rfl⟩ : ∃ f', f = f' + 2 := ⟨f - 2, by omega⟩
    have hsl : ∀ xs, GoVal.isCarrier (.slice c false xs) = false := fun _ => rfl
    rw [show (NBT.list e ts).tag = 9 from rfl]
    simp only [Cls.slice]
    unfold Go.marshal
    rw [hsl]
    simp only [Bool.false_eq_true, if_false]
    cases ts with
    | nil =>
      have h9 : (9 : BitVec 8).toNat = 9 := rfl
      simp only [List.map_nil, writeValue, h9, resMapM, resFlatten, List.flatten_nil, List.append_nil,
        List.length_nil, encPayload, encList, hemp rfl, beN_eq]
    | cons t0 ts' =>
      have hn0 : k.need t0 ≤ f' := by simp only [needMax] at hf; omega
      have hg0 := hx.getTag f' t0 (hoks t0 (List.mem_cons_self)) hn0
      have ht0 := wfList_mem hwfl t0 (List.mem_cons_self)
      rw [List.map_cons, writeValue_list_slice, hg0]
      have hm : resMapM (elemEnc (getTagType cx f') (Go.marshal cx f') t0.tag) ((t0 :: ts').map k.val)
          = Res.ok ((t0 :: ts').map encPayload) := by
        apply resMapM_map_ok
        intro t ht
        have hnt : k.need t ≤ f' := by have := le_needMax (need := k.need) ht; omega
        unfold elemEnc
        simp only [hx.getTag f' t (hoks t ht) hnt, (wfList_mem hwfl t ht).1, ht0.1, ne_eq, not_true_eq_false, if_false]
        have := hx.marshal f' t (hoks t ht) hnt
        rw [(wfList_mem hwfl t ht).1] at this
        exact this
      rw [← List.map_cons, hm]
      simp only [resFlatten, encPayload, ht0.1, beN_eq, List.length_map, encList_eq_flatten]
  | _ => exact hok.elim

theorem slice_onto {cx : SnbtCarrier} {c : GoType} {k : Cls} (hx : Exact cx c k) (hstat12 : (tagOfType c).toNat ≤ 12) :
    ∀ v, (Cls.slice c k).canon v → ∃ t, (Cls.slice c k).ok t ∧ (Cls.slice c k).val t = v ∧ t.tag = (Cls.slice c k).tagV v := by
  rintro v ⟨xs, rfl, hlen, hcan, htags⟩
  obtain ⟨ts, hts, hoks, htg⟩ := onto_list k hx.onto xs hcan
  have hl : ts.length = xs.length := by rw [← hts, List.length_map]
  cases ts with
  | nil =>
    refine ⟨.list (tagOfType c) [], ⟨?_, (fun _ h => by cases h), fun _ => rfl⟩, ?_, rfl⟩
    · simp [NBT.WF, NBT.WFList, hstat12]
    · simp only [Cls.slice]; rw [← hts]
  | cons t0 ts' =>
    have hsame : ∀ t ∈ t0 :: ts', t.tag = t0.tag := by
      intro t ht
      have h1 : t.tag ∈ (t0 :: ts').map NBT.tag := List.mem_map_of_mem ht
      rw [htg] at h1
      obtain ⟨x, hx1, hx2⟩ := List.mem_map.mp h1
      have h0 : t0.tag ∈ (t0 :: ts').map NBT.tag := List.mem_map_of_mem List.mem_cons_self
      rw [htg] at h0
      obtain ⟨y, hy1, hy2⟩ := List.mem_map.mp h0
      rw [← hx2, ← hy2]
      exact htags x hx1 y hy1
    refine ⟨.list t0.tag (t0 :: ts'), ⟨?_, hoks, fun h => by cases h⟩, ?_, rfl⟩
    · simp only [NBT.WF, two31]
      refine ⟨by rw [hl]; exact hlen, Or.inr (tag_not_magic t0).1, NBT.tag_le t0, ?_⟩
      exact wfList_of (fun t ht => ⟨hsame t ht, hx.wf t (hoks t ht)⟩)
    · simp only [Cls.slice]; rw [hts]


theorem exact_slice {cx : SnbtCarrier} {c : GoType} {k : Cls} (hx : Exact cx c k)
    (hseq : ∀ t, k.ok t → (k.inner t).isCarrier = true ∨ arrTag t.tag = 9)
    (hstat : arrTag (tagOfType c) = 9) (hstat12 : (tagOfType c).toNat ≤ 12) :
    Exact cx (.slice c) (Cls.slice c k) where
  zeroTy := rfl
  needPos := by intro t _; cases t <;> simp [Cls.slice]
  wf := by
    intro t ht
    cases t with
    | list e ts => exact ht.1
    | _ => exact ht.elim
  s15 := by
    intro t ht
    cases t with
    | list e ts => simp only [S15]; exact s15List_of (fun t' ht' => hx.s15 t' (ht.2.1 t' ht'))
    | _ => exact ht.elim
  reads := slice_reads hx
  getTag := by
    intro f t hok hf
    cases t with
    | list e ts =>
      obtain ⟨hwf, hoks, hemp⟩ := hok
      simp only [Cls.slice] at hf
      obtain ⟨f', rfl⟩ : ∃ f', f = f' + 1 := ⟨f - 1, by omega⟩
      cases ts with
      | nil =>
        rw [show (NBT.list e []).tag = 9 from rfl]
        simp only [Cls.slice, List.map_nil, getTagType, hstat]
      | cons t0 ts' =>
        have hg0 := hx.getTag f' t0 (hoks t0 (List.mem_cons_self)) (by simp only [needMax] at hf; omega)
        simp only [Cls.slice, List.map_cons]
        rw [getTagType_slice_cons, hg0, show (NBT.list e (t0 :: ts')).tag = 9 from rfl]
        rcases hseq t0 (hoks t0 (List.mem_cons_self)) with h | h
        · simp [h]
        · by_cases hc : (k.inner t0).isCarrier = true
          · simp [hc]
          · simp only [hc, Bool.false_eq_true, if_false, h]
    | _ => exact hok.elim
  marshal := by
    intro f t hok hf
    cases t with
    | list e ts => exact slice_marshal hx f e ts hok.1 hok.2.1 hok.2.2 hf
    | _ => exact hok.elim
  onto := slice_onto hx hstat12

/-! ### string-keyed maps -/

/-- `map[string]c`: compounds with short, pairwise different keys and values of the element class, in any order -/
def Cls.map (c : GoType) (k : Cls) : Cls where
  ok := fun t => match t with
    | .compound kvs => (∀ kv ∈ kvs, kv.1.length < 32768 ∧ k.ok kv.2) ∧ (kvs.map (·.1)).Nodup
    | _ => False
  val := fun t => match t with
    | .compound kvs => .map c false (kvs.map fun kv => (kv.1, k.val kv.2))
    | _ => .map c false []
  inner := fun t => match t with
    | .compound kvs => .map c false (kvs.map fun kv => (kv.1, k.val kv.2))
    | _ => .map c false []
  need := fun t => match t with
    | .compound kvs => needMax k.need (kvs.map (·.2)) + 2
    | _ => 2
  extra := k.extra
  canon := fun v => ∃ kvs, v = .map c false kvs ∧ (kvs.map (·.1)).Nodup ∧ ∀ kv ∈ kvs, kv.1.length < 32768 ∧ k.canon kv.2
  tagV := fun _ => 10

theorem wfKvs_of : ∀ {kvs : List (Bytes × NBT)}, (∀ kv ∈ kvs, kv.1.length < 65536 ∧ kv.2.WF) → NBT.WFKvs kvs
  | [], _ => trivial
  | (k, v) :: kvs, h => ⟨(h (k, v) List.mem_cons_self).1, (h (k, v) List.mem_cons_self).2,
      wfKvs_of (fun kv hkv => h kv (List.mem_cons_of_mem _ hkv))⟩

theorem onto_kvs (k : Cls) (honto : ∀ v, k.canon v → ∃ t, k.ok t ∧ k.val t = v ∧ t.tag = k.tagV v) :
    ∀ kvs : List (Bytes × GoVal), (∀ kv ∈ kvs, kv.1.length < 32768 ∧ k.canon kv.2) →
      ∃ tkvs : List (Bytes × NBT), (tkvs.map fun kv => (kv.1, k.val kv.2)) = kvs ∧
        (∀ kv ∈ tkvs, kv.1.length < 32768 ∧ k.ok kv.2) ∧ tkvs.map (·.1) = kvs.map (·.1)
  | [], _ => ⟨[], rfl, (fun _ h => by cases h), rfl⟩
  | (key, x) :: kvs, h => by
    obtain ⟨t, ht, hv, _⟩ := honto x (h (key, x) List.mem_cons_self).2
    obtain ⟨ts, hts, hoks, hkeys⟩ := onto_kvs k honto kvs (fun y hy => h y (List.mem_cons_of_mem _ hy))
    refine ⟨(key, t) :: ts, by simp [hv, hts], ?_, by simp [hkeys]⟩
    intro kv hkv
    rcases List.mem_cons.mp hkv with rfl | h'
    · exact ⟨(h (key, x) List.mem_cons_self).1, ht⟩
    · exact hoks kv h'

/-- the loop of the map branch, for an element class -/
theorem exact_mapLoop {cx : SnbtCarrier} {c : GoType} {k : Cls} (hx : Exact cx c k) (d : Bool) (f : Nat) :
    ∀ (kvs : List (Bytes × NBT)) (w : Nat) (acc : List (Bytes × GoVal)),
    (∀ kv ∈ kvs, kv.1.length < 32768 ∧ k.ok kv.2) →
    R (kvs.length + 1 ≤ w ∧ ∀ kv ∈ kvs, cost kv.2 + k.extra ≤ f)
      (kvLoop (fun tt tn a => do
          let v ← unmarshal cx d f c c.zero tt
          Pure.pure (setMapKV a tn v)) w acc)
      (encKvs kvs) (kvs.foldl (fun a kv => NBT.mapSet a kv.1 (k.val kv.2)) acc)
  | kvs, 0, acc, _ => by
    unfold kvLoop
    exact R_fail (by omega) _ _
  | [], w + 1, acc, _ => R_kvLoop_end _ _ w acc
  | (key, t) :: kvs, w + 1, acc, h => by
    have hkt := h (key, t) (List.mem_cons_self)
    obtain ⟨t0, t1, t2⟩ := tag_not_magic t
    simp only [encKvs, List.foldl_cons]
    apply R_kvLoop_entry _ _ w acc (setMapKV acc key (k.val t)) _ t.tag key (encPayload t) (encKvs kvs) hkt.1 t0 t1 t2
    · have := hx.reads d f t hkt.2
      exact R_map (fun v => setMapKV acc key v) (R_mono (fun hc => hc.2 (key, t) (List.mem_cons_self)) this)
    · exact R_mono (fun hc => ⟨by have := hc.1; simp only [List.length_cons] at this; omega,
          fun kv hkv => hc.2 kv (List.mem_cons_of_mem _ hkv)⟩)
        (exact_mapLoop hx d f kvs w (setMapKV acc key (k.val t)) (fun kv hkv => h kv (List.mem_cons_of_mem _ hkv)))

theorem exact_map {cx : SnbtCarrier} {c : GoType} {k : Cls} (hx : Exact cx c k) : Exact cx (.map c) (Cls.map c k) where
  zeroTy := rfl
  needPos := by intro t _; cases t <;> simp [Cls.map]
  wf := by
    intro t ht
    cases t with
    | compound kvs =>
      simp only [NBT.WF]
      exact wfKvs_of (fun kv hkv => ⟨by have := (ht.1 kv hkv).1; omega, hx.wf _ (ht.1 kv hkv).2⟩)
    | _ => exact ht.elim
  s15 := by
    intro t ht
    cases t with
    | compound kvs => simp only [S15]; exact s15Kvs_of (fun kv hkv => ⟨(ht.1 kv hkv).1, hx.s15 _ (ht.1 kv hkv).2⟩)
    | _ => exact ht.elim
  reads := by
    intro d fuel t hok
    cases t with
    | compound kvs =>
      obtain ⟨hoks, hnd⟩ := hok
      cases fuel with
      | zero => unfold unmarshal; exact R_fail (by simp [cost]) _ _
      | succ f =>
        rw [show (NBT.compound kvs).tag = 10 from rfl]
        unfold unmarshal
        have h10 : (10 : BitVec 8).toNat = 10 := rfl
        simp only [umMap, h10, encPayload, Cls.map]
        have hz : mapEntries (GoType.map c).zero = [] := rfl
        rw [hz]
        have := exact_mapLoop hx d f kvs f [] hoks
        have hfold : kvs.foldl (fun a kv => NBT.mapSet a kv.1 (k.val kv.2)) [] = kvs.map fun kv => (kv.1, k.val kv.2) := by
          have h2 := foldl_mapSet_nodup (kvs.map fun kv => (kv.1, k.val kv.2)) []
            (by rw [List.map_map]; exact hnd) (by intro _ _ a ha; cases ha)
          rw [List.foldl_map] at h2
          simpa using h2
        rw [hfold] at this
        exact R_map (fun kvs' => GoVal.map c false kvs') (R_mono (fun hc => by
          simp only [cost] at hc
          exact ⟨by have := length_le_costKvs kvs; omega, fun kv hkv => by have := cost_le_costKvs hkv; omega⟩) this)
    | _ => exact hok.elim
  getTag := by
    intro f t hok hf
    cases t with
    | compound kvs =>
      simp only [Cls.map] at hf
      obtain ⟨f', rfl⟩ : ∃ f', f = f' + 1 := ⟨f - 1, by omega⟩
      rw [show (NBT.compound kvs).tag = 10 from rfl]
      simp only [Cls.map, getTagType, tagOfType, GoVal.typeOf]
    | _ => exact hok.elim
  marshal := by
    intro f t hok hf
    cases t with
    | compound kvs =>
      obtain ⟨hoks, hnd⟩ := hok
      simp only [Cls.map] at hf
      obtain ⟨f', rfl⟩ : ∃ f', f = f' + 2 := ⟨f - 2, by omega⟩
      rw [show (NBT.compound kvs).tag = 10 from rfl]
      simp only [Cls.map]
      have hsl : GoVal.isCarrier (.map c false (kvs.map fun kv => (kv.1, k.val kv.2))) = false := rfl
      unfold Go.marshal
      rw [hsl]
      simp only [Bool.false_eq_true, if_false]
      have h10 : (10 : BitVec 8).toNat = 10 := rfl
      simp only [writeValue, h10]
      have hm : resMapM (entryEnc (getTagType cx f') (Go.marshal cx f')) (kvs.map fun kv => (kv.1, k.val kv.2))
          = Res.ok (kvs.map fun kv => kv.2.tag :: encString kv.1 ++ encPayload kv.2) := by
        apply resMapM_map_ok
        intro kv hkv
        obtain ⟨hk, hokv⟩ := hoks kv hkv
        have hnt : k.need kv.2 ≤ f' := by
          have := le_needMax (need := k.need) (List.mem_map_of_mem (f := (·.2)) hkv); omega
        unfold entryEnc
        have hlen : ¬ kv.1.length > 32767 := by omega
        have ht0 : ¬ kv.2.tag = 0 := (tag_not_magic kv.2).1
        simp only [hx.getTag f' kv.2 hokv hnt, hx.marshal f' kv.2 hokv hnt, if_false, writeTag, hlen]
        rw [if_neg ht0]
        simp only [encString, beN_eq, List.cons_append, List.append_assoc]
      rw [hm]
      simp only [resFlatten, encPayload, encKvs_eq_flatten]
      rfl
    | _ => exact hok.elim
  onto := by
    rintro v ⟨kvs, rfl, hnd, hcan⟩
    obtain ⟨tkvs, hmap, hoks, hkeys⟩ := onto_kvs k hx.onto kvs hcan
    refine ⟨.compound tkvs, ⟨hoks, by rw [hkeys]; exact hnd⟩, ?_, rfl⟩
    simp only [Cls.map]; rw [hmap]

/-! ### pointers

`Decode` allocates and follows, `Encode` follows: the values of the class are the non-nil pointers. (A nil pointer is
written as the zero value it could point to: `getTagType_nil_ptr` below.) -/

def Cls.ptr (c : GoType) (k : Cls) : Cls where
  ok := k.ok
  val := fun t => .ptr c (some (k.val t))
  inner := k.inner
  need := fun t => k.need t + 1
  extra := k.extra + 1
  canon := fun v => ∃ x, v = .ptr c (some x) ∧ k.canon x
  tagV := fun v => match v with
    | .ptr _ (some x) => k.tagV x
    | _ => 0

theorem getTagType_carrier (cx : SnbtCarrier) (f : Nat) (v : GoVal) (h : v.isCarrier = true) :
    getTagType cx (f + 1) v = (carrierTag cx v, v) := by
  cases v <;> simp_all [GoVal.isCarrier, GoVal.typeOf, GoType.isCarrier, getTagType]

/-- what `Encode` does with a nil pointer, at every position (root, field, element, entry all go through
`getTagType`): it is written as the zero value it could point to -/
theorem getTagType_nil_ptr (cx : SnbtCarrier) (f : Nat) (e : GoType) :
    getTagType cx (f + 1) (.ptr e none) = getTagType cx (f + 1) (.ptr e (some e.zero)) := by
  simp [getTagType]

theorem exact_ptr {cx : SnbtCarrier} {c : GoType} {k : Cls} (hx : Exact cx c k) : Exact cx (.ptr c) (Cls.ptr c k) where
  zeroTy := rfl
  needPos := by intro t _; simp [Cls.ptr]
  wf := hx.wf
  s15 := hx.s15
  reads := by
    intro d fuel t hok
    cases fuel with
    | zero => unfold unmarshal; exact R_fail (by have := cost_pos t; omega) _ _
    | succ f =>
      unfold unmarshal
      simp only [umPtr, if_neg (tag_not_magic t).1, Cls.ptr]
      have hz : ptrInner c (GoType.ptr c).zero = c.zero := rfl
      rw [hz]
      exact R_map (fun r => GoVal.ptr c (some r)) (R_mono (fun hc => by omega) (hx.reads d f t hok))
  getTag := by
    intro f t hok hf
    simp only [Cls.ptr] at hf
    obtain ⟨f', rfl⟩ : ∃ f', f = f' + 1 := ⟨f - 1, by omega⟩
    have hg := hx.getTag f' t hok (by omega)
    simp only [Cls.ptr, getTagType, Option.getD_some]
    by_cases hc : (k.val t).isCarrier = true
    · rw [if_pos hc]
      obtain ⟨f'', rfl⟩ : ∃ f'', f' = f'' + 1 := ⟨f' - 1, by have := hx.needPos t hok; omega⟩
      rw [← hg, getTagType_carrier cx f'' _ hc]
    · rw [if_neg hc]; exact hg
  marshal := by
    intro f t hok hf
    simp only [Cls.ptr] at hf
    exact hx.marshal f t hok (by omega)
  onto := by
    rintro v ⟨x, rfl, hcx⟩
    obtain ⟨t, ht, hv, htag⟩ := hx.onto x hcx
    exact ⟨t, ht, by simp only [Cls.ptr, hv], htag⟩

/-! ### struct values along index paths -/

/-- the value at an index path, through (embedded) struct values -/
def getAt : List Nat → GoVal → Option GoVal
  | [], v => some v
  | i :: is, .struct _ _ fs => (fs[i]?).bind (getAt is)
  | _ :: _, _ => none

/-- the struct value with the value at an index path replaced -/
def setAt : List Nat → GoVal → GoVal → GoVal
  | [], x, _ => x
  | i :: is, x, .struct n fields fs =>
    match fs[i]? with
    | some fv => .struct n fields (fs.set i (setAt is x fv))
    | none => .struct n fields fs
  | _ :: _, _, s => s

/-- along the path there are struct values with a declared field and a field value at each index -/
def pathOK : List Nat → GoVal → Bool
  | [], _ => true
  | i :: is, .struct _ fields fs =>
    match fs[i]?, fields[i]? with
    | some fv, some _ => pathOK is fv
    | _, _ => false
  | _ :: _, _ => false

/-- neither path is a prefix of the other -/
def incomp : List Nat → List Nat → Bool
  | i :: is, j :: js => i != j || incomp is js
  | _, _ => false

theorem walkEnc_of_getAt : ∀ (p : List Nat) (v x : GoVal), getAt p v = some x → walkEnc p v = some x
  | [], v, x, h => by simpa [getAt, walkEnc] using h
  | i :: is, v, x, h => by
    cases v with
    | struct n fields fs =>
      simp only [getAt] at h
      simp only [walkEnc]
      cases hfs : fs[i]? with
      | none => simp [hfs] at h
      | some fv =>
        simp only [hfs, Option.bind_some] at h ⊢
        exact walkEnc_of_getAt is fv x h
    | _ => simp [getAt] at h

theorem R_updAt {c : Prop} (k : GoVal → Rd GoVal) : ∀ (p : List Nat) (sv old v : GoVal) (st : Bool) (enc : Bytes),
    pathOK p sv = true → getAt p sv = some old → R c (k old) enc v → R c (updAt k p st sv) enc (setAt p v sv)
  | [], sv, old, v, st, enc, _, hg, hr => by
    simp only [getAt, Option.some.injEq] at hg
    subst hg
    simpa [updAt, setAt] using hr
  | i :: is, sv, old, v, st, enc, hp, hg, hr => by
    cases sv with
    | struct n fields fs =>
      simp only [pathOK] at hp
      simp only [getAt] at hg
      cases hfs : fs[i]? with
      | none => simp [hfs] at hp
      | some fv =>
        cases hfd : fields[i]? with
        | none => simp [hfs, hfd] at hp
        | some fd =>
          simp only [hfs, hfd] at hp
          simp only [hfs, Option.bind_some] at hg
          obtain ⟨info, ty⟩ := fd
          simp only [updAt, updField, hfs, hfd, setAt]
          exact R_map (fun r => GoVal.struct n fields (fs.set i r))
            (R_updAt k is fv old v info.exported enc hp hg hr)
    | _ => simp [pathOK] at hp

theorem getAt_setAt_same : ∀ (p : List Nat) (s x : GoVal), pathOK p s = true → getAt p (setAt p x s) = some x
  | [], s, x, _ => by simp [getAt, setAt]
  | i :: is, s, x, hp => by
    cases s with
    | struct n fields fs =>
      simp only [pathOK] at hp
      cases hfs : fs[i]? with
      | none => simp [hfs] at hp
      | some fv =>
        cases hfd : fields[i]? with
        | none => simp [hfs, hfd] at hp
        | some fd =>
          simp only [hfs, hfd] at hp
          have hi : i < fs.length := by
            rcases Nat.lt_or_ge i fs.length with h | h
            · exact h
            · rw [List.getElem?_eq_none h] at hfs; cases hfs
          simp only [setAt, hfs, getAt, List.getElem?_set_self hi, Option.bind_some]
          exact getAt_setAt_same is fv x hp
    | _ => simp [pathOK] at hp

theorem getAt_setAt_other : ∀ (p q : List Nat) (s x : GoVal), incomp p q = true → getAt p (setAt q x s) = getAt p s
  | [], _, _, _, h => by simp [incomp] at h
  | _ :: _, [], _, _, h => by simp [incomp] at h
  | i :: is, j :: js, s, x, h => by
    cases s with
    | struct n fields fs =>
      simp only [setAt]
      cases hfs : fs[j]? with
      | none => rfl
      | some fv =>
        simp only [getAt]
        by_cases hij : i = j
        · subst hij
          have h' : incomp is js = true := by simpa [incomp] using h
          have hi : i < fs.length := by
            rcases Nat.lt_or_ge i fs.length with h1 | h1
            · exact h1
            · rw [List.getElem?_eq_none h1] at hfs; cases hfs
          rw [List.getElem?_set_self hi, hfs]
          simp only [Option.bind_some]
          exact getAt_setAt_other is js fv x h'
        · rw [List.getElem?_set_ne (fun hji => hij hji.symm)]
    | _ => simp [setAt]

theorem pathOK_setAt_other : ∀ (p q : List Nat) (s x : GoVal), incomp p q = true → pathOK p (setAt q x s) = pathOK p s
  | [], _, _, _, h => by simp [incomp] at h
  | _ :: _, [], _, _, h => by simp [incomp] at h
  | i :: is, j :: js, s, x, h => by
    cases s with
    | struct n fields fs =>
      simp only [setAt]
      cases hfs : fs[j]? with
      | none => rfl
      | some fv =>
        simp only [pathOK]
        by_cases hij : i = j
        · subst hij
          have h' : incomp is js = true := by simpa [incomp] using h
          have hi : i < fs.length := by
            rcases Nat.lt_or_ge i fs.length with h1 | h1
            · exact h1
            · rw [List.getElem?_eq_none h1] at hfs; cases hfs
          rw [List.getElem?_set_self hi, hfs]
          cases fields[i]? with
          | none => rfl
          | some fd => exact pathOK_setAt_other is js fv x h'
        · rw [List.getElem?_set_ne (fun hji => hij hji.symm)]
    | _ => simp [setAt]

theorem set_self_of {α : Type} : ∀ (l : List α) (i : Nat) (a : α), l[i]? = some a → l.set i a = l
  | [], _, _, h => by simp at h
  | x :: xs, 0, a, h => by simp at h; simp [h]
  | x :: xs, i + 1, a, h => by simp at h; simp [set_self_of xs i a h]

theorem setAt_getAt : ∀ (p : List Nat) (s x : GoVal), getAt p s = some x → setAt p x s = s
  | [], s, x, h => by simp only [getAt, Option.some.injEq] at h; simp [setAt, h]
  | i :: is, s, x, h => by
    cases s with
    | struct n fields fs =>
      simp only [getAt] at h
      cases hfs : fs[i]? with
      | none => simp [hfs] at h
      | some fv =>
        simp only [hfs, Option.bind_some] at h
        simp only [setAt, hfs, setAt_getAt is fv x h]
        congr 1
        exact set_self_of fs i fv hfs
    | _ => simp [getAt] at h

theorem incomp_symm : ∀ p q : List Nat, incomp p q = incomp q p
  | [], [] => rfl
  | [], _ :: _ => rfl
  | _ :: _, [] => rfl
  | i :: is, j :: js => by
    simp only [incomp, incomp_symm is js]
    by_cases h : i = j
    · subst h; rfl
    · have h' : ¬ j = i := fun e => h e.symm
      have e1 : (i != j) = true := by simpa using h
      have e2 : (j != i) = true := by simpa using h'
      rw [e1, e2]

theorem setAt_struct (n : Bytes) (fields : List (FieldInfo × GoType)) : ∀ (p : List Nat) (x : GoVal) (fs : List GoVal),
    p ≠ [] → ∃ fs', setAt p x (.struct n fields fs) = .struct n fields fs'
  | [], _, _, h => absurd rfl h
  | i :: is, x, fs, _ => by
    simp only [setAt]
    cases fs[i]? with
    | none => exact ⟨fs, rfl⟩
    | some fv => exact ⟨_, rfl⟩

/-! ### structs

A field of the table of a struct type: its name, its index path (through embedded structs), its type, whether it
is `omitempty`, and the class of its type. The compound of a struct has the entries of the fields in table order,
each under the field's name; an `omitempty` field may be missing — its value is then the zero value — and is
present only with a non-empty value. -/

structure FSpec where
  name : Bytes
  path : List Nat
  ty : GoType
  oe : Bool
  cls : Cls
  /-- the `,list` option: a typed array written (and read) as a TagList -/
  asList : Bool := false

/-- what the struct codec needs of a field's type and class: decoding the payload of `t` into a zero value of the
type gives `k.val t`, and the encoder's step for the field — after the walk along the index path and the
`omitempty` test — writes the entry `name : t`. For a field without options this is `Exact` (`FExact.ofExact`); for a
`,list` field the typed array is re-tagged as a TagList (`fexact_listSlice`). -/
structure FExact (cx : SnbtCarrier) (c : GoType) (asList : Bool) (k : Cls) : Prop where
  zeroTy : c.zero.typeOf = c
  reads : ∀ d fuel t, k.ok t → R (cost t + k.extra ≤ fuel) (unmarshal cx d fuel c c.zero t.tag) (encPayload t) (k.val t)
  encField : ∀ (f : Nat) (Sf : GoVal) (fld : Fld) (t : NBT), k.ok t → k.need t ≤ f → fld.asList = asList →
    fld.name.length < 32768 → walkEnc fld.index Sf = some (k.val t) → (fld.omitEmpty && isEmptyValue (k.val t)) = false →
    fieldEnc (getTagType cx f) (Go.marshal cx f) Sf fld = Res.ok (t.tag :: encString fld.name ++ encPayload t)
  wf : ∀ t, k.ok t → t.WF
  s15 : ∀ t, k.ok t → S15 t
  onto : ∀ v, k.canon v → ∃ t, k.ok t ∧ k.val t = v ∧ t.tag = k.tagV v

theorem FExact.ofExact {cx : SnbtCarrier} {c : GoType} {k : Cls} (hx : Exact cx c k) : FExact cx c false k where
  zeroTy := hx.zeroTy
  reads := hx.reads
  wf := hx.wf
  s15 := hx.s15
  onto := hx.onto
  encField := by
    intro f Sf fld t hokt hf hal hlen hw hemp
    have ht0 : ¬ t.tag = 0 := (tag_not_magic t).1
    have hl : ¬ fld.name.length > 32767 := by omega
    simp only [fieldEnc, hw, hemp, hal, Bool.false_eq_true, if_false,
      hx.getTag f t hokt hf, hx.marshal f t hokt hf, writeTag, ht0, hl]
    simp only [encString, beN_eq, List.cons_append, List.append_assoc]

def okFields : List FSpec → List (Bytes × NBT) → Prop
  | [], [] => True
  | [], _ :: _ => False
  | sp :: sps, [] => sp.oe = true ∧ okFields sps []
  | sp :: sps, (k, t) :: kvs =>
    if k = sp.name then sp.cls.ok t ∧ (sp.oe = true → isEmptyValue (sp.cls.val t) = false) ∧ okFields sps kvs
    else sp.oe = true ∧ okFields sps ((k, t) :: kvs)

/-- the struct value `S` with the fields present in the compound set to the values of their trees -/
def fillFields : List FSpec → List (Bytes × NBT) → GoVal → GoVal
  | [], _, S => S
  | _ :: sps, [], S => fillFields sps [] S
  | sp :: sps, (k, t) :: kvs, S =>
    if k = sp.name then fillFields sps kvs (setAt sp.path (sp.cls.val t) S) else fillFields sps ((k, t) :: kvs) S

def needFields : List FSpec → List (Bytes × NBT) → Nat
  | [], _ => 0
  | _ :: sps, [] => needFields sps []
  | sp :: sps, (k, t) :: kvs =>
    if k = sp.name then max (sp.cls.need t) (needFields sps kvs) else needFields sps ((k, t) :: kvs)

/-- the bytes the struct loop of the encoder writes field by field (nothing for an omitted field) -/
def partsOf : List FSpec → List (Bytes × NBT) → List Bytes
  | [], _ => []
  | _ :: sps, [] => [] :: partsOf sps []
  | sp :: sps, (k, t) :: kvs =>
    if k = sp.name then (t.tag :: encString k ++ encPayload t) :: partsOf sps kvs else [] :: partsOf sps ((k, t) :: kvs)

theorem partsOf_flatten : ∀ (sps : List FSpec) (kvs : List (Bytes × NBT)), okFields sps kvs →
    (partsOf sps kvs).flatten = (kvs.map fun kv => kv.2.tag :: encString kv.1 ++ encPayload kv.2).flatten
  | [], [], _ => rfl
  | [], _ :: _, h => h.elim
  | sp :: sps, [], h => by
    simp only [partsOf, List.flatten_cons, List.nil_append]
    exact partsOf_flatten sps [] h.2
  | sp :: sps, (k, t) :: kvs, h => by
    simp only [okFields] at h
    simp only [partsOf]
    by_cases hk : k = sp.name
    · simp only [hk, if_true] at h ⊢
      simp only [List.flatten_cons, List.map_cons, partsOf_flatten sps kvs h.2.2]
    · simp only [hk, if_false] at h ⊢
      simp only [List.flatten_cons, List.nil_append]
      exact partsOf_flatten sps ((k, t) :: kvs) h.2

/-- a `,list` field of a typed-array slice type: the elements one by one in a TagList -/
theorem fexact_listSlice {cx : SnbtCarrier} {c : GoType} {k : Cls} (hx : Exact cx c k)
    (helem : ∀ t, k.ok t → (k.inner t).isCarrier = false ∧ (arrTag t.tag = 7 ∨ arrTag t.tag = 11 ∨ arrTag t.tag = 12))
    (hstat : arrTag (tagOfType c) = 7 ∨ arrTag (tagOfType c) = 11 ∨ arrTag (tagOfType c) = 12)
    (hstat12 : (tagOfType c).toNat ≤ 12) (hx0 : k.extra = 0) :
    FExact cx (.slice c) true (Cls.slice c k) where
  zeroTy := rfl
  reads := slice_reads hx
  wf := by
    intro t ht
    cases t with
    | list e ts => exact ht.1
    | _ => exact ht.elim
  s15 := by
    intro t ht
    cases t with
    | list e ts => simp only [S15]; exact s15List_of (fun t' ht' => hx.s15 t' (ht.2.1 t' ht'))
    | _ => exact ht.elim
  onto := slice_onto hx hstat12
  encField := by
    intro f Sf fld t hokt hf hal hlen hw hemp
    cases t with
    | list e ts =>
      obtain ⟨hwf, hoks, hempt⟩ := hokt
      simp only [Cls.slice] at hf hw hemp
      obtain ⟨f', rfl⟩ : ∃ f', f = f' + 2 := ⟨f - 2, by omega⟩
      have hl : ¬ fld.name.length > 32767 := by omega
      have hm := slice_marshal hx (f' + 2) e ts hwf hoks hempt (by simp only [Cls.slice]; omega)
      have hg : ∃ a, (a = 7 ∨ a = 11 ∨ a = 12) ∧
          getTagType cx (f' + 2) (.slice c false (ts.map k.val)) = (a, .slice c false (ts.map k.val)) := by
        cases ts with
        | nil =>
          refine ⟨arrTag (tagOfType c), hstat, ?_⟩
          simp only [List.map_nil, getTagType]
        | cons t0 ts' =>
          have h0 := helem t0 (hoks t0 List.mem_cons_self)
          have hg0 := hx.getTag (f' + 1) t0 (hoks t0 List.mem_cons_self) (by simp only [needMax] at hf; omega)
          refine ⟨arrTag t0.tag, h0.2, ?_⟩
          rw [List.map_cons, getTagType_slice_cons, hg0]
          simp only [h0.1, Bool.false_eq_true, if_false]
      obtain ⟨a, ha, hga⟩ := hg
      have ha0 : ¬ a = 0 := by rcases ha with rfl | rfl | rfl <;> decide
      have hnc : GoVal.isCarrier (.slice c false (ts.map k.val)) = false := rfl
      have htyp : (if a = 7 ∨ a = 11 ∨ a = 12 then some (9 : Byte) else none) = some 9 := by rw [if_pos ha]
      simp only [fieldEnc, hw, hemp, hal, Bool.false_eq_true, if_false, if_true, hga, ha0, hnc, htyp, writeTag, hl]
      rw [show (NBT.list e ts).tag = 9 from rfl] at hm ⊢
      simp only [Cls.slice] at hm
      rw [hm]
      simp only [encString, beN_eq, List.cons_append, List.append_assoc]
    | _ => exact hokt.elim

/-- the table `flds` (from position `k` on) lists the fields `sps`: names, index paths, options; found by name -/
inductive Table (look : Bytes → Option Nat) : Nat → List Fld → List FSpec → Prop
  | nil (k : Nat) : Table look k [] []
  | cons {k : Nat} {fld : Fld} {flds : List Fld} {sp : FSpec} {sps : List FSpec} :
      look sp.name = some k → fld.name = sp.name → fld.index = sp.path → fld.omitEmpty = sp.oe → fld.asList = sp.asList →
      sp.name.length < 32768 → Table look (k + 1) flds sps → Table look k (fld :: flds) (sp :: sps)

/-- the fields can be decoded into `S` one after the other: each path leads to a zero value of the field's type,
no path is a prefix of another, the names differ, an `omitempty` field has an empty zero value -/
structure Sound (S : GoVal) (sps : List FSpec) : Prop where
  ready : ∀ sp ∈ sps, pathOK sp.path S = true ∧ getAt sp.path S = some sp.ty.zero
  sep : sps.Pairwise fun a b => incomp a.path b.path = true ∧ a.name ≠ b.name
  nonempty : ∀ sp ∈ sps, sp.path ≠ []
  omitZero : ∀ sp ∈ sps, sp.oe = true → isEmptyValue sp.ty.zero = true

theorem Sound.tail {S : GoVal} {sp : FSpec} {sps : List FSpec} (h : Sound S (sp :: sps)) : Sound S sps :=
  ⟨fun sp' h' => h.ready sp' (List.mem_cons_of_mem _ h'), (List.pairwise_cons.mp h.sep).2,
   fun sp' h' => h.nonempty sp' (List.mem_cons_of_mem _ h'), fun sp' h' => h.omitZero sp' (List.mem_cons_of_mem _ h')⟩

theorem Sound.step {S : GoVal} {sp : FSpec} {sps : List FSpec} (h : Sound S (sp :: sps)) (x : GoVal) :
    Sound (setAt sp.path x S) sps := by
  have hsep := List.pairwise_cons.mp h.sep
  refine ⟨fun sp' h' => ?_, hsep.2, fun sp' h' => h.nonempty sp' (List.mem_cons_of_mem _ h'),
    fun sp' h' => h.omitZero sp' (List.mem_cons_of_mem _ h')⟩
  have hi : incomp sp'.path sp.path = true := by rw [incomp_symm]; exact (hsep.1 sp' h').1
  rw [pathOK_setAt_other _ _ _ _ hi, getAt_setAt_other _ _ _ _ hi]
  exact h.ready sp' (List.mem_cons_of_mem _ h')

theorem fill_struct (n : Bytes) (fields : List (FieldInfo × GoType)) : ∀ (sps : List FSpec) (kvs : List (Bytes × NBT))
    (fs : List GoVal), (∀ sp ∈ sps, sp.path ≠ []) → ∃ fs', fillFields sps kvs (.struct n fields fs) = .struct n fields fs'
  | [], _, fs, _ => ⟨fs, rfl⟩
  | sp :: sps, [], fs, h => by
    simp only [fillFields]
    exact fill_struct n fields sps [] fs (fun sp' h' => h sp' (List.mem_cons_of_mem _ h'))
  | sp :: sps, (k, t) :: kvs, fs, h => by
    simp only [fillFields]
    by_cases hk : k = sp.name
    · simp only [hk, if_true]
      obtain ⟨fs1, h1⟩ := setAt_struct n fields sp.path (sp.cls.val t) fs (h sp List.mem_cons_self)
      rw [h1]
      exact fill_struct n fields sps kvs fs1 (fun sp' h' => h sp' (List.mem_cons_of_mem _ h'))
    · simp only [hk, if_false]
      exact fill_struct n fields sps ((k, t) :: kvs) fs (fun sp' h' => h sp' (List.mem_cons_of_mem _ h'))

theorem getAt_fill_other (p : List Nat) : ∀ (sps : List FSpec) (kvs : List (Bytes × NBT)) (S : GoVal),
    (∀ sp ∈ sps, incomp p sp.path = true) → getAt p (fillFields sps kvs S) = getAt p S
  | [], _, _, _ => rfl
  | sp :: sps, [], S, h => by
    simp only [fillFields]
    exact getAt_fill_other p sps [] S (fun sp' h' => h sp' (List.mem_cons_of_mem _ h'))
  | sp :: sps, (k, t) :: kvs, S, h => by
    simp only [fillFields]
    by_cases hk : k = sp.name
    · simp only [hk, if_true]
      rw [getAt_fill_other p sps kvs _ (fun sp' h' => h sp' (List.mem_cons_of_mem _ h')),
        getAt_setAt_other _ _ _ _ (h sp List.mem_cons_self)]
    · simp only [hk, if_false]
      exact getAt_fill_other p sps _ S (fun sp' h' => h sp' (List.mem_cons_of_mem _ h'))

/-- what the encoder finds along the path of every field in the filled struct -/
def GetAll (Sf : GoVal) : List FSpec → List (Bytes × NBT) → Prop
  | [], _ => True
  | sp :: sps, [] => getAt sp.path Sf = some sp.ty.zero ∧ GetAll Sf sps []
  | sp :: sps, (k, t) :: kvs =>
    if k = sp.name then getAt sp.path Sf = some (sp.cls.val t) ∧ GetAll Sf sps kvs
    else getAt sp.path Sf = some sp.ty.zero ∧ GetAll Sf sps ((k, t) :: kvs)

theorem getAll_fill : ∀ (sps : List FSpec) (kvs : List (Bytes × NBT)) (S : GoVal), Sound S sps →
    ∀ Sf, Sf = fillFields sps kvs S → GetAll Sf sps kvs
  | [], _, _, _, _, _ => trivial
  | sp :: sps, [], S, h, Sf, hSf => by
    simp only [GetAll]
    have hsep := List.pairwise_cons.mp h.sep
    refine ⟨?_, getAll_fill sps [] S h.tail Sf (by rw [hSf]; rfl)⟩
    rw [hSf]
    simp only [fillFields]
    rw [getAt_fill_other _ sps [] S (fun sp' h' => (hsep.1 sp' h').1)]
    exact (h.ready sp List.mem_cons_self).2
  | sp :: sps, (k, t) :: kvs, S, h, Sf, hSf => by
    have hsep := List.pairwise_cons.mp h.sep
    simp only [GetAll]
    by_cases hk : k = sp.name
    · simp only [hk, if_true]
      simp only [fillFields, hk, if_true] at hSf
      refine ⟨?_, getAll_fill sps kvs _ (h.step _) Sf hSf⟩
      rw [hSf, getAt_fill_other _ sps kvs _ (fun sp' h' => (hsep.1 sp' h').1)]
      exact getAt_setAt_same _ _ _ (h.ready sp List.mem_cons_self).1
    · simp only [hk, if_false]
      simp only [fillFields, hk, if_false] at hSf
      refine ⟨?_, getAll_fill sps _ S h.tail Sf hSf⟩
      rw [hSf, getAt_fill_other _ sps _ S (fun sp' h' => (hsep.1 sp' h').1)]
      exact (h.ready sp List.mem_cons_self).2

theorem getElem?_append_length {α : Type} (pre : List α) (x : α) (post : List α) :
    (pre ++ x :: post)[pre.length]? = some x := by simp

/-- one known key decoded into its (still zero) field -/
theorem R_structStep (cx : SnbtCarrier) (d : Bool) (f : Nat) (flds fldsDone fldsRem : List Fld) (fld : Fld)
    (sp : FSpec) (S : GoVal) (t : NBT) (hx : FExact cx sp.ty sp.asList sp.cls) (hok : sp.cls.ok t)
    (hflds : flds = fldsDone ++ fld :: fldsRem) (hlook : lookupField flds sp.name = some fldsDone.length)
    (hidx : fld.index = sp.path) (hp : pathOK sp.path S = true) (hg : getAt sp.path S = some sp.ty.zero) :
    R (cost t + sp.cls.extra ≤ f) (structStep (unmarshal cx d f) d f flds t.tag sp.name S)
      (encPayload t) (setAt sp.path (sp.cls.val t) S) := by
  have hf : flds[fldsDone.length]? = some fld := by rw [hflds]; exact getElem?_append_length _ _ _
  simp only [structStep, hlook, hf, hidx]
  refine R_updAt _ sp.path S sp.ty.zero (sp.cls.val t) true _ hp hg ?_
  rw [hx.zeroTy]
  exact hx.reads d f t hok

/-- the loop of the struct branch over the remaining entries -/
theorem R_structLoop (cx : SnbtCarrier) (d : Bool) (f E : Nat) (flds : List Fld) :
    ∀ (sps : List FSpec) (fldsRem fldsDone : List Fld) (S : GoVal) (kvs : List (Bytes × NBT)) (w : Nat),
    Table (lookupField flds) fldsDone.length fldsRem sps →
    (∀ sp ∈ sps, FExact cx sp.ty sp.asList sp.cls ∧ sp.cls.extra ≤ E) →
    flds = fldsDone ++ fldsRem → Sound S sps → okFields sps kvs →
    R (kvs.length + 1 ≤ w ∧ ∀ kv ∈ kvs, cost kv.2 + E ≤ f)
      (kvLoop (structStep (unmarshal cx d f) d f flds) w S) (encKvs kvs) (fillFields sps kvs S)
  | sps, fldsRem, fldsDone, S, kvs, 0, _, _, _, _, _ => by
    unfold kvLoop
    exact R_fail (by omega) _ _
  | [], _, fldsDone, S, kvs, w + 1, _, _, _, _, hok => by
    cases kvs with
    | nil => exact R_kvLoop_end _ _ w _
    | cons kv kvs => exact hok.elim
  | sp :: sps, _, fldsDone, S, [], w + 1, htab, hel, hflds, hs, hok => by
    cases htab with
    | @cons _ fld fldsRem _ _ hlook hname hidx hoe hal hlen hrest =>
    simp only [fillFields]
    exact R_structLoop cx d f E flds sps fldsRem (fldsDone ++ [fld]) S [] (w + 1) (by simpa using hrest)
      (fun sp' h' => hel sp' (List.mem_cons_of_mem _ h')) (by simp [hflds]) hs.tail hok.2
  | sp :: sps, _, fldsDone, S, (key, t) :: kvs, w + 1, htab, hel, hflds, hs, hok => by
    cases htab with
    | @cons _ fld fldsRem _ _ hlook hname hidx hoe hal hlen hrest =>
    simp only [okFields] at hok
    simp only [fillFields]
    by_cases hk : key = sp.name
    · simp only [hk, if_true] at hok ⊢
      obtain ⟨hokt, _, hoks⟩ := hok
      obtain ⟨t0, t1, t2⟩ := tag_not_magic t
      simp only [encKvs]
      have hx := hel sp List.mem_cons_self
      apply R_kvLoop_entry _ _ w _ (setAt sp.path (sp.cls.val t) S) _ t.tag sp.name (encPayload t) (encKvs kvs) hlen t0 t1 t2
      · exact R_mono (fun hc => by have := hc.2 (sp.name, t) List.mem_cons_self; simp only at this; omega)
          (R_structStep cx d f flds fldsDone fldsRem fld sp S t hx.1 hokt hflds hlook hidx
            (hs.ready sp List.mem_cons_self).1 (hs.ready sp List.mem_cons_self).2)
      · have := R_structLoop cx d f E flds sps fldsRem (fldsDone ++ [fld]) (setAt sp.path (sp.cls.val t) S) kvs w
          (by simpa using hrest) (fun sp' h' => hel sp' (List.mem_cons_of_mem _ h')) (by simp [hflds]) (hs.step _) hoks
        exact R_mono (fun hc => ⟨by have := hc.1; simp only [List.length_cons] at this; omega,
          fun kv hkv => hc.2 kv (List.mem_cons_of_mem _ hkv)⟩) this
    · simp only [hk, if_false] at hok ⊢
      exact R_structLoop cx d f E flds sps fldsRem (fldsDone ++ [fld]) S ((key, t) :: kvs) (w + 1) (by simpa using hrest)
        (fun sp' h' => hel sp' (List.mem_cons_of_mem _ h')) (by simp [hflds]) hs.tail hok.2

/-- the struct loop of `writeValue` over the remaining fields of the table -/
theorem fieldsEnc_ok (cx : SnbtCarrier) (f : Nat) (look : Bytes → Option Nat) (Sf : GoVal) :
    ∀ (sps : List FSpec) (fldsRem : List Fld) (kvs : List (Bytes × NBT)) (k : Nat),
    Table look k fldsRem sps → (∀ sp ∈ sps, FExact cx sp.ty sp.asList sp.cls) → (∀ sp ∈ sps, sp.oe = true → isEmptyValue sp.ty.zero = true) →
    okFields sps kvs → needFields sps kvs ≤ f → GetAll Sf sps kvs →
    resMapM (fieldEnc (getTagType cx f) (Go.marshal cx f) Sf) fldsRem = Res.ok (partsOf sps kvs)
  | [], _, kvs, k, htab, _, _, _, _, _ => by
    cases htab
    rfl
  | sp :: sps, _, [], k, htab, hel, hz, hok, hneed, hget => by
    cases htab with
    | @cons _ fld fldsRem _ _ hlook hname hidx hoe hal hlen hrest =>
    simp only [GetAll] at hget
    have hw := walkEnc_of_getAt _ _ _ hget.1
    rw [← hidx] at hw
    have h1 : fieldEnc (getTagType cx f) (Go.marshal cx f) Sf fld = Res.ok [] := by
      simp only [fieldEnc, hw, hoe, hok.1, hz sp List.mem_cons_self hok.1, Bool.and_self, if_true]
    have h2 := fieldsEnc_ok cx f look Sf sps fldsRem [] (k + 1) hrest (fun sp' h' => hel sp' (List.mem_cons_of_mem _ h'))
      (fun sp' h' => hz sp' (List.mem_cons_of_mem _ h')) hok.2 (by simpa [needFields] using hneed) hget.2
    unfold resMapM
    rw [h1, h2]
    rfl
  | sp :: sps, _, (key, t) :: kvs, k, htab, hel, hz, hok, hneed, hget => by
    cases htab with
    | @cons _ fld fldsRem _ _ hlook hname hidx hoe hal hlen hrest =>
    simp only [okFields] at hok
    simp only [GetAll] at hget
    simp only [needFields] at hneed
    simp only [partsOf]
    by_cases hk : key = sp.name
    · simp only [hk, if_true] at hok hget hneed ⊢
      obtain ⟨hokt, hne, hoks⟩ := hok
      have hx := hel sp List.mem_cons_self
      have hw := walkEnc_of_getAt _ _ _ hget.1
      rw [← hidx] at hw
      have ht0 : ¬ t.tag = 0 := (tag_not_magic t).1
      have hl : ¬ sp.name.length > 32767 := by omega
      have hemp : (sp.oe && isEmptyValue (sp.cls.val t)) = false := by
        cases hb : sp.oe with
        | false => rfl
        | true => simp [hne hb]
      have h1 : fieldEnc (getTagType cx f) (Go.marshal cx f) Sf fld =
          Res.ok (t.tag :: encString sp.name ++ encPayload t) := by
        have := hx.encField f Sf fld t hokt (by omega) hal (by rw [hname]; exact hlen) hw (by rw [hoe]; exact hemp)
        rwa [hname] at this
      have h2 := fieldsEnc_ok cx f look Sf sps fldsRem kvs (k + 1) hrest (fun sp' h' => hel sp' (List.mem_cons_of_mem _ h'))
        (fun sp' h' => hz sp' (List.mem_cons_of_mem _ h')) hoks (by omega) hget.2
      unfold resMapM
      rw [h1, h2]
    · simp only [hk, if_false] at hok hget hneed ⊢
      have hw := walkEnc_of_getAt _ _ _ hget.1
      rw [← hidx] at hw
      have h1 : fieldEnc (getTagType cx f) (Go.marshal cx f) Sf fld = Res.ok [] := by
        simp only [fieldEnc, hw, hoe, hok.1, hz sp List.mem_cons_self hok.1, Bool.and_self, if_true]
      have h2 := fieldsEnc_ok cx f look Sf sps fldsRem ((key, t) :: kvs) (k + 1) hrest
        (fun sp' h' => hel sp' (List.mem_cons_of_mem _ h')) (fun sp' h' => hz sp' (List.mem_cons_of_mem _ h')) hok.2 hneed hget.2
      unfold resMapM
      rw [h1, h2]

/-- canonical field values: of the field's class — non-empty when the field is `omitempty` — or, for an
`omitempty` field, the zero value -/
def canonFields : List FSpec → List GoVal → Prop
  | [], [] => True
  | sp :: sps, x :: xs =>
    ((sp.cls.canon x ∧ (sp.oe = true → isEmptyValue x = false)) ∨ (sp.oe = true ∧ x = sp.ty.zero)) ∧ canonFields sps xs
  | _, _ => False

/-- the struct value `S` with the fields of the table set to `xs` -/
def setAll : List FSpec → List GoVal → GoVal → GoVal
  | sp :: sps, x :: xs, S => setAll sps xs (setAt sp.path x S)
  | _, _, S => S

def extraMax : List FSpec → Nat
  | [] => 0
  | sp :: sps => max sp.cls.extra (extraMax sps)

theorem le_extraMax : ∀ {sps : List FSpec} {sp : FSpec}, sp ∈ sps → sp.cls.extra ≤ extraMax sps
  | [], _, h => by cases h
  | x :: xs, sp, h => by
    simp only [extraMax]
    rcases List.mem_cons.mp h with rfl | h'
    · omega
    · have := le_extraMax h'; omega

/-- the class of the struct type `struct n fields` with the field table `sps` -/
def Cls.struct (n : Bytes) (fields : List (FieldInfo × GoType)) (sps : List FSpec) : Cls where
  ok := fun t => match t with
    | .compound kvs => okFields sps kvs
    | _ => False
  val := fun t => match t with
    | .compound kvs => fillFields sps kvs (GoType.struct n fields).zero
    | _ => (GoType.struct n fields).zero
  inner := fun t => match t with
    | .compound kvs => fillFields sps kvs (GoType.struct n fields).zero
    | _ => (GoType.struct n fields).zero
  need := fun t => match t with
    | .compound kvs => needFields sps kvs + 2
    | _ => 2
  extra := extraMax sps
  canon := fun v => ∃ xs, canonFields sps xs ∧ v = setAll sps xs (GoType.struct n fields).zero
  tagV := fun _ => 10

/-- the entries of the compound of canonical field values -/
theorem onto_fields : ∀ (sps : List FSpec) (xs : List GoVal) (S : GoVal), Sound S sps →
    (∀ sp ∈ sps, ∀ v, sp.cls.canon v → ∃ t, sp.cls.ok t ∧ sp.cls.val t = v ∧ t.tag = sp.cls.tagV v) →
    canonFields sps xs →
    ∃ kvs, okFields sps kvs ∧ fillFields sps kvs S = setAll sps xs S ∧ (∀ kv ∈ kvs, ∃ sp ∈ sps, kv.1 = sp.name)
  | [], [], S, _, _, _ => ⟨[], trivial, rfl, fun _ h => by cases h⟩
  | [], _ :: _, _, _, _, h => h.elim
  | _ :: _, [], _, _, _, h => h.elim
  | sp :: sps, x :: xs, S, hs, honto, hc => by
    obtain ⟨hx, hcs⟩ := hc
    have hsep := List.pairwise_cons.mp hs.sep
    rcases hx with ⟨hcan, hne⟩ | ⟨hoe, hzero⟩
    · obtain ⟨t, ht, hv, _⟩ := honto sp List.mem_cons_self x hcan
      obtain ⟨kvs, hok, hfill, hkeys⟩ := onto_fields sps xs (setAt sp.path x S) (hs.step x)
        (fun sp' h' => honto sp' (List.mem_cons_of_mem _ h')) hcs
      refine ⟨(sp.name, t) :: kvs, ?_, ?_, ?_⟩
      · simp only [okFields, if_true]
        exact ⟨ht, by rw [hv]; exact hne, hok⟩
      · simp only [fillFields, if_true, setAll, hv]
        exact hfill
      · intro kv hkv
        rcases List.mem_cons.mp hkv with rfl | h'
        · exact ⟨sp, List.mem_cons_self, rfl⟩
        · obtain ⟨sp', hsp', he⟩ := hkeys kv h'
          exact ⟨sp', List.mem_cons_of_mem _ hsp', he⟩
    · subst hzero
      obtain ⟨kvs, hok, hfill, hkeys⟩ := onto_fields sps xs S hs.tail
        (fun sp' h' => honto sp' (List.mem_cons_of_mem _ h')) hcs
      have hset : setAt sp.path sp.ty.zero S = S := setAt_getAt _ _ _ (hs.ready sp List.mem_cons_self).2
      refine ⟨kvs, ?_, ?_, fun kv hkv => by
        obtain ⟨sp', hsp', he⟩ := hkeys kv hkv
        exact ⟨sp', List.mem_cons_of_mem _ hsp', he⟩⟩
      · cases kvs with
        | nil => exact ⟨hoe, hok⟩
        | cons kv kvs' =>
          obtain ⟨key, t⟩ := kv
          obtain ⟨sp', hsp', he⟩ := hkeys (key, t) List.mem_cons_self
          have hk : ¬ key = sp.name := by
            intro e
            exact (hsep.1 sp' hsp').2 (by rw [← he]; exact e.symm)
          simp only [okFields, hk, if_false]
          exact ⟨hoe, hok⟩
      · simp only [setAll, hset]
        cases kvs with
        | nil => simpa [fillFields] using hfill
        | cons kv kvs' =>
          obtain ⟨key, t⟩ := kv
          obtain ⟨sp', hsp', he⟩ := hkeys (key, t) List.mem_cons_self
          have hk : ¬ key = sp.name := by
            intro e
            exact (hsep.1 sp' hsp').2 (by rw [← he]; exact e.symm)
          simp only [fillFields, hk, if_false]
          exact hfill

theorem wf_fields : ∀ (sps : List FSpec) (kvs : List (Bytes × NBT)), okFields sps kvs →
    (∀ sp ∈ sps, sp.name.length < 32768 ∧ ∀ t, sp.cls.ok t → t.WF) → NBT.WFKvs kvs
  | [], [], _, _ => trivial
  | [], _ :: _, h, _ => h.elim
  | sp :: sps, [], _, _ => trivial
  | sp :: sps, (k, t) :: kvs, h, hw => by
    simp only [okFields] at h
    by_cases hk : k = sp.name
    · simp only [hk, if_true] at h
      subst hk
      have := hw sp List.mem_cons_self
      exact ⟨by omega, this.2 t h.1, wf_fields sps kvs h.2.2 (fun sp' h' => hw sp' (List.mem_cons_of_mem _ h'))⟩
    · simp only [hk, if_false] at h
      exact wf_fields sps ((k, t) :: kvs) h.2 (fun sp' h' => hw sp' (List.mem_cons_of_mem _ h'))

theorem s15_fields : ∀ (sps : List FSpec) (kvs : List (Bytes × NBT)), okFields sps kvs →
    (∀ sp ∈ sps, sp.name.length < 32768 ∧ ∀ t, sp.cls.ok t → S15 t) → S15Kvs kvs
  | [], [], _, _ => trivial
  | [], _ :: _, h, _ => h.elim
  | sp :: sps, [], _, _ => trivial
  | sp :: sps, (k, t) :: kvs, h, hw => by
    simp only [okFields] at h
    by_cases hk : k = sp.name
    · simp only [hk, if_true] at h
      subst hk
      have := hw sp List.mem_cons_self
      exact ⟨this.1, this.2 t h.1, s15_fields sps kvs h.2.2 (fun sp' h' => hw sp' (List.mem_cons_of_mem _ h'))⟩
    · simp only [hk, if_false] at h
      exact s15_fields sps ((k, t) :: kvs) h.2 (fun sp' h' => hw sp' (List.mem_cons_of_mem _ h'))

theorem table_names {look : Bytes → Option Nat} : ∀ {k : Nat} {flds : List Fld} {sps : List FSpec},
    Table look k flds sps → ∀ sp ∈ sps, sp.name.length < 32768
  | _, _, _, .nil _, _, h => by cases h
  | _, _, _, .cons _ _ _ _ _ hlen hrest, sp, h => by
    rcases List.mem_cons.mp h with rfl | h'
    · exact hlen
    · exact table_names hrest sp h'

/-- a struct type whose field table is `sps` — fields reached through embedded structs included, `omitempty`
included — with field types that are exact classes is an exact class -/
theorem exact_struct (cx : SnbtCarrier) (n : Bytes) (fields : List (FieldInfo × GoType)) (sps : List FSpec)
    (htab : Table (lookupField (typeFields (.struct n fields))) 0 (typeFields (.struct n fields)) sps)
    (hs : Sound (GoType.struct n fields).zero sps)
    (hel : ∀ sp ∈ sps, FExact cx sp.ty sp.asList sp.cls) :
    Exact cx (.struct n fields) (Cls.struct n fields sps) where
  zeroTy := rfl
  needPos := by intro t _; cases t <;> simp [Cls.struct]
  wf := by
    intro t ht
    cases t with
    | compound kvs =>
      simp only [NBT.WF]
      exact wf_fields sps kvs ht (fun sp h => ⟨table_names htab sp h, (hel sp h).wf⟩)
    | _ => exact ht.elim
  s15 := by
    intro t ht
    cases t with
    | compound kvs =>
      simp only [S15]
      exact s15_fields sps kvs ht (fun sp h => ⟨table_names htab sp h, (hel sp h).s15⟩)
    | _ => exact ht.elim
  reads := by
    intro d fuel t hok
    cases t with
    | compound kvs =>
      cases fuel with
      | zero => unfold unmarshal; exact R_fail (by simp [cost]) _ _
      | succ f =>
        rw [show (NBT.compound kvs).tag = 10 from rfl]
        unfold unmarshal
        have h10 : (10 : BitVec 8).toNat = 10 := rfl
        simp only [umStruct, h10, encPayload, Cls.struct]
        have hz : structOr (.struct n fields) (GoType.struct n fields).zero = (GoType.struct n fields).zero := by
          simp [structOr, GoType.zero]
        rw [hz]
        have := R_structLoop cx d f (extraMax sps) (typeFields (.struct n fields)) sps (typeFields (.struct n fields)) []
          (GoType.struct n fields).zero kvs f htab (fun sp h => ⟨hel sp h, le_extraMax h⟩) rfl hs hok
        exact R_mono (fun hc => by
          simp only [cost] at hc
          exact ⟨by have := length_le_costKvs kvs; omega, fun kv hkv => by have := cost_le_costKvs hkv; omega⟩) this
    | _ => exact hok.elim
  getTag := by
    intro f t hok hf
    cases t with
    | compound kvs =>
      simp only [Cls.struct] at hf
      obtain ⟨f', rfl⟩ : ∃ f', f = f' + 1 := ⟨f - 1, by omega⟩
      rw [show (NBT.compound kvs).tag = 10 from rfl]
      obtain ⟨fs', hfs'⟩ := fill_struct n fields sps kvs (GoType.zeroFields fields) hs.nonempty
      simp only [Cls.struct, GoType.zero, hfs', getTagType, tagOfType, GoVal.typeOf]
    | _ => exact hok.elim
  marshal := by
    intro f t hok hf
    cases t with
    | compound kvs =>
      simp only [Cls.struct] at hf
      obtain ⟨f', rfl⟩ : ∃ f', f = f' + 2 := ⟨f - 2, by omega⟩
      rw [show (NBT.compound kvs).tag = 10 from rfl]
      have hget := getAll_fill sps kvs _ hs _ rfl
      obtain ⟨fs', hfs'⟩ := fill_struct n fields sps kvs (GoType.zeroFields fields) hs.nonempty
      simp only [Cls.struct, GoType.zero] at hget ⊢
      rw [hfs'] at hget ⊢
      have hsl : GoVal.isCarrier (.struct n fields fs') = false := rfl
      unfold Go.marshal
      rw [hsl]
      simp only [Bool.false_eq_true, if_false]
      have h10 : (10 : BitVec 8).toNat = 10 := rfl
      simp only [writeValue, h10]
      rw [fieldsEnc_ok cx f' _ _ sps _ kvs 0 htab hel hs.omitZero hok (by omega) hget]
      simp only [resFlatten, encPayload, encKvs_eq_flatten, partsOf_flatten sps kvs hok]
      rfl
    | _ => exact hok.elim
  onto := by
    rintro v ⟨xs, hc, rfl⟩
    obtain ⟨kvs, hok, hfill, _⟩ := onto_fields sps xs _ hs (fun sp h => (hel sp h).onto) hc
    exact ⟨.compound kvs, hok, hfill, rfl⟩

/-! ### arrays written as TagList -/

/-- decoding a list into the zero array: every element into a zero value -/
theorem R_rdMapFirst (c : Prop) (kf : GoVal → Rd GoVal) (z : GoVal) (val : NBT → GoVal) :
    ∀ ts : List NBT, (∀ t ∈ ts, R c (kf z) (encPayload t) (val t)) →
      R c (rdMapFirst kf ts.length (List.replicate ts.length z)) (encList ts) (ts.map val)
  | [], _ => by simp only [List.length_nil, List.replicate, rdMapFirst]; exact R_pure c _
  | t :: ts, h => by
    simp only [List.length_cons, List.replicate, encList, List.map_cons]
    unfold rdMapFirst
    apply R_bind (h t List.mem_cons_self)
    exact R_enc (by simp) (R_bind (R_rdMapFirst c kf z val ts (fun t' ht' => h t' (List.mem_cons_of_mem _ ht'))) (R_pure c _))

/-- `[n]c` written as a TagList: lists of exactly `n` trees of the element class -/
def Cls.array (n : Nat) (c : GoType) (k : Cls) : Cls where
  ok := fun t => match t with
    | .list e ts => (NBT.list e ts).WF ∧ (∀ t ∈ ts, k.ok t) ∧ ts.length = n ∧ (ts = [] → e = tagOfType c)
    | _ => False
  val := fun t => match t with
    | .list _ ts => .array c (ts.map k.val)
    | _ => .array c []
  inner := fun t => match t with
    | .list _ ts => .array c (ts.map k.val)
    | _ => .array c []
  need := fun t => match t with
    | .list _ ts => needMax k.need ts + 2
    | _ => 2
  extra := k.extra
  canon := fun v => ∃ xs, v = .array c xs ∧ xs.length = n ∧ n < 2147483648 ∧ (∀ x ∈ xs, k.canon x) ∧
    (∀ x ∈ xs, ∀ y ∈ xs, k.tagV x = k.tagV y)
  tagV := fun _ => 9

theorem exact_array {cx : SnbtCarrier} {c : GoType} {k : Cls} (n : Nat) (hx : Exact cx c k)
    (hseq : ∀ t, k.ok t → (k.inner t).isCarrier = true ∨ arrTag t.tag = 9)
    (hstat : arrTag (tagOfType c) = 9) (hstat12 : (tagOfType c).toNat ≤ 12) :
    Exact cx (.array n c) (Cls.array n c k) where
  zeroTy := by simp [GoType.zero, GoVal.typeOf]
  needPos := by intro t _; cases t <;> simp [Cls.array]
  wf := by
    intro t ht
    cases t with
    | list e ts => exact ht.1
    | _ => exact ht.elim
  s15 := by
    intro t ht
    cases t with
    | list e ts => simp only [S15]; exact s15List_of (fun t' ht' => hx.s15 t' (ht.2.1 t' ht'))
    | _ => exact ht.elim
  reads := by
    intro d fuel t hok
    cases t with
    | list e ts =>
      obtain ⟨hwf, hoks, hn, hemp⟩ := hok
      have hwf' := hwf
      simp only [NBT.WF, two31] at hwf'
      obtain ⟨hlen, hnz, hle, hwfl⟩ := hwf'
      cases fuel with
      | zero => unfold unmarshal; exact R_fail (by simp [cost]) _ _
      | succ f =>
        have hnz' : e ≠ 0#8 ∨ ts.length = 0 := by
          rcases hnz with h | h
          · right; simp [h]
          · exact Or.inl h
        unfold unmarshal
        have h9 : (9 : BitVec 8).toNat = 9 := rfl
        simp only [NBT.tag, NBT.tagList, umArray, h9, encPayload, Cls.array]
        have : e :: beBytes 4 ts.length ++ encList ts = (e :: beBytes 4 ts.length) ++ (encList ts ++ []) := by simp
        rw [this]
        apply R_bind (R_listHeader _ e ts.length hle hlen hnz')
        simp only
        rw [if_neg (by omega)]
        have hz : arrElems (GoType.array n c).zero = List.replicate ts.length c.zero := by
          simp [GoType.zero, arrElems, hn]
        rw [hz]
        apply R_bind
        · apply R_rdMapFirst
          intro t ht
          have := hx.reads d f t (hoks t ht)
          rw [(wfList_mem hwfl t ht).1] at this
          exact R_mono (fun h => by
            have := cost_le_costList ht
            simp only [cost] at h; omega) this
        · exact R_pure _ _
    | _ => exact hok.elim
  getTag := by
    intro f t hok hf
    cases t with
    | list e ts =>
      obtain ⟨hwf, hoks, hn, hemp⟩ := hok
      simp only [Cls.array] at hf
      obtain ⟨f', rfl⟩ : ∃ f', f = f' + 1 := ⟨f - 1, by omega⟩
      cases ts with
      | nil =>
        rw [show (NBT.list e []).tag = 9 from rfl]
        simp only [Cls.array, List.map_nil, getTagType, hstat]
      | cons t0 ts' =>
        have hg0 := hx.getTag f' t0 (hoks t0 (List.mem_cons_self)) (by simp only [needMax] at hf; omega)
        simp only [Cls.array, List.map_cons]
        rw [getTagType_array_cons, hg0, show (NBT.list e (t0 :: ts')).tag = 9 from rfl]
        rcases hseq t0 (hoks t0 (List.mem_cons_self)) with h | h
        · simp [h]
        · by_cases hc : (k.inner t0).isCarrier = true
          · simp [hc]
          · simp only [hc, Bool.false_eq_true, if_false, h]
    | _ => exact hok.elim
  marshal := by
    intro f t hok hf
    cases t with
    | list e ts =>
      obtain ⟨hwf, hoks, hn, hemp⟩ := hok
      have hwf' := hwf
      simp only [NBT.WF, two31] at hwf'
      obtain ⟨hlen, hnz, hle, hwfl⟩ := hwf'
      simp only [Cls.array] at hf
      obtain ⟨f', rfl⟩ : ∃ f', f = f' + 2 := ⟨f - 2, by omega⟩
      have hsl : ∀ xs, GoVal.isCarrier (.array c xs) = false := fun _ => rfl
      rw [show (NBT.list e ts).tag = 9 from rfl]
      simp only [Cls.array]
      unfold Go.marshal
      rw [hsl]
      simp only [Bool.false_eq_true, if_false]
      cases ts with
      | nil =>
        have h9 : (9 : BitVec 8).toNat = 9 := rfl
        simp only [List.map_nil, writeValue, h9, resMapM, resFlatten, List.flatten_nil, List.append_nil,
          List.length_nil, encPayload, encList, hemp rfl, beN_eq]
      | cons t0 ts' =>
        have hn0 : k.need t0 ≤ f' := by simp only [needMax] at hf; omega
        have hg0 := hx.getTag f' t0 (hoks t0 (List.mem_cons_self)) hn0
        have ht0 := wfList_mem hwfl t0 (List.mem_cons_self)
        rw [List.map_cons, writeValue_list_array, hg0]
        have hm : resMapM (elemEnc (getTagType cx f') (Go.marshal cx f') t0.tag) ((t0 :: ts').map k.val)
            = Res.ok ((t0 :: ts').map encPayload) := by
          apply resMapM_map_ok
          intro t ht
          have hnt : k.need t ≤ f' := by have := le_needMax (need := k.need) ht; omega
          unfold elemEnc
          simp only [hx.getTag f' t (hoks t ht) hnt, (wfList_mem hwfl t ht).1, ht0.1, ne_eq, not_true_eq_false, if_false]
          have := hx.marshal f' t (hoks t ht) hnt
          rw [(wfList_mem hwfl t ht).1] at this
          exact this
        rw [← List.map_cons, hm]
        simp only [resFlatten, encPayload, ht0.1, beN_eq, List.length_map, encList_eq_flatten]
    | _ => exact hok.elim
  onto := by
    rintro v ⟨xs, rfl, hn, hlen, hcan, htags⟩
    obtain ⟨ts, hts, hoks, htg⟩ := onto_list k hx.onto xs hcan
    have hl : ts.length = xs.length := by rw [← hts, List.length_map]
    cases ts with
    | nil =>
      refine ⟨.list (tagOfType c) [], ⟨?_, (fun _ h => by cases h), by rw [← hn, ← hl], fun _ => rfl⟩, ?_, rfl⟩
      · simp [NBT.WF, NBT.WFList, hstat12]
      · simp only [Cls.array]; rw [← hts]
    | cons t0 ts' =>
      have hsame : ∀ t ∈ t0 :: ts', t.tag = t0.tag := by
        intro t ht
        have h1 : t.tag ∈ (t0 :: ts').map NBT.tag := List.mem_map_of_mem ht
        rw [htg] at h1
        obtain ⟨x, hx1, hx2⟩ := List.mem_map.mp h1
        have h0 : t0.tag ∈ (t0 :: ts').map NBT.tag := List.mem_map_of_mem List.mem_cons_self
        rw [htg] at h0
        obtain ⟨y, hy1, hy2⟩ := List.mem_map.mp h0
        rw [← hx2, ← hy2]
        exact htags x hx1 y hy1
      refine ⟨.list t0.tag (t0 :: ts'), ⟨?_, hoks, by rw [hl]; exact hn, fun h => by cases h⟩, ?_, rfl⟩
      · simp only [NBT.WF, two31]
        refine ⟨by rw [hl, hn]; exact hlen, Or.inr (tag_not_magic t0).1, NBT.tag_le t0, ?_⟩
        exact wfList_of (fun t ht => ⟨hsame t ht, hx.wf t (hoks t ht)⟩)
      · simp only [Cls.array]; rw [hts]

/-! ### interfaces

`Decode` into a nil `any` builds its own dynamic types — `int8`, `int16`, `int32`, `int64`, `float32`, `float64`,
`string`, `[]byte`, `[]int32`, `[]int64`, `[]any`, `map[string]any` —; the values of the class are the interfaces
holding such a value, so the round trip of an `any` holds modulo that canonicalisation. Lists of byte-, int- or
long-sized elements are excluded (`[]any{int8(1)}` is written as a TagByteArray: marker `C02.any-slice-array`),
and so are empty lists with another element tag than End (an empty `[]any` is written with End). -/

/-- the same class with fewer trees -/
def Cls.restrict (k : Cls) (P : NBT → Prop) (Q : GoVal → Prop) : Cls :=
  { k with ok := fun t => k.ok t ∧ P t, canon := fun v => k.canon v ∧ Q v }

theorem exact_restrict {cx : SnbtCarrier} {c : GoType} {k : Cls} (hx : Exact cx c k) (P : NBT → Prop) (Q : GoVal → Prop)
    (hQ : ∀ v t, k.canon v → Q v → k.ok t → k.val t = v → t.tag = k.tagV v → P t) : Exact cx c (k.restrict P Q) where
  zeroTy := hx.zeroTy
  reads := fun d fuel t ht => hx.reads d fuel t ht.1
  getTag := fun f t ht hf => hx.getTag f t ht.1 hf
  marshal := fun f t ht hf => hx.marshal f t ht.1 hf
  needPos := fun t ht => hx.needPos t ht.1
  wf := fun t ht => hx.wf t ht.1
  s15 := fun t ht => hx.s15 t ht.1
  onto := by
    rintro v ⟨hc, hq⟩
    obtain ⟨t, ht, hv, htag⟩ := hx.onto v hc
    exact ⟨t, ⟨ht, hQ v t hc hq ht hv htag⟩, hv, htag⟩

mutual
  /-- trees an `any` gives back byte for byte -/
  def AnyOK : NBT → Prop
    | .list e ts => (ts ≠ [] → arrTag e = 9) ∧ (ts = [] → e = 0) ∧ AnyOKList ts
    | .compound kvs => (kvs.map (·.1)).Nodup ∧ AnyOKKvs kvs
    | _ => True
  def AnyOKList : List NBT → Prop
    | [] => True
    | t :: ts => AnyOK t ∧ AnyOKList ts
  def AnyOKKvs : List (Bytes × NBT) → Prop
    | [] => True
    | (_, v) :: kvs => AnyOK v ∧ AnyOKKvs kvs
end

/-- the dynamic value `Decode` builds for a tree -/
def dynOf (t : NBT) : GoVal := ofAny (goAny t)

/-- the tag a dynamic value is written with -/
def dynTag : GoVal → Byte
  | .int .i8 _ => 1 | .int .i16 _ => 2 | .int .i32 _ => 3 | .int .i64 _ => 4
  | .f32 _ => 5 | .f64 _ => 6 | .str _ => 8
  | .slice (.int .u8) _ _ => 7 | .slice (.int .i32) _ _ => 11 | .slice (.int .i64) _ _ => 12
  | .slice _ _ _ => 9 | .map _ _ _ => 10
  | _ => 0

theorem dynTag_dynOf (t : NBT) : dynTag (dynOf t) = t.tag := by
  cases t <;> rfl

theorem ofAnyList_goAnyList : ∀ ts : List NBT, ofAnyList (goAnyList ts) = ts.map fun t => GoVal.iface (some (dynOf t))
  | [] => rfl
  | t :: ts => by simp only [goAnyList, ofAnyList, List.map_cons, ofAnyList_goAnyList ts, dynOf]

theorem dynOf_list (e : Byte) (ts : List NBT) :
    dynOf (.list e ts) = .slice .iface false (ts.map fun t => GoVal.iface (some (dynOf t))) := by
  simp only [dynOf, goAny, ofAny, ofAnyList_goAnyList]

theorem ofAnyKvs_map : ∀ kvs : List (Bytes × NBT),
    ofAnyKvs (kvs.map fun kv => (kv.1, goAny kv.2)) = kvs.map fun kv => (kv.1, GoVal.iface (some (dynOf kv.2)))
  | [] => rfl
  | (k, v) :: kvs => by simp only [List.map_cons, ofAnyKvs, ofAnyKvs_map kvs, dynOf]

theorem goAnyKvs_nodup : ∀ (kvs : List (Bytes × NBT)) (acc : List (Bytes × GoAny)),
    (kvs.map (·.1)).Nodup → (∀ kv ∈ kvs, ∀ a ∈ acc, a.1 ≠ kv.1) →
    goAnyKvs acc kvs = acc ++ kvs.map fun kv => (kv.1, goAny kv.2)
  | [], acc, _, _ => by simp [goAnyKvs]
  | (k, v) :: kvs, acc, hnd, hdis => by
    simp only [goAnyKvs]
    have hfil : mapSet acc k (goAny v) = acc ++ [(k, goAny v)] := by
      unfold mapSet
      have : acc.filter (fun e => !(e.1 == k)) = acc := by
        apply List.filter_eq_self.mpr
        intro a ha
        have := hdis (k, v) List.mem_cons_self a ha
        simp [this]
      rw [this]
    rw [hfil]
    simp only [List.map_cons, List.nodup_cons] at hnd
    rw [goAnyKvs_nodup kvs _ hnd.2 (by
      intro kv' hkv' a ha
      rcases List.mem_append.mp ha with h | h
      · exact hdis kv' (List.mem_cons_of_mem _ hkv') a h
      · simp only [List.mem_singleton] at h
        subst h
        intro heq
        have heq' : k = kv'.1 := heq
        exact hnd.1 (by rw [heq']; exact List.mem_map_of_mem hkv'))]
    simp

theorem dynOf_compound (kvs : List (Bytes × NBT)) (hnd : (kvs.map (·.1)).Nodup) :
    dynOf (.compound kvs) = .map .iface false (kvs.map fun kv => (kv.1, GoVal.iface (some (dynOf kv.2)))) := by
  simp only [dynOf, goAny, ofAny]
  rw [goAnyKvs_nodup kvs [] hnd (by intro _ _ a ha; cases ha)]
  simp only [List.nil_append, ofAnyKvs_map, dynOf]

mutual
  /-- nesting depth of a tree -/
  def depth : NBT → Nat
    | .list _ ts => depthList ts + 1
    | .compound kvs => depthKvs kvs + 1
    | _ => 1
  def depthList : List NBT → Nat
    | [] => 0
    | t :: ts => max (depth t) (depthList ts)
  def depthKvs : List (Bytes × NBT) → Nat
    | [] => 0
    | (_, v) :: kvs => max (depth v) (depthKvs kvs)
end

theorem depth_le_depthList {t : NBT} : ∀ {ts : List NBT}, t ∈ ts → depth t ≤ depthList ts
  | [], h => by cases h
  | x :: xs, h => by
    simp only [depthList]
    rcases List.mem_cons.mp h with rfl | h'
    · omega
    · have := depth_le_depthList h'; omega

theorem depth_le_depthKvs {kv : Bytes × NBT} : ∀ {kvs : List (Bytes × NBT)}, kv ∈ kvs → depth kv.2 ≤ depthKvs kvs
  | [], h => by cases h
  | (k, v) :: kvs, h => by
    simp only [depthKvs]
    rcases List.mem_cons.mp h with rfl | h'
    · show depth v ≤ _; omega
    · have := depth_le_depthKvs h'; omega

theorem s15List_mem : ∀ {ts : List NBT}, S15List ts → ∀ t ∈ ts, S15 t
  | [], _, _, h => by cases h
  | x :: xs, hs, t, h => by
    rcases List.mem_cons.mp h with rfl | h'
    · exact hs.1
    · exact s15List_mem hs.2 t h'

theorem anyOKList_mem : ∀ {ts : List NBT}, AnyOKList ts → ∀ t ∈ ts, AnyOK t
  | [], _, _, h => by cases h
  | x :: xs, hs, t, h => by
    rcases List.mem_cons.mp h with rfl | h'
    · exact hs.1
    · exact anyOKList_mem hs.2 t h'

theorem s15Kvs_mem : ∀ {kvs : List (Bytes × NBT)}, S15Kvs kvs → ∀ kv ∈ kvs, kv.1.length < 32768 ∧ S15 kv.2
  | [], _, _, h => by cases h
  | (k, v) :: kvs, hs, kv, h => by
    rcases List.mem_cons.mp h with rfl | h'
    · exact ⟨hs.1, hs.2.1⟩
    · exact s15Kvs_mem hs.2.2 kv h'

theorem anyOKKvs_mem : ∀ {kvs : List (Bytes × NBT)}, AnyOKKvs kvs → ∀ kv ∈ kvs, AnyOK kv.2
  | [], _, _, h => by cases h
  | (k, v) :: kvs, hs, kv, h => by
    rcases List.mem_cons.mp h with rfl | h'
    · exact hs.1
    · exact anyOKKvs_mem hs.2 kv h'

/-- `any`, for the trees of cost at most `n` -/
def clsAnyN (n : Nat) : Cls where
  ok := fun t => t.WF ∧ S15 t ∧ AnyOK t ∧ cost t ≤ n
  val := fun t => .iface (some (dynOf t))
  inner := dynOf
  need := fun t => 3 * depth t + 1
  extra := 0
  canon := fun v => ∃ t, (t.WF ∧ S15 t ∧ AnyOK t ∧ cost t ≤ n) ∧ v = .iface (some (dynOf t))
  tagV := fun v => match v with
    | .iface (some x) => dynTag x
    | _ => 0

/-- what the induction over the nesting needs about the value inside the interface -/
def InnerOK (cx : SnbtCarrier) (t : NBT) : Prop :=
  ∀ f, 3 * depth t ≤ f → getTagType cx f (dynOf t) = (t.tag, dynOf t) ∧ Go.marshal cx f (dynOf t) t.tag = Res.ok (encPayload t)

theorem exact_anyN_of (cx : SnbtCarrier) (n : Nat)
    (h : ∀ t, t.WF → S15 t → AnyOK t → cost t ≤ n → InnerOK cx t) : Exact cx .iface (clsAnyN n) where
  zeroTy := rfl
  needPos := fun t _ => by simp [clsAnyN]
  wf := fun t ht => ht.1
  s15 := fun t ht => ht.2.1
  reads := by
    intro d fuel t ⟨hwf, hs, _, _⟩
    cases fuel with
    | zero => unfold unmarshal; exact R_fail (by have := cost_pos t; simp only [clsAnyN]; omega) _ _
    | succ f =>
      unfold unmarshal
      have hz : (GoType.iface).zero = .iface none := rfl
      simp only [umIface, if_neg (tag_not_magic t).1, hz, clsAnyN]
      exact R_map (fun v => GoVal.iface (some (ofAny v))) (R_mono (fun hc => by omega) (any_R t (f + 1) hwf hs))
  getTag := by
    intro f t ⟨hwf, hs, ha, hc⟩ hf
    simp only [clsAnyN] at hf
    obtain ⟨f', rfl⟩ : ∃ f', f = f' + 1 := ⟨f - 1, by omega⟩
    simp only [clsAnyN, getTagType]
    exact (h t hwf hs ha hc f' (by omega)).1
  marshal := by
    intro f t ⟨hwf, hs, ha, hc⟩ hf
    simp only [clsAnyN] at hf
    exact (h t hwf hs ha hc f (by omega)).2
  onto := by
    rintro v ⟨t, ht, rfl⟩
    exact ⟨t, ht, rfl, (dynTag_dynOf t).symm⟩

theorem innerOK_of_elem {cx : SnbtCarrier} {c : GoType} {ok : NBT → Prop} {val : NBT → GoVal} {need : NBT → Nat}
    (hx : ElemExact cx c ok val need) (t : NBT) (hok : ok t) (hv : val t = dynOf t) (hn : need t ≤ 3) (hd : 1 ≤ depth t) :
    InnerOK cx t := by
  intro f hf
  have := hx.getTag f t hok (by omega)
  have h2 := hx.marshal f t hok (by omega)
  rw [hv] at this h2
  exact ⟨this, h2⟩

theorem needMax_le' {need : NBT → Nat} {b : Nat} : ∀ ts : List NBT, (∀ t ∈ ts, need t ≤ b) → needMax need ts ≤ b
  | [], _ => Nat.zero_le _
  | t :: ts, h => by
    have h1 := h t List.mem_cons_self
    have h2 := needMax_le' ts (fun t' ht' => h t' (List.mem_cons_of_mem _ ht'))
    simp only [needMax]; omega

theorem exact_anyN (cx : SnbtCarrier) : ∀ n, Exact cx .iface (clsAnyN n)
  | 0 => exact_anyN_of cx 0 (fun t _ _ _ hc => by have := cost_pos t; omega)
  | n + 1 => by
    have ih := exact_anyN cx n
    apply exact_anyN_of
    intro t hwf hs ha hc
    cases t with
    | byte v => exact innerOK_of_elem (elem_i8 cx) _ ⟨v, rfl⟩ rfl (by omega) (by simp [depth])
    | short v => exact innerOK_of_elem (elem_i16 cx) _ ⟨v, rfl⟩ rfl (by omega) (by simp [depth])
    | int v => exact innerOK_of_elem (elem_i32 cx) _ ⟨v, rfl⟩ rfl (by omega) (by simp [depth])
    | long v => exact innerOK_of_elem (elem_i64 cx) _ ⟨v, rfl⟩ rfl (by omega) (by simp [depth])
    | float v => exact innerOK_of_elem (elem_f32 cx) _ ⟨v, rfl⟩ rfl (by omega) (by simp [depth])
    | double v => exact innerOK_of_elem (elem_f64 cx) _ ⟨v, rfl⟩ rfl (by omega) (by simp [depth])
    | string s => exact innerOK_of_elem (elem_str cx) _ ⟨s, rfl, by simpa [S15] using hs⟩ rfl (by omega) (by simp [depth])
    | byteArray xs =>
      exact innerOK_of_elem (elem_bytes_u8 cx) _ ⟨xs, rfl, by simpa [NBT.WF, two31] using hwf, fun _ _ => trivial⟩ rfl
        (by omega) (by simp [depth])
    | intArray xs =>
      exact innerOK_of_elem (elem_nums_i32 cx) _ ⟨xs, rfl, by simpa [NBT.WF, two31] using hwf⟩ rfl (by omega) (by simp [depth])
    | longArray xs =>
      exact innerOK_of_elem (elem_nums_i64 cx) _ ⟨xs, rfl, by simpa [NBT.WF, two31] using hwf⟩ rfl (by omega) (by simp [depth])
    | list e ts =>
      have hwf' := hwf
      simp only [NBT.WF, two31] at hwf'
      obtain ⟨hlen, hnz, hle, hwfl⟩ := hwf'
      simp only [S15] at hs
      simp only [AnyOK] at ha
      obtain ⟨harr, hemp, hal⟩ := ha
      let kR := (clsAnyN n).restrict (fun t => arrTag t.tag = 9) (fun v => arrTag ((clsAnyN n).tagV v) = 9)
      have hR : Exact cx .iface kR := exact_restrict ih _ _ (fun v t _ hq _ _ htag => by rw [htag]; exact hq)
      have hS := exact_slice hR (fun t ht => Or.inr ht.2) rfl (by decide)
      have hok : (Cls.slice .iface kR).ok (.list e ts) := by
        refine ⟨hwf, fun t ht => ⟨⟨(wfList_mem hwfl t ht).2, s15List_mem hs t ht, anyOKList_mem hal t ht, ?_⟩, ?_⟩, hemp⟩
        · have := cost_le_costList ht
          simp only [cost] at hc; omega
        · show arrTag t.tag = 9
          rw [(wfList_mem hwfl t ht).1]
          exact harr (by intro h; rw [h] at ht; cases ht)
      have hval : (Cls.slice .iface kR).val (.list e ts) = dynOf (.list e ts) := by
        rw [dynOf_list]; rfl
      intro f hf
      have hneed : (Cls.slice .iface kR).need (.list e ts) ≤ f := by
        have := needMax_le' (need := fun t => 3 * depth t + 1) (b := 3 * depthList ts + 1) ts
          (fun t ht => by have := depth_le_depthList ht; omega)
        simp only [depth] at hf
        show needMax (fun t => 3 * depth t + 1) ts + 2 ≤ f
        omega
      have h1 := hS.getTag f _ hok hneed
      have h2 := hS.marshal f _ hok hneed
      have hinner : (Cls.slice .iface kR).inner (.list e ts) = dynOf (.list e ts) := hval
      rw [hval, hinner] at h1
      rw [hinner] at h2
      exact ⟨h1, h2⟩
    | compound kvs =>
      simp only [NBT.WF] at hwf
      simp only [S15] at hs
      simp only [AnyOK] at ha
      obtain ⟨hnd, hak⟩ := ha
      have hM := exact_map (c := .iface) ih
      have hok : (Cls.map .iface (clsAnyN n)).ok (.compound kvs) := by
        refine ⟨fun kv hkv => ⟨(s15Kvs_mem hs kv hkv).1, wfKvs_mem hwf kv hkv, (s15Kvs_mem hs kv hkv).2, anyOKKvs_mem hak kv hkv, ?_⟩, hnd⟩
        have := cost_le_costKvs hkv
        simp only [cost] at hc; omega
      have hval : (Cls.map .iface (clsAnyN n)).val (.compound kvs) = dynOf (.compound kvs) := by
        rw [dynOf_compound kvs hnd]; rfl
      intro f hf
      have hneed : (Cls.map .iface (clsAnyN n)).need (.compound kvs) ≤ f := by
        have := needMax_le' (need := fun t => 3 * depth t + 1) (b := 3 * depthKvs kvs + 1) (kvs.map (·.2))
          (fun t ht => by
            obtain ⟨kv, hkv, rfl⟩ := List.mem_map.mp ht
            have := depth_le_depthKvs hkv; omega)
        simp only [depth] at hf
        show needMax (fun t => 3 * depth t + 1) (kvs.map (·.2)) + 2 ≤ f
        omega
      have h1 := hM.getTag f _ hok hneed
      have h2 := hM.marshal f _ hok hneed
      have hinner : (Cls.map .iface (clsAnyN n)).inner (.compound kvs) = dynOf (.compound kvs) := hval
      rw [hval, hinner] at h1
      rw [hinner] at h2
      exact ⟨h1, h2⟩

/-- `any`: the interfaces holding what `Decode` builds -/
def clsAny : Cls where
  ok := fun t => t.WF ∧ S15 t ∧ AnyOK t
  val := fun t => .iface (some (dynOf t))
  inner := dynOf
  need := fun t => 3 * depth t + 1
  extra := 0
  canon := fun v => ∃ t, (t.WF ∧ S15 t ∧ AnyOK t) ∧ v = .iface (some (dynOf t))
  tagV := fun v => match v with
    | .iface (some x) => dynTag x
    | _ => 0

theorem exact_any (cx : SnbtCarrier) : Exact cx .iface clsAny where
  zeroTy := rfl
  needPos := fun t _ => by simp [clsAny]
  wf := fun t ht => ht.1
  s15 := fun t ht => ht.2.1
  reads := fun d fuel t ht => (exact_anyN cx (cost t)).reads d fuel t ⟨ht.1, ht.2.1, ht.2.2, Nat.le_refl _⟩
  getTag := fun f t ht hf => (exact_anyN cx (cost t)).getTag f t ⟨ht.1, ht.2.1, ht.2.2, Nat.le_refl _⟩ hf
  marshal := fun f t ht hf => (exact_anyN cx (cost t)).marshal f t ⟨ht.1, ht.2.1, ht.2.2, Nat.le_refl _⟩ hf
  onto := by
    rintro v ⟨t, ht, rfl⟩
    exact ⟨t, ht, rfl, (dynTag_dynOf t).symm⟩

/-- `[]any`: an element that is byte-, int- or long-sized would make a typed array of it (`C02.any-slice-array`) -/
def clsAnyL : Cls := clsAny.restrict (fun t => arrTag t.tag = 9) (fun v => arrTag (clsAny.tagV v) = 9)

theorem exact_anyL (cx : SnbtCarrier) : Exact cx .iface clsAnyL :=
  exact_restrict (exact_any cx) _ _ (fun v t _ hq _ _ htag => by rw [htag]; exact hq)

theorem encFuelList_ge {x : GoVal} : ∀ {xs : List GoVal}, x ∈ xs → x.encFuel ≤ GoVal.encFuelList xs
  | [], h => by cases h
  | y :: ys, h => by
    simp only [GoVal.encFuelList]
    rcases List.mem_cons.mp h with rfl | h'
    · omega
    · have := encFuelList_ge h'; omega

theorem encFuelKvs_ge {kv : Bytes × GoVal} : ∀ {kvs : List (Bytes × GoVal)}, kv ∈ kvs → kv.2.encFuel ≤ GoVal.encFuelKvs kvs
  | [], h => by cases h
  | (k, y) :: ys, h => by
    simp only [GoVal.encFuelKvs]
    rcases List.mem_cons.mp h with rfl | h'
    · show y.encFuel ≤ _; omega
    · have := encFuelKvs_ge h'; omega

mutual
  /-- the fuel `Encode` takes covers the nesting of a dynamic value -/
  theorem depth_encFuel : ∀ t : NBT, AnyOK t → 3 * depth t ≤ 2 * (dynOf t).encFuel
    | .list e ts, h => by
      have := depthList_encFuel ts h.2.2
      rw [dynOf_list]
      simp only [depth, GoVal.encFuel]; omega
    | .compound kvs, h => by
      have := depthKvs_encFuel kvs h.2
      rw [dynOf_compound kvs h.1]
      simp only [depth, GoVal.encFuel]; omega
    | .byte _, _ | .short _, _ | .int _, _ | .long _, _ | .float _, _ | .double _, _ | .string _, _ => by
      simp [depth, dynOf, goAny, ofAny, GoVal.encFuel]
    | .byteArray _, _ | .intArray _, _ | .longArray _, _ => by
      simp only [depth, dynOf, goAny, ofAny, GoVal.encFuel]; omega
  theorem depthList_encFuel : ∀ ts : List NBT, AnyOKList ts →
      3 * depthList ts ≤ 2 * GoVal.encFuelList (ts.map fun t => GoVal.iface (some (dynOf t)))
    | [], _ => by simp [depthList]
    | t :: ts, h => by
      have h1 := depth_encFuel t h.1
      have h2 := depthList_encFuel ts h.2
      simp only [depthList, List.map_cons, GoVal.encFuelList, GoVal.encFuel]; omega
  theorem depthKvs_encFuel : ∀ kvs : List (Bytes × NBT), AnyOKKvs kvs →
      3 * depthKvs kvs ≤ 2 * GoVal.encFuelKvs (kvs.map fun kv => (kv.1, GoVal.iface (some (dynOf kv.2))))
    | [], _ => by simp [depthKvs]
    | (k, v) :: kvs, h => by
      have h1 := depth_encFuel v h.1
      have h2 := depthKvs_encFuel kvs h.2
      simp only [depthKvs, List.map_cons, GoVal.encFuelKvs, GoVal.encFuel]; omega
end

/-! ### the fragment of the type universe -/

/-- the type behind pointers -/
def stripPtrs : GoType → GoType
  | .ptr c => stripPtrs c
  | c => c

/-- the `,list` fields: typed-array slices, written and read as a TagList of their elements -/
inductive ListField : GoType → Cls → Prop
  | i8 : ListField (.slice (.int .i8)) (Cls.slice (.int .i8) clsI8)
  | u8 : ListField (.slice (.int .u8)) (Cls.slice (.int .u8) clsU8)
  | bool : ListField (.slice .bool) (Cls.slice .bool clsBool)
  | i32 : ListField (.slice (.int .i32)) (Cls.slice (.int .i32) clsI32)
  | u32 : ListField (.slice (.int .u32)) (Cls.slice (.int .u32) clsU32)
  | i64 : ListField (.slice (.int .i64)) (Cls.slice (.int .i64) clsI64)
  | u64 : ListField (.slice (.int .u64)) (Cls.slice (.int .u64) clsU64)

/-- `Plain τ k`: `τ` is a type of the fragment and `k` its class — fixed-size scalars, strings, the typed arrays
(slices and `[n]T`), `nbt.RawMessage`, `dynbt.Value`, `any`, and — nested to any depth — slices, arrays, string-keyed
maps, pointers, and struct types (field tables with tags, `omitempty`, embedded structs by value) of these. -/
inductive Plain : GoType → Cls → Prop
  | bool : Plain (.bool) clsBool
  | i8 : Plain (.int .i8) clsI8
  | u8 : Plain (.int .u8) clsU8
  | i16 : Plain (.int .i16) clsI16
  | u16 : Plain (.int .u16) clsU16
  | i32 : Plain (.int .i32) clsI32
  | u32 : Plain (.int .u32) clsU32
  | i64 : Plain (.int .i64) clsI64
  | u64 : Plain (.int .u64) clsU64
  | f32 : Plain (.f32) clsF32
  | f64 : Plain (.f64) clsF64
  | str : Plain (.str) clsStr
  | bytes_i8 : Plain (.slice (.int .i8)) clsBytesI8
  | bytes_u8 : Plain (.slice (.int .u8)) clsBytesU8
  | bytes_bool : Plain (.slice .bool) clsBytesBool
  | nums_i32 : Plain (.slice (.int .i32)) clsNumsI32
  | nums_u32 : Plain (.slice (.int .u32)) clsNumsU32
  | nums_i64 : Plain (.slice (.int .i64)) clsNumsI64
  | nums_u64 : Plain (.slice (.int .u64)) clsNumsU64
  | raw : Plain (.raw) clsRaw
  | dyn : Plain (.dyn) clsDyn
  | arr_bytes_i8 (n : Nat) : Plain (.array n (.int .i8)) (clsArrBytesI8 n)
  | arr_bytes_u8 (n : Nat) : Plain (.array n (.int .u8)) (clsArrBytesU8 n)
  | arr_bytes_bool (n : Nat) : Plain (.array n (.bool)) (clsArrBytesBool n)
  | arr_nums_i32 (n : Nat) : Plain (.array n (.int .i32)) (clsArrNumsI32 n)
  | arr_nums_u32 (n : Nat) : Plain (.array n (.int .u32)) (clsArrNumsU32 n)
  | arr_nums_i64 (n : Nat) : Plain (.array n (.int .i64)) (clsArrNumsI64 n)
  | arr_nums_u64 (n : Nat) : Plain (.array n (.int .u64)) (clsArrNumsU64 n)
  /-- `any`: the interfaces holding the dynamic types `Decode` builds -/
  | any : Plain .iface clsAny
  | slice_any : Plain (.slice .iface) (Cls.slice .iface clsAnyL)
  | array_any (n : Nat) : Plain (.array n .iface) (Cls.array n .iface clsAnyL)
  /-- `[]c` written as a TagList: every `c` but the elements of the typed arrays (also behind pointers) -/
  | slice {c k} : Plain c k → stripPtrs c ≠ .iface → arrTag (tagOfType c) = 9 → arrTag (tagOfType (stripPtrs c)) = 9 →
      Plain (.slice c) (Cls.slice c k)
  | array {c k} (n : Nat) : Plain c k → stripPtrs c ≠ .iface → arrTag (tagOfType c) = 9 → arrTag (tagOfType (stripPtrs c)) = 9 →
      Plain (.array n c) (Cls.array n c k)
  | map {c k} : Plain c k → Plain (.map c) (Cls.map c k)
  | ptr {c k} : Plain c k → Plain (.ptr c) (Cls.ptr c k)
  /-- a struct type with the field table `sps` (what the model `typeFields` computes for it: `Table`; `Sound`: the
  index paths lead to the fields, through embedded structs by value; both are facts about a concrete type that
  evaluation discharges) and field types of the fragment -/
  | struct (n : Bytes) (fields : List (FieldInfo × GoType)) (sps : List FSpec) :
      Table (lookupField (typeFields (.struct n fields))) 0 (typeFields (.struct n fields)) sps →
      Sound (GoType.struct n fields).zero sps →
      (∀ sp ∈ sps, sp.ty.encFuel + 3 ≤ (GoType.struct n fields).encFuel) →
      (∀ sp ∈ sps, sp.asList = true → ListField sp.ty sp.cls) →
      (∀ sp ∈ sps, sp.asList = false → Plain sp.ty sp.cls) →
      Plain (.struct n fields) (Cls.struct n fields sps)

theorem tagOfType_le (c : GoType) : (tagOfType c).toNat ≤ 12 := by
  cases c with
  | int k => cases k <;> simp [tagOfType]
  | _ => simp [tagOfType]

theorem extraMax_le {b : Nat} : ∀ sps : List FSpec, (∀ sp ∈ sps, sp.cls.extra ≤ b) → extraMax sps ≤ b
  | [], _ => Nat.zero_le _
  | sp :: sps, h => by
    have h1 := h sp List.mem_cons_self
    have h2 := extraMax_le sps (fun sp' h' => h sp' (List.mem_cons_of_mem _ h'))
    simp only [extraMax]; omega

theorem getAt_encFuel : ∀ (p : List Nat) (S x : GoVal), getAt p S = some x → p ≠ [] → x.encFuel + 4 ≤ S.encFuel
  | [], _, _, _, h => absurd rfl h
  | i :: is, S, x, hg, _ => by
    cases S with
    | struct n fields fs =>
      simp only [getAt] at hg
      cases hfs : fs[i]? with
      | none => simp [hfs] at hg
      | some fv =>
        simp only [hfs, Option.bind_some] at hg
        have hmem : fv ∈ fs := List.mem_of_getElem? hfs
        have h1 := encFuelList_ge hmem
        simp only [GoVal.encFuel]
        cases is with
        | nil =>
          simp only [getAt, Option.some.injEq] at hg
          subst hg; omega
        | cons j js =>
          have := getAt_encFuel (j :: js) fv x hg (by simp)
          omega
    | _ => simp [getAt] at hg

theorem needFields_le_get (Sf : GoVal) : ∀ (sps : List FSpec) (kvs : List (Bytes × NBT)), okFields sps kvs →
    GetAll Sf sps kvs → (∀ sp ∈ sps, sp.path ≠ []) →
    (∀ sp ∈ sps, ∀ t, sp.cls.ok t → sp.cls.need t ≤ 2 * (sp.cls.val t).encFuel + 8) → needFields sps kvs ≤ 2 * Sf.encFuel
  | [], _, _, _, _, _ => Nat.zero_le _
  | sp :: sps, [], h, hg, hp, hb => by
    simp only [needFields]
    exact needFields_le_get Sf sps [] h.2 hg.2 (fun sp' h' => hp sp' (List.mem_cons_of_mem _ h'))
      (fun sp' h' => hb sp' (List.mem_cons_of_mem _ h'))
  | sp :: sps, (k, t) :: kvs, h, hg, hp, hb => by
    simp only [okFields] at h
    simp only [GetAll] at hg
    simp only [needFields]
    by_cases hk : k = sp.name
    · simp only [hk, if_true] at h hg ⊢
      have h1 := hb sp List.mem_cons_self t h.1
      have h2 := needFields_le_get Sf sps kvs h.2.2 hg.2 (fun sp' h' => hp sp' (List.mem_cons_of_mem _ h'))
        (fun sp' h' => hb sp' (List.mem_cons_of_mem _ h'))
      have h3 := getAt_encFuel _ _ _ hg.1 (hp sp List.mem_cons_self)
      omega
    · simp only [hk, if_false] at h hg ⊢
      exact needFields_le_get Sf sps _ h.2 hg.2 (fun sp' h' => hp sp' (List.mem_cons_of_mem _ h'))
        (fun sp' h' => hb sp' (List.mem_cons_of_mem _ h'))

/-- what the induction carries for a type of the fragment -/
structure PlainInv (cx : SnbtCarrier) (c : GoType) (k : Cls) : Prop where
  exact : Exact cx c k
  tags : stripPtrs c ≠ .iface → ∀ t, k.ok t → (k.inner t).isCarrier = true ∨ arrTag t.tag = arrTag (tagOfType (stripPtrs c))
  need : ∀ t, k.ok t → k.need t ≤ 2 * (k.val t).encFuel + 8
  extra : k.extra ≤ c.encFuel

theorem inv_slice {cx : SnbtCarrier} {c : GoType} {k : Cls} (hx : Exact cx c k)
    (hseq : ∀ t, k.ok t → (k.inner t).isCarrier = true ∨ arrTag t.tag = 9) (hstat : arrTag (tagOfType c) = 9)
    (hneed : ∀ t, k.ok t → k.need t ≤ 2 * (k.val t).encFuel + 8) (hextra : k.extra ≤ c.encFuel) :
    PlainInv cx (.slice c) (Cls.slice c k) := by
  refine ⟨exact_slice hx hseq hstat (tagOfType_le c), ?_, ?_, Nat.le_trans hextra (by simp [GoType.encFuel])⟩
  · intro _ t ht
    cases t with
    | list e ts => exact Or.inr rfl
    | _ => exact ht.elim
  · intro t ht
    cases t with
    | list e ts =>
      have := needMax_le' (need := k.need) (b := 2 * GoVal.encFuelList (ts.map k.val) + 8) ts (fun t' ht' => by
        have h1 := hneed t' (ht.2.1 t' ht')
        have h2 := encFuelList_ge (List.mem_map_of_mem (f := k.val) ht')
        omega)
      simp only [Cls.slice, GoVal.encFuel]; omega
    | _ => exact ht.elim

theorem inv_array {cx : SnbtCarrier} {c : GoType} {k : Cls} (n : Nat) (hx : Exact cx c k)
    (hseq : ∀ t, k.ok t → (k.inner t).isCarrier = true ∨ arrTag t.tag = 9) (hstat : arrTag (tagOfType c) = 9)
    (hneed : ∀ t, k.ok t → k.need t ≤ 2 * (k.val t).encFuel + 8) (hextra : k.extra ≤ c.encFuel) :
    PlainInv cx (.array n c) (Cls.array n c k) := by
  refine ⟨exact_array n hx hseq hstat (tagOfType_le c), ?_, ?_, Nat.le_trans hextra (by simp [GoType.encFuel])⟩
  · intro _ t ht
    cases t with
    | list e ts => exact Or.inr rfl
    | _ => exact ht.elim
  · intro t ht
    cases t with
    | list e ts =>
      have := needMax_le' (need := k.need) (b := 2 * GoVal.encFuelList (ts.map k.val) + 8) ts (fun t' ht' => by
        have h1 := hneed t' (ht.2.1 t' ht')
        have h2 := encFuelList_ge (List.mem_map_of_mem (f := k.val) ht')
        omega)
      simp only [Cls.array, GoVal.encFuel]; omega
    | _ => exact ht.elim

theorem any_need (t : NBT) (ht : clsAny.ok t) : clsAny.need t ≤ 2 * (clsAny.val t).encFuel + 8 := by
  have := depth_encFuel t ht.2.2
  simp only [clsAny, GoVal.encFuel]; omega

theorem listField_inv (cx : SnbtCarrier) {c : GoType} {k : Cls} (h : ListField c k) :
    FExact cx c true k ∧ (∀ t, k.ok t → k.need t ≤ 2 * (k.val t).encFuel + 8) ∧ k.extra ≤ c.encFuel := by
  have hneed : ∀ (e : GoType) (ke : Cls), (∀ t, ke.ok t → ke.need t ≤ 2) →
      ∀ t, (Cls.slice e ke).ok t → (Cls.slice e ke).need t ≤ 2 * ((Cls.slice e ke).val t).encFuel + 8 := by
    intro e ke hk t ht
    cases t with
    | list el ts =>
      have := needMax_le' (need := ke.need) (b := 2) ts (fun t' ht' => hk t' (ht.2.1 t' ht'))
      simp only [Cls.slice, GoVal.encFuel]; omega
    | _ => exact ht.elim
  cases h with
  | i8 => exact ⟨fexact_listSlice (exact_i8 cx) (by rintro _ ⟨v, rfl⟩; exact ⟨rfl, Or.inl rfl⟩) (Or.inl rfl) (by decide) rfl,
      hneed _ _ (fun _ _ => Nat.le_refl 2), by simp [Cls.slice, clsI8, Cls.base]⟩
  | u8 => exact ⟨fexact_listSlice (exact_u8 cx) (by rintro _ ⟨v, rfl⟩; exact ⟨rfl, Or.inl rfl⟩) (Or.inl rfl) (by decide) rfl,
      hneed _ _ (fun _ _ => Nat.le_refl 2), by simp [Cls.slice, clsU8, Cls.base]⟩
  | bool => exact ⟨fexact_listSlice (exact_bool cx) (by rintro _ (rfl | rfl) <;> exact ⟨rfl, Or.inl rfl⟩) (Or.inl rfl) (by decide) rfl,
      hneed _ _ (fun _ _ => Nat.le_refl 2), by simp [Cls.slice, clsBool, Cls.base]⟩
  | i32 => exact ⟨fexact_listSlice (exact_i32 cx) (by rintro _ ⟨v, rfl⟩; exact ⟨rfl, Or.inr (Or.inl rfl)⟩) (Or.inr (Or.inl rfl)) (by decide) rfl,
      hneed _ _ (fun _ _ => Nat.le_refl 2), by simp [Cls.slice, clsI32, Cls.base]⟩
  | u32 => exact ⟨fexact_listSlice (exact_u32 cx) (by rintro _ ⟨v, rfl⟩; exact ⟨rfl, Or.inr (Or.inl rfl)⟩) (Or.inr (Or.inl rfl)) (by decide) rfl,
      hneed _ _ (fun _ _ => Nat.le_refl 2), by simp [Cls.slice, clsU32, Cls.base]⟩
  | i64 => exact ⟨fexact_listSlice (exact_i64 cx) (by rintro _ ⟨v, rfl⟩; exact ⟨rfl, Or.inr (Or.inr rfl)⟩) (Or.inr (Or.inr rfl)) (by decide) rfl,
      hneed _ _ (fun _ _ => Nat.le_refl 2), by simp [Cls.slice, clsI64, Cls.base]⟩
  | u64 => exact ⟨fexact_listSlice (exact_u64 cx) (by rintro _ ⟨v, rfl⟩; exact ⟨rfl, Or.inr (Or.inr rfl)⟩) (Or.inr (Or.inr rfl)) (by decide) rfl,
      hneed _ _ (fun _ _ => Nat.le_refl 2), by simp [Cls.slice, clsU64, Cls.base]⟩

theorem plain_inv (cx : SnbtCarrier) {c : GoType} {k : Cls} (h : Plain c k) : PlainInv cx c k := by
  induction h with
  | bool => exact ⟨exact_bool cx, fun _ => by rintro _ (rfl | rfl) <;> exact Or.inr rfl,
      (by rintro _ (rfl | rfl) <;> simp [clsBool, Cls.base, valBool, GoVal.encFuel] <;> omega), by simp [clsBool, Cls.base]⟩
  | i8 => exact ⟨exact_i8 cx, fun _ => by rintro _ ⟨v, rfl⟩ <;> exact Or.inr rfl,
      (by rintro _ ⟨v, rfl⟩ <;> simp [clsI8, Cls.base, valI8, GoVal.encFuel] <;> omega), by simp [clsI8, Cls.base]⟩
  | u8 => exact ⟨exact_u8 cx, fun _ => by rintro _ ⟨v, rfl⟩ <;> exact Or.inr rfl,
      (by rintro _ ⟨v, rfl⟩ <;> simp [clsU8, Cls.base, valU8, GoVal.encFuel] <;> omega), by simp [clsU8, Cls.base]⟩
  | i16 => exact ⟨exact_i16 cx, fun _ => by rintro _ ⟨v, rfl⟩ <;> exact Or.inr rfl,
      (by rintro _ ⟨v, rfl⟩ <;> simp [clsI16, Cls.base, valI16, GoVal.encFuel] <;> omega), by simp [clsI16, Cls.base]⟩
  | u16 => exact ⟨exact_u16 cx, fun _ => by rintro _ ⟨v, rfl⟩ <;> exact Or.inr rfl,
      (by rintro _ ⟨v, rfl⟩ <;> simp [clsU16, Cls.base, valU16, GoVal.encFuel] <;> omega), by simp [clsU16, Cls.base]⟩
  | i32 => exact ⟨exact_i32 cx, fun _ => by rintro _ ⟨v, rfl⟩ <;> exact Or.inr rfl,
      (by rintro _ ⟨v, rfl⟩ <;> simp [clsI32, Cls.base, valI32, GoVal.encFuel] <;> omega), by simp [clsI32, Cls.base]⟩
  | u32 => exact ⟨exact_u32 cx, fun _ => by rintro _ ⟨v, rfl⟩ <;> exact Or.inr rfl,
      (by rintro _ ⟨v, rfl⟩ <;> simp [clsU32, Cls.base, valU32, GoVal.encFuel] <;> omega), by simp [clsU32, Cls.base]⟩
  | i64 => exact ⟨exact_i64 cx, fun _ => by rintro _ ⟨v, rfl⟩ <;> exact Or.inr rfl,
      (by rintro _ ⟨v, rfl⟩ <;> simp [clsI64, Cls.base, valI64, GoVal.encFuel] <;> omega), by simp [clsI64, Cls.base]⟩
  | u64 => exact ⟨exact_u64 cx, fun _ => by rintro _ ⟨v, rfl⟩ <;> exact Or.inr rfl,
      (by rintro _ ⟨v, rfl⟩ <;> simp [clsU64, Cls.base, valU64, GoVal.encFuel] <;> omega), by simp [clsU64, Cls.base]⟩
  | f32 => exact ⟨exact_f32 cx, fun _ => by rintro _ ⟨v, rfl⟩ <;> exact Or.inr rfl,
      (by rintro _ ⟨v, rfl⟩ <;> simp [clsF32, Cls.base, valF32, GoVal.encFuel] <;> omega), by simp [clsF32, Cls.base]⟩
  | f64 => exact ⟨exact_f64 cx, fun _ => by rintro _ ⟨v, rfl⟩ <;> exact Or.inr rfl,
      (by rintro _ ⟨v, rfl⟩ <;> simp [clsF64, Cls.base, valF64, GoVal.encFuel] <;> omega), by simp [clsF64, Cls.base]⟩
  | str => exact ⟨exact_str cx, fun _ => by rintro _ ⟨s, rfl, hs⟩ <;> exact Or.inr rfl,
      (by rintro _ ⟨s, rfl, hs⟩ <;> simp [clsStr, Cls.base, valStr, GoVal.encFuel] <;> omega), by simp [clsStr, Cls.base]⟩
  | bytes_i8 => exact ⟨exact_bytes_i8 cx, fun _ => by rintro _ ⟨xs, rfl, hl⟩ <;> exact Or.inr rfl,
      (by rintro _ ⟨xs, rfl, hl⟩ <;> simp [clsBytesI8, Cls.base, valBytesI8, GoVal.encFuel] <;> omega), by simp [clsBytesI8, Cls.base]⟩
  | bytes_u8 => exact ⟨exact_bytes_u8 cx, fun _ => by rintro _ ⟨xs, rfl, hl⟩ <;> exact Or.inr rfl,
      (by rintro _ ⟨xs, rfl, hl⟩ <;> simp [clsBytesU8, Cls.base, valBytesU8, GoVal.encFuel] <;> omega), by simp [clsBytesU8, Cls.base]⟩
  | bytes_bool => exact ⟨exact_bytes_bool cx, fun _ => by rintro _ ⟨xs, rfl, hl⟩ <;> exact Or.inr rfl,
      (by rintro _ ⟨xs, rfl, hl⟩ <;> simp [clsBytesBool, Cls.base, valBytesBool, GoVal.encFuel] <;> omega), by simp [clsBytesBool, Cls.base]⟩
  | nums_i32 => exact ⟨exact_nums_i32 cx, fun _ => by rintro _ ⟨xs, rfl, hl⟩ <;> exact Or.inr rfl,
      (by rintro _ ⟨xs, rfl, hl⟩ <;> simp [clsNumsI32, Cls.base, valNumsI32, GoVal.encFuel] <;> omega), by simp [clsNumsI32, Cls.base]⟩
  | nums_u32 => exact ⟨exact_nums_u32 cx, fun _ => by rintro _ ⟨xs, rfl, hl⟩ <;> exact Or.inr rfl,
      (by rintro _ ⟨xs, rfl, hl⟩ <;> simp [clsNumsU32, Cls.base, valNumsU32, GoVal.encFuel] <;> omega), by simp [clsNumsU32, Cls.base]⟩
  | nums_i64 => exact ⟨exact_nums_i64 cx, fun _ => by rintro _ ⟨xs, rfl, hl⟩ <;> exact Or.inr rfl,
      (by rintro _ ⟨xs, rfl, hl⟩ <;> simp [clsNumsI64, Cls.base, valNumsI64, GoVal.encFuel] <;> omega), by simp [clsNumsI64, Cls.base]⟩
  | nums_u64 => exact ⟨exact_nums_u64 cx, fun _ => by rintro _ ⟨xs, rfl, hl⟩ <;> exact Or.inr rfl,
      (by rintro _ ⟨xs, rfl, hl⟩ <;> simp [clsNumsU64, Cls.base, valNumsU64, GoVal.encFuel] <;> omega), by simp [clsNumsU64, Cls.base]⟩
  | raw => exact ⟨exact_raw cx, fun _ _ _ => Or.inl rfl,
      (fun _ _ => by simp [clsRaw, Cls.base, valRaw, GoVal.encFuel]), by simp [clsRaw, Cls.base]⟩
  | dyn => exact ⟨exact_dyn cx, fun _ _ _ => Or.inl rfl,
      (fun _ _ => by simp [clsDyn, Cls.base, valDyn, GoVal.encFuel]), by simp [clsDyn, Cls.base]⟩
  | arr_bytes_i8 n => exact ⟨exact_arr_bytes_i8 cx n, fun _ => by rintro _ ⟨xs, rfl, hl⟩; exact Or.inr rfl,
      (by rintro _ ⟨xs, rfl, hl⟩; simp [clsArrBytesI8, Cls.base, valArrBytesI8, GoVal.encFuel] <;> omega), by simp [clsArrBytesI8, Cls.base]⟩
  | arr_bytes_u8 n => exact ⟨exact_arr_bytes_u8 cx n, fun _ => by rintro _ ⟨xs, rfl, hl⟩; exact Or.inr rfl,
      (by rintro _ ⟨xs, rfl, hl⟩; simp [clsArrBytesU8, Cls.base, valArrBytesU8, GoVal.encFuel] <;> omega), by simp [clsArrBytesU8, Cls.base]⟩
  | arr_bytes_bool n => exact ⟨exact_arr_bytes_bool cx n, fun _ => by rintro _ ⟨xs, rfl, hl⟩; exact Or.inr rfl,
      (by rintro _ ⟨xs, rfl, hl⟩; simp [clsArrBytesBool, Cls.base, valArrBytesBool, GoVal.encFuel] <;> omega), by simp [clsArrBytesBool, Cls.base]⟩
  | arr_nums_i32 n => exact ⟨exact_arr_nums_i32 cx n, fun _ => by rintro _ ⟨xs, rfl, hl⟩; exact Or.inr rfl,
      (by rintro _ ⟨xs, rfl, hl⟩; simp [clsArrNumsI32, Cls.base, valArrNumsI32, GoVal.encFuel] <;> omega), by simp [clsArrNumsI32, Cls.base]⟩
  | arr_nums_u32 n => exact ⟨exact_arr_nums_u32 cx n, fun _ => by rintro _ ⟨xs, rfl, hl⟩; exact Or.inr rfl,
      (by rintro _ ⟨xs, rfl, hl⟩; simp [clsArrNumsU32, Cls.base, valArrNumsU32, GoVal.encFuel] <;> omega), by simp [clsArrNumsU32, Cls.base]⟩
  | arr_nums_i64 n => exact ⟨exact_arr_nums_i64 cx n, fun _ => by rintro _ ⟨xs, rfl, hl⟩; exact Or.inr rfl,
      (by rintro _ ⟨xs, rfl, hl⟩; simp [clsArrNumsI64, Cls.base, valArrNumsI64, GoVal.encFuel] <;> omega), by simp [clsArrNumsI64, Cls.base]⟩
  | arr_nums_u64 n => exact ⟨exact_arr_nums_u64 cx n, fun _ => by rintro _ ⟨xs, rfl, hl⟩; exact Or.inr rfl,
      (by rintro _ ⟨xs, rfl, hl⟩; simp [clsArrNumsU64, Cls.base, valArrNumsU64, GoVal.encFuel] <;> omega), by simp [clsArrNumsU64, Cls.base]⟩
  | any => exact ⟨exact_any cx, fun h => absurd rfl h, any_need, by simp [clsAny]⟩
  | slice_any => exact inv_slice (exact_anyL cx) (fun t ht => Or.inr ht.2) rfl (fun t ht => any_need t ht.1) (by simp [clsAnyL, Cls.restrict, clsAny])
  | array_any n => exact inv_array n (exact_anyL cx) (fun t ht => Or.inr ht.2) rfl (fun t ht => any_need t ht.1) (by simp [clsAnyL, Cls.restrict, clsAny])
  | @slice c k _ hni hstat hdyn ih =>
    exact inv_slice ih.exact (fun t ht => (ih.tags hni t ht).imp id (fun h => h.trans hdyn)) hstat ih.need ih.extra
  | @array c k n _ hni hstat hdyn ih =>
    exact inv_array n ih.exact (fun t ht => (ih.tags hni t ht).imp id (fun h => h.trans hdyn)) hstat ih.need ih.extra
  | @map c k _ ih =>
    refine ⟨exact_map ih.exact, ?_, ?_, Nat.le_trans ih.extra (by simp [GoType.encFuel])⟩
    · intro _ t ht
      cases t with
      | compound kvs => exact Or.inr rfl
      | _ => exact ht.elim
    · intro t ht
      cases t with
      | compound kvs =>
        have := needMax_le' (need := k.need) (b := 2 * GoVal.encFuelKvs (kvs.map fun kv => (kv.1, k.val kv.2)) + 8)
          (kvs.map (·.2)) (fun t' ht' => by
            obtain ⟨kv, hkv, rfl⟩ := List.mem_map.mp ht'
            have h1 := ih.need kv.2 (ht.1 kv hkv).2
            have h2 := encFuelKvs_ge (List.mem_map_of_mem (f := fun kv => (kv.1, k.val kv.2)) hkv)
            simp only at h2
            omega)
        simp only [Cls.map, GoVal.encFuel]; omega
      | _ => exact ht.elim
  | @ptr c k _ ih =>
    refine ⟨exact_ptr ih.exact, ?_, ?_, ?_⟩
    · intro hni t ht; simpa [Cls.ptr, stripPtrs] using ih.tags (by simpa [stripPtrs] using hni) t ht
    · intro t ht
      have := ih.need t ht
      simp only [Cls.ptr, GoVal.encFuel]; omega
    · have := ih.extra
      simp only [Cls.ptr, GoType.encFuel]; omega
  | struct n fields sps htab hs hfuel hlist _ ih =>
    -- per field: what the struct lemmas need, the fuel bound, the pointer bound
    have hper : ∀ sp ∈ sps, FExact cx sp.ty sp.asList sp.cls ∧
        (∀ t, sp.cls.ok t → sp.cls.need t ≤ 2 * (sp.cls.val t).encFuel + 8) ∧ sp.cls.extra ≤ sp.ty.encFuel := by
      intro sp hsp
      cases hal : sp.asList with
      | true => exact listField_inv cx (hlist sp hsp hal)
      | false =>
        have hinv := ih sp hsp hal
        exact ⟨FExact.ofExact hinv.exact, hinv.need, hinv.extra⟩
    refine ⟨exact_struct cx n fields sps htab hs (fun sp h => (hper sp h).1), ?_, ?_, ?_⟩
    · intro _ t ht
      cases t with
      | compound kvs => exact Or.inr rfl
      | _ => exact ht.elim
    · intro t ht
      cases t with
      | compound kvs =>
        have hget := getAll_fill sps kvs _ hs _ rfl
        have := needFields_le_get _ sps kvs ht hget hs.nonempty (fun sp h => (hper sp h).2.1)
        simp only [Cls.struct]; omega
      | _ => exact ht.elim
    · exact extraMax_le sps (fun sp h => by
        have h1 := (hper sp h).2.2
        have h2 := hfuel sp h
        omega)

/-! ### whole documents -/

/-- `Decode(&v)` of a whole document into a fresh variable, given what `unmarshal` does on the payload at every
fuel and that the side condition holds once the fuel exceeds the payload length and the nesting of the type -/
theorem decodeTyped_of_R' (cx : SnbtCarrier) (d : Bool) (fmt : Format) (name : Bytes) (tree : NBT) (ty : GoType) (v : GoVal)
    (C : Nat → Prop) (hname : name.length < 32768)
    (h : ∀ f, R (C f) (unmarshal cx d (f + 1) ty ty.zero tree.tag) (encPayload tree) v)
    (hC : ∀ f, (encPayload tree).length + 3 + ty.encFuel ≤ f → C f)
    (s : Stream) (rest : Bytes) (hs : s.flat = encDoc fmt name tree ++ rest) :
    ∃ s', decodeTyped cx (isNet fmt) d ty s = (Res.ok (v, docName fmt name), s') ∧ s'.flat = rest ∧
      s'.failing = s.failing := by
  have hlen : (encPayload tree).length + 1 ≤ s.flat.length := by
    rw [hs]
    cases fmt <;> simp only [encDoc, List.length_append, List.length_cons] <;> omega
  have hge : fuelFor s + ty.encFuel ≤ typedFuel s ty ty.zero := by unfold typedFuel; omega
  have hr : R (C (typedFuel s ty ty.zero - 1)) (decodeTypedF cx (typedFuel s ty ty.zero) (isNet fmt) d ty) (encDoc fmt name tree)
      (v, docName fmt name) := by
    rw [encDoc_split]
    unfold decodeTypedF
    apply R_bind (R_readHead _ fmt name tree hname)
    simp only
    have hf : typedFuel s ty ty.zero = (typedFuel s ty ty.zero - 1) + 1 := by unfold fuelFor at hge; omega
    rw [hf]
    exact R_map (fun r => (r, docName fmt name)) (h (typedFuel s ty ty.zero - 1))
  rcases hr s rest hs with hok | ⟨hn, _⟩
  · exact hok
  · exact absurd (hC _ (by unfold fuelFor at hge; omega)) hn

/-- `Encode(k.val t, name)` writes the document `name : t` -/
theorem exact_root_enc {cx : SnbtCarrier} {c : GoType} {k : Cls} (hx : Exact cx c k) (f : Nat) (fmt : Format)
    (name : Bytes) (t : NBT) (hn : name.length < 32768) (hok : k.ok t) (hf : k.need t ≤ f) :
    encodeF cx f (isNet fmt) name (some (k.val t)) = Res.ok (encDoc fmt name t) := by
  unfold encodeF
  simp only [hx.getTag f t hok hf, hx.marshal f t hok hf]
  cases fmt with
  | file =>
    simp only [isNet, Bool.false_eq_true, if_false, writeTag]
    rw [if_neg (by omega)]
    simp only [encDoc, encString, beN_eq, List.cons_append, List.append_assoc]
  | network =>
    simp only [isNet, if_true, encDoc, List.cons_append, List.nil_append]

/-- The round trip on the fragment, both halves against the format: encoding the value of a tree writes the
document of that tree, and decoding that document (followed by anything) into a fresh variable gives the value
back, with the root name, consuming exactly the document. -/
theorem plain_roundtrip (cx : SnbtCarrier) {c : GoType} {k : Cls} (h : Plain c k) (d : Bool) (fmt : Format)
    (name : Bytes) (t : NBT) (hn : name.length < 32768) (hok : k.ok t) :
    encode cx (isNet fmt) name (some (k.val t)) = Res.ok (encDoc fmt name t) ∧
    ∀ (s : Stream) (rest : Bytes), s.flat = encDoc fmt name t ++ rest →
      ∃ s', decodeTyped cx (isNet fmt) d c s = (Res.ok (k.val t, docName fmt name), s') ∧ s'.flat = rest ∧
        s'.failing = s.failing := by
  have inv := plain_inv cx h
  refine ⟨?_, fun s rest hs => ?_⟩
  · unfold encode
    exact exact_root_enc inv.exact _ fmt name t hn hok (by
      have h1 := inv.need t hok
      simp only; omega)
  · exact decodeTyped_of_R' cx d fmt name t c (k.val t) (fun f => cost t + k.extra ≤ f + 1) hn
      (fun f => inv.exact.reads d (f + 1) t hok)
      (fun f hf => by have := cost_le t; have := inv.extra; omega) s rest hs

/-- The value-side reading: every canonical value of a type of the fragment round-trips. `Encode` writes a
well-formed document of the format, and `Decode` of it (followed by anything) into a fresh variable returns the
value itself. -/
theorem plain_roundtrip_value (cx : SnbtCarrier) {c : GoType} {k : Cls} (h : Plain c k) (d : Bool) (fmt : Format)
    (name : Bytes) (v : GoVal) (hn : name.length < 32768) (hv : k.canon v) :
    ∃ t : NBT, t.WF ∧ encode cx (isNet fmt) name (some v) = Res.ok (encDoc fmt name t) ∧
    ∀ (s : Stream) (rest : Bytes), s.flat = encDoc fmt name t ++ rest →
      ∃ s', decodeTyped cx (isNet fmt) d c s = (Res.ok (v, docName fmt name), s') ∧ s'.flat = rest ∧
        s'.failing = s.failing := by
  obtain ⟨t, ht, hval, _⟩ := (plain_inv cx h).exact.onto v hv
  have := plain_roundtrip cx h d fmt name t hn ht
  rw [hval] at this
  exact ⟨t, (plain_inv cx h).exact.wf t ht, this.1, this.2⟩

/-! ### interfaces holding other dynamic types: what comes back

`Encode` looks through an interface, `Decode` into an `any` builds its own dynamic types. So for a value `v` of a
type of the fragment held in an `any`, `Decode(Encode(any(v)))` is `any(dynOf t)` — the canonical dynamic value of
the tree `v` stands for: an `any(uint16(5))` comes back as `int16(5)`, a struct as a `map[string]any`, a pointer
as what it points to. -/

theorem getTagType_iface (cx : SnbtCarrier) (f : Nat) (x : GoVal) :
    getTagType cx (f + 1) (.iface (some x)) = getTagType cx f x := by
  simp only [getTagType]

/-- decoding any well-formed payload into a nil `any` -/
theorem R_unmarshal_iface (cx : SnbtCarrier) (d : Bool) (f : Nat) (t : NBT) (hwf : t.WF) (hs : S15 t) :
    R (cost t ≤ f + 1) (unmarshal cx d (f + 1) .iface (GoType.iface).zero t.tag) (encPayload t) (.iface (some (dynOf t))) := by
  unfold unmarshal
  have hz : (GoType.iface).zero = .iface none := rfl
  simp only [umIface, if_neg (tag_not_magic t).1, hz]
  exact R_map (fun v => GoVal.iface (some (ofAny v))) (any_R t (f + 1) hwf hs)

/-- **The round trip through an interface is the canonicalisation `v ↦ dynOf (tree of v)`.** For a value `k.val t` of
a type of the fragment stored in an `any`: `Encode` writes the document of `t` (the interface leaves no trace), and
`Decode` of it into a fresh `any` returns the canonical dynamic value of `t`. -/
theorem plain_via_any (cx : SnbtCarrier) {c : GoType} {k : Cls} (h : Plain c k) (d : Bool) (fmt : Format)
    (name : Bytes) (t : NBT) (hn : name.length < 32768) (hok : k.ok t) :
    encode cx (isNet fmt) name (some (.iface (some (k.val t)))) = Res.ok (encDoc fmt name t) ∧
    ∀ (s : Stream) (rest : Bytes), s.flat = encDoc fmt name t ++ rest →
      ∃ s', decodeTyped cx (isNet fmt) d .iface s = (Res.ok (.iface (some (dynOf t)), docName fmt name), s') ∧
        s'.flat = rest ∧ s'.failing = s.failing := by
  have inv := plain_inv cx h
  refine ⟨?_, fun s rest hs => ?_⟩
  · unfold encode encodeF
    have hn1 := inv.need t hok
    have hF : 2 * (GoVal.iface (some (k.val t))).encFuel + 8 = (2 * (k.val t).encFuel + 13) + 1 := by
      simp only [GoVal.encFuel]; omega
    have hg : getTagType cx (2 * (GoVal.iface (some (k.val t))).encFuel + 8) (.iface (some (k.val t))) = (t.tag, k.inner t) := by
      rw [hF, getTagType_iface]
      exact inv.exact.getTag _ t hok (by omega)
    have hm := inv.exact.marshal (2 * (GoVal.iface (some (k.val t))).encFuel + 8) t hok (by rw [hF]; omega)
    simp only [hg, hm]
    cases fmt with
    | file =>
      simp only [isNet, Bool.false_eq_true, if_false, writeTag]
      rw [if_neg (by omega)]
      simp only [encDoc, encString, beN_eq, List.cons_append, List.append_assoc]
    | network =>
      simp only [isNet, if_true, encDoc, List.cons_append, List.nil_append]
  · exact decodeTyped_of_R' cx d fmt name t .iface _ (fun f => cost t ≤ f + 1) hn
      (fun f => R_unmarshal_iface cx d f t (inv.exact.wf t hok) (inv.exact.s15 t hok))
      (fun f hf => by have := cost_le t; omega) s rest hs

/-! #### a `[]any` of byte-, int- or long-sized elements (marker `C02.any-slice-array`)

`Encode` writes it as a typed array, so it comes back as `[]byte` / `[]int32` / `[]int64` in an `any`, and is
refused by a `[]any` destination. -/

theorem encode_anySlice_bytes (cx : SnbtCarrier) (f : Nat) (fmt : Format) (name : Bytes) (b : BitVec 8) (bs : List (BitVec 8))
    (hn : name.length < 32768) :
    encodeF cx (f + 3) (isNet fmt) name
      (some (.slice .iface false ((b :: bs).map fun x => GoVal.iface (some (.int .i8 x.toInt))))) =
      Res.ok (encDoc fmt name (.byteArray (b :: bs))) := by
  have hg : getTagType cx (f + 3) (.slice .iface false ((b :: bs).map fun x => GoVal.iface (some (.int .i8 x.toInt)))) =
      (7, .slice .iface false ((b :: bs).map fun x => GoVal.iface (some (.int .i8 x.toInt)))) := by
    rw [List.map_cons, getTagType_slice_cons]
    simp [getTagType, tagOfType, GoVal.typeOf, GoVal.isCarrier, GoType.isCarrier, arrTag]
  have hm : Go.marshal cx (f + 3) (.slice .iface false ((b :: bs).map fun x => GoVal.iface (some (.int .i8 x.toInt)))) 7 =
      Res.ok (encPayload (.byteArray (b :: bs))) := by
    have h7 : (7 : BitVec 8).toNat = 7 := rfl
    have hsl : GoVal.isCarrier (.slice .iface false ((b :: bs).map fun x => GoVal.iface (some (.int .i8 x.toInt)))) = false := rfl
    unfold Go.marshal
    rw [hsl]
    simp only [Bool.false_eq_true, if_false, writeValue, h7]
    rw [resMapM_map_ok byteOfElem _ (fun x => x) (b :: bs) (by
      intro x _
      simp only [byteOfElem, unwrapIface, wrapN1_toInt, BitVec.ofNat_toNat, BitVec.setWidth_eq])]
    simp [resFlatten, Res.map, encPayload, beN_eq]
  unfold encodeF
  simp only [hg, hm]
  cases fmt with
  | file =>
    simp only [isNet, Bool.false_eq_true, if_false, writeTag]
    rw [if_neg (by omega)]
    simp only [encDoc, encString, beN_eq, List.cons_append, List.append_assoc, NBT.tag, NBT.tagByteArray]
  | network =>
    simp only [isNet, if_true, encDoc, List.cons_append, List.nil_append, NBT.tag, NBT.tagByteArray]


theorem encode_anySlice_ints (cx : SnbtCarrier) (f : Nat) (fmt : Format) (name : Bytes) (b : BitVec 32) (bs : List (BitVec 32))
    (hn : name.length < 32768) :
    encodeF cx (f + 3) (isNet fmt) name
      (some (.slice .iface false ((b :: bs).map fun x => GoVal.iface (some (.int .i32 x.toInt))))) =
      Res.ok (encDoc fmt name (.intArray (b :: bs))) := by
  have hg : getTagType cx (f + 3) (.slice .iface false ((b :: bs).map fun x => GoVal.iface (some (.int .i32 x.toInt)))) =
      (11, .slice .iface false ((b :: bs).map fun x => GoVal.iface (some (.int .i32 x.toInt)))) := by
    rw [List.map_cons, getTagType_slice_cons]
    simp [getTagType, tagOfType, GoVal.typeOf, GoVal.isCarrier, GoType.isCarrier, arrTag]
  have hm : Go.marshal cx (f + 3) (.slice .iface false ((b :: bs).map fun x => GoVal.iface (some (.int .i32 x.toInt)))) 11 =
      Res.ok (encPayload (.intArray (b :: bs))) := by
    have h7 : (11 : BitVec 8).toNat = 11 := rfl
    have hsl : GoVal.isCarrier (.slice .iface false ((b :: bs).map fun x => GoVal.iface (some (.int .i32 x.toInt)))) = false := rfl
    unfold Go.marshal
    rw [hsl]
    simp only [Bool.false_eq_true, if_false, writeValue, h7]
    rw [resMapM_map_ok (numOfElem 4) _ be32 (b :: bs) (by
      intro x _
      simp only [numOfElem, unwrapIface, wrapN4_toInt, beN_eq, be32])]
    simp [resFlatten, encPayload, beN_eq]
  unfold encodeF
  simp only [hg, hm]
  cases fmt with
  | file =>
    simp only [isNet, Bool.false_eq_true, if_false, writeTag]
    rw [if_neg (by omega)]
    simp only [encDoc, encString, beN_eq, List.cons_append, List.append_assoc, NBT.tag, NBT.tagIntArray]
  | network =>
    simp only [isNet, if_true, encDoc, List.cons_append, List.nil_append, NBT.tag, NBT.tagIntArray]

theorem encode_anySlice_longs (cx : SnbtCarrier) (f : Nat) (fmt : Format) (name : Bytes) (b : BitVec 64) (bs : List (BitVec 64))
    (hn : name.length < 32768) :
    encodeF cx (f + 3) (isNet fmt) name
      (some (.slice .iface false ((b :: bs).map fun x => GoVal.iface (some (.int .i64 x.toInt))))) =
      Res.ok (encDoc fmt name (.longArray (b :: bs))) := by
  have hg : getTagType cx (f + 3) (.slice .iface false ((b :: bs).map fun x => GoVal.iface (some (.int .i64 x.toInt)))) =
      (12, .slice .iface false ((b :: bs).map fun x => GoVal.iface (some (.int .i64 x.toInt)))) := by
    rw [List.map_cons, getTagType_slice_cons]
    simp [getTagType, tagOfType, GoVal.typeOf, GoVal.isCarrier, GoType.isCarrier, arrTag]
  have hm : Go.marshal cx (f + 3) (.slice .iface false ((b :: bs).map fun x => GoVal.iface (some (.int .i64 x.toInt)))) 12 =
      Res.ok (encPayload (.longArray (b :: bs))) := by
    have h7 : (12 : BitVec 8).toNat = 12 := rfl
    have hsl : GoVal.isCarrier (.slice .iface false ((b :: bs).map fun x => GoVal.iface (some (.int .i64 x.toInt)))) = false := rfl
    unfold Go.marshal
    rw [hsl]
    simp only [Bool.false_eq_true, if_false, writeValue, h7]
    rw [resMapM_map_ok (numOfElem 8) _ be64 (b :: bs) (by
      intro x _
      simp only [numOfElem, unwrapIface, wrapN8_toInt, beN_eq, be64])]
    simp [resFlatten, encPayload, beN_eq]
  unfold encodeF
  simp only [hg, hm]
  cases fmt with
  | file =>
    simp only [isNet, Bool.false_eq_true, if_false, writeTag]
    rw [if_neg (by omega)]
    simp only [encDoc, encString, beN_eq, List.cons_append, List.append_assoc, NBT.tag, NBT.tagLongArray]
  | network =>
    simp only [isNet, if_true, encDoc, List.cons_append, List.nil_append, NBT.tag, NBT.tagLongArray]

/-- … which an `any` destination reads back as `[]byte` -/
theorem decode_byteArray_any (cx : SnbtCarrier) (d : Bool) (fmt : Format) (name : Bytes) (bs : List (BitVec 8))
    (hn : name.length < 32768) (hl : bs.length < 2147483648) (s : Stream) (rest : Bytes)
    (hs : s.flat = encDoc fmt name (.byteArray bs) ++ rest) :
    ∃ s', decodeTyped cx (isNet fmt) d .iface s =
        (Res.ok (.iface (some (.slice (.int .u8) false (bs.map fun b => GoVal.int .u8 b.toNat))), docName fmt name), s') ∧
      s'.flat = rest ∧ s'.failing = s.failing :=
  decodeTyped_of_R' cx d fmt name (.byteArray bs) .iface _ (fun f => cost (NBT.byteArray bs) ≤ f + 1) hn
    (fun f => R_unmarshal_iface cx d f (.byteArray bs) (by simp only [NBT.WF]; omega) (by simp [S15]))
    (fun f hf => by have := cost_le (NBT.byteArray bs); omega) s rest hs

/-- … and a `[]any` destination refuses: a typed array does not decode into a slice of interfaces -/
theorem unmarshal_typedArray_sliceAny (cx : SnbtCarrier) (d : Bool) (fuel : Nat) (old : GoVal) (tag : Byte)
    (h : tag.toNat = 7 ∨ tag.toNat = 11 ∨ tag.toNat = 12) (s s' : Stream) (v : GoVal) :
    unmarshal cx d fuel (.slice .iface) old tag s ≠ (Res.ok v, s') := by
  intro hok
  have := GoMC.Lemmas.NBTSound.accepts_unmarshal cx d fuel (.slice .iface) old tag s v s' hok
  simp only [GoMC.Lemmas.NBTSound.Accepts, isByteLike, isIntLike, isLongLike, byteElem, intElem, longElem, Option.isSome] at this
  rcases h with h | h | h <;> simp [h] at this

/-! ### an instance

```go
type Pos struct { X, Y float64 }
type Ex struct {
    A    int32             `nbt:"a"`
    B    []string          `nbt:",omitempty"`
    Pos                                         // embedded by value: X and Y are promoted
    Next *Pos              `nbt:"next,omitempty"`
    U    [4]int32
    M    map[string][]int64
    L    []int32           `nbt:"l,list"`
}
``` -/

def exPosFields : List (FieldInfo × GoType) := [
  ({ name := [88], anonymous := false, exported := true }, .f64),
  ({ name := [89], anonymous := false, exported := true }, .f64)]
def exPosSpecs : List FSpec := [⟨[88], [0], .f64, false, clsF64, false⟩, ⟨[89], [1], .f64, false, clsF64, false⟩]
def exPos : GoType := .struct [80, 111, 115] exPosFields

def exFields : List (FieldInfo × GoType) := [
  ({ name := [65], anonymous := false, exported := true, nbt := [97] }, .int .i32),
  ({ name := [66], anonymous := false, exported := true, nbt := [44, 111, 109, 105, 116, 101, 109, 112, 116, 121] }, .slice .str),
  ({ name := [80, 111, 115], anonymous := true, exported := true }, exPos),
  ({ name := [78, 101, 120, 116], anonymous := false, exported := true,
     nbt := [110, 101, 120, 116, 44, 111, 109, 105, 116, 101, 109, 112, 116, 121] }, .ptr exPos),
  ({ name := [85], anonymous := false, exported := true }, .array 4 (.int .i32)),
  ({ name := [77], anonymous := false, exported := true }, .map (.slice (.int .i64))),
  ({ name := [76], anonymous := false, exported := true, nbt := [108, 44, 108, 105, 115, 116] }, .slice (.int .i32))]


/-- discharges `Table` for a concrete struct type by evaluating the model `typeFields` on it -/
macro "field_table" : tactic =>
  `(tactic| repeat' (first | exact Table.nil _ | rfl | decide | refine Table.cons ?_ ?_ ?_ ?_ ?_ ?_ ?_))

/-- splits `∀ sp ∈ [a, b, …], P sp` into `P a`, `P b`, … -/
macro "each_field" : tactic =>
  `(tactic| (simp only [List.forall_mem_cons, List.not_mem_nil, false_imp_iff, implies_true, and_true]; repeat' apply And.intro))

theorem exPos_plain : Plain exPos (Cls.struct [80, 111, 115] exPosFields exPosSpecs) := by
  refine .struct _ exPosFields exPosSpecs ?_ ⟨?_, ?_, ?_, ?_⟩ ?_ ?_ ?_
  · field_table
  · unfold exPosSpecs; each_field <;> rfl
  · unfold exPosSpecs; decide
  · unfold exPosSpecs; each_field <;> decide
  · unfold exPosSpecs; each_field <;> decide
  · unfold exPosSpecs; each_field <;> decide
  · unfold exPosSpecs; each_field <;> (intro h; cases h)
  · unfold exPosSpecs; each_field <;> (intro _; exact .f64)

def exPosCls : Cls := Cls.struct [80, 111, 115] exPosFields exPosSpecs
def exSpecs : List FSpec := [
  ⟨[97], [0], .int .i32, false, clsI32, false⟩,
  ⟨[66], [1], .slice .str, true, Cls.slice .str clsStr, false⟩,
  ⟨[88], [2, 0], .f64, false, clsF64, false⟩,
  ⟨[89], [2, 1], .f64, false, clsF64, false⟩,
  ⟨[110, 101, 120, 116], [3], .ptr exPos, true, Cls.ptr exPos exPosCls, false⟩,
  ⟨[85], [4], .array 4 (.int .i32), false, clsArrNumsI32 4, false⟩,
  ⟨[77], [5], .map (.slice (.int .i64)), false, Cls.map (.slice (.int .i64)) clsNumsI64, false⟩,
  ⟨[108], [6], .slice (.int .i32), false, Cls.slice (.int .i32) clsI32, true⟩]

theorem ex_plain : Plain (.struct [69, 120] exFields) (Cls.struct [69, 120] exFields exSpecs) := by
  refine .struct _ exFields exSpecs ?_ ⟨?_, ?_, ?_, ?_⟩ ?_ ?_ ?_
  · field_table
  · unfold exSpecs; each_field <;> rfl
  · unfold exSpecs; decide
  · unfold exSpecs; each_field <;> decide
  · unfold exSpecs; each_field <;> decide
  · unfold exSpecs; each_field <;> decide
  · unfold exSpecs; each_field <;> first | (intro h; exact absurd h (by decide)) | (intro _; exact .i32)
  · unfold exSpecs; each_field
    · intro _; exact .i32
    · intro _; exact .slice .str (by simp [stripPtrs]) rfl rfl
    · intro _; exact .f64
    · intro _; exact .f64
    · intro _; exact .ptr exPos_plain
    · intro _; exact .arr_nums_i32 4
    · intro _; exact .map .nums_i64
    · intro h; cases h

/-- the document `{a: 7, X: 1.0, Y: -0.0, U: [I; 1, 2, 3, 4], M: {k: [L; 5]}, l: [1, 2]}` — `B` and `next` omitted, `l` a
TagList of two TagInt — is in the class of `Ex` … -/
example : (Cls.struct [69, 120] exFields exSpecs).ok (.compound [([97], .int 7), ([88], .double 0x3ff0000000000000),
    ([89], .double 0x8000000000000000), ([85], .intArray [1, 2, 3, 4]), ([77], .compound [([107], .longArray [5])]),
    ([108], .list 3 [.int 1, .int 2])]) := by
  simp only [Cls.struct, exSpecs, okFields]
  simp (config := { decide := true }) only [if_true, if_false, true_and, and_true]
  refine ⟨⟨_, rfl⟩, ⟨_, rfl⟩, ⟨_, rfl⟩, ⟨_, rfl, rfl, by decide⟩, ⟨?_, by simp⟩, ?_⟩
  · intro kv hkv
    simp only [List.mem_cons, List.not_mem_nil, or_false] at hkv
    subst hkv
    exact ⟨by decide, _, rfl, by decide⟩
  · refine ⟨by simp [NBT.WF, NBT.WFList, NBT.tag, NBT.tagInt, NBT.tagEnd], ?_, by intro h; cases h⟩
    intro t ht
    simp only [List.mem_cons, List.not_mem_nil, or_false] at ht
    rcases ht with rfl | rfl <;> exact ⟨_, rfl⟩

end GoMC.Lemmas.NBTTyped
