/-
  Lemmas about the NBT decoder models (`GoMC.Model.NBTDecode`).

  * `Closed P`: a property of reader programs that holds for the primitives the NBT models use and is kept by
    `>>=` and `if`. One induction on the fuel (`closed_any`, `closed_raw`, `closedC_ty`) then gives the
    property for every model at once; instances: `NoPanic`, `Rd.FragInv`, `Rd.ExtStable`.
    (`NoPanic` and `Closed` are generic facts about the `Rd` monad; they live here because `Basic/Core` is frozen.)
  * `R c p enc v`: on a source whose content starts with `enc`, program `p` returns `v` and leaves exactly what
    follows `enc` — or, when the side condition `c` (enough fuel) does not hold, it may return an error
    instead; it never returns anything else. Compositional (`R_bind`); proved for the readers and, by structural
    induction on the tree, for `unmarshalAny` and `rawRead` on `encPayload t`.
-/
import GoMC.Model.NBTDecode
import GoMC.Lemmas.NBT
namespace GoMC.Lemmas.NBTDecode
open GoMC GoMC.Rd GoMC.Model.NBT
open GoMC.Spec (NBT encPayload encList encKvs encString encDoc be16 be32 be64 beBytes beVal beBytes_length beVal_beBytes pow256_2 pow256_4 pow256_8 Format docName)

/-- a property of reader programs that holds for the primitives used by the NBT models and is preserved by
sequencing and branching -/
structure Closed (P : ∀ {α : Type}, Rd α → Prop) : Prop where
  pure : ∀ {α : Type} (a : α), P (Pure.pure a : Rd α)
  fail : ∀ {α : Type}, P (Rd.fail : Rd α)
  readFull : ∀ n, P (Rd.readFull n)
  readByte : P Rd.readByte
  bind : ∀ {α β : Type} {p : Rd α} {f : α → Rd β}, P p → (∀ a, P (f a)) → P (p >>= f)
  ite : ∀ {α : Type} {c : Prop} [Decidable c] {p q : Rd α}, P p → P q → P (if c then p else q)

macro "rd_closed" h:ident : tactic => `(tactic| repeat (first
  | exact ($h).pure _ | exact ($h).fail | exact ($h).readFull _ | exact ($h).readByte
  | assumption | apply_assumption
  | apply ($h).bind | apply ($h).ite | intro _ | split))

section
variable {P : ∀ {α : Type}, Rd α → Prop} (hP : Closed P)
include hP

theorem closed_readInt16 : P readInt16 := by unfold readInt16; rd_closed hP
theorem closed_readInt32 : P readInt32 := by unfold readInt32; rd_closed hP
theorem closed_readInt64 : P readInt64 := by unfold readInt64; rd_closed hP
theorem closed_readInt8 : P readInt8 := hP.readByte
theorem closed_readString : P readString := by
  have := closed_readInt16 hP
  unfold readString; rd_closed hP
theorem closed_readTag : P readTag := by
  have := closed_readString hP
  unfold readTag; rd_closed hP
theorem closed_readInts (n : Nat) : P (readInts n) := by
  have := closed_readInt32 hP
  induction n with
  | zero => exact hP.pure _
  | succ n ih => unfold readInts; rd_closed hP
theorem closed_readLongs (n : Nat) : P (readLongs n) := by
  have := closed_readInt64 hP
  induction n with
  | zero => exact hP.pure _
  | succ n ih => unfold readLongs; rd_closed hP
theorem closed_rawNums (k n : Nat) : P (rawNums k n) := by
  induction n with
  | zero => exact hP.pure _
  | succ n ih => unfold rawNums; rd_closed hP

theorem closed_any (fuel : Nat) :
    (∀ tag, P (unmarshalAny fuel tag)) ∧ (∀ lt n, P (anyListLoop fuel lt n)) ∧ (∀ acc, P (anyMapLoop fuel acc)) := by
  have h8 := closed_readInt8 hP
  have h16 := closed_readInt16 hP
  have h32 := closed_readInt32 hP
  have h64 := closed_readInt64 hP
  have hs := closed_readString hP
  have ht := closed_readTag hP
  have hi := closed_readInts hP
  have hl := closed_readLongs hP
  induction fuel with
  | zero =>
    refine ⟨?_, ?_, ?_⟩
    · intro tag; unfold unmarshalAny; exact hP.fail
    · intro lt n; cases n <;> unfold anyListLoop <;> rd_closed hP
    · intro acc; unfold anyMapLoop; exact hP.fail
  | succ fuel ih =>
    obtain ⟨ihA, ihL, ihM⟩ := ih
    refine ⟨?_, ?_, ?_⟩
    · intro tag; unfold unmarshalAny; rd_closed hP
    · intro lt n; cases n <;> unfold anyListLoop <;> rd_closed hP
    · intro acc; unfold anyMapLoop; rd_closed hP

theorem closed_raw (fuel : Nat) :
    (∀ tag, P (rawRead fuel tag)) ∧ (∀ lt n, P (rawListLoop fuel lt n)) ∧ P (rawCompoundLoop fuel) := by
  have hn := closed_rawNums hP
  induction fuel with
  | zero =>
    refine ⟨?_, ?_, ?_⟩
    · intro tag; unfold rawRead; exact hP.fail
    · intro lt n; cases n <;> unfold rawListLoop <;> rd_closed hP
    · unfold rawCompoundLoop; exact hP.fail
  | succ fuel ih =>
    obtain ⟨ihA, ihL, ihM⟩ := ih
    refine ⟨?_, ?_, ?_⟩
    · intro tag; unfold rawRead; rd_closed hP
    · intro lt n; cases n <;> unfold rawListLoop <;> rd_closed hP
    · unfold rawCompoundLoop; rd_closed hP

theorem closed_refuse (tag : Byte) : P (refuse tag) := by
  have h8 := closed_readInt8 hP
  have h16 := closed_readInt16 hP
  have h32 := closed_readInt32 hP
  have h64 := closed_readInt64 hP
  have hs := closed_readString hP
  unfold refuse; rd_closed hP

theorem closed_rawUnmarshal (fuel : Nat) (tag : Byte) : P (rawUnmarshal fuel tag) := by
  have := (closed_raw hP fuel).1
  unfold rawUnmarshal; rd_closed hP

theorem closed_readHead (network : Bool) : P (readHead network) := by
  have := closed_readTag hP
  unfold readHead; rd_closed hP

theorem closed_decodeAnyF (fuel : Nat) (network : Bool) : P (decodeAnyF fuel network) := by
  have := closed_readHead hP network
  have := (closed_any hP fuel).1
  unfold decodeAnyF; rd_closed hP

/-- typed destinations: the two unreachable `Rd.crash` branches need `P Rd.crash` -/
theorem closedC_ty (hc : ∀ {α : Type}, P (Rd.crash : Rd α)) (disallow : Bool) (fuel : Nat) :
    (∀ ty old tag, P (unmarshalTy disallow fuel ty old tag)) ∧
    (∀ fields fs, P (structLoop disallow fuel fields fs)) := by
  have h8 := closed_readInt8 hP
  have h16 := closed_readInt16 hP
  have h32 := closed_readInt32 hP
  have hs := closed_readString hP
  have ht := closed_readTag hP
  have hr := closed_refuse hP
  have hru := closed_rawUnmarshal hP
  have hraw := fun f => (closed_raw hP f).1
  have hany := fun f => (closed_any hP f).1
  have hmap := fun f => (closed_any hP f).2.2
  induction fuel with
  | zero =>
    refine ⟨?_, ?_⟩
    · intro ty old tag; unfold unmarshalTy; exact hP.fail
    · intro fields fs; unfold structLoop; exact hP.fail
  | succ fuel ih =>
    obtain ⟨ihT, ihS⟩ := ih
    refine ⟨?_, ?_⟩
    · intro ty old tag; unfold unmarshalTy
      repeat (first
        | exact hP.pure _ | exact hP.fail | exact hc | assumption | apply_assumption
        | apply hP.bind | apply hP.ite | intro _ | split)
    · intro fields fs; unfold structLoop
      repeat (first
        | exact hP.pure _ | exact hP.fail | exact hc | assumption | apply_assumption
        | apply hP.bind | apply hP.ite | intro _ | split)

theorem closedC_decodeTyF (hc : ∀ {α : Type}, P (Rd.crash : Rd α)) (fuel : Nat) (network disallow : Bool) (ty : Ty) :
    P (decodeTyF fuel network disallow ty) := by
  have := closed_readHead hP network
  have := (closedC_ty hP hc disallow fuel).1
  unfold decodeTyF; rd_closed hP
end

/-! ### instances -/

/-- never panics -/
def NoPanic {α : Type} (p : Rd α) : Prop := ∀ s, (p s).1 ≠ Res.panic

theorem closed_noPanic : Closed (@NoPanic) where
  pure := by intro α a s; simp
  fail := by intro α s; simp [Rd.fail]
  readFull := by intro n s; unfold Rd.readFull; split <;> simp
  readByte := by intro s; unfold Rd.readByte; split <;> simp
  bind := by
    intro α β p f hp hf s
    rw [Rd.bind_apply]
    have := hp s
    rcases h : p s with ⟨r, s'⟩
    rw [h] at this
    cases r with
    | ok a => exact hf a s'
    | err => simp
    | panic => simp at this
  ite := by intro α c _ p q hp hq; split <;> assumption

theorem closed_fragInv : Closed (@Rd.FragInv) where
  pure := fun a => Rd.fragInv_pure a
  fail := Rd.fragInv_fail
  readFull := Rd.fragInv_readFull
  readByte := Rd.fragInv_readByte
  bind := Rd.fragInv_bind
  ite := Rd.fragInv_ite

theorem closed_extStable : Closed (@Rd.ExtStable) where
  pure := fun a => Rd.extStable_pure a
  fail := Rd.extStable_fail
  readFull := Rd.extStable_readFull
  readByte := Rd.extStable_readByte
  bind := Rd.extStable_bind
  ite := Rd.extStable_ite

/-- the destinations of the C03 entry points: nil `any`, `RawMessage`, `map[string]any`, `struct{}` -/
inductive Simple : Ty → Val → Prop
  | any (old) : Simple .any old
  | raw (old) : Simple .raw old
  | mapAny (kvs) : Simple .mapAny (.mapAny kvs)
  | unit : Simple (.struct []) (.struct [])

theorem findField_nil (key : Bytes) : findField [] key = none := by
  simp [findField]

theorem noPanic_simple (disallow : Bool) (fuel : Nat) :
    (∀ ty old tag, Simple ty old → NoPanic (unmarshalTy disallow fuel ty old tag)) ∧
    NoPanic (structLoop disallow fuel [] []) := by
  have hP := closed_noPanic
  have ht := closed_readTag hP
  have hr := closed_refuse hP
  have hru := closed_rawUnmarshal hP
  have hraw := fun f => (closed_raw hP f).1
  have hany := fun f => (closed_any hP f).1
  have hmap := fun f => (closed_any hP f).2.2
  induction fuel with
  | zero =>
    refine ⟨?_, ?_⟩
    · intro ty old tag _; unfold unmarshalTy; exact hP.fail
    · unfold structLoop; exact hP.fail
  | succ fuel ih =>
    obtain ⟨ihT, ihS⟩ := ih
    refine ⟨?_, ?_⟩
    · intro ty old tag hS
      cases hS with
      | any old =>
        unfold unmarshalTy
        exact hP.bind (hany _ _) (fun _ => hP.pure _)
      | raw old =>
        unfold unmarshalTy
        exact hru _ _
      | mapAny kvs =>
        unfold unmarshalTy
        simp only
        split
        · exact hP.bind (hmap _ _) (fun _ => hP.pure _)
        · exact hr _
      | unit =>
        unfold unmarshalTy
        simp only
        split
        · exact hP.bind ihS (fun _ => hP.pure _)
        · exact hr _
    · unfold structLoop
      simp only [findField_nil]
      apply hP.bind ht
      rintro ⟨tt, tn⟩
      simp only
      apply hP.ite (hP.pure _)
      split
      · exact hP.fail
      · exact hP.bind (hraw _ _) (fun _ => ihS)


/-! ### exact reads -/

/-- On a source whose content starts with `enc`, `p` returns `v` and leaves exactly what follows `enc`
(same tail); when the side condition `c` fails it may return an error instead. Nothing else. -/
def R {α : Type} (c : Prop) (p : Rd α) (enc : Bytes) (v : α) : Prop :=
  ∀ (s : Stream) (rest : Bytes), s.flat = enc ++ rest →
    (∃ s', p s = (Res.ok v, s') ∧ s'.flat = rest ∧ s'.failing = s.failing) ∨
    (¬ c ∧ ∃ s', p s = (Res.err, s'))

theorem R_pure {α : Type} (c : Prop) (v : α) : R c (Pure.pure v : Rd α) [] v := by
  intro s rest h
  exact Or.inl ⟨s, rfl, by simpa using h, rfl⟩

theorem R_fail {α : Type} {c : Prop} (hc : ¬ c) (enc : Bytes) (v : α) : R c (Rd.fail : Rd α) enc v := by
  intro s rest _
  exact Or.inr ⟨hc, s, rfl⟩

theorem R_mono {α : Type} {c c' : Prop} {p : Rd α} {enc : Bytes} {v : α} (h : c' → c) (hr : R c p enc v) :
    R c' p enc v := by
  intro s rest hs
  rcases hr s rest hs with h1 | ⟨hn, h2⟩
  · exact Or.inl h1
  · exact Or.inr ⟨fun hc => hn (h hc), h2⟩

theorem R_bind {α β : Type} {c : Prop} {p : Rd α} {f : α → Rd β} {e1 e2 : Bytes} {a : α} {b : β}
    (hp : R c p e1 a) (hf : R c (f a) e2 b) : R c (p >>= f) (e1 ++ e2) b := by
  intro s rest hs
  rw [List.append_assoc] at hs
  rcases hp s (e2 ++ rest) hs with ⟨s', h1, h2, h3⟩ | ⟨hn, s', h1⟩
  · rcases hf s' rest h2 with ⟨s'', g1, g2, g3⟩ | ⟨hn, s'', g1⟩
    · exact Or.inl ⟨s'', by rw [Rd.bind_ok h1, g1], g2, g3.trans h3⟩
    · exact Or.inr ⟨hn, s'', by rw [Rd.bind_ok h1, g1]⟩
  · exact Or.inr ⟨hn, s', Rd.bind_err h1⟩

theorem R_enc {α : Type} {c : Prop} {p : Rd α} {enc enc' : Bytes} {v : α} (h : enc = enc') (hr : R c p enc v) :
    R c p enc' v := h ▸ hr

theorem R_readFull (c : Prop) (xs : Bytes) : R c (Rd.readFull xs.length) xs xs := by
  intro s rest hs
  refine Or.inl ⟨s.drop xs.length, ?_, ?_, rfl⟩
  · unfold Rd.readFull
    have : xs.length ≤ (xs ++ rest).length := by simp
    simp only [hs, this, if_true, List.take_left']
  · simp [hs]

theorem R_readFull' (c : Prop) (xs : Bytes) (n : Nat) (h : n = xs.length) : R c (Rd.readFull n) xs xs :=
  h ▸ R_readFull c xs

theorem R_readByte (c : Prop) (b : Byte) : R c Rd.readByte [b] b := by
  intro s rest hs
  refine Or.inl ⟨s.drop 1, ?_, ?_, rfl⟩
  · unfold Rd.readByte
    simp only [hs, List.cons_append, List.nil_append]
  · simp [hs]

theorem R_ite_pos {α : Type} {c : Prop} {d : Prop} [Decidable d] {p q : Rd α} {enc : Bytes} {v : α}
    (hd : d) (hp : R c p enc v) : R c (if d then p else q) enc v := by rw [if_pos hd]; exact hp
theorem R_ite_neg {α : Type} {c : Prop} {d : Prop} [Decidable d] {p q : Rd α} {enc : Bytes} {v : α}
    (hd : ¬ d) (hq : R c q enc v) : R c (if d then p else q) enc v := by rw [if_neg hd]; exact hq

/-! big-endian words -/

theorem horner_eq (bs : Bytes) (a : Nat) :
    bs.foldl (fun acc b => acc * 256 + b.toNat) a = a * 256 ^ bs.length + beVal bs := by
  induction bs generalizing a with
  | nil => simp [beVal]
  | cons b bs ih =>
    simp only [List.foldl_cons, ih, beVal, List.length_cons, Nat.pow_succ]
    rw [Nat.add_mul, Nat.mul_assoc, Nat.mul_comm 256, Nat.add_assoc]

theorem beWord_eq (w : Nat) (bs : Bytes) : beWord w bs = BitVec.ofNat w (beVal bs) := by
  unfold beWord
  rw [horner_eq]; simp

theorem beWord_be16 (v : BitVec 16) : beWord 16 (be16 v) = v := by
  rw [beWord_eq, be16, beVal_beBytes, pow256_2, Nat.mod_eq_of_lt v.isLt]
  simp
theorem beWord_be32 (v : BitVec 32) : beWord 32 (be32 v) = v := by
  rw [beWord_eq, be32, beVal_beBytes, pow256_4, Nat.mod_eq_of_lt v.isLt]
  simp
theorem beWord_be64 (v : BitVec 64) : beWord 64 (be64 v) = v := by
  rw [beWord_eq, be64, beVal_beBytes, pow256_8, Nat.mod_eq_of_lt v.isLt]
  simp

theorem R_readInt16 (c : Prop) (v : BitVec 16) : R c readInt16 (be16 v) v := by
  unfold readInt16
  have h1 := R_readFull' c (be16 v) 2 (by simp [be16, beBytes_length])
  have := R_bind h1 (f := fun bs => (Pure.pure (beWord 16 bs) : Rd (BitVec 16))) (R_pure c (beWord 16 (be16 v)))
  rw [beWord_be16] at this
  simpa using this
theorem R_readInt32 (c : Prop) (v : BitVec 32) : R c readInt32 (be32 v) v := by
  unfold readInt32
  have h1 := R_readFull' c (be32 v) 4 (by simp [be32, beBytes_length])
  have := R_bind h1 (f := fun bs => (Pure.pure (beWord 32 bs) : Rd (BitVec 32))) (R_pure c (beWord 32 (be32 v)))
  rw [beWord_be32] at this
  simpa using this
theorem R_readInt64 (c : Prop) (v : BitVec 64) : R c readInt64 (be64 v) v := by
  unfold readInt64
  have h1 := R_readFull' c (be64 v) 8 (by simp [be64, beBytes_length])
  have := R_bind h1 (f := fun bs => (Pure.pure (beWord 64 bs) : Rd (BitVec 64))) (R_pure c (beWord 64 (be64 v)))
  rw [beWord_be64] at this
  simpa using this


theorem msb16_false (n : Nat) (h : n < 32768) : (BitVec.ofNat 16 n).msb = false := by
  rw [BitVec.msb_eq_decide]
  simp only [BitVec.toNat_ofNat]
  have : n % 2 ^ 16 = n := Nat.mod_eq_of_lt (by omega)
  rw [this]
  simp; omega

theorem toNat16 (n : Nat) (h : n < 32768) : (BitVec.ofNat 16 n).toNat = n := by
  simp only [BitVec.toNat_ofNat]
  exact Nat.mod_eq_of_lt (by omega)

theorem msb32_false (n : Nat) (h : n < 2147483648) : (BitVec.ofNat 32 n).msb = false := by
  rw [BitVec.msb_eq_decide]
  simp only [BitVec.toNat_ofNat]
  have : n % 2 ^ 32 = n := Nat.mod_eq_of_lt (by omega)
  rw [this]
  simp; omega

theorem toNat32 (n : Nat) (h : n < 2147483648) : (BitVec.ofNat 32 n).toNat = n := by
  simp only [BitVec.toNat_ofNat]
  exact Nat.mod_eq_of_lt (by omega)

theorem be16_ofNat (n : Nat) (h : n < 32768) : be16 (BitVec.ofNat 16 n) = beBytes 2 n := by
  unfold be16; rw [toNat16 n h]
theorem be32_ofNat (n : Nat) (h : n < 2147483648) : be32 (BitVec.ofNat 32 n) = beBytes 4 n := by
  unfold be32; rw [toNat32 n h]

/-- `readString` on the encoding of a string of fewer than 2^15 bytes -/
theorem R_readString (c : Prop) (s : Bytes) (h : s.length < 32768) : R c readString (encString s) s := by
  unfold readString encString
  rw [← be16_ofNat _ h]
  apply R_bind (R_readInt16 c _)
  rw [msb16_false _ h, toNat16 _ h]
  simp only [Bool.false_eq_true, if_false]
  by_cases h0 : s.length > 0
  · rw [if_pos h0]; exact R_readFull c s
  · rw [if_neg h0]
    have : s = [] := List.length_eq_zero_iff.mp (by omega)
    subst this
    exact R_pure c _

/-- `readTag` on a tag id that is neither End nor a compression magic byte, followed by a name -/
theorem R_readTag (c : Prop) (t : Byte) (name : Bytes) (h : name.length < 32768)
    (h0 : t ≠ 0#8) (h1 : t ≠ 0x1f#8) (h2 : t ≠ 0x78#8) : R c readTag (t :: encString name) (t, name) := by
  unfold readTag
  have : t :: encString name = [t] ++ encString name := rfl
  rw [this]
  apply R_bind (R_readByte c t)
  have hn : ¬ (t = 0x1f#8 ∨ t = 0x78#8) := by rintro (h | h) <;> contradiction
  rw [if_neg hn, if_neg h0]
  have : encString name = encString name ++ [] := by simp
  rw [this]
  exact R_bind (R_readString c name h) (R_pure c _)

theorem R_readTag_end (c : Prop) : R c readTag [0#8] (0#8, []) := by
  unfold readTag
  have : ([0#8] : Bytes) = [0#8] ++ [] := rfl
  rw [this]
  apply R_bind (R_readByte c _)
  have hn : ¬ ((0#8 : Byte) = 0x1f#8 ∨ (0#8 : Byte) = 0x78#8) := by decide
  rw [if_neg hn, if_pos rfl]
  exact R_pure c _

theorem R_readInts (c : Prop) (xs : List (BitVec 32)) : R c (readInts xs.length) (xs.map be32).flatten xs := by
  induction xs with
  | nil => exact R_pure c _
  | cons x xs ih =>
    simp only [List.length_cons, List.map_cons, List.flatten_cons]
    unfold readInts
    apply R_bind (R_readInt32 c x)
    have : (xs.map be32).flatten = (xs.map be32).flatten ++ [] := by simp
    rw [this]
    exact R_bind ih (R_pure c _)

theorem R_readLongs (c : Prop) (xs : List (BitVec 64)) : R c (readLongs xs.length) (xs.map be64).flatten xs := by
  induction xs with
  | nil => exact R_pure c _
  | cons x xs ih =>
    simp only [List.length_cons, List.map_cons, List.flatten_cons]
    unfold readLongs
    apply R_bind (R_readInt64 c x)
    have : (xs.map be64).flatten = (xs.map be64).flatten ++ [] := by simp
    rw [this]
    exact R_bind ih (R_pure c _)


/-! ### the Go tree of an NBT tree, string bounds, fuel cost -/

mutual
  /-- what decoding into a nil `any` must yield: the Go dynamic tree of an NBT tree. A compound becomes a
  `map[string]any`: entries are inserted in document order, so the last entry for a key wins. -/
  def goAny : NBT → GoAny
    | .byte v => .i8 v
    | .short v => .i16 v
    | .int v => .i32 v
    | .long v => .i64 v
    | .float v => .f32 v
    | .double v => .f64 v
    | .byteArray xs => .bytes xs
    | .string s => .str s
    | .list _ xs => .list (goAnyList xs)
    | .compound kvs => .map (goAnyKvs [] kvs)
    | .intArray xs => .ints xs
    | .longArray xs => .longs xs
  def goAnyList : List NBT → List GoAny
    | [] => []
    | x :: xs => goAny x :: goAnyList xs
  def goAnyKvs (acc : List (Bytes × GoAny)) : List (Bytes × NBT) → List (Bytes × GoAny)
    | [] => acc
    | (k, v) :: kvs => goAnyKvs (mapSet acc k (goAny v)) kvs
end

mutual
  /-- every string, key (and hence name) is shorter than 2^15 bytes — what this package can read -/
  def S15 : NBT → Prop
    | .string s => s.length < 32768
    | .list _ xs => S15List xs
    | .compound kvs => S15Kvs kvs
    | _ => True
  def S15List : List NBT → Prop
    | [] => True
    | x :: xs => S15 x ∧ S15List xs
  def S15Kvs : List (Bytes × NBT) → Prop
    | [] => True
    | (k, v) :: kvs => k.length < 32768 ∧ S15 v ∧ S15Kvs kvs
end

mutual
  /-- fuel the models use on a tree: one unit per nested call / loop iteration along the deepest path -/
  def cost : NBT → Nat
    | .list _ xs => costList xs + 1
    | .compound kvs => costKvs kvs + 1
    | _ => 1
  def costList : List NBT → Nat
    | [] => 0
    | x :: xs => max (cost x) (costList xs) + 1
  def costKvs : List (Bytes × NBT) → Nat
    | [] => 1
    | (_, v) :: kvs => max (cost v) (costKvs kvs) + 1
end

theorem cost_pos (t : NBT) : 1 ≤ cost t := by cases t <;> simp [cost]

/-! ### `unmarshalAny`, constructor by constructor -/

theorem any_byte (c : Prop) (f : Nat) (v : BitVec 8) :
    R c (unmarshalAny (f + 1) (NBT.byte v).tag) (encPayload (.byte v)) (goAny (.byte v)) := by
  unfold unmarshalAny
  have h : (1 : BitVec 8).toNat = 1 := rfl
  simp only [NBT.tag, NBT.tagByte, h, encPayload, goAny, readInt8]
  exact R_enc (by simp) (R_bind (R_readByte c v) (R_pure c _))

theorem any_short (c : Prop) (f : Nat) (v : BitVec 16) :
    R c (unmarshalAny (f + 1) (NBT.short v).tag) (encPayload (.short v)) (goAny (.short v)) := by
  unfold unmarshalAny
  have h : (2 : BitVec 8).toNat = 2 := rfl
  simp only [NBT.tag, NBT.tagShort, h, encPayload, goAny]
  exact R_enc (by simp) (R_bind (R_readInt16 c v) (R_pure c _))

theorem any_int (c : Prop) (f : Nat) (v : BitVec 32) :
    R c (unmarshalAny (f + 1) (NBT.int v).tag) (encPayload (.int v)) (goAny (.int v)) := by
  unfold unmarshalAny
  have h : (3 : BitVec 8).toNat = 3 := rfl
  simp only [NBT.tag, NBT.tagInt, h, encPayload, goAny]
  exact R_enc (by simp) (R_bind (R_readInt32 c v) (R_pure c _))

theorem any_long (c : Prop) (f : Nat) (v : BitVec 64) :
    R c (unmarshalAny (f + 1) (NBT.long v).tag) (encPayload (.long v)) (goAny (.long v)) := by
  unfold unmarshalAny
  have h : (4 : BitVec 8).toNat = 4 := rfl
  simp only [NBT.tag, NBT.tagLong, h, encPayload, goAny]
  exact R_enc (by simp) (R_bind (R_readInt64 c v) (R_pure c _))

theorem any_float (c : Prop) (f : Nat) (v : BitVec 32) :
    R c (unmarshalAny (f + 1) (NBT.float v).tag) (encPayload (.float v)) (goAny (.float v)) := by
  unfold unmarshalAny
  have h : (5 : BitVec 8).toNat = 5 := rfl
  simp only [NBT.tag, NBT.tagFloat, h, encPayload, goAny]
  exact R_enc (by simp) (R_bind (R_readInt32 c v) (R_pure c _))

theorem any_double (c : Prop) (f : Nat) (v : BitVec 64) :
    R c (unmarshalAny (f + 1) (NBT.double v).tag) (encPayload (.double v)) (goAny (.double v)) := by
  unfold unmarshalAny
  have h : (6 : BitVec 8).toNat = 6 := rfl
  simp only [NBT.tag, NBT.tagDouble, h, encPayload, goAny]
  exact R_enc (by simp) (R_bind (R_readInt64 c v) (R_pure c _))

theorem any_byteArray (c : Prop) (f : Nat) (xs : List (BitVec 8)) (hl : xs.length < 2147483648) :
    R c (unmarshalAny (f + 1) (NBT.byteArray xs).tag) (encPayload (.byteArray xs)) (goAny (.byteArray xs)) := by
  unfold unmarshalAny
  have h : (7 : BitVec 8).toNat = 7 := rfl
  simp only [NBT.tag, NBT.tagByteArray, h, encPayload, goAny]
  rw [← be32_ofNat _ hl]
  apply R_bind (R_readInt32 c _)
  rw [msb32_false _ hl, toNat32 _ hl]
  simp only [Bool.false_eq_true, if_false]
  exact R_enc (by simp) (R_bind (R_readFull c xs) (R_pure c _))

theorem any_string (c : Prop) (f : Nat) (s : Bytes) (hl : s.length < 32768) :
    R c (unmarshalAny (f + 1) (NBT.string s).tag) (encPayload (.string s)) (goAny (.string s)) := by
  unfold unmarshalAny
  have h : (8 : BitVec 8).toNat = 8 := rfl
  simp only [NBT.tag, NBT.tagString, h, encPayload, goAny]
  exact R_enc (by simp) (R_bind (R_readString c s hl) (R_pure c _))

theorem any_intArray (c : Prop) (f : Nat) (xs : List (BitVec 32)) (hl : xs.length < 2147483648) :
    R c (unmarshalAny (f + 1) (NBT.intArray xs).tag) (encPayload (.intArray xs)) (goAny (.intArray xs)) := by
  unfold unmarshalAny
  have h : (11 : BitVec 8).toNat = 11 := rfl
  simp only [NBT.tag, NBT.tagIntArray, h, encPayload, goAny]
  rw [← be32_ofNat _ hl]
  apply R_bind (R_readInt32 c _)
  rw [msb32_false _ hl, toNat32 _ hl]
  simp only [Bool.false_eq_true, if_false]
  exact R_enc (by simp) (R_bind (R_readInts c xs) (R_pure c _))

theorem any_longArray (c : Prop) (f : Nat) (xs : List (BitVec 64)) (hl : xs.length < 2147483648) :
    R c (unmarshalAny (f + 1) (NBT.longArray xs).tag) (encPayload (.longArray xs)) (goAny (.longArray xs)) := by
  unfold unmarshalAny
  have h : (12 : BitVec 8).toNat = 12 := rfl
  simp only [NBT.tag, NBT.tagLongArray, h, encPayload, goAny]
  rw [← be32_ofNat _ hl]
  apply R_bind (R_readInt32 c _)
  rw [msb32_false _ hl, toNat32 _ hl]
  simp only [Bool.false_eq_true, if_false]
  exact R_enc (by simp) (R_bind (R_readLongs c xs) (R_pure c _))

theorem any_list (c : Prop) (f : Nat) (e : BitVec 8) (xs : List NBT) (hl : xs.length < 2147483648)
    (he : e.toNat ≤ 12) (hne : xs = [] ∨ e ≠ NBT.tagEnd) (ih : R c (anyListLoop f e xs.length) (encList xs) (goAnyList xs)) :
    R c (unmarshalAny (f + 1) (NBT.list e xs).tag) (encPayload (.list e xs)) (goAny (.list e xs)) := by
  unfold unmarshalAny
  have h : (9 : BitVec 8).toNat = 9 := rfl
  simp only [NBT.tag, NBT.tagList, h, encPayload, goAny]
  have : e :: beBytes 4 xs.length ++ encList xs = [e] ++ (beBytes 4 xs.length ++ encList xs) := by simp
  rw [this]
  apply R_bind (R_readByte c e)
  rw [if_neg (by omega)]
  rw [← be32_ofNat _ hl]
  apply R_bind (R_readInt32 c _)
  rw [msb32_false _ hl, toNat32 _ hl]
  have hend : ¬ (e = 0#8 ∧ xs.length > 0) := by
    rintro ⟨h0, hn⟩
    rcases hne with rfl | hne
    · simp at hn
    · exact hne h0
  simp only [Bool.false_eq_true, if_false, hend]
  exact R_enc (by simp) (R_bind ih (R_pure c _))

theorem any_compound (c : Prop) (f : Nat) (kvs : List (Bytes × NBT))
    (ih : R c (anyMapLoop f []) (encKvs kvs) (goAnyKvs [] kvs)) :
    R c (unmarshalAny (f + 1) (NBT.compound kvs).tag) (encPayload (.compound kvs)) (goAny (.compound kvs)) := by
  unfold unmarshalAny
  have h : (10 : BitVec 8).toNat = 10 := rfl
  simp only [NBT.tag, NBT.tagCompound, h, encPayload, goAny]
  exact R_enc (by simp) (R_bind ih (R_pure c _))

theorem anyList_cons (c : Prop) (f : Nat) (e : BitVec 8) (x : NBT) (xs : List NBT)
    (h1 : R c (unmarshalAny f e) (encPayload x) (goAny x))
    (h2 : R c (anyListLoop f e xs.length) (encList xs) (goAnyList xs)) :
    R c (anyListLoop (f + 1) e (x :: xs).length) (encList (x :: xs)) (goAnyList (x :: xs)) := by
  simp only [List.length_cons, encList, goAnyList]
  unfold anyListLoop
  apply R_bind h1
  exact R_enc (by simp) (R_bind h2 (R_pure c _))

theorem tag_not_magic (v : NBT) : v.tag ≠ 0#8 ∧ v.tag ≠ 0x1f#8 ∧ v.tag ≠ 0x78#8 := by
  cases v <;> simp [NBT.tag, NBT.tagByte, NBT.tagShort, NBT.tagInt, NBT.tagLong, NBT.tagFloat,
    NBT.tagDouble, NBT.tagByteArray, NBT.tagString, NBT.tagList, NBT.tagCompound, NBT.tagIntArray, NBT.tagLongArray]

theorem anyKvs_cons (c : Prop) (f : Nat) (acc : List (Bytes × GoAny)) (k : Bytes) (v : NBT) (kvs : List (Bytes × NBT))
    (hk : k.length < 32768)
    (h1 : R c (unmarshalAny f v.tag) (encPayload v) (goAny v))
    (h2 : R c (anyMapLoop f (mapSet acc k (goAny v))) (encKvs kvs) (goAnyKvs (mapSet acc k (goAny v)) kvs)) :
    R c (anyMapLoop (f + 1) acc) (encKvs ((k, v) :: kvs)) (goAnyKvs acc ((k, v) :: kvs)) := by
  simp only [encKvs, goAnyKvs]
  unfold anyMapLoop
  obtain ⟨t0, t1, t2⟩ := tag_not_magic v
  have : v.tag :: encString k ++ encPayload v ++ encKvs kvs = (v.tag :: encString k) ++ (encPayload v ++ encKvs kvs) := by simp
  rw [this]
  apply R_bind (R_readTag c v.tag k hk t0 t1 t2)
  simp only [if_neg t0]
  exact R_bind h1 h2

theorem anyKvs_nil (c : Prop) (f : Nat) (acc : List (Bytes × GoAny)) :
    R c (anyMapLoop (f + 1) acc) (encKvs []) (goAnyKvs acc []) := by
  simp only [encKvs, goAnyKvs]
  unfold anyMapLoop
  have : ([NBT.tagEnd] : Bytes) = [0#8] ++ [] := rfl
  rw [this]
  apply R_bind (R_readTag_end c)
  simp only [if_true]
  exact R_pure c _


theorem two31 : (2:Nat) ^ 31 = 2147483648 := by decide

mutual
  /-- decoding into a nil `any`: on the encoding of a well-formed tree the model returns the Go tree and stops
  exactly at the end of the value (given fuel ≥ cost), and never returns anything but that or an error. -/
  theorem any_R : ∀ (t : NBT) (fuel : Nat), t.WF → S15 t →
      R (cost t ≤ fuel) (unmarshalAny fuel t.tag) (encPayload t) (goAny t)
    | t, 0, _, _ => by
      unfold unmarshalAny
      exact R_fail (by have := cost_pos t; omega) _ _
    | .byte v, f + 1, _, _ => any_byte _ f v
    | .short v, f + 1, _, _ => any_short _ f v
    | .int v, f + 1, _, _ => any_int _ f v
    | .long v, f + 1, _, _ => any_long _ f v
    | .float v, f + 1, _, _ => any_float _ f v
    | .double v, f + 1, _, _ => any_double _ f v
    | .byteArray xs, f + 1, hwf, _ => any_byteArray _ f xs (by simp only [NBT.WF, two31] at hwf; exact hwf)
    | .string s, f + 1, _, hs => any_string _ f s (by simpa only [S15] using hs)
    | .intArray xs, f + 1, hwf, _ => any_intArray _ f xs (by simp only [NBT.WF, two31] at hwf; exact hwf)
    | .longArray xs, f + 1, hwf, _ => any_longArray _ f xs (by simp only [NBT.WF, two31] at hwf; exact hwf)
    | .list e xs, f + 1, hwf, hs => by
      simp only [NBT.WF, two31] at hwf
      obtain ⟨hlen, hne, hle, hwfl⟩ := hwf
      simp only [S15] at hs
      have ih := anyList_R xs e f hwfl hs
      exact any_list _ f e xs hlen hle hne (R_mono (by simp only [cost]; omega) ih)
    | .compound kvs, f + 1, hwf, hs => by
      simp only [NBT.WF] at hwf
      simp only [S15] at hs
      have ih := anyKvs_R kvs f [] hwf hs
      exact any_compound _ f kvs (R_mono (by simp only [cost]; omega) ih)
  theorem anyList_R : ∀ (xs : List NBT) (e : BitVec 8) (fuel : Nat), NBT.WFList e xs → S15List xs →
      R (costList xs ≤ fuel) (anyListLoop fuel e xs.length) (encList xs) (goAnyList xs)
    | [], e, fuel, _, _ => by
      simp only [List.length_nil, encList, goAnyList]
      unfold anyListLoop
      exact R_pure _ _
    | x :: xs, e, 0, _, _ => by
      simp only [List.length_cons]
      unfold anyListLoop
      exact R_fail (by simp only [costList]; omega) _ _
    | x :: xs, e, f + 1, hwf, hs => by
      simp only [NBT.WFList] at hwf
      obtain ⟨htag, hwx, hwxs⟩ := hwf
      simp only [S15List] at hs
      have h1 := any_R x f hwx hs.1
      rw [htag] at h1
      have h2 := anyList_R xs e f hwxs hs.2
      exact anyList_cons _ f e x xs (R_mono (by simp only [costList]; omega) h1) (R_mono (by simp only [costList]; omega) h2)
  theorem anyKvs_R : ∀ (kvs : List (Bytes × NBT)) (fuel : Nat) (acc : List (Bytes × GoAny)),
      NBT.WFKvs kvs → S15Kvs kvs →
      R (costKvs kvs ≤ fuel) (anyMapLoop fuel acc) (encKvs kvs) (goAnyKvs acc kvs)
    | kvs, 0, acc, _, _ => by
      unfold anyMapLoop
      exact R_fail (by cases kvs with
        | nil => simp [costKvs]
        | cons e kvs => obtain ⟨k, v⟩ := e; simp only [costKvs]; omega) _ _
    | [], f + 1, acc, _, _ => anyKvs_nil _ f acc
    | (k, v) :: kvs, f + 1, acc, hwf, hs => by
      simp only [NBT.WFKvs] at hwf
      simp only [S15Kvs] at hs
      have h1 := any_R v f hwf.2.1 hs.2.1
      have h2 := anyKvs_R kvs f (mapSet acc k (goAny v)) hwf.2.2 hs.2.2
      exact anyKvs_cons _ f acc k v kvs hs.1 (R_mono (by simp only [costKvs]; omega) h1)
        (R_mono (by simp only [costKvs]; omega) h2)
end


/-! ### `rawRead`: consumes exactly the value and returns its bytes -/

theorem R_val {α : Type} {c : Prop} {p : Rd α} {enc : Bytes} {v v' : α} (h : v = v') (hr : R c p enc v) :
    R c p enc v' := h ▸ hr

theorem beWord_len32 (n : Nat) (h : n < 2147483648) : beWord 32 (beBytes 4 n) = BitVec.ofNat 32 n := by
  rw [← be32_ofNat n h, beWord_be32]
theorem beWord_len16 (n : Nat) (h : n < 32768) : beWord 16 (beBytes 2 n) = BitVec.ofNat 16 n := by
  rw [← be16_ofNat n h, beWord_be16]

theorem R_be (c : Prop) (k n : Nat) : R c (Rd.readFull k) (beBytes k n) (beBytes k n) :=
  R_readFull' c _ k (beBytes_length k n).symm

theorem R_rawNums32 (c : Prop) (xs : List (BitVec 32)) :
    R c (rawNums 4 xs.length) (xs.map be32).flatten (xs.map be32).flatten := by
  induction xs with
  | nil => exact R_pure c _
  | cons x xs ih =>
    simp only [List.length_cons, List.map_cons, List.flatten_cons]
    unfold rawNums
    apply R_bind (R_be c 4 x.toNat)
    exact R_enc (by simp) (R_bind ih (R_pure c _))
theorem R_rawNums64 (c : Prop) (xs : List (BitVec 64)) :
    R c (rawNums 8 xs.length) (xs.map be64).flatten (xs.map be64).flatten := by
  induction xs with
  | nil => exact R_pure c _
  | cons x xs ih =>
    simp only [List.length_cons, List.map_cons, List.flatten_cons]
    unfold rawNums
    apply R_bind (R_be c 8 x.toNat)
    exact R_enc (by simp) (R_bind ih (R_pure c _))

theorem raw_byte (c : Prop) (f : Nat) (v : BitVec 8) :
    R c (rawRead (f + 1) (NBT.byte v).tag) (encPayload (.byte v)) (encPayload (.byte v)) := by
  unfold rawRead
  have h : (1 : BitVec 8).toNat = 1 := rfl
  simp only [NBT.tag, NBT.tagByte, h, encPayload]
  exact R_enc (by simp) (R_bind (R_readByte c v) (R_pure c _))
theorem raw_short (c : Prop) (f : Nat) (v : BitVec 16) :
    R c (rawRead (f + 1) (NBT.short v).tag) (encPayload (.short v)) (encPayload (.short v)) := by
  unfold rawRead
  have h : (2 : BitVec 8).toNat = 2 := rfl
  simp only [NBT.tag, NBT.tagShort, h, encPayload]
  exact R_be c 2 _
theorem raw_int (c : Prop) (f : Nat) (v : BitVec 32) :
    R c (rawRead (f + 1) (NBT.int v).tag) (encPayload (.int v)) (encPayload (.int v)) := by
  unfold rawRead
  have h : (3 : BitVec 8).toNat = 3 := rfl
  simp only [NBT.tag, NBT.tagInt, h, encPayload]
  exact R_be c 4 _
theorem raw_long (c : Prop) (f : Nat) (v : BitVec 64) :
    R c (rawRead (f + 1) (NBT.long v).tag) (encPayload (.long v)) (encPayload (.long v)) := by
  unfold rawRead
  have h : (4 : BitVec 8).toNat = 4 := rfl
  simp only [NBT.tag, NBT.tagLong, h, encPayload]
  exact R_be c 8 _
theorem raw_float (c : Prop) (f : Nat) (v : BitVec 32) :
    R c (rawRead (f + 1) (NBT.float v).tag) (encPayload (.float v)) (encPayload (.float v)) := by
  unfold rawRead
  have h : (5 : BitVec 8).toNat = 5 := rfl
  simp only [NBT.tag, NBT.tagFloat, h, encPayload]
  exact R_be c 4 _
theorem raw_double (c : Prop) (f : Nat) (v : BitVec 64) :
    R c (rawRead (f + 1) (NBT.double v).tag) (encPayload (.double v)) (encPayload (.double v)) := by
  unfold rawRead
  have h : (6 : BitVec 8).toNat = 6 := rfl
  simp only [NBT.tag, NBT.tagDouble, h, encPayload]
  exact R_be c 8 _

theorem raw_byteArray (c : Prop) (f : Nat) (xs : List (BitVec 8)) (hl : xs.length < 2147483648) :
    R c (rawRead (f + 1) (NBT.byteArray xs).tag) (encPayload (.byteArray xs)) (encPayload (.byteArray xs)) := by
  unfold rawRead
  have h : (7 : BitVec 8).toNat = 7 := rfl
  simp only [NBT.tag, NBT.tagByteArray, h, encPayload]
  apply R_bind (R_be c 4 _)
  rw [beWord_len32 _ hl, msb32_false _ hl, toNat32 _ hl]
  simp only [Bool.false_eq_true, if_false]
  exact R_enc (by simp) (R_bind (R_readFull c xs) (R_pure c _))

theorem raw_string (c : Prop) (f : Nat) (s : Bytes) (hl : s.length < 32768) :
    R c (rawRead (f + 1) (NBT.string s).tag) (encPayload (.string s)) (encPayload (.string s)) := by
  unfold rawRead
  have h : (8 : BitVec 8).toNat = 8 := rfl
  simp only [NBT.tag, NBT.tagString, h, encPayload, encString]
  by_cases h0 : s.length > 0
  · apply R_bind (R_be c 2 _)
    rw [beWord_len16 _ hl, msb16_false _ hl, toNat16 _ hl]
    simp only [Bool.false_eq_true, if_false, if_pos h0]
    exact R_enc (by simp) (R_bind (R_readFull c s) (R_pure c _))
  · have : s = [] := List.length_eq_zero_iff.mp (by omega)
    subst this
    apply R_bind (R_be c 2 _)
    rw [beWord_len16 _ hl, msb16_false _ hl, toNat16 _ hl]
    simp only [Bool.false_eq_true, if_false, List.length_nil, Nat.lt_irrefl]
    exact R_enc (by simp) (R_pure c _)

theorem raw_intArray (c : Prop) (f : Nat) (xs : List (BitVec 32)) (hl : xs.length < 2147483648) :
    R c (rawRead (f + 1) (NBT.intArray xs).tag) (encPayload (.intArray xs)) (encPayload (.intArray xs)) := by
  unfold rawRead
  have h : (11 : BitVec 8).toNat = 11 := rfl
  simp only [NBT.tag, NBT.tagIntArray, h, encPayload]
  apply R_bind (R_be c 4 _)
  rw [beWord_len32 _ hl, msb32_false _ hl, toNat32 _ hl]
  simp only [Bool.false_eq_true, if_false]
  exact R_enc (by simp) (R_bind (R_rawNums32 c xs) (R_pure c _))

theorem raw_longArray (c : Prop) (f : Nat) (xs : List (BitVec 64)) (hl : xs.length < 2147483648) :
    R c (rawRead (f + 1) (NBT.longArray xs).tag) (encPayload (.longArray xs)) (encPayload (.longArray xs)) := by
  unfold rawRead
  have h : (12 : BitVec 8).toNat = 12 := rfl
  simp only [NBT.tag, NBT.tagLongArray, h, encPayload]
  apply R_bind (R_be c 4 _)
  rw [beWord_len32 _ hl, msb32_false _ hl, toNat32 _ hl]
  simp only [Bool.false_eq_true, if_false]
  exact R_enc (by simp) (R_bind (R_rawNums64 c xs) (R_pure c _))

theorem raw_list (c : Prop) (f : Nat) (e : BitVec 8) (xs : List NBT) (hl : xs.length < 2147483648)
    (he : e.toNat ≤ 12) (ih : R c (rawListLoop f e xs.length) (encList xs) (encList xs)) :
    R c (rawRead (f + 1) (NBT.list e xs).tag) (encPayload (.list e xs)) (encPayload (.list e xs)) := by
  unfold rawRead
  have h : (9 : BitVec 8).toNat = 9 := rfl
  simp only [NBT.tag, NBT.tagList, h, encPayload]
  have : e :: beBytes 4 xs.length ++ encList xs = [e] ++ (beBytes 4 xs.length ++ encList xs) := by simp
  rw [this]
  apply R_bind (R_readByte c e)
  rw [if_neg (by omega)]
  apply R_bind (R_be c 4 _)
  rw [beWord_len32 _ hl, msb32_false _ hl, toNat32 _ hl]
  simp only [Bool.false_eq_true, if_false]
  exact R_enc (by simp) (R_bind ih (R_pure c _))

theorem raw_compound (c : Prop) (f : Nat) (kvs : List (Bytes × NBT))
    (ih : R c (rawCompoundLoop f) (encKvs kvs) (encKvs kvs)) :
    R c (rawRead (f + 1) (NBT.compound kvs).tag) (encPayload (.compound kvs)) (encPayload (.compound kvs)) := by
  unfold rawRead
  have h : (10 : BitVec 8).toNat = 10 := rfl
  simp only [NBT.tag, NBT.tagCompound, h, encPayload]
  exact ih

theorem rawList_cons (c : Prop) (f : Nat) (e : BitVec 8) (x : NBT) (xs : List NBT)
    (h1 : R c (rawRead f e) (encPayload x) (encPayload x))
    (h2 : R c (rawListLoop f e xs.length) (encList xs) (encList xs)) :
    R c (rawListLoop (f + 1) e (x :: xs).length) (encList (x :: xs)) (encList (x :: xs)) := by
  simp only [List.length_cons, encList]
  unfold rawListLoop
  apply R_bind h1
  exact R_enc (by simp) (R_bind h2 (R_pure c _))

theorem rawKvs_nil (c : Prop) (f : Nat) : R c (rawCompoundLoop (f + 1)) (encKvs []) (encKvs []) := by
  simp only [encKvs]
  unfold rawCompoundLoop
  have : ([NBT.tagEnd] : Bytes) = [0#8] ++ [] := rfl
  rw [this]
  apply R_bind (R_readByte c _)
  have hn : ¬ ((0#8 : Byte) = 0x1f#8 ∨ (0#8 : Byte) = 0x78#8) := by decide
  rw [if_neg hn, if_pos rfl]
  exact R_pure c _

theorem rawKvs_cons (c : Prop) (f : Nat) (k : Bytes) (v : NBT) (kvs : List (Bytes × NBT))
    (hk : k.length < 32768)
    (h1 : R c (rawRead f v.tag) (encPayload v) (encPayload v))
    (h2 : R c (rawCompoundLoop f) (encKvs kvs) (encKvs kvs)) :
    R c (rawCompoundLoop (f + 1)) (encKvs ((k, v) :: kvs)) (encKvs ((k, v) :: kvs)) := by
  simp only [encKvs, encString]
  unfold rawCompoundLoop
  obtain ⟨t0, t1, t2⟩ := tag_not_magic v
  have : v.tag :: (beBytes 2 k.length ++ k) ++ encPayload v ++ encKvs kvs
      = [v.tag] ++ (beBytes 2 k.length ++ (k ++ (encPayload v ++ (encKvs kvs ++ [])))) := by simp
  rw [this]
  apply R_bind (R_readByte c _)
  have hn : ¬ (v.tag = 0x1f#8 ∨ v.tag = 0x78#8) := by rintro (h | h) <;> contradiction
  rw [if_neg hn, if_neg t0]
  apply R_bind (R_be c 2 _)
  rw [beWord_len16 _ hk, msb16_false _ hk, toNat16 _ hk]
  simp only [Bool.false_eq_true, if_false]
  have hname : R c (if k.length > 0 then Rd.readFull k.length else (Pure.pure [] : Rd Bytes)) k k := by
    by_cases h0 : k.length > 0
    · rw [if_pos h0]; exact R_readFull c k
    · rw [if_neg h0]
      have : k = [] := List.length_eq_zero_iff.mp (by omega)
      subst this
      exact R_pure c _
  apply R_bind hname
  apply R_bind h1
  apply R_bind h2
  exact R_val (by simp) (R_pure c _)

mutual
  /-- `rawRead` (unknown-field skipping; what `RawMessage` captures): on the encoding of a well-formed tree it
  consumes exactly that encoding and returns it — or, without enough fuel, an error. -/
  theorem raw_R : ∀ (t : NBT) (fuel : Nat), t.WF → S15 t →
      R (cost t ≤ fuel) (rawRead fuel t.tag) (encPayload t) (encPayload t)
    | t, 0, _, _ => by
      unfold rawRead
      exact R_fail (by have := cost_pos t; omega) _ _
    | .byte v, f + 1, _, _ => raw_byte _ f v
    | .short v, f + 1, _, _ => raw_short _ f v
    | .int v, f + 1, _, _ => raw_int _ f v
    | .long v, f + 1, _, _ => raw_long _ f v
    | .float v, f + 1, _, _ => raw_float _ f v
    | .double v, f + 1, _, _ => raw_double _ f v
    | .byteArray xs, f + 1, hwf, _ => raw_byteArray _ f xs (by simp only [NBT.WF, two31] at hwf; exact hwf)
    | .string s, f + 1, _, hs => raw_string _ f s (by simpa only [S15] using hs)
    | .intArray xs, f + 1, hwf, _ => raw_intArray _ f xs (by simp only [NBT.WF, two31] at hwf; exact hwf)
    | .longArray xs, f + 1, hwf, _ => raw_longArray _ f xs (by simp only [NBT.WF, two31] at hwf; exact hwf)
    | .list e xs, f + 1, hwf, hs => by
      simp only [NBT.WF, two31] at hwf
      obtain ⟨hlen, _, hle, hwfl⟩ := hwf
      simp only [S15] at hs
      have ih := rawList_R xs e f hwfl hs
      exact raw_list _ f e xs hlen hle (R_mono (by simp only [cost]; omega) ih)
    | .compound kvs, f + 1, hwf, hs => by
      simp only [NBT.WF] at hwf
      simp only [S15] at hs
      have ih := rawKvs_R kvs f hwf hs
      exact raw_compound _ f kvs (R_mono (by simp only [cost]; omega) ih)
  theorem rawList_R : ∀ (xs : List NBT) (e : BitVec 8) (fuel : Nat), NBT.WFList e xs → S15List xs →
      R (costList xs ≤ fuel) (rawListLoop fuel e xs.length) (encList xs) (encList xs)
    | [], e, fuel, _, _ => by
      simp only [List.length_nil, encList]
      unfold rawListLoop
      exact R_pure _ _
    | x :: xs, e, 0, _, _ => by
      simp only [List.length_cons]
      unfold rawListLoop
      exact R_fail (by simp only [costList]; omega) _ _
    | x :: xs, e, f + 1, hwf, hs => by
      simp only [NBT.WFList] at hwf
      obtain ⟨htag, hwx, hwxs⟩ := hwf
      simp only [S15List] at hs
      have h1 := raw_R x f hwx hs.1
      rw [htag] at h1
      have h2 := rawList_R xs e f hwxs hs.2
      exact rawList_cons _ f e x xs (R_mono (by simp only [costList]; omega) h1) (R_mono (by simp only [costList]; omega) h2)
  theorem rawKvs_R : ∀ (kvs : List (Bytes × NBT)) (fuel : Nat), NBT.WFKvs kvs → S15Kvs kvs →
      R (costKvs kvs ≤ fuel) (rawCompoundLoop fuel) (encKvs kvs) (encKvs kvs)
    | kvs, 0, _, _ => by
      unfold rawCompoundLoop
      exact R_fail (by cases kvs with
        | nil => simp [costKvs]
        | cons e kvs => obtain ⟨k, v⟩ := e; simp only [costKvs]; omega) _ _
    | [], f + 1, _, _ => rawKvs_nil _ f
    | (k, v) :: kvs, f + 1, hwf, hs => by
      simp only [NBT.WFKvs] at hwf
      simp only [S15Kvs] at hs
      have h1 := raw_R v f hwf.2.1 hs.2.1
      have h2 := rawKvs_R kvs f hwf.2.2 hs.2.2
      exact rawKvs_cons _ f k v kvs hs.1 (R_mono (by simp only [costKvs]; omega) h1)
        (R_mono (by simp only [costKvs]; omega) h2)
end


/-! ### fuel: `cost t ≤ |encPayload t| + 1`, so `input length + 3` is always enough -/

theorem enc_pos (t : NBT) : 1 ≤ (encPayload t).length :=
  Nat.le_trans (Spec.depth_pos t) (Spec.depth_le_length t)

mutual
  theorem cost_le : ∀ t : NBT, cost t ≤ (encPayload t).length + 1
    | .byte _ => by simp [cost]
    | .short _ => by simp [cost]
    | .int _ => by simp [cost]
    | .long _ => by simp [cost]
    | .float _ => by simp [cost]
    | .double _ => by simp [cost]
    | .byteArray _ => by simp [cost]
    | .string _ => by simp [cost]
    | .intArray _ => by simp [cost]
    | .longArray _ => by simp [cost]
    | .list _ xs => by
      have := costList_le xs
      simp only [cost, encPayload, List.length_cons, List.length_append, beBytes_length]; omega
    | .compound kvs => by
      have := costKvs_le kvs
      simp only [cost, encPayload]; omega
  theorem costList_le : ∀ xs : List NBT, costList xs ≤ (encList xs).length + 2
    | [] => by simp [costList]
    | x :: xs => by
      have := cost_le x
      have := enc_pos x
      have := costList_le xs
      simp only [costList, encList, List.length_append]; omega
  theorem costKvs_le : ∀ kvs : List (Bytes × NBT), costKvs kvs ≤ (encKvs kvs).length
    | [] => by simp [costKvs, encKvs]
    | (k, v) :: kvs => by
      have := cost_le v
      have := costKvs_le kvs
      have := Spec.encKvs_length kvs
      simp only [costKvs, encKvs, List.length_cons, List.length_append]; omega
end

/-! ### whole documents -/

def isNet : Format → Bool
  | .file => false
  | .network => true

theorem R_readHead (c : Prop) (fmt : Format) (name : Bytes) (t : NBT) (hn : name.length < 32768) :
    R c (readHead (isNet fmt)) (match fmt with | .file => t.tag :: encString name | .network => [t.tag])
      (t.tag, docName fmt name) := by
  obtain ⟨t0, t1, t2⟩ := tag_not_magic t
  cases fmt with
  | file =>
    simp only [isNet, readHead, docName, Bool.false_eq_true, if_false]
    exact R_readTag c t.tag name hn t0 t1 t2
  | network =>
    simp only [isNet, readHead, docName, if_true]
    exact R_enc (by simp) (R_bind (R_readByte c t.tag) (R_pure c _))

theorem encDoc_split (fmt : Format) (name : Bytes) (t : NBT) :
    encDoc fmt name t = (match fmt with | .file => t.tag :: encString name | .network => [t.tag]) ++ encPayload t := by
  cases fmt <;> simp [encDoc]

/-- `Decode` into a nil `any` at a given fuel -/
theorem decodeAnyF_R (fmt : Format) (name : Bytes) (t : NBT) (fuel : Nat) (hn : name.length < 32768)
    (hwf : t.WF) (hs : S15 t) :
    R (cost t ≤ fuel) (decodeAnyF fuel (isNet fmt)) (encDoc fmt name t) (goAny t, docName fmt name) := by
  rw [encDoc_split]
  unfold decodeAnyF
  apply R_bind (R_readHead _ fmt name t hn)
  simp only
  exact R_enc (by simp) (R_bind (any_R t fuel hwf hs) (R_pure _ _))

theorem fuelFor_enough (fmt : Format) (name : Bytes) (t : NBT) (rest : Bytes) (s : Stream)
    (h : s.flat = encDoc fmt name t ++ rest) : cost t + 1 ≤ fuelFor s := by
  have := cost_le t
  unfold fuelFor
  rw [h, encDoc_split]
  cases fmt <;> simp only [List.length_append, List.length_cons] <;> omega

/-- generic: a program that reads `enc` exactly (or fails for lack of fuel) and is extension-stable never
succeeds on a strict prefix of `enc` (uses `Rd.prefix_fails`) -/
theorem R_prefix {α : Type} {c : Prop} {p : Rd α} {enc : Bytes} {v : α} (hr : R c p enc v) (he : Rd.ExtStable p)
    (pre more : Bytes) (henc : enc = pre ++ more) (hmore : more ≠ []) (u : Stream) (hu : u.flat = pre) :
    ∀ b, (p u).1 ≠ Res.ok b := by
  let s : Stream := u.extend more false
  have hs : s.flat = enc ++ [] := by simp [s, hu, henc]
  rcases hr s [] hs with ⟨s', h1, h2, _⟩ | ⟨_, s', h1⟩
  · exact Rd.prefix_fails he (s := s) (pre := pre) (more := more) (rest := [])
      (by simp [s, hu]) h1 h2 hmore u hu
  · intro b hb
    rcases hpu : p u with ⟨r, u'⟩
    rw [hpu] at hb
    simp only at hb
    subst hb
    obtain ⟨s'', h3, _, _⟩ := he u b u' hpu s more (by simp [s, hu])
    rw [h1] at h3
    simp at h3


/-! ### typed destinations: `map[string]any`, `struct{}` (skipping), `RawMessage` -/

theorem tyMap_R (d : Bool) (kvs : List (Bytes × NBT)) (fuel : Nat) (acc : List (Bytes × GoAny))
    (hwf : NBT.WFKvs kvs) (hs : S15Kvs kvs) :
    R (cost (.compound kvs) ≤ fuel) (unmarshalTy d fuel .mapAny (.mapAny acc) (NBT.compound kvs).tag)
      (encPayload (.compound kvs)) (.mapAny (goAnyKvs acc kvs)) := by
  cases fuel with
  | zero => unfold unmarshalTy; exact R_fail (by simp [cost]) _ _
  | succ f =>
    unfold unmarshalTy
    have h : (10 : BitVec 8).toNat = 10 := rfl
    simp only [NBT.tag, NBT.tagCompound, h, encPayload]
    exact R_enc (by simp) (R_bind (R_mono (by simp only [cost]; omega) (anyKvs_R kvs f acc hwf hs)) (R_pure _ _))

theorem skipLoop_R : ∀ (kvs : List (Bytes × NBT)) (fuel : Nat), NBT.WFKvs kvs → S15Kvs kvs →
    R (costKvs kvs ≤ fuel) (structLoop false fuel [] []) (encKvs kvs) []
  | kvs, 0, _, _ => by
    unfold structLoop
    exact R_fail (by cases kvs with
      | nil => simp [costKvs]
      | cons e kvs => obtain ⟨k, v⟩ := e; simp only [costKvs]; omega) _ _
  | [], f + 1, _, _ => by
    simp only [encKvs]
    unfold structLoop
    have : ([NBT.tagEnd] : Bytes) = [0#8] ++ [] := rfl
    rw [this]
    apply R_bind (R_readTag_end _)
    simp only [if_true]
    exact R_pure _ _
  | (k, v) :: kvs, f + 1, hwf, hs => by
    simp only [NBT.WFKvs] at hwf
    simp only [S15Kvs] at hs
    simp only [encKvs]
    unfold structLoop
    obtain ⟨t0, t1, t2⟩ := tag_not_magic v
    have : v.tag :: encString k ++ encPayload v ++ encKvs kvs = (v.tag :: encString k) ++ (encPayload v ++ encKvs kvs) := by simp
    rw [this]
    apply R_bind (R_readTag _ v.tag k hs.1 t0 t1 t2)
    simp only [if_neg t0, findField_nil, Bool.false_eq_true, if_false]
    apply R_bind (R_mono (by simp only [costKvs]; omega) (raw_R v f hwf.2.1 hs.2.1))
    exact R_mono (by simp only [costKvs]; omega) (skipLoop_R kvs f hwf.2.2 hs.2.2)

theorem tySkip_R (kvs : List (Bytes × NBT)) (fuel : Nat) (hwf : NBT.WFKvs kvs) (hs : S15Kvs kvs) :
    R (cost (.compound kvs) ≤ fuel) (unmarshalTy false fuel (.struct []) (.struct []) (NBT.compound kvs).tag)
      (encPayload (.compound kvs)) (.struct []) := by
  cases fuel with
  | zero => unfold unmarshalTy; exact R_fail (by simp [cost]) _ _
  | succ f =>
    unfold unmarshalTy
    have h : (10 : BitVec 8).toNat = 10 := rfl
    simp only [NBT.tag, NBT.tagCompound, h, encPayload]
    exact R_enc (by simp) (R_bind (R_mono (by simp only [cost]; omega) (skipLoop_R kvs f hwf hs)) (R_pure _ _))

/-- with `DisallowUnknownFields`, the empty compound is the only document a `struct{}` accepts -/
theorem tyDisallow_R (fuel : Nat) :
    R (2 ≤ fuel) (unmarshalTy true fuel (.struct []) (.struct []) (NBT.compound []).tag)
      (encPayload (.compound [])) (.struct []) := by
  cases fuel with
  | zero => unfold unmarshalTy; exact R_fail (by omega) _ _
  | succ f =>
    unfold unmarshalTy
    have h : (10 : BitVec 8).toNat = 10 := rfl
    simp only [NBT.tag, NBT.tagCompound, h, encPayload, encKvs]
    cases f with
    | zero =>
      unfold structLoop
      have hf : R (2 ≤ 0 + 1) (Rd.fail : Rd (List (Bytes × Val))) [NBT.tagEnd] [] := R_fail (by omega) _ _
      exact R_enc (by simp) (R_bind hf (R_pure _ _))
    | succ f =>
      unfold structLoop
      have : ([NBT.tagEnd] : Bytes) = ([0#8] ++ []) ++ [] := rfl
      rw [this]
      apply R_bind
      · apply R_bind (R_readTag_end _)
        simp only [if_true]
        exact R_pure _ _
      · exact R_pure _ _

theorem tyRaw_R (d : Bool) (t : NBT) (fuel : Nat) (old : Val) (hwf : t.WF) (hs : S15 t) :
    R (cost t ≤ fuel) (unmarshalTy d fuel .raw old t.tag) (encPayload t) (.raw t.tag (encPayload t)) := by
  cases fuel with
  | zero => unfold unmarshalTy; exact R_fail (by have := cost_pos t; omega) _ _
  | succ f =>
    unfold unmarshalTy
    simp only [rawUnmarshal]
    rw [if_neg (tag_not_magic t).1]
    exact R_enc (by simp) (R_bind (raw_R t (f + 1) hwf hs) (R_pure _ _))

theorem decodeTyF_R {ty : Ty} {v : Val} (d : Bool) (fmt : Format) (name : Bytes) (t : NBT) (fuel : Nat) (c : Prop)
    (hn : name.length < 32768)
    (h : R c (unmarshalTy d fuel ty ty.zero t.tag) (encPayload t) v) :
    R c (decodeTyF fuel (isNet fmt) d ty) (encDoc fmt name t) (v, docName fmt name) := by
  rw [encDoc_split]
  unfold decodeTyF
  apply R_bind (R_readHead _ fmt name t hn)
  simp only
  exact R_enc (by simp) (R_bind h (R_pure _ _))



/-! ### concrete runs of the fixed-width readers -/

theorem be32_len (n : BitVec 32) : (be32 n).length = 4 := by simp [be32, Spec.beBytes_length]

theorem readFull_ok (xs rest : Bytes) (s : Stream) (hs : s.flat = xs ++ rest) :
    Rd.readFull xs.length s = (Res.ok xs, s.drop xs.length) := by
  unfold Rd.readFull
  have : xs.length ≤ (xs ++ rest).length := by simp
  simp only [hs, this, if_true, List.take_left']

theorem readFull4_be (n : BitVec 32) (rest : Bytes) (s : Stream) (hs : s.flat = be32 n ++ rest) :
    Rd.readFull 4 s = (Res.ok (be32 n), s.drop 4) := by
  have := readFull_ok (be32 n) rest s hs
  rwa [be32_len] at this

theorem readInt32_be (n : BitVec 32) (rest : Bytes) (s : Stream) (hs : s.flat = be32 n ++ rest) :
    readInt32 s = (Res.ok n, s.drop 4) := by
  unfold readInt32
  rw [Rd.bind_ok (readFull4_be n rest s hs), beWord_be32]
  rfl


end GoMC.Lemmas.NBTDecode
