/- helper lemmas for the packet-level session model (C10 history independence) -/
import GoMC.Model.ConnHist
namespace GoMC.Lemmas.ConnHist
open GoMC GoMC.Model.ConnHist

theorem run_append (s : Sess) (xs ys : List Step) :
    run s (xs ++ ys) = (run s xs).bind fun s' => run s' ys := by
  induction xs generalizing s with
  | nil => rfl
  | cons x xs ih =>
    simp only [List.cons_append, run]
    cases step s x with
    | none => rfl
    | some s' => exact ih s'

/-- one step only appends to the delivered lists, and conserves packets per direction -/
theorem step_facts {s s' : Sess} {x : Step} (h : step s x = some s') :
    (∃ d, s'.gotA = s.gotA ++ d) ∧ (∃ d, s'.gotB = s.gotB ++ d) ∧
    s'.gotB ++ s'.toB = s.gotB ++ s.toB ++ sentBy true [x] ∧
    s'.gotA ++ s'.toA = s.gotA ++ s.toA ++ sentBy false [x] := by
  cases x with
  | send f p =>
    cases f <;> simp only [step, Option.some.injEq] at h <;> subst h <;>
      simp [sentBy]
  | recv f =>
    cases f
    · simp only [step] at h
      cases hq : s.toB with
      | nil => rw [hq] at h; simp at h
      | cons p r =>
        rw [hq] at h
        simp only [Option.some.injEq] at h
        subst h
        simp [sentBy]
    · simp only [step] at h
      cases hq : s.toA with
      | nil => rw [hq] at h; simp at h
      | cons p r =>
        rw [hq] at h
        simp only [Option.some.injEq] at h
        subst h
        simp [sentBy]
  | other =>
    simp only [step, Option.some.injEq] at h
    subst h
    simp [sentBy]

theorem sentBy_cons (f : Bool) (x : Step) (xs : List Step) :
    sentBy f (x :: xs) = sentBy f [x] ++ sentBy f xs := by
  cases x with
  | send g p => by_cases h : g = f <;> simp [sentBy, h]
  | recv g => simp [sentBy]
  | other => simp [sentBy]

theorem run_facts {s s' : Sess} {xs : List Step} (h : run s xs = some s') :
    (∃ d, s'.gotA = s.gotA ++ d) ∧ (∃ d, s'.gotB = s.gotB ++ d) ∧
    s'.gotB ++ s'.toB = s.gotB ++ s.toB ++ sentBy true xs ∧
    s'.gotA ++ s'.toA = s.gotA ++ s.toA ++ sentBy false xs := by
  induction xs generalizing s with
  | nil =>
    simp only [run, Option.some.injEq] at h
    subst h
    exact ⟨⟨[], by simp⟩, ⟨[], by simp⟩, by simp [sentBy], by simp [sentBy]⟩
  | cons x xs ih =>
    simp only [run] at h
    cases hs : step s x with
    | none => rw [hs] at h; simp at h
    | some s1 =>
      rw [hs] at h
      obtain ⟨⟨d1, e1⟩, ⟨d2, e2⟩, c1, c2⟩ := step_facts hs
      obtain ⟨⟨d3, e3⟩, ⟨d4, e4⟩, c3, c4⟩ := ih h
      refine ⟨⟨d1 ++ d3, by rw [e3, e1, List.append_assoc]⟩, ⟨d2 ++ d4, by rw [e4, e2, List.append_assoc]⟩, ?_, ?_⟩
      · rw [c3, c1, sentBy_cons true x xs]; simp [List.append_assoc]
      · rw [c4, c2, sentBy_cons false x xs]; simp [List.append_assoc]

end GoMC.Lemmas.ConnHist
