/-
  Helper lemmas for C17 (text components): the JSON object decoder of `Model/Chat.lean` on the field
  groups that `marshalJSON` writes, the matcher of the format-code regexp, totality of the renderers.
-/
import GoMC.Model.Chat
namespace GoMC.Lemmas.Chat
open GoMC GoMC.Spec GoMC.Model GoMC.Model.Chat

theorem res_bind_assoc {α β γ} (x : Res α) (f : α → Res β) (g : β → Res γ) :
    (x >>= f) >>= g = x >>= fun a => f a >>= g := by
  cases x <;> rfl

/-! ### the object decoder, key by key -/

theorem decFields_cons (k : Bytes) (v : JSON) (rest : List (Bytes × JSON)) (d : Msg) :
    decFields ((k, v) :: rest) d = decField k v d >>= decFields rest := by
  rw [decFields]

theorem decFields_nil (d : Msg) : decFields [] d = .ok d := by rw [decFields]

theorem decFields_append (a b : List (Bytes × JSON)) (d : Msg) :
    decFields (a ++ b) d = decFields a d >>= decFields b := by
  induction a generalizing d with
  | nil => simp [decFields_nil]
  | cons kv a ih =>
    obtain ⟨k, v⟩ := kv
    simp only [List.cons_append, decFields_cons, res_bind_assoc]
    congr 1
    funext d'
    exact ih d'

theorem decFields_single (k : Bytes) (v : JSON) (d : Msg) : decFields [(k, v)] d = decField k v d := by
  rw [decFields_cons]
  cases decField k v d <;> simp [decFields_nil]

theorem decHover_cons (k : Bytes) (v : JSON) (rest : List (Bytes × JSON)) (h : Bytes × JSON × Msg) :
    decHover ((k, v) :: rest) h =
      (if foldKey k = foldKey kValue then do
          let m' ← unmarshalInto v h.2.2
          pure (h.1, h.2.1, m')
        else decHoverFlat k v h) >>= decHover rest := by
  rw [decHover]
theorem decHover_nil (h : Bytes × JSON × Msg) : decHover [] h = .ok h := by rw [decHover]

/-! the struct-tag names address their own fields -/
theorem fo_text : fieldOf kText = some .text := by decide +kernel
theorem fo_bold : fieldOf kBold = some .bold := by decide +kernel
theorem fo_italic : fieldOf kItalic = some .italic := by decide +kernel
theorem fo_underlined : fieldOf kUnderlined = some .underlined := by decide +kernel
theorem fo_strikethrough : fieldOf kStrikethrough = some .strikethrough := by decide +kernel
theorem fo_obfuscated : fieldOf kObfuscated = some .obfuscated := by decide +kernel
theorem fo_font : fieldOf kFont = some .font := by decide +kernel
theorem fo_color : fieldOf kColor = some .color := by decide +kernel
theorem fo_insertion : fieldOf kInsertion = some .insertion := by decide +kernel
theorem fo_click : fieldOf kClickEvent = some .clickEvent := by decide +kernel
theorem fo_hover : fieldOf kHoverEvent = some .hoverEvent := by decide +kernel
theorem fo_translate : fieldOf kTranslate = some .translate := by decide +kernel
theorem fo_with : fieldOf kWith = some .with_ := by decide +kernel
theorem fo_extra : fieldOf kExtra = some .extra := by decide +kernel

section groups
variable (san : Bytes → Bytes)
variable (t : Bytes) (b i u s o : Bool) (f c ins : Bytes) (ce : Option Click) (h : Option (Bytes × JSON × Msg))
variable (tr : Bytes) (a : List (Msg ⊕ Bytes)) (x : List Msg)

theorem dec_text (hs : san [] = []) (text : Bytes) (tr' : Bytes) :
    decFields (if tr' ≠ [] then omitStr san kText text else strField san kText text) ⟨[], b, i, u, s, o, f, c, ins, ce, h, tr, a, x⟩
      = .ok ⟨san text, b, i, u, s, o, f, c, ins, ce, h, tr, a, x⟩ := by
  have h1 : decFields (strField san kText text) ⟨[], b, i, u, s, o, f, c, ins, ce, h, tr, a, x⟩
      = .ok ⟨san text, b, i, u, s, o, f, c, ins, ce, h, tr, a, x⟩ := by
    unfold strField; rw [decFields_single, decField, fo_text]; rfl
  split
  · unfold omitStr
    split
    · next he => subst he; rw [decFields_nil, hs]
    · exact h1
  · exact h1

theorem dec_bold (v : Bool) :
    decFields (omitBool kBold v) ⟨t, false, i, u, s, o, f, c, ins, ce, h, tr, a, x⟩
      = .ok ⟨t, v, i, u, s, o, f, c, ins, ce, h, tr, a, x⟩ := by
  unfold omitBool; cases v
  · simp [decFields_nil]
  · simp only [if_true]; rw [decFields_single, decField, fo_bold]; rfl
theorem dec_italic (v : Bool) :
    decFields (omitBool kItalic v) ⟨t, b, false, u, s, o, f, c, ins, ce, h, tr, a, x⟩
      = .ok ⟨t, b, v, u, s, o, f, c, ins, ce, h, tr, a, x⟩ := by
  unfold omitBool; cases v
  · simp [decFields_nil]
  · simp only [if_true]; rw [decFields_single, decField, fo_italic]; rfl
theorem dec_underlined (v : Bool) :
    decFields (omitBool kUnderlined v) ⟨t, b, i, false, s, o, f, c, ins, ce, h, tr, a, x⟩
      = .ok ⟨t, b, i, v, s, o, f, c, ins, ce, h, tr, a, x⟩ := by
  unfold omitBool; cases v
  · simp [decFields_nil]
  · simp only [if_true]; rw [decFields_single, decField, fo_underlined]; rfl
theorem dec_strikethrough (v : Bool) :
    decFields (omitBool kStrikethrough v) ⟨t, b, i, u, false, o, f, c, ins, ce, h, tr, a, x⟩
      = .ok ⟨t, b, i, u, v, o, f, c, ins, ce, h, tr, a, x⟩ := by
  unfold omitBool; cases v
  · simp [decFields_nil]
  · simp only [if_true]; rw [decFields_single, decField, fo_strikethrough]; rfl
theorem dec_obfuscated (v : Bool) :
    decFields (omitBool kObfuscated v) ⟨t, b, i, u, s, false, f, c, ins, ce, h, tr, a, x⟩
      = .ok ⟨t, b, i, u, s, v, f, c, ins, ce, h, tr, a, x⟩ := by
  unfold omitBool; cases v
  · simp [decFields_nil]
  · simp only [if_true]; rw [decFields_single, decField, fo_obfuscated]; rfl

theorem dec_font (hs : san [] = []) (v : Bytes) :
    decFields (omitStr san kFont v) ⟨t, b, i, u, s, o, [], c, ins, ce, h, tr, a, x⟩
      = .ok ⟨t, b, i, u, s, o, san v, c, ins, ce, h, tr, a, x⟩ := by
  unfold omitStr; split
  · next he => subst he; rw [decFields_nil, hs]
  · rw [decFields_single, decField, fo_font]; rfl
theorem dec_color (hs : san [] = []) (v : Bytes) :
    decFields (omitStr san kColor v) ⟨t, b, i, u, s, o, f, [], ins, ce, h, tr, a, x⟩
      = .ok ⟨t, b, i, u, s, o, f, san v, ins, ce, h, tr, a, x⟩ := by
  unfold omitStr; split
  · next he => subst he; rw [decFields_nil, hs]
  · rw [decFields_single, decField, fo_color]; rfl
theorem dec_insertion (hs : san [] = []) (v : Bytes) :
    decFields (omitStr san kInsertion v) ⟨t, b, i, u, s, o, f, c, [], ce, h, tr, a, x⟩
      = .ok ⟨t, b, i, u, s, o, f, c, san v, ce, h, tr, a, x⟩ := by
  unfold omitStr; split
  · next he => subst he; rw [decFields_nil, hs]
  · rw [decFields_single, decField, fo_insertion]; rfl
theorem dec_translate (hs : san [] = []) (v : Bytes) :
    decFields (omitStr san kTranslate v) ⟨t, b, i, u, s, o, f, c, ins, ce, h, [], a, x⟩
      = .ok ⟨t, b, i, u, s, o, f, c, ins, ce, h, san v, a, x⟩ := by
  unfold omitStr; split
  · next he => subst he; rw [decFields_nil, hs]
  · rw [decFields_single, decField, fo_translate]; rfl

theorem dec_click (click : Option Click) :
    decFields (clickField san click) ⟨t, b, i, u, s, o, f, c, ins, none, h, tr, a, x⟩
      = .ok ⟨t, b, i, u, s, o, f, c, ins, normClick san click, h, tr, a, x⟩ := by
  cases click with
  | none => simp [decFields_nil, clickField, normClick]
  | some cl =>
    simp only [marshalClick, clickField, normClick]
    rw [decFields_single, decField]
    have e2 : ¬ foldKey kValue = foldKey kAction := by decide +kernel
    simp [decFlat, fo_click, decClick, decClickFields, decClickField, decString, Click.zero, e2]
end groups

/-! ### the nested groups and the round trip -/

/-- the arguments of a translation as the decoder returns them (all components) -/
def argMsgs (san : Bytes → Bytes) : List (Msg ⊕ Bytes) → List Msg
  | [] => []
  | .inl m :: r => norm san m :: argMsgs san r
  | .inr s :: r => Msg.ofText (san s) :: argMsgs san r

theorem argMsgs_map (san : Bytes → Bytes) (as : List (Msg ⊕ Bytes)) :
    (argMsgs san as).map Sum.inl = normArgs san as := by
  induction as with
  | nil => simp [argMsgs, normArgs]
  | cons a r ih => cases a <;> simp [argMsgs, normArgs, ih]

theorem decList_cons (x : JSON) (xs : List JSON) :
    decList (x :: xs) = (do let m ← unmarshalInto x Msg.zero; let ms ← decList xs; pure (m :: ms)) := by
  rw [decList]

theorem dec_hover_some (san : Bytes → Bytes) (t : Bytes) (b i u s o : Bool) (f c ins : Bytes) (ce : Option Click)
    (tr : Bytes) (a : List (Msg ⊕ Bytes)) (x : List Msg) (ha : Bytes) (hc : JSON) (hv : Msg)
    (ih : unmarshalInto (marshalJSON san hv) Msg.zero = .ok (norm san hv)) :
    decFields [(kHoverEvent, .obj [(kAction, .str (san ha)), (kContents, hc), (kValue, marshalJSON san hv)])]
        ⟨t, b, i, u, s, o, f, c, ins, ce, none, tr, a, x⟩
      = .ok ⟨t, b, i, u, s, o, f, c, ins, ce, some (san ha, canonAny hc, norm san hv), tr, a, x⟩ := by
  rw [decFields_single, decField]
  have e1 : ¬ foldKey kAction = foldKey kValue := by decide +kernel
  have e2 : ¬ foldKey kContents = foldKey kValue := by decide +kernel
  have e3 : ¬ foldKey kContents = foldKey kAction := by decide +kernel
  simp only [fo_hover, if_true, Option.getD, hoverZero, decHover_cons, decHover_nil, e1, e2, if_false, decHoverFlat, e3,
    decString, ih, Res.bind_ok, Res.pure_eq]

theorem dec_with (t : Bytes) (b i u s o : Bool) (f c ins : Bytes) (ce : Option Click) (h : Option (Bytes × JSON × Msg))
    (tr : Bytes) (x : List Msg) (js : List JSON) (ms : List Msg) (ih : decList js = .ok ms) :
    decFields [(kWith, .arr js)] ⟨t, b, i, u, s, o, f, c, ins, ce, h, tr, [], x⟩
      = .ok ⟨t, b, i, u, s, o, f, c, ins, ce, h, tr, ms.map Sum.inl, x⟩ := by
  rw [decFields_single, decField]
  simp only [fo_with, if_true, ih]
  rfl

theorem dec_extra (t : Bytes) (b i u s o : Bool) (f c ins : Bytes) (ce : Option Click) (h : Option (Bytes × JSON × Msg))
    (tr : Bytes) (a : List (Msg ⊕ Bytes)) (js : List JSON) (ms : List Msg) (ih : decList js = .ok ms) :
    decFields [(kExtra, .arr js)] ⟨t, b, i, u, s, o, f, c, ins, ce, h, tr, a, []⟩
      = .ok ⟨t, b, i, u, s, o, f, c, ins, ce, h, tr, a, ms⟩ := by
  rw [decFields_single, decField]
  have e : ¬ fieldOf kExtra = some Field.with_ := by rw [fo_extra]; decide
  simp only [fo_extra, if_true, ih]
  rfl

theorem zero_eq : Msg.zero = ⟨[], false, false, false, false, false, [], [], [], none, none, [], [], []⟩ := rfl

mutual
  theorem rt_msg (san : Bytes → Bytes) (hs : san [] = []) :
      ∀ m : Msg, unmarshalInto (marshalJSON san m) Msg.zero = .ok (norm san m)
    | ⟨text, b, i, u, s, o, f, c, ins, click, none, tr, args, extra⟩ => by
      have ha := rt_args san hs args
      have hx := rt_list san hs extra
      rw [marshalJSON.eq_def]; (try simp only []); rw [unmarshalInto, zero_eq]
      simp only [decFields_append, dec_text san _ _ _ _ _ _ _ _ _ _ _ _ _ hs, Res.bind_ok, dec_bold, dec_italic,
        dec_underlined, dec_strikethrough, dec_obfuscated, dec_font san _ _ _ _ _ _ _ _ _ _ _ _ _ hs,
        dec_color san _ _ _ _ _ _ _ _ _ _ _ _ _ hs, dec_insertion san _ _ _ _ _ _ _ _ _ _ _ _ _ hs, dec_click,
        decFields_nil, dec_translate san _ _ _ _ _ _ _ _ _ _ _ _ _ hs]
      cases args with
      | nil =>
        cases extra with
        | nil => simp only [decFields_nil, Res.bind_ok]; rfl
        | cons x0 xs =>
          simp only [decFields_nil, Res.bind_ok]
          rw [dec_extra _ _ _ _ _ _ _ _ _ _ _ _ _ _ _ hx]
          rfl
      | cons a0 as =>
        simp only
        rw [dec_with _ _ _ _ _ _ _ _ _ _ _ _ _ _ _ ha, argMsgs_map]
        cases extra with
        | nil => simp only [decFields_nil, Res.bind_ok]; rfl
        | cons x0 xs =>
          simp only [Res.bind_ok]
          rw [dec_extra _ _ _ _ _ _ _ _ _ _ _ _ _ _ _ hx]
          rfl
    | ⟨text, b, i, u, s, o, f, c, ins, click, some (hact, hcon, hval), tr, args, extra⟩ => by
      have hh := rt_msg san hs hval
      have ha := rt_args san hs args
      have hx := rt_list san hs extra
      rw [marshalJSON.eq_def]; (try simp only []); rw [unmarshalInto, zero_eq]
      simp only [decFields_append, dec_text san _ _ _ _ _ _ _ _ _ _ _ _ _ hs, Res.bind_ok, dec_bold, dec_italic,
        dec_underlined, dec_strikethrough, dec_obfuscated, dec_font san _ _ _ _ _ _ _ _ _ _ _ _ _ hs,
        dec_color san _ _ _ _ _ _ _ _ _ _ _ _ _ hs, dec_insertion san _ _ _ _ _ _ _ _ _ _ _ _ _ hs, dec_click,
        dec_hover_some san _ _ _ _ _ _ _ _ _ _ _ _ _ _ _ _ hh, dec_translate san _ _ _ _ _ _ _ _ _ _ _ _ _ hs]
      cases args with
      | nil =>
        cases extra with
        | nil => simp only [decFields_nil, Res.bind_ok]; rfl
        | cons x0 xs =>
          simp only [decFields_nil, Res.bind_ok]
          rw [dec_extra _ _ _ _ _ _ _ _ _ _ _ _ _ _ _ hx]
          rfl
      | cons a0 as =>
        simp only
        rw [dec_with _ _ _ _ _ _ _ _ _ _ _ _ _ _ _ ha, argMsgs_map]
        cases extra with
        | nil => simp only [decFields_nil, Res.bind_ok]; rfl
        | cons x0 xs =>
          simp only [Res.bind_ok]
          rw [dec_extra _ _ _ _ _ _ _ _ _ _ _ _ _ _ _ hx]
          rfl
  theorem rt_args (san : Bytes → Bytes) (hs : san [] = []) :
      ∀ as : List (Msg ⊕ Bytes), decList (marshalArgs san as) = .ok (argMsgs san as)
    | [] => by rw [marshalArgs, decList, argMsgs]
    | .inl m :: r => by
      rw [marshalArgs, decList_cons, rt_msg san hs m, argMsgs]
      simp only [Res.bind_ok, rt_args san hs r, Res.pure_eq]
    | .inr s :: r => by
      rw [marshalArgs, decList_cons, unmarshalInto, argMsgs]
      simp only [Res.bind_ok, rt_args san hs r, Res.pure_eq]
      rfl
  theorem rt_list (san : Bytes → Bytes) (hs : san [] = []) :
      ∀ xs : List Msg, decList (marshalList san xs) = .ok (normList san xs)
    | [] => by rw [marshalList, decList, normList]
    | m :: r => by
      rw [marshalList, decList_cons, rt_msg san hs m, normList]
      simp only [Res.bind_ok, rt_list san hs r, Res.pure_eq]
end


/-! ### the format-code pattern and plain mode -/

/-- the class `[\dA-FK-OR]` under `(?i)`, spelled out -/
def patClass : List Byte :=
  [0x30#8, 0x31#8, 0x32#8, 0x33#8, 0x34#8, 0x35#8, 0x36#8, 0x37#8, 0x38#8, 0x39#8,
   0x41#8, 0x42#8, 0x43#8, 0x44#8, 0x45#8, 0x46#8, 0x4b#8, 0x4c#8, 0x4d#8, 0x4e#8, 0x4f#8, 0x52#8,
   0x61#8, 0x62#8, 0x63#8, 0x64#8, 0x65#8, 0x66#8, 0x6b#8, 0x6c#8, 0x6d#8, 0x6e#8, 0x6f#8, 0x72#8]

theorem isPatCode_table (c : Byte) : isPatCode c = patClass.contains c := by
  have : ∀ n : Fin (2 ^ 8), isPatCode (BitVec.ofFin n) = patClass.contains (BitVec.ofFin n) := by decide +kernel
  exact this c.toFin

theorem isPatCode_eq_isFormatCode (c : Byte) : isPatCode c = isFormatCode c := by
  have : ∀ n : Fin (2 ^ 8), isPatCode (BitVec.ofFin n) = isFormatCode (BitVec.ofFin n) := by decide +kernel
  exact this c.toFin

theorem ctrlRepl_plain (c : Byte) (h : isPatCode c = true) :
    ctrlRepl false [0xC2#8, 0xA7#8, c] = .ok ([], false) := by
  have : ∀ n : Fin (2 ^ 8), isPatCode (BitVec.ofFin n) = true →
      ctrlRepl false [0xC2#8, 0xA7#8, BitVec.ofFin n] = .ok ([], false) := by decide +kernel
  exact this c.toFin h

theorem ctrlRepl_ok (ansi : Bool) (c : Byte) : ∃ r, ctrlRepl ansi [0xC2#8, 0xA7#8, c] = .ok r := by
  have : ∀ (a : Bool) (n : Fin (2 ^ 8)), (ctrlRepl a [0xC2#8, 0xA7#8, BitVec.ofFin n]).isOk = true := by decide +kernel
  have h := this ansi c.toFin
  cases hc : ctrlRepl ansi [0xC2#8, 0xA7#8, c] with
  | ok r => exact ⟨r, rfl⟩
  | err => simp [show BitVec.ofFin c.toFin = c from rfl, hc, Res.isOk] at h
  | panic => simp [show BitVec.ofFin c.toFin = c from rfl, hc, Res.isOk] at h

theorem transGo_plain (skip : Nat) (bs : Bytes) : transGo false skip bs = .ok (stripGo skip bs, false) := by
  induction bs generalizing skip with
  | nil => cases skip <;> rfl
  | cons b r ih =>
    cases skip with
    | succ k => rw [transGo, stripGo]; exact ih k
    | zero =>
      cases r with
      | nil =>
        rw [transGo, stripGo]
        · simp only [ih 0, Res.bind_ok, Res.pure_eq]
        all_goals (intro _ _ _ h; cases h)
      | cons b2 r2 =>
        cases r2 with
        | nil =>
          rw [transGo, stripGo]
          · simp only [ih 0, Res.bind_ok, Res.pure_eq]
          all_goals (intro _ _ _ h; cases h)
        | cons c r' =>
          rw [transGo, stripGo]
          simp only [isPatCode_eq_isFormatCode]
          split
          · next h =>
            obtain ⟨rfl, rfl, hc⟩ := h
            rw [ctrlRepl_plain c (by rw [isPatCode_eq_isFormatCode]; exact hc)]
            simp only [ih 2, Res.bind_ok, Res.pure_eq, List.nil_append, Bool.or_self]
          · simp only [ih 0, Res.bind_ok, Res.pure_eq]


theorem transGo_ok (ansi : Bool) (skip : Nat) (bs : Bytes) : ∃ r, transGo ansi skip bs = .ok r := by
  induction bs generalizing skip with
  | nil => cases skip <;> exact ⟨_, rfl⟩
  | cons b r ih =>
    cases skip with
    | succ k => rw [transGo]; exact ih k
    | zero =>
      obtain ⟨r0, h0⟩ := ih 0
      cases r with
      | nil =>
        rw [transGo]
        · simp only [h0, Res.bind_ok, Res.pure_eq]; exact ⟨_, rfl⟩
        all_goals (intro _ _ _ h; cases h)
      | cons b2 r2 =>
        cases r2 with
        | nil =>
          rw [transGo]
          · simp only [h0, Res.bind_ok, Res.pure_eq]; exact ⟨_, rfl⟩
          all_goals (intro _ _ _ h; cases h)
        | cons c r' =>
          rw [transGo]
          split
          · next h =>
            obtain ⟨rfl, rfl, _⟩ := h
            obtain ⟨rc, hc⟩ := ctrlRepl_ok ansi c
            obtain ⟨r2, h2⟩ := ih 2
            simp only [hc, h2, Res.bind_ok, Res.pure_eq]; exact ⟨_, rfl⟩
          · simp only [h0, Res.bind_ok, Res.pure_eq]; exact ⟨_, rfl⟩

theorem transCtrlSeq_ok (ansi : Bool) (bs : Bytes) : ∃ r, transCtrlSeq ansi bs = .ok r := transGo_ok ansi 0 bs

theorem goSliceTo_pred (bs : Bytes) (h : bs.length > 0) :
    goSliceTo bs ((bs.length : Int) - 1) = .ok (bs.take (bs.length - 1)) := by
  unfold goSliceTo
  have h1 : (0 : Int) ≤ (bs.length : Int) - 1 ∧ (bs.length : Int) - 1 ≤ bs.length := by omega
  simp only [h1, and_self, if_true]
  congr 2
  omega

/-! ### the renderers are total -/

mutual
  theorem clearString_ok (lang : Bytes → Bytes) : ∀ m : Msg, ∃ r, clearString lang m = .ok r
    | ⟨text, _, _, _, _, _, _, _, _, _, _, translate, args, extra⟩ => by
      obtain ⟨t, ht⟩ := transCtrlSeq_ok false text
      obtain ⟨a, ha⟩ := clearArgs_ok lang args
      obtain ⟨x, hx⟩ := clearList_ok lang extra
      rw [clearString]
      simp only [ht, Res.bind_ok]
      by_cases htr : translate = []
      · simp only [htr, ne_eq, not_true_eq_false, if_false, Res.pure_eq, Res.bind_ok, hx]; exact ⟨_, rfl⟩
      · simp only [ne_eq, htr, not_false_eq_true, if_true, ha, Res.bind_ok, Res.pure_eq, hx]; exact ⟨_, rfl⟩
  theorem clearArgs_ok (lang : Bytes → Bytes) : ∀ as : List (Msg ⊕ Bytes), ∃ r, clearArgs lang as = .ok r
    | [] => ⟨_, by rw [clearArgs]⟩
    | .inl m :: r => by
      obtain ⟨s, hs⟩ := clearString_ok lang m
      obtain ⟨a, ha⟩ := clearArgs_ok lang r
      rw [clearArgs]; simp only [hs, ha, Res.bind_ok, Res.pure_eq]; exact ⟨_, rfl⟩
    | .inr s :: r => by
      obtain ⟨a, ha⟩ := clearArgs_ok lang r
      rw [clearArgs]; simp only [ha, Res.bind_ok, Res.pure_eq]; exact ⟨_, rfl⟩
  theorem clearList_ok (lang : Bytes → Bytes) : ∀ xs : List Msg, ∃ r, clearList lang xs = .ok r
    | [] => ⟨_, by rw [clearList]⟩
    | m :: r => by
      obtain ⟨s, hs⟩ := clearString_ok lang m
      obtain ⟨a, ha⟩ := clearList_ok lang r
      rw [clearList]; simp only [hs, ha, Res.bind_ok, Res.pure_eq]; exact ⟨_, rfl⟩
end

mutual
  theorem ansiString_ok (lang : Bytes → Bytes) : ∀ m : Msg, ∃ r, ansiString lang m = .ok r
    | ⟨text, bold, italic, underlined, strikethrough, _, _, color, _, _, _, translate, args, extra⟩ => by
      obtain ⟨t, ht⟩ := transCtrlSeq_ok true text
      obtain ⟨a, ha⟩ := ansiArgs_ok lang args
      obtain ⟨x, hx⟩ := ansiList_ok lang extra
      rw [ansiString]
      have hpre : ∃ p, (if (styleFormat bold italic underlined strikethrough color).length > 0 then do
            let f ← goSliceTo (styleFormat bold italic underlined strikethrough color)
              (((styleFormat bold italic underlined strikethrough color).length : Int) - 1)
            pure (esc ++ f ++ [0x6d#8])
          else pure [] : Res Bytes) = .ok p := by
        by_cases hl : (styleFormat bold italic underlined strikethrough color).length > 0
        · simp only [hl, if_true, goSliceTo_pred _ hl, Res.bind_ok, Res.pure_eq]; exact ⟨_, rfl⟩
        · simp only [hl, if_false, Res.pure_eq]; exact ⟨_, rfl⟩
      obtain ⟨p, hp⟩ := hpre
      simp only [hp, ht, Res.bind_ok]
      by_cases htr : translate = []
      · simp only [htr, ne_eq, not_true_eq_false, if_false, Res.pure_eq, Res.bind_ok, hx]; exact ⟨_, rfl⟩
      · simp only [ne_eq, htr, not_false_eq_true, if_true, ha, Res.bind_ok, Res.pure_eq, hx]; exact ⟨_, rfl⟩
  theorem ansiArgs_ok (lang : Bytes → Bytes) : ∀ as : List (Msg ⊕ Bytes), ∃ r, ansiArgs lang as = .ok r
    | [] => ⟨_, by rw [ansiArgs]⟩
    | .inl m :: r => by
      obtain ⟨s, hs⟩ := ansiString_ok lang m
      obtain ⟨a, ha⟩ := ansiArgs_ok lang r
      rw [ansiArgs]; simp only [hs, ha, Res.bind_ok, Res.pure_eq]; exact ⟨_, rfl⟩
    | .inr s :: r => by
      obtain ⟨a, ha⟩ := ansiArgs_ok lang r
      rw [ansiArgs]; simp only [ha, Res.bind_ok, Res.pure_eq]; exact ⟨_, rfl⟩
  theorem ansiList_ok (lang : Bytes → Bytes) : ∀ xs : List Msg, ∃ r, ansiList lang xs = .ok r
    | [] => ⟨_, by rw [ansiList]⟩
    | m :: r => by
      obtain ⟨s, hs⟩ := ansiString_ok lang m
      obtain ⟨a, ha⟩ := ansiList_ok lang r
      rw [ansiList]; simp only [hs, ha, Res.bind_ok, Res.pure_eq]; exact ⟨_, rfl⟩
end

/-! ### fmt.Fprintf on formats made of text, `%s`, `%%`, `%[n]s` -/

def litsOK : List Seg → Prop
  | [] => True
  | .lit bs :: r => 0x25#8 ∉ bs ∧ litsOK r
  | _ :: r => litsOK r

/-- number of `%…` directives -/
def directives : List Seg → Nat
  | [] => 0
  | .lit _ :: r => directives r
  | _ :: r => directives r + 1

theorem splitAt_none (c : Byte) (pre : Bytes) (h : c ∉ pre) : splitAt c pre = (pre, none) := by
  induction pre with
  | nil => rfl
  | cons b r ih =>
    have hb : ¬ b = c := fun e => h (by simp [e])
    have hr : c ∉ r := fun e => h (by simp [e])
    simp [splitAt, hb, ih hr]

theorem splitAt_some (c : Byte) (pre rest : Bytes) (h : c ∉ pre) : splitAt c (pre ++ c :: rest) = (pre, some rest) := by
  induction pre with
  | nil => simp [splitAt]
  | cons b r ih =>
    have hb : ¬ b = c := fun e => h (by simp [e])
    have hr : c ∉ r := fun e => h (by simp [e])
    simp [splitAt, hb, ih hr]

theorem drop_map_text (args : List FArg) (k : Nat) (a : FArg) (h : args[k]? = some a) :
    (args.drop k).map FArg.text = a.text :: (args.drop (k + 1)).map FArg.text := by
  have hk : k < args.length := by
    rcases Nat.lt_or_ge k args.length with h' | h'
    · exact h'
    · rw [List.getElem?_eq_none h'] at h; cases h
  rw [List.drop_eq_getElem_cons hk]
  have : args[k] = a := by
    rw [List.getElem?_eq_getElem hk] at h; exact Option.some.inj h
  simp [this]

theorem doPrintf_seq (args : List FArg) :
    ∀ (segs : List Seg) (fuel argNum : Nat) (pre out : Bytes),
      litsOK segs → hasIdx segs = false → countNext segs + argNum = args.length → directives segs < fuel →
      0x25#8 ∉ pre →
      doPrintf args fuel (pre ++ Seg.render segs) argNum false out
        = (out ++ pre ++ substSeq segs ((args.drop argNum).map FArg.text), true) := by
  intro segs
  induction segs with
  | nil =>
    intro fuel argNum pre out _ _ hc hf hp
    obtain ⟨f, rfl⟩ : ∃ f, fuel = f + 1 := ⟨fuel - 1, by simp [directives] at hf; omega⟩
    simp only [Seg.render, List.append_nil, doPrintf, splitAt_none _ _ hp, substSeq]
    simp only [countNext, Nat.zero_add] at hc
    simp [finish, hc]
  | cons sg r ih =>
    intro fuel argNum pre out hl hi hc hf hp
    cases sg with
    | lit bs =>
      have h := ih fuel argNum (pre ++ bs) out hl.2 (by simpa [hasIdx] using hi) (by simpa [countNext] using hc)
        (by simpa [directives] using hf) (by simp [hp, hl.1])
      simp only [Seg.render, substSeq]
      rw [← List.append_assoc, h]
      simp [List.append_assoc]
    | idx n => simp [hasIdx] at hi
    | next =>
      obtain ⟨f, rfl⟩ : ∃ f, fuel = f + 1 := ⟨fuel - 1, by simp [directives] at hf; omega⟩
      have hlt : argNum < args.length := by simp [countNext] at hc; omega
      obtain ⟨a, ha⟩ : ∃ a, args[argNum]? = some a := ⟨args[argNum], List.getElem?_eq_getElem hlt⟩
      have hr := ih f (argNum + 1) [] (out ++ pre ++ a.text) hl (by simpa [hasIdx] using hi)
        (by simp [countNext] at hc; omega) (by simp [directives] at hf; omega) (by simp)
      simp only [List.nil_append] at hr
      simp only [Seg.render, List.cons_append, List.nil_append]
      rw [doPrintf, splitAt_some _ _ _ hp]
      have hpf : parseFlags (0x73#8 :: Seg.render r) false = (0x73#8 :: Seg.render r, false) := by
        simp [parseFlags, isFlag]
      simp only [hpf]
      have hfast : (0x61 ≤ (0x73#8 : Byte).toNat ∧ (0x73#8 : Byte).toNat ≤ 0x7a ∧ argNum < args.length) := ⟨by decide, by decide, hlt⟩
      simp only [hfast, and_self, if_true, ha]
      have hpa : printArg a 0x73#8 false = some a.text := by simp [printArg]
      simp only [hpa, hr, substSeq, drop_map_text args argNum a ha]
      simp [List.append_assoc]
    | pct =>
      obtain ⟨f, rfl⟩ : ∃ f, fuel = f + 1 := ⟨fuel - 1, by simp [directives] at hf; omega⟩
      have hr := ih f argNum [] (out ++ pre ++ [0x25#8]) hl (by simpa [hasIdx] using hi)
        (by simpa [countNext] using hc) (by simp [directives] at hf; omega) (by simp)
      simp only [List.nil_append] at hr
      simp only [Seg.render, List.cons_append, List.nil_append]
      rw [doPrintf, splitAt_some _ _ _ hp]
      have hpf : parseFlags (0x25#8 :: Seg.render r) false = (0x25#8 :: Seg.render r, false) := by
        simp [parseFlags, isFlag]
      simp only [hpf]
      have hnf : ¬ (0x61 ≤ (0x25#8 : Byte).toNat ∧ (0x25#8 : Byte).toNat ≤ 0x7a ∧ argNum < args.length) := by
        intro h; exact absurd h.1 (by decide)
      simp only [hnf, if_false]
      have han : argNumber argNum (0x25#8 :: Seg.render r) args.length true false
          = ⟨argNum, 0x25#8 :: Seg.render r, false, true, false⟩ := by
        simp [argNumber]
      simp only [han]
      have hdg : isDigit 0x25#8 = false := by decide
      simp only [List.append_assoc, List.nil_append, List.map_drop] at hr
      simp [hdg, hr, substSeq, List.append_assoc]

/-! indexes `%[n]s`, 1 ≤ n ≤ 99 -/

def idxOK (nargs : Nat) : List Seg → Prop
  | [] => True
  | .idx n :: r => 1 ≤ n ∧ n ≤ nargs ∧ n < 100 ∧ idxOK nargs r
  | _ :: r => idxOK nargs r

theorem digits_small (n : Nat) (h : n < 100) :
    0x5d#8 ∉ decimalNat 25 n ∧ parseNum (decimalNat 25 n) 0 false = some n ∧ 1 ≤ (decimalNat 25 n).length := by
  have : ∀ k : Fin 100, 0x5d#8 ∉ decimalNat 25 k.val ∧ parseNum (decimalNat 25 k.val) 0 false = some k.val
      ∧ 1 ≤ (decimalNat 25 k.val).length := by decide +kernel
  exact this ⟨n, h⟩

theorem drop_bracket (digits X : Bytes) :
    (0x5b#8 :: (digits ++ 0x5d#8 :: X)).drop (digits.length + 2) = X := by
  have : digits.length + 2 = (digits.length + 1) + 1 := rfl
  rw [this, List.drop_succ_cons]
  have h2 : (digits ++ 0x5d#8 :: X) = (digits ++ [0x5d#8]) ++ X := by simp
  rw [h2, List.drop_append_of_le_length (by simp)]
  simp

theorem argNumber_idx (argNum n nargs : Nat) (b : Bool) (X : Bytes) (h1 : 1 ≤ n) (h2 : n ≤ nargs) (h3 : n < 100) :
    argNumber argNum (0x5b#8 :: (decimalNat 25 n ++ 0x5d#8 :: X)) nargs true b
      = ⟨n - 1, X, true, true, true⟩ := by
  obtain ⟨hd1, hd2, hd3⟩ := digits_small n h3
  have hlen : ¬ (0x5b#8 :: (decimalNat 25 n ++ 0x5d#8 :: X)).length < 3 := by
    simp only [List.length_cons, List.length_append]; omega
  have hpa : parseArgNumber (0x5b#8 :: (decimalNat 25 n ++ 0x5d#8 :: X))
      = ((n : Int) - 1, (decimalNat 25 n).length + 2, true) := by
    unfold parseArgNumber
    simp only [hlen, if_false, splitAt_some _ _ _ hd1, hd2]
  unfold argNumber
  simp only [if_true, hpa]
  have hc : (true = true ∧ (0 : Int) ≤ (n : Int) - 1 ∧ (n : Int) - 1 < (nargs : Int)) := ⟨rfl, by omega, by omega⟩
  simp only [hc, and_self, if_true, drop_bracket]
  congr 1
  omega

theorem getD_map_text (args : List FArg) (k : Nat) (a : FArg) (h : args[k]? = some a) :
    (args.map FArg.text).getD k [] = a.text := by
  simp [List.getD, h]

theorem doPrintf_idx (args : List FArg) :
    ∀ (segs : List Seg) (fuel argNum : Nat) (b : Bool) (pre out : Bytes),
      litsOK segs → countNext segs = 0 → idxOK args.length segs → (b = true ∨ hasIdx segs = true) →
      directives segs < fuel → 0x25#8 ∉ pre →
      doPrintf args fuel (pre ++ Seg.render segs) argNum b out
        = (out ++ pre ++ substIdx (args.map FArg.text) segs, true) := by
  intro segs
  induction segs with
  | nil =>
    intro fuel argNum b pre out _ _ _ hb hf hp
    obtain ⟨f, rfl⟩ : ∃ f, fuel = f + 1 := ⟨fuel - 1, by simp [directives] at hf; omega⟩
    have hb' : b = true := by simpa [hasIdx] using hb
    subst hb'
    simp only [Seg.render, List.append_nil, doPrintf, splitAt_none _ _ hp, substIdx]
    simp [finish]
  | cons sg r ih =>
    intro fuel argNum b pre out hl hc hix hb hf hp
    cases sg with
    | lit bs =>
      have h := ih fuel argNum b (pre ++ bs) out hl.2 (by simpa [countNext] using hc) hix (by simpa [hasIdx] using hb)
        (by simpa [directives] using hf) (by simp [hp, hl.1])
      simp only [Seg.render, substIdx]
      rw [← List.append_assoc, h]
      simp [List.append_assoc]
    | next => simp [countNext] at hc
    | pct =>
      obtain ⟨f, rfl⟩ : ∃ f, fuel = f + 1 := ⟨fuel - 1, by simp [directives] at hf; omega⟩
      have hr := ih f argNum b [] (out ++ pre ++ [0x25#8]) hl (by simpa [countNext] using hc) hix
        (by simpa [hasIdx] using hb) (by simp [directives] at hf; omega) (by simp)
      simp only [Seg.render, List.cons_append, List.nil_append]
      rw [doPrintf, splitAt_some _ _ _ hp]
      have hpf : parseFlags (0x25#8 :: Seg.render r) false = (0x25#8 :: Seg.render r, false) := by
        simp [parseFlags, isFlag]
      simp only [hpf]
      have hnf : ¬ (0x61 ≤ (0x25#8 : Byte).toNat ∧ (0x25#8 : Byte).toNat ≤ 0x7a ∧ argNum < args.length) := by
        intro h; exact absurd h.1 (by decide)
      simp only [hnf, if_false]
      have han : argNumber argNum (0x25#8 :: Seg.render r) args.length true b
          = ⟨argNum, 0x25#8 :: Seg.render r, false, true, b⟩ := by
        simp [argNumber]
      simp only [han]
      have hdg : isDigit 0x25#8 = false := by decide
      simp only [List.append_assoc, List.nil_append] at hr
      simp [hdg, hr, substIdx, List.append_assoc]
    | idx n =>
      obtain ⟨f, rfl⟩ : ∃ f, fuel = f + 1 := ⟨fuel - 1, by simp [directives] at hf; omega⟩
      obtain ⟨h1, h2, h3, hix'⟩ := hix
      have hlt : n - 1 < args.length := by omega
      obtain ⟨a, ha⟩ : ∃ a, args[n - 1]? = some a := ⟨args[n - 1], List.getElem?_eq_getElem hlt⟩
      have hr := ih f (n - 1 + 1) true [] (out ++ pre ++ a.text) hl (by simpa [countNext] using hc) hix'
        (Or.inl rfl) (by simp [directives] at hf; omega) (by simp)
      simp only [Seg.render, List.cons_append, List.nil_append, List.append_assoc]
      rw [doPrintf, splitAt_some _ _ _ hp]
      have hpf : parseFlags (0x5b#8 :: (decimalNat 25 n ++ 0x5d#8 :: 0x73#8 :: Seg.render r)) false
          = (0x5b#8 :: (decimalNat 25 n ++ 0x5d#8 :: 0x73#8 :: Seg.render r), false) := by
        simp [parseFlags, isFlag]
      simp only [hpf]
      have hnf : ¬ (0x61 ≤ (0x5b#8 : Byte).toNat ∧ (0x5b#8 : Byte).toNat ≤ 0x7a ∧ argNum < args.length) := by
        intro h; exact absurd h.1 (by decide)
      simp only [hnf, if_false, argNumber_idx argNum n args.length b _ h1 h2 h3]
      have hdg : isDigit 0x73#8 = false := by decide
      have hpa : printArg a 0x73#8 false = some a.text := by simp [printArg]
      simp only [List.append_assoc, List.nil_append] at hr
      simp [hdg, ha, hpa, hr, substIdx, List.append_assoc]


theorem directives_le (segs : List Seg) : directives segs ≤ (Seg.render segs).length := by
  induction segs with
  | nil => simp [directives]
  | cons sg r ih => cases sg <;> simp [directives, Seg.render] <;> omega

theorem fprintf_seq (segs : List Seg) (args : List FArg) (hl : litsOK segs) (hi : hasIdx segs = false)
    (hc : countNext segs = args.length) :
    fprintf (Seg.render segs) args = (substSeq segs (args.map FArg.text), true) := by
  have h := doPrintf_seq args segs ((Seg.render segs).length + 1) 0 [] [] hl hi (by simpa using hc)
    (by have := directives_le segs; omega) (by simp)
  simpa [fprintf] using h

theorem fprintf_idx (segs : List Seg) (args : List FArg) (hl : litsOK segs) (hc : countNext segs = 0)
    (hix : idxOK args.length segs) (hh : hasIdx segs = true) :
    fprintf (Seg.render segs) args = (substIdx (args.map FArg.text) segs, true) := by
  have h := doPrintf_idx args segs ((Seg.render segs).length + 1) 0 false [] [] hl hc hix (Or.inr hh)
    (by have := directives_le segs; omega) (by simp)
  simpa [fprintf] using h

/-! ### which JSON values the decoder accepts -/

def isStrOrNull : JSON → Bool
  | .str _ => true
  | .null => true
  | _ => false
def isBoolOrNull : JSON → Bool
  | .bool _ => true
  | .null => true
  | _ => false

def okClickFields : List (Bytes × JSON) → Bool
  | [] => true
  | (k, v) :: r =>
    (if foldKey k = foldKey kAction ∨ foldKey k = foldKey kValue then isStrOrNull v else true) && okClickFields r

def okClick : JSON → Bool
  | .null => true
  | .obj kvs => okClickFields kvs
  | _ => false

/-- a value without nested components under the field `f` -/
def okFlat (f : Option Field) (v : JSON) : Bool :=
  match f with
  | none => true
  | some .text | some .font | some .color | some .insertion | some .translate => isStrOrNull v
  | some .bold | some .italic | some .underlined | some .strikethrough | some .obfuscated => isBoolOrNull v
  | some .clickEvent => okClick v
  | some .hoverEvent | some .with_ | some .extra =>
    match v with
    | .null => true
    | _ => false

mutual
  /-- the trees `UnmarshalJSON` accepts: a string, a list of accepted trees, an object whose known keys
  (case-folded) carry values of the right kind (`null` allowed except for a component) -/
  def okMsg : JSON → Bool
    | .str _ => true
    | .arr xs => okList xs
    | .obj kvs => okFields kvs
    | .null => false
    | .bool _ => false
    | .num _ => false
  termination_by structural x => x
  def okFields : List (Bytes × JSON) → Bool
    | [] => true
    | (k, v) :: r => okField k v && okFields r
  termination_by structural x => x
  def okField (k : Bytes) : JSON → Bool
    | .obj hk => if fieldOf k = some .hoverEvent then okHover hk else okFlat (fieldOf k) (.obj hk)
    | .arr xs => if fieldOf k = some .with_ ∨ fieldOf k = some .extra then okList xs else okFlat (fieldOf k) (.arr xs)
    | .null => okFlat (fieldOf k) .null
    | .bool b => okFlat (fieldOf k) (.bool b)
    | .num t => okFlat (fieldOf k) (.num t)
    | .str s => okFlat (fieldOf k) (.str s)
  termination_by structural x => x
  def okHover : List (Bytes × JSON) → Bool
    | [] => true
    | (k, v) :: r =>
      (if foldKey k = foldKey kValue then okMsg v
       else if foldKey k = foldKey kAction then isStrOrNull v else true) && okHover r
  termination_by structural x => x
  def okList : List JSON → Bool
    | [] => true
    | x :: xs => okMsg x && okList xs
  termination_by structural x => x
end

/-- outcome of a decoder: `ok` iff `b` -/
def Decides {α} (r : Res α) (b : Bool) : Prop := (b = true → ∃ a, r = .ok a) ∧ (b = false → r = .err)

theorem decides_bind {α β} {r : Res α} {b : Bool} {f : α → Res β} {c : Bool}
    (h : Decides r b) (hf : ∀ a, Decides (f a) c) : Decides (r >>= f) (b && c) := by
  cases b with
  | false => obtain ⟨_, h2⟩ := h; rw [h2 rfl]; exact ⟨by simp, fun _ => rfl⟩
  | true =>
    obtain ⟨a, ha⟩ := h.1 rfl
    rw [ha]; simpa using hf a

theorem decides_ok {α} (a : α) : Decides (Res.ok a) true := ⟨fun _ => ⟨a, rfl⟩, by simp⟩
theorem decides_err {α} : Decides (Res.err : Res α) false := ⟨by simp, fun _ => rfl⟩

theorem decString_decides (v : JSON) (old : Bytes) : Decides (decString v old) (isStrOrNull v) := by
  cases v <;> simp [decString, isStrOrNull, decides_ok, decides_err]
theorem decBool_decides (v : JSON) (old : Bool) : Decides (decBool v old) (isBoolOrNull v) := by
  cases v <;> simp [decBool, isBoolOrNull, decides_ok, decides_err]

theorem decClickFields_decides (kvs : List (Bytes × JSON)) (c : Click) :
    Decides (decClickFields kvs c) (okClickFields kvs) := by
  induction kvs generalizing c with
  | nil => simp [decClickFields, okClickFields, decides_ok]
  | cons kv r ih =>
    obtain ⟨k, v⟩ := kv
    rw [decClickFields, okClickFields]
    apply decides_bind _ (fun a => ih a)
    unfold decClickField
    by_cases h1 : foldKey k = foldKey kAction
    · simp only [h1, true_or, if_true]
      have := decides_bind (decString_decides v c.action) (fun s => decides_ok ({ c with action := s } : Click))
      simpa using this
    · by_cases h2 : foldKey k = foldKey kValue
      · have e : ¬ foldKey kValue = foldKey kAction := by decide +kernel
        simp only [h2, e, or_true, if_true, if_false]
        have := decides_bind (decString_decides v c.value) (fun s => decides_ok ({ c with value := s } : Click))
        simpa using this
      · simp only [h1, h2, or_self, if_false]; exact decides_ok c

theorem decClick_decides (v : JSON) (old : Option Click) : Decides (decClick v old) (okClick v) := by
  cases v with
  | null => simp [decClick, okClick, decides_ok]
  | obj kvs =>
    simp only [decClick, okClick]
    have := decides_bind (decClickFields_decides kvs (old.getD Click.zero)) (fun c => decides_ok (some c))
    simpa using this
  | _ => simp [decClick, okClick, decides_err]

theorem decFlat_decides (f : Option Field) (v : JSON) (d : Msg) : Decides (decFlat f v d) (okFlat f v) := by
  cases f with
  | none => simp [decFlat, okFlat, decides_ok]
  | some fl =>
    cases fl
    case text => simpa [decFlat, okFlat] using decides_bind (decString_decides v d.text) (fun s => decides_ok { d with text := s })
    case font => simpa [decFlat, okFlat] using decides_bind (decString_decides v d.font) (fun s => decides_ok { d with font := s })
    case color => simpa [decFlat, okFlat] using decides_bind (decString_decides v d.color) (fun s => decides_ok { d with color := s })
    case insertion => simpa [decFlat, okFlat] using decides_bind (decString_decides v d.insertion) (fun s => decides_ok { d with insertion := s })
    case translate => simpa [decFlat, okFlat] using decides_bind (decString_decides v d.translate) (fun s => decides_ok { d with translate := s })
    case bold => simpa [decFlat, okFlat] using decides_bind (decBool_decides v d.bold) (fun s => decides_ok { d with bold := s })
    case italic => simpa [decFlat, okFlat] using decides_bind (decBool_decides v d.italic) (fun s => decides_ok { d with italic := s })
    case underlined => simpa [decFlat, okFlat] using decides_bind (decBool_decides v d.underlined) (fun s => decides_ok { d with underlined := s })
    case strikethrough => simpa [decFlat, okFlat] using decides_bind (decBool_decides v d.strikethrough) (fun s => decides_ok { d with strikethrough := s })
    case obfuscated => simpa [decFlat, okFlat] using decides_bind (decBool_decides v d.obfuscated) (fun s => decides_ok { d with obfuscated := s })
    case clickEvent => simpa [decFlat, okFlat] using decides_bind (decClick_decides v d.click) (fun s => decides_ok { d with click := s })
    case hoverEvent => cases v <;> simp [decFlat, okFlat, decides_ok, decides_err]
    case with_ => cases v <;> simp [decFlat, okFlat, decides_ok, decides_err]
    case extra => cases v <;> simp [decFlat, okFlat, decides_ok, decides_err]

theorem decHoverFlat_decides (k : Bytes) (v : JSON) (h : Bytes × JSON × Msg) (hk : ¬ foldKey k = foldKey kValue) :
    Decides (decHoverFlat k v h) (if foldKey k = foldKey kAction then isStrOrNull v else true) := by
  unfold decHoverFlat
  by_cases h1 : foldKey k = foldKey kAction
  · simp only [h1, if_true]
    have := decides_bind (decString_decides v h.1) (fun s => decides_ok (s, h.2.1, h.2.2))
    simpa using this
  · simp only [h1, if_false]
    split <;> exact decides_ok _

mutual
  theorem unmarshalInto_decides : ∀ (t : JSON) (d : Msg), Decides (unmarshalInto t d) (okMsg t)
    | .str s, d => by rw [unmarshalInto, okMsg]; exact decides_ok _
    | .obj kvs, d => by rw [unmarshalInto, okMsg]; exact decFields_decides kvs d
    | .arr xs, d => by
      rw [unmarshalInto, okMsg]
      have := decides_bind (decList_decides xs) (fun ms => decides_ok { d with extra := ms })
      simpa using this
    | .null, d => by rw [unmarshalInto, okMsg]; exact decides_err
    | .bool _, d => by rw [unmarshalInto, okMsg]; exact decides_err
    | .num _, d => by rw [unmarshalInto, okMsg]; exact decides_err
  theorem decFields_decides : ∀ (kvs : List (Bytes × JSON)) (d : Msg), Decides (decFields kvs d) (okFields kvs)
    | [], d => by rw [decFields, okFields]; exact decides_ok _
    | (k, v) :: r, d => by
      rw [decFields, okFields]
      exact decides_bind (decField_decides k v d) (fun d' => decFields_decides r d')
  theorem decField_decides (k : Bytes) : ∀ (v : JSON) (d : Msg), Decides (decField k v d) (okField k v)
    | .obj hk, d => by
      rw [decField, okField]
      by_cases h : fieldOf k = some .hoverEvent
      · simp only [h, if_true]
        have := decides_bind (decHover_decides hk (d.hover.getD hoverZero)) (fun hv => decides_ok { d with hover := some hv })
        simpa using this
      · simp only [h, if_false]; exact decFlat_decides _ _ _
    | .arr xs, d => by
      rw [decField, okField]
      by_cases h1 : fieldOf k = some .with_
      · simp only [h1, true_or, if_true]
        have := decides_bind (decList_decides xs) (fun ms => decides_ok { d with args := d.args ++ ms.map Sum.inl })
        simpa using this
      · by_cases h2 : fieldOf k = some .extra
        · simp only [h2, or_true, if_true]
          have e : ¬ (some Field.extra = some Field.with_) := by decide
          simp only [e, if_false]
          have := decides_bind (decList_decides xs) (fun ms => decides_ok { d with extra := ms })
          simpa using this
        · simp only [h1, h2, or_self, if_false]; exact decFlat_decides _ _ _
    | .null, d => by rw [decField, okField]; exact decFlat_decides _ _ _
    | .bool _, d => by rw [decField, okField]; exact decFlat_decides _ _ _
    | .num _, d => by rw [decField, okField]; exact decFlat_decides _ _ _
    | .str _, d => by rw [decField, okField]; exact decFlat_decides _ _ _
  theorem decHover_decides : ∀ (kvs : List (Bytes × JSON)) (h : Bytes × JSON × Msg), Decides (decHover kvs h) (okHover kvs)
    | [], h => by rw [decHover, okHover]; exact decides_ok _
    | (k, v) :: r, h => by
      rw [decHover, okHover]
      refine decides_bind ?_ (fun h' => decHover_decides r h')
      by_cases hk : foldKey k = foldKey kValue
      · simp only [hk, if_true]
        have := decides_bind (unmarshalInto_decides v h.2.2) (fun m' => decides_ok (h.1, h.2.1, m'))
        simpa using this
      · simp only [hk, if_false]; exact decHoverFlat_decides k v h hk
  theorem decList_decides : ∀ (xs : List JSON), Decides (decList xs) (okList xs)
    | [] => by rw [decList, okList]; exact decides_ok _
    | x :: xs => by
      rw [decList, okList]
      refine decides_bind (unmarshalInto_decides x Msg.zero) (fun m => ?_)
      have := decides_bind (decList_decides xs) (fun ms => decides_ok (m :: ms))
      simpa using this
end

/-! ### the specification's grammar is accepted -/

theorem mem_keysOf {α} (l : List (Bytes × α)) (k : Bytes) (v : α) (h : (k, v) ∈ l) : k ∈ keysOf l := by
  induction l with
  | nil => cases h
  | cons kv r ih =>
    obtain ⟨k2, v2⟩ := kv
    rcases List.mem_cons.mp h with h' | h'
    · cases h'; simp [keysOf]
    · simp [keysOf, ih h']

theorem lookup_of_mem {α} (l : List (Bytes × α)) (k : Bytes) (v : α) (hn : noDupKeys (keysOf l) = true)
    (hm : (k, v) ∈ l) : lookupKey k l = some v := by
  induction l with
  | nil => cases hm
  | cons kv r ih =>
    obtain ⟨k', v'⟩ := kv
    simp only [keysOf, noDupKeys, Bool.and_eq_true, Bool.not_eq_true'] at hn
    rw [lookupKey]
    by_cases hk : k' = k
    · simp only [hk, if_true]
      rcases List.mem_cons.mp hm with h | h
      · cases h; rfl
      · exfalso
        have : k ∈ keysOf r := mem_keysOf r k v h
        have hc := hn.1
        rw [hk] at hc
        simp [this] at hc
    · simp only [hk, if_false]
      rcases List.mem_cons.mp hm with h | h
      · cases h; exact absurd rfl hk
      · exact ih hn.2 h

theorem jStr_ok (v : JSON) (h : jStr? (some v) ≠ none) : isStrOrNull v = true := by
  cases v <;> simp_all [jStr?, isStrOrNull]
theorem jBool_ok (v : JSON) (h : jBool? (some v) ≠ none) : isBoolOrNull v = true := by
  cases v <;> simp_all [jBool?, isBoolOrNull]

theorem okField_flat (k : Bytes) (v : JSON) (h1 : fieldOf k ≠ some .hoverEvent) (h2 : fieldOf k ≠ some .with_)
    (h3 : fieldOf k ≠ some .extra) : okField k v = okFlat (fieldOf k) v := by
  cases v <;> simp [okField, h1, h2, h3]

theorem okClickFields_of (all : List (Bytes × JSON)) (hn : noDupKeys (keysOf all) = true)
    (ha : jStr? (lookupKey kAction all) ≠ none) (hv : jStr? (lookupKey kValue all) ≠ none) :
    ∀ l : List (Bytes × JSON), (∀ kv ∈ l, kv ∈ all) → (∀ kv ∈ l, kv.1 = kAction ∨ kv.1 = kValue) → okClickFields l = true := by
  intro l
  induction l with
  | nil => intros; rfl
  | cons kv r ih =>
    intro hsub hk
    obtain ⟨k, v⟩ := kv
    rw [okClickFields, Bool.and_eq_true]
    refine ⟨?_, ih (fun x hx => hsub x (List.mem_cons_of_mem _ hx)) (fun x hx => hk x (List.mem_cons_of_mem _ hx))⟩
    have hmem : (k, v) ∈ all := hsub _ (List.mem_cons_self ..)
    rcases hk (k, v) (List.mem_cons_self ..) with h | h
    · simp only at h; subst h
      rw [lookup_of_mem all _ v hn hmem] at ha
      simp [jStr_ok v ha]
    · simp only at h; subst h
      rw [lookup_of_mem all _ v hn hmem] at hv
      simp [jStr_ok v hv]

theorem all_keys {α} (l : List (Bytes × α)) (p : Bytes → Bool) (h : (keysOf l).all p = true) :
    ∀ kv ∈ l, p kv.1 = true := by
  induction l with
  | nil => intro kv hkv; cases hkv
  | cons kv r ih =>
    obtain ⟨k, v⟩ := kv
    simp only [keysOf, List.all_cons, Bool.and_eq_true] at h
    intro x hx
    rcases List.mem_cons.mp hx with h' | h'
    · subst h'; exact h.1
    · exact ih h.2 x h'

theorem click_ok (v : JSON) (h : jsonToClick (some v) ≠ none) : okClick v = true := by
  cases v with
  | obj kvs =>
    simp only [jsonToClick] at h
    split at h
    · next hc =>
      simp only [Bool.and_eq_true] at hc
      have hks := all_keys kvs _ hc.2
      rw [okClick]
      apply okClickFields_of kvs hc.1 _ _ kvs (fun _ h => h)
      · intro kv hkv; have := hks kv hkv; simpa using this
      · intro e; simp [e] at h
      · intro e; rw [e] at h
        cases hA : jStr? (lookupKey kAction kvs) <;> simp [hA] at h
    · exact absurd rfl h
  | _ => simp [jsonToClick] at h

theorem jsonFields_base (all : List (Bytes × JSON)) :
    ∀ (l : List (Bytes × JSON)) (m : Msg), jsonFields all l = some m → ∃ m0, jsonFields all [] = some m0 := by
  intro l
  induction l with
  | nil => intro m h; exact ⟨m, h⟩
  | cons kv r ih =>
    obtain ⟨k, v⟩ := kv
    intro m h
    rw [jsonFields] at h
    cases hr : jsonFields all r with
    | none => simp [hr] at h
    | some m1 => exact ih m1 hr

/-- what the scalar part of the specification demands of the object -/
structure BaseFacts (all : List (Bytes × JSON)) : Prop where
  text : jStr? (lookupKey kText all) ≠ none
  bold : jBool? (lookupKey kBold all) ≠ none
  italic : jBool? (lookupKey kItalic all) ≠ none
  underlined : jBool? (lookupKey kUnderlined all) ≠ none
  strikethrough : jBool? (lookupKey kStrikethrough all) ≠ none
  obfuscated : jBool? (lookupKey kObfuscated all) ≠ none
  font : jStr? (lookupKey kFont all) ≠ none
  color : jStr? (lookupKey kColor all) ≠ none
  insertion : jStr? (lookupKey kInsertion all) ≠ none
  click : jsonToClick (lookupKey kClickEvent all) ≠ none
  translate : jStr? (lookupKey kTranslate all) ≠ none

theorem base_facts (all : List (Bytes × JSON)) (m0 : Msg) (h : jsonFields all [] = some m0) : BaseFacts all := by
  rw [jsonFields] at h
  split at h
  · next h1 h2 h3 h4 h5 h6 h7 h8 h9 h10 h11 =>
    exact ⟨by simp [h1], by simp [h2], by simp [h3], by simp [h4], by simp [h5], by simp [h6], by simp [h7], by simp [h8],
      by simp [h9], by simp [h10], by simp [h11]⟩
  · cases h

theorem scalar_ok (all : List (Bytes × JSON)) (hn : noDupKeys (keysOf all) = true) (bf : BaseFacts all)
    (k : Bytes) (v : JSON) (hm : (k, v) ∈ all)
    (hk : k = kText ∨ k = kBold ∨ k = kItalic ∨ k = kUnderlined ∨ k = kStrikethrough ∨ k = kObfuscated ∨ k = kFont
      ∨ k = kColor ∨ k = kInsertion ∨ k = kClickEvent ∨ k = kTranslate) : okField k v = true := by
  have hl := lookup_of_mem all k v hn hm
  rcases hk with h | h | h | h | h | h | h | h | h | h | h <;> subst h
  · rw [okField_flat _ _ (by rw [fo_text]; decide) (by rw [fo_text]; decide) (by rw [fo_text]; decide), fo_text]
    have := bf.text; rw [hl] at this; simpa [okFlat] using jStr_ok v this
  · rw [okField_flat _ _ (by rw [fo_bold]; decide) (by rw [fo_bold]; decide) (by rw [fo_bold]; decide), fo_bold]
    have := bf.bold; rw [hl] at this; simpa [okFlat] using jBool_ok v this
  · rw [okField_flat _ _ (by rw [fo_italic]; decide) (by rw [fo_italic]; decide) (by rw [fo_italic]; decide), fo_italic]
    have := bf.italic; rw [hl] at this; simpa [okFlat] using jBool_ok v this
  · rw [okField_flat _ _ (by rw [fo_underlined]; decide) (by rw [fo_underlined]; decide) (by rw [fo_underlined]; decide), fo_underlined]
    have := bf.underlined; rw [hl] at this; simpa [okFlat] using jBool_ok v this
  · rw [okField_flat _ _ (by rw [fo_strikethrough]; decide) (by rw [fo_strikethrough]; decide) (by rw [fo_strikethrough]; decide), fo_strikethrough]
    have := bf.strikethrough; rw [hl] at this; simpa [okFlat] using jBool_ok v this
  · rw [okField_flat _ _ (by rw [fo_obfuscated]; decide) (by rw [fo_obfuscated]; decide) (by rw [fo_obfuscated]; decide), fo_obfuscated]
    have := bf.obfuscated; rw [hl] at this; simpa [okFlat] using jBool_ok v this
  · rw [okField_flat _ _ (by rw [fo_font]; decide) (by rw [fo_font]; decide) (by rw [fo_font]; decide), fo_font]
    have := bf.font; rw [hl] at this; simpa [okFlat] using jStr_ok v this
  · rw [okField_flat _ _ (by rw [fo_color]; decide) (by rw [fo_color]; decide) (by rw [fo_color]; decide), fo_color]
    have := bf.color; rw [hl] at this; simpa [okFlat] using jStr_ok v this
  · rw [okField_flat _ _ (by rw [fo_insertion]; decide) (by rw [fo_insertion]; decide) (by rw [fo_insertion]; decide), fo_insertion]
    have := bf.insertion; rw [hl] at this; simpa [okFlat] using jStr_ok v this
  · rw [okField_flat _ _ (by rw [fo_click]; decide) (by rw [fo_click]; decide) (by rw [fo_click]; decide), fo_click]
    have := bf.click; rw [hl] at this; simpa [okFlat] using click_ok v this
  · rw [okField_flat _ _ (by rw [fo_translate]; decide) (by rw [fo_translate]; decide) (by rw [fo_translate]; decide), fo_translate]
    have := bf.translate; rw [hl] at this; simpa [okFlat] using jStr_ok v this

theorem hoverValue_lookup (l : List (Bytes × JSON)) :
    jsonHoverValue l = (match lookupKey kValue l with
      | some v => jsonToMsg v
      | none => some Msg.zero) := by
  induction l with
  | nil => rw [jsonHoverValue, lookupKey]
  | cons kv r ih =>
    obtain ⟨k, v⟩ := kv
    rw [jsonHoverValue, lookupKey]
    by_cases h : k = kValue
    · simp [h]
    · simp [h, ih]

mutual
  theorem spec_okMsg : ∀ (t : JSON) (m : Msg), jsonToMsg t = some m → okMsg t = true
    | .str _, _, _ => by rw [okMsg]
    | .arr xs, m, h => by
      rw [jsonToMsg] at h
      rw [okMsg]
      cases hx : jsonToMsgs xs with
      | none => simp [hx] at h
      | some ms => exact spec_okList xs ms hx
    | .obj kvs, m, h => by
      rw [jsonToMsg] at h
      rw [okMsg]
      split at h
      · next hc =>
        simp only [Bool.and_eq_true] at hc
        obtain ⟨m0, hm0⟩ := jsonFields_base kvs kvs m h
        exact spec_okFields kvs hc.1 (all_keys kvs _ hc.2) (base_facts kvs m0 hm0) kvs m (fun _ hx => hx) h
      · cases h
    | .null, _, h => by rw [jsonToMsg] at h; cases h
    | .bool _, _, h => by rw [jsonToMsg] at h; cases h
    | .num _, _, h => by rw [jsonToMsg] at h; cases h
  theorem spec_okFields (all : List (Bytes × JSON)) (hn : noDupKeys (keysOf all) = true)
      (hks : ∀ kv ∈ all, msgKeys.contains kv.1 = true) (bf : BaseFacts all) :
      ∀ (l : List (Bytes × JSON)) (m : Msg), (∀ kv ∈ l, kv ∈ all) → jsonFields all l = some m → okFields l = true
    | [], _, _, _ => by rw [okFields]
    | (k, v) :: rest, m, hsub, h => by
      rw [jsonFields] at h
      rw [okFields, Bool.and_eq_true]
      cases hr : jsonFields all rest with
      | none => simp [hr] at h
      | some m1 =>
        simp only [hr] at h
        refine ⟨?_, spec_okFields all hn hks bf rest m1 (fun x hx => hsub x (List.mem_cons_of_mem _ hx)) hr⟩
        have hmem : (k, v) ∈ all := hsub _ (List.mem_cons_self ..)
        have hkey := hks (k, v) hmem
        simp only [msgKeys, List.contains_cons, List.contains_nil, Bool.or_false, Bool.or_eq_true, beq_iff_eq] at hkey
        by_cases hh : k = kHoverEvent
        · subst hh
          exact spec_okNested_hover v m1 m h
        · by_cases hw : k = kWith
          · subst hw
            exact spec_okNested_with v m1 m h
          · by_cases he : k = kExtra
            · subst he
              exact spec_okNested_extra v m1 m h
            · exact scalar_ok all hn bf k v hmem (by
                rcases hkey with h | h | h | h | h | h | h | h | h | h | h | h | h | h
                all_goals first
                  | exact absurd h hh
                  | exact absurd h hw
                  | exact absurd h he
                  | (subst h; simp))
  theorem spec_okNested_hover : ∀ (v : JSON) (m1 m : Msg), jsonNested kHoverEvent v m1 = some m → okField kHoverEvent v = true
    | .obj hk, m1, m, h => by
      rw [jsonNested] at h
      rw [okField, fo_hover]
      simp only [if_true] at h ⊢
      split at h
      · next hc =>
        simp only [Bool.and_eq_true] at hc
        have hks := all_keys hk _ hc.2
        cases ha : jStr? (lookupKey kAction hk) with
        | none => simp [ha] at h
        | some a =>
          cases hv : jsonHoverValue hk with
          | none => simp [ha, hv] at h
          | some hvm =>
            exact spec_okHover hk hc.1 (by simp [ha]) hvm hv hk (fun _ hx => hx)
              (fun kv hkv => by have := hks kv hkv; simpa [or_assoc] using this)
      · cases h
    | .arr _, _, _, h => by
      rw [jsonNested] at h
      have e1 : ¬ kHoverEvent = kWith := by decide +kernel
      have e2 : ¬ kHoverEvent = kExtra := by decide +kernel
      simp [e1, e2] at h
    | .null, _, _, h => by rw [jsonNested] at h; simp at h
    | .bool _, _, _, h => by rw [jsonNested] at h; simp at h
    | .num _, _, _, h => by rw [jsonNested] at h; simp at h
    | .str _, _, _, h => by rw [jsonNested] at h; simp at h
  theorem spec_okHover (allh : List (Bytes × JSON)) (hn : noDupKeys (keysOf allh) = true)
      (ha : jStr? (lookupKey kAction allh) ≠ none) (hvm : Msg) (hv : jsonHoverValue allh = some hvm) :
      ∀ l : List (Bytes × JSON), (∀ kv ∈ l, kv ∈ allh) →
        (∀ kv ∈ l, kv.1 = kAction ∨ kv.1 = kContents ∨ kv.1 = kValue) → okHover l = true
    | [], _, _ => by rw [okHover]
    | (k, v) :: r, hsub, hk => by
      rw [okHover, Bool.and_eq_true]
      refine ⟨?_, spec_okHover allh hn ha hvm hv r (fun x hx => hsub x (List.mem_cons_of_mem _ hx))
        (fun x hx => hk x (List.mem_cons_of_mem _ hx))⟩
      have hmem : (k, v) ∈ allh := hsub _ (List.mem_cons_self ..)
      have hl := lookup_of_mem allh k v hn hmem
      rcases hk (k, v) (List.mem_cons_self ..) with h | h | h <;> simp only at h <;> subst h
      · have e : ¬ foldKey kAction = foldKey kValue := by decide +kernel
        have ha' := ha
        rw [hl] at ha'
        simp [e, jStr_ok v ha']
      · have e1 : ¬ foldKey kContents = foldKey kValue := by decide +kernel
        have e2 : ¬ foldKey kContents = foldKey kAction := by decide +kernel
        simp [e1, e2]
      · have hv' := hv
        rw [hoverValue_lookup, hl] at hv'
        simp [spec_okMsg v hvm hv']
  theorem spec_okNested_with : ∀ (v : JSON) (m1 m : Msg), jsonNested kWith v m1 = some m → okField kWith v = true
    | .arr xs, m1, m, h => by
      rw [jsonNested] at h
      rw [okField, fo_with]
      simp only [if_true, true_or] at h ⊢
      cases hx : jsonToMsgs xs with
      | none => simp [hx] at h
      | some ms => exact spec_okList xs ms hx
    | .obj _, _, _, h => by
      rw [jsonNested] at h
      have e : ¬ kWith = kHoverEvent := by decide +kernel
      simp [e] at h
    | .null, _, _, h => by rw [jsonNested] at h; simp at h
    | .bool _, _, _, h => by rw [jsonNested] at h; simp at h
    | .num _, _, _, h => by rw [jsonNested] at h; simp at h
    | .str _, _, _, h => by rw [jsonNested] at h; simp at h
  theorem spec_okNested_extra : ∀ (v : JSON) (m1 m : Msg), jsonNested kExtra v m1 = some m → okField kExtra v = true
    | .arr xs, m1, m, h => by
      rw [jsonNested] at h
      rw [okField, fo_extra]
      have e : ¬ kExtra = kWith := by decide +kernel
      simp only [e, if_false, if_true, or_true] at h ⊢
      cases hx : jsonToMsgs xs with
      | none => simp [hx] at h
      | some ms => exact spec_okList xs ms hx
    | .obj _, _, _, h => by
      rw [jsonNested] at h
      have e : ¬ kExtra = kHoverEvent := by decide +kernel
      simp [e] at h
    | .null, _, _, h => by rw [jsonNested] at h; simp at h
    | .bool _, _, _, h => by rw [jsonNested] at h; simp at h
    | .num _, _, _, h => by rw [jsonNested] at h; simp at h
    | .str _, _, _, h => by rw [jsonNested] at h; simp at h
  theorem spec_okList : ∀ (xs : List JSON) (ms : List Msg), jsonToMsgs xs = some ms → okList xs = true
    | [], _, _ => by rw [okList]
    | x :: xs, ms, h => by
      rw [jsonToMsgs] at h
      rw [okList, Bool.and_eq_true]
      cases hx : jsonToMsg x with
      | none => simp [hx] at h
      | some m =>
        cases hxs : jsonToMsgs xs with
        | none => simp [hx, hxs] at h
        | some ms' => exact ⟨spec_okMsg x m hx, spec_okList xs ms' hxs⟩
end

end GoMC.Lemmas.Chat
