/-
  Lemmas for C04_parse_sound, token level, part 1: `strconv.ParseInt` on sign + digits is the grammar's range check;
  exact evaluation of the classification loop of `parseLiteral` on every number shape of the grammar
  (`[+-]?digits[suffix]`, `[+-]?digits.digits([eE][+-]?digits)?[fFdD]?`).
-/
import GoMC.Lemmas.SNBTSpecTree
namespace GoMC.Model.SNBT
open GoMC Spec
open GoMC.Spec.SNBT (isWs isDigit isLetter isTokenByte skipWs spanToken spanDigits digitsVal stripSign inRange lower
  classify readQuoted readKey arrayElem mkArray readArrayElems readValue readEntries readElems FloatSem Tok)

/-! ### `strconv.ParseInt` on sign + digits = the grammar's range check -/

theorem parseDigits_foldl (ds : Bytes) (hd : ∀ c ∈ ds, isNumber c = true) (acc : Nat) :
    parseDigits ds acc = some (ds.foldl (fun a c => 10 * a + (c.toNat - 48)) acc) := by
  induction ds generalizing acc with
  | nil => rfl
  | cons c cs ih =>
    unfold parseDigits
    rw [if_pos (hd c (by simp))]
    rw [ih (fun x hx => hd x (by simp [hx]))]
    rfl

/-- an optional sign -/
def IsSign (sg : Bytes) (neg : Bool) : Prop :=
  (sg = [] ∧ neg = false) ∨ (sg = [45] ∧ neg = true) ∨ (sg = [43] ∧ neg = false)

theorem digit_not_sign (c : Byte) (h : isNumber c = true) : (c == 43) = false ∧ (c == 45) = false := by
  have : ∀ n : Fin (2^8), (let c : Byte := BitVec.ofFin n
      isNumber c = true → (c == 43) = false ∧ (c == 45) = false) := by decide +kernel
  exact this c.toFin h

theorem parseInt_sign_digits (bits : Nat) (sg ip : Bytes) (neg : Bool) (hsg : IsSign sg neg) (hip : ip ≠ [])
    (hd : ∀ c ∈ ip, isNumber c = true) : parseInt bits (sg ++ ip) = inRange bits neg (digitsVal ip) := by
  cases ip with
  | nil => exact absurd rfl hip
  | cons c cs =>
    have hpd := parseDigits_foldl (c :: cs) hd 0
    have hfin : ∀ (ng : Bool),
        (match (c :: cs : Bytes) with
         | [] => (none : Option Int)
         | _ =>
           match parseDigits (c :: cs) 0 with
           | none => none
           | some un =>
             if (!ng && decide (un ≥ 2 ^ (bits - 1))) = true then none
             else if (ng && decide (un > 2 ^ (bits - 1))) = true then none
             else some (if ng = true then -(un : Int) else (un : Int))) = inRange bits ng (digitsVal (c :: cs)) := by
      intro ng
      rw [hpd]
      unfold inRange digitsVal
      generalize List.foldl (fun a c => 10 * a + (c.toNat - 48)) 0 (c :: cs) = m
      cases ng
      · simp only [Bool.not_false, Bool.true_and, Bool.false_and, Bool.false_eq_true, if_false, decide_eq_true_eq]
        by_cases h : m < 2 ^ (bits - 1)
        · rw [if_neg (by omega), if_pos h]
        · rw [if_pos (by omega), if_neg h]
      · simp only [Bool.not_true, Bool.false_and, Bool.true_and, Bool.false_eq_true, if_false, if_true, decide_eq_true_eq]
        by_cases h : m ≤ 2 ^ (bits - 1)
        · rw [if_neg (by omega), if_pos h]
        · rw [if_pos (by omega), if_neg h]
    rcases hsg with ⟨e, en⟩ | ⟨e, en⟩ | ⟨e, en⟩ <;> subst e <;> subst en
    · obtain ⟨h43, h45⟩ := digit_not_sign c (hd c (by simp))
      simp only [List.nil_append]
      unfold parseInt
      simp only [h43, h45, Bool.false_eq_true, if_false]
      exact hfin false
    · simp only [List.cons_append, List.nil_append]
      unfold parseInt
      simp only [show ((45 : Byte) == 43) = false by decide, show ((45 : Byte) == 45) = true by decide,
        Bool.false_eq_true, if_false, if_true]
      exact hfin true
    · simp only [List.cons_append, List.nil_append]
      unfold parseInt
      simp only [show ((43 : Byte) == 43) = true by decide, if_true]
      exact hfin false


/-! ### the classification loop on number shapes -/

theorem clsStep_sign0 (k : Cls) (c : Byte) (hc : c = 45 ∨ c = 43) (hk : k.integer = true) : clsStep k 0 c = k := by
  unfold clsStep
  rcases hc with h | h <;> subst h <;> simp [isNumber, hk]

theorem clsLoop_sign_digits (n : Nat) (sg ip : Bytes) (neg : Bool) (hsg : IsSign sg neg)
    (hd : ∀ c ∈ ip, isNumber c = true) : clsLoop { strlen := n } 0 (sg ++ ip) = { strlen := n } := by
  rcases hsg with ⟨e, _⟩ | ⟨e, _⟩ | ⟨e, _⟩ <;> subst e
  · exact clsLoop_digits _ _ ip hd
  · simp only [List.cons_append, List.nil_append]
    unfold clsLoop
    rw [clsStep_sign0 _ 45 (Or.inl rfl) rfl]
    exact clsLoop_digits _ _ ip hd
  · simp only [List.cons_append, List.nil_append]
    unfold clsLoop
    rw [clsStep_sign0 _ 43 (Or.inr rfl) rfl]
    exact clsLoop_digits _ _ ip hd

theorem isSign_length (sg : Bytes) (neg : Bool) (h : IsSign sg neg) : sg.length ≤ 1 := by
  rcases h with ⟨e, _⟩ | ⟨e, _⟩ | ⟨e, _⟩ <;> subst e <;> simp

theorem isSign_allowed (sg : Bytes) (neg : Bool) (h : IsSign sg neg) : ∀ c ∈ sg, isAllowedInUnquotedString c = true := by
  rcases h with ⟨e, _⟩ | ⟨e, _⟩ | ⟨e, _⟩ <;> subst e <;> intro c hc <;> simp at hc <;> subst hc <;> decide

/-- first byte of sign + digits is not a quote -/
theorem sign_digits_head (sg ip tail : Bytes) (neg : Bool) (hsg : IsSign sg neg) (hip : ip ≠ [])
    (hd : ∀ c ∈ ip, isNumber c = true) :
    ∃ c0 r, sg ++ ip ++ tail = c0 :: r ∧ (c0 == 34 || c0 == 39) = false := by
  cases ip with
  | nil => exact absurd rfl hip
  | cons c cs =>
    rcases hsg with ⟨e, _⟩ | ⟨e, _⟩ | ⟨e, _⟩ <;> subst e
    · exact ⟨c, cs ++ tail, by simp, (numstart_facts c (by simp [hd c (by simp)])).2.2.2⟩
    · exact ⟨45, c :: cs ++ tail, by simp, by decide⟩
    · exact ⟨43, c :: cs ++ tail, by simp, by decide⟩

/-- the dispatch of `parseLiteral` on the suffix letter of an integer literal -/
def intDispatch (fo : FloatOracle) (t : Byte) (body : Bytes) : PRes (Byte × Option Lit) :=
  if t == 66 || t == 98 then .ok (tagByte, (parseInt 8 body).map fun v => .i8 (BitVec.ofInt 8 v))
  else if t == 83 || t == 115 then .ok (tagShort, (parseInt 16 body).map fun v => .i16 (BitVec.ofInt 16 v))
  else if t == 73 || t == 105 || t == 0 then .ok (tagInt, (parseInt 32 body).map fun v => .i32 (BitVec.ofInt 32 v))
  else if t == 76 || t == 108 then .ok (tagLong, (parseInt 64 body).map fun v => .i64 (BitVec.ofInt 64 v))
  else if t == 70 || t == 102 then .ok (tagFloat, (fo.pf32 body).map .f32)
  else if t == 68 || t == 100 then .ok (tagDouble, (fo.pf64 body).map .f64)
  else .panic

/-- `[+-]?digits` -/
theorem parseLiteral_intShape (fo : FloatOracle) (sg ip : Bytes) (neg : Bool) (hsg : IsSign sg neg) (hip : ip ≠ [])
    (hd : ∀ c ∈ ip, isNumber c = true) :
    parseLiteral fo (sg ++ ip) = .ok (tagInt, (parseInt 32 (sg ++ ip)).map fun v => .i32 (BitVec.ofInt 32 v)) := by
  obtain ⟨c0, r, he, hq⟩ := sign_digits_head sg ip [] neg hsg hip hd
  simp only [List.append_nil] at he
  have hc := clsLoop_sign_digits (sg ++ ip).length sg ip neg hsg hd
  unfold parseLiteral
  rw [he] at hc ⊢
  simp only [hq, Bool.false_eq_true, if_false]
  rw [hc]
  simp

/-- `[+-]?digits` and one of the twelve suffix letters -/
theorem parseLiteral_intSuffix (fo : FloatOracle) (sg ip : Bytes) (neg : Bool) (s : Byte) (hsg : IsSign sg neg)
    (hip : ip ≠ []) (hd : ∀ c ∈ ip, isNumber c = true) (hs : isIntegerType s = true) :
    parseLiteral fo (sg ++ ip ++ [s]) = intDispatch fo s (sg ++ ip) := by
  obtain ⟨c0, r, he, hq⟩ := sign_digits_head sg ip [s] neg hsg hip hd
  have hn : isNumber s = false := by
    have : ∀ n : Fin (2^8), (let c : Byte := BitVec.ofFin n; isIntegerType c = true → isNumber c = false) := by
      decide +kernel
    exact this s.toFin hs
  have hpos : 0 < (sg ++ ip).length := by
    cases ip with
    | nil => exact absurd rfl hip
    | cons _ _ => simp; omega
  have hc : clsLoop { strlen := (sg ++ ip ++ [s]).length } 0 (sg ++ ip ++ [s]) =
      { strlen := (sg ++ ip).length, numberType := s } := by
    rw [clsLoop_append, clsLoop_sign_digits _ sg ip neg hsg hd]
    simp only [clsLoop, Nat.zero_add]
    unfold clsStep
    simp [hn, hs]
    intro h; exact absurd (h (by omega)).2 hip
  have htake : List.take (sg ++ ip).length (sg ++ ip ++ [s]) = sg ++ ip := List.take_left
  unfold parseLiteral intDispatch
  rw [he] at hc htake ⊢
  simp only [hq, Bool.false_eq_true, if_false]
  rw [hc]
  simp only [htake, if_true]


/-- an optional exponent `[eE][+-]?digits`, with the two flags the classification loop sets on it -/
def IsExp (ex : Bytes) (hx ax : Bool) : Prop :=
  (ex = [] ∧ hx = false ∧ ax = false) ∨
  (∃ e sg2 ed ng, (e = 101 ∨ e = 69) ∧ IsSign sg2 ng ∧ (∀ c ∈ ed, isNumber c = true) ∧ ex = e :: (sg2 ++ ed) ∧
    hx = true ∧ ax = !sg2.isEmpty)

theorem clsLoop_exp (k : Cls) (i : Nat) (ex : Bytes) (hx ax : Bool) (hex : IsExp ex hx ax)
    (hk1 : k.integer = false) (hk2 : k.number = true) (hk3 : k.hasExp = false) (hk4 : k.afterExp = false) :
    clsLoop k i ex = { k with hasExp := hx, afterExp := ax } := by
  rcases hex with ⟨e, h1, h2⟩ | ⟨e, sg2, ed, ng, he, hsg, hed, hex, h1, h2⟩
  · subst e; subst h1; subst h2
    cases k; simp only at hk3 hk4; subst hk3; subst hk4; rfl
  · subst hex; subst h1; subst h2
    unfold clsLoop
    have hne : isNumber e = false := by rcases he with h | h <;> subst h <;> decide
    have s1 : clsStep k i e = { k with hasExp := true } := by
      unfold clsStep
      rcases he with h | h <;> subst h <;> simp [isNumber, hk1, hk2, hk3, hk4]
    rw [s1]
    rcases hsg with ⟨e2, _⟩ | ⟨e2, _⟩ | ⟨e2, _⟩ <;> subst e2
    · simp only [List.nil_append, List.isEmpty_nil, Bool.not_true]
      rw [clsLoop_digits _ _ ed hed]
      cases k; simp only at hk4; subst hk4; rfl
    · simp only [List.cons_append, List.nil_append, List.isEmpty_cons, Bool.not_false]
      unfold clsLoop
      have s2 : clsStep { k with hasExp := true } (i + 1) 45 = { k with hasExp := true, afterExp := true } := by
        unfold clsStep
        simp [isNumber, hk1, hk2, hk4]
      rw [s2]
      exact clsLoop_digits _ _ ed hed
    · simp only [List.cons_append, List.nil_append, List.isEmpty_cons, Bool.not_false]
      unfold clsLoop
      have s2 : clsStep { k with hasExp := true } (i + 1) 43 = { k with hasExp := true, afterExp := true } := by
        unfold clsStep
        simp [isNumber, hk1, hk2, hk4]
      rw [s2]
      exact clsLoop_digits _ _ ed hed

theorem clsLoop_decimal (n : Nat) (sg ip fp ex : Bytes) (neg hx ax : Bool) (hsg : IsSign sg neg) (hip : ip ≠ [])
    (hd : ∀ c ∈ ip, isNumber c = true) (hfp : ∀ c ∈ fp, isNumber c = true) (hex : IsExp ex hx ax) :
    clsLoop { strlen := n } 0 (sg ++ ip ++ (46 :: fp ++ ex)) =
      { strlen := n, integer := false, hasExp := hx, afterExp := ax } := by
  rw [clsLoop_append, clsLoop_sign_digits n sg ip neg hsg hd]
  have hpos : 0 < (sg ++ ip).length := by
    cases ip with
    | nil => exact absurd rfl hip
    | cons _ _ => simp; omega
  simp only [List.cons_append]
  unfold clsLoop
  have s1 : clsStep { strlen := n } (0 + (sg ++ ip).length) 46 = { strlen := n, integer := false } := by
    unfold clsStep
    simp [isNumber, isIntegerType, isFloatType]
    have hp' : 0 < sg.length + ip.length := by simpa using hpos
    rw [if_pos (Or.inl hp'), if_neg (fun h => hip h.2)]
  rw [s1, clsLoop_append, clsLoop_digits _ _ fp hfp]
  rw [clsLoop_exp _ _ ex hx ax hex rfl rfl rfl rfl]

theorem exp_allowed (ex : Bytes) (hx ax : Bool) (h : IsExp ex hx ax) : ∀ c ∈ ex, isAllowedInUnquotedString c = true := by
  rcases h with ⟨e, _, _⟩ | ⟨e, sg2, ed, ng, he, hsg, hed, hex, _, _⟩
  · subst e; intro c hc; cases hc
  · subst hex
    intro c hc
    rcases List.mem_cons.mp hc with h | h
    · rw [h]; rcases he with h | h <;> subst h <;> decide
    · rcases List.mem_append.mp h with h | h
      · exact isSign_allowed sg2 ng hsg c h
      · exact num_allowed c (hed c h)

/-- `[+-]?digits.digits([eE][+-]?digits)?` -/
theorem parseLiteral_decShape (fo : FloatOracle) (sg ip fp ex : Bytes) (neg hx ax : Bool) (hsg : IsSign sg neg)
    (hip : ip ≠ []) (hd : ∀ c ∈ ip, isNumber c = true) (hfp : ∀ c ∈ fp, isNumber c = true) (hex : IsExp ex hx ax) :
    parseLiteral fo (sg ++ ip ++ (46 :: fp ++ ex)) =
      .ok (tagDouble, (fo.pf64 (sg ++ ip ++ (46 :: fp ++ ex))).map .f64) := by
  obtain ⟨c0, r, he, hq⟩ := sign_digits_head sg ip (46 :: fp ++ ex) neg hsg hip hd
  have hc := clsLoop_decimal (sg ++ ip ++ (46 :: fp ++ ex)).length sg ip fp ex neg hx ax hsg hip hd hfp hex
  unfold parseLiteral
  rw [he] at hc ⊢
  simp only [hq, Bool.false_eq_true, if_false]
  rw [hc]
  simp

/-- the same with a float suffix `f F d D` -/
theorem parseLiteral_decSuffix (fo : FloatOracle) (sg ip fp ex : Bytes) (neg hx ax : Bool) (s : Byte) (hsg : IsSign sg neg)
    (hip : ip ≠ []) (hd : ∀ c ∈ ip, isNumber c = true) (hfp : ∀ c ∈ fp, isNumber c = true) (hex : IsExp ex hx ax)
    (hs : isFloatType s = true) :
    parseLiteral fo (sg ++ ip ++ (46 :: fp ++ ex) ++ [s]) =
      (if (s == 70 || s == 102) = true then .ok (tagFloat, (fo.pf32 (sg ++ ip ++ (46 :: fp ++ ex))).map .f32)
       else .ok (tagDouble, (fo.pf64 (sg ++ ip ++ (46 :: fp ++ ex))).map .f64)) := by
  generalize hD : sg ++ ip ++ (46 :: fp ++ ex) = D
  obtain ⟨c0, r, he, hq⟩ := sign_digits_head sg ip ((46 :: fp ++ ex) ++ [s]) neg hsg hip hd
  have he' : D ++ [s] = c0 :: r := by rw [← hD, ← he]; simp
  have hsf : isNumber s = false ∧ (s == 45) = false ∧ (s == 43) = false ∧ (s == 69) = false ∧ (s == 101) = false := by
    have : ∀ n : Fin (2^8), (let c : Byte := BitVec.ofFin n; isFloatType c = true →
        isNumber c = false ∧ (c == 45) = false ∧ (c == 43) = false ∧ (c == 69) = false ∧ (c == 101) = false) := by
      decide +kernel
    exact this s.toFin hs
  have hc : clsLoop { strlen := (D ++ [s]).length } 0 (D ++ [s]) =
      { strlen := D.length, integer := false, hasExp := hx, afterExp := ax, numberType := s } := by
    rw [clsLoop_append, ← hD, clsLoop_decimal _ sg ip fp ex neg hx ax hsg hip hd hfp hex, hD]
    simp only [clsLoop, Nat.zero_add]
    unfold clsStep
    obtain ⟨h1, h2, h3, h4, h5⟩ := hsf
    have n45 : ¬ s = 45#8 := by simpa using h2
    have n43 : ¬ s = 43#8 := by simpa using h3
    have n69 : ¬ s = 69#8 := by simpa using h4
    have n101 : ¬ s = 101#8 := by simpa using h5
    simp [h1, hs, n45, n43, n69, n101]
  have htake : List.take D.length (D ++ [s]) = D := List.take_left
  unfold parseLiteral
  rw [he'] at hc htake ⊢
  simp only [hq, Bool.false_eq_true, if_false]
  rw [hc]
  simp only [htake]
  simp


/-! ### the grammar's reading of a token against `parseLiteral` -/

theorem stripSign_spec (t : Bytes) :
    ∃ sg neg body, stripSign t = (neg, body) ∧ t = sg ++ body ∧ IsSign sg neg := by
  cases t with
  | nil => exact ⟨[], false, [], rfl, rfl, Or.inl ⟨rfl, rfl⟩⟩
  | cons c cs =>
    by_cases h45 : (c == 45) = true
    · have : c = 45 := by simpa using h45
      subst this
      exact ⟨[45], true, cs, by simp [stripSign], rfl, Or.inr (Or.inl ⟨rfl, rfl⟩)⟩
    · by_cases h43 : (c == 43) = true
      · have : c = 43 := by simpa using h43
        subst this
        exact ⟨[43], false, cs, by simp [stripSign], rfl, Or.inr (Or.inr ⟨rfl, rfl⟩)⟩
      · have n45 : ¬ c = 45#8 := by simpa using h45
        have n43 : ¬ c = 43#8 := by simpa using h43
        exact ⟨[], false, c :: cs, by simp [stripSign, n45, n43], rfl, Or.inl ⟨rfl, rfl⟩⟩

theorem spanDigits_spec (bs : Bytes) :
    ∃ ds r, spanDigits bs = (ds, r) ∧ bs = ds ++ r ∧ (∀ c ∈ ds, isNumber c = true) ∧
      (∀ c k, r = c :: k → isNumber c = false) := by
  induction bs with
  | nil => exact ⟨[], [], rfl, rfl, by simp, by intro c k h; cases h⟩
  | cons c cs ih =>
    obtain ⟨ds, r, h1, h2, h3, h4⟩ := ih
    by_cases hc : isNumber c = true
    · refine ⟨c :: ds, r, ?_, by rw [h2]; rfl, ?_, h4⟩
      · unfold spanDigits; rw [(spec_classes c).1, hc, h1]; rfl
      · intro x hx; rcases List.mem_cons.mp hx with e | e
        · rw [e]; exact hc
        · exact h3 x e
    · have hc' : isNumber c = false := by simpa using hc
      refine ⟨[], c :: cs, ?_, rfl, by simp, ?_⟩
      · unfold spanDigits; rw [(spec_classes c).1, hc']; rfl
      · intro x k e; injection e with e1 _; rw [← e1]; exact hc'

/-- where the grammar gives a definite reading of a token, `parseLiteral` returns the same value; where the grammar
says "out of range", `strconv` returned an error -/
def TokOK (fo : FloatOracle) (tok : Bytes) (X : Tok) : Prop :=
  (∀ t, X = .val t → ∃ v, parseLiteral fo tok = .ok (t.tag, some v) ∧ litNBT v = t) ∧
  (X = .bad → ∃ tag, parseLiteral fo tok = .ok (tag, none))

theorem TokOK_unspec (fo : FloatOracle) (tok : Bytes) : TokOK fo tok .unspec :=
  ⟨(by intro t h; cases h), (by intro h; cases h)⟩

theorem TokOK_opt {α : Type} (fo : FloatOracle) (tok : Bytes) (o : Option α) (mkT : α → NBT) (mkL : α → Lit) (tag : Byte)
    (hp : parseLiteral fo tok = .ok (tag, o.map mkL)) (hrel : ∀ a, litNBT (mkL a) = mkT a ∧ (mkT a).tag = tag)
    (X : Tok) (hs : ∀ a, o = some a → X = .val (mkT a)) (hn : o = none → X = .bad) : TokOK fo tok X := by
  cases o with
  | none =>
    rw [hn rfl]
    exact ⟨(by intro t h; cases h), fun _ => ⟨tag, hp⟩⟩
  | some a =>
    rw [hs a rfl]
    refine ⟨fun t h => ?_, (by intro h; cases h)⟩
    injection h with h
    subst h
    exact ⟨mkL a, by rw [hp, (hrel a).2]; rfl, (hrel a).1⟩

theorem lower_cases (s : Byte) :
    (lower s == 98) = (s == 66 || s == 98) ∧ (lower s == 115) = (s == 83 || s == 115) ∧
    (lower s == 105) = (s == 73 || s == 105) ∧ (lower s == 108) = (s == 76 || s == 108) ∧
    (lower s == 102) = (s == 70 || s == 102) ∧ (lower s == 100) = (s == 68 || s == 100) := by
  have : ∀ n : Fin (2^8), (let s : Byte := BitVec.ofFin n
      (lower s == 98) = (s == 66 || s == 98) ∧ (lower s == 115) = (s == 83 || s == 115) ∧
      (lower s == 105) = (s == 73 || s == 105) ∧ (lower s == 108) = (s == 76 || s == 108) ∧
      (lower s == 102) = (s == 70 || s == 102) ∧ (lower s == 100) = (s == 68 || s == 100)) := by decide +kernel
  exact this s.toFin

theorem take_init (D : Bytes) (s : Byte) : (D ++ [s]).take ((D ++ [s]).length - 1) = D := by simp

end GoMC.Model.SNBT
