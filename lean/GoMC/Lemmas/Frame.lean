/-
  Helper lemmas for C07 (packet framing): generic facts about the `Rd` monad that `Basic/Core.lean` does not
  have (no-panic closure, `copyN`, `liftRes`, consumed-byte counts), facts about the VarInt read loop, and
  the closed form of the frames `pack` emits.
-/
import GoMC.Model.Frame
import GoMC.Spec.Frame
import GoMC.Lemmas.VarInt
namespace GoMC.Lemmas
open GoMC GoMC.Model GoMC.Spec

/-! ### generic: programs that never panic -/

/-- `p` returns a value or an error on every source -/
def NoPanic {α} (p : Rd α) : Prop := ∀ s, (p s).1 ≠ Res.panic

theorem noPanic_pure {α} (a : α) : NoPanic (Pure.pure a : Rd α) := by intro s; simp
theorem noPanic_fail {α} : NoPanic (Rd.fail : Rd α) := by intro s; simp [Rd.fail]
theorem noPanic_readFull (n : Nat) : NoPanic (Rd.readFull n) := by
  intro s; unfold Rd.readFull; split <;> simp
theorem noPanic_readByte : NoPanic Rd.readByte := by
  intro s; unfold Rd.readByte; split <;> simp
theorem noPanic_bind {α β} {p : Rd α} {f : α → Rd β} (hp : NoPanic p) (hf : ∀ a, NoPanic (f a)) :
    NoPanic (p >>= f) := by
  intro s
  rw [Rd.bind_apply]
  have := hp s
  rcases hps : p s with ⟨r, s'⟩
  rw [hps] at this
  cases r with
  | ok a => exact hf a s'
  | err => simp
  | panic => simp at this
theorem noPanic_ite {α} {c : Prop} [Decidable c] {p q : Rd α} (hp : NoPanic p) (hq : NoPanic q) :
    NoPanic (if c then p else q) := by
  split <;> assumption
theorem noPanic_liftRes {α} {r : Res α} (h : r ≠ Res.panic) : NoPanic (liftRes r) := by
  intro s; exact h
theorem noPanic_copyN (n : Int) : NoPanic (copyN n) := by
  intro s; unfold copyN; split
  · simp
  · split <;> simp

/-! ### generic: `copyN`, `liftRes` are fragmentation invariant and extension stable -/

theorem fragInv_copyN (n : Int) : Rd.FragInv (copyN n) := by
  intro s t h
  unfold copyN
  rw [h.1]
  split
  · exact ⟨rfl, h⟩
  · split
    · exact ⟨rfl, h.drop _⟩
    · exact ⟨rfl, h.drained⟩

theorem extStable_copyN (n : Int) : Rd.ExtStable (copyN n) := by
  intro s a s' h t extra ht
  unfold copyN at h ⊢
  split at h
  · rename_i hn
    simp only [Prod.mk.injEq, Res.ok.injEq] at h
    obtain ⟨rfl, rfl⟩ := h
    simp only [hn, if_true]
    exact ⟨t, rfl, ht, rfl⟩
  · rename_i hn
    split at h
    · rename_i hle
      simp only [Prod.mk.injEq, Res.ok.injEq] at h
      obtain ⟨rfl, rfl⟩ := h
      have : n.toNat ≤ t.flat.length := by rw [ht]; simp; omega
      simp only [hn, if_false, this, if_true]
      refine ⟨t.drop n.toNat, ?_, ?_, rfl⟩
      · rw [ht, List.take_append_of_le_length hle]
      · rw [Stream.flat_drop, Stream.flat_drop, ht, List.drop_append_of_le_length hle]
    · simp at h

theorem fragInv_liftRes {α} (r : Res α) : Rd.FragInv (liftRes r) := by
  intro s t h; exact ⟨rfl, h⟩

theorem extStable_liftRes {α} (r : Res α) : Rd.ExtStable (liftRes r) := by
  intro s a s' h t extra ht
  simp only [liftRes, Prod.mk.injEq] at h
  obtain ⟨rfl, rfl⟩ := h
  exact ⟨t, rfl, ht, rfl⟩

/-! ### the VarInt read loop -/

theorem noPanic_varLoop (w fuel num : Nat) (V : BitVec w) : NoPanic (varLoop w fuel num V) := by
  induction fuel generalizing num V with
  | zero => exact noPanic_fail
  | succ fuel ih =>
    unfold varLoop
    apply noPanic_bind noPanic_readByte
    intro sec
    exact noPanic_ite (ih _ _) (noPanic_pure _)

-- fragInv_varLoop / extStable_varLoop / fragInv_varIntRead / extStable_varIntRead are in GoMC.Lemmas.VarInt

theorem noPanic_varIntRead : NoPanic varIntRead := noPanic_varLoop _ _ _ _

/-- a successful read reports exactly the number of bytes it consumed -/
theorem varLoop_count (w fuel num : Nat) (V : BitVec w) (s s' : Stream) (v : BitVec w) (n : Nat)
    (h : varLoop w fuel num V s = (Res.ok (v, n), s')) :
    num + 1 ≤ n ∧ n - num ≤ fuel ∧ n - num ≤ s.flat.length ∧ s'.flat = s.flat.drop (n - num) := by
  induction fuel generalizing num V s with
  | zero => simp [varLoop, Rd.fail] at h
  | succ fuel ih =>
    unfold varLoop at h
    rw [Rd.bind_apply] at h
    unfold Rd.readByte at h
    cases hfl : s.flat with
    | nil => rw [hfl] at h; simp at h
    | cons b bs =>
      rw [hfl] at h
      simp only at h
      split at h
      · obtain ⟨h1, h2, h3, h4⟩ := ih (num + 1) _ (s.drop 1) h
        simp only [Stream.flat_drop, hfl, List.drop_succ_cons, List.drop_zero, List.drop_drop] at h3 h4
        refine ⟨by omega, by omega, by simp only [List.length_cons]; omega, ?_⟩
        rw [h4]
        have : n - num = (n - (num + 1)) + 1 := by omega
        rw [this, List.drop_succ_cons]
      · simp only [Rd.pure_apply, Prod.mk.injEq, Res.ok.injEq] at h
        obtain ⟨⟨rfl, rfl⟩, rfl⟩ := h
        refine ⟨by omega, by omega, by simp only [List.length_cons]; omega, ?_⟩
        simp [hfl]

theorem varIntRead_count (s s' : Stream) (v : BitVec 32) (n : Nat)
    (h : varIntRead s = (Res.ok (v, n), s')) :
    1 ≤ n ∧ n ≤ 5 ∧ n ≤ s.flat.length ∧ s'.flat = s.flat.drop n := by
  have := varLoop_count 32 maxVarIntLen 0 0#32 s s' v n h
  simpa [maxVarIntLen] using this

/-- reading the minimal encoding of a 32-bit pattern -/
theorem varIntRead_leb (v : BitVec 32) (rest : Bytes) (s : Stream) (hs : s.flat = leb v.toNat ++ rest) :
    ∃ s', varIntRead s = (Res.ok (v, (leb v.toNat).length), s') ∧ s'.flat = rest ∧ s'.failing = s.failing := by
  have hlen : (leb v.toNat).length ≤ maxVarIntLen := leb_length_le5 v.isLt
  obtain ⟨s', h, hf, hfl⟩ := varLoop_leb 32 maxVarIntLen 0 v.toNat 0#32 rest s hlen hs
  refine ⟨s', ?_, hf, hfl⟩
  unfold varIntRead
  rw [h]
  simp

/-- on a proper prefix of a minimal encoding the read is an error -/
theorem varIntRead_prefix_err (v : BitVec 32) (k : Nat) (hk : k < (leb v.toNat).length) (s : Stream)
    (hs : s.flat = (leb v.toNat).take k) : (varIntRead s).1 = Res.err := by
  have hsplit : leb v.toNat = (leb v.toNat).take k ++ (leb v.toNat).drop k := (List.take_append_drop k _).symm
  have hne : (leb v.toNat).drop k ≠ [] := by
    intro h0
    have := congrArg List.length h0
    simp at this; omega
  obtain ⟨s1, hrun, hres, _⟩ := varIntRead_leb v [] (Stream.ofBytes (leb v.toNat)) (by simp)
  have hnot := Rd.prefix_fails extStable_varIntRead (s := Stream.ofBytes (leb v.toNat))
    (pre := (leb v.toNat).take k) (more := (leb v.toNat).drop k) (rest := [])
    (by simp) hrun hres hne s hs
  have hnp := noPanic_varIntRead s
  cases hr : (varIntRead s).1 with
  | ok a => exact absurd hr (hnot a)
  | err => rfl
  | panic => exact absurd hr hnp

/-! ### integer conversions -/

theorem toVarInt_toNat {x : Nat} (h : x < 2 ^ 32) : (toVarInt (x : Int)).toNat = x := by
  unfold toVarInt
  rw [BitVec.toNat_ofInt]
  omega

theorem toVarInt_toInt {x : Nat} (h : x < 2 ^ 31) : (toVarInt (x : Int)).toInt = (x : Int) := by
  unfold toVarInt
  rw [BitVec.toInt_ofInt]
  rw [Int.bmod_eq_of_le] <;> omega

theorem wrap32_of_range {x : Int} (h0 : -(2 ^ 31) ≤ x) (h1 : x < 2 ^ 31) : wrap32 x = x := by
  unfold wrap32
  rw [BitVec.toInt_ofInt]
  rw [Int.bmod_eq_of_le] <;> omega

theorem toInt32_range (v : BitVec 32) : -(2 ^ 31) ≤ v.toInt ∧ v.toInt < 2 ^ 31 := by
  have := BitVec.toInt_eq_toNat_cond v
  have := v.isLt
  constructor <;> (split at * <;> omega)

/-! ### `pack` in closed form -/

/-- the frame `pack` emits, in closed form -/
def frameOf (Z : ZLib) (t : Int) (id : BitVec 32) (data : Bytes) : Bytes :=
  let body := leb id.toNat ++ data
  if t < 0 then leb body.length ++ body
  else if (data.length : Int) < t then leb (1 + body.length) ++ [0#8] ++ body
  else
    let dl := leb body.length
    let z := Z.deflate body
    leb (dl.length + z.length) ++ dl ++ z

theorem toVarInt_nat (x : Int) (n : Nat) (hx : x = (n : Int)) (h : n < 2 ^ 32) : (toVarInt x).toNat = n := by
  subst hx; exact toVarInt_toNat h

theorem leb_zero : leb 0 = [0#8] := by rw [leb_lt (by omega)]

theorem packPlain_eq (id : BitVec 32) (data : Bytes) (c : Nat) (pool : Pool)
    (hsize : (leb id.toNat).length + data.length ≤ Model.maxDataLength) :
    packPlain ⟨id, data, c⟩ pool = Res.ok (leb ((leb id.toNat ++ data).length) ++ (leb id.toNat ++ data)) := by
  unfold packPlain bufReset varIntBytes varLen
  simp only [List.nil_append, List.length_append]
  have hm : Model.maxDataLength = 2097152 := rfl
  rw [toVarInt_nat _ ((leb id.toNat).length + data.length) (by push_cast; rfl) (by omega)]
  simp [List.append_assoc]


theorem leb_length_pos (n : Nat) : 1 ≤ (leb n).length := by
  have := leb_ne_nil n
  cases h : leb n with
  | nil => exact absurd h this
  | cons a l => simp

theorem packCompressed_small (Z : ZLib) (t : Int) (id : BitVec 32) (data : Bytes) (c : Nat) (pool : Pool)
    (hsize : (leb id.toNat).length + data.length ≤ Model.maxDataLength) (ht : (data.length : Int) < t) :
    packCompressed Z t ⟨id, data, c⟩ pool =
      Res.ok (leb (1 + (leb id.toNat ++ data).length) ++ [0#8] ++ (leb id.toNat ++ data)) := by
  unfold packCompressed bufReset varIntBytes varLen
  simp only [ht, if_true, List.nil_append, List.length_append]
  have hm : Model.maxDataLength = 2097152 := rfl
  have h0 : (0#32).toNat = 0 := rfl
  rw [h0, leb_zero]
  rw [toVarInt_nat _ (1 + ((leb id.toNat).length + data.length)) (by simp; omega) (by omega)]
  simp [List.append_assoc]

theorem packCompressed_big (Z : ZLib) (H : Z.Contract) (t : Int) (id : BitVec 32) (data : Bytes) (c : Nat) (pool : Pool)
    (hsize : (leb id.toNat).length + data.length ≤ Model.maxDataLength) (ht : ¬ (data.length : Int) < t) :
    packCompressed Z t ⟨id, data, c⟩ pool =
      Res.ok (leb ((leb (leb id.toNat ++ data).length).length + (Z.deflate (leb id.toNat ++ data)).length)
        ++ leb (leb id.toNat ++ data).length ++ Z.deflate (leb id.toNat ++ data)) := by
  unfold packCompressed bufReset varIntBytes varLen compressPacket zwReset varIntBytes
  simp only [ht, if_false, List.nil_append, List.length_append]
  have hm : Model.maxDataLength = 2097152 := rfl
  have hb := H.bound (leb id.toNat ++ data) (by simp only [List.length_append]; omega)
  have eDL : (toVarInt (((leb id.toNat).length : Int) + (data.length : Int))).toNat
      = (leb id.toNat).length + data.length := toVarInt_nat _ _ (by push_cast; rfl) (by omega)
  rw [eDL]
  generalize hz : Z.deflate (leb id.toNat ++ data) = z at hb ⊢
  generalize hd : leb ((leb id.toNat).length + data.length) = dl
  have hdl : dl.length ≤ 5 := by rw [← hd]; exact leb_length_le5 (by omega)
  have h5 : maxVarIntLen = 5 := rfl
  simp only [h5, List.length_replicate]
  have ePL : (toVarInt (((5 + dl.length + z.length : Nat) : Int) - ((5 : Nat) : Int))).toNat
      = dl.length + z.length := toVarInt_nat _ _ (by push_cast; omega) (by omega)
  rw [ePL]
  generalize hk : (leb (dl.length + z.length)).length = k
  have hk5 : k ≤ 5 := by rw [← hk]; exact leb_length_le5 (by omega)
  have hk1 : 1 ≤ k := by rw [← hk]; exact leb_length_pos _
  have hnp : ¬ (5 < k) := by omega
  rw [if_neg hnp]
  have e1 : List.drop (5 - k) (List.replicate 5 0#8 ++ dl ++ z) = List.replicate k 0#8 ++ (dl ++ z) := by
    rw [List.append_assoc, List.drop_append_of_le_length (by simp), List.drop_replicate]
    congr 2; omega
  rw [e1]
  have e2 : k ≤ (List.replicate k 0#8 ++ (dl ++ z)).length := by simp
  rw [if_pos e2]
  rw [List.drop_left' (by simp)]
  simp [List.append_assoc]

theorem pack_eq (Z : ZLib) (H : Z.Contract) (t : Int) (id : BitVec 32) (data : Bytes) (c : Nat) (pool : Pool)
    (hsize : (leb id.toNat).length + data.length ≤ Model.maxDataLength) :
    pack Z t ⟨id, data, c⟩ pool = Res.ok (frameOf Z t id data) := by
  unfold pack frameOf
  by_cases h0 : 0 ≤ t
  · have h0' : ¬ t < 0 := by omega
    simp only [h0, h0', if_true, if_false]
    by_cases ht : (data.length : Int) < t
    · simp only [ht, if_true]; exact packCompressed_small Z t id data c pool hsize ht
    · simp only [ht, if_false]; exact packCompressed_big Z H t id data c pool hsize ht
  · have h0' : t < 0 := by omega
    simp only [h0, h0', if_true, if_false]
    exact packPlain_eq id data c pool hsize

/-! ### `unpack` on an emitted frame -/

/-- reading the minimal encoding of a number below 2^32 -/
theorem varIntRead_leb_nat (n : Nat) (hn : n < 2 ^ 32) (rest : Bytes) (s : Stream) (hs : s.flat = leb n ++ rest) :
    ∃ s', varIntRead s = (Res.ok (BitVec.ofNat 32 n, (leb n).length), s') ∧ s'.flat = rest ∧ s'.failing = s.failing := by
  have e : (BitVec.ofNat 32 n).toNat = n := by simp [BitVec.toNat_ofNat]; omega
  have := varIntRead_leb (BitVec.ofNat 32 n) rest s (by rw [e]; exact hs)
  rw [e] at this
  exact this

theorem readFull_exact (data rest : Bytes) (s : Stream) (hs : s.flat = data ++ rest) :
    ∃ s', Rd.readFull data.length s = (Res.ok data, s') ∧ s'.flat = rest ∧ s'.failing = s.failing := by
  refine ⟨s.drop data.length, ?_, by simp [hs], rfl⟩
  unfold Rd.readFull
  rw [hs]
  simp

theorem copyN_exact (data rest : Bytes) (s : Stream) (hs : s.flat = data ++ rest) :
    ∃ s', copyN (data.length : Int) s = (Res.ok data, s') ∧ s'.flat = rest ∧ s'.failing = s.failing := by
  refine ⟨s.drop data.length, ?_, by simp [hs], rfl⟩
  unfold copyN
  have : ¬ ((data.length : Int) < 0) := by omega
  rw [if_neg this, hs]
  simp

theorem ofNat32_toInt {n : Nat} (h : n < 2 ^ 31) : (BitVec.ofNat 32 n).toInt = (n : Int) := by
  rw [BitVec.toInt_eq_toNat_cond]
  simp [BitVec.toNat_ofNat]
  omega

theorem unpackPlain_frame (id : BitVec 32) (data : Bytes) (p₀ : Pkt) (rest : Bytes) (s : Stream)
    (hsize : (leb id.toNat).length + data.length ≤ Model.maxDataLength)
    (hs : s.flat = leb (leb id.toNat ++ data).length ++ (leb id.toNat ++ data) ++ rest) :
    ∃ s', unpackPlain p₀ s = (Res.ok (p₀.store id data), s') ∧ s'.flat = rest ∧ s'.failing = s.failing := by
  have hm : Model.maxDataLength = 2097152 := rfl
  simp only [List.length_append, List.append_assoc] at hs
  obtain ⟨s1, h1, hf1, hx1⟩ := varIntRead_leb_nat _ (by omega) _ s hs
  obtain ⟨s2, h2, hf2, hx2⟩ := varIntRead_leb id _ s1 hf1
  obtain ⟨s3, h3, hf3, hx3⟩ := readFull_exact data rest s2 hf2
  refine ⟨s3, ?_, hf3, by rw [hx3, hx2, hx1]⟩
  unfold unpackPlain
  rw [Rd.bind_ok h1]
  simp only
  rw [Rd.bind_ok h2]
  simp only
  rw [ofNat32_toInt (by omega)]
  have e : ((((leb id.toNat).length + data.length : Nat) : Int) - ((leb id.toNat).length : Int)) = (data.length : Int) := by
    push_cast; omega
  rw [e]
  have : ¬ ((data.length : Int) < 0 ∨ (data.length : Int) > (Model.maxDataLength : Int)) := by omega
  rw [if_neg this]
  simp only [Int.toNat_natCast]
  rw [Rd.bind_ok h3]
  rfl

theorem readData_exact (p₀ : Pkt) (id : BitVec 32) (data rest : Bytes) (s : Stream) (hs : s.flat = data ++ rest) :
    ∃ s', readData p₀ id (data.length : Int) s = (Res.ok (p₀.store id data), s') ∧ s'.flat = rest ∧ s'.failing = s.failing := by
  obtain ⟨s3, h3, hf3, hx3⟩ := readFull_exact data rest s hs
  refine ⟨s3, ?_, hf3, hx3⟩
  unfold readData
  have : ¬ ((data.length : Int) < 0) := by omega
  rw [if_neg this]
  simp only [Int.toNat_natCast]
  rw [Rd.bind_ok h3]
  rfl

theorem unpackBuffered_small (Z : ZLib) (t : Int) (id : BitVec 32) (data : Bytes) (p₀ : Pkt)
    (hsize : (leb id.toNat).length + data.length ≤ Model.maxDataLength) (s : Stream)
    (hs : s.flat = [0#8] ++ (leb id.toNat ++ data)) :
    (unpackBuffered Z t p₀ (BitVec.ofNat 32 (1 + (leb id.toNat ++ data).length)) s).1 = Res.ok (p₀.store id data) := by
  have hm : Model.maxDataLength = 2097152 := rfl
  have hs' : s.flat = leb 0 ++ (leb id.toNat ++ data) := by rw [leb_zero]; exact hs
  obtain ⟨s1, h1, hf1, hx1⟩ := varIntRead_leb_nat 0 (by omega) _ s hs'
  obtain ⟨s2, h2, hf2, hx2⟩ := varIntRead_leb id _ s1 hf1
  unfold unpackBuffered
  rw [Rd.bind_ok h1]
  have : ¬ (BitVec.ofNat 32 0 ≠ 0#32) := by simp
  simp only [this, if_false]
  rw [Rd.bind_ok h2]
  simp only [List.length_append]
  rw [ofNat32_toInt (by omega), leb_zero]
  have e : ((1 + ((leb id.toNat).length + data.length) : Nat) : Int) - (([0#8] : Bytes).length : Int) - ((leb id.toNat).length : Int)
      = (data.length : Int) := by
    simp only [List.length_cons, List.length_nil]; push_cast; omega
  rw [e, wrap32_of_range (by omega) (by omega)]
  obtain ⟨s3, h3, _, _⟩ := readData_exact p₀ id data [] s2 (by simpa using hf2)
  rw [h3]

theorem unpackInflated_exact (p₀ : Pkt) (id : BitVec 32) (data : Bytes)
    (hsize : (leb id.toNat).length + data.length ≤ Model.maxDataLength) (s : Stream)
    (hs : s.flat = leb id.toNat ++ data) :
    (unpackInflated p₀ (BitVec.ofNat 32 ((leb id.toNat ++ data).length)) s).1 = Res.ok (p₀.store id data) := by
  have hm : Model.maxDataLength = 2097152 := rfl
  obtain ⟨s2, h2, hf2, hx2⟩ := varIntRead_leb id data s hs
  unfold unpackInflated
  rw [Rd.bind_ok h2]
  simp only [List.length_append]
  rw [ofNat32_toInt (by omega)]
  have : ¬ ((((leb id.toNat).length + data.length : Nat) : Int) < ((leb id.toNat).length : Int)) := by
    push_cast; omega
  rw [if_neg this]
  have e : ((((leb id.toNat).length + data.length : Nat) : Int) - ((leb id.toNat).length : Int)) = (data.length : Int) := by
    push_cast; omega
  rw [e, wrap32_of_range (by omega) (by omega)]
  obtain ⟨s3, h3, _, _⟩ := readData_exact p₀ id data [] s2 (by simpa using hf2)
  rw [h3]

theorem unpackBuffered_big (Z : ZLib) (t : Int) (id : BitVec 32) (data z : Bytes) (p₀ : Pkt)
    (hsize : (leb id.toNat).length + data.length ≤ Model.maxDataLength)
    (ht : ¬ (data.length : Int) < t) (hz : Z.zread z = some (leb id.toNat ++ data)) (PL : BitVec 32) (s : Stream)
    (hs : s.flat = leb (leb id.toNat ++ data).length ++ z) :
    (unpackBuffered Z t p₀ PL s).1 = Res.ok (p₀.store id data) := by
  have hm : Model.maxDataLength = 2097152 := rfl
  have hpos := leb_length_pos id.toNat
  obtain ⟨s1, h1, hf1, hx1⟩ := varIntRead_leb_nat _ (by simp only [List.length_append]; omega) _ s hs
  unfold unpackBuffered
  rw [Rd.bind_ok h1]
  have hne : BitVec.ofNat 32 (leb id.toNat ++ data).length ≠ 0#32 := by
    intro h0
    have := congrArg BitVec.toNat h0
    simp only [List.length_append, BitVec.toNat_ofNat] at this
    have h2 : (0#32).toNat = 0 := rfl
    omega
  simp only [hne, ne_eq, not_false_eq_true, if_true]
  have eI : (BitVec.ofNat 32 (leb id.toNat ++ data).length).toInt = (((leb id.toNat).length + data.length : Nat) : Int) := by
    simp only [List.length_append]; exact ofNat32_toInt (by omega)
  rw [eI]
  have c1 : ¬ ((((leb id.toNat).length + data.length : Nat) : Int) < t) := by push_cast; omega
  have c2 : ¬ ((((leb id.toNat).length + data.length : Nat) : Int) > (Model.maxDataLength : Int)) := by omega
  rw [if_neg c1, if_neg c2]
  simp only [hf1, hz]
  exact unpackInflated_exact p₀ id data hsize _ (by simp)


/-- the outer part of `unpackWithCompression` on `VarInt(|buf|) ++ buf ++ rest` -/
theorem unpackCompressed_outer (Z : ZLib) (t : Int) (p₀ : Pkt) (pool : Pool) (buf rest : Bytes) (s : Stream)
    (hlen : buf.length < 2 ^ 31) (hs : s.flat = leb buf.length ++ buf ++ rest) :
    ∃ s', unpackCompressed Z t p₀ pool s =
        ((unpackBuffered Z t p₀ (BitVec.ofNat 32 buf.length) (Stream.ofBytes buf)).1, s')
      ∧ s'.flat = rest ∧ s'.failing = s.failing := by
  rw [List.append_assoc] at hs
  obtain ⟨s1, h1, hf1, hx1⟩ := varIntRead_leb_nat _ (by omega) _ s hs
  obtain ⟨s2, h2, hf2, hx2⟩ := copyN_exact buf rest s1 hf1
  refine ⟨s2, ?_, hf2, by rw [hx2, hx1]⟩
  unfold unpackCompressed
  rw [Rd.bind_ok h1]
  simp only
  rw [ofNat32_toInt hlen, Rd.bind_ok h2]
  simp [liftRes, bufReset]

theorem unpack_frameOf (Z : ZLib) (H : Z.Contract) (t : Int) (id : BitVec 32) (data : Bytes) (p₀ : Pkt) (pool : Pool)
    (rest : Bytes) (s : Stream)
    (hsize : (leb id.toNat).length + data.length ≤ Model.maxDataLength)
    (hs : s.flat = frameOf Z t id data ++ rest) :
    ∃ s', unpack Z t p₀ pool s = (Res.ok (p₀.store id data), s') ∧ s'.flat = rest ∧ s'.failing = s.failing := by
  have hm : Model.maxDataLength = 2097152 := rfl
  unfold frameOf at hs
  unfold unpack
  by_cases h0 : 0 ≤ t
  · have h0' : ¬ t < 0 := by omega
    simp only [h0, h0', if_true, if_false] at hs ⊢
    by_cases ht : (data.length : Int) < t
    · simp only [ht, if_true] at hs
      obtain ⟨s', h, hf, hx⟩ := unpackCompressed_outer Z t p₀ pool ([0#8] ++ (leb id.toNat ++ data)) rest s
        (by simp only [List.length_append, List.length_cons, List.length_nil]; omega)
        (by rw [hs]; simp [Nat.add_comm])
      refine ⟨s', ?_, hf, hx⟩
      rw [h]
      have := unpackBuffered_small Z t id data p₀ hsize (Stream.ofBytes ([0#8] ++ (leb id.toNat ++ data))) (by simp)
      have e : ([0#8] ++ (leb id.toNat ++ data)).length = 1 + (leb id.toNat ++ data).length := by
        simp [Nat.add_comm]
      rw [e, this]
    · simp only [ht, if_false] at hs
      have hb := H.bound (leb id.toNat ++ data) (by simp only [List.length_append]; omega)
      have hdl : (leb (leb id.toNat ++ data).length).length ≤ 5 :=
        leb_length_le5 (by simp only [List.length_append]; omega)
      obtain ⟨s', h, hf, hx⟩ := unpackCompressed_outer Z t p₀ pool
        (leb (leb id.toNat ++ data).length ++ Z.deflate (leb id.toNat ++ data)) rest s
        (by simp only [List.length_append] at hdl ⊢; omega)
        (by rw [hs]; simp)
      refine ⟨s', ?_, hf, hx⟩
      rw [h]
      rw [unpackBuffered_big Z t id data _ p₀ hsize ht (H.lenient _ _ (H.roundtrip _)) _ _ (by simp)]
  · have h0' : t < 0 := by omega
    simp only [h0, h0', if_true, if_false] at hs ⊢
    exact unpackPlain_frame id data p₀ rest s hsize hs

/-! ### totality -/

theorem noPanic_unpackPlain (p₀ : Pkt) : NoPanic (unpackPlain p₀) := by
  unfold unpackPlain
  apply noPanic_bind noPanic_varIntRead
  intro a
  apply noPanic_bind noPanic_varIntRead
  intro b
  apply noPanic_ite noPanic_fail
  apply noPanic_bind (noPanic_readFull _)
  intro d
  exact noPanic_pure _

theorem noPanic_readData (p₀ : Pkt) (id : BitVec 32) (dl : Int) (h : 0 ≤ dl) : NoPanic (readData p₀ id dl) := by
  unfold readData
  have : ¬ dl < 0 := by omega
  rw [if_neg this]
  apply noPanic_bind (noPanic_readFull _)
  intro d
  exact noPanic_pure _

theorem noPanic_unpackInflated (p₀ : Pkt) (DL : BitVec 32) : NoPanic (unpackInflated p₀ DL) := by
  unfold unpackInflated
  intro s
  rw [Rd.bind_apply]
  rcases h : varIntRead s with ⟨r, s'⟩
  cases r with
  | ok a =>
    obtain ⟨id, n3⟩ := a
    simp only
    have hc := varIntRead_count s s' id n3 h
    split
    · simp [Rd.fail]
    · rename_i hge
      have hr := toInt32_range DL
      apply noPanic_readData
      rw [wrap32_of_range (by omega) (by omega)]
      omega
  | err => simp
  | panic => exact absurd (by rw [h]) (noPanic_varIntRead s)


theorem noPanic_unpackBuffered (Z : ZLib) (t : Int) (p₀ : Pkt) (PL : BitVec 32) (s : Stream)
    (hbuf : (s.flat.length : Int) = PL.toInt ∨ s.flat = []) :
    (unpackBuffered Z t p₀ PL s).1 ≠ Res.panic := by
  unfold unpackBuffered
  rw [Rd.bind_apply]
  rcases h : varIntRead s with ⟨r, s1⟩
  cases r with
  | ok a =>
    obtain ⟨DL, n2⟩ := a
    simp only
    have hc := varIntRead_count s s1 DL n2 h
    split
    · split
      · simp [Rd.fail]
      · split
        · simp [Rd.fail]
        · cases hz : Z.zread s1.flat with
          | none => simp [hz]
          | some out => simp only [hz]; exact noPanic_unpackInflated p₀ DL _
    · rw [Rd.bind_apply]
      rcases h2 : varIntRead s1 with ⟨r2, s2⟩
      cases r2 with
      | ok b =>
        obtain ⟨id, n3⟩ := b
        simp only
        have hc2 := varIntRead_count s1 s2 id n3 h2
        have hl1 : s1.flat.length = s.flat.length - n2 := by rw [hc.2.2.2]; simp
        have hr := toInt32_range PL
        rcases hbuf with hb | hb
        · apply noPanic_readData
          rw [wrap32_of_range (by omega) (by omega)]
          omega
        · rw [hb] at hc
          simp only [List.length_nil] at hc
          omega
      | err => simp
      | panic => exact absurd (by rw [h2]) (noPanic_varIntRead s1)
  | err => simp
  | panic => exact absurd (by rw [h]) (noPanic_varIntRead s)


theorem copyN_ok (n : Int) (s s' : Stream) (b : Bytes) (h : copyN n s = (Res.ok b, s')) :
    ((b.length : Int) = n ∨ (n < 0 ∧ b = [])) := by
  unfold copyN at h
  split at h
  · simp only [Prod.mk.injEq, Res.ok.injEq] at h
    right; exact ⟨by assumption, h.1.symm⟩
  · split at h
    · simp only [Prod.mk.injEq, Res.ok.injEq] at h
      left; rw [← h.1]; simp only [List.length_take]; omega
    · simp at h

theorem noPanic_unpackCompressed (Z : ZLib) (t : Int) (p₀ : Pkt) (pool : Pool) :
    NoPanic (unpackCompressed Z t p₀ pool) := by
  unfold unpackCompressed
  intro s
  rw [Rd.bind_apply]
  rcases h : varIntRead s with ⟨r, s1⟩
  cases r with
  | ok a =>
    obtain ⟨PL, n1⟩ := a
    simp only
    rw [Rd.bind_apply]
    rcases h2 : copyN PL.toInt s1 with ⟨r2, s2⟩
    cases r2 with
    | ok b =>
      simp only [liftRes, bufReset, List.nil_append]
      apply noPanic_unpackBuffered
      rw [Stream.flat_ofBytes]
      rcases copyN_ok _ _ _ _ h2 with hb | hb
      · left; exact hb
      · right; exact hb.2
    | err => simp
    | panic => exact absurd (by rw [h2]) (noPanic_copyN _ s1)
  | err => simp
  | panic => exact absurd (by rw [h]) (noPanic_varIntRead s)

theorem noPanic_unpack (Z : ZLib) (t : Int) (p₀ : Pkt) (pool : Pool) : NoPanic (unpack Z t p₀ pool) := by
  unfold unpack
  exact noPanic_ite (noPanic_unpackCompressed Z t p₀ pool) (noPanic_unpackPlain p₀)

/-! ### fragmentation invariance, extension stability -/

theorem fragInv_unpackPlain (p₀ : Pkt) : Rd.FragInv (unpackPlain p₀) := by
  unfold unpackPlain
  apply Rd.fragInv_bind fragInv_varIntRead; intro a
  apply Rd.fragInv_bind fragInv_varIntRead; intro b
  apply Rd.fragInv_ite Rd.fragInv_fail
  apply Rd.fragInv_bind (Rd.fragInv_readFull _); intro d
  exact Rd.fragInv_pure _

theorem extStable_unpackPlain (p₀ : Pkt) : Rd.ExtStable (unpackPlain p₀) := by
  unfold unpackPlain
  apply Rd.extStable_bind extStable_varIntRead; intro a
  apply Rd.extStable_bind extStable_varIntRead; intro b
  apply Rd.extStable_ite Rd.extStable_fail
  apply Rd.extStable_bind (Rd.extStable_readFull _); intro d
  exact Rd.extStable_pure _

theorem fragInv_unpackCompressed (Z : ZLib) (t : Int) (p₀ : Pkt) (pool : Pool) :
    Rd.FragInv (unpackCompressed Z t p₀ pool) := by
  unfold unpackCompressed
  apply Rd.fragInv_bind fragInv_varIntRead; intro a
  apply Rd.fragInv_bind (fragInv_copyN _); intro b
  exact fragInv_liftRes _

theorem extStable_unpackCompressed (Z : ZLib) (t : Int) (p₀ : Pkt) (pool : Pool) :
    Rd.ExtStable (unpackCompressed Z t p₀ pool) := by
  unfold unpackCompressed
  apply Rd.extStable_bind extStable_varIntRead; intro a
  apply Rd.extStable_bind (extStable_copyN _); intro b
  exact extStable_liftRes _

/-! ### rejection -/

theorem varIntRead_empty (s : Stream) (hs : s.flat = []) : (varIntRead s).1 = Res.err := by
  rcases h : varIntRead s with ⟨r, s'⟩
  cases r with
  | ok a =>
    obtain ⟨v, n⟩ := a
    have := varIntRead_count s s' v n h
    rw [hs] at this
    simp only [List.length_nil] at this
    omega
  | err => rfl
  | panic => exact absurd (by rw [h]) (noPanic_varIntRead s)

theorem unpackPlain_reject (p₀ : Pkt) (L id : BitVec 32) (more : Bytes) (s : Stream)
    (hs : s.flat = leb L.toNat ++ (leb id.toNat ++ more))
    (hbad : L.toInt - ((leb id.toNat).length : Int) < 0 ∨ L.toInt - ((leb id.toNat).length : Int) > (Model.maxDataLength : Int)) :
    (unpackPlain p₀ s).1 = Res.err := by
  obtain ⟨s1, h1, hf1, _⟩ := varIntRead_leb L _ s hs
  obtain ⟨s2, h2, hf2, _⟩ := varIntRead_leb id _ s1 hf1
  unfold unpackPlain
  rw [Rd.bind_ok h1]
  simp only
  rw [Rd.bind_ok h2]
  simp only
  rw [if_pos hbad]
  rfl

/-- the buffered part of `unpackWithCompression` rejects a bad Data Length, however much of the frame was buffered -/
theorem unpackBuffered_reject (Z : ZLib) (t : Int) (ht : 0 ≤ t) (p₀ : Pkt) (PL DL : BitVec 32) (more : Bytes) (k : Nat)
    (s : Stream) (hs : s.flat = (leb DL.toNat ++ more).take k)
    (hbad : DL.toInt < 0 ∨ DL.toInt > (Model.maxDataLength : Int) ∨ (0 < DL.toInt ∧ DL.toInt < t)) :
    (unpackBuffered Z t p₀ PL s).1 = Res.err := by
  by_cases hk : k < (leb DL.toNat).length
  · have hs' : s.flat = (leb DL.toNat).take k := by
      rw [hs, List.take_append_of_le_length (by omega)]
    have := varIntRead_prefix_err DL k hk s hs'
    unfold unpackBuffered
    rw [Rd.bind_apply]
    rcases h : varIntRead s with ⟨r, s1⟩
    rw [h] at this
    simp only at this
    subst this
    rfl
  · have hs' : s.flat = leb DL.toNat ++ more.take (k - (leb DL.toNat).length) := by
      rw [hs, List.take_append]
      rw [List.take_of_length_le (by omega)]
    obtain ⟨s1, h1, hf1, _⟩ := varIntRead_leb DL _ s hs'
    unfold unpackBuffered
    rw [Rd.bind_ok h1]
    simp only
    have hne : DL ≠ 0#32 := by
      intro h0
      subst h0
      have : (0#32).toInt = 0 := rfl
      have hm : Model.maxDataLength = 2097152 := rfl
      omega
    rw [if_pos hne]
    by_cases c1 : DL.toInt < t
    · rw [if_pos c1]; rfl
    · rw [if_neg c1]
      have c2 : DL.toInt > (Model.maxDataLength : Int) := by omega
      rw [if_pos c2]; rfl

theorem unpackCompressed_reject (Z : ZLib) (t : Int) (ht : 0 ≤ t) (p₀ : Pkt) (pool : Pool) (PL DL : BitVec 32)
    (more : Bytes) (s : Stream) (hs : s.flat = leb PL.toNat ++ (leb DL.toNat ++ more))
    (hbad : DL.toInt < 0 ∨ DL.toInt > (Model.maxDataLength : Int) ∨ (0 < DL.toInt ∧ DL.toInt < t)) :
    (unpackCompressed Z t p₀ pool s).1 = Res.err := by
  obtain ⟨s1, h1, hf1, _⟩ := varIntRead_leb PL _ s hs
  unfold unpackCompressed
  rw [Rd.bind_ok h1]
  simp only
  rw [Rd.bind_apply]
  unfold copyN
  by_cases hneg : PL.toInt < 0
  · simp only [hneg, if_true, liftRes, bufReset, List.nil_append]
    exact unpackBuffered_reject Z t ht p₀ PL DL more 0 _ (by simp) hbad
  · simp only [hneg, if_false]
    by_cases hle : PL.toInt.toNat ≤ s1.flat.length
    · simp only [hle, if_true, liftRes, bufReset, List.nil_append]
      exact unpackBuffered_reject Z t ht p₀ PL DL more PL.toInt.toNat _ (by simp [hf1]) hbad
    · simp only [hle, if_false]

/-! ### the independent reader on emitted frames -/

theorem readBody_exact (id : BitVec 32) (data : Bytes)
    (hsize : (leb id.toNat).length + data.length ≤ Spec.maxDataLength) :
    readBody (leb id.toNat ++ data) = some (id, data) := by
  unfold readBody
  rw [readVarInt_leb id.isLt]
  simp only [List.length_append]
  rw [if_pos hsize]
  simp

theorem readPlain_frame (id : BitVec 32) (data rest : Bytes)
    (hsize : (leb id.toNat).length + data.length ≤ Spec.maxDataLength) :
    readPlain (leb (leb id.toNat ++ data).length ++ (leb id.toNat ++ data) ++ rest) = some ((id, data), rest) := by
  have hm : Spec.maxDataLength = 2097152 := rfl
  unfold readPlain
  rw [List.append_assoc, readVarInt_leb (by simp only [List.length_append]; omega)]
  simp only
  have hl : (leb id.toNat ++ data).length < 2 ^ 31 := by simp only [List.length_append]; omega
  rw [int32_of_lt hl]
  have c : (0 : Int) ≤ ((leb id.toNat ++ data).length : Int) ∧
      (leb id.toNat ++ data).length ≤ (leb id.toNat ++ data ++ rest).length := by
    constructor
    · omega
    · simp only [List.length_append]; omega
  rw [if_pos c, List.take_left, List.drop_left, readBody_exact id data hsize]

theorem readCompressed_small (inflate : Bytes → Option Bytes) (t : Int) (id : BitVec 32) (data rest : Bytes)
    (hsize : (leb id.toNat).length + data.length ≤ Spec.maxDataLength) :
    readCompressed inflate t (leb (1 + (leb id.toNat ++ data).length) ++ [0#8] ++ (leb id.toNat ++ data) ++ rest)
      = some ((id, data), rest) := by
  have hm : Spec.maxDataLength = 2097152 := rfl
  unfold readCompressed
  have e : leb (1 + (leb id.toNat ++ data).length) ++ [0#8] ++ (leb id.toNat ++ data) ++ rest
      = leb (1 + (leb id.toNat ++ data).length) ++ (([0#8] ++ (leb id.toNat ++ data)) ++ rest) := by
    simp [List.append_assoc]
  rw [e, readVarInt_leb (by simp only [List.length_append]; omega)]
  simp only
  have hl : 1 + (leb id.toNat ++ data).length < 2 ^ 31 := by simp only [List.length_append]; omega
  rw [int32_of_lt hl]
  have hlen : ([0#8] ++ (leb id.toNat ++ data)).length = 1 + (leb id.toNat ++ data).length := by
    simp [Nat.add_comm]
  have c : (0 : Int) ≤ ((1 + (leb id.toNat ++ data).length : Nat) : Int) ∧
      1 + (leb id.toNat ++ data).length ≤ ([0#8] ++ (leb id.toNat ++ data) ++ rest).length := by
    constructor
    · omega
    · simp only [List.length_append, List.length_cons, List.length_nil]; omega
  rw [if_pos c, ← hlen, List.take_left, List.drop_left]
  have : [0#8] ++ (leb id.toNat ++ data) = leb 0 ++ (leb id.toNat ++ data) := by rw [leb_zero]
  rw [this, readVarInt_leb (by omega)]
  simp only [if_true]
  rw [readBody_exact id data hsize]

theorem readCompressed_big (inflate : Bytes → Option Bytes) (t : Int) (id : BitVec 32) (data z rest : Bytes)
    (hsize : (leb id.toNat).length + data.length ≤ Spec.maxDataLength)
    (ht : t ≤ ((leb id.toNat ++ data).length : Int)) (hz : inflate z = some (leb id.toNat ++ data))
    (hzl : z.length < 2 ^ 31 - 10) :
    readCompressed inflate t
        (leb ((leb (leb id.toNat ++ data).length).length + z.length) ++ leb (leb id.toNat ++ data).length ++ z ++ rest)
      = some ((id, data), rest) := by
  have hm : Spec.maxDataLength = 2097152 := rfl
  have hpos := leb_length_pos id.toNat
  have hbl : (leb id.toNat ++ data).length < 2 ^ 31 := by simp only [List.length_append]; omega
  have hdl : (leb (leb id.toNat ++ data).length).length ≤ 5 := leb_length_le5 (by omega)
  unfold readCompressed
  have e : leb ((leb (leb id.toNat ++ data).length).length + z.length) ++ leb (leb id.toNat ++ data).length ++ z ++ rest
      = leb ((leb (leb id.toNat ++ data).length).length + z.length) ++ ((leb (leb id.toNat ++ data).length ++ z) ++ rest) := by
    simp [List.append_assoc]
  rw [e, readVarInt_leb (by omega)]
  simp only
  rw [int32_of_lt (by omega)]
  have hlen : (leb (leb id.toNat ++ data).length ++ z).length = (leb (leb id.toNat ++ data).length).length + z.length := by
    simp
  have c : (0 : Int) ≤ (((leb (leb id.toNat ++ data).length).length + z.length : Nat) : Int) ∧
      (leb (leb id.toNat ++ data).length).length + z.length ≤ (leb (leb id.toNat ++ data).length ++ z ++ rest).length := by
    constructor
    · omega
    · simp only [List.length_append, List.length_cons, List.length_nil]; omega
  rw [if_pos c, ← hlen, List.take_left, List.drop_left, readVarInt_leb (by omega)]
  simp only
  have hne : ¬ ((leb id.toNat ++ data).length = 0) := by simp only [List.length_append]; omega
  rw [if_neg hne, int32_of_lt hbl]
  have c2 : t ≤ ((leb id.toNat ++ data).length : Int) ∧ ((leb id.toNat ++ data).length : Int) ≤ (Spec.maxDataLength : Int) := by
    constructor
    · exact ht
    · simp only [List.length_append]; omega
  rw [if_pos c2, hz]
  simp only [if_true]
  rw [readBody_exact id data hsize]

/-! ### what an accepted frame must have declared (all encodings) -/

theorem readFull_ok_length (n : Nat) (s s' : Stream) (d : Bytes) (h : Rd.readFull n s = (Res.ok d, s')) :
    d.length = n := by
  unfold Rd.readFull at h
  split at h
  · simp only [Prod.mk.injEq, Res.ok.injEq] at h
    rw [← h.1]; simp only [List.length_take]; omega
  · simp at h

/-- whatever the bytes, a packet accepted in the uncompressed format has at most `MaxDataLength` payload bytes -/
theorem unpackPlain_ok_size (p₀ p : Pkt) (s s' : Stream) (h : unpackPlain p₀ s = (Res.ok p, s')) :
    p.data.length ≤ Model.maxDataLength := by
  unfold unpackPlain at h
  rw [Rd.bind_apply] at h
  rcases h1 : varIntRead s with ⟨r1, s1⟩
  rw [h1] at h
  cases r1 with
  | ok a =>
    obtain ⟨L, n1⟩ := a
    simp only at h
    rw [Rd.bind_apply] at h
    rcases h2 : varIntRead s1 with ⟨r2, s2⟩
    rw [h2] at h
    cases r2 with
    | ok b =>
      obtain ⟨id, n⟩ := b
      simp only at h
      split at h
      · simp [Rd.fail] at h
      · rename_i hok
        rw [Rd.bind_apply] at h
        rcases h3 : Rd.readFull (L.toInt - (n : Int)).toNat s2 with ⟨r3, s3⟩
        rw [h3] at h
        cases r3 with
        | ok d =>
          simp only [Rd.pure_apply, Prod.mk.injEq, Res.ok.injEq] at h
          have hl := readFull_ok_length _ _ _ _ h3
          rw [← h.1]
          simp only [Pkt.store]
          rw [hl]
          omega
        | err => simp at h
        | panic => simp at h
    | err => simp at h
    | panic => simp at h
  | err => simp at h
  | panic => simp at h


theorem readData_ok_length (p₀ p : Pkt) (id : BitVec 32) (dl : Int) (s : Stream)
    (h : (readData p₀ id dl s).1 = Res.ok p) : 0 ≤ dl ∧ (p.data.length : Int) = dl := by
  unfold readData at h
  split at h
  · simp [Rd.crash] at h
  · rename_i hdl
    rw [Rd.bind_apply] at h
    rcases h3 : Rd.readFull dl.toNat s with ⟨r3, s3⟩
    rw [h3] at h
    cases r3 with
    | ok d =>
      simp only [Rd.pure_apply, Res.ok.injEq] at h
      have hl := readFull_ok_length _ _ _ _ h3
      rw [← h]
      simp only [Pkt.store]
      omega
    | err => simp at h
    | panic => simp at h

theorem unpackInflated_ok_length (p₀ p : Pkt) (DL : BitVec 32) (s : Stream)
    (h : (unpackInflated p₀ DL s).1 = Res.ok p) : (p.data.length : Int) < DL.toInt := by
  unfold unpackInflated at h
  rw [Rd.bind_apply] at h
  rcases h1 : varIntRead s with ⟨r1, s1⟩
  rw [h1] at h
  cases r1 with
  | ok a =>
    obtain ⟨id, n3⟩ := a
    simp only at h
    have hc := varIntRead_count s s1 id n3 h1
    split at h
    · simp [Rd.fail] at h
    · have hr := toInt32_range DL
      rw [wrap32_of_range (by omega) (by omega)] at h
      have := readData_ok_length p₀ p id _ s1 h
      omega
  | err => simp at h
  | panic => simp at h

/-- whatever the bytes: a packet accepted through the compressed branch (non-zero Data Length `DL`) had
`threshold ≤ DL ≤ MaxDataLength`, and its payload is shorter than `DL` -/
theorem unpackBuffered_ok_bounds (Z : ZLib) (t : Int) (p₀ p : Pkt) (PL DL : BitVec 32) (n2 : Nat) (s s1 : Stream)
    (h : (unpackBuffered Z t p₀ PL s).1 = Res.ok p) (h1 : varIntRead s = (Res.ok (DL, n2), s1)) (hne : DL ≠ 0#32) :
    t ≤ DL.toInt ∧ DL.toInt ≤ (Model.maxDataLength : Int) ∧ (p.data.length : Int) < DL.toInt := by
  unfold unpackBuffered at h
  rw [Rd.bind_ok h1] at h
  simp only at h
  rw [if_pos hne] at h
  split at h
  · simp [Rd.fail] at h
  · split at h
    · simp [Rd.fail] at h
    · cases hz : Z.zread s1.flat with
      | none => simp [hz] at h
      | some out =>
        simp only [hz] at h
        have := unpackInflated_ok_length p₀ p DL _ h
        omega

end GoMC.Lemmas
