/-
  Stream lemmas for `(*chat.Type).ReadFrom` (`Chat.typeDec`, parametric in the codec of the two names): fragmentation
  invariance and extension stability by closure over its four reads (VarInt id, sender name, Boolean, target name).
-/
import GoMC.Model.ChatWire
import GoMC.Lemmas.Fields
import GoMC.Lemmas.VarInt
namespace GoMC.Lemmas.ChatWire
open GoMC GoMC.Model GoMC.Model.Chat GoMC.Lemmas

theorem fragInv_typeDec {α : Type} (msgC : Codec α) (old : ChatTypeOf α) (hs : Rd.FragInv (msgC.dec old.sender))
    (hz : Rd.FragInv (msgC.dec msgC.zero)) : Rd.FragInv (typeDec msgC old) := by
  unfold typeDec
  refine Rd.fragInv_bind fragInv_varIntRead fun x => Rd.fragInv_bind hs fun y => Rd.fragInv_bind (stable_bool false).1 fun z => ?_
  obtain ⟨has, n3⟩ := z
  cases has with
  | true => exact Rd.fragInv_bind hz fun _ => Rd.fragInv_pure _
  | false => exact Rd.fragInv_pure _

theorem extStable_typeDec {α : Type} (msgC : Codec α) (old : ChatTypeOf α) (hs : Rd.ExtStable (msgC.dec old.sender))
    (hz : Rd.ExtStable (msgC.dec msgC.zero)) : Rd.ExtStable (typeDec msgC old) := by
  unfold typeDec
  refine Rd.extStable_bind extStable_varIntRead fun x => Rd.extStable_bind hs fun y =>
    Rd.extStable_bind (stable_bool false).2 fun z => ?_
  obtain ⟨has, n3⟩ := z
  cases has with
  | true => exact Rd.extStable_bind hz fun _ => Rd.extStable_pure _
  | false => exact Rd.extStable_pure _

end GoMC.Lemmas.ChatWire
