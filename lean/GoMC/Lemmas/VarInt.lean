/-
  Helper lemmas for C05 (VarInt / VarLong). Kernel-only bit reasoning: byte facts by `decide +kernel`
  over all 256 bytes, word facts by bit extensionality.
-/
import GoMC.Model.VarInt
namespace GoMC.Lemmas
open GoMC GoMC.Model GoMC.Spec

theorem byte_ext (a b : BitVec 8)
    (h0 : a.getLsbD 0 = b.getLsbD 0) (h1 : a.getLsbD 1 = b.getLsbD 1)
    (h2 : a.getLsbD 2 = b.getLsbD 2) (h3 : a.getLsbD 3 = b.getLsbD 3)
    (h4 : a.getLsbD 4 = b.getLsbD 4) (h5 : a.getLsbD 5 = b.getLsbD 5)
    (h6 : a.getLsbD 6 = b.getLsbD 6) (h7 : a.getLsbD 7 = b.getLsbD 7) : a = b := by
  apply BitVec.eq_of_getLsbD_eq
  intro i hi
  have : i = 0 ∨ i = 1 ∨ i = 2 ∨ i = 3 ∨ i = 4 ∨ i = 5 ∨ i = 6 ∨ i = 7 := by omega
  rcases this with rfl | rfl | rfl | rfl | rfl | rfl | rfl | rfl <;> assumption

theorem cont_byte (n : Nat) : BitVec.ofNat 8 (n % 128 + 128) = (BitVec.ofNat 8 n &&& 0x7F#8) ||| 0x80#8 := by
  have key : ∀ x : Fin 128, BitVec.ofNat 8 (x.val + 128) = (BitVec.ofNat 8 x.val &&& 0x7F#8) ||| 0x80#8 := by decide +kernel
  have h := key ⟨n % 128, Nat.mod_lt _ (by decide)⟩
  simp only at h
  rw [h]
  congr 1
  apply BitVec.eq_of_toNat_eq
  simp only [BitVec.toNat_and, BitVec.toNat_ofNat]
  have e : (127 : Nat) % 2 ^ 8 = 2 ^ 7 - 1 := by decide
  rw [e, Nat.and_two_pow_sub_one_eq_mod, Nat.and_two_pow_sub_one_eq_mod]
  omega

theorem leb_bv {w : Nat} (x : BitVec w) : leb x.toNat =
    if x.toNat < 128 then [BitVec.setWidth 8 x]
    else ((BitVec.setWidth 8 x &&& 0x7F#8) ||| 0x80#8) :: leb (x >>> 7).toNat := by
  have e1 : BitVec.ofNat 8 x.toNat = BitVec.setWidth 8 x := by simp
  split
  · rename_i h; rw [leb_lt h, e1]
  · rename_i h
    rw [leb_ge h, cont_byte, e1]
    simp [BitVec.toNat_ushiftRight, Nat.shiftRight_eq_div_pow]

/-- bits at or above `k` vanish when the value is below `2^k` -/
theorem high_bits_zero {w : Nat} (v : BitVec w) (k : Nat) (h : v.toNat < 2 ^ k) :
    ∀ j (hj : j < w), k ≤ j → v[j] = false := by
  intro j hjw hj
  rw [← BitVec.getLsbD_eq_getElem, BitVec.getLsbD]
  exact Nat.testBit_lt_two_pow (Nat.lt_of_lt_of_le h (Nat.pow_le_pow_right (by omega) hj))

theorem clear_low (v : BitVec 32) (k : Nat) (hk : k ≤ 32) (M : BitVec 32)
    (hM : ∀ i (hi : i < 32), M[i] = decide (k ≤ i)) :
    ((v &&& M) == 0#32) = decide (v.toNat < 2 ^ k) := by
  have e : v &&& M = (v >>> k) <<< k := by
    apply BitVec.eq_of_getLsbD_eq
    intro i hi
    simp only [BitVec.getLsbD_and, BitVec.getLsbD_shiftLeft, BitVec.getLsbD_ushiftRight, hi, decide_true, Bool.true_and]
    rw [BitVec.getLsbD_eq_getElem hi, BitVec.getLsbD_eq_getElem hi, hM i hi]
    by_cases h : k ≤ i
    · have : k + (i - k) = i := by omega
      have h' : ¬ i < k := by omega
      simp [h, this, h', BitVec.getLsbD_eq_getElem hi]
    · have h' : i < k := by omega
      simp [h, h']
  rw [e]
  have hv := v.isLt
  by_cases hlt : v.toNat < 2 ^ k
  · simp only [hlt, decide_true, beq_iff_eq]
    apply BitVec.eq_of_toNat_eq
    simp [BitVec.toNat_shiftLeft, BitVec.toNat_ushiftRight, Nat.shiftRight_eq_div_pow, Nat.div_eq_of_lt hlt]
  · simp only [hlt, decide_false, beq_eq_false_iff_ne, ne_eq]
    intro h0
    have := congrArg BitVec.toNat h0
    simp only [BitVec.toNat_shiftLeft, BitVec.toNat_ushiftRight, Nat.shiftRight_eq_div_pow, Nat.shiftLeft_eq, BitVec.toNat_ofNat, Nat.zero_mod] at this
    have h1 : v.toNat / 2 ^ k * 2 ^ k ≤ v.toNat := Nat.div_mul_le_self _ _
    rw [Nat.mod_eq_of_lt (by omega)] at this
    have h2 : 0 < v.toNat / 2 ^ k := Nat.div_pos (by omega) (Nat.two_pow_pos k)
    have h3 : 0 < 2 ^ k := Nat.two_pow_pos k
    have := Nat.mul_pos h2 h3
    omega

theorem mask7 (v : BitVec 32) : ((v &&& 4294967168#32) == 0#32) = decide (v.toNat < 2 ^ 7) := by
  apply clear_low v 7 (by omega); decide
theorem mask14 (v : BitVec 32) : ((v &&& 4294950912#32) == 0#32) = decide (v.toNat < 2 ^ 14) := by
  apply clear_low v 14 (by omega); decide
theorem mask21 (v : BitVec 32) : ((v &&& 4292870144#32) == 0#32) = decide (v.toNat < 2 ^ 21) := by
  apply clear_low v 21 (by omega); decide
theorem mask28 (v : BitVec 32) : ((v &&& 4026531840#32) == 0#32) = decide (v.toNat < 2 ^ 28) := by
  apply clear_low v 28 (by omega); decide

theorem cont_iff (b : BitVec 8) : (b &&& 0x80#8 != 0#8) = decide (128 ≤ b.toNat) := by
  have : ∀ n : Fin (2^8), ((BitVec.ofFin n : BitVec 8) &&& 0x80#8 != 0#8) = decide (128 ≤ (BitVec.ofFin n : BitVec 8).toNat) := by decide +kernel
  exact this b.toFin

theorem low7 (b : BitVec 8) : (b &&& 0x7F#8).toNat = b.toNat % 128 := by
  have : ∀ n : Fin (2^8), ((BitVec.ofFin n : BitVec 8) &&& 0x7F#8).toNat = (BitVec.ofFin n : BitVec 8).toNat % 128 := by decide +kernel
  exact this b.toFin

/-- splitting a number into its low 7 bits and the rest, at any width -/
theorem ofNat_split7 (w n : Nat) :
    BitVec.ofNat w n = BitVec.ofNat w (n % 128) ||| (BitVec.ofNat w (n / 128) <<< 7) := by
  apply BitVec.eq_of_getLsbD_eq
  intro i hi
  simp only [BitVec.getLsbD_ofNat, BitVec.getLsbD_or, BitVec.getLsbD_shiftLeft, hi, decide_true, Bool.true_and]
  have h128 : (128 : Nat) = 2 ^ 7 := by decide
  rw [h128, Nat.testBit_mod_two_pow, Nat.testBit_div_two_pow]
  by_cases h7 : i < 7
  · simp [h7]
  · have : i - 7 + 7 = i := by omega
    have h2 : i - 7 < w := by omega
    simp [h7, this, h2]

theorem setWidth_low7 (w : Nat) (b : BitVec 8) :
    BitVec.setWidth w (b &&& 0x7F#8) = BitVec.ofNat w (b.toNat % 128) := by
  apply BitVec.eq_of_toNat_eq
  simp only [BitVec.toNat_setWidth, BitVec.toNat_ofNat, low7]

/-- the read loop on a minimal encoding -/
theorem varLoop_leb (w : Nat) (fuel num n : Nat) (V : BitVec w) (rest : Bytes) (s : Stream)
    (hn : (leb n).length ≤ fuel) (hs : s.flat = leb n ++ rest) :
    ∃ s', varLoop w fuel num V s = (Res.ok (V ||| (BitVec.ofNat w n <<< (7 * num)), num + (leb n).length), s')
      ∧ s'.flat = rest ∧ s'.failing = s.failing := by
  induction fuel generalizing num n V s with
  | zero =>
    have := leb_ne_nil n
    exact absurd (List.length_eq_zero_iff.mp (by omega)) this
  | succ fuel ih =>
    unfold varLoop
    by_cases h : n < 128
    · rw [leb_lt h] at hs ⊢
      have hb : Rd.readByte s = (Res.ok (BitVec.ofNat 8 n), s.drop 1) := by
        unfold Rd.readByte; rw [hs]; rfl
      rw [Rd.bind_ok hb]
      have hc : ((BitVec.ofNat 8 n) &&& 0x80#8 != 0#8) = false := by
        rw [cont_iff]; simp only [BitVec.toNat_ofNat, decide_eq_false_iff_not]; omega
      simp only [hc]
      refine ⟨s.drop 1, ?_, ?_, rfl⟩
      · simp only [Bool.false_eq_true, if_false, Rd.pure_apply, List.length_cons, List.length_nil]
        rw [setWidth_low7]
        simp only [BitVec.toNat_ofNat]
        have : n % 2 ^ 8 % 128 = n := by omega
        rw [this]
      · simp [hs]
    · rw [leb_ge h] at hs ⊢
      have hb : Rd.readByte s = (Res.ok (BitVec.ofNat 8 (n % 128 + 128)), s.drop 1) := by
        unfold Rd.readByte; rw [hs]; rfl
      rw [Rd.bind_ok hb]
      have hc : ((BitVec.ofNat 8 (n % 128 + 128)) &&& 0x80#8 != 0#8) = true := by
        rw [cont_iff]; simp only [BitVec.toNat_ofNat, decide_eq_true_eq]; omega
      simp only [hc, if_true]
      have hlt : (leb (n / 128)).length ≤ fuel := by
        rw [leb_ge h] at hn; simp only [List.length_cons] at hn; omega
      obtain ⟨s', hrun, hflat, hfail⟩ := ih (num + 1) (n / 128) _ (s.drop 1) hlt (by simp [hs])
      refine ⟨s', ?_, hflat, hfail⟩
      rw [hrun]
      simp only [Prod.mk.injEq, Res.ok.injEq, and_true]
      constructor
      · rw [setWidth_low7]
        simp only [BitVec.toNat_ofNat]
        have : (n % 128 + 128) % 2 ^ 8 % 128 = n % 128 := by omega
        rw [this]
        conv => rhs; rw [ofNat_split7 w n]
        rw [BitVec.shiftLeft_or_distrib, BitVec.or_assoc]
        congr 2
        rw [← BitVec.shiftLeft_add]
        have : 7 + 7 * num = 7 * (num + 1) := by omega
        rw [this]
      · simp only [List.length_cons]; omega

end GoMC.Lemmas

namespace GoMC.Lemmas
open GoMC GoMC.Model

/-- the VarInt/VarLong read loop cannot observe how its source fragments the bytes -/
theorem fragInv_varLoop (w fuel num : Nat) (V : BitVec w) : Rd.FragInv (varLoop w fuel num V) := by
  induction fuel generalizing num V with
  | zero => exact Rd.fragInv_fail
  | succ fuel ih =>
    unfold varLoop
    apply Rd.fragInv_bind Rd.fragInv_readByte
    intro sec
    split
    · exact ih _ _
    · exact Rd.fragInv_pure _

/-- a successful VarInt/VarLong read does not depend on what follows -/
theorem extStable_varLoop (w fuel num : Nat) (V : BitVec w) : Rd.ExtStable (varLoop w fuel num V) := by
  induction fuel generalizing num V with
  | zero => exact Rd.extStable_fail
  | succ fuel ih =>
    unfold varLoop
    apply Rd.extStable_bind Rd.extStable_readByte
    intro sec
    split
    · exact ih _ _
    · exact Rd.extStable_pure _

theorem fragInv_varIntRead : Rd.FragInv varIntRead := fragInv_varLoop _ _ _ _
theorem fragInv_varLongRead : Rd.FragInv varLongRead := fragInv_varLoop _ _ _ _
theorem extStable_varIntRead : Rd.ExtStable varIntRead := extStable_varLoop _ _ _ _
theorem extStable_varLongRead : Rd.ExtStable varLongRead := extStable_varLoop _ _ _ _

end GoMC.Lemmas
