/-
  Carriers (RawMessage, dynbt.Value) in the typed codec: whatever position they sit in — the root, a struct
  field, a map value, a list element — decoding a well-formed document stores exactly the payload bytes, and
  encoding the decoded value writes the document back byte for byte. Proved once for any carrier type that
  satisfies `CarrierExact` (instances `rawExact`, `dynExact`).
-/
import GoMC.Lemmas.NBTTyped
import GoMC.Lemmas.DynBT
namespace GoMC.Lemmas.NBTTyped
open GoMC GoMC.Rd GoMC.Model GoMC.Model.NBT GoMC.Model.Go GoMC.Lemmas.NBTDecode
open GoMC.Spec (NBT encPayload encList encKvs encString encDoc be16 be32 be64 beBytes beVal Format docName)

/-! ### Part 3: carriers are byte-exact in every position -/

theorem range_succ_rev (k : Nat) : (List.range (k + 1)).reverse = k :: (List.range k).reverse := by
  rw [List.range_succ]; simp

theorem beN_eq (k n : Nat) : beN k n = beBytes k n := by
  induction k with
  | zero => rfl
  | succ k ih =>
    unfold beN at ih ⊢
    rw [range_succ_rev]
    simp only [List.map_cons, beBytes]
    rw [ih]

theorem R_map {α β : Type} {c : Prop} {p : Rd α} {enc : Bytes} {a : α} (g : α → β) (h : R c p enc a) :
    R c (p >>= fun x => (Pure.pure (g x) : Rd β)) enc (g a) := by
  have := R_bind (f := fun x => (Pure.pure (g x) : Rd β)) h (R_pure c (g a))
  simpa using this

theorem R_kvLoop_end {σ : Type} (c : Prop) (step : Byte → Bytes → σ → Rd σ) (w : Nat) (st : σ) :
    R c (kvLoop step (w + 1) st) [0#8] st := by
  unfold kvLoop
  have : ([0#8] : Bytes) = [0#8] ++ [] := rfl
  rw [this]
  apply R_bind (R_readTag_end c)
  simp only [if_true]
  exact R_pure c _

theorem R_kvLoop_entry {σ : Type} (c : Prop) (step : Byte → Bytes → σ → Rd σ) (w : Nat) (st st' r : σ)
    (tag : Byte) (name e1 e2 : Bytes) (hn : name.length < 32768)
    (h0 : tag ≠ 0#8) (h1 : tag ≠ 0x1f#8) (h2 : tag ≠ 0x78#8)
    (hs : R c (step tag name st) e1 st') (hl : R c (kvLoop step w st') e2 r) :
    R c (kvLoop step (w + 1) st) (tag :: encString name ++ e1 ++ e2) r := by
  unfold kvLoop
  have : tag :: encString name ++ e1 ++ e2 = (tag :: encString name) ++ (e1 ++ e2) := by simp
  rw [this]
  apply R_bind (R_readTag c tag name hn h0 h1 h2)
  simp only [if_neg h0]
  exact R_bind hs hl

/-- what the position theorems need to know about a carrier type `c` (RawMessage, dynbt.Value) and the value
`val t` it holds after decoding the payload of a tree `t` -/
structure CarrierExact (cx : SnbtCarrier) (c : GoType) (ok : NBT → Prop) (val : NBT → GoVal) : Prop where
  isCarrier : ∀ t, (val t).isCarrier = true
  typeOf : ∀ t, (val t).typeOf = c
  zeroTy : c.zero.typeOf = c
  reads : ∀ d fuel old t, ok t → R (cost t ≤ fuel) (unmarshal cx d fuel c old t.tag) (encPayload t) (val t)
  getTag : ∀ f t, ok t → getTagType cx (f + 1) (val t) = (t.tag, val t)
  marshal : ∀ f t, ok t → marshal cx (f + 1) (val t) t.tag = Res.ok (encPayload t)

theorem rawExact (cx : SnbtCarrier) :
    CarrierExact cx .raw (fun t => t.WF ∧ S15 t) (fun t => .raw t.tag (encPayload t)) where
  isCarrier := fun _ => rfl
  typeOf := fun _ => rfl
  zeroTy := rfl
  reads := by
    intro d fuel old t ⟨hwf, hs⟩
    cases fuel with
    | zero => unfold unmarshal; exact R_fail (by have := cost_pos t; omega) _ _
    | succ f =>
      unfold unmarshal
      simp only [umCarrier]
      rw [if_neg (tag_not_magic t).1]
      exact R_enc (by simp) (R_bind (raw_R t (f + 1) hwf hs) (R_pure _ _))
  getTag := fun _ _ _ => rfl
  marshal := fun _ _ _ => rfl

theorem dynExact (cx : SnbtCarrier) :
    CarrierExact cx .dyn (fun t => t.WF ∧ GoMC.Lemmas.DynBT.Small t) (fun t => .dyn (GoMC.Lemmas.DynBT.toVal t)) where
  isCarrier := fun _ => rfl
  typeOf := fun _ => rfl
  zeroTy := rfl
  reads := by
    intro d fuel old t ⟨hwf, hs⟩
    cases fuel with
    | zero => unfold unmarshal; exact R_fail (by have := cost_pos t; omega) _ _
    | succ f =>
      unfold unmarshal
      simp only [umCarrier]
      have hd : R (cost t ≤ f + 1) (DynBT.unmarshal t.tag) (encPayload t) (GoMC.Lemmas.DynBT.toVal t) := by
        intro s rest h
        left
        exact GoMC.Lemmas.DynBT.unm_reads t hwf hs (s.flat.length + 2)
          (by rw [h, List.length_append]; omega) s rest h
      exact R_enc (by simp) (R_bind hd (R_pure _ _))
  getTag := by
    intro f t _
    simp only [getTagType, carrierTag]
    rw [GoMC.Lemmas.DynBT.tag_toVal t]
  marshal := by
    intro f t h
    simp only [Go.marshal, GoVal.isCarrier, GoVal.typeOf, GoType.isCarrier, if_true, carrierMarshal]
    exact GoMC.Lemmas.DynBT.marshal_toVal t h.1

/-! list position -/

theorem R_listHeader (c : Prop) (e : Byte) (n : Nat) (he : e.toNat ≤ 12) (hn : n < 2147483648) (h0 : e ≠ 0#8 ∨ n = 0) :
    R c listHeader (e :: beBytes 4 n) (e, n) := by
  unfold listHeader
  have : e :: beBytes 4 n = [e] ++ (beBytes 4 n ++ []) := by simp
  rw [this]
  apply R_bind (R_readByte c e)
  rw [if_neg (by omega)]
  rw [← be32_ofNat _ hn]
  apply R_bind (R_readInt32 c _)
  rw [msb32_false _ hn, toNat32 _ hn]
  have hend : ¬ (e = 0#8 ∧ n > 0) := by
    rintro ⟨h1, h2⟩
    rcases h0 with h | h
    · exact h h1
    · omega
  simp only [Bool.false_eq_true, if_false, hend]
  exact R_pure c _

theorem R_rdRepeat {α : Type} (c : Prop) (p : Rd α) (ts : List NBT) (val : NBT → α)
    (h : ∀ t ∈ ts, R c p (encPayload t) (val t)) :
    R c (rdRepeat p ts.length) (encList ts) (ts.map val) := by
  induction ts with
  | nil => exact R_pure c _
  | cons t ts ih =>
    simp only [List.length_cons, encList, List.map_cons]
    unfold rdRepeat
    apply R_bind (h t (List.mem_cons_self))
    exact R_enc (by simp) (R_bind (ih (fun t' ht' => h t' (List.mem_cons_of_mem _ ht'))) (R_pure c _))

theorem resMapM_ok {α β : Type} (f : α → Res β) (g : α → β) (xs : List α) (h : ∀ x ∈ xs, f x = Res.ok (g x)) :
    resMapM f xs = Res.ok (xs.map g) := by
  induction xs with
  | nil => rfl
  | cons x xs ih =>
    unfold resMapM
    rw [h x (List.mem_cons_self), ih (fun y hy => h y (List.mem_cons_of_mem _ hy))]
    rfl

theorem encList_eq_flatten (ts : List NBT) : encList ts = (ts.map encPayload).flatten := by
  induction ts with
  | nil => rfl
  | cons t ts ih => simp [encList, ih]


theorem getTagType_slice_cons (cx : SnbtCarrier) (f : Nat) (e : GoType) (nl : Bool) (x : GoVal) (xs : List GoVal) :
    getTagType cx (f + 1) (.slice e nl (x :: xs)) =
      (if (getTagType cx f x).2.isCarrier then (9, .slice e nl (x :: xs))
       else (arrTag (getTagType cx f x).1, .slice e nl (x :: xs))) := by
  cases nl <;> simp only [getTagType]

theorem writeValue_list_slice (cx : SnbtCarrier) (f : Nat) (e : GoType) (nl : Bool) (x : GoVal) (xs : List GoVal) :
    writeValue cx (f + 1) (.slice e nl (x :: xs)) 9 =
      resFlatten (resMapM (elemEnc (getTagType cx f) (Go.marshal cx f) (getTagType cx f x).1) (x :: xs))
        ((getTagType cx f x).1 :: beN 4 (x :: xs).length ++ ·) := by
  have h9 : (9 : BitVec 8).toNat = 9 := rfl
  cases nl <;> simp only [writeValue, h9]

theorem resMapM_map_ok {α β γ : Type} (f : β → Res γ) (val : α → β) (g : α → γ) (ts : List α)
    (h : ∀ t ∈ ts, f (val t) = Res.ok (g t)) : resMapM f (ts.map val) = Res.ok (ts.map g) := by
  induction ts with
  | nil => rfl
  | cons t ts ih =>
    simp only [List.map_cons]
    unfold resMapM
    rw [h t (List.mem_cons_self), ih (fun y hy => h y (List.mem_cons_of_mem _ hy))]

theorem wfKvs_mem : ∀ {kvs : List (Bytes × NBT)}, NBT.WFKvs kvs → ∀ kv ∈ kvs, kv.2.WF
  | [], _, kv, h => by cases h
  | (k, v) :: kvs, h, kv, hm => by
    simp only [NBT.WFKvs] at h
    rcases List.mem_cons.mp hm with rfl | h'
    · exact h.2.1
    · exact wfKvs_mem h.2.2 kv h'

/-- a map built by inserting entries with pairwise different keys holds them in insertion order -/
theorem foldl_mapSet_nodup {α : Type} (kvs : List (Bytes × α)) (acc : List (Bytes × α))
    (hnd : (kvs.map (·.1)).Nodup) (hdis : ∀ kv ∈ kvs, ∀ a ∈ acc, a.1 ≠ kv.1) :
    kvs.foldl (fun a kv => NBT.mapSet a kv.1 kv.2) acc = acc ++ kvs := by
  induction kvs generalizing acc with
  | nil => simp
  | cons kv kvs ih =>
    simp only [List.foldl_cons]
    have hfil : NBT.mapSet acc kv.1 kv.2 = acc ++ [kv] := by
      unfold NBT.mapSet
      have : acc.filter (fun e => !(e.1 == kv.1)) = acc := by
        apply List.filter_eq_self.mpr
        intro a ha
        have := hdis kv (List.mem_cons_self) a ha
        simp [this]
      rw [this]
    rw [hfil]
    simp only [List.map_cons, List.nodup_cons] at hnd
    rw [ih (acc ++ [kv]) hnd.2 (by
      intro kv' hkv' a ha
      rcases List.mem_append.mp ha with h | h
      · exact hdis kv' (List.mem_cons_of_mem _ hkv') a h
      · simp only [List.mem_singleton] at h
        subst h
        intro heq
        exact hnd.1 (by rw [heq]; exact List.mem_map_of_mem hkv'))]
    simp

theorem encKvs_eq_flatten (kvs : List (Bytes × NBT)) :
    encKvs kvs = (kvs.map fun kv => kv.2.tag :: encString kv.1 ++ encPayload kv.2).flatten ++ [0#8] := by
  induction kvs with
  | nil => rfl
  | cons kv kvs ih =>
    obtain ⟨k, v⟩ := kv
    simp only [encKvs, ih, List.map_cons, List.flatten_cons, List.append_assoc, List.cons_append]

/-- the struct type `struct { R C `nbt:"r"` }` used for the field position -/
def rInfo : FieldInfo := { name := [82], anonymous := false, exported := true, nbt := [114] }
def fieldTy (c : GoType) : GoType := .struct [] [(rInfo, c)]
def rFld (c : GoType) : Fld := { name := [114], tagged := true, index := [0], typ := c, omitEmpty := false, asList := false }

theorem typeFields_raw : typeFields (fieldTy .raw) = [rFld .raw] := by rfl
theorem typeFields_dyn : typeFields (fieldTy .dyn) = [rFld .dyn] := by rfl

theorem wfList_mem {e : Byte} : ∀ {ts : List NBT}, NBT.WFList e ts → ∀ t ∈ ts, t.tag = e ∧ t.WF
  | [], _, t, ht => by cases ht
  | x :: xs, h, t, ht => by
    simp only [NBT.WFList] at h
    rcases List.mem_cons.mp ht with rfl | h'
    · exact ⟨h.1, h.2.1⟩
    · exact wfList_mem h.2.2 t h'

section
variable {cx : SnbtCarrier} {c : GoType} {ok : NBT → Prop} {val : NBT → GoVal} (hx : CarrierExact cx c ok val)
include hx

/-- root position, decoding: `Decode(&v)` with `v` of the carrier type -/
theorem carrier_root_dec (d : Bool) (fmt : Format) (name : Bytes) (t : NBT) (fuel : Nat) (hn : name.length < 32768)
    (hok : ok t) :
    R (cost t ≤ fuel) (decodeTypedF cx fuel (isNet fmt) d c) (encDoc fmt name t) (val t, docName fmt name) := by
  rw [encDoc_split]
  unfold decodeTypedF
  apply R_bind (R_readHead _ fmt name t hn)
  simp only
  exact R_enc (by simp) (R_bind (hx.reads d fuel _ t hok) (R_pure _ _))

/-- root position, encoding the decoded value again gives the document back -/
theorem carrier_root_enc (f : Nat) (fmt : Format) (name : Bytes) (t : NBT) (hn : name.length < 32768) (hok : ok t) :
    encodeF cx (f + 1) (isNet fmt) name (some (val t)) = Res.ok (encDoc fmt name t) := by
  unfold encodeF
  simp only [hx.getTag f t hok, hx.marshal f t hok]
  cases fmt with
  | file =>
    simp only [isNet, Bool.false_eq_true, if_false, writeTag]
    rw [if_neg (by omega)]
    simp only [encDoc, encString, beN_eq, List.cons_append, List.append_assoc]
  | network =>
    simp only [isNet, if_true, encDoc, List.cons_append, List.nil_append]

/-- list position, decoding: a list of carriers -/
theorem carrier_list_dec (d : Bool) (e : Byte) (ts : List NBT) (f : Nat) (old : GoVal)
    (hwf : (NBT.list e ts).WF) (hne : ts ≠ []) (hok : ∀ t ∈ ts, ok t) :
    R (∀ t ∈ ts, cost t ≤ f) (unmarshal cx d (f + 1) (.slice c) old (NBT.list e ts).tag)
      (encPayload (.list e ts)) (.slice c false (ts.map val)) := by
  simp only [NBT.WF, two31] at hwf
  obtain ⟨hlen, hnz, hle, hwfl⟩ := hwf
  have hnz' : e ≠ 0#8 ∨ ts.length = 0 := by
    rcases hnz with h | h
    · exact absurd h hne
    · exact Or.inl h
  unfold unmarshal
  have h9 : (9 : BitVec 8).toNat = 9 := rfl
  simp only [NBT.tag, NBT.tagList, umSlice, h9, encPayload]
  have : e :: beBytes 4 ts.length ++ encList ts = (e :: beBytes 4 ts.length) ++ (encList ts ++ []) := by simp
  rw [this]
  apply R_bind (R_listHeader _ e ts.length hle hlen hnz')
  simp only
  apply R_bind
  · apply R_rdRepeat
    intro t ht
    have := hx.reads d f c.zero t (hok t ht)
    rw [(wfList_mem hwfl t ht).1] at this
    exact R_mono (fun h => h t ht) this
  · exact R_pure _ _

/-- list position, encoding -/
theorem carrier_list_enc (e : Byte) (ts : List NBT) (f : Nat)
    (hwf : (NBT.list e ts).WF) (hne : ts ≠ []) (hok : ∀ t ∈ ts, ok t) :
    getTagType cx (f + 2) (.slice c false (ts.map val)) = (9, .slice c false (ts.map val)) ∧
    marshal cx (f + 3) (.slice c false (ts.map val)) 9 = Res.ok (encPayload (.list e ts)) := by
  simp only [NBT.WF, two31] at hwf
  obtain ⟨hlen, hnz, hle, hwfl⟩ := hwf
  obtain ⟨t0, ts', rfl⟩ : ∃ t0 ts', ts = t0 :: ts' := by
    cases ts with
    | nil => exact absurd rfl hne
    | cons a b => exact ⟨a, b, rfl⟩
  have ht0 := wfList_mem hwfl t0 (List.mem_cons_self)
  have hg0 := hx.getTag f t0 (hok t0 (List.mem_cons_self))
  refine ⟨?_, ?_⟩
  · rw [List.map_cons, getTagType_slice_cons, hg0]
    simp only [hx.isCarrier, if_true]
  · have hsl : GoVal.isCarrier (.slice c false ((t0 :: ts').map val)) = false := rfl
    unfold Go.marshal
    rw [hsl]
    simp only [Bool.false_eq_true, if_false]
    rw [List.map_cons, writeValue_list_slice, hg0]
    have hm : resMapM (elemEnc (getTagType cx (f + 1)) (Go.marshal cx (f + 1)) t0.tag) ((t0 :: ts').map val)
        = Res.ok ((t0 :: ts').map encPayload) := by
      apply resMapM_map_ok
      intro t ht
      unfold elemEnc
      simp only [hx.getTag f t (hok t ht), (wfList_mem hwfl t ht).1, ht0.1, ne_eq, not_true_eq_false, if_false]
      have := hx.marshal f t (hok t ht)
      rw [(wfList_mem hwfl t ht).1] at this
      exact this
    rw [← List.map_cons, hm]
    simp only [resFlatten, encPayload, ht0.1, beN_eq, List.length_map, encList_eq_flatten]

/-! map position -/

/-- the loop of the map branch over the entries of a compound, starting from the entries `acc` -/
theorem carrier_mapLoop (d : Bool) (f : Nat) : ∀ (kvs : List (Bytes × NBT)) (w : Nat) (acc : List (Bytes × GoVal)),
    (∀ kv ∈ kvs, kv.1.length < 32768 ∧ ok kv.2) →
    R (kvs.length + 1 ≤ w ∧ ∀ kv ∈ kvs, cost kv.2 ≤ f)
      (kvLoop (fun tt tn a => do
          let v ← unmarshal cx d f c c.zero tt
          Pure.pure (setMapKV a tn v)) w acc)
      (encKvs kvs) (kvs.foldl (fun a kv => NBT.mapSet a kv.1 (val kv.2)) acc)
  | kvs, 0, acc, _ => by
    unfold kvLoop
    exact R_fail (by omega) _ _
  | [], w + 1, acc, _ => R_kvLoop_end _ _ w acc
  | (k, t) :: kvs, w + 1, acc, h => by
    have hkt := h (k, t) (List.mem_cons_self)
    obtain ⟨t0, t1, t2⟩ := tag_not_magic t
    simp only [encKvs, List.foldl_cons]
    apply R_kvLoop_entry _ _ w acc (setMapKV acc k (val t)) _ t.tag k (encPayload t) (encKvs kvs) hkt.1 t0 t1 t2
    · have := hx.reads d f c.zero t hkt.2
      exact R_map (fun v => setMapKV acc k v) (R_mono (fun hc => hc.2 (k, t) (List.mem_cons_self)) this)
    · exact R_mono (fun hc => ⟨by have := hc.1; simp only [List.length_cons] at this; omega,
          fun kv hkv => hc.2 kv (List.mem_cons_of_mem _ hkv)⟩)
        (carrier_mapLoop d f kvs w (setMapKV acc k (val t)) (fun kv hkv => h kv (List.mem_cons_of_mem _ hkv)))

/-- map position, decoding into a map that holds nothing yet -/
theorem carrier_map_dec (d : Bool) (kvs : List (Bytes × NBT)) (f : Nat) (old : GoVal) (hold : mapEntries old = [])
    (hok : ∀ kv ∈ kvs, kv.1.length < 32768 ∧ ok kv.2) (hnd : (kvs.map (·.1)).Nodup) :
    R (kvs.length + 1 ≤ f ∧ ∀ kv ∈ kvs, cost kv.2 ≤ f)
      (unmarshal cx d (f + 1) (.map c) old (NBT.compound kvs).tag)
      (encPayload (.compound kvs)) (.map c false (kvs.map fun kv => (kv.1, val kv.2))) := by
  unfold unmarshal
  have h10 : (10 : BitVec 8).toNat = 10 := rfl
  simp only [NBT.tag, NBT.tagCompound, umMap, h10, encPayload, hold]
  have := carrier_mapLoop hx d f kvs f [] hok
  have hfold : kvs.foldl (fun a kv => NBT.mapSet a kv.1 (val kv.2)) [] = kvs.map fun kv => (kv.1, val kv.2) := by
    have h2 := foldl_mapSet_nodup (kvs.map fun kv => (kv.1, val kv.2)) []
      (by rw [List.map_map]; exact hnd) (by intro _ _ a ha; cases ha)
    rw [List.foldl_map] at h2
    simpa using h2
  rw [hfold] at this
  exact R_map (fun kvs' => GoVal.map c false kvs') this

/-- map position, encoding -/
theorem carrier_map_enc (kvs : List (Bytes × NBT)) (f : Nat) (nl : Bool)
    (hok : ∀ kv ∈ kvs, kv.1.length < 32768 ∧ ok kv.2) :
    getTagType cx (f + 1) (.map c nl (kvs.map fun kv => (kv.1, val kv.2))) = (10, .map c nl (kvs.map fun kv => (kv.1, val kv.2))) ∧
    marshal cx (f + 3) (.map c nl (kvs.map fun kv => (kv.1, val kv.2))) 10 = Res.ok (encPayload (.compound kvs)) := by
  refine ⟨by simp only [getTagType, tagOfType, GoVal.typeOf], ?_⟩
  have hsl : GoVal.isCarrier (.map c nl (kvs.map fun kv => (kv.1, val kv.2))) = false := rfl
  unfold Go.marshal
  rw [hsl]
  simp only [Bool.false_eq_true, if_false]
  have h10 : (10 : BitVec 8).toNat = 10 := rfl
  simp only [writeValue, h10]
  have hm : resMapM (entryEnc (getTagType cx (f + 1)) (Go.marshal cx (f + 1))) (kvs.map fun kv => (kv.1, val kv.2))
      = Res.ok (kvs.map fun kv => kv.2.tag :: encString kv.1 ++ encPayload kv.2) := by
    apply resMapM_map_ok
    intro kv hkv
    obtain ⟨hk, hokv⟩ := hok kv hkv
    unfold entryEnc
    have hlen : ¬ kv.1.length > 32767 := by omega
    have ht0 : ¬ kv.2.tag = 0 := (tag_not_magic kv.2).1
    simp only [hx.getTag f kv.2 hokv, hx.marshal f kv.2 hokv, if_false, writeTag, hlen]
    rw [if_neg ht0]
    simp only [encString, beN_eq, List.cons_append, List.append_assoc]
  rw [hm]
  simp only [resFlatten, encPayload, encKvs_eq_flatten]
  rfl

/-! field position -/

/-- field position, decoding `{"r": t}` into a fresh `struct { R C `nbt:"r"` }` -/
theorem carrier_field_dec (htab : typeFields (fieldTy c) = [rFld c]) (d : Bool) (t : NBT) (f : Nat) (hok : ok t) :
    R (cost t + 2 ≤ f) (unmarshal cx d (f + 1) (fieldTy c) (fieldTy c).zero (NBT.compound [([114], t)]).tag)
      (encPayload (.compound [([114], t)])) (.struct [] [(rInfo, c)] [val t]) := by
  obtain ⟨t0, t1, t2⟩ := tag_not_magic t
  have hc : (NBT.compound [([114], t)]).tag = 10 := rfl
  rw [hc]
  unfold unmarshal
  have h10 : (10 : BitVec 8).toNat = 10 := rfl
  simp only [fieldTy, umStruct, h10, encPayload, encKvs]
  have htab' : typeFields (.struct [] [(rInfo, c)]) = [rFld c] := htab
  rw [htab']
  have hz : structOr (.struct [] [(rInfo, c)]) (GoType.struct [] [(rInfo, c)]).zero = .struct [] [(rInfo, c)] [c.zero] := by
    simp [structOr, GoType.zero, GoType.zeroFields]
  rw [hz]
  match f with
  | 0 => unfold kvLoop; exact R_fail (by omega) _ _
  | w + 1 =>
    have : t.tag :: encString [114] ++ encPayload t ++ [NBT.tagEnd] = t.tag :: encString [114] ++ encPayload t ++ [0#8] := rfl
    rw [this]
    apply R_kvLoop_entry _ _ w _ (.struct [] [(rInfo, c)] [val t]) _ t.tag [114] (encPayload t) [0#8] (by decide) t0 t1 t2
    · -- the step: field lookup, walk, decode into the field
      have hl : lookupField [rFld c] [114] = some 0 := by rfl
      simp only [structStep, hl, List.getElem?_cons_zero]
      have hidx : (rFld c).index = [0] := rfl
      rw [hidx]
      simp only [updAt, updField, List.getElem?_cons_zero, List.set_cons_zero]
      have hr := hx.reads d (w + 1) c.zero t hok
      rw [hx.zeroTy]
      exact R_map (fun r => GoVal.struct [] [(rInfo, c)] [r]) (R_mono (by omega) hr)
    · match w with
      | 0 => unfold kvLoop; exact R_fail (by have := cost_pos t; omega) _ _
      | w' + 1 => exact R_kvLoop_end _ _ w' _

/-- field position, encoding -/
theorem carrier_field_enc (htab : typeFields (fieldTy c) = [rFld c]) (t : NBT) (f : Nat) (hok : ok t) :
    getTagType cx (f + 1) (.struct [] [(rInfo, c)] [val t]) = (10, .struct [] [(rInfo, c)] [val t]) ∧
    marshal cx (f + 3) (.struct [] [(rInfo, c)] [val t]) 10 = Res.ok (encPayload (.compound [([114], t)])) := by
  refine ⟨by simp only [getTagType, tagOfType, GoVal.typeOf], ?_⟩
  have hsl : GoVal.isCarrier (.struct [] [(rInfo, c)] [val t]) = false := rfl
  unfold Go.marshal
  rw [hsl]
  simp only [Bool.false_eq_true, if_false]
  have h10 : (10 : BitVec 8).toNat = 10 := rfl
  have htab' : typeFields (.struct [] [(rInfo, c)]) = [rFld c] := htab
  simp only [writeValue, h10, htab', resMapM]
  have hw : walkEnc [0] (.struct [] [(rInfo, c)] [val t]) = some (val t) := by rfl
  have ht0 : ¬ t.tag = 0 := (tag_not_magic t).1
  simp only [fieldEnc, rFld, hw, Bool.false_and, Bool.false_eq_true, if_false, hx.getTag f t hok,
    hx.marshal f t hok, writeTag]
  have hlen : ¬ ([114] : Bytes).length > 32767 := by decide
  simp only [ht0, hlen, if_false]
  simp only [resFlatten, encPayload, encKvs, encString, beN_eq, List.flatten_cons, List.flatten_nil,
    List.append_nil, List.cons_append, List.append_assoc, NBT.tagEnd]
end

/-! ### from `unmarshal` to `Decode` on a whole document, with the fuel the entry point uses -/

theorem mem_encList_le {t : NBT} : ∀ {ts : List NBT}, t ∈ ts → (encPayload t).length ≤ (encList ts).length
  | [], h => by cases h
  | x :: xs, h => by
    simp only [encList, List.length_append]
    rcases List.mem_cons.mp h with rfl | h'
    · omega
    · have := mem_encList_le h'; omega

theorem mem_encKvs_le {kv : Bytes × NBT} : ∀ {kvs : List (Bytes × NBT)}, kv ∈ kvs →
    (encPayload kv.2).length + 1 ≤ (encKvs kvs).length
  | [], h => by cases h
  | (k, v) :: kvs, h => by
    simp only [encKvs, List.length_cons, List.length_append]
    rcases List.mem_cons.mp h with rfl | h'
    · have := Spec.encKvs_length kvs
      show (encPayload v).length + 1 ≤ _
      omega
    · have := mem_encKvs_le h'; omega

/-- `Decode(&v)` of a whole document into a fresh variable, given what `unmarshal` does on the payload at every
fuel and that the side condition holds once the fuel exceeds the payload length -/
theorem decodeTyped_of_R (cx : SnbtCarrier) (d : Bool) (fmt : Format) (name : Bytes) (tree : NBT) (ty : GoType) (v : GoVal)
    (C : Nat → Prop) (hname : name.length < 32768)
    (h : ∀ f, R (C f) (unmarshal cx d (f + 1) ty ty.zero tree.tag) (encPayload tree) v)
    (hC : ∀ f, (encPayload tree).length + 3 ≤ f → C f)
    (s : Stream) (rest : Bytes) (hs : s.flat = encDoc fmt name tree ++ rest) :
    ∃ s', decodeTyped cx (isNet fmt) d ty s = (Res.ok (v, docName fmt name), s') ∧ s'.flat = rest ∧
      s'.failing = s.failing := by
  have hlen : (encPayload tree).length + 1 ≤ s.flat.length := by
    rw [hs]
    cases fmt <;> simp only [encDoc, List.length_append, List.length_cons] <;> omega
  have hge : fuelFor s ≤ typedFuel s ty ty.zero := by unfold typedFuel; omega
  have hr : R (C (typedFuel s ty ty.zero - 1)) (decodeTypedF cx (typedFuel s ty ty.zero) (isNet fmt) d ty) (encDoc fmt name tree)
      (v, docName fmt name) := by
    rw [encDoc_split]
    unfold decodeTypedF
    apply R_bind (R_readHead _ fmt name tree hname)
    simp only
    have hf : typedFuel s ty ty.zero = (typedFuel s ty ty.zero - 1) + 1 := by unfold fuelFor at hge; omega
    rw [hf]
    exact R_map (fun r => (r, docName fmt name)) (h (typedFuel s ty ty.zero - 1))
  rcases hr s rest hs with hok | ⟨hn, _⟩
  · exact hok
  · exact absurd (hC _ (by unfold fuelFor at hge; omega)) hn

end GoMC.Lemmas.NBTTyped
