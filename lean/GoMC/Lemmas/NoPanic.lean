/-
  Helper lemmas for C08 (peer-controlled input never crashes a decoder).

  * `NoPanic` (GoMC.Lemmas.Frame) closure over every decoder of the C06 term language, the registry decoders and
    the BitStorage reader.
  * `Cons k p` (GoMC.Lemmas.DynBT: `p` never gives bytes back, and a successful run consumes ≥ `k` bytes) for the
    same decoders; `Ty.consuming` is the static predicate "every successful decode takes at least one byte".
  * loop-iteration counters (`decElemsIters`, `longsIters`, `readLongsIters`; the registry ones are in
    GoMC.Model.Registry) and their bounds by the number of bytes consumed.

  New generic lemmas about the `Rd` monad (candidates for Basic/Core): `noPanic_readAll`, `cons_readAll`,
  `noPanic_of_eq_fail`, `Rd.ite_apply`, `cons_run` (pointwise form of `Cons`).
-/
import GoMC.Model.Combinators
import GoMC.Model.Registry
import GoMC.Model.BitStorage
import GoMC.Lemmas.Frame
import GoMC.Lemmas.DynBT
import GoMC.Props.DYNBT
namespace GoMC.Lemmas.C08
open GoMC GoMC.Model GoMC.Spec GoMC.Lemmas
open GoMC.Lemmas.DynBT (Cons cons_pure cons_fail cons_readFull cons_readByte cons_bind cons_ite)

/-! ### generic -/

theorem noPanic_readAll : NoPanic Rd.readAll := by
  intro s; unfold Rd.readAll; split <;> simp

theorem cons_readAll : Cons 0 Rd.readAll := by
  intro s; unfold Rd.readAll; split <;> simp

/-- pointwise reading of `Cons`: residual ≤ initial, and on success residual + k ≤ initial -/
theorem cons_run {α} {k : Nat} {p : Rd α} (h : Cons k p) {s s' : Stream} {r : Res α} (hr : p s = (r, s')) :
    s'.flat.length ≤ s.flat.length ∧ (∀ a, r = Res.ok a → s'.flat.length + k ≤ s.flat.length) := by
  have := h s
  rw [hr] at this
  exact this

/-- `Cons` with the bound relaxed through a bind whose continuation is only known to be `Cons 0` -/
theorem cons_bind0 {α β} {k : Nat} {p : Rd α} {f : α → Rd β} (hp : Cons k p) (hf : ∀ a, Cons 0 (f a)) :
    Cons k (p >>= f) := by
  have := cons_bind hp hf
  simpa using this

/-! ### NoPanic: the leaf decoders of net/packet/types.go -/

theorem noPanic_varLongRead : NoPanic varLongRead := noPanic_varLoop _ _ _ _

theorem noPanic_readByte1 : NoPanic readByte1 := noPanic_bind noPanic_readByte fun _ => noPanic_pure _
theorem noPanic_bool (d : Bool) : NoPanic (boolDec d) := noPanic_bind noPanic_readByte1 fun _ => noPanic_pure _
theorem noPanic_byte (d : BitVec 8) : NoPanic (byteDec d) := noPanic_bind noPanic_readByte1 fun _ => noPanic_pure _
theorem noPanic_fix (k : Nat) (d : BitVec (8 * k)) : NoPanic (fixDec k d) :=
  noPanic_bind (noPanic_readFull k) fun _ => noPanic_pure _
theorem noPanic_string (d : Bytes) : NoPanic (stringDec d) := by
  unfold stringDec
  refine noPanic_bind noPanic_varIntRead fun ⟨l, n⟩ => ?_
  exact noPanic_ite noPanic_fail (noPanic_bind (noPanic_readFull _) fun _ => noPanic_pure _)
theorem noPanic_byteArray (d : Slice Byte) : NoPanic (byteArrayDec d) := by
  unfold byteArrayDec
  refine noPanic_bind noPanic_varIntRead fun ⟨l, n⟩ => ?_
  exact noPanic_ite noPanic_fail (noPanic_bind (noPanic_readFull _) fun _ => noPanic_pure _)
theorem noPanic_longs (ds : List (BitVec 64)) : NoPanic (longsDec ds) := by
  induction ds with
  | nil => exact noPanic_pure _
  | cons d ds ih =>
    unfold longsDec
    exact noPanic_bind (noPanic_fix 8 d) fun _ => noPanic_bind ih fun _ => noPanic_pure _
theorem noPanic_bitSet (d : Slice (BitVec 64)) : NoPanic (bitSetDec d) := by
  unfold bitSetDec
  refine noPanic_bind noPanic_varIntRead fun ⟨l, n⟩ => ?_
  exact noPanic_ite noPanic_fail (noPanic_bind (noPanic_longs _) fun _ => noPanic_pure _)
theorem noPanic_position (d : Pos) : NoPanic (positionDec d) :=
  noPanic_bind (noPanic_fix 8 0) fun _ => noPanic_pure _
theorem noPanic_plugin (d : Bytes) : NoPanic (pluginDec d) :=
  noPanic_bind noPanic_readAll fun _ => noPanic_pure _

/-! ### NoPanic: the combinators of net/packet/util.go, parametrically -/

theorem noPanic_lenDec (l : LenKind) : NoPanic (lenDec l) := by
  cases l <;> unfold lenDec
  · exact noPanic_bind noPanic_varIntRead fun _ => noPanic_pure _
  · exact noPanic_bind noPanic_varLongRead fun _ => noPanic_pure _
  · exact noPanic_bind (noPanic_byte 0) fun _ => noPanic_pure _
  · exact noPanic_bind (noPanic_byte 0) fun _ => noPanic_pure _
  · exact noPanic_bind (noPanic_fix 2 0) fun _ => noPanic_pure _
  · exact noPanic_bind (noPanic_fix 2 0) fun _ => noPanic_pure _
  · exact noPanic_bind (noPanic_fix 4 0) fun _ => noPanic_pure _
  · exact noPanic_bind (noPanic_fix 8 0) fun _ => noPanic_pure _

theorem noPanic_decElems {α} (c : Codec α) (hc : ∀ d, NoPanic (c.dec d)) (ds : List α) : NoPanic (decElems c ds) := by
  induction ds with
  | nil => exact noPanic_pure _
  | cons d ds ih =>
    unfold decElems
    exact noPanic_bind (hc d) fun _ => noPanic_bind ih fun _ => noPanic_pure _

theorem noPanic_ary {α} (l : LenKind) (c : Codec α) (hc : ∀ d, NoPanic (c.dec d)) (d : Slice α) :
    NoPanic (aryDec l c d) := by
  unfold aryDec
  refine noPanic_bind (noPanic_lenDec l) fun ⟨len, n⟩ => ?_
  exact noPanic_ite noPanic_fail (noPanic_bind (noPanic_decElems c hc _) fun _ => noPanic_pure _)

theorem noPanic_option {α} (c : Codec α) (hc : ∀ d, NoPanic (c.dec d)) (d : Bool × α) : NoPanic (optionDec c d) := by
  unfold optionDec
  refine noPanic_bind (noPanic_bool _) fun ⟨h, n⟩ => ?_
  exact noPanic_ite (noPanic_pure _) (noPanic_bind (hc _) fun _ => noPanic_pure _)

theorem noPanic_pair {α β} (a : Codec α) (b : Codec β) (ha : ∀ d, NoPanic (a.dec d)) (hb : ∀ d, NoPanic (b.dec d))
    (d : α × β) : NoPanic (pairDec a b d) :=
  noPanic_bind (ha _) fun _ => noPanic_bind (hb _) fun _ => noPanic_pure _

/-- every decoder of the term language returns a value or an error -/
theorem noPanic_codec : ∀ (t : Ty) (d : Rep t), NoPanic ((codec t).dec d)
  | .bool, d => noPanic_bool d
  | .byte, d | .ubyte, d | .angle, d => noPanic_byte d
  | .short, d | .ushort, d => noPanic_fix 2 d
  | .int, d | .float, d => noPanic_fix 4 d
  | .long, d | .double, d => noPanic_fix 8 d
  | .varint, _ => noPanic_varIntRead
  | .varlong, _ => noPanic_varLongRead
  | .string, d => noPanic_string d
  | .pluginmsg, d => noPanic_plugin d
  | .bytearray, d => noPanic_byteArray d
  | .position, d => noPanic_position d
  | .uuid, d => noPanic_fix 16 d
  | .bitset, d => noPanic_bitSet d
  | .fixedbits n, d => noPanic_fix n d
  | .unit, _ => noPanic_pure _
  | .pair a b, d => noPanic_pair _ _ (noPanic_codec a) (noPanic_codec b) d
  | .option t, d => noPanic_option _ (noPanic_codec t) d
  | .opt1 t, d => noPanic_codec t d
  | .opt0 _, _ => noPanic_pure _
  | .ary l t, d => noPanic_ary l _ (noPanic_codec t) d

/-! ### Cons: bytes consumed -/

theorem cons_varLoop (w fuel num : Nat) (V : BitVec w) : Cons 1 (varLoop w fuel num V) := by
  induction fuel generalizing num V with
  | zero => exact cons_fail 1
  | succ fuel ih =>
    unfold varLoop
    refine cons_bind0 cons_readByte fun sec => ?_
    exact cons_ite ((ih _ _).weaken (by omega)) (cons_pure _)

theorem cons_varIntRead : Cons 1 varIntRead := cons_varLoop _ _ _ _
theorem cons_varLongRead : Cons 1 varLongRead := cons_varLoop _ _ _ _
theorem cons_readByte1 : Cons 1 readByte1 := cons_bind0 cons_readByte fun _ => cons_pure _
theorem cons_bool (d : Bool) : Cons 1 (boolDec d) := cons_bind0 cons_readByte1 fun _ => cons_pure _
theorem cons_byte (d : BitVec 8) : Cons 1 (byteDec d) := cons_bind0 cons_readByte1 fun _ => cons_pure _
theorem cons_fix (k : Nat) (d : BitVec (8 * k)) : Cons k (fixDec k d) :=
  cons_bind0 (cons_readFull k) fun _ => cons_pure _
theorem cons_string (d : Bytes) : Cons 1 (stringDec d) := by
  unfold stringDec
  refine cons_bind0 cons_varIntRead fun ⟨l, n⟩ => ?_
  exact cons_ite (cons_fail 0) (cons_bind0 ((cons_readFull _).weaken (Nat.zero_le _)) fun _ => cons_pure _)
theorem cons_byteArray (d : Slice Byte) : Cons 1 (byteArrayDec d) := by
  unfold byteArrayDec
  refine cons_bind0 cons_varIntRead fun ⟨l, n⟩ => ?_
  exact cons_ite (cons_fail 0) (cons_bind0 ((cons_readFull _).weaken (Nat.zero_le _)) fun _ => cons_pure _)
theorem cons_longs (ds : List (BitVec 64)) : Cons 0 (longsDec ds) := by
  induction ds with
  | nil => exact cons_pure _
  | cons d ds ih =>
    unfold longsDec
    exact cons_bind0 ((cons_fix 8 d).weaken (Nat.zero_le _)) fun _ => cons_bind0 ih fun _ => cons_pure _
theorem cons_bitSet (d : Slice (BitVec 64)) : Cons 1 (bitSetDec d) := by
  unfold bitSetDec
  refine cons_bind0 cons_varIntRead fun ⟨l, n⟩ => ?_
  exact cons_ite (cons_fail 0) (cons_bind0 (cons_longs _) fun _ => cons_pure _)
theorem cons_position (d : Pos) : Cons 8 (positionDec d) := cons_bind0 (cons_fix 8 0) fun _ => cons_pure _
theorem cons_plugin (d : Bytes) : Cons 0 (pluginDec d) := cons_bind0 cons_readAll fun _ => cons_pure _

theorem cons_lenDec (l : LenKind) : Cons 1 (lenDec l) := by
  cases l <;> unfold lenDec
  · exact cons_bind0 cons_varIntRead fun _ => cons_pure _
  · exact cons_bind0 cons_varLongRead fun _ => cons_pure _
  · exact cons_bind0 (cons_byte 0) fun _ => cons_pure _
  · exact cons_bind0 (cons_byte 0) fun _ => cons_pure _
  · exact cons_bind0 ((cons_fix 2 0).weaken (by omega)) fun _ => cons_pure _
  · exact cons_bind0 ((cons_fix 2 0).weaken (by omega)) fun _ => cons_pure _
  · exact cons_bind0 ((cons_fix 4 0).weaken (by omega)) fun _ => cons_pure _
  · exact cons_bind0 ((cons_fix 8 0).weaken (by omega)) fun _ => cons_pure _

theorem cons_decElems {α} (c : Codec α) (hc : ∀ d, Cons 0 (c.dec d)) (ds : List α) : Cons 0 (decElems c ds) := by
  induction ds with
  | nil => exact cons_pure _
  | cons d ds ih =>
    unfold decElems
    exact cons_bind0 (hc d) fun _ => cons_bind0 ih fun _ => cons_pure _

theorem cons_ary {α} (l : LenKind) (c : Codec α) (hc : ∀ d, Cons 0 (c.dec d)) (d : Slice α) : Cons 1 (aryDec l c d) := by
  unfold aryDec
  refine cons_bind0 (cons_lenDec l) fun ⟨len, n⟩ => ?_
  exact cons_ite (cons_fail 0) (cons_bind0 (cons_decElems c hc _) fun _ => cons_pure _)

theorem cons_option {α} (c : Codec α) (hc : ∀ d, Cons 0 (c.dec d)) (d : Bool × α) : Cons 1 (optionDec c d) := by
  unfold optionDec
  refine cons_bind0 (cons_bool _) fun ⟨h, n⟩ => ?_
  exact cons_ite (cons_pure _) (cons_bind0 (hc _) fun _ => cons_pure _)

theorem cons_pair {α β} {j k : Nat} (a : Codec α) (b : Codec β) (ha : ∀ d, Cons j (a.dec d)) (hb : ∀ d, Cons k (b.dec d))
    (d : α × β) : Cons (j + k) (pairDec a b d) := by
  have := cons_bind (ha d.1) fun x => cons_bind0 (hb d.2) fun y => cons_pure ((x.1, y.1), x.2 + y.2)
  exact this

/-- no decoder of the term language ever gives bytes back -/
theorem cons0_codec : ∀ (t : Ty) (d : Rep t), Cons 0 ((codec t).dec d)
  | .bool, d => (cons_bool d).weaken (Nat.zero_le _)
  | .byte, d | .ubyte, d | .angle, d => (cons_byte d).weaken (Nat.zero_le _)
  | .short, d | .ushort, d => (cons_fix 2 d).weaken (Nat.zero_le _)
  | .int, d | .float, d => (cons_fix 4 d).weaken (Nat.zero_le _)
  | .long, d | .double, d => (cons_fix 8 d).weaken (Nat.zero_le _)
  | .varint, _ => cons_varIntRead.weaken (Nat.zero_le _)
  | .varlong, _ => cons_varLongRead.weaken (Nat.zero_le _)
  | .string, d => (cons_string d).weaken (Nat.zero_le _)
  | .pluginmsg, d => cons_plugin d
  | .bytearray, d => (cons_byteArray d).weaken (Nat.zero_le _)
  | .position, d => (cons_position d).weaken (Nat.zero_le _)
  | .uuid, d => (cons_fix 16 d).weaken (Nat.zero_le _)
  | .bitset, d => (cons_bitSet d).weaken (Nat.zero_le _)
  | .fixedbits n, d => (cons_fix n d).weaken (Nat.zero_le _)
  | .unit, _ => cons_pure _
  | .pair a b, d => cons_pair (j := 0) (k := 0) _ _ (cons0_codec a) (cons0_codec b) d
  | .option t, d => (cons_option _ (cons0_codec t) d).weaken (Nat.zero_le _)
  | .opt1 t, d => cons0_codec t d
  | .opt0 _, _ => cons_pure _
  | .ary l t, d => (cons_ary l _ (cons0_codec t) d).weaken (Nat.zero_le _)


/-- the types whose decoder takes at least one byte whenever it succeeds (zero-width: `Tuple{}`, `Opt` with
`Has = false`, `FixedBitSet` of no bytes, "the rest of the packet" at the end of input, tuples of such) -/
def consuming : Ty → Bool
  | .pluginmsg | .unit | .opt0 _ => false
  | .fixedbits n => decide (0 < n)
  | .pair a b => consuming a || consuming b
  | .opt1 t => consuming t
  | _ => true

theorem cons1_codec : ∀ (t : Ty), consuming t = true → ∀ (d : Rep t), Cons 1 ((codec t).dec d)
  | .bool, _, d => cons_bool d
  | .byte, _, d | .ubyte, _, d | .angle, _, d => cons_byte d
  | .short, _, d | .ushort, _, d => (cons_fix 2 d).weaken (by omega)
  | .int, _, d | .float, _, d => (cons_fix 4 d).weaken (by omega)
  | .long, _, d | .double, _, d => (cons_fix 8 d).weaken (by omega)
  | .varint, _, _ => cons_varIntRead
  | .varlong, _, _ => cons_varLongRead
  | .string, _, d => cons_string d
  | .bytearray, _, d => cons_byteArray d
  | .position, _, d => (cons_position d).weaken (by omega)
  | .uuid, _, d => (cons_fix 16 d).weaken (by omega)
  | .bitset, _, d => cons_bitSet d
  | .fixedbits n, h, d => (cons_fix n d).weaken (by
      have : 0 < n := by simpa [consuming] using h
      omega)
  | .pair a b, h, d => by
    simp only [consuming, Bool.or_eq_true] at h
    rcases h with h | h
    · exact cons_pair (j := 1) (k := 0) _ _ (cons1_codec a h) (cons0_codec b) d
    · exact cons_pair (j := 0) (k := 1) _ _ (cons0_codec a) (cons1_codec b h) d
  | .option t, _, d => cons_option _ (cons0_codec t) d
  | .opt1 t, h, d => cons1_codec t (by simpa [consuming] using h) d
  | .ary l t, _, d => cons_ary l _ (cons0_codec t) d

/-! ### loop iterations of the element loops, and their bound by the bytes consumed -/

/-- a bind whose continuation leaves the source alone ends where its first part ends -/
theorem bind_snd {α β} (p : Rd α) (f : α → Rd β) (hf : ∀ a s, (f a s).2 = s) (s : Stream) :
    ((p >>= f) s).2 = (p s).2 := by
  rw [Rd.bind_apply]
  rcases p s with ⟨r, s'⟩
  cases r with
  | ok a => exact hf a s'
  | err => rfl
  | panic => rfl

/-- loop bodies started by `for i := 0; i < int(Len); i++ { elem.ReadFrom(r) }` -/
def decElemsIters {α} (c : Codec α) : List α → Stream → Nat
  | [], _ => 0
  | d :: ds, s =>
    1 + (match c.dec d s with
      | (.ok _, s') => decElemsIters c ds s'
      | _ => 0)

theorem decElems_cons {α} (c : Codec α) (d : α) (ds : List α) :
    decElems c (d :: ds) =
      (c.dec d >>= fun x => decElems c ds >>= fun y => (Pure.pure (x.1 :: y.1, x.2 + y.2) : Rd (List α × Nat))) := rfl

theorem decElems_cons_ok {α} {c : Codec α} {d : α} {ds : List α} {s s' : Stream} {v : α × Nat}
    (h : c.dec d s = (Res.ok v, s')) : (decElems c (d :: ds) s).2 = (decElems c ds s').2 := by
  rw [decElems_cons, Rd.bind_ok h]
  exact bind_snd _ _ (fun _ _ => rfl) s'

theorem decElems_cons_fail {α} {c : Codec α} {d : α} {ds : List α} {s s' : Stream} {r : Res (α × Nat)}
    (h : c.dec d s = (r, s')) (hr : ∀ v, r ≠ Res.ok v) : (decElems c (d :: ds) s).2 = s' := by
  rw [decElems_cons]
  cases r with
  | ok v => exact absurd rfl (hr v)
  | err => rw [Rd.bind_err h]
  | panic => rw [Rd.bind_panic h]

/-- if every successful element decode takes ≥ `k` bytes, then `k · iterations ≤ bytes consumed + k` -/
theorem decElemsIters_bound {α} {k : Nat} (c : Codec α) (hc : ∀ d, Cons k (c.dec d)) (ds : List α) (s : Stream) :
    k * decElemsIters c ds s + (decElems c ds s).2.flat.length ≤ s.flat.length + k := by
  induction ds generalizing s with
  | nil => simp [decElemsIters, decElems]
  | cons d ds ih =>
    rcases h : c.dec d s with ⟨r, s'⟩
    have hk := cons_run (hc d) h
    cases r with
    | ok v =>
      rw [decElems_cons_ok h]
      have h2 := hk.2 v rfl
      have := ih s'
      simp only [decElemsIters, h]
      rw [Nat.mul_add]
      omega
    | err =>
      rw [decElems_cons_fail h (by intro v; simp)]
      simp only [decElemsIters, h]
      omega
    | panic =>
      rw [decElems_cons_fail h (by intro v; simp)]
      simp only [decElemsIters, h]
      omega

/-- a successful element loop has taken ≥ `k` bytes per element -/
theorem cons_decElems_len {α} {k : Nat} (c : Codec α) (hc : ∀ d, Cons k (c.dec d)) (ds : List α) :
    Cons (k * ds.length) (decElems c ds) := by
  induction ds with
  | nil => simpa [decElems] using (cons_pure (([] : List α), 0))
  | cons d ds ih =>
    unfold decElems
    have := cons_bind (hc d) fun x => cons_bind0 ih fun y => cons_pure (x.1 :: y.1, x.2 + y.2)
    rw [List.length_cons, Nat.mul_add, Nat.mul_one, Nat.add_comm]
    exact this

theorem longsDec_eq (ds : List (BitVec 64)) : longsDec ds = decElems longC ds := by
  induction ds with
  | nil => rfl
  | cons d ds ih => simp only [longsDec, decElems, ih]

/-- iterations of the whole `Ary.ReadFrom`: none if the length cannot be read or is negative -/
def aryIters {α} (l : LenKind) (c : Codec α) (old : Slice α) (s : Stream) : Nat :=
  match lenDec l s with
  | (.ok (len, _), s1) =>
    if len < 0 then 0
    else decElemsIters c (if old.cap < len.toNat then Slice.make c.zero len.toNat else old.setLen len.toNat).elems s1
  | _ => 0

theorem aryIters_bound {α} {k : Nat} (l : LenKind) (c : Codec α) (hc : ∀ d, Cons k (c.dec d)) (old : Slice α) (s : Stream) :
    k * aryIters l c old s + (aryDec l c old s).2.flat.length ≤ s.flat.length + k := by
  unfold aryIters aryDec
  rcases h : lenDec l s with ⟨r, s1⟩
  have h1 := cons_run (cons_lenDec l) h
  cases r with
  | ok v =>
    obtain ⟨len, n⟩ := v
    rw [Rd.bind_ok h]
    simp only
    by_cases hneg : len < 0
    · simp only [hneg, if_true, Rd.fail]; omega
    · simp only [hneg, if_false]
      rw [bind_snd _ _ (by intro x t; rfl)]
      have := decElemsIters_bound c hc
        (if old.cap < len.toNat then Slice.make c.zero len.toNat else old.setLen len.toNat).elems s1
      omega
  | err => rw [Rd.bind_err h]; simp only; omega
  | panic => rw [Rd.bind_panic h]; simp only; omega

theorem length_dst {α} (old : Slice α) (z : α) (L : Nat) :
    (if old.cap < L then Slice.make z L else old.setLen L).elems.length = L := by
  split
  · simp [Slice.make]
  · rename_i h
    simp only [Slice.setLen, Slice.cap] at *
    rw [List.length_take, List.length_append]
    omega

/-- `Ary.ReadFrom` cannot succeed when the declared count exceeds what is left, if elements take ≥ 1 byte -/
theorem ary_large {α} (l : LenKind) (c : Codec α) (hc : ∀ d, Cons 1 (c.dec d)) (old : Slice α)
    {s s1 : Stream} {len : Int} {n : Nat} (h : lenDec l s = (Res.ok (len, n), s1)) (h0 : 0 ≤ len)
    (hbig : (s1.flat.length : Int) < len) : ∀ r, (aryDec l c old s).1 ≠ Res.ok r := by
  intro r hr
  unfold aryDec at hr
  rw [Rd.bind_ok h] at hr
  have hneg : ¬ len < 0 := by omega
  simp only [hneg, if_false] at hr
  rw [Rd.bind_apply] at hr
  rcases h2 : decElems c (if old.cap < len.toNat then Slice.make c.zero len.toNat else old.setLen len.toNat).elems s1
    with ⟨r2, s2⟩
  rw [h2] at hr
  cases r2 with
  | ok v =>
    have := (cons_run (cons_decElems_len c hc _) h2).2 v rfl
    rw [length_dst] at this
    omega
  | err => simp at hr
  | panic => simp at hr

/-! ### negative length prefixes -/

theorem neg_string (d : Bytes) {s s1 : Stream} {l : BitVec 32} {n : Nat}
    (h : varIntRead s = (Res.ok (l, n), s1)) (hneg : l.toInt < 0) : stringDec d s = (Res.err, s1) := by
  unfold stringDec
  rw [Rd.bind_ok h]
  simp only [hneg, if_true]
  rfl

theorem neg_byteArray (d : Slice Byte) {s s1 : Stream} {l : BitVec 32} {n : Nat}
    (h : varIntRead s = (Res.ok (l, n), s1)) (hneg : l.toInt < 0) : byteArrayDec d s = (Res.err, s1) := by
  unfold byteArrayDec
  rw [Rd.bind_ok h]
  simp only [hneg, if_true]
  rfl

theorem neg_bitSet (d : Slice (BitVec 64)) {s s1 : Stream} {l : BitVec 32} {n : Nat}
    (h : varIntRead s = (Res.ok (l, n), s1)) (hneg : l.toInt < 0) : bitSetDec d s = (Res.err, s1) := by
  unfold bitSetDec
  rw [Rd.bind_ok h]
  simp only [hneg, if_true]
  rfl

theorem neg_ary {α} (l : LenKind) (c : Codec α) (d : Slice α) {s s1 : Stream} {len : Int} {n : Nat}
    (h : lenDec l s = (Res.ok (len, n), s1)) (hneg : len < 0) : aryDec l c d s = (Res.err, s1) := by
  unfold aryDec
  rw [Rd.bind_ok h]
  simp only [hneg, if_true]
  rfl

/-- a declared String / ByteArray length beyond what is left is an error (everything is consumed) -/
theorem large_string (d : Bytes) {s s1 : Stream} {l : BitVec 32} {n : Nat}
    (h : varIntRead s = (Res.ok (l, n), s1)) (h0 : 0 ≤ l.toInt) (hbig : s1.flat.length < l.toNat) :
    (stringDec d s).1 = Res.err := by
  unfold stringDec
  rw [Rd.bind_ok h]
  have : ¬ l.toInt < 0 := by omega
  simp only [this, if_false]
  rw [Rd.bind_apply]
  unfold Rd.readFull
  have : ¬ l.toNat ≤ s1.flat.length := by omega
  simp [this]

theorem large_byteArray (d : Slice Byte) {s s1 : Stream} {l : BitVec 32} {n : Nat}
    (h : varIntRead s = (Res.ok (l, n), s1)) (h0 : 0 ≤ l.toInt) (hbig : s1.flat.length < l.toNat) :
    (byteArrayDec d s).1 = Res.err := by
  unfold byteArrayDec
  rw [Rd.bind_ok h]
  have : ¬ l.toInt < 0 := by omega
  simp only [this, if_false]
  rw [Rd.bind_apply]
  unfold Rd.readFull
  have : ¬ l.toNat ≤ s1.flat.length := by omega
  simp [this]


/-! ### BitStorage.ReadFrom / Fix (level/bitstorage.go) -/

theorem readFrom_ne_panic (st : BitStorage) (s : Stream) : (st.readFrom s).1 ≠ Res.panic := by
  unfold BitStorage.readFrom
  have hv := noPanic_varIntRead s
  rcases h : varIntRead s with ⟨r, s1⟩
  rw [h] at hv
  cases r with
  | ok a =>
    obtain ⟨len, n⟩ := a
    simp only
    repeat' split
    all_goals simp
  | err => simp
  | panic => exact absurd rfl hv

theorem tdiv64_pos {b : Int} (h1 : 1 ≤ b) (h64 : b ≤ 64) : Int.tdiv 64 b ≠ 0 := by
  obtain ⟨n, rfl⟩ := Int.eq_ofNat_of_zero_le (by omega : 0 ≤ b)
  have hn1 : 1 ≤ n := by omega
  have hn : n ≤ 64 := by omega
  have : Int.tdiv 64 (n : Int) = ((64 / n : Nat) : Int) := by
    rw [show (64 : Int) = ((64 : Nat) : Int) from rfl, Int.ofNat_tdiv]
  rw [this]
  have : 1 ≤ 64 / n := (Nat.le_div_iff_mul_le (by omega)).2 (by omega)
  omega

/-- `Fix(bits)` never panics for the widths a palette configuration hands it (`0 ≤ bits ≤ 64`) -/
theorem fix_ne_panic (st : BitStorage) (bits : Int) (h0 : 0 ≤ bits) (h64 : bits ≤ 64) : (st.fix bits).1 ≠ Res.panic := by
  unfold BitStorage.fix
  by_cases hb : bits = 0
  · simp [hb]
  · have hneg : ¬ bits < 0 := by omega
    simp only [hb, hneg, if_false]
    unfold calcBitStorageSize
    simp only [hb, if_false]
    have := tdiv64_pos (b := bits) (by omega) h64
    simp only [this, if_false]
    split <;> simp

theorem neg_readFrom (st : BitStorage) {s s1 : Stream} {l : BitVec 32} {n : Nat}
    (h : varIntRead s = (Res.ok (l, n), s1)) (hneg : l.toInt < 0) : st.readFrom s = (Res.err, st, s1) := by
  unfold BitStorage.readFrom
  rw [h]
  simp only [hneg, if_true]

/-- loop bodies started by `for i := range b.data { v.ReadFrom(r) }` -/
def readLongsIters : List (BitVec 64) → Stream → Nat
  | [], _ => 0
  | _ :: old, s =>
    1 + (match readLong s with
      | (.ok _, s') => readLongsIters old s'
      | _ => 0)

theorem cons_readLong : Cons 8 readLong := cons_bind0 (cons_readFull 8) fun _ => cons_pure _

theorem readLongs_bound (old : List (BitVec 64)) (s : Stream) :
    8 * readLongsIters old s + (readLongs old s).2.flat.length ≤ s.flat.length + 8 ∧
    ((readLongs old s).1.1 = true → 8 * old.length + (readLongs old s).2.flat.length ≤ s.flat.length) := by
  induction old generalizing s with
  | nil => simp [readLongsIters, readLongs]
  | cons o old ih =>
    rcases h : readLong s with ⟨r, s'⟩
    have hk := cons_run cons_readLong h
    cases r with
    | ok v =>
      have h2 := hk.2 v rfl
      have := ih s'
      simp only [readLongsIters, readLongs, h, List.length_cons]
      refine ⟨by omega, fun hh => ?_⟩
      have := this.2 hh
      omega
    | err =>
      simp only [readLongsIters, readLongs, h]
      refine ⟨by omega, fun hh => by simp at hh⟩
    | panic =>
      simp only [readLongsIters, readLongs, h]
      refine ⟨by omega, fun hh => by simp at hh⟩

/-- iterations of the whole `BitStorage.ReadFrom` -/
def readFromIters (st : BitStorage) (s : Stream) : Nat :=
  match varIntRead s with
  | (.ok (len, _), s1) =>
    if len.toInt < 0 then 0
    else readLongsIters
      (if len.toNat ≤ (st.data ++ st.spare).length then (st.data ++ st.spare).take len.toNat
        else List.replicate len.toNat 0#64) s1
  | _ => 0

theorem readFromIters_bound (st : BitStorage) (s : Stream) :
    8 * readFromIters st s + (st.readFrom s).2.2.flat.length ≤ s.flat.length + 8 := by
  unfold readFromIters BitStorage.readFrom
  rcases h : varIntRead s with ⟨r, s1⟩
  have h1 := cons_run cons_varIntRead h
  cases r with
  | ok a =>
    obtain ⟨len, n⟩ := a
    simp only
    by_cases hneg : len.toInt < 0
    · simp only [hneg, if_true]; omega
    · simp only [hneg, if_false]
      have := (readLongs_bound
        (if len.toNat ≤ (st.data ++ st.spare).length then (st.data ++ st.spare).take len.toNat
          else List.replicate len.toNat 0#64) s1).1
      omega
  | err => simp only; omega
  | panic => simp only; omega

/-- a declared data-array length whose longs are not all there is an error -/
theorem large_readFrom (st : BitStorage) {s s1 : Stream} {l : BitVec 32} {n : Nat}
    (h : varIntRead s = (Res.ok (l, n), s1)) (h0 : 0 ≤ l.toInt) (hbig : s1.flat.length < 8 * l.toNat) :
    (st.readFrom s).1 = Res.err := by
  unfold BitStorage.readFrom
  rw [h]
  have hneg : ¬ l.toInt < 0 := by omega
  simp only [hneg, if_false]
  have hb := (readLongs_bound
    (if l.toNat ≤ (st.data ++ st.spare).length then (st.data ++ st.spare).take l.toNat
      else List.replicate l.toNat 0#64) s1).2
  have hlen : (if l.toNat ≤ (st.data ++ st.spare).length then (st.data ++ st.spare).take l.toNat
      else List.replicate l.toNat 0#64).length = l.toNat := by
    split
    · rename_i hh; rw [List.length_take]; omega
    · simp
  rw [hlen] at hb
  generalize (if l.toNat ≤ (st.data ++ st.spare).length then (st.data ++ st.spare).take l.toNat
      else List.replicate l.toNat 0#64) = cells at hb ⊢
  by_cases hh : (readLongs cells s1).1.1 = true
  · have := hb hh
    omega
  · simp [hh]

/-! ### registry/network.go -/

open GoMC.Model.Registry in
theorem noPanic_readEntries {α} (dec : Rd (α × Nat)) (hd : NoPanic dec) :
    ∀ k acc n, NoPanic (readEntries dec k acc n)
  | 0, _, _ => noPanic_pure _
  | k + 1, acc, n => by
    unfold readEntries
    refine noPanic_bind (noPanic_string _) fun ⟨key, n1⟩ => ?_
    refine noPanic_bind (noPanic_bool _) fun ⟨has, n2⟩ => ?_
    refine noPanic_ite ?_ (noPanic_readEntries dec hd k _ _)
    exact noPanic_bind hd fun ⟨v, n3⟩ => noPanic_readEntries dec hd k _ _

open GoMC.Model.Registry in
theorem noPanic_regReadFrom {α} (dec : Rd (α × Nat)) (hd : NoPanic dec) : NoPanic (Registry.readFrom dec) := by
  unfold Registry.readFrom
  refine noPanic_bind noPanic_varIntRead fun ⟨len, n⟩ => ?_
  exact noPanic_ite noPanic_fail (noPanic_readEntries dec hd _ _ _)

open GoMC.Model.Registry in
theorem noPanic_readIds (nvals : Nat) : ∀ k acc n, NoPanic (readIds nvals k acc n)
  | 0, _, _ => noPanic_pure _
  | k + 1, acc, n => by
    unfold readIds
    refine noPanic_bind noPanic_varIntRead fun ⟨id, n3⟩ => ?_
    exact noPanic_ite noPanic_fail (noPanic_readIds nvals k _ _)

open GoMC.Model.Registry in
theorem noPanic_readGroups (nvals : Nat) : ∀ k tags n, NoPanic (readGroups nvals k tags n)
  | 0, _, _ => noPanic_pure _
  | k + 1, tags, n => by
    unfold readGroups
    refine noPanic_bind (noPanic_string _) fun ⟨tag, n1⟩ => ?_
    refine noPanic_bind noPanic_varIntRead fun ⟨len, n2⟩ => ?_
    refine noPanic_ite noPanic_fail ?_
    exact noPanic_bind (noPanic_readIds nvals _ _ _) fun ⟨ids, n'⟩ => noPanic_readGroups nvals k _ _

open GoMC.Model.Registry in
theorem noPanic_readTagsFrom (nvals : Nat) (tags₀ : List (Bytes × List Nat)) : NoPanic (readTagsFrom nvals tags₀) := by
  unfold readTagsFrom
  refine noPanic_bind noPanic_varIntRead fun ⟨count, n⟩ => ?_
  exact noPanic_ite noPanic_fail (noPanic_readGroups nvals _ _ _)

/-- the element decoder for `dynbt.Value` -/
theorem noPanic_nbtFieldDyn : NoPanic Registry.nbtFieldDyn := by
  intro s
  unfold Registry.nbtFieldDyn
  have := Props.DYNBT.DYNBT_total_doc false s
  rcases h : DynBT.decodeDoc false s with ⟨r, s'⟩
  rw [h] at this
  cases r with
  | ok a => simp
  | err =>
    simp only
    repeat' split
    all_goals simp
  | panic => exact absurd rfl this

/-- `endPartial` / `endElems` only move forward in the source -/
theorem endPartial_le : ∀ fuel : Nat,
    (∀ s v se, Registry.endPartial fuel s = some (v, se) → se.flat.length ≤ s.flat.length) ∧
    (∀ t k acc s v se, Registry.endElems fuel t k acc s = some (v, se) → se.flat.length ≤ s.flat.length) := by
  intro fuel
  induction fuel with
  | zero =>
    refine ⟨fun s v se h => ?_, fun t k acc s v se h => ?_⟩
    · simp [Registry.endPartial] at h
    · simp [Registry.endElems] at h
  | succ fuel ih =>
    refine ⟨fun s v se h => ?_, fun t k acc s v se h => ?_⟩
    · rw [Registry.endPartial] at h
      rcases h1 : Rd.readByte s with ⟨r1, s1⟩
      have c1 := cons_run cons_readByte h1
      rw [h1] at h
      cases r1 with
      | ok t =>
        simp only at h
        rcases h2 : DynBT.readInt32 s1 with ⟨r2, s2⟩
        have c2 := cons_run GoMC.Lemmas.DynBT.cons_readInt32 h2
        rw [h2] at h
        cases r2 with
        | ok n =>
          simp only at h
          split at h
          · simp at h
          · split at h
            · simp only [Option.some.injEq, Prod.mk.injEq] at h
              rw [← h.2]; omega
            · have := ih.2 _ _ _ _ _ _ h
              omega
        | err => simp at h
        | panic => simp at h
      | err => simp at h
      | panic => simp at h
    · cases k with
      | zero => simp [Registry.endElems] at h
      | succ k =>
        rw [Registry.endElems] at h
        rcases h1 : DynBT.unm (s.flat.length + 2) t s with ⟨r1, s1⟩
        have c1 := cons_run (GoMC.Lemmas.DynBT.cons0_unm (s.flat.length + 2) t) h1
        rw [h1] at h
        cases r1 with
        | ok x =>
          simp only at h
          have := ih.2 _ _ _ _ _ _ h
          omega
        | err =>
          simp only at h
          split at h
          · split at h
            · rename_i v' se' hp
              simp only [Option.some.injEq, Prod.mk.injEq] at h
              have := ih.1 _ _ _ hp
              rw [← h.2]; exact this
            · simp at h
          · simp at h
        | panic => simp at h

/-- the `dynbt.Value` element decoder never gives bytes back -/
theorem cons_nbtFieldDyn : Cons 0 Registry.nbtFieldDyn := by
  intro s
  unfold Registry.nbtFieldDyn
  rcases h : DynBT.decodeDoc false s with ⟨r, s'⟩
  have hd : s'.flat.length ≤ s.flat.length := by
    have : Cons 0 (DynBT.decodeDoc false) := by
      unfold DynBT.decodeDoc
      refine cons_bind0 (cons_readByte.weaken (Nat.zero_le _)) fun t => ?_
      simp only [Bool.false_eq_true, if_false]
      refine cons_bind0 ?_ fun v => cons_pure _
      intro s0
      exact GoMC.Lemmas.DynBT.cons0_unm (s0.flat.length + 2) t s0
    exact (cons_run this h).1
  cases r with
  | ok a => simp only; exact ⟨hd, fun _ _ => by omega⟩
  | panic => simp only; exact ⟨hd, fun _ h => by simp at h⟩
  | err => simp only; exact ⟨hd, fun _ h => by simp at h⟩

namespace Reg
open GoMC.Model.Registry

theorem readEntries_succ {α} (dec : Rd (α × Nat)) (k : Nat) (acc : List (Bytes × α)) (n : Nat) :
    readEntries dec (k + 1) acc n =
      (stringDec [] >>= fun x => boolDec false >>= fun y =>
        if y.1 = true then dec >>= fun z => readEntries dec k (acc ++ [(x.1, z.1)]) (n + x.2 + y.2 + z.2)
        else readEntries dec k acc (n + x.2 + y.2)) := rfl

theorem readIds_succ (nvals k : Nat) (acc : List Nat) (n : Nat) :
    readIds nvals (k + 1) acc n =
      (varIntRead >>= fun x =>
        if x.1.toInt < 0 ∨ nvals ≤ x.1.toNat then Rd.fail else readIds nvals k (acc ++ [x.1.toNat]) (n + x.2)) := rfl

theorem readGroups_succ (nvals k : Nat) (tags : List (Bytes × List Nat)) (n : Nat) :
    readGroups nvals (k + 1) tags n =
      (stringDec [] >>= fun x => varIntRead >>= fun y =>
        if y.1.toInt < 0 then Rd.fail else
          readIds nvals y.1.toNat [] (n + x.2 + y.2) >>= fun z => readGroups nvals k (tags ++ [(x.1, z.1)]) z.2) := rfl

theorem cons_readEntries {α} (dec : Rd (α × Nat)) (hd : Cons 0 dec) : ∀ k acc n, Cons 0 (readEntries dec k acc n)
  | 0, _, _ => cons_pure _
  | k + 1, acc, n => by
    rw [readEntries_succ]
    refine cons_bind0 ((cons_string _).weaken (Nat.zero_le _)) fun x => ?_
    refine cons_bind0 ((cons_bool _).weaken (Nat.zero_le _)) fun y => ?_
    refine cons_ite ?_ (cons_readEntries dec hd k _ _)
    exact cons_bind0 hd fun z => cons_readEntries dec hd k _ _

theorem cons_readIds (nvals : Nat) : ∀ k acc n, Cons 0 (readIds nvals k acc n)
  | 0, _, _ => cons_pure _
  | k + 1, acc, n => by
    rw [readIds_succ]
    refine cons_bind0 (cons_varIntRead.weaken (Nat.zero_le _)) fun x => ?_
    exact cons_ite (cons_fail 0) (cons_readIds nvals k _ _)

theorem cons_readGroups (nvals : Nat) : ∀ k tags n, Cons 0 (readGroups nvals k tags n)
  | 0, _, _ => cons_pure _
  | k + 1, tags, n => by
    rw [readGroups_succ]
    refine cons_bind0 ((cons_string _).weaken (Nat.zero_le _)) fun x => ?_
    refine cons_bind0 (cons_varIntRead.weaken (Nat.zero_le _)) fun y => ?_
    refine cons_ite (cons_fail 0) ?_
    exact cons_bind0 (cons_readIds nvals _ _ _) fun z => cons_readGroups nvals k _ _

/-- each iteration of the `ReadFrom` loop that completes has taken ≥ 2 bytes (key length, hasData) -/
theorem entriesIters_bound {α} (dec : Rd (α × Nat)) (hd : Cons 0 dec) : ∀ k acc n s,
    2 * entriesIters dec k acc n s + (readEntries dec k acc n s).2.flat.length ≤ s.flat.length + 2
  | 0, acc, n, s => by simp [entriesIters, readEntries]
  | k + 1, acc, n, s => by
    rw [readEntries_succ]
    rcases h1 : stringDec [] s with ⟨r1, s1⟩
    have c1 := cons_run (cons_string []) h1
    cases r1 with
    | ok a =>
      obtain ⟨key, n1⟩ := a
      have c1' := c1.2 _ rfl
      rw [Rd.bind_ok h1]
      rcases h2 : boolDec false s1 with ⟨r2, s2⟩
      have c2 := cons_run (cons_bool false) h2
      cases r2 with
      | ok b =>
        obtain ⟨has, n2⟩ := b
        have c2' := c2.2 _ rfl
        rw [Rd.bind_ok h2]
        cases has with
        | true =>
          simp only [if_true]
          rcases h3 : dec s2 with ⟨r3, s3⟩
          have c3 := cons_run hd h3
          cases r3 with
          | ok c =>
            obtain ⟨v, n3⟩ := c
            rw [Rd.bind_ok h3]
            have ih := entriesIters_bound dec hd k (acc ++ [(key, v)]) (n + n1 + n2 + n3) s3
            simp only [entriesIters, h1, h2, h3, if_true]
            omega
          | err => rw [Rd.bind_err h3]; simp only [entriesIters, h1, h2, h3, if_true]; omega
          | panic => rw [Rd.bind_panic h3]; simp only [entriesIters, h1, h2, h3, if_true]; omega
        | false =>
          have ih := entriesIters_bound dec hd k acc (n + n1 + n2) s2
          simp only [entriesIters, h1, h2, Bool.false_eq_true, if_false]
          omega
      | err => rw [Rd.bind_err h2]; simp only [entriesIters, h1, h2]; omega
      | panic => rw [Rd.bind_panic h2]; simp only [entriesIters, h1, h2]; omega
    | err => rw [Rd.bind_err h1]; simp only [entriesIters, h1]; omega
    | panic => rw [Rd.bind_panic h1]; simp only [entriesIters, h1]; omega

theorem readFromIters_bound {α} (dec : Rd (α × Nat)) (hd : Cons 0 dec) (s : Stream) :
    2 * Registry.readFromIters dec s + (Registry.readFrom dec s).2.flat.length ≤ s.flat.length + 2 := by
  unfold Registry.readFromIters Registry.readFrom
  rcases h : varIntRead s with ⟨r, s1⟩
  have c := cons_run cons_varIntRead h
  cases r with
  | ok a =>
    obtain ⟨len, n⟩ := a
    rw [Rd.bind_ok h]
    simp only
    by_cases hneg : len.toInt < 0
    · simp only [hneg, if_true, Rd.fail]; omega
    · simp only [hneg, if_false]
      have := entriesIters_bound dec hd len.toNat [] n s1
      omega
  | err => rw [Rd.bind_err h]; simp only; omega
  | panic => rw [Rd.bind_panic h]; simp only; omega

/-- the id loop: a completed iteration has taken ≥ 1 byte; a loop that runs to its end has taken ≥ 1 byte per id -/
theorem idsIters_bound (nvals : Nat) : ∀ k acc n s,
    idsIters nvals k acc n s + (readIds nvals k acc n s).2.flat.length ≤ s.flat.length + 1 ∧
    (∀ r, (readIds nvals k acc n s).1 = Res.ok r →
      idsIters nvals k acc n s + (readIds nvals k acc n s).2.flat.length ≤ s.flat.length)
  | 0, acc, n, s => by simp [idsIters, readIds]
  | k + 1, acc, n, s => by
    rw [readIds_succ]
    rcases h : varIntRead s with ⟨r, s1⟩
    have c := cons_run cons_varIntRead h
    cases r with
    | ok a =>
      obtain ⟨id, n3⟩ := a
      have c' := c.2 _ rfl
      rw [Rd.bind_ok h]
      simp only
      by_cases hbad : id.toInt < 0 ∨ nvals ≤ id.toNat
      · simp only [idsIters, h, hbad, if_true, Rd.fail]
        exact ⟨by omega, fun r hr => by simp at hr⟩
      · have ih := idsIters_bound nvals k (acc ++ [id.toNat]) (n + n3) s1
        simp only [idsIters, h, hbad, if_false]
        refine ⟨by omega, fun r hr => ?_⟩
        have := ih.2 r hr
        omega
    | err => rw [Rd.bind_err h]; simp only [idsIters, h]; exact ⟨by omega, fun r hr => by simp at hr⟩
    | panic => rw [Rd.bind_panic h]; simp only [idsIters, h]; exact ⟨by omega, fun r hr => by simp at hr⟩

/-- outer and inner iterations of `ReadTagsFrom` together never exceed the bytes consumed, plus one -/
theorem groupsIters_bound (nvals : Nat) : ∀ k tags n s,
    groupsIters nvals k tags n s + (readGroups nvals k tags n s).2.flat.length ≤ s.flat.length + 1
  | 0, tags, n, s => by simp [groupsIters, readGroups]
  | k + 1, tags, n, s => by
    rw [readGroups_succ]
    rcases h1 : stringDec [] s with ⟨r1, s1⟩
    have c1 := cons_run (cons_string []) h1
    cases r1 with
    | ok a =>
      obtain ⟨tag, n1⟩ := a
      have c1' := c1.2 _ rfl
      rw [Rd.bind_ok h1]
      rcases h2 : varIntRead s1 with ⟨r2, s2⟩
      have c2 := cons_run cons_varIntRead h2
      cases r2 with
      | ok b =>
        obtain ⟨len, n2⟩ := b
        have c2' := c2.2 _ rfl
        rw [Rd.bind_ok h2]
        simp only
        by_cases hneg : len.toInt < 0
        · simp only [groupsIters, h1, h2, hneg, if_true, Rd.fail]; omega
        · simp only [hneg, if_false]
          have hi := idsIters_bound nvals len.toNat [] (n + n1 + n2) s2
          rcases h3 : readIds nvals len.toNat [] (n + n1 + n2) s2 with ⟨r3, s3⟩
          rw [h3] at hi
          have hi1 := hi.1
          have hi2 := hi.2
          simp only at hi1 hi2
          clear hi
          cases r3 with
          | ok c =>
            obtain ⟨ids, n'⟩ := c
            rw [Rd.bind_ok h3]
            have hi' := hi2 _ rfl
            have ih := groupsIters_bound nvals k (tags ++ [(tag, ids)]) n' s3
            simp only [groupsIters, h1, h2, h3, hneg, if_false]
            have key : ∀ a b c e f g h : Nat, e + f ≤ c → g + h ≤ f + 1 → c + 1 ≤ b → b + 1 ≤ a →
                1 + (e + g) + h ≤ a + 1 := by intros; omega
            exact key _ _ _ _ _ _ _ hi' ih c2' c1' 
          | err =>
            rw [Rd.bind_err h3]
            simp only [groupsIters, h1, h2, h3, hneg, if_false, Nat.add_zero]
            omega
          | panic =>
            rw [Rd.bind_panic h3]
            simp only [groupsIters, h1, h2, h3, hneg, if_false, Nat.add_zero]
            omega
      | err => rw [Rd.bind_err h2]; simp only [groupsIters, h1, h2]; omega
      | panic => rw [Rd.bind_panic h2]; simp only [groupsIters, h1, h2]; omega
    | err => rw [Rd.bind_err h1]; simp only [groupsIters, h1]; omega
    | panic => rw [Rd.bind_panic h1]; simp only [groupsIters, h1]; omega

theorem readTagsFromIters_bound (nvals : Nat) (tags₀ : List (Bytes × List Nat)) (s : Stream) :
    readTagsFromIters nvals tags₀ s + (readTagsFrom nvals tags₀ s).2.flat.length ≤ s.flat.length + 1 := by
  unfold readTagsFromIters readTagsFrom
  rcases h : varIntRead s with ⟨r, s1⟩
  have c := cons_run cons_varIntRead h
  cases r with
  | ok a =>
    obtain ⟨count, n⟩ := a
    rw [Rd.bind_ok h]
    simp only
    by_cases hneg : count.toInt < 0
    · simp only [hneg, if_true, Rd.fail]; omega
    · simp only [hneg, if_false]
      have := groupsIters_bound nvals count.toNat tags₀ n s1
      have := c.2 _ rfl
      omega
  | err => rw [Rd.bind_err h]; simp only; omega
  | panic => rw [Rd.bind_panic h]; simp only; omega

/-! negative lengths -/

theorem neg_readFrom {α} (dec : Rd (α × Nat)) {s s1 : Stream} {l : BitVec 32} {n : Nat}
    (h : varIntRead s = (Res.ok (l, n), s1)) (hneg : l.toInt < 0) : Registry.readFrom dec s = (Res.err, s1) := by
  unfold Registry.readFrom
  rw [Rd.bind_ok h]
  simp only [hneg, if_true]
  rfl

theorem neg_readTagsFrom_count (nvals : Nat) (tags₀ : List (Bytes × List Nat)) {s s1 : Stream} {l : BitVec 32} {n : Nat}
    (h : varIntRead s = (Res.ok (l, n), s1)) (hneg : l.toInt < 0) : readTagsFrom nvals tags₀ s = (Res.err, s1) := by
  unfold readTagsFrom
  rw [Rd.bind_ok h]
  simp only [hneg, if_true]
  rfl

/-- a negative tag length inside any group (the input that used to panic in `make([]*E, length)`) -/
theorem neg_readGroups_length (nvals k : Nat) (tags : List (Bytes × List Nat)) (n : Nat) {s s1 s2 : Stream}
    {tag : Bytes} {n1 : Nat} {l : BitVec 32} {n2 : Nat}
    (h1 : stringDec [] s = (Res.ok (tag, n1), s1)) (h2 : varIntRead s1 = (Res.ok (l, n2), s2)) (hneg : l.toInt < 0) :
    readGroups nvals (k + 1) tags n s = (Res.err, s2) := by
  rw [readGroups_succ, Rd.bind_ok h1, Rd.bind_ok h2]
  simp only [hneg, if_true]
  rfl

/-- an id outside the registry (negative, or ≥ the number of values) is an error -/
theorem bad_id (nvals k : Nat) (acc : List Nat) (n : Nat) {s s1 : Stream} {id : BitVec 32} {n3 : Nat}
    (h : varIntRead s = (Res.ok (id, n3), s1)) (hbad : id.toInt < 0 ∨ nvals ≤ id.toNat) :
    readIds nvals (k + 1) acc n s = (Res.err, s1) := by
  rw [readIds_succ, Rd.bind_ok h]
  simp only [hbad, if_true]
  rfl

end Reg

end GoMC.Lemmas.C08
