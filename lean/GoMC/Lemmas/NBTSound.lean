/-
  Soundness of the tree-level decoders: whatever `unmarshal` into a nil `any` accepts is the encoding of a
  well-formed tree, and the value is the Go value of that tree — the converse of `any_R` (Lemmas/NBTDecode).
  `Snd Q p`: whenever `p` succeeds, the bytes it consumed and its result are related by `Q`.
-/
import GoMC.Lemmas.NBTDecode
set_option linter.unusedSimpArgs false
namespace GoMC.Lemmas.NBTSound
open GoMC GoMC.Rd GoMC.Model GoMC.Model.NBT GoMC.Lemmas.NBTDecode
open GoMC.Spec (NBT encPayload encList encKvs encString encDoc be16 be32 be64 beBytes beVal Format docName)

/-- whenever `p` returns a value, it has consumed a prefix `enc` of the content, nothing else changed, and `Q`
relates the value and the bytes consumed -/
def Snd {α : Type} (Q : α → Bytes → Prop) (p : Rd α) : Prop :=
  ∀ s v s', p s = (Res.ok v, s') → ∃ enc, s.flat = enc ++ s'.flat ∧ s'.failing = s.failing ∧ Q v enc

theorem snd_pure {α : Type} (a : α) : Snd (fun v enc => v = a ∧ enc = []) (Pure.pure a : Rd α) := by
  intro s v s' h
  simp only [Rd.pure_apply, Prod.mk.injEq, Res.ok.injEq] at h
  obtain ⟨rfl, rfl⟩ := h
  exact ⟨[], rfl, rfl, rfl, rfl⟩

theorem snd_fail {α : Type} (Q : α → Bytes → Prop) : Snd Q (Rd.fail : Rd α) := by
  intro s v s' h
  simp [Rd.fail] at h

theorem snd_mono {α : Type} {Q Q' : α → Bytes → Prop} {p : Rd α} (h : ∀ v enc, Q v enc → Q' v enc) (hp : Snd Q p) :
    Snd Q' p := by
  intro s v s' hs
  obtain ⟨enc, h1, h2, h3⟩ := hp s v s' hs
  exact ⟨enc, h1, h2, h v enc h3⟩

theorem snd_bind {α β : Type} {Q : α → Bytes → Prop} {Q' : α → β → Bytes → Prop} {p : Rd α} {f : α → Rd β}
    (hp : Snd Q p) (hf : ∀ a, Snd (Q' a) (f a)) :
    Snd (fun b enc => ∃ a e1 e2, enc = e1 ++ e2 ∧ Q a e1 ∧ Q' a b e2) (p >>= f) := by
  intro s v s' h
  rw [Rd.bind_apply] at h
  rcases hps : p s with ⟨r, s1⟩
  rw [hps] at h
  cases r with
  | ok a =>
    simp only at h
    obtain ⟨e1, h1, h2, h3⟩ := hp s a s1 hps
    obtain ⟨e2, g1, g2, g3⟩ := hf a s1 v s' h
    exact ⟨e1 ++ e2, by rw [h1, g1, List.append_assoc], by rw [g2, h2], a, e1, e2, rfl, h3, g3⟩
  | err => simp at h
  | panic => simp at h

theorem snd_ite {α : Type} {Q : α → Bytes → Prop} {c : Prop} [Decidable c] {p q : Rd α}
    (hp : c → Snd Q p) (hq : ¬ c → Snd Q q) : Snd Q (if c then p else q) := by
  by_cases h : c
  · rw [if_pos h]; exact hp h
  · rw [if_neg h]; exact hq h

/-- a guard: `if c then fail else p` succeeds only when `c` is false -/
theorem snd_guard {α : Type} {Q : α → Bytes → Prop} {c : Prop} [Decidable c] {p : Rd α} (hp : ¬ c → Snd Q p) :
    Snd (fun v enc => ¬ c ∧ Q v enc) (if c then Rd.fail else p) := by
  by_cases h : c
  · rw [if_pos h]; exact snd_fail _
  · rw [if_neg h]; exact snd_mono (fun v enc hq => ⟨h, hq⟩) (hp h)

theorem snd_readFull (n : Nat) : Snd (fun xs enc => enc = xs ∧ xs.length = n) (Rd.readFull n) := by
  intro s v s' h
  unfold Rd.readFull at h
  by_cases hn : n ≤ s.flat.length
  · rw [if_pos hn] at h
    simp only [Prod.mk.injEq, Res.ok.injEq] at h
    obtain ⟨rfl, rfl⟩ := h
    exact ⟨s.flat.take n, by simp, by simp, rfl, by simp [hn]⟩
  · rw [if_neg hn] at h; simp at h

theorem snd_readByte : Snd (fun b enc => enc = [b]) Rd.readByte := by
  intro s v s' h
  unfold Rd.readByte at h
  cases hf : s.flat with
  | nil => rw [hf] at h; simp at h
  | cons b bs =>
    rw [hf] at h
    simp only [Prod.mk.injEq, Res.ok.injEq] at h
    obtain ⟨rfl, rfl⟩ := h
    exact ⟨[b], by simp [hf], by simp, rfl⟩

/-! ### bytes and words -/

theorem beBytes_add_mul : ∀ (k a r : Nat), beBytes k (a * 256 ^ k + r) = beBytes k r
  | 0, _, _ => rfl
  | k + 1, a, r => by
    simp only [beBytes]
    have h1 : (a * 256 ^ (k + 1) + r) / 256 ^ k = a * 256 + r / 256 ^ k := by
      rw [Nat.pow_succ, ← Nat.mul_assoc, Nat.mul_comm (a * 256 ^ k) 256, ← Nat.mul_assoc, Nat.mul_comm 256 a]
      rw [Nat.add_comm, Nat.add_mul_div_right _ _ (Nat.pow_pos (by decide)), Nat.add_comm]
    have h2 : a * 256 ^ (k + 1) + r = (a * 256) * 256 ^ k + r := by
      rw [Nat.pow_succ, Nat.mul_assoc, Nat.mul_comm (256 ^ k) 256]
    rw [h1, h2, beBytes_add_mul k (a * 256) r]
    congr 1
    apply BitVec.eq_of_toNat_eq
    simp only [BitVec.toNat_ofNat]
    omega

theorem beBytes_beVal : ∀ bs : Bytes, beBytes bs.length (beVal bs) = bs
  | [] => rfl
  | b :: bs => by
    simp only [List.length_cons, beBytes, beVal]
    have hlt := GoMC.Spec.beVal_lt bs
    have h1 : (b.toNat * 256 ^ bs.length + beVal bs) / 256 ^ bs.length = b.toNat := by
      rw [Nat.add_comm, Nat.add_mul_div_right _ _ (Nat.pow_pos (by decide)), Nat.div_eq_of_lt hlt]; simp
    rw [h1, beBytes_add_mul, beBytes_beVal bs]
    simp

theorem be16_beWord (bs : Bytes) (h : bs.length = 2) : be16 (beWord 16 bs) = bs := by
  have hlt := GoMC.Spec.beVal_lt bs
  rw [h] at hlt
  rw [beWord_eq, be16, BitVec.toNat_ofNat, Nat.mod_eq_of_lt (by omega), ← h, beBytes_beVal]
theorem be32_beWord (bs : Bytes) (h : bs.length = 4) : be32 (beWord 32 bs) = bs := by
  have hlt := GoMC.Spec.beVal_lt bs
  rw [h] at hlt
  rw [beWord_eq, be32, BitVec.toNat_ofNat, Nat.mod_eq_of_lt (by omega), ← h, beBytes_beVal]
theorem be64_beWord (bs : Bytes) (h : bs.length = 8) : be64 (beWord 64 bs) = bs := by
  have hlt := GoMC.Spec.beVal_lt bs
  rw [h] at hlt
  rw [beWord_eq, be64, BitVec.toNat_ofNat, Nat.mod_eq_of_lt (by omega), ← h, beBytes_beVal]

theorem snd_readInt16 : Snd (fun v enc => enc = be16 v) readInt16 := by
  unfold readInt16
  refine snd_mono ?_ (snd_bind (snd_readFull 2) (fun bs => snd_pure (beWord 16 bs)))
  rintro v enc ⟨bs, e1, e2, rfl, ⟨rfl, hl⟩, rfl, rfl⟩
  simp [be16_beWord _ hl]
theorem snd_readInt32 : Snd (fun v enc => enc = be32 v) readInt32 := by
  unfold readInt32
  refine snd_mono ?_ (snd_bind (snd_readFull 4) (fun bs => snd_pure (beWord 32 bs)))
  rintro v enc ⟨bs, e1, e2, rfl, ⟨rfl, hl⟩, rfl, rfl⟩
  simp [be32_beWord _ hl]
theorem snd_readInt64 : Snd (fun v enc => enc = be64 v) readInt64 := by
  unfold readInt64
  refine snd_mono ?_ (snd_bind (snd_readFull 8) (fun bs => snd_pure (beWord 64 bs)))
  rintro v enc ⟨bs, e1, e2, rfl, ⟨rfl, hl⟩, rfl, rfl⟩
  simp [be64_beWord _ hl]

theorem msb16_lt (v : BitVec 16) (h : v.msb = false) : v.toNat < 32768 := by
  rw [BitVec.msb_eq_decide] at h
  simp at h; omega
theorem msb32_lt (v : BitVec 32) (h : v.msb = false) : v.toNat < 2147483648 := by
  rw [BitVec.msb_eq_decide] at h
  simp at h; omega

theorem snd_readString : Snd (fun s enc => enc = encString s ∧ s.length < 32768) readString := by
  unfold readString
  refine snd_mono ?_ (snd_bind snd_readInt16 (fun length =>
    snd_ite (Q := fun (s : Bytes) enc => length.msb = false ∧ enc = s ∧ s.length = length.toNat)
      (fun _ => snd_fail _) (fun hm =>
      snd_ite (fun _ => snd_mono (fun v enc h => ⟨by simpa using hm, h.1, h.2⟩) (snd_readFull length.toNat))
        (fun h0 => snd_mono (fun v enc h => ⟨by simpa using hm, by rw [h.1, h.2], by rw [h.1]; simp; omega⟩) (snd_pure [])))))
  rintro s enc ⟨len, e1, e2, rfl, rfl, hm, rfl, hl⟩
  refine ⟨?_, by have := msb16_lt len hm; omega⟩
  simp only [encString, be16, hl]

/-- a tag header: End, or a tag id (not one of the two "compressed" ids) and a name -/
def TagHdr (r : Byte × Bytes) (enc : Bytes) : Prop :=
  (r.1 = 0#8 ∧ r.2 = [] ∧ enc = [0#8]) ∨
  (r.1 ≠ 0#8 ∧ r.1 ≠ 0x1f#8 ∧ r.1 ≠ 0x78#8 ∧ enc = r.1 :: encString r.2 ∧ r.2.length < 32768)

theorem snd_readTag : Snd TagHdr readTag := by
  unfold readTag
  refine snd_mono ?_ (snd_bind snd_readByte (fun t =>
    snd_ite (Q := fun (r : Byte × Bytes) enc => r.1 = t ∧ ((t = 0#8 ∧ r.2 = [] ∧ enc = []) ∨
        (t ≠ 0#8 ∧ t ≠ 0x1f#8 ∧ t ≠ 0x78#8 ∧ enc = encString r.2 ∧ r.2.length < 32768)))
      (fun _ => snd_fail _) (fun hg =>
      snd_ite (fun h0 => snd_mono (fun v enc h => by rw [h.1]; exact ⟨rfl, Or.inl ⟨h0, rfl, h.2⟩⟩) (snd_pure (t, [])))
        (fun h0 => snd_mono (fun v enc h => by
            obtain ⟨name, e1, e2, rfl, ⟨rfl, hl⟩, rfl, rfl⟩ := h
            refine ⟨rfl, Or.inr ⟨h0, fun e => hg (Or.inl e), fun e => hg (Or.inr e), by simp, hl⟩⟩)
          (snd_bind snd_readString (fun name => snd_pure (t, name)))))))
  rintro ⟨t', name⟩ enc ⟨t, e1, e2, rfl, rfl, rfl, h⟩
  rcases h with ⟨h0, hn, rfl⟩ | ⟨h0, h1, h2, rfl, hl⟩
  · left; exact ⟨h0, hn, by simp at h0; simp [h0]⟩
  · right; exact ⟨h0, h1, h2, rfl, hl⟩

theorem snd_readInts : ∀ n, Snd (fun xs enc => enc = (xs.map be32).flatten ∧ xs.length = n) (readInts n)
  | 0 => by
    unfold readInts
    exact snd_mono (fun v enc h => by rw [h.1, h.2]; simp) (snd_pure [])
  | n + 1 => by
    unfold readInts
    refine snd_mono ?_ (snd_bind snd_readInt32 (fun x => snd_bind (snd_readInts n) (fun xs => snd_pure (x :: xs))))
    rintro v enc ⟨x, e1, e2, rfl, rfl, xs, e3, e4, rfl, ⟨rfl, hl⟩, rfl, rfl⟩
    simp [hl]

theorem snd_readLongs : ∀ n, Snd (fun xs enc => enc = (xs.map be64).flatten ∧ xs.length = n) (readLongs n)
  | 0 => by
    unfold readLongs
    exact snd_mono (fun v enc h => by rw [h.1, h.2]; simp) (snd_pure [])
  | n + 1 => by
    unfold readLongs
    refine snd_mono ?_ (snd_bind snd_readInt64 (fun x => snd_bind (snd_readLongs n) (fun xs => snd_pure (x :: xs))))
    rintro v enc ⟨x, e1, e2, rfl, rfl, xs, e3, e4, rfl, ⟨rfl, hl⟩, rfl, rfl⟩
    simp [hl]

/-! ### `unmarshal` into a nil `any` -/

def AnyQ (tag : Byte) (v : GoAny) (enc : Bytes) : Prop :=
  ∃ t : NBT, t.tag = tag ∧ t.WF ∧ S15 t ∧ enc = encPayload t ∧ v = goAny t
def ListQ (lt : Byte) (n : Nat) (xs : List GoAny) (enc : Bytes) : Prop :=
  ∃ ts : List NBT, ts.length = n ∧ NBT.WFList lt ts ∧ S15List ts ∧ enc = encList ts ∧ xs = goAnyList ts
def MapQ (acc : List (Bytes × GoAny)) (r : List (Bytes × GoAny)) (enc : Bytes) : Prop :=
  ∃ kvs : List (Bytes × NBT), NBT.WFKvs kvs ∧ S15Kvs kvs ∧ enc = encKvs kvs ∧ r = goAnyKvs acc kvs

theorem tag_of_toNat (tag : Byte) (k : Nat) (hk : k < 256) (h : tag.toNat = k) : tag = BitVec.ofNat 8 k := by
  apply BitVec.eq_of_toNat_eq
  simp [h, Nat.mod_eq_of_lt hk]

theorem snd_any_step (f : Nat) (ihL : ∀ lt n, Snd (ListQ lt n) (anyListLoop f lt n))
    (ihM : ∀ acc, Snd (MapQ acc) (anyMapLoop f acc)) (tag : Byte) : Snd (AnyQ tag) (unmarshalAny (f + 1) tag) := by
  unfold unmarshalAny
  split
  next h => exact snd_fail _
  next h =>
    have ht := tag_of_toNat tag 1 (by decide) h
    refine snd_mono ?_ (snd_bind (show Snd _ readInt8 from snd_readByte) (fun v => snd_pure (GoAny.i8 v)))
    rintro v enc ⟨x, e1, e2, rfl, rfl, rfl, rfl⟩
    exact ⟨.byte x, ht.symm, trivial, trivial, by simp [encPayload], rfl⟩
  next h =>
    have ht := tag_of_toNat tag 2 (by decide) h
    refine snd_mono ?_ (snd_bind snd_readInt16 (fun v => snd_pure (GoAny.i16 v)))
    rintro v enc ⟨x, e1, e2, rfl, rfl, rfl, rfl⟩
    exact ⟨.short x, ht.symm, trivial, trivial, by simp [encPayload], rfl⟩
  next h =>
    have ht := tag_of_toNat tag 3 (by decide) h
    refine snd_mono ?_ (snd_bind snd_readInt32 (fun v => snd_pure (GoAny.i32 v)))
    rintro v enc ⟨x, e1, e2, rfl, rfl, rfl, rfl⟩
    exact ⟨.int x, ht.symm, trivial, trivial, by simp [encPayload], rfl⟩
  next h =>
    have ht := tag_of_toNat tag 4 (by decide) h
    refine snd_mono ?_ (snd_bind snd_readInt64 (fun v => snd_pure (GoAny.i64 v)))
    rintro v enc ⟨x, e1, e2, rfl, rfl, rfl, rfl⟩
    exact ⟨.long x, ht.symm, trivial, trivial, by simp [encPayload], rfl⟩
  next h =>
    have ht := tag_of_toNat tag 5 (by decide) h
    refine snd_mono ?_ (snd_bind snd_readInt32 (fun v => snd_pure (GoAny.f32 v)))
    rintro v enc ⟨x, e1, e2, rfl, rfl, rfl, rfl⟩
    exact ⟨.float x, ht.symm, trivial, trivial, by simp [encPayload], rfl⟩
  next h =>
    have ht := tag_of_toNat tag 6 (by decide) h
    refine snd_mono ?_ (snd_bind snd_readInt64 (fun v => snd_pure (GoAny.f64 v)))
    rintro v enc ⟨x, e1, e2, rfl, rfl, rfl, rfl⟩
    exact ⟨.double x, ht.symm, trivial, trivial, by simp [encPayload], rfl⟩
  next h =>
    have ht := tag_of_toNat tag 7 (by decide) h
    refine snd_mono ?_ (snd_bind snd_readInt32 (fun n => snd_guard (fun _ =>
      snd_bind (snd_readFull n.toNat) (fun ba => snd_pure (GoAny.bytes ba)))))
    rintro v enc ⟨n, e1, e2, rfl, rfl, hm, ba, e3, e4, rfl, ⟨rfl, hl⟩, rfl, rfl⟩
    have hm' : n.msb = false := by simpa using hm
    refine ⟨.byteArray _, ht.symm, ?_, trivial, ?_, rfl⟩
    · simp only [NBT.WF]; have := msb32_lt n hm'; omega
    · simp only [encPayload, be32, hl, List.append_nil]
  next h =>
    have ht := tag_of_toNat tag 8 (by decide) h
    refine snd_mono ?_ (snd_bind snd_readString (fun v => snd_pure (GoAny.str v)))
    rintro v enc ⟨x, e1, e2, rfl, ⟨rfl, hl⟩, rfl, rfl⟩
    exact ⟨.string x, ht.symm, by simp only [NBT.WF]; omega, by simpa [S15] using hl, by simp [encPayload], rfl⟩
  next h =>
    have ht := tag_of_toNat tag 9 (by decide) h
    refine snd_mono ?_ (snd_bind snd_readByte (fun lt => snd_guard (fun _ => snd_bind snd_readInt32 (fun n =>
      snd_guard (fun _ => snd_guard (fun _ => snd_bind (ihL lt n.toNat) (fun xs => snd_pure (GoAny.list xs))))))))
    rintro v enc ⟨lt, e1, e2, rfl, rfl, hle, n, e3, e4, rfl, rfl, hm, hne, xs, e5, e6, rfl, ⟨ts, hl, hw, hs, rfl, rfl⟩, rfl, rfl⟩
    have hm' : n.msb = false := by simpa using hm
    refine ⟨.list lt ts, ht.symm, ?_, by simpa [S15] using hs, ?_, rfl⟩
    · simp only [NBT.WF, two31]
      refine ⟨by have := msb32_lt n hm'; omega, ?_, by omega, hw⟩
      by_cases h0 : lt = 0#8
      · left
        have : ¬ n.toNat > 0 := fun hp => hne ⟨h0, hp⟩
        exact List.length_eq_zero_iff.mp (by omega)
      · right; exact h0
    · simp only [encPayload, be32, hl, List.singleton_append, List.cons_append, List.append_nil, List.nil_append]
  next h =>
    have ht := tag_of_toNat tag 10 (by decide) h
    refine snd_mono ?_ (snd_bind (ihM []) (fun kvs => snd_pure (GoAny.map kvs)))
    rintro v enc ⟨x, e1, e2, rfl, ⟨kvs, hw, hs, rfl, rfl⟩, rfl, rfl⟩
    exact ⟨.compound kvs, ht.symm, by simpa [NBT.WF] using hw, by simpa [S15] using hs, by simp [encPayload], rfl⟩
  next h =>
    have ht := tag_of_toNat tag 11 (by decide) h
    refine snd_mono ?_ (snd_bind snd_readInt32 (fun n => snd_guard (fun _ =>
      snd_bind (snd_readInts n.toNat) (fun xs => snd_pure (GoAny.ints xs)))))
    rintro v enc ⟨n, e1, e2, rfl, rfl, hm, xs, e3, e4, rfl, ⟨rfl, hl⟩, rfl, rfl⟩
    have hm' : n.msb = false := by simpa using hm
    refine ⟨.intArray xs, ht.symm, ?_, trivial, ?_, rfl⟩
    · simp only [NBT.WF]; have := msb32_lt n hm'; omega
    · simp only [encPayload, be32, hl, List.append_nil]
  next h =>
    have ht := tag_of_toNat tag 12 (by decide) h
    refine snd_mono ?_ (snd_bind snd_readInt32 (fun n => snd_guard (fun _ =>
      snd_bind (snd_readLongs n.toNat) (fun xs => snd_pure (GoAny.longs xs)))))
    rintro v enc ⟨n, e1, e2, rfl, rfl, hm, xs, e3, e4, rfl, ⟨rfl, hl⟩, rfl, rfl⟩
    have hm' : n.msb = false := by simpa using hm
    refine ⟨.longArray xs, ht.symm, ?_, trivial, ?_, rfl⟩
    · simp only [NBT.WF]; have := msb32_lt n hm'; omega
    · simp only [encPayload, be32, hl, List.append_nil]
  next => exact snd_fail _

theorem snd_list_step (f : Nat) (ihA : ∀ tag, Snd (AnyQ tag) (unmarshalAny f tag))
    (ihL : ∀ lt n, Snd (ListQ lt n) (anyListLoop f lt n)) (lt : Byte) :
    ∀ n, Snd (ListQ lt n) (anyListLoop (f + 1) lt n)
  | 0 => by
    unfold anyListLoop
    exact snd_mono (fun v enc h => ⟨[], rfl, trivial, trivial, by rw [h.2]; rfl, by rw [h.1]; rfl⟩) (snd_pure [])
  | n + 1 => by
    unfold anyListLoop
    refine snd_mono ?_ (snd_bind (ihA lt) (fun x => snd_bind (ihL lt n) (fun xs => snd_pure (x :: xs))))
    rintro v enc ⟨x, e1, e2, rfl, ⟨t, htag, hwf, hs, rfl, rfl⟩, xs, e3, e4, rfl, ⟨ts, hl, hw, hss, rfl, rfl⟩, rfl, rfl⟩
    exact ⟨t :: ts, by simp [hl], ⟨htag, hwf, hw⟩, ⟨hs, hss⟩, by simp [encList], rfl⟩

theorem snd_map_step (f : Nat) (ihA : ∀ tag, Snd (AnyQ tag) (unmarshalAny f tag))
    (ihM : ∀ acc, Snd (MapQ acc) (anyMapLoop f acc)) (acc : List (Bytes × GoAny)) :
    Snd (MapQ acc) (anyMapLoop (f + 1) acc) := by
  unfold anyMapLoop
  refine snd_mono ?_ (snd_bind snd_readTag (fun r =>
    snd_ite (Q := fun (res : List (Bytes × GoAny)) enc => (r.1 = 0#8 ∧ res = acc ∧ enc = []) ∨
        (r.1 ≠ 0#8 ∧ ∃ t : NBT, ∃ kvs : List (Bytes × NBT), t.tag = r.1 ∧ t.WF ∧ S15 t ∧ NBT.WFKvs kvs ∧ S15Kvs kvs ∧
          enc = encPayload t ++ encKvs kvs ∧ res = goAnyKvs (mapSet acc r.2 (goAny t)) kvs))
      (fun h0 => snd_mono (fun v enc h => Or.inl ⟨h0, h.1, h.2⟩) (snd_pure acc))
      (fun h0 => snd_mono (fun v enc h => by
          obtain ⟨x, e1, e2, rfl, ⟨t, htag, hwf, hs, rfl, rfl⟩, kvs, hw, hss, rfl, rfl⟩ := h
          exact Or.inr ⟨h0, t, kvs, htag, hwf, hs, hw, hss, rfl, rfl⟩)
        (snd_bind (ihA r.1) (fun v => ihM (mapSet acc r.2 v))))))
  rintro res enc ⟨⟨tt, tn⟩, e1, e2, rfl, hhdr, hres⟩
  rcases hres with ⟨h0, rfl, rfl⟩ | ⟨h0, t, kvs, htag, hwf, hs, hw, hss, rfl, rfl⟩
  · rcases hhdr with ⟨_, _, rfl⟩ | ⟨hne, _⟩
    · exact ⟨[], trivial, trivial, by simp [encKvs, NBT.tagEnd], rfl⟩
    · exact absurd h0 hne
  · rcases hhdr with ⟨h0', _⟩ | ⟨_, _, _, rfl, hl⟩
    · exact absurd h0' h0
    · refine ⟨(tn, t) :: kvs, ⟨by simp only at hl; omega, hwf, hw⟩, ⟨hl, hs, hss⟩, ?_, rfl⟩
      simp only at htag
      simp [encKvs, htag]

/-- soundness of `unmarshal` into a nil `any`, of its list loop and of its compound loop, at every fuel -/
theorem snd_all : ∀ fuel : Nat, (∀ tag, Snd (AnyQ tag) (unmarshalAny fuel tag)) ∧
    (∀ lt n, Snd (ListQ lt n) (anyListLoop fuel lt n)) ∧ (∀ acc, Snd (MapQ acc) (anyMapLoop fuel acc))
  | 0 => by
    refine ⟨fun tag => by unfold unmarshalAny; exact snd_fail _, fun lt n => ?_, fun acc => by unfold anyMapLoop; exact snd_fail _⟩
    cases n with
    | zero =>
      unfold anyListLoop
      exact snd_mono (fun v enc h => ⟨[], rfl, trivial, trivial, by rw [h.2]; rfl, by rw [h.1]; rfl⟩) (snd_pure [])
    | succ n => unfold anyListLoop; exact snd_fail _
  | f + 1 => by
    obtain ⟨ihA, ihL, ihM⟩ := snd_all f
    exact ⟨snd_any_step f ihL ihM, fun lt n => snd_list_step f ihA ihL lt n, snd_map_step f ihA ihM⟩

/-! ### whole documents -/

theorem snd_readHead (fmt : Format) :
    Snd (fun (r : Byte × Bytes) enc => ∃ nm : Bytes, nm.length < 32768 ∧ r.2 = docName fmt nm ∧
      (r.1 = 0#8 ∨ enc = (match fmt with | .file => r.1 :: encString nm | .network => [r.1])) ∧ (r.1 = 0#8 → enc = [0#8]))
    (readHead (isNet fmt)) := by
  cases fmt with
  | file =>
    simp only [isNet, readHead, Bool.false_eq_true, if_false]
    refine snd_mono ?_ snd_readTag
    rintro ⟨t, name⟩ enc h
    rcases h with ⟨h0, hn, rfl⟩ | ⟨h0, _, _, rfl, hl⟩
    · exact ⟨[], by simp, by simp only at hn; simp [docName, hn], Or.inl h0, fun _ => rfl⟩
    · exact ⟨name, hl, rfl, Or.inr rfl, fun e => absurd e h0⟩
  | network =>
    simp only [isNet, readHead, if_true]
    refine snd_mono ?_ (snd_bind snd_readByte (fun t => snd_pure (t, ([] : Bytes))))
    rintro ⟨t, name⟩ enc ⟨b, e1, e2, rfl, rfl, h, rfl⟩
    simp only [Prod.mk.injEq] at h
    obtain ⟨rfl, rfl⟩ := h
    exact ⟨[], by simp, rfl, Or.inr (by simp), fun e => by simp at e; simp [e]⟩

/-- **Soundness of `Decode` into a nil `any`.** Whenever it returns a value, the bytes it consumed are the document
`nm : t` of a well-formed tree `t` (strings below 2^15 bytes), the value is the Go value of `t`, the name the root
name, and nothing after the document was touched. -/
theorem decodeAnyF_sound (fuel : Nat) (fmt : Format) (s s' : Stream) (v : GoAny) (name : Bytes)
    (h : decodeAnyF fuel (isNet fmt) s = (Res.ok (v, name), s')) :
    ∃ (nm : Bytes) (t : NBT), t.WF ∧ S15 t ∧ nm.length < 32768 ∧ s.flat = encDoc fmt nm t ++ s'.flat ∧
      s'.failing = s.failing ∧ v = goAny t ∧ name = docName fmt nm := by
  have hsnd := snd_bind (snd_readHead fmt) (fun r => snd_bind ((snd_all fuel).1 r.1) (fun v => snd_pure (v, r.2)))
  obtain ⟨enc, hflat, hfail, ⟨tt, tn⟩, e1, e2, rfl, ⟨nm, hnm, hname, hhdr, _⟩, x, e3, e4, rfl, ⟨t, htag, hwf, hs15, rfl, rfl⟩, hv, rfl⟩ :=
    hsnd s (v, name) s' h
  simp only [Prod.mk.injEq] at hv
  obtain ⟨rfl, rfl⟩ := hv
  simp only at htag hname hhdr
  refine ⟨nm, t, hwf, hs15, hnm, ?_, hfail, rfl, hname⟩
  rcases hhdr with h0 | rfl
  · exact absurd (htag.trans h0) (tag_not_magic t).1
  · rw [hflat, encDoc_split, htag]
    cases fmt <;> simp

/-! ### `rawRead` (skipping a value, `RawMessage`) -/

def RawQ (tag : Byte) (bs : Bytes) (enc : Bytes) : Prop :=
  enc = bs ∧ ∃ t : NBT, t.tag = tag ∧ t.WF ∧ S15 t ∧ bs = encPayload t
def RawListQ (lt : Byte) (n : Nat) (bs : Bytes) (enc : Bytes) : Prop :=
  enc = bs ∧ ∃ ts : List NBT, ts.length = n ∧ NBT.WFList lt ts ∧ S15List ts ∧ bs = encList ts
def RawKvsQ (bs : Bytes) (enc : Bytes) : Prop :=
  enc = bs ∧ ∃ kvs : List (Bytes × NBT), NBT.WFKvs kvs ∧ S15Kvs kvs ∧ bs = encKvs kvs

theorem snd_rawNums32 : ∀ n, Snd (fun bs enc => enc = bs ∧ ∃ xs : List (BitVec 32), xs.length = n ∧ bs = (xs.map be32).flatten)
    (rawNums 4 n)
  | 0 => by
    unfold rawNums
    exact snd_mono (fun v enc h => ⟨by rw [h.1, h.2], [], rfl, by rw [h.1]; rfl⟩) (snd_pure [])
  | n + 1 => by
    unfold rawNums
    refine snd_mono ?_ (snd_bind (snd_readFull 4) (fun x => snd_bind (snd_rawNums32 n) (fun xs => snd_pure (x ++ xs))))
    rintro v enc ⟨x, e1, e2, rfl, ⟨rfl, hl⟩, xs, e3, e4, rfl, ⟨rfl, ws, hws, rfl⟩, rfl, rfl⟩
    exact ⟨by simp, beWord 32 e1 :: ws, by simp [hws], by simp [be32_beWord e1 hl]⟩

theorem snd_rawNums64 : ∀ n, Snd (fun bs enc => enc = bs ∧ ∃ xs : List (BitVec 64), xs.length = n ∧ bs = (xs.map be64).flatten)
    (rawNums 8 n)
  | 0 => by
    unfold rawNums
    exact snd_mono (fun v enc h => ⟨by rw [h.1, h.2], [], rfl, by rw [h.1]; rfl⟩) (snd_pure [])
  | n + 1 => by
    unfold rawNums
    refine snd_mono ?_ (snd_bind (snd_readFull 8) (fun x => snd_bind (snd_rawNums64 n) (fun xs => snd_pure (x ++ xs))))
    rintro v enc ⟨x, e1, e2, rfl, ⟨rfl, hl⟩, xs, e3, e4, rfl, ⟨rfl, ws, hws, rfl⟩, rfl, rfl⟩
    exact ⟨by simp, beWord 64 e1 :: ws, by simp [hws], by simp [be64_beWord e1 hl]⟩

theorem be32_toNat_eq (h : Bytes) (hl : h.length = 4) : beBytes 4 (beWord 32 h).toNat = h := by
  have := be32_beWord h hl
  simpa [be32] using this
theorem be16_toNat_eq (h : Bytes) (hl : h.length = 2) : beBytes 2 (beWord 16 h).toNat = h := by
  have := be16_beWord h hl
  simpa [be16] using this

theorem snd_raw_step (f : Nat) (ihL : ∀ lt n, Snd (RawListQ lt n) (rawListLoop f lt n))
    (ihM : Snd RawKvsQ (rawCompoundLoop f)) (tag : Byte) : Snd (RawQ tag) (rawRead (f + 1) tag) := by
  unfold rawRead
  split
  next h =>
    have ht := tag_of_toNat tag 1 (by decide) h
    refine snd_mono ?_ (snd_bind snd_readByte (fun b => snd_pure [b]))
    rintro v enc ⟨x, e1, e2, rfl, rfl, rfl, rfl⟩
    exact ⟨by simp, .byte x, ht.symm, trivial, trivial, by simp [encPayload]⟩
  next h =>
    have ht := tag_of_toNat tag 2 (by decide) h
    refine snd_mono ?_ (snd_readFull 2)
    rintro v enc ⟨rfl, hl⟩
    exact ⟨rfl, .short (beWord 16 enc), ht.symm, trivial, trivial, by simp [encPayload, be16_beWord _ hl]⟩
  next h =>
    have ht := tag_of_toNat tag 3 (by decide) h
    refine snd_mono ?_ (snd_readFull 4)
    rintro v enc ⟨rfl, hl⟩
    exact ⟨rfl, .int (beWord 32 enc), ht.symm, trivial, trivial, by simp [encPayload, be32_beWord _ hl]⟩
  next h =>
    have ht := tag_of_toNat tag 4 (by decide) h
    refine snd_mono ?_ (snd_readFull 8)
    rintro v enc ⟨rfl, hl⟩
    exact ⟨rfl, .long (beWord 64 enc), ht.symm, trivial, trivial, by simp [encPayload, be64_beWord _ hl]⟩
  next h =>
    have ht := tag_of_toNat tag 5 (by decide) h
    refine snd_mono ?_ (snd_readFull 4)
    rintro v enc ⟨rfl, hl⟩
    exact ⟨rfl, .float (beWord 32 enc), ht.symm, trivial, trivial, by simp [encPayload, be32_beWord _ hl]⟩
  next h =>
    have ht := tag_of_toNat tag 6 (by decide) h
    refine snd_mono ?_ (snd_readFull 8)
    rintro v enc ⟨rfl, hl⟩
    exact ⟨rfl, .double (beWord 64 enc), ht.symm, trivial, trivial, by simp [encPayload, be64_beWord _ hl]⟩
  next h =>
    have ht := tag_of_toNat tag 7 (by decide) h
    refine snd_mono ?_ (snd_bind (snd_readFull 4) (fun hd => snd_guard (fun _ =>
      snd_bind (snd_readFull (beWord 32 hd).toNat) (fun body => snd_pure (hd ++ body)))))
    rintro v enc ⟨hd, e1, e2, rfl, ⟨rfl, hl⟩, hm, body, e3, e4, rfl, ⟨rfl, hbl⟩, rfl, rfl⟩
    have hm' : (beWord 32 e1).msb = false := by simpa using hm
    refine ⟨by simp, .byteArray e3, ht.symm, ?_, trivial, ?_⟩
    · simp only [NBT.WF]; have := msb32_lt _ hm'; omega
    · simp only [encPayload, hbl, be32_toNat_eq _ hl]
  next h =>
    have ht := tag_of_toNat tag 8 (by decide) h
    refine snd_mono ?_ (snd_bind (snd_readFull 2) (fun hd =>
      snd_ite (Q := fun (bs : Bytes) enc => (beWord 16 hd).msb = false ∧ ∃ body : Bytes, enc = body ∧ bs = hd ++ body ∧
          body.length = (beWord 16 hd).toNat)
        (fun _ => snd_fail _) (fun hm => snd_ite
          (fun _ => snd_mono (fun v enc hh => by
            obtain ⟨body, e3, e4, rfl, ⟨rfl, hbl⟩, rfl, rfl⟩ := hh
            exact ⟨by simpa using hm, _, by simp, rfl, hbl⟩)
            (snd_bind (snd_readFull (beWord 16 hd).toNat) (fun body => snd_pure (hd ++ body))))
          (fun h0 => snd_mono (fun v enc hh => ⟨by simpa using hm, [], hh.2, by rw [hh.1]; simp, by simp; omega⟩) (snd_pure hd)))))
    rintro v enc ⟨hd, e1, e2, rfl, ⟨rfl, hl⟩, hm, body, rfl, rfl, hbl⟩
    have := msb16_lt _ hm
    refine ⟨rfl, .string e2, ht.symm, by simp only [NBT.WF]; omega, by simp only [S15]; omega, ?_⟩
    simp only [encPayload, encString, hbl, be16_toNat_eq _ hl]
  next h =>
    have ht := tag_of_toNat tag 9 (by decide) h
    refine snd_mono ?_ (snd_bind snd_readByte (fun lt => snd_guard (fun _ => snd_bind (snd_readFull 4) (fun hd =>
      snd_guard (fun _ => snd_bind (ihL lt (beWord 32 hd).toNat) (fun body => snd_pure (lt :: hd ++ body)))))))
    rintro v enc ⟨lt, e1, e2, rfl, rfl, hle, hd, e3, e4, rfl, ⟨rfl, hl⟩, hm, body, e5, e6, rfl, ⟨rfl, ts, htl, hw, hs, rfl⟩, rfl, rfl⟩
    have hm' : (beWord 32 e3).msb = false := by simpa using hm
    refine ⟨by simp, .list lt ts, ht.symm, ?_, by simpa [S15] using hs, ?_⟩
    · simp only [NBT.WF, two31]
      refine ⟨by have := msb32_lt _ hm'; omega, ?_, by omega, hw⟩
      cases ts with
      | nil => exact Or.inl rfl
      | cons t ts' =>
        right
        simp only [NBT.WFList] at hw
        rw [← hw.1]
        exact (tag_not_magic t).1
    · simp only [encPayload, htl, be32_toNat_eq _ hl, List.cons_append]
  next h =>
    have ht := tag_of_toNat tag 10 (by decide) h
    refine snd_mono ?_ ihM
    rintro v enc ⟨rfl, kvs, hw, hs, rfl⟩
    exact ⟨rfl, .compound kvs, ht.symm, by simpa [NBT.WF] using hw, by simpa [S15] using hs, by simp [encPayload]⟩
  next h =>
    have ht := tag_of_toNat tag 11 (by decide) h
    refine snd_mono ?_ (snd_bind (snd_readFull 4) (fun hd => snd_guard (fun _ =>
      snd_bind (snd_rawNums32 (beWord 32 hd).toNat) (fun body => snd_pure (hd ++ body)))))
    rintro v enc ⟨hd, e1, e2, rfl, ⟨rfl, hl⟩, hm, body, e3, e4, rfl, ⟨rfl, xs, hxl, rfl⟩, rfl, rfl⟩
    have hm' : (beWord 32 e1).msb = false := by simpa using hm
    refine ⟨by simp, .intArray xs, ht.symm, ?_, trivial, ?_⟩
    · simp only [NBT.WF]; have := msb32_lt _ hm'; omega
    · simp only [encPayload, hxl, be32_toNat_eq _ hl]
  next h =>
    have ht := tag_of_toNat tag 12 (by decide) h
    refine snd_mono ?_ (snd_bind (snd_readFull 4) (fun hd => snd_guard (fun _ =>
      snd_bind (snd_rawNums64 (beWord 32 hd).toNat) (fun body => snd_pure (hd ++ body)))))
    rintro v enc ⟨hd, e1, e2, rfl, ⟨rfl, hl⟩, hm, body, e3, e4, rfl, ⟨rfl, xs, hxl, rfl⟩, rfl, rfl⟩
    have hm' : (beWord 32 e1).msb = false := by simpa using hm
    refine ⟨by simp, .longArray xs, ht.symm, ?_, trivial, ?_⟩
    · simp only [NBT.WF]; have := msb32_lt _ hm'; omega
    · simp only [encPayload, hxl, be32_toNat_eq _ hl]
  next => exact snd_fail _

theorem snd_rawList_step (f : Nat) (ihA : ∀ tag, Snd (RawQ tag) (rawRead f tag))
    (ihL : ∀ lt n, Snd (RawListQ lt n) (rawListLoop f lt n)) (lt : Byte) :
    ∀ n, Snd (RawListQ lt n) (rawListLoop (f + 1) lt n)
  | 0 => by
    unfold rawListLoop
    exact snd_mono (fun v enc h => ⟨by rw [h.1, h.2], [], rfl, trivial, trivial, by rw [h.1]; rfl⟩) (snd_pure [])
  | n + 1 => by
    unfold rawListLoop
    refine snd_mono ?_ (snd_bind (ihA lt) (fun x => snd_bind (ihL lt n) (fun xs => snd_pure (x ++ xs))))
    rintro v enc ⟨x, e1, e2, rfl, ⟨rfl, t, htag, hwf, hs, rfl⟩, xs, e3, e4, rfl, ⟨rfl, ts, hl, hw, hss, rfl⟩, rfl, rfl⟩
    exact ⟨by simp, t :: ts, by simp [hl], ⟨htag, hwf, hw⟩, ⟨hs, hss⟩, by simp [encList]⟩

theorem snd_rawKvs_step (f : Nat) (ihA : ∀ tag, Snd (RawQ tag) (rawRead f tag)) (ihM : Snd RawKvsQ (rawCompoundLoop f)) :
    Snd RawKvsQ (rawCompoundLoop (f + 1)) := by
  unfold rawCompoundLoop
  refine snd_mono ?_ (snd_bind snd_readByte (fun t => snd_guard (fun _ =>
    snd_ite (Q := fun (bs : Bytes) enc => (t = 0#8 ∧ bs = [t] ∧ enc = []) ∨
        (t ≠ 0#8 ∧ ∃ (name : Bytes) (tr : NBT) (kvs : List (Bytes × NBT)), name.length < 32768 ∧ tr.tag = t ∧ tr.WF ∧ S15 tr ∧
          NBT.WFKvs kvs ∧ S15Kvs kvs ∧ enc = encString name ++ encPayload tr ++ encKvs kvs ∧ bs = t :: enc))
      (fun h0 => snd_mono (fun v enc h => Or.inl ⟨h0, h.1, h.2⟩) (snd_pure [t]))
      (fun h0 => snd_mono (fun v enc hh => by
          obtain ⟨hd, e1, e2, rfl, ⟨rfl, hl⟩, hm, name, e3, e4, rfl, hname, x, e5, e6, rfl, ⟨rfl, tr, htag, hwf, hs, rfl⟩,
            rest, e7, e8, rfl, ⟨rfl, kvs, hw, hss, rfl⟩, rfl, rfl⟩ := hh
          have hm' : (beWord 16 e1).msb = false := by simpa using hm
          have hn : e3 = name ∧ name.length = (beWord 16 e1).toNat := hname
          obtain ⟨rfl, hnl⟩ := hn
          refine Or.inr ⟨h0, e3, tr, kvs, by have := msb16_lt _ hm'; omega, htag, hwf, hs, hw, hss, ?_, ?_⟩
          · simp only [encString, hnl, be16_toNat_eq _ hl, List.append_assoc, List.append_nil]
          · simp only [encString, hnl, be16_toNat_eq _ hl, List.append_assoc, List.append_nil, List.cons_append])
        (snd_bind (snd_readFull 2) (fun hd => snd_guard (fun _ =>
          snd_bind (Q := fun (name : Bytes) enc => enc = name ∧ name.length = (beWord 16 hd).toNat)
            (snd_ite (fun _ => snd_readFull _) (fun h0 => snd_mono (fun v enc h => ⟨by rw [h.1, h.2], by rw [h.1]; simp; omega⟩) (snd_pure [])))
            (fun name => snd_bind (ihA t) (fun v => snd_bind ihM (fun rest => snd_pure (t :: hd ++ name ++ v ++ rest)))))))))))
  rintro bs enc ⟨t, e1, e2, rfl, rfl, hg, hres⟩
  rcases hres with ⟨h0, rfl, rfl⟩ | ⟨h0, name, tr, kvs, hnl, htag, hwf, hs, hw, hss, rfl, rfl⟩
  · exact ⟨by simp, [], trivial, trivial, by simp [encKvs, NBT.tagEnd, h0]⟩
  · refine ⟨by simp, (name, tr) :: kvs, ⟨by omega, hwf, hw⟩, ⟨hnl, hs, hss⟩, ?_⟩
    simp [encKvs, htag]

/-- soundness of `rawRead`, of its list loop and of its compound loop, at every fuel -/
theorem snd_raw_all : ∀ fuel : Nat, (∀ tag, Snd (RawQ tag) (rawRead fuel tag)) ∧
    (∀ lt n, Snd (RawListQ lt n) (rawListLoop fuel lt n)) ∧ Snd RawKvsQ (rawCompoundLoop fuel)
  | 0 => by
    refine ⟨fun tag => by unfold rawRead; exact snd_fail _, fun lt n => ?_, by unfold rawCompoundLoop; exact snd_fail _⟩
    cases n with
    | zero =>
      unfold rawListLoop
      exact snd_mono (fun v enc h => ⟨by rw [h.1, h.2], [], rfl, trivial, trivial, by rw [h.1]; rfl⟩) (snd_pure [])
    | succ n => unfold rawListLoop; exact snd_fail _
  | f + 1 => by
    obtain ⟨ihA, ihL, ihM⟩ := snd_raw_all f
    exact ⟨snd_raw_step f ihL ihM, fun lt n => snd_rawList_step f ihA ihL lt n, snd_rawKvs_step f ihA ihM⟩

/-- **Soundness of `Decode` into a `RawMessage`.** Whenever it returns, the bytes consumed are the document of a
well-formed tree, and the message holds the tag and exactly the payload bytes of that tree. -/
theorem decodeRawF_sound (fuel : Nat) (fmt : Format) (s s' : Stream) (v : Val) (name : Bytes)
    (h : decodeTyF fuel (isNet fmt) false .raw s = (Res.ok (v, name), s')) :
    ∃ (nm : Bytes) (t : NBT), t.WF ∧ S15 t ∧ nm.length < 32768 ∧ s.flat = encDoc fmt nm t ++ s'.flat ∧
      s'.failing = s.failing ∧ v = .raw t.tag (encPayload t) ∧ name = docName fmt nm := by
  have hu : ∀ tag, Snd (fun (v : Val) enc => ∃ t : NBT, t.tag = tag ∧ t.WF ∧ S15 t ∧ enc = encPayload t ∧ v = .raw tag enc)
      (unmarshalTy false fuel .raw (Ty.raw).zero tag) := by
    intro tag
    cases fuel with
    | zero => unfold unmarshalTy; exact snd_fail _
    | succ f =>
      unfold unmarshalTy
      simp only [rawUnmarshal]
      refine snd_mono ?_ (snd_guard (fun _ => snd_bind ((snd_raw_all (f + 1)).1 tag) (fun data => snd_pure (Val.raw tag data))))
      rintro v enc ⟨_, data, e1, e2, rfl, ⟨rfl, t, htag, hwf, hs, rfl⟩, rfl, rfl⟩
      exact ⟨t, htag, hwf, hs, by simp, by simp⟩
  have hsnd := snd_bind (snd_readHead fmt) (fun r => snd_bind (hu r.1) (fun v => snd_pure (v, r.2)))
  obtain ⟨enc, hflat, hfail, ⟨tt, tn⟩, e1, e2, rfl, ⟨nm, hnm, hname, hhdr, _⟩, x, e3, e4, rfl, ⟨t, htag, hwf, hs15, rfl, rfl⟩, hv, rfl⟩ :=
    hsnd s (v, name) s' h
  simp only [Prod.mk.injEq] at hv
  obtain ⟨rfl, rfl⟩ := hv
  simp only at htag hname hhdr
  refine ⟨nm, t, hwf, hs15, hnm, ?_, hfail, by rw [htag], hname⟩
  rcases hhdr with h0 | rfl
  · exact absurd (htag.trans h0) (tag_not_magic t).1
  · rw [hflat, encDoc_split, htag]
    cases fmt <;> simp

/-- a successful `Decode` into a nil `any` needs a number of nested calls and loop iterations that is linear in
the bytes it consumed: with ANY fuel above that number it returns the same value and stops at the same place -/
theorem decodeAny_work (fmt : Format) (s s' : Stream) (r : GoAny × Bytes)
    (h : decodeAny (isNet fmt) s = (Res.ok r, s')) (fuel : Nat) (hf : s.flat.length - s'.flat.length + 1 ≤ fuel) :
    ∃ s'', decodeAnyF fuel (isNet fmt) s = (Res.ok r, s'') ∧ s''.flat = s'.flat ∧ s''.failing = s'.failing := by
  obtain ⟨v, name⟩ := r
  obtain ⟨nm, t, hwf, hs15, hnm, hflat, hfail, rfl, rfl⟩ := decodeAnyF_sound (fuelFor s) fmt s s' v name h
  have hc := cost_le t
  have hlen : (encPayload t).length + 1 ≤ s.flat.length - s'.flat.length := by
    rw [hflat, encDoc_split]
    cases fmt <;> simp only [List.length_append, List.length_cons] <;> omega
  rcases decodeAnyF_R fmt nm t fuel hnm hwf hs15 s s'.flat hflat with ⟨s'', h1, h2, h3⟩ | ⟨hn, _⟩
  · exact ⟨s'', h1, h2, by rw [h3, hfail]⟩
  · exact absurd (by omega) hn

end GoMC.Lemmas.NBTSound
