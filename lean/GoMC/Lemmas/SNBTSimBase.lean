import GoMC.Lemmas.SNBTTokSound
namespace GoMC.Model.SNBT
open GoMC Scanner DState Spec
open GoMC.Spec.SNBT (isWs isDigit isLetter isTokenByte skipWs spanToken spanDigits digitsVal stripSign inRange lower
  classify readQuoted readKey arrayElem mkArray readArrayElems readValue readEntries readElems FloatSem Tok)

/-! ### white space: the scanner's `scanSkipSpace` runs are the grammar's `ws*` -/

theorem stEndValue_nws (s : Scanner) (c : Byte) (h : isSpace c = false) : (stEndValue s c).2 ≠ .skipSpace := by
  unfold stEndValue
  cases hs : s.stack with
  | nil => dsimp only; unfold stEndTop; split <;> simp
  | cons ps r =>
    dsimp only
    rw [if_neg (by simp [h])]
    cases ps <;> dsimp only <;> (repeat' split) <;> simp [Scanner.error]

/-- the six scanner states in which white space is skipped -/
def WsState (s : Scanner) : Prop :=
  s.st = .beginValue ∨ s.st = .compoundOrEmpty ∨ s.st = .beginString ∨ s.st = .listOrArray ∨ s.st = .arrayT ∨
  (s.st = .endValue ∧ s.stack ≠ [])

theorem step_ws (s : Scanner) (c : Byte) (hs : WsState s) (h : isSpace c = true) :
    (s.step c).2 = .skipSpace ∧ WsState (s.step c).1 := by
  unfold Scanner.step
  rcases hs with e | e | e | e | e | ⟨e, hne⟩ <;> rw [e] <;> dsimp only
  · unfold stBeginValue; simp [h, WsState]
  · unfold stCompoundOrEmpty; simp [h, WsState, e]
  · unfold stBeginString; simp [h, WsState, e]
  · simp [h, WsState, e]
  · simp [h, WsState, e]
  · unfold stEndValue
    cases hst : s.stack with
    | nil => exact absurd hst hne
    | cons ps r => simp [h, WsState, hst]

theorem push_op (s : Scanner) (p : PS) (op : Op) (h : op ≠ .skipSpace) : (Scanner.push s p op).2 ≠ .skipSpace := by
  unfold Scanner.push
  dsimp only
  split <;> simp [Scanner.error, h]

theorem stBeginString_nws (s : Scanner) (c : Byte) (h : isSpace c = false) : (stBeginString s c).2 ≠ .skipSpace := by
  unfold stBeginString
  rw [if_neg (by simp [h])]
  (repeat' split) <;> simp [Scanner.error]

theorem stBeginValue_nws (s : Scanner) (c : Byte) (h : isSpace c = false) : (stBeginValue s c).2 ≠ .skipSpace := by
  unfold stBeginValue
  rw [if_neg (by simp [h])]
  split
  · exact push_op _ _ _ (by simp)
  · split
    · exact push_op _ _ _ (by simp)
    · split
      · exact stBeginString_nws s c h
      · split
        · simp
        · split
          · exact stBeginString_nws s c h
          · simp [Scanner.error]

theorem step_nws (s : Scanner) (c : Byte) (hs : WsState s) (h : isSpace c = false) : (s.step c).2 ≠ .skipSpace := by
  unfold Scanner.step
  rcases hs with e | e | e | e | e | ⟨e, hne⟩ <;> rw [e] <;> dsimp only
  · exact stBeginValue_nws s c h
  · unfold stCompoundOrEmpty
    rw [if_neg (by simp [h])]
    split
    · split
      · simp
      · exact stEndValue_nws _ c h
    · exact stBeginString_nws s c h
  · exact stBeginString_nws s c h
  · rw [if_neg (by simp [h])]
    split
    · simp
    · split
      · exact stEndValue_nws s c h
      · exact stBeginValue_nws s c h
  · rw [if_neg (by simp [h])]
    split
    · exact stEndValue_nws s c h
    · exact stBeginValue_nws s c h
  · exact stEndValue_nws s c h

theorem skipWs_append_ws (ws rest : Bytes) (h : ∀ c ∈ ws, isSpace c = true) : skipWs (ws ++ rest) = skipWs rest := by
  induction ws with
  | nil => rfl
  | cons c cs ih =>
    simp only [List.cons_append]
    rw [skipWs, (spec_classes c).2.2, h c (by simp)]
    simp only [if_true]
    exact ih (fun x hx => h x (by simp [hx]))

theorem skipWs_fix (rest : Bytes) (h : ∀ c k, rest = c :: k → isSpace c = false) : skipWs rest = rest := by
  cases rest with
  | nil => rfl
  | cons c k => exact skipWs_cons c k (h c k rfl)

/-- the pending text (the byte just consumed and everything after it) and the next text -/
def DState.pend (d : DState) : Bytes := d.data.drop (d.off - 1)
def DState.next (d : DState) : Bytes := d.data.drop d.off

/-- `d.scanWhile(scanSkipSpace)` where white space is skipped: the grammar's `ws*` of the text not yet read ends
exactly at the byte the scanner stopped on -/
theorem skipSpace_text (d : DState) (hs : WsState d.scan) (hg : d.scan.Good) (hlen : d.off ≤ d.data.length) :
    (scanWhile .skipSpace d).data = d.data ∧ skipWs d.next = (scanWhile .skipSpace d).pend ∧
    d.off ≤ (scanWhile .skipSpace d).off - 1 := by
  obtain ⟨hdata, hprog, hgd, hle, ob, ⟨hws, hnws⟩, h1, h2⟩ :=
    scanWhile_spec .skipSpace d (fun s acc => WsState s ∧ ∀ c ∈ acc, isSpace c = true)
      (fun _ _ acc ob => (∀ c ∈ acc, isSpace c = true) ∧ (∀ c, ob = some c → isSpace c = false))
      (fun s acc c hI => by
        by_cases hsp : isSpace c = true
        · have := step_ws s c hI.1 hsp
          refine ⟨fun _ => ⟨this.2, ?_⟩, fun hne => absurd this.1 hne⟩
          intro x hx
          rcases List.mem_append.mp hx with h | h
          · exact hI.2 x h
          · simp at h; rw [h]; exact hsp
        · have hsp' : isSpace c = false := by simpa using hsp
          exact ⟨fun he => absurd he (step_nws s c hI.1 hsp'), fun _ => ⟨hI.2, fun x hx => by cases hx; exact hsp'⟩⟩)
      (fun s acc hI => ⟨hI.2, fun c hc => by cases hc⟩) [] ⟨hs, by simp⟩ hg
  refine ⟨hdata, ?_, by have := hprog hlen; omega⟩
  unfold DState.pend DState.next
  rw [hdata]
  generalize scanWhile .skipSpace d = d1 at *
  simp only [List.nil_append] at hws
  have hp := hprog hlen
  have hsplit : d.data.drop d.off = (d.data.drop d.off).take (d1.off - 1 - d.off) ++ d.data.drop (d1.off - 1) := by
    have : d.data.drop (d1.off - 1) = (d.data.drop d.off).drop (d1.off - 1 - d.off) := by
      rw [List.drop_drop]; congr 1; omega
    rw [this, List.take_append_drop]
  rw [hsplit, skipWs_append_ws _ _ hws]
  apply skipWs_fix
  intro c k hck
  cases ob with
  | none =>
    have := h2 rfl
    rw [hdata] at this
    rw [this] at hck
    simp at hck
  | some y =>
    obtain ⟨_, hy2⟩ := h1 y rfl
    rw [hdata] at hy2
    have hlt2 : d1.off - 1 < d.data.length := by
      apply Classical.byContradiction; intro hn
      rw [List.getElem?_eq_none (by omega)] at hy2; cases hy2
    rw [List.drop_eq_getElem_cons hlt2] at hck
    injection hck with hx _
    have : d.data[d1.off - 1] = y := by
      rw [List.getElem?_eq_getElem hlt2] at hy2; exact Option.some.inj hy2
    rw [← hx, this]
    exact hnws y rfl


/-! ### literals: what the grammar reads where `parseLiteral` accepted -/

theorem litNBT_enc (v : Lit) : encPayload (litNBT v) = litPayload v ∧ (litNBT v).tag = litTag v := by
  cases v <;> exact ⟨rfl, rfl⟩

theorem skipWs_idem (t : Bytes) : skipWs (skipWs t) = skipWs t := by
  induction t with
  | nil => rfl
  | cons c cs ih =>
    by_cases h : isWs c = true
    · rw [skipWs, if_pos h]; exact ih
    · rw [skipWs, if_neg h, skipWs, if_neg h]

/-- `readValue` begins by skipping white space -/
theorem readValue_skip (fs : FloatSem) (F : Nat) (t t' : Bytes) (h : skipWs t = t') :
    readValue fs F t = readValue fs F t' := by
  cases F with
  | zero => simp [readValue]
  | succ f =>
    unfold readValue
    rw [← h, skipWs_idem]

/-- an unquoted token that the grammar leaves unspecified is read as a string, flagged -/
theorem rv_tok_unspec (fs : FloatSem) (w k : Bytes) (hne : w ≠ []) (hall : ∀ c ∈ w, isAllowedInUnquotedString c = true)
    (hk : TokEnd k) (hcl : classify fs w = .unspec) (f : Nat) :
    readValue fs (f + 1) (w ++ k) = some (.string w, true, k) := by
  cases w with
  | nil => exact absurd rfl hne
  | cons c cs =>
    obtain ⟨h1, h2, h3, h4, _, _⟩ := allowed_start_facts c (hall c (by simp))
    have hspan := spanToken_run (c :: cs) k hall hk
    unfold readValue
    simp only [List.cons_append] at hspan ⊢
    rw [skipWs_cons c _ h1]
    simp only [h2, h3, h4, Bool.false_eq_true, if_false]
    rw [hspan]
    simp only [List.isEmpty_cons, Bool.false_eq_true, if_false, hcl]

/-- the unquote loop stops at the first unescaped closing quote, whatever follows it -/
theorem unquote_prefix (q : Byte) : ∀ (n : Nat) (rest acc s : Bytes), rest.length ≤ n →
    unquoteLoop q rest acc = .ok s →
    ∃ pre tail, rest = pre ++ q :: tail ∧ ∀ k, unquoteLoop q (pre ++ q :: k) acc = .ok s := by
  intro n
  induction n with
  | zero =>
    intro rest acc s hl h
    have : rest = [] := List.length_eq_zero_iff.mp (by omega)
    subst this
    simp [unquoteLoop] at h
  | succ n ih =>
    intro rest acc s hl h
    cases rest with
    | nil => simp [unquoteLoop] at h
    | cons c cs =>
      unfold unquoteLoop at h
      by_cases hq : (c == q) = true
      · rw [if_pos hq] at h
        have : c = q := eq_of_beq hq
        subst this
        exact ⟨[], cs, rfl, fun k => by simp only [List.nil_append]; unfold unquoteLoop; simp; exact PRes.ok.inj h⟩
      · rw [if_neg hq] at h
        by_cases h92 : (c == 92) = true
        · rw [if_pos h92] at h
          cases cs with
          | nil => cases h
          | cons c2 rest2 =>
            dsimp only at h
            obtain ⟨pre, tail, he, hr⟩ := ih rest2 (acc ++ [c2]) s (by simp at hl; omega) h
            refine ⟨c :: c2 :: pre, tail, by rw [he]; rfl, fun k => ?_⟩
            simp only [List.cons_append]
            unfold unquoteLoop
            simp only [hq, h92, if_true, Bool.false_eq_true, if_false]
            exact hr k
        · rw [if_neg h92] at h
          obtain ⟨pre, tail, he, hr⟩ := ih cs (acc ++ [c]) s (by simp at hl; omega) h
          refine ⟨c :: pre, tail, by rw [he]; rfl, fun k => ?_⟩
          simp only [List.cons_append]
          unfold unquoteLoop
          simp only [hq, h92, Bool.false_eq_true, if_false]
          exact hr k

/-- the literal the scanner delivers ends at its first unescaped closing quote -/
theorem norm_first_quote (q : Byte) (body r pre tail : Bytes) (hn : Norm q body r)
    (he : body ++ [q] = pre ++ q :: tail) (hpre : ∀ k, ∃ s, unquoteLoop q (pre ++ q :: k) [] = .ok s) : tail = [] := by
  apply Classical.byContradiction
  intro hne
  -- `pre ++ [q]` is a strict prefix of `body ++ [q]`, hence a prefix of `body`
  have hlen : pre.length + 1 + tail.length = body.length + 1 := by
    have := congrArg List.length he
    simp only [List.length_append, List.length_cons, List.length_nil] at this
    omega
  have htl : 0 < tail.length := by
    cases tail with
    | nil => exact absurd rfl hne
    | cons _ _ => simp
  have hb : body = pre ++ q :: tail.dropLast := by
    have h1 : (body ++ [q]).dropLast = (pre ++ q :: tail).dropLast := by rw [he]
    rw [List.dropLast_concat] at h1
    rw [h1]
    rw [List.dropLast_append_of_ne_nil (by simp), List.dropLast_cons_of_ne_nil hne]
  obtain ⟨s, hs⟩ := hpre tail.dropLast
  have := hn [] []
  rw [List.append_nil, hb, hs] at this
  simp [unquoteLoop] at this


/-- the `token` and `quoted` productions: a complete literal `lit` that `parseLiteral` accepts, followed by text `k`
that cannot continue a token, is read by the grammar as the same value (or as something it leaves unspecified),
leaving exactly `k` -/
theorem lit_sim (fs : FloatSem) (lit k : Bytes) (hd : LitDone lit) (hk : TokEnd k) (tag : Byte) (v : Lit)
    (hp : parseLiteral (semOracle fs) lit = .ok (tag, some v)) :
    ∃ t u, (∀ f, readValue fs (f + 1) (lit ++ k) = some (t, u, k)) ∧ (u = false → t = litNBT v) := by
  rcases hd with ⟨hne, hall⟩ | ⟨q, body, r, hq, hlit, hn⟩
  · obtain ⟨h1, _⟩ := token_sound fs lit hne hall
    cases hc : classify fs lit with
    | unspec => exact ⟨_, true, fun f => rv_tok_unspec fs lit k hne hall hk hc f, (by intro h; cases h)⟩
    | bad =>
      obtain ⟨_, h2⟩ := token_sound fs lit hne hall
      obtain ⟨tag', hp'⟩ := h2 hc
      rw [hp] at hp'; injection hp' with hp'; injection hp' with _ e; cases e
    | val t =>
      obtain ⟨v', hp', hv⟩ := h1 t hc
      rw [hp] at hp'; injection hp' with hp'; injection hp' with _ e2
      have : v = v' := Option.some.inj e2
      subst this
      exact ⟨t, false, fun f => rv_tok fs lit k t hne hall hk hc f, fun _ => hv.symm⟩
  · subst hlit
    have hqq : (q == 34 || q == 39) = true := by rcases hq with e | e <;> subst e <;> decide
    obtain ⟨s, pre, tail, ub, _, hv, he, hr, hu⟩ := quoted_sound (semOracle fs) q (body ++ [q]) hqq tag (some v) hp
    have htail : tail = [] := norm_first_quote q body r pre tail hn he (fun k' => ⟨s, hu k'⟩)
    subst htail
    have hsp : isSpace q = false := by rcases hq with e | e <;> subst e <;> decide
    have h123 : (q == 123) = false ∧ (q == 91) = false := by rcases hq with e | e <;> subst e <;> decide
    refine ⟨.string s, ub, fun f => ?_, fun hub => ?_⟩
    · unfold readValue
      simp only [List.cons_append]
      rw [skipWs_cons q _ hsp]
      simp only [h123.1, h123.2, hqq, Bool.false_eq_true, if_false, if_true]
      rw [he]
      have := hr k false
      simp only [List.append_assoc, List.cons_append, List.nil_append] at this ⊢
      rw [this]
      simp
    · have : v = .str s := Option.some.inj hv
      rw [this]; rfl

end GoMC.Model.SNBT
