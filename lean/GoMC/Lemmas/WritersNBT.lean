/-
  `Wr.Faithful` for the writer model of `nbt.Encoder.Encode` (Model/WritersNBT.lean): for EVERY value of the universe
  (well-typed or not, encodable or not), every format, root name and fuel, `Encode` never swallows a sink failure —
  under a budget that covers what it writes on an unlimited sink it behaves as there, under a smaller one it returns an
  error.  By closure of `Faithful` under `pure` / `fail` / `crash` / `write` / bind / `if`, induction on the fuel.

  Second part: `Wr.Exact` against the pure model of C02 (`Model/NBTEncode.lean`): whenever `encodeF` returns `ok out`, the
  writer model returns `ok ()` having written exactly `out` (and fails under every budget below `|out|`).  So C02's
  layout / round-trip theorems about `encode` speak about the bytes the writer model puts on the wire.
-/
import GoMC.Model.WritersNBT
import GoMC.Lemmas.Writers
namespace GoMC.Lemmas.WNBT
open GoMC GoMC.Model GoMC.Model.Go Wr

theorem faithful_wUnit (bs : Bytes) : Faithful (wUnit bs) :=
  faithful_bind (faithful_write bs) fun _ => faithful_pure _

theorem faithful_wOfRes (r : Res Bytes) : Faithful (wOfRes r) := by
  cases r with
  | ok bs => exact faithful_wUnit bs
  | err => exact faithful_fail
  | panic => exact faithful_crash

theorem faithful_wTagW (tag : Byte) (name : Bytes) : Faithful (wTagW tag name) := by
  unfold wTagW
  exact faithful_ite faithful_fail
    (faithful_bind (faithful_wUnit _) fun _ => faithful_bind (faithful_wUnit _) fun _ => faithful_wUnit _)

theorem faithful_wSeq {α : Type} {f : α → Wr Unit} (hf : ∀ x, Faithful (f x)) : ∀ xs : List α, Faithful (wSeq f xs)
  | [] => faithful_pure _
  | x :: xs => by
    unfold wSeq
    exact faithful_bind (hf x) fun _ => faithful_wSeq hf xs

theorem faithful_wCarrier (cx : SnbtCarrier) (v : GoVal) : Faithful (wCarrier cx v) := by
  unfold wCarrier
  split
  · exact faithful_wUnit _
  · exact faithful_wOfRes _
  · exact GoMC.Lemmas.faithful_wMarshal _
  · exact faithful_crash

theorem faithful_wElem (g : GoVal → Byte × GoVal) (m : GoVal → Byte → Wr Unit) (hm : ∀ r t, Faithful (m r t))
    (eleType : Byte) (x : GoVal) : Faithful (wElem g m eleType x) := by
  unfold wElem
  exact faithful_ite faithful_fail (hm _ _)

theorem faithful_wEntry (g : GoVal → Byte × GoVal) (m : GoVal → Byte → Wr Unit) (hm : ∀ r t, Faithful (m r t))
    (kv : Bytes × GoVal) : Faithful (wEntry g m kv) := by
  unfold wEntry
  exact faithful_ite faithful_fail (faithful_bind (faithful_wTagW _ _) fun _ => hm _ _)

theorem faithful_wField (g : GoVal → Byte × GoVal) (m : GoVal → Byte → Wr Unit) (hm : ∀ r t, Faithful (m r t))
    (sv : GoVal) (fld : Fld) : Faithful (wField g m sv fld) := by
  unfold wField
  split
  · exact faithful_pure _
  · split
    · exact faithful_pure _
    · simp only
      split
      · exact faithful_fail
      · split
        · exact faithful_fail
        · exact faithful_bind (faithful_wTagW _ _) fun _ => hm _ _

theorem faithful_marshal_value (cx : SnbtCarrier) : ∀ f : Nat,
    (∀ v tag, Faithful (wMarshalV cx f v tag)) ∧ (∀ v tag, Faithful (wValue cx f v tag))
  | 0 => ⟨fun v tag => by unfold wMarshalV; exact faithful_fail, fun v tag => by unfold wValue; exact faithful_fail⟩
  | f + 1 => by
    have ih := faithful_marshal_value cx f
    have hm : ∀ r t, Faithful (wMarshalV cx f r t) := ih.1
    refine ⟨fun v tag => ?_, fun v tag => ?_⟩
    · unfold wMarshalV
      split
      · exact faithful_wCarrier cx v
      · exact ih.2 v tag
    · unfold wValue
      split
      · split <;> first | exact faithful_wUnit _ | exact faithful_pure _
      · split <;> first | exact faithful_wUnit _ | exact faithful_crash
      · split <;> first | exact faithful_wUnit _ | exact faithful_crash
      · split <;> first | exact faithful_wUnit _ | exact faithful_crash
      · split <;> first | exact faithful_wUnit _ | exact faithful_crash
      · split <;> first | exact faithful_wUnit _ | exact faithful_crash
      · split
        · refine faithful_bind (faithful_wUnit _) fun _ => ?_
          split <;> first | exact faithful_wUnit _ | exact faithful_wOfRes _
        · refine faithful_bind (faithful_wUnit _) fun _ => ?_
          split <;> first | exact faithful_wUnit _ | exact faithful_wOfRes _
        · exact faithful_crash
      · split
        · exact faithful_bind (faithful_wUnit _) fun _ => faithful_wSeq (fun x => faithful_wOfRes _) _
        · exact faithful_bind (faithful_wUnit _) fun _ => faithful_wSeq (fun x => faithful_wOfRes _) _
        · exact faithful_crash
      · split
        · exact faithful_bind (faithful_wUnit _) fun _ => faithful_wSeq (fun x => faithful_wOfRes _) _
        · exact faithful_bind (faithful_wUnit _) fun _ => faithful_wSeq (fun x => faithful_wOfRes _) _
        · exact faithful_crash
      · split
        · exact faithful_bind (faithful_wUnit _) fun _ => faithful_bind (faithful_wUnit _) fun _ =>
            faithful_wSeq (fun x => faithful_wElem _ _ hm _ x) _
        · exact faithful_bind (faithful_wUnit _) fun _ => faithful_bind (faithful_wUnit _) fun _ =>
            faithful_wSeq (fun x => faithful_wElem _ _ hm _ x) _
        · exact faithful_crash
      · split
        · exact faithful_ite faithful_fail (faithful_bind (faithful_wUnit _) fun _ => faithful_wUnit _)
        · exact faithful_crash
      · split
        · exact faithful_bind (faithful_wSeq (fun x => faithful_wField _ _ hm _ x) _) fun _ => faithful_wUnit _
        · exact faithful_bind (faithful_wSeq (fun x => faithful_wEntry _ _ hm x) _) fun _ => faithful_wUnit _
        · exact faithful_wUnit _
      · exact faithful_fail

/-- `Encoder.Encode` never swallows a sink failure -/
theorem faithful_wEncodeF (cx : SnbtCarrier) (fuel : Nat) (network : Bool) (name : Bytes) (v : Option GoVal) :
    Faithful (wEncodeF cx fuel network name v) := by
  unfold wEncodeF
  cases v with
  | none => exact faithful_fail
  | some x =>
    simp only
    refine faithful_bind ?_ fun _ => (faithful_marshal_value cx fuel).1 _ _
    split
    · exact faithful_wUnit _
    · exact faithful_wTagW _ _

theorem faithful_wEncode (cx : SnbtCarrier) (network : Bool) (name : Bytes) (v : Option GoVal) :
    Faithful (wEncode cx network name v) := faithful_wEncodeF cx _ network name v

/-! ### exactness against the pure model -/

theorem exact_wUnit (bs : Bytes) : Exact (wUnit bs) (Res.ok ()) bs := exact_map (fun _ => ()) (exact_write bs)

theorem exact_wOfRes {r : Res Bytes} {bs : Bytes} (h : r = Res.ok bs) : Exact (wOfRes r) (Res.ok ()) bs := by
  subst h; exact exact_wUnit bs

/-- `do e; f` where `e : Wr Unit` -/
theorem exact_then {e f : Wr Unit} {b1 b2 : Bytes} {r : Res Unit} (he : Exact e (Res.ok ()) b1) (hf : Exact f r b2) :
    Exact (e >>= fun _ => f) r (b1 ++ b2) := exact_bind (f := fun _ => f) he hf

theorem exact_wTagW (tag : Byte) (name h : Bytes) (hw : writeTag tag name = Res.ok h) : Exact (wTagW tag name) (Res.ok ()) h := by
  unfold writeTag at hw
  unfold wTagW
  split at hw
  · simp at hw
  · rename_i hl
    simp only [Res.ok.injEq] at hw
    subst hw
    simp only [hl, if_false]
    have := exact_then (exact_wUnit [tag]) (exact_then (exact_wUnit (beN 2 name.length)) (exact_wUnit name))
    exact this.congr rfl (by simp)

theorem resMapM_cons_ok {α β} {F : α → Res β} {x : α} {xs : List α} {ys : List β} (h : resMapM F (x :: xs) = Res.ok ys) :
    ∃ y ys', F x = Res.ok y ∧ resMapM F xs = Res.ok ys' ∧ ys = y :: ys' := by
  unfold resMapM at h
  cases hx : F x with
  | ok y =>
    rw [hx] at h
    simp only at h
    cases hxs : resMapM F xs with
    | ok ys' => rw [hxs] at h; simp only [Res.ok.injEq] at h; exact ⟨y, ys', rfl, rfl, h.symm⟩
    | err => rw [hxs] at h; simp at h
    | panic => rw [hxs] at h; simp at h
  | err => rw [hx] at h; simp at h
  | panic => rw [hx] at h; simp at h

theorem exact_wSeq {α : Type} {F : α → Res Bytes} {W : α → Wr Unit}
    (h : ∀ x y, F x = Res.ok y → Exact (W x) (Res.ok ()) y) :
    ∀ (xs : List α) (ys : List Bytes), resMapM F xs = Res.ok ys → Exact (wSeq W xs) (Res.ok ()) ys.flatten
  | [], ys, hm => by
    unfold resMapM at hm
    simp only [Res.ok.injEq] at hm
    subst hm
    exact exact_pure ()
  | x :: xs, ys, hm => by
    obtain ⟨y, ys', hx, hxs, rfl⟩ := resMapM_cons_ok hm
    unfold wSeq
    have := exact_then (h x y hx) (exact_wSeq h xs ys' hxs)
    exact this.congr rfl (by simp)

theorem resFlatten_ok {r : Res (List Bytes)} {f : Bytes → Bytes} {out : Bytes} (h : resFlatten r f = Res.ok out) :
    ∃ bs, r = Res.ok bs ∧ out = f bs.flatten := by
  unfold resFlatten at h
  cases r with
  | ok bs => simp only [Res.ok.injEq] at h; exact ⟨bs, rfl, h.symm⟩
  | err => simp at h
  | panic => simp at h

theorem exact_wCarrier (cx : SnbtCarrier) (v : GoVal) (out : Bytes) (h : carrierMarshal cx v = Res.ok out) :
    Exact (wCarrier cx v) (Res.ok ()) out := by
  unfold carrierMarshal at h
  unfold wCarrier
  split at h
  · simp only [Res.ok.injEq] at h; subst h; exact exact_wUnit _
  · exact exact_wOfRes h
  · exact GoMC.Lemmas.exact_wMarshal _ _ h
  · simp at h


section steps
variable (g : GoVal → Byte × GoVal) (m : GoVal → Byte → Res Bytes) (mW : GoVal → Byte → Wr Unit)
  (hm : ∀ r t out, m r t = Res.ok out → Exact (mW r t) (Res.ok ()) out)
include hm

theorem exact_wElem (eleType : Byte) (x : GoVal) (out : Bytes) (h : elemEnc g m eleType x = Res.ok out) :
    Exact (wElem g mW eleType x) (Res.ok ()) out := by
  unfold elemEnc at h
  unfold wElem
  simp only at h ⊢
  split at h
  · simp at h
  · rename_i hne
    simp only [hne, if_false]
    exact hm _ _ _ h

theorem tag_then_marshal (t : Byte) (name : Bytes) (r : GoVal) (out : Bytes)
    (h : (match writeTag t name with
      | .ok hd => (match m r t with
        | .ok p => Res.ok (hd ++ p)
        | .err => .err
        | .panic => .panic)
      | .err => .err
      | .panic => .panic) = Res.ok out) :
    Exact (wTagW t name >>= fun _ => mW r t) (Res.ok ()) out := by
  cases hw : writeTag t name with
  | ok hd =>
    rw [hw] at h
    simp only at h
    cases hp : m r t with
    | ok p =>
      rw [hp] at h
      simp only [Res.ok.injEq] at h
      subst h
      exact exact_then (exact_wTagW t name hd hw) (hm r t p hp)
    | err => rw [hp] at h; simp at h
    | panic => rw [hp] at h; simp at h
  | err => rw [hw] at h; simp at h
  | panic => rw [hw] at h; simp at h

theorem exact_wEntry (kv : Bytes × GoVal) (out : Bytes) (h : entryEnc g m kv = Res.ok out) :
    Exact (wEntry g mW kv) (Res.ok ()) out := by
  unfold entryEnc at h
  unfold wEntry
  simp only at h ⊢
  split at h
  · simp at h
  · rename_i hne
    simp only [hne, if_false]
    exact tag_then_marshal m mW hm _ _ _ _ h

theorem exact_wField (sv : GoVal) (fld : Fld) (out : Bytes) (h : fieldEnc g m sv fld = Res.ok out) :
    Exact (wField g mW sv fld) (Res.ok ()) out := by
  unfold fieldEnc at h
  unfold wField
  split at h
  · rename_i hw
    simp only [Res.ok.injEq] at h
    subst h
    simp only [hw]
    exact exact_pure ()
  · rename_i fv hw
    simp only [hw]
    split at h
    · rename_i he
      simp only [Res.ok.injEq] at h
      subst h
      simp only [he, if_true]
      exact exact_pure ()
    · rename_i he
      simp only [he]
      simp only at h ⊢
      split at h
      · simp at h
      · rename_i h0
        simp only [h0, if_false]
        split at h
        · simp at h
        · rename_i t ht
          simp only [ht]
          exact tag_then_marshal m mW hm _ _ _ _ h
end steps


theorem exact_marshal_value (cx : SnbtCarrier) : ∀ f : Nat,
    (∀ v tag out, Go.marshal cx f v tag = Res.ok out → Exact (wMarshalV cx f v tag) (Res.ok ()) out) ∧
    (∀ v tag out, writeValue cx f v tag = Res.ok out → Exact (wValue cx f v tag) (Res.ok ()) out)
  | 0 => ⟨fun v tag out h => by unfold Go.marshal at h; simp at h, fun v tag out h => by unfold writeValue at h; simp at h⟩
  | f + 1 => by
    have ih := exact_marshal_value cx f
    have hm := ih.1
    refine ⟨fun v tag out h => ?_, fun v tag out h => ?_⟩
    · unfold Go.marshal at h
      unfold wMarshalV
      split at h
      · rename_i hc; simp only [hc, if_true]; exact exact_wCarrier cx v out h
      · rename_i hc; simp only [hc]; exact ih.2 v tag out h
    · unfold writeValue at h
      unfold wValue
      split at h
      · -- TagByte
        rename_i heq
        simp only [heq]
        split at h <;> simp only [Res.ok.injEq] at h <;> subst h
        · exact exact_wUnit _
        · exact exact_wUnit _
        · exact exact_wUnit _
        · split <;> first | exact exact_pure () | (exfalso; simp_all)
      · rename_i heq
        simp only [heq]
        split at h
        · rename_i hi
          simp only [Res.ok.injEq] at h; subst h
          simp only [hi]
          exact exact_wUnit _
        · simp at h
      · rename_i heq
        simp only [heq]
        split at h
        · rename_i hi
          simp only [Res.ok.injEq] at h; subst h
          simp only [hi]
          exact exact_wUnit _
        · simp at h
      · rename_i heq
        simp only [heq]
        split at h
        · rename_i hi
          simp only [Res.ok.injEq] at h; subst h
          simp only [hi]
          exact exact_wUnit _
        · simp at h
      · rename_i heq
        simp only [heq]
        split at h
        · simp only [Res.ok.injEq] at h; subst h
          exact exact_wUnit _
        · simp at h
      · rename_i heq
        simp only [heq]
        split at h
        · simp only [Res.ok.injEq] at h; subst h
          exact exact_wUnit _
        · simp at h
      · -- TagByteArray
        rename_i heq
        simp only [heq]
        split at h
        · -- slice
          rename_i e nl xs
          split at h
          · simp only [Res.ok.injEq] at h; subst h
            exact exact_then (exact_wUnit _) (exact_wUnit _)
          · simp only [Res.ok.injEq] at h; subst h
            exact exact_then (exact_wUnit _) (exact_wUnit _)
          · simp only [Res.ok.injEq] at h; subst h
            exact exact_then (exact_wUnit _) (exact_wUnit _)
          · obtain ⟨bs, hb, rfl⟩ := resFlatten_ok h
            cases hr : resMapM byteOfElem xs with
            | ok b =>
              rw [hr] at hb
              simp only [Res.map, Res.ok.injEq] at hb
              subst hb
              have := exact_then (exact_wUnit (beN 4 xs.length)) (exact_wOfRes hr)
              have e2 : beN 4 xs.length ++ [b].flatten = beN 4 xs.length ++ b := by simp
              rw [e2]
              dsimp only
              split <;> first | exact this | (exfalso; simp_all)
            | err => rw [hr] at hb; simp [Res.map] at hb
            | panic => rw [hr] at hb; simp [Res.map] at hb
        · -- array
          rename_i e xs
          split at h
          · simp only [Res.ok.injEq] at h; subst h
            exact exact_then (exact_wUnit _) (exact_wUnit _)
          · simp only [Res.ok.injEq] at h; subst h
            exact exact_then (exact_wUnit _) (exact_wUnit _)
          · simp only [Res.ok.injEq] at h; subst h
            exact exact_then (exact_wUnit _) (exact_wUnit _)
          · obtain ⟨bs, hb, rfl⟩ := resFlatten_ok h
            cases hr : resMapM byteOfElem xs with
            | ok b =>
              rw [hr] at hb
              simp only [Res.map, Res.ok.injEq] at hb
              subst hb
              have := exact_then (exact_wUnit (beN 4 xs.length)) (exact_wOfRes hr)
              have e2 : beN 4 xs.length ++ [b].flatten = beN 4 xs.length ++ b := by simp
              rw [e2]
              dsimp only
              split <;> first | exact this | (exfalso; simp_all)
            | err => rw [hr] at hb; simp [Res.map] at hb
            | panic => rw [hr] at hb; simp [Res.map] at hb
        · simp at h
      · rename_i heq
        simp only [heq]
        split at h
        · obtain ⟨bs, hb, rfl⟩ := resFlatten_ok h
          exact exact_then (exact_wUnit _) (exact_wSeq (fun x y hx => exact_wOfRes hx) _ _ hb)
        · obtain ⟨bs, hb, rfl⟩ := resFlatten_ok h
          exact exact_then (exact_wUnit _) (exact_wSeq (fun x y hx => exact_wOfRes hx) _ _ hb)
        · simp at h
      · rename_i heq
        simp only [heq]
        split at h
        · obtain ⟨bs, hb, rfl⟩ := resFlatten_ok h
          exact exact_then (exact_wUnit _) (exact_wSeq (fun x y hx => exact_wOfRes hx) _ _ hb)
        · obtain ⟨bs, hb, rfl⟩ := resFlatten_ok h
          exact exact_then (exact_wUnit _) (exact_wSeq (fun x y hx => exact_wOfRes hx) _ _ hb)
        · simp at h
      · -- TagList
        rename_i heq
        simp only [heq]
        split at h
        · rename_i e nl xs
          dsimp only at h ⊢
          obtain ⟨bs, hb, rfl⟩ := resFlatten_ok h
          cases xs with
          | nil =>
            dsimp only at hb ⊢
            have := exact_then (exact_wUnit [tagOfType e]) (exact_then (exact_wUnit (beN 4 ([] : List GoVal).length))
              (exact_wSeq (fun x y hx => exact_wElem _ _ _ hm (tagOfType e) x y hx) _ _ hb))
            exact this.congr rfl (by simp)
          | cons x0 xs' =>
            dsimp only at hb ⊢
            have := exact_then (exact_wUnit [(getTagType cx f x0).1]) (exact_then (exact_wUnit (beN 4 (x0 :: xs').length))
              (exact_wSeq (fun x y hx => exact_wElem _ _ _ hm (getTagType cx f x0).1 x y hx) _ _ hb))
            exact this.congr rfl (by simp)
        · rename_i e xs
          dsimp only at h ⊢
          obtain ⟨bs, hb, rfl⟩ := resFlatten_ok h
          cases xs with
          | nil =>
            dsimp only at hb ⊢
            have := exact_then (exact_wUnit [tagOfType e]) (exact_then (exact_wUnit (beN 4 ([] : List GoVal).length))
              (exact_wSeq (fun x y hx => exact_wElem _ _ _ hm (tagOfType e) x y hx) _ _ hb))
            exact this.congr rfl (by simp)
          | cons x0 xs' =>
            dsimp only at hb ⊢
            have := exact_then (exact_wUnit [(getTagType cx f x0).1]) (exact_then (exact_wUnit (beN 4 (x0 :: xs').length))
              (exact_wSeq (fun x y hx => exact_wElem _ _ _ hm (getTagType cx f x0).1 x y hx) _ _ hb))
            exact this.congr rfl (by simp)
        · simp at h
      · -- TagString
        rename_i heq
        simp only [heq]
        split at h
        · split at h
          · simp at h
          · rename_i hl
            simp only [Res.ok.injEq] at h; subst h
            simp only [hl, if_false]
            exact exact_then (exact_wUnit _) (exact_wUnit _)
        · simp at h
      · -- TagCompound
        rename_i heq
        simp only [heq]
        split at h
        · obtain ⟨bs, hb, rfl⟩ := resFlatten_ok h
          exact exact_then (exact_wSeq (fun x y hx => exact_wField _ _ _ hm _ x y hx) _ _ hb) (exact_wUnit [0])
        · obtain ⟨bs, hb, rfl⟩ := resFlatten_ok h
          exact exact_then (exact_wSeq (fun x y hx => exact_wEntry _ _ _ hm x y hx) _ _ hb) (exact_wUnit [0])
        · simp only [Res.ok.injEq] at h; subst h
          split <;> first | exact exact_wUnit _ | (exfalso; simp_all)
      · simp at h

/-- when the pure model of C02 encodes to `out`, the writer model writes exactly `out` -/
theorem exact_wEncodeF (cx : SnbtCarrier) (fuel : Nat) (network : Bool) (name : Bytes) (v : Option GoVal) (out : Bytes)
    (h : encodeF cx fuel network name v = Res.ok out) : Exact (wEncodeF cx fuel network name v) (Res.ok ()) out := by
  unfold encodeF at h
  unfold wEncodeF
  cases v with
  | none => simp at h
  | some x =>
    simp only at h ⊢
    cases network with
    | true =>
      simp only [if_true] at h ⊢
      cases hp : Go.marshal cx fuel (getTagType cx fuel x).2 (getTagType cx fuel x).1 with
      | ok p =>
        rw [hp] at h
        simp only [Res.ok.injEq] at h
        subst h
        exact exact_then (exact_wUnit _) ((exact_marshal_value cx fuel).1 _ _ _ hp)
      | err => rw [hp] at h; simp at h
      | panic => rw [hp] at h; simp at h
    | false =>
      simp only [Bool.false_eq_true, if_false] at h ⊢
      exact tag_then_marshal (Go.marshal cx fuel) (wMarshalV cx fuel) (exact_marshal_value cx fuel).1 _ _ _ _ h

theorem exact_wEncode (cx : SnbtCarrier) (network : Bool) (name : Bytes) (v : Option GoVal) (out : Bytes)
    (h : encode cx network name v = Res.ok out) : Exact (wEncode cx network name v) (Res.ok ()) out :=
  exact_wEncodeF cx _ network name v out h

end GoMC.Lemmas.WNBT
