/-
  C04_roundtrip, compounds: `ValSpec` (exact behaviour of `writeValue` on a value text in any context) holds for
  scalars, strings and typed arrays, and is closed under forming compounds — to any depth.
-/
import GoMC.Lemmas.SNBTRoundArr
namespace GoMC.Model.SNBT
open GoMC Scanner DState Spec

/-! ### values in context -/

/-- exact behaviour of `writeValue` on the text `w` of a value with tag `tag` and payload `payload`, in any
context: `w` stands where a value begins, is followed by `k` (nothing, or a byte that cannot continue a literal),
under any stack that leaves room for `dep` more levels; `need` is the fuel that suffices -/
def ValSpec (fo : FloatOracle) (w : Bytes) (tag : Byte) (payload : Bytes) (dep need : Nat) : Prop :=
  ∀ (pre k : Bytes) (s : Scanner) (o : Op) (ifw : Bool) (name : Bytes) (f : Nat),
    s.st = .beginValue → s.err = false → s.endTop = false → s.stack.length + dep ≤ maxNestingDepth + 1 →
    Delim k → (finish s k).2 ≠ .error → need ≤ f →
    writeValue fo f (DState.mk (pre ++ w ++ k) pre.length o s) ifw name =
      .ok (DState.mk (pre ++ w ++ k) (pre.length + w.length + 1) (finish s k).2 (finish s k).1,
           hdr ifw tag name ++ payload)

/-- a literal token is a value -/
theorem valSpec_tok (fo : FloatOracle) (w : Bytes) (hw : IsTok w) (tag : Byte) (v : Lit)
    (hp : parseLiteral fo w = .ok (tag, some v)) (hok : litOk v = true) : ValSpec fo w tag (litPayload v) 0 1 := by
  intro pre k s o ifw name f hst he ht _ hk hfin hf
  obtain ⟨f, rfl⟩ : ∃ f', f = f' + 1 := ⟨f - 1, by omega⟩
  obtain ⟨h1, h2⟩ := tok_read w hw pre k hk s hst he ht o
  unfold writeValue
  dsimp only
  rw [h1]
  dsimp only
  rw [h2]
  have : ((finish s k).2 == Op.error) = false := by simpa using hfin
  simp only [this, Bool.false_eq_true, if_false]
  rw [hp]
  simp only [hok, Bool.not_true, Bool.false_eq_true, if_false]

theorem valSpec_scalar (fo : FloatOracle) (fm : FmtOracle) (t : NBT) (w : Bytes) (hw : scalarText fm t = some w)
    (hf : FloatHyp fo fm t) (hlen : ∀ s, t = .string s → s.length < 2 ^ 15) :
    ValSpec fo w t.tag (encPayload t) 0 1 := by
  cases t with
  | byte v =>
    simp only [scalarText, Option.some.injEq] at hw; subst hw
    have hp := parseLiteral_int_suffix fo v.toInt 66 (Or.inl rfl)
    simp only [if_true, parseInt_toInt (by decide : 0 < 8) v, Option.map_some] at hp
    have := valSpec_tok fo _ (isTok_int _ _ (Or.inr (Or.inl rfl))) _ _ hp rfl
    simpa [litPayload, encPayload, NBT.tag, NBT.tagByte, tagByte] using this
  | short v =>
    simp only [scalarText, Option.some.injEq] at hw; subst hw
    have hp := parseLiteral_int_suffix fo v.toInt 83 (Or.inr (Or.inl rfl))
    simp only [show ¬ ((83 : Byte) = 66) by decide, if_false, if_true, parseInt_toInt (by decide : 0 < 16) v,
      Option.map_some] at hp
    have := valSpec_tok fo _ (isTok_int _ _ (Or.inr (Or.inr (Or.inl rfl)))) _ _ hp rfl
    simpa [litPayload, encPayload, be16, NBT.tag, NBT.tagShort, tagShort] using this
  | int v =>
    simp only [scalarText, Option.some.injEq] at hw; subst hw
    have hp := parseLiteral_int_plain fo v.toInt
    simp only [parseInt_toInt (by decide : 0 < 32) v, Option.map_some] at hp
    have := valSpec_tok fo _ (by simpa using isTok_int v.toInt [] (Or.inl rfl)) _ _ hp rfl
    simpa [litPayload, encPayload, be32, NBT.tag, NBT.tagInt, tagInt] using this
  | long v =>
    simp only [scalarText, Option.some.injEq] at hw; subst hw
    have hp := parseLiteral_int_suffix fo v.toInt 76 (Or.inr (Or.inr (Or.inl rfl)))
    simp only [show ¬ ((76 : Byte) = 66) by decide, show ¬ ((76 : Byte) = 83) by decide, if_false, if_true,
      parseInt_toInt (by decide : 0 < 64) v, Option.map_some] at hp
    have := valSpec_tok fo _ (isTok_int _ _ (Or.inr (Or.inr (Or.inr (Or.inl rfl))))) _ _ hp rfl
    simpa [litPayload, encPayload, be64, NBT.tag, NBT.tagLong, tagLong] using this
  | float b =>
    simp only [scalarText, Option.some.injEq] at hw; subst hw
    obtain ⟨hft, hpf⟩ := hf
    have hp := parseLiteral_float fo _ hft 70 (Or.inl rfl)
    simp only [if_true, hpf, Option.map_some] at hp
    have := valSpec_tok fo _ (isTok_float _ hft 70 (Or.inl rfl)) _ _ hp rfl
    simpa [litPayload, encPayload, be32, NBT.tag, NBT.tagFloat, tagFloat] using this
  | double b =>
    simp only [scalarText, Option.some.injEq] at hw; subst hw
    obtain ⟨hft, hpf⟩ := hf
    have hp := parseLiteral_float fo _ hft 68 (Or.inr rfl)
    simp only [show ¬ ((68 : Byte) = 70) by decide, if_false, hpf, Option.map_some] at hp
    have := valSpec_tok fo _ (isTok_float _ hft 68 (Or.inr rfl)) _ _ hp rfl
    simpa [litPayload, encPayload, be64, NBT.tag, NBT.tagDouble, tagDouble] using this
  | string str =>
    simp only [scalarText, Option.some.injEq] at hw; subst hw
    have := valSpec_tok fo _ (isTok_str str) _ _ (parseLiteral_writeEscapeStr fo str)
      (litOk_str str (hlen str rfl))
    simpa [litPayload, encPayload, encString, NBT.tag, NBT.tagString, tagString] using this
  | _ => simp [scalarText] at hw



/-! ### compound names -/

theorem stBeginString_bare (s : Scanner) (c : Byte) (h : isAllowedInUnquotedString c = true) :
    stBeginString s c = ({ s with st := .inUnquoted }, .beginLiteral) := by
  obtain ⟨h1, _, _, _, h5, h6⟩ := allowed_start_facts c h
  unfold stBeginString
  simp only [h1, h5, h6, h, Bool.false_eq_true, if_false, if_true]

theorem stBeginString_quote (s : Scanner) (q : Byte) (hq : q = 34 ∨ q = 39) :
    stBeginString s q = ({ s with st := if q = 34 then .inDq else .inSq }, .beginLiteral) := by
  rcases hq with e | e <;> subst e <;> simp [stBeginString, isSpace]

/-- the printed form of a compound name is one literal token where a name is expected -/
theorem keyTok_str (str : Bytes) :
    ∃ c0 ws st0 stE, writeEscapeStr str = c0 :: ws ∧
      (∀ s, stBeginString s c0 = ({ s with st := st0 }, .beginLiteral)) ∧
      (∀ s : Scanner, s.st = st0 → AllOp .cont s ws ∧ run s ws = { s with st := stE }) ∧ EndSt stE ∧
      isSpace c0 = false ∧ (c0 == 125) = false := by
  unfold writeEscapeStr
  by_cases hq : needQuote str = true
  · simp only [hq, Bool.not_true, Bool.false_eq_true, if_false]
    have key : ∀ q : Byte, (q = 34 ∨ q = 39) →
        ∃ c0 ws st0 stE, [q] ++ escapeWith q str ++ [q] = c0 :: ws ∧
          (∀ s, stBeginString s c0 = ({ s with st := st0 }, .beginLiteral)) ∧
          (∀ s : Scanner, s.st = st0 → AllOp .cont s ws ∧ run s ws = { s with st := stE }) ∧ EndSt stE ∧
          isSpace c0 = false ∧ (c0 == 125) = false := by
      intro q hqq
      refine ⟨q, escapeWith q str ++ [q], (if q = 34 then .inDq else .inSq), .endValue, by simp,
        fun s => stBeginString_quote s q hqq, fun s h => ?_, Or.inr (Or.inr (Or.inr rfl)),
        by rcases hqq with e | e <;> subst e <;> decide, by rcases hqq with e | e <;> subst e <;> decide⟩
      obtain ⟨a, b⟩ := AllOp_escape q hqq str s h
      have hc := step_close q hqq s h
      refine ⟨AllOp_append a ?_, ?_⟩
      · rw [b]; exact ⟨by rw [hc], trivial⟩
      · rw [run_append, b]; simp only [run]; rw [hc]
    split
    · exact key 39 (Or.inr rfl)
    · exact key 34 (Or.inl rfl)
  · have hq' : needQuote str = false := by simpa using hq
    simp only [hq', Bool.not_false, if_true]
    unfold needQuote at hq'
    cases str with
    | nil => simp at hq'
    | cons c cs =>
      simp only [Bool.or_eq_false_iff, List.any_eq_false, Bool.not_eq_true', Bool.not_eq_false] at hq'
      obtain ⟨_, hall⟩ := hq'
      have hall' : ∀ x ∈ c :: cs, isAllowedInUnquotedString x = true := by
        intro x hx; have := hall x hx; simpa using this
      have hc := hall' c (by simp)
      have hf := allowed_start_facts c hc
      refine ⟨c, cs, .inUnquoted, .inUnquoted, rfl, fun s => stBeginString_bare s c hc, fun s h => ?_,
        Or.inr (Or.inr (Or.inl rfl)), hf.1, ?_⟩
      · obtain ⟨a, b⟩ := AllOp_unq s h cs (fun x hx => hall' x (by simp [hx]))
        exact ⟨a, by rw [b, set_st_eq s _ h]⟩
      · have : ∀ n : Fin (2^8), (let c : Byte := BitVec.ofFin n
            isAllowedInUnquotedString c = true → (c == 125) = false) := by decide +kernel
        exact this c.toFin hc

/-- the name the parser takes from the printed form: the original string -/
theorem key_name (fo : FloatOracle) (str : Bytes) :
    ∃ q rest, writeEscapeStr str = q :: rest ∧
      (if (q == 34 || q == 39) = true then
          (∃ t, parseLiteral fo (q :: rest) = .ok (t, some (.str str)))
        else q :: rest = str) := by
  have hp := parseLiteral_writeEscapeStr fo str
  unfold writeEscapeStr at hp ⊢
  by_cases hq : needQuote str = true
  · simp only [hq, Bool.not_true, Bool.false_eq_true, if_false] at hp ⊢
    split at hp
    · rename_i h; rw [if_pos h]
      exact ⟨39, escapeWith 39 str ++ [39], by simp, by simp only [show ((39:Byte) == 34 || (39:Byte) == 39) = true by decide, if_true]; exact ⟨_, by simpa using hp⟩⟩
    · rename_i h; rw [if_neg h]
      exact ⟨34, escapeWith 34 str ++ [34], by simp, by simp only [show ((34:Byte) == 34 || (34:Byte) == 39) = true by decide, if_true]; exact ⟨_, by simpa using hp⟩⟩
  · have hq' : needQuote str = false := by simpa using hq
    simp only [hq', Bool.not_false, if_true] at hp ⊢
    unfold needQuote at hq'
    cases str with
    | nil => simp at hq'
    | cons c cs =>
      simp only [Bool.or_eq_false_iff, List.any_eq_false, Bool.not_eq_true', Bool.not_eq_false] at hq'
      have hc : isAllowedInUnquotedString c = true := by have := hq'.2 c (by simp); simpa using this
      have := allowed_not_quote c hc
      exact ⟨c, cs, rfl, by rw [this.1, this.2]; simp⟩

theorem stEndValue_colon (s : Scanner) (σ : List PS) (h : s.stack = .compoundName :: σ) :
    stEndValue s 58 = ({ s with stack := .compoundValue :: σ, st := .beginValue }, .compoundTagName) := by
  unfold stEndValue; rw [h]; simp [isSpace]

theorem stEndValue_comma_comp (s : Scanner) (σ : List PS) (h : s.stack = .compoundValue :: σ) :
    stEndValue s 44 = ({ s with stack := .compoundName :: σ, st := .beginString }, .compoundValue) := by
  unfold stEndValue; rw [h]; simp [isSpace]

theorem stEndValue_close_comp (s : Scanner) (σ : List PS) (h : s.stack = .compoundValue :: σ) :
    stEndValue s 125 = (pop s, .endValue) := by
  unfold stEndValue; rw [h]; simp [isSpace]



/-! ### compounds -/

/-- one compound entry: name, text of the value, its tag and payload -/
structure Entry where
  key : Bytes
  w : Bytes
  tag : Byte
  payload : Bytes

def entryText (e : Entry) : Bytes := writeEscapeStr e.key ++ [58] ++ e.w

/-- the text between `{` and `}` -/
def wKvs (es : List Entry) : Bytes := joinElems (es.map entryText)

def encEntries : List Entry → Bytes
  | [] => []
  | e :: r => (e.tag :: (beBytes 2 e.key.length ++ e.key)) ++ e.payload ++ encEntries r

theorem step_key_start (s : Scanner) (h : s.st = .compoundOrEmpty ∨ s.st = .beginString) (c : Byte)
    (h1 : isSpace c = false) (h2 : (c == 125) = false) : s.step c = stBeginString s c := by
  unfold Scanner.step
  rcases h with h | h <;> rw [h] <;> dsimp only
  unfold stCompoundOrEmpty
  simp only [h1, h2, Bool.false_eq_true, if_false]

theorem compLoop_spec (fo : FloatOracle) (dep need : Nat) :
    ∀ (es : List Entry), es ≠ [] → (∀ e ∈ es, ValSpec fo e.w e.tag e.payload dep need) →
    (∀ e ∈ es, e.key.length ≤ maxStrLen) →
    ∀ (pre k : Bytes) (s : Scanner) (σ : List PS) (o : Op) (acc : Bytes) (f : Nat),
      (s.st = .compoundOrEmpty ∨ s.st = .beginString) → s.stack = .compoundName :: σ →
      s.err = false → s.endTop = false → σ.length + 1 + dep ≤ maxNestingDepth + 1 →
      need + es.length ≤ f →
      compLoop fo f (DState.mk (pre ++ wKvs es ++ 125 :: k) pre.length o s) acc =
        .ok (DState.mk (pre ++ wKvs es ++ 125 :: k) (pre.length + (wKvs es).length + 1 + 1)
               (finish { s with stack := σ } k).2 (finish { s with stack := σ } k).1,
             acc ++ encEntries es ++ [0]) := by
  intro es
  induction es with
  | nil => intro h; exact absurd rfl h
  | cons e rest ih =>
    intro _ hval hkeys pre k s σ o acc f hst hstack he ht hdep hf
    obtain ⟨f, rfl⟩ : ∃ f', f = f' + 1 := ⟨f - 1, by simp at hf; omega⟩
    have hv := hval e (by simp)
    obtain ⟨c0, ws, st0, stE, hK, hbeg, hrun, hend, hsp, h125⟩ := keyTok_str e.key
    -- the text after the name
    generalize hT : sepJoin (rest.map entryText) = T
    have hw : wKvs (e :: rest) = writeEscapeStr e.key ++ 58 :: (e.w ++ T) := by
      unfold wKvs; rw [List.map_cons, joinElems_cons, hT]; simp [entryText]
    rw [hw]
    have hD : pre ++ (writeEscapeStr e.key ++ 58 :: (e.w ++ T)) ++ 125 :: k =
        pre ++ (c0 :: ws) ++ 58 :: (e.w ++ (T ++ 125 :: k)) := by rw [hK]; simp
    rw [hD]
    have hstep0 : s.step c0 = ({ s with st := st0 }, .beginLiteral) := by
      rw [step_key_start s hst c0 hsp h125]; exact hbeg s
    obtain ⟨h1, h2⟩ := tok_read_core c0 ws st0 stE hrun hend pre (58 :: (e.w ++ (T ++ 125 :: k)))
      (by simp [Delim, isAllowedInUnquotedString, isNumber, isUpper, isLower]) s hstep0 he ht o
    have hfin : finish s (58 :: (e.w ++ (T ++ 125 :: k))) =
        ({ s with stack := .compoundValue :: σ, st := .beginValue }, .compoundTagName) := stEndValue_colon s σ hstack
    rw [hfin] at h2
    simp only [show (Op.compoundTagName == Op.error) = false by decide, Bool.false_eq_true, if_false] at h2
    unfold compLoop
    dsimp only
    rw [h1]
    simp only [show (Op.beginLiteral == Op.endValue) = false by decide,
      show (Op.beginLiteral == Op.error) = false by decide,
      show (Op.beginLiteral != Op.beginLiteral) = false by decide, Bool.false_eq_true, if_false]
    rw [h2]
    dsimp only
    -- the name
    obtain ⟨q, rst, hq, hname⟩ := key_name fo e.key
    rw [hK] at hq
    injection hq with hq1 hq2
    subst hq1; subst hq2
    generalize hX : (ite ((c0 == 34 || c0 == 39) = true) _ _ : PRes Bytes) = X
    have hXe : X = .ok e.key := by
      by_cases hqq : (c0 == 34 || c0 == 39) = true
      · rw [if_pos hqq] at hX hname
        obtain ⟨t, ht'⟩ := hname
        rw [ht'] at hX; exact hX.symm
      · rw [if_neg hqq] at hX hname
        rw [← hX, hname]
    rw [hXe]
    dsimp only
    rw [if_neg (show ¬ e.key.length > maxStrLen by have := hkeys e (by simp); omega)]
    rw [skip_mk _ _ _ _ (by decide)]
    simp only [show (Op.compoundTagName == Op.error) = false by decide,
      show (Op.compoundTagName != Op.compoundTagName) = false by decide, Bool.false_eq_true, if_false]
    -- the value
    have hD2 : pre ++ (c0 :: ws) ++ 58 :: (e.w ++ (T ++ 125 :: k)) =
        (pre ++ (c0 :: ws) ++ [58]) ++ e.w ++ (T ++ 125 :: k) := by simp
    have hl2 : pre.length + (c0 :: ws).length + 1 = (pre ++ (c0 :: ws) ++ [58]).length := by
      simp [List.length_append]; omega
    have hTdelim : Delim (T ++ 125 :: k) := by rw [← hT]; exact
      (by cases rest.map entryText <;> simp [sepJoin, Delim, isAllowedInUnquotedString, isNumber, isUpper, isLower])
    -- what follows the value: `}` (last entry) or `,`
    cases rest with
    | nil =>
      simp only [List.map_nil, sepJoin] at hT
      subst hT
      simp only [List.nil_append] at hD2 hTdelim ⊢
      have hfin2 : finish ({ s with stack := .compoundValue :: σ, st := .beginValue } : Scanner) (125 :: k) =
          (pop { s with stack := .compoundValue :: σ, st := .beginValue }, .endValue) := by
        unfold finish; exact stEndValue_close_comp _ σ rfl
      have hval1 := hv (pre ++ (c0 :: ws) ++ [58]) (125 :: k)
        { s with stack := .compoundValue :: σ, st := .beginValue } .compoundTagName true e.key f rfl he ht
        (by simp only [List.length_cons]; omega) hTdelim (by rw [hfin2]; simp) (by simp at hf; omega)
      rw [hfin2] at hval1
      rw [hD2, hl2, hval1]
      dsimp only
      rw [skip_mk _ _ _ _ (by decide)]
      simp only [show (Op.endValue == Op.error) = false by decide, Bool.false_eq_true, if_false,
        beq_self_eq_true, if_true]
      have hD3 : (pre ++ (c0 :: ws) ++ [58]) ++ e.w ++ (125 :: k) =
          ((pre ++ (c0 :: ws) ++ [58]) ++ e.w ++ [125]) ++ k := by simp
      have hl3 : (pre ++ (c0 :: ws) ++ [58]).length + e.w.length + 1 =
          ((pre ++ (c0 :: ws) ++ [58]) ++ e.w ++ [125]).length := by simp [List.length_append]; omega
      have hnext := scanNext_after_pop { s with stack := .compoundValue :: σ, st := .beginValue } .compoundValue σ rfl
        he ht ((pre ++ (c0 :: ws) ++ [58]) ++ e.w ++ [125]) k .endValue
      rw [← hD3, ← hl3] at hnext
      rw [hnext]
      have hfin3 : finish ({ { s with stack := PS.compoundValue :: σ, st := St.beginValue } with stack := σ } : Scanner) k =
          finish { s with stack := σ } k := by
        have : ({ { s with stack := PS.compoundValue :: σ, st := St.beginValue } with stack := σ } : Scanner) =
            { { s with stack := σ } with st := .beginValue } := rfl
        rw [this, finish_st_irrel]
      rw [hfin3]
      congr 2
      · rw [hK]; simp [List.length_append]; omega
      · simp [encEntries, hdr, writeTag]
    | cons e' rest' =>
      have hT' : T = 44 :: wKvs (e' :: rest') := by
        rw [← hT]; simp [sepJoin, wKvs]
      subst hT'
      have hfin2 : finish ({ s with stack := .compoundValue :: σ, st := .beginValue } : Scanner)
            (44 :: wKvs (e' :: rest') ++ 125 :: k) =
          ({ s with stack := .compoundName :: σ, st := .beginString }, .compoundValue) := by
        simp only [List.cons_append]
        unfold finish; exact stEndValue_comma_comp _ σ rfl
      have hval1 := hv (pre ++ (c0 :: ws) ++ [58]) (44 :: wKvs (e' :: rest') ++ 125 :: k)
        { s with stack := .compoundValue :: σ, st := .beginValue } .compoundTagName true e.key f rfl he ht
        (by simp only [List.length_cons]; omega) hTdelim (by rw [hfin2]; simp) (by simp at hf; omega)
      rw [hfin2] at hval1
      rw [hD2, hl2, hval1]
      dsimp only
      rw [skip_mk _ _ _ _ (by decide)]
      simp only [show (Op.compoundValue == Op.error) = false by decide,
        show (Op.compoundValue == Op.endValue) = false by decide,
        show (Op.compoundValue != Op.compoundValue) = false by decide, Bool.false_eq_true, if_false]
      have hD3 : (pre ++ (c0 :: ws) ++ [58]) ++ e.w ++ (44 :: wKvs (e' :: rest') ++ 125 :: k) =
          ((pre ++ (c0 :: ws) ++ [58]) ++ e.w ++ [44]) ++ wKvs (e' :: rest') ++ 125 :: k := by simp
      have hl3 : (pre ++ (c0 :: ws) ++ [58]).length + e.w.length + 1 =
          ((pre ++ (c0 :: ws) ++ [58]) ++ e.w ++ [44]).length := by simp [List.length_append]; omega
      have hrec := ih (by simp) (fun x hx => hval x (by simp [hx])) (fun x hx => hkeys x (by simp [hx])) ((pre ++ (c0 :: ws) ++ [58]) ++ e.w ++ [44]) k
        { s with stack := .compoundName :: σ, st := .beginString } σ .compoundValue
        (acc ++ (hdr true e.tag e.key ++ e.payload)) f (Or.inr rfl) rfl he ht hdep (by simp at hf ⊢; omega)
      rw [← hD3, ← hl3] at hrec
      rw [hrec]
      have hfin3 : finish ({ { s with stack := PS.compoundName :: σ, st := St.beginString } with stack := σ } : Scanner) k =
          finish { s with stack := σ } k := by
        have : ({ { s with stack := PS.compoundName :: σ, st := St.beginString } with stack := σ } : Scanner) =
            { { s with stack := σ } with st := .beginString } := rfl
        rw [this, finish_st_irrel]
      rw [hfin3]
      congr 2
      · rw [hK]; simp [List.length_append]; omega
      · simp [encEntries, hdr, writeTag]



theorem stBeginValue_open_comp (s : Scanner) (h : s.stack.length ≤ maxNestingDepth) :
    stBeginValue s 123 = ({ s with st := .compoundOrEmpty, stack := .compoundName :: s.stack }, .beginCompound) := by
  unfold stBeginValue push
  simp [isSpace, h]

theorem step_ce_close (s : Scanner) (σ : List PS) (h : s.st = .compoundOrEmpty) (hs : s.stack = .compoundName :: σ) :
    s.step 125 = (pop { s with stack := .compoundValue :: σ }, .endValue) := by
  unfold Scanner.step; rw [h]; dsimp only
  unfold stCompoundOrEmpty
  simp only [show isSpace (125 : Byte) = false by decide, Bool.false_eq_true, if_false, beq_self_eq_true, if_true]
  rw [hs]
  exact stEndValue_close_comp _ σ rfl

/-- a compound whose values satisfy `ValSpec` satisfies it, one level deeper -/
theorem valSpec_compound (fo : FloatOracle) (dep need : Nat) (es : List Entry)
    (hval : ∀ e ∈ es, ValSpec fo e.w e.tag e.payload dep need) (hkeys : ∀ e ∈ es, e.key.length ≤ maxStrLen) :
    ValSpec fo ([123] ++ wKvs es ++ [125]) tagCompound (encEntries es ++ [0]) (dep + 1) (need + es.length + 2) := by
  intro pre k s o ifw name f hst he ht hdep _ _ hf
  obtain ⟨f, rfl⟩ : ∃ f', f = f' + 2 := ⟨f - 2, by omega⟩
  have hD : pre ++ ([123] ++ wKvs es ++ [125]) ++ k = pre ++ 123 :: (wKvs es ++ 125 :: k) := by simp
  rw [hD]
  have e0 : s.step 123 = ({ s with st := .compoundOrEmpty, stack := .compoundName :: s.stack }, .beginCompound) := by
    unfold Scanner.step; rw [hst]; exact stBeginValue_open_comp s (by omega)
  unfold writeValue
  dsimp only
  have hs1 : scanWhile .skipSpace (DState.mk (pre ++ 123 :: (wKvs es ++ 125 :: k)) pre.length o s) =
      DState.mk (pre ++ 123 :: (wKvs es ++ 125 :: k)) (pre.length + 1) .beginCompound
        { s with st := .compoundOrEmpty, stack := .compoundName :: s.stack } := by
    unfold scanWhile
    simp only [List.drop_left]
    rw [scanLoop_stop _ _ _ _ _ _ (by rw [e0]; simp), e0]
  rw [hs1]
  dsimp only
  have hD1 : pre ++ 123 :: (wKvs es ++ 125 :: k) = (pre ++ [123]) ++ wKvs es ++ 125 :: k := by simp
  have hl1 : pre.length + 1 = (pre ++ [123]).length := by simp
  have hfin : finish ({ { s with st := St.compoundOrEmpty, stack := PS.compoundName :: s.stack } with stack := s.stack } : Scanner) k =
      finish s k := by
    have : ({ { s with st := St.compoundOrEmpty, stack := PS.compoundName :: s.stack } with stack := s.stack } : Scanner) =
        { s with st := .compoundOrEmpty } := rfl
    rw [this, finish_st_irrel]
  cases hes : es with
  | nil =>
    subst hes
    simp only [wKvs, List.map_nil, joinElems, List.nil_append, List.append_nil, List.length_nil] at hD1 ⊢
    unfold compLoop
    dsimp only
    have e1 := step_ce_close { s with st := .compoundOrEmpty, stack := .compoundName :: s.stack } s.stack rfl rfl
    have hs2 : scanWhile .skipSpace (DState.mk (pre ++ 123 :: 125 :: k) (pre.length + 1) .beginCompound
          { s with st := .compoundOrEmpty, stack := .compoundName :: s.stack }) =
        DState.mk (pre ++ 123 :: 125 :: k) (pre.length + 2) .endValue
          (pop { s with st := .compoundOrEmpty, stack := .compoundValue :: s.stack }) := by
      unfold scanWhile
      dsimp only
      have : (pre ++ 123 :: 125 :: k).drop (pre.length + 1) = 125 :: k := by
        have : pre ++ 123 :: 125 :: k = (pre ++ [123]) ++ 125 :: k := by simp
        rw [this, hl1, List.drop_left]
      rw [this, scanLoop_stop _ _ _ _ _ _ (by rw [e1]; simp), e1]
    rw [hs2]
    simp only [beq_self_eq_true, if_true]
    have hD2 : pre ++ 123 :: 125 :: k = (pre ++ [123, 125]) ++ k := by simp
    have hl2 : pre.length + 2 = (pre ++ [123, 125]).length := by simp
    have hnext := scanNext_after_pop { s with st := .compoundOrEmpty, stack := .compoundValue :: s.stack }
      .compoundValue s.stack rfl he ht (pre ++ [123, 125]) k .endValue
    rw [← hD2, ← hl2] at hnext
    rw [hnext]
    have hfin' : finish ({ { s with st := St.compoundOrEmpty, stack := PS.compoundValue :: s.stack } with stack := s.stack } : Scanner) k =
        finish s k := by
      have : ({ { s with st := St.compoundOrEmpty, stack := PS.compoundValue :: s.stack } with stack := s.stack } : Scanner) =
          { s with st := .compoundOrEmpty } := rfl
      rw [this, finish_st_irrel]
    rw [hfin']
    simp [encEntries]
  | cons e0' rest0 =>
    rw [← hes]
    have hspec := compLoop_spec fo dep need es (by rw [hes]; simp) hval hkeys (pre ++ [123]) k
      { s with st := .compoundOrEmpty, stack := .compoundName :: s.stack } s.stack .beginCompound [] (f + 1)
      (Or.inl rfl) rfl he ht (by omega) (by omega)
    rw [← hD1, ← hl1, hfin] at hspec
    rw [hspec]
    dsimp only
    congr 2
    · simp [List.length_append]; omega



/-- a typed array is a value -/
theorem valSpec_array (fo : FloatOracle) (t : NBT) (w : Bytes) (hw : arrayText t = some w) :
    ValSpec fo w t.tag (encPayload t) 1 (w.length + 3) := by
  intro pre k s o ifw name f hst he ht hdep _ _ hf
  cases t with
  | byteArray xs =>
    simp only [arrayText, Option.some.injEq] at hw; subst hw
    have h := array_value fo 66 tagByte tagByteArray (Or.inl ⟨rfl, rfl, rfl⟩)
      (xs.map fun x => (formatInt x.toInt ++ [66], [x]))
      (by intro e he; simp only [List.mem_map] at he; obtain ⟨x, _, rfl⟩ := he; exact arrEl_byte fo x)
      pre k s o ifw name f hst he ht (by omega)
      (by
        have := joinElems_length_ge (xs.map fun x => formatInt x.toInt ++ [66])
        simp only [List.length_map] at this ⊢
        simp only [List.length_append, List.length_cons, List.length_nil] at hf
        omega)
    simp only [List.map_map, Function.comp_def] at h
    rw [h]
    simp [encPayload, flatten_singletons, NBT.tag, NBT.tagByteArray, tagByteArray]
  | intArray xs =>
    simp only [arrayText, Option.some.injEq] at hw; subst hw
    have h := array_value fo 73 tagInt tagIntArray (Or.inr (Or.inl ⟨rfl, rfl, rfl⟩))
      (xs.map fun x => (formatInt x.toInt ++ [73], be32 x))
      (by intro e he; simp only [List.mem_map] at he; obtain ⟨x, _, rfl⟩ := he; exact arrEl_int fo x)
      pre k s o ifw name f hst he ht (by omega)
      (by
        have := joinElems_length_ge (xs.map fun x => formatInt x.toInt ++ [73])
        simp only [List.length_map] at this ⊢
        simp only [List.length_append, List.length_cons, List.length_nil] at hf
        omega)
    simp only [List.map_map, Function.comp_def] at h
    rw [h]
    simp [encPayload, NBT.tag, NBT.tagIntArray, tagIntArray]
  | longArray xs =>
    simp only [arrayText, Option.some.injEq] at hw; subst hw
    have h := array_value fo 76 tagLong tagLongArray (Or.inr (Or.inr ⟨rfl, rfl, rfl⟩))
      (xs.map fun x => (formatInt x.toInt ++ [76], be64 x))
      (by intro e he; simp only [List.mem_map] at he; obtain ⟨x, _, rfl⟩ := he; exact arrEl_long fo x)
      pre k s o ifw name f hst he ht (by omega)
      (by
        have := joinElems_length_ge (xs.map fun x => formatInt x.toInt ++ [76])
        simp only [List.length_map] at this ⊢
        simp only [List.length_append, List.length_cons, List.length_nil] at hf
        omega)
    simp only [List.map_map, Function.comp_def] at h
    rw [h]
    simp [encPayload, NBT.tag, NBT.tagLongArray, tagLongArray]
  | _ => simp [arrayText] at hw

theorem ValSpec.mono {fo : FloatOracle} {w : Bytes} {tag : Byte} {payload : Bytes} {dep need dep' need' : Nat}
    (h : ValSpec fo w tag payload dep need) (hd : dep ≤ dep') (hn : need ≤ need') :
    ValSpec fo w tag payload dep' need' := by
  intro pre k s o ifw name f hst he ht hdep hk hfin hf
  exact h pre k s o ifw name f hst he ht (by omega) hk hfin (by omega)

/-- a value text that is the whole input: `MarshalNBT` returns its payload -/
theorem marshal_of_valSpec (fo : FloatOracle) (w : Bytes) (tag : Byte) (payload : Bytes) (dep need : Nat)
    (h : ValSpec fo w tag payload dep need) (hd : dep ≤ maxNestingDepth + 1) (hn : need ≤ parseFuel w) :
    marshal fo w = .ok payload := by
  apply marshal_of_writeValue
  have := h [] [] Scanner.reset .cont false [] (parseFuel w) rfl rfl rfl (by simp [Scanner.reset]; omega) trivial
    (by rw [finish_reset_nil]; simp) hn
  simpa [hdr] using this

end GoMC.Model.SNBT
