import GoMC.Lemmas.SNBTSimList
namespace GoMC.Model.SNBT
open GoMC Scanner DState Spec
open GoMC.Spec.SNBT (isWs isDigit isLetter isTokenByte skipWs spanToken spanDigits digitsVal stripSign inRange lower
  classify readQuoted readKey arrayElem mkArray readArrayElems readValue readEntries readElems FloatSem Tok)

/-! ### `writeListOrArray` -/

/-- the `list` production, given the reading of its elements -/
theorem readValue_list (fs : FloatSem) (B : Nat) (cs cs' : Bytes) (c' : Byte) (hsk : skipWs cs = c' :: cs')
    (h93 : (c' == 93) = false)
    (harr : ((c' == 66 || c' == 73 || c' == 76) && cs'.head? == some 59) = false)
    (xs : List NBT) (u : Bool) (r : Bytes)
    (hre : ∀ F', B ≤ F' → readElems fs F' cs [] false = some (xs, u, r)) (hne : xs ≠ [])
    (htags : u = false → ∃ e, ∀ x ∈ xs, x.tag = e) :
    ∃ x', (∀ F', B ≤ F' → readValue fs (F' + 1) (91 :: cs) = some (x', u, r)) ∧
      (u = false → ∃ e, (∀ x ∈ xs, x.tag = e) ∧ x' = .list e xs) := by
  cases xs with
  | nil => exact absurd rfl hne
  | cons x0 rest =>
    have key : ∀ F', B ≤ F' → readValue fs (F' + 1) (91 :: cs) =
        (if u = true then some (NBT.list x0.tag (x0 :: rest), true, r)
         else if ((x0 :: rest).all fun y => y.tag == x0.tag) = true then some (NBT.list x0.tag (x0 :: rest), false, r)
         else none) := by
      intro F' hF'
      unfold readValue
      rw [skipWs_cons 91 _ (by decide)]
      simp only [show ((91 : Byte) == 123) = false by decide, show ((91 : Byte) == 91) = true by decide,
        Bool.false_eq_true, if_false, if_true]
      rw [hsk]
      simp only [h93, harr, Bool.false_eq_true, if_false, hre F' hF']
    cases u with
    | true =>
      refine ⟨.list x0.tag (x0 :: rest), fun F' hF' => ?_, (by intro h; cases h)⟩
      rw [key F' hF']; simp
    | false =>
      obtain ⟨e, he⟩ := htags rfl
      have hall : ((x0 :: rest).all fun y => y.tag == x0.tag) = true := by
        rw [List.all_eq_true]
        intro y hy
        rw [he y hy, he x0 (by simp)]; simp
      refine ⟨.list x0.tag (x0 :: rest), fun F' hF' => ?_, fun _ => ⟨e, he, by rw [he x0 (by simp)]⟩⟩
      rw [key F' hF']; simp [hall]

/-- the `array` production: empty -/
theorem readValue_array_empty (fs : FloatSem) (F' : Nat) (cs rest r' : Bytes) (c : Byte)
    (hsk : skipWs cs = c :: 59 :: rest) (hbil : (c == 66 || c == 73 || c == 76) = true)
    (hr : skipWs rest = 93 :: r') :
    readValue fs (F' + 1) (91 :: cs) = some (mkArray c [], false, r') := by
  have h93 : (c == 93) = false := by
    have : ∀ n : Fin (2^8), (let c : Byte := BitVec.ofFin n; (c == 66 || c == 73 || c == 76) = true → (c == 93) = false) := by
      decide +kernel
    exact this c.toFin hbil
  unfold readValue
  rw [skipWs_cons 91 _ (by decide)]
  simp only [show ((91 : Byte) == 123) = false by decide, show ((91 : Byte) == 91) = true by decide,
    Bool.false_eq_true, if_false, if_true]
  rw [hsk]
  simp only [h93, hbil, List.head?_cons, beq_self_eq_true, Bool.and_self, Bool.false_eq_true, if_false, if_true,
    List.drop_succ_cons, List.drop_zero, hr]

/-- the `array` production: with elements -/
theorem readValue_array_elems (fs : FloatSem) (F' : Nat) (cs rest r' : Bytes) (c c'' : Byte)
    (hsk : skipWs cs = c :: 59 :: rest) (hbil : (c == 66 || c == 73 || c == 76) = true)
    (hr : skipWs rest = c'' :: r') (hc : (c'' == 93) = false) (xs : List Int) (u : Bool) (r : Bytes)
    (hre : readArrayElems c ((c'' :: r').length + 1) (c'' :: r') [] false = some (xs, u, r)) :
    readValue fs (F' + 1) (91 :: cs) = some (mkArray c xs, u, r) := by
  have h93 : (c == 93) = false := by
    have : ∀ n : Fin (2^8), (let c : Byte := BitVec.ofFin n; (c == 66 || c == 73 || c == 76) = true → (c == 93) = false) := by
      decide +kernel
    exact this c.toFin hbil
  unfold readValue
  rw [skipWs_cons 91 _ (by decide)]
  simp only [show ((91 : Byte) == 123) = false by decide, show ((91 : Byte) == 91) = true by decide,
    Bool.false_eq_true, if_false, if_true]
  rw [hsk]
  simp only [h93, hbil, List.head?_cons, beq_self_eq_true, Bool.and_self, Bool.false_eq_true, if_false, if_true,
    List.drop_succ_cons, List.drop_zero, hr, hc, hre, Option.map_some]

theorem list_enc (e : Byte) (xs : List NBT) : encPayload (.list e xs) = listHeader e xs.length ++ encList xs := by
  simp [encPayload, listHeader]

/-- a literal that did not turn out to be an array prefix was followed by white space, `,` or `]` -/
theorem LitOk_afterV (σ : List PS) (d : DState) (h : d.At (fun s o _ => LitOk true (.listValue :: σ) s o))
    (hne : d.opcode ≠ .listType) : AfterV (.listValue :: σ) d := by
  obtain ⟨hg, ho, ob, hp, h1, h2⟩ := h
  refine ⟨hg, ho, ob, ?_, h1, h2⟩
  rcases hp with hp | hp | ⟨_, e, _⟩
  · exact Or.inl hp
  · exact Or.inr (Or.inr hp)
  · exact absurd e hne


theorem SimWL_step (fs : FloatSem) (f : Nat) (hLL : SimLL fs f) (hCLL : SimCLL fs f) : SimWL fs (f + 1) := by
  intro d σ ifw name d' t out hla hg hlen hrun
  unfold writeListOrArray at hrun
  dsimp only at hrun
  have h1 := skipLA σ d hla hg
  obtain ⟨t1, t2, t3⟩ := skipSpace_text d (Or.inr (Or.inr (Or.inr (Or.inl hla.1)))) hg hlen
  have hch := skipLA_char σ d hla hg
  have heof := scanWhile_eof_op .skipSpace d hg
  generalize scanWhile .skipSpace d = d1 at *
  have h1' := h1
  obtain ⟨hg1, ho1, ob, hp, hb1, hb2⟩ := h1
  have hl1 : d1.pend.length ≤ d.next.length := by
    have := skipWs_length_le d.next
    rw [t2] at this; exact this
  -- the pending byte, when the opcode is not `error` / `end`
  have hpend : d1.opcode ≠ .error → d1.opcode ≠ .end_ →
      ∃ c, d1.pend = c :: d1.next ∧ d1.off ≤ d1.data.length ∧ 1 ≤ d1.off ∧ ElemRel d1.opcode c := by
    intro n1 n2
    obtain ⟨ob', _, hcase⟩ := at_pend h1'
    rcases hcase with ⟨c, _, hpe, hle, h1o⟩ | ⟨_, hpe, _, _⟩
    · exact ⟨c, hpe, hle, h1o, hch c _ hpe⟩
    · rcases heof hpe with h | h
      · exact absurd h n1
      · exact absurd h n2
  -- the common shape of the results that end with `scanNext` after `]`
  have hfinish : ∀ (d4 : DState), ListClosed σ d4 → d4.data = d.data → d1.off ≤ d4.off → d4.off ≤ d.data.length →
      Adv2 d d4.scanNext ∧ ExitRel σ d4.scanNext ∧ d4.scanNext.pend = d4.next := by
    intro d4 hcl hdd h14 hle4
    obtain ⟨n1, n2, n3, n4, n5⟩ := scanNext_text d4 hcl.2.1
    have hn3 := n3 (by rw [hdd]; exact hle4)
    exact ⟨⟨by rw [n1, hdd], by omega, n5, by rw [← hdd]; exact n4⟩, nextPopped_exit σ d4 hcl, n2⟩
  by_cases hend : d1.opcode = .endValue
  · -- `[]`
    rw [if_pos (by simp [hend])] at hrun
    injection hrun with hrun
    injection hrun with e1 e2
    injection e2 with e2 e3
    subst e1; subst e2
    obtain ⟨c, hpe, hle, h1o, hrel⟩ := hpend (by rw [hend]; simp) (by rw [hend]; simp)
    have hc : c = 93 := hrel.2 hend
    subst hc
    have hpop : Popped σ d1.scan := by
      rcases hp with e | ⟨_, hpop⟩ | hb
      · rw [hend] at e; cases e
      · exact hpop
      · exact absurd hend (BVOk_ne_endValue hb)
    obtain ⟨hadv, hex, hpn⟩ := hfinish d1 (closed_of hg1 ho1 ob hend hpop hb1 hb2) t1 (Nat.le_refl _)
      (by rw [← t1]; exact hle)
    refine ⟨hadv, hex, fun _ => ⟨.list 0 [], false, fun F hF => ?_, fun _ => ⟨rfl, ?_⟩⟩⟩
    · obtain ⟨F', rfl⟩ : ∃ F', F = F' + 1 := ⟨F - 1, by omega⟩
      unfold readValue
      rw [skipWs_cons 91 _ (by decide)]
      simp only [show ((91 : Byte) == 123) = false by decide, show ((91 : Byte) == 91) = true by decide,
        Bool.false_eq_true, if_false, if_true]
      rw [t2, hpe]
      simp only [beq_self_eq_true, if_true]
      rw [hpn]
    · rw [← e3]; simp [encPayload, encList, listHeader, NBT.tag, NBT.tagList, tagList]
  · rw [if_neg (by simp [hend])] at hrun
    have hp' : d1.opcode = .error ∨ BVOk true (.listValue :: σ) d1.scan d1.opcode ob := by
      rcases hp with e | ⟨e, _⟩ | hb
      · exact Or.inl e
      · exact absurd e hend
      · exact Or.inr hb
    -- what the element loops need about `d1`
    have hpos : d1.opcode ≠ .skipSpace → ElemPos d.next d1 (skip d1) := by
      intro hns
      have hsk : skip d1 = d1 := by unfold skip; simp [hns]
      rw [hsk]
      exact ⟨rfl, Nat.le_refl _, t2, hl1, fun x k hx => (hch x k hx).1, heof⟩
    rcases hp' with e | ⟨e, hl⟩ | ⟨e, hce⟩ | ⟨e, hla'⟩
    · rw [e] at hrun; cases hrun
    · -- a literal: a list of literals, or the prefix of a typed array
      rw [e] at hrun; dsimp only at hrun
      obtain ⟨c, hob, hl⟩ := hl
      obtain ⟨hc1, hc2⟩ := hb1 c hob
      obtain ⟨hpe1, hle1⟩ := pend_of_some d1 c hc1 hc2
      have hcore := readLiteral_core true (.listValue :: σ) d1 c hl hg1 hc1 hc2
      cases hr : readLiteral d1 with
      | err => rw [hr] at hrun; cases hrun
      | panic => rw [hr] at hrun; cases hrun
      | fuel => rw [hr] at hrun; cases hrun
      | ok p =>
        obtain ⟨d2, lit⟩ := p
        have hexit2 := readLiteral_exit true (.listValue :: σ) d1 c hl hg1 hc1 hc2 d2 lit hr
        rw [hr] at hrun hcore
        dsimp only at hrun hcore
        obtain ⟨hdone, hat2, hdata2, hsplit, hprog2, hend2, hwsr2, hlt2, _⟩ := hcore
        have hpend2 : d2.pend = d1.data.drop (d2.off - 1) := by unfold DState.pend; rw [hdata2]
        have htok : TokEnd d2.pend := by
          rw [hpend2]
          cases hk' : d1.data.drop (d2.off - 1) with
          | nil => trivial
          | cons x k => exact hend2 (Or.inl (by simp)) x k hk'
        have hsplit' : d1.pend = lit ++ d2.pend := by unfold DState.pend; rw [hdata2]; exact hsplit
        have hdd2 : d2.data = d.data := by rw [hdata2, t1]
        -- the first byte of the literal
        have hc93 : (c == 93) = false := by
          rcases hl.2.2 with ⟨_, hc⟩ | ⟨_, hc⟩ | ⟨_, hc⟩
          · rw [hc]; decide
          · rw [hc]; decide
          · exact (allowed_facts c hc).2.1
        have hlitc : ∃ rest, lit = c :: rest := by
          cases lit with
          | nil => have := hdone.shape; simp [LitShape] at this
          | cons a rest =>
            rw [hpe1] at hsplit'
            injection hsplit' with h1 _
            exact ⟨rest, by rw [h1]⟩
        obtain ⟨lrest, hlit⟩ := hlitc
        by_cases hty : d2.opcode = .listType
        · -- the prefix of a typed array
          have hsk2 : skip d2 = d2 := by unfold skip; simp [hty]
          rw [hsk2] at hrun
          rw [if_neg (by simp [hty]), if_pos (by simp [hty])] at hrun
          obtain ⟨hl1', h59⟩ := hlt2 hty
          have hlit1 : lit = [c] := by
            rw [hlit] at hl1' ⊢
            cases lrest with
            | nil => rfl
            | cons _ _ => simp at hl1'
          have hat : AT σ d2.scan := by
            obtain ⟨_, _, _, hp2, _, _⟩ := hat2
            rcases hp2 with ⟨a, _⟩ | hp2 | ⟨_, _, r, hr', hat⟩
            · rw [hty] at a; cases a
            · exfalso
              rcases EndOk_list hp2 with ⟨a, _⟩ | ⟨a, _⟩ <;> rw [hty] at a <;> cases a
            · have : r = σ := by injection hr' with _ h; exact h.symm
              subst this; exact hat
          have hpe2 : d2.pend = 59 :: d2.next ∧ d2.off ≤ d2.data.length ∧ 1 ≤ d2.off := by
            obtain ⟨c2, q1, q2, q3, _⟩ := exit_delim (.listValue :: σ) d2 hat2 hexit2 (by rw [hty]; simp) (by rw [hty]; simp)
            have hx : c2 = 59 := h59 c2 _ (by rw [← hpend2]; exact q1)
            subst hx
            exact ⟨q1, q2, q3⟩
          obtain ⟨hg2, ho2, _⟩ := hat2
          -- the text: `[ ws* X ; …`
          have hsk : skipWs d.next = c :: 59 :: d2.next := by
            rw [t2, hsplit', hlit1, hpe2.1]; rfl
          -- `writeArray`
          have hw : ∀ (tt : Byte), (c == 66 || c == 73 || c == 76) = true →
              tt = (if c == 66 then tagByteArray else if c == 73 then tagIntArray else tagLongArray) →
              (match writeArray (semOracle fs) f d2 (arrTag c) with
               | .err => (.err : PRes (DState × Byte × Bytes)) | .panic => .panic | .fuel => .fuel
               | .ok (d, out) => .ok (scanNext d, tt, hdr ifw tt name ++ out)) =
                .ok (d', t, out) →
              Adv2 d d' ∧ ExitRel σ d' ∧ ((σ = [] → TokEnd d'.pend) →
              ∃ x u, (∀ F, d'.off - d.off + 1 ≤ F → readValue fs F (91 :: d.next) = some (x, u, d'.pend)) ∧
                (u = false → t = x.tag ∧ out = hdr ifw x.tag name ++ encPayload x)) := by
            intro tt hbil htt hrun
            have hk : c = 66 ∨ c = 73 ∨ c = 76 := by
              rcases Bool.or_eq_true _ _ |>.mp hbil with h | h
              · rcases Bool.or_eq_true _ _ |>.mp h with h | h
                · exact Or.inl (eq_of_beq h)
                · exact Or.inr (Or.inl (eq_of_beq h))
              · exact Or.inr (Or.inr (eq_of_beq h))
            unfold writeArray at hrun
            rw [hsk2] at hrun
            dsimp only at hrun
            have h5 := skipAT σ d2 hat hg2
            obtain ⟨t51, t52, t53⟩ := skipSpace_text d2 (Or.inr (Or.inr (Or.inr (Or.inr (Or.inl hat.1))))) hg2 hpe2.2.1
            have hch5 := skipAT_char σ d2 hat hg2
            have heof5 := scanWhile_eof_op .skipSpace d2 hg2
            generalize scanWhile .skipSpace d2 = d5 at *
            have h5' := h5
            obtain ⟨hg5, ho5, ob5, hp5, hb51, hb52⟩ := h5
            have hdd5 : d5.data = d.data := by rw [t51, hdd2]
            have hpend5 : d5.opcode ≠ .error → d5.opcode ≠ .end_ →
                ∃ c5, d5.pend = c5 :: d5.next ∧ d5.off ≤ d5.data.length ∧ 1 ≤ d5.off ∧ ElemRel d5.opcode c5 := by
              intro n1 n2
              obtain ⟨ob', _, hcase⟩ := at_pend h5'
              rcases hcase with ⟨c5, _, hpe, hle, h1o⟩ | ⟨_, hpe, _, _⟩
              · exact ⟨c5, hpe, hle, h1o, hch5 c5 _ hpe⟩
              · rcases heof5 hpe with h | h
                · exact absurd h n1
                · exact absurd h n2
            have htag : ∀ xs, (mkArray c xs).tag = tt := by
              intro xs; rw [mkArray_tag c hk xs, htt]
            by_cases e5 : d5.opcode = .endValue
            · -- `[X;]`
              rw [if_pos (by simp [e5])] at hrun
              dsimp only at hrun
              injection hrun with hrun
              injection hrun with e1 e2
              injection e2 with e2 e3
              subst e1
              obtain ⟨c5, hpe5, hle5, h1o5, hrel5⟩ := hpend5 (by rw [e5]; simp) (by rw [e5]; simp)
              have hc5 : c5 = 93 := hrel5.2 e5
              subst hc5
              have hpop : Popped σ d5.scan := by
                rcases hp5 with e' | ⟨_, hpop⟩ | hb
                · rw [e5] at e'; cases e'
                · exact hpop
                · exact absurd e5 (BVOk_ne_endValue hb)
              obtain ⟨hadv, hex, hpn⟩ := hfinish d5 (closed_of hg5 ho5 ob5 e5 hpop hb51 hb52) hdd5 (by omega)
                (by rw [← hdd5]; exact hle5)
              refine ⟨hadv, hex, fun _ => ⟨mkArray c [], false, fun F hF => ?_, fun _ => ⟨by rw [htag, ← e2], ?_⟩⟩⟩
              · obtain ⟨F', rfl⟩ : ∃ F', F = F' + 1 := ⟨F - 1, by omega⟩
                rw [hpn]
                exact readValue_array_empty fs F' d.next d2.next d5.next c hsk hbil (by rw [t52, hpe5])
              · rw [← e3, htag, mkArray_enc]
                simp [arrBytes]
            · -- elements
              rw [if_neg (by simp [e5])] at hrun
              cases hr5 : arrayLoop (semOracle fs) (arrTag c) f d5 0 [] with
              | err => rw [hr5] at hrun; cases hrun
              | panic => rw [hr5] at hrun; cases hrun
              | fuel => rw [hr5] at hrun; cases hrun
              | ok p5 =>
                obtain ⟨d4, out'⟩ := p5
                rw [hr5] at hrun
                dsimp only at hrun
                injection hrun with hrun
                injection hrun with e1 e2
                injection e2 with e2 e3
                subst e1
                have hat5 : d5.At (fun s o ob => (o = .skipSpace ∧ BV (.listValue :: σ) s) ∨ o = .error ∨
                    BVOk false (.listValue :: σ) s o ob) := by
                  refine ⟨hg5, ho5, ob5, ?_, hb51, hb52⟩
                  rcases hp5 with h | ⟨a, _⟩ | h
                  · exact Or.inr (Or.inl h)
                  · exact absurd a e5
                  · exact Or.inr (Or.inr h)
                have hns5 : d5.opcode ≠ .skipSpace := by
                  rcases hp5 with h | ⟨a, _⟩ | h
                  · rw [h]; simp
                  · exact absurd a e5
                  · exact ns_of_BVOk (Or.inr h)
                obtain ⟨r1, r2, r3, r4, r5, ⟨c'', k'', hhd, hc''⟩, xs, u, hrd, hout⟩ :=
                  simArr fs c hk f d5 σ 0 [] d4 out' d5.pend [] false hat5 hns5
                    (by rw [← t52, skipWs_idem]) hr5 (by intro _; exact ⟨rfl, by unfold arrBytes; simp⟩)
                have hfix : skipWs d5.pend = d5.pend := by rw [← t52, skipWs_idem]
                rw [hfix] at hhd
                obtain ⟨hadv, hex, hpn⟩ := hfinish d4 r5 (by rw [r1, hdd5]) (by omega) (by rw [← hdd5]; exact r3)
                refine ⟨hadv, hex, fun _ => ⟨mkArray c xs, u, fun F hF => ?_, fun hu => ⟨by rw [htag, ← e2], ?_⟩⟩⟩
                · obtain ⟨F', rfl⟩ : ∃ F', F = F' + 1 := ⟨F - 1, by omega⟩
                  rw [hpn]
                  refine readValue_array_elems fs F' d.next d2.next k'' c c'' hsk hbil (by rw [t52, hhd]) hc'' xs u d4.next ?_
                  have := hrd ((c'' :: k'').length + 1) (by rw [hhd]; exact Nat.le_refl _)
                  rw [hhd] at this
                  simpa using this
                · rw [← e3, htag, mkArray_enc, hout (by simpa using hu)]
                  simp
          -- the three prefixes
          rw [hlit] at hrun
          dsimp only at hrun
          by_cases c1 : (c == 66) = true
          · have hc66 : c = 66 := eq_of_beq c1
            subst hc66
            simp only [beq_self_eq_true, if_true] at hrun
            exact hw tagByteArray (by decide) rfl hrun
          · by_cases c2 : (c == 73) = true
            · have hc73 : c = 73 := eq_of_beq c2
              subst hc73
              simp only [show ((73 : Byte) == 66) = false by decide, beq_self_eq_true, if_true, Bool.false_eq_true,
                if_false] at hrun
              exact hw tagIntArray (by decide) rfl hrun
            · by_cases c3 : (c == 76) = true
              · have hc76 : c = 76 := eq_of_beq c3
                subst hc76
                simp only [show ((76 : Byte) == 66) = false by decide, show ((76 : Byte) == 73) = false by decide,
                  beq_self_eq_true, if_true, Bool.false_eq_true, if_false] at hrun
                exact hw tagLongArray (by decide) rfl hrun
              · simp only [c1, c2, c3, Bool.false_eq_true, if_false] at hrun
                cases hrun
        · -- a list of literals
          have hav2 : AfterV (.listValue :: σ) d2 := LitOk_afterV σ d2 hat2 hty
          -- the byte after the literal is not `;`
          have hno59 : ∀ x k, d2.pend = x :: k → (x == 59) = false := by
            intro x k hx
            have hw := hwsr2 x k (by rw [← hpend2]; exact hx)
            obtain ⟨_, _, _, hp2, _, _⟩ := hat2
            rcases hp2 with ⟨a, _⟩ | hp2 | ⟨_, a, _⟩
            · have := hw.1 a
              have h : ∀ n : Fin (2^8), (let c : Byte := BitVec.ofFin n; isSpace c = true → (c == 59) = false) := by
                decide +kernel
              exact h x.toFin this
            · rcases EndOk_list hp2 with ⟨a, _⟩ | ⟨a, _⟩
              · rw [hw.2.2.2.2.1 a]; decide
              · rcases hw.2.2.2.2.2 a with ⟨_, _, hc⟩ | ⟨_, _, hc⟩ <;> rw [hc] <;> decide
            · exact absurd a hty
          have h3 := skipAfterV _ _ hav2
          obtain ⟨s1, s2, s3, hexit3⟩ := skip_text (.listValue :: σ) d2 (by simp) hav2 hexit2
          generalize skip d2 = d3 at *
          have h3' := h3
          obtain ⟨hg3, ho3, ob3, hp3, hb31, hb32⟩ := h3
          rcases hp3 with e3 | hend3
          · rw [if_pos (by simp [e3])] at hrun; cases hrun
          have hops : d3.opcode ≠ .error ∧ d3.opcode ≠ .listType ∧ (d3.opcode = .listValue ∨ d3.opcode = .endValue) := by
            rcases EndOk_list hend3 with ⟨a, _⟩ | ⟨a, _⟩ <;> rw [a] <;> simp
          rw [if_neg (by simp [hops.1]), if_neg (by simp [hops.2.1])] at hrun
          have hnp : (d3.opcode != .listValue && d3.opcode != .endValue) = false := by
            rcases hops.2.2 with a | a <;> rw [a] <;> simp
          rw [if_neg (by simp [hnp])] at hrun
          cases hr4 : litListLoop (semOracle fs) f d3 lit 0 0 [] with
          | err => rw [hr4] at hrun; cases hrun
          | panic => rw [hr4] at hrun; cases hrun
          | fuel => rw [hr4] at hrun; cases hrun
          | ok p4 =>
            obtain ⟨d4, out'⟩ := p4
            rw [hr4] at hrun
            dsimp only at hrun
            injection hrun with hrun
            injection hrun with e1 e2
            injection e2 with e2 e3'
            subst e1; subst e2
            have hdd3 : d3.data = d.data := by rw [s1, hdd2]
            obtain ⟨r1, r2, r3, r4, r5, r6, xs, u, hne, hrd, hout⟩ :=
              simLit fs f d3 σ lit 0 0 [] d4 out' d2.pend [] false hdone htok (by rw [← s2, skipWs_idem])
                (by have := skipWs_length_le d2.pend; rw [s2] at this; exact this)
                (h3'.mono (fun s o _ hp => Or.inr hp)) hexit3 hr4 (by intro _; exact ⟨rfl, rfl, by simp⟩)
            obtain ⟨hadv, hex, hpn⟩ := hfinish d4 r5 (by rw [r1, hdd3]) (by omega) (by rw [← hdd3]; exact r3)
            have hoff' : d4.scanNext.off = d4.off + 1 := by
              obtain ⟨_, _, n3, _, _⟩ := scanNext_text d4 r5.2.1
              have := n3 (by rw [r1]; exact r3)
              omega
            have hskd : skipWs d.next = c :: (lrest ++ d2.pend) := by rw [t2, hsplit', hlit]; rfl
            have harr : ((c == 66 || c == 73 || c == 76) && (lrest ++ d2.pend).head? == some 59) = false := by
              by_cases hbil : (c == 66 || c == 73 || c == 76) = true
              · rw [hbil, Bool.true_and]
                cases lrest with
                | nil =>
                  simp only [List.nil_append]
                  cases hp2 : d2.pend with
                  | nil => simp
                  | cons x k =>
                    have := hno59 x k hp2
                    simp only [List.head?_cons]
                    rw [Bool.eq_false_iff]; intro h
                    simp only [beq_iff_eq, Option.some.injEq] at h
                    rw [h] at this; revert this; decide
                | cons a rest' =>
                  have ha : isAllowedInUnquotedString a = true := by
                    rcases hdone with ⟨_, hall⟩ | ⟨q', body, r', hq, hl', _⟩
                    · exact hall a (by rw [hlit]; simp)
                    · exfalso
                      rw [hlit] at hl'
                      injection hl' with hq' _
                      rw [hq'] at hbil
                      rcases hq with e' | e' <;> subst e' <;> revert hbil <;> decide
                  have := (allowed_facts a ha).2.2.2.1
                  simp only [List.cons_append, List.head?_cons]
                  rw [Bool.eq_false_iff]; intro h
                  simp only [beq_iff_eq, Option.some.injEq] at h
                  rw [h] at this; revert this; decide
              · have hb' : (c == 66 || c == 73 || c == 76) = false := by simpa using hbil
                rw [hb', Bool.false_and]
            have hnl4 := next_length d4
            rw [r1, hdd3] at hnl4
            have hpl1 := pend_length d1 ho1 hc1
            rw [t1] at hpl1
            have hlsum : (lit ++ d2.pend).length = d1.pend.length := by rw [hsplit']
            obtain ⟨x', hrv, hx'⟩ := readValue_list fs (d4.off - d.off + 1) d.next (lrest ++ d2.pend) c hskd hc93 harr
              xs u d4.next (fun F' hF' => by
                rw [readElems_skip fs F' d.next (lit ++ d2.pend) [] false (by rw [t2, hsplit'])]
                have := hrd F' (by rw [hlsum, hpl1, hnl4]; rw [hdd3] at r3; omega)
                simpa using this) hne (fun hu => by
                obtain ⟨e', he', _⟩ := hout (by simpa using hu)
                exact ⟨e', by simpa using he'⟩)
            refine ⟨hadv, hex, fun _ => ⟨x', u, fun F hF => ?_, fun hu => ?_⟩⟩
            · obtain ⟨F', rfl⟩ : ∃ F', F = F' + 1 := ⟨F - 1, by omega⟩
              rw [hpn]
              exact hrv F' (by omega)
            · obtain ⟨e', he', hx''⟩ := hx' hu
              obtain ⟨e'', he'', hout'⟩ := hout (by simpa using hu)
              have hee : e'' = e' := by
                cases xs with
                | nil => exact absurd rfl hne
                | cons x0 _ => rw [← he'' x0 (by simp), ← he' x0 (by simp)]
              refine ⟨by rw [hx'']; rfl, ?_⟩
              rw [← e3', hout', hx'', list_enc, hee]
              simp [NBT.tag, NBT.tagList, tagList]
    · -- a list of compounds
      rw [e] at hrun; dsimp only at hrun
      obtain ⟨c, hpe, hle, h1o, hrel⟩ := hpend (by rw [e]; simp) (by rw [e]; simp)
      have hc : c = 123 := hrel.1.1 e
      subst hc
      cases hr : compListLoop (semOracle fs) f d1 0 [] with
      | err => rw [hr] at hrun; cases hrun
      | panic => rw [hr] at hrun; cases hrun
      | fuel => rw [hr] at hrun; cases hrun
      | ok p =>
        obtain ⟨d4, out'⟩ := p
        rw [hr] at hrun
        dsimp only at hrun
        injection hrun with hrun
        injection hrun with e1 e2
        injection e2 with e2 e3
        subst e1; subst e2
        obtain ⟨r1, r2, r3, r4, r5, r6, xs, u, hne, hrd, hout⟩ :=
          hCLL d1 σ 0 [] d4 out' d.next [] false
            ⟨hg1, ho1, ob, Or.inr (Or.inr (Or.inr (Or.inl ⟨e, hce⟩))), hb1, hb2⟩ (hpos (by rw [e]; simp)) hr
            (by intro _; exact ⟨rfl, rfl, by simp⟩)
        obtain ⟨hadv, hex, hpn⟩ := hfinish d4 r5 (by rw [r1, t1]) r2 (by rw [← t1]; exact r3)
        have hnl := next_length d4
        have hnl0 := next_length d
        rw [r1, t1] at hnl
        obtain ⟨x', hrv, hx'⟩ := readValue_list fs (d4.off - d.off + 1) d.next d1.next 123 (by rw [t2, hpe]) (by decide)
          (by simp) xs u d4.next (fun F' hF' => by
            have := hrd F' (by omega)
            simpa using this) hne (fun hu => by
            obtain ⟨e', he', _⟩ := hout (by simpa using hu)
            exact ⟨e', by simpa using he'⟩)
        obtain ⟨⟨q1, q2, q3, q4⟩, _, _⟩ := hfinish d4 r5 (by rw [r1, t1]) r2 (by rw [← t1]; exact r3)
        have hoff' : d4.scanNext.off = d4.off + 1 := by
          obtain ⟨_, _, n3, _, _⟩ := scanNext_text d4 r5.2.1
          have := n3 (by rw [r1]; exact r3)
          omega
        refine ⟨hadv, hex, fun _ => ⟨x', u, fun F hF => ?_, fun hu => ?_⟩⟩
        · obtain ⟨F', rfl⟩ : ∃ F', F = F' + 1 := ⟨F - 1, by omega⟩
          rw [hpn]
          exact hrv F' (by omega)
        · obtain ⟨e', he', hx''⟩ := hx' hu
          obtain ⟨e'', he'', hout'⟩ := hout (by simpa using hu)
          have hee : e'' = e' := by
            cases xs with
            | nil => exact absurd rfl hne
            | cons x0 _ => rw [← he'' x0 (by simp), ← he' x0 (by simp)]
          refine ⟨by rw [hx'']; rfl, ?_⟩
          rw [← e3, hout', hx'', list_enc, hee]
          simp [NBT.tag, NBT.tagList, tagList]
    · -- a list of lists
      rw [e] at hrun; dsimp only at hrun
      obtain ⟨c, hpe, hle, h1o, hrel⟩ := hpend (by rw [e]; simp) (by rw [e]; simp)
      have hc : c = 91 := hrel.1.2 e
      subst hc
      cases hr : listListLoop (semOracle fs) f d1 0 0 [] with
      | err => rw [hr] at hrun; cases hrun
      | panic => rw [hr] at hrun; cases hrun
      | fuel => rw [hr] at hrun; cases hrun
      | ok p =>
        obtain ⟨d4, out'⟩ := p
        rw [hr] at hrun
        dsimp only at hrun
        injection hrun with hrun
        injection hrun with e1 e2
        injection e2 with e2 e3
        subst e1; subst e2
        obtain ⟨r1, r2, r3, r4, r5, r6, xs, u, hne, hrd, hout⟩ :=
          hLL d1 σ 0 0 [] d4 out' d.next [] false
            ⟨hg1, ho1, ob, Or.inr (Or.inr (Or.inr (Or.inr ⟨e, hla'⟩))), hb1, hb2⟩ (hpos (by rw [e]; simp)) hr
            (by intro _; exact ⟨rfl, rfl, by simp⟩)
        obtain ⟨hadv, hex, hpn⟩ := hfinish d4 r5 (by rw [r1, t1]) r2 (by rw [← t1]; exact r3)
        have hnl := next_length d4
        have hnl0 := next_length d
        rw [r1, t1] at hnl
        obtain ⟨x', hrv, hx'⟩ := readValue_list fs (d4.off - d.off + 1) d.next d1.next 91 (by rw [t2, hpe]) (by decide)
          (by simp) xs u d4.next (fun F' hF' => by
            have := hrd F' (by omega)
            simpa using this) hne (fun hu => by
            obtain ⟨e', he', _⟩ := hout (by simpa using hu)
            exact ⟨e', by simpa using he'⟩)
        obtain ⟨⟨q1, q2, q3, q4⟩, _, _⟩ := hfinish d4 r5 (by rw [r1, t1]) r2 (by rw [← t1]; exact r3)
        have hoff' : d4.scanNext.off = d4.off + 1 := by
          obtain ⟨_, _, n3, _, _⟩ := scanNext_text d4 r5.2.1
          have := n3 (by rw [r1]; exact r3)
          omega
        refine ⟨hadv, hex, fun _ => ⟨x', u, fun F hF => ?_, fun hu => ?_⟩⟩
        · obtain ⟨F', rfl⟩ : ∃ F', F = F' + 1 := ⟨F - 1, by omega⟩
          rw [hpn]
          exact hrv F' (by omega)
        · obtain ⟨e', he', hx''⟩ := hx' hu
          obtain ⟨e'', he'', hout'⟩ := hout (by simpa using hu)
          have hee : e'' = e' := by
            cases xs with
            | nil => exact absurd rfl hne
            | cons x0 _ => rw [← he'' x0 (by simp), ← he' x0 (by simp)]
          refine ⟨by rw [hx'']; rfl, ?_⟩
          rw [← e3, hout', hx'', list_enc, hee]
          simp [NBT.tag, NBT.tagList, tagList]

end GoMC.Model.SNBT
