/-
  The writer models of level/chunk.go (Model/WritersChunk.lean):
  * `Wr.Faithful`: `NBTField.WriteTo`, `BlockEntity.WriteTo`, `lightData.WriteTo`, `Chunk.WriteTo` never swallow a sink
    failure — whatever the chunk holds;
  * `Wr.Exact` against C13's pure models: `wEnt` writes `(entC fuel).enc`, `wLight` writes `lightC.enc`, `wHm` writes `hmEnc`
    (the typed encoder on the anonymous height-map struct emits the spec encoding of the compound of two long arrays:
    `hm_encode`, through C02's `elem_nums_u64`), and `wChunk` writes `Chunk.writeTo` and returns its count.
-/
import GoMC.Model.WritersChunk
import GoMC.Lemmas.WritersNBT
import GoMC.Lemmas.WritersLevel
import GoMC.Lemmas.NBTRoundTrip
namespace GoMC.Lemmas.WChunk
open GoMC GoMC.Spec GoMC.Model GoMC.Model.Chunk
open GoMC.Lemmas Wr GoMC.Model.Go GoMC.Lemmas.NBTTyped

theorem faithful_wCounted {e : Wr Unit} (he : Faithful e) : Faithful (wCounted e) := by
  intro out
  obtain ⟨r, bs, h0, hk⟩ := he out
  refine ⟨r.map (fun _ => bs.length), bs, ?_, fun k => ⟨fun hle => ?_, fun hlt => ?_⟩⟩
  · unfold wCounted
    rw [h0]
    cases r <;> simp [Res.map]
  · unfold wCounted
    rw [(hk k).1 hle]
    cases r <;> simp [Res.map]
  · have h1 := (hk k).2 hlt
    unfold wCounted
    rcases hr : e ⟨out, some k⟩ with ⟨r', st'⟩
    rw [hr] at h1
    simp only at h1
    subst h1
    rfl

theorem exact_wCounted {e : Wr Unit} {bs : Bytes} (he : Exact e (Res.ok ()) bs) : Exact (wCounted e) (Res.ok bs.length) bs := by
  intro out
  obtain ⟨h0, hk⟩ := he out
  refine ⟨?_, fun k => ⟨fun hle => ?_, fun hlt => ?_⟩⟩
  · unfold wCounted; rw [h0]; simp
  · unfold wCounted; rw [(hk k).1 hle]; simp
  · have h1 := (hk k).2 hlt
    unfold wCounted
    rcases hr : e ⟨out, some k⟩ with ⟨r', st'⟩
    rw [hr] at h1
    simp only at h1
    subst h1
    rfl

theorem faithful_wNBTField (cx : SnbtCarrier) (v : Option GoVal) : Faithful (wNBTField cx v) := by
  unfold wNBTField
  cases v with
  | none => exact faithful_write _
  | some x => exact faithful_wCounted (WNBT.faithful_wEncode cx true [] (some x))

theorem faithful_wElems {α} {f : α → Wr Nat} (hf : ∀ x, Faithful (f x)) : ∀ xs : List α, Faithful (wElems f xs)
  | [] => faithful_pure _
  | x :: xs => by
    unfold wElems
    exact faithful_bind (hf x) fun _ => faithful_bind (faithful_wElems hf xs) fun _ => faithful_pure _

theorem faithful_wAry {α} (l : LenKind) {f : α → Wr Nat} (hf : ∀ x, Faithful (f x)) (a : Slice α) : Faithful (wAry l f a) := by
  unfold wAry
  exact faithful_bind (exact_wLen l _).faithful fun _ => faithful_bind (faithful_wElems hf _) fun _ => faithful_pure _

theorem faithful_wPair {α β} {f : α → Wr Nat} {g : β → Wr Nat} (hf : ∀ x, Faithful (f x)) (hg : ∀ y, Faithful (g y)) (v : α × β) :
    Faithful (wPair f g v) := by
  unfold wPair
  exact faithful_bind (hf _) fun _ => faithful_bind (hg _) fun _ => faithful_pure _

/-- `wPair` at one value -/
theorem exact_wPair_at {α β} {f : α → Wr Nat} {g : β → Wr Nat} {v : α × β} {n1 n2 : Nat} {b1 b2 : Bytes}
    (hf : Exact (f v.1) (Res.ok n1) b1) (hg : Exact (g v.2) (Res.ok n2) b2) :
    Exact (wPair f g v) (Res.ok (n1 + n2)) (b1 ++ b2) := by
  unfold wPair
  exact exact_seq2 hf hg

theorem faithful_wEnt (cx : SnbtCarrier) (e : EntRep) : Faithful (wEnt cx e) :=
  faithful_wPair (fun _ => faithful_write _) (fun y => faithful_wPair (fun _ => faithful_write _)
    (fun y => faithful_wPair (fun _ => faithful_write _) (fun m => faithful_wNBTField cx _) y) y) e

theorem faithful_wLight (l : LightData) : Faithful (wLight l) :=
  faithful_wPair (fun x => (exact_wBitSet x).faithful) (fun y =>
    faithful_wPair (fun x => (exact_wBitSet x).faithful) (fun y =>
      faithful_wPair (fun x => (exact_wBitSet x).faithful) (fun y =>
        faithful_wPair (fun x => (exact_wBitSet x).faithful) (fun y =>
          faithful_wPair (fun x => faithful_wAry _ (fun z => (exact_wByteArray z).faithful) x)
            (fun x => faithful_wAry _ (fun z => (exact_wByteArray z).faithful) x) y) y) y) y) _

theorem faithful_wChunkRep (cx : SnbtCarrier) (r : ChunkRep) : Faithful (wChunkRep cx r) :=
  faithful_wPair (fun _ => faithful_wNBTField cx _) (fun y =>
    faithful_wPair (fun x => (exact_wByteArray x).faithful) (fun y =>
      faithful_wPair (fun x => faithful_wAry _ (faithful_wEnt cx) x) faithful_wLight y) y) r

theorem faithful_wChunk (cx : SnbtCarrier) (gbS gbB : Int) (c : Chunk) : Faithful (wChunk cx gbS gbB c) :=
  faithful_wChunkRep cx _


/-! ### exactness against C13's pure model -/

theorem hm_typeFields : typeFields (.struct [] hmFieldsT) =
    [⟨nameMB, true, [0], .slice (.int .u64), false, false⟩, ⟨nameWS, true, [1], .slice (.int .u64), false, false⟩] := by
  rfl

theorem u64GoSlice_eq (xs : Longs) : u64GoSlice xs = valNumsU64 (.longArray xs) := rfl

theorem hm_field (cx : SnbtCarrier) (f : Nat) (mb ws : Longs)
    (i : Nat) (name : Bytes) (xs : Longs) (hx : xs.length < 2 ^ 31) (hn : name.length ≤ 32767)
    (hw : walkEnc [i] (hmGoVal mb ws) = some (u64GoSlice xs)) :
    fieldEnc (getTagType cx (f + 3)) (Go.marshal cx (f + 3)) (hmGoVal mb ws) ⟨name, true, [i], .slice (.int .u64), false, false⟩ =
      Res.ok (12 :: encString name ++ encPayload (.longArray xs)) := by
  have hok : okNumsU64 (.longArray xs) := ⟨xs, rfl, by simpa using hx⟩
  have hg := (elem_nums_u64 cx).getTag (f + 3) (.longArray xs) hok (by omega)
  have hm := (elem_nums_u64 cx).marshal (f + 3) (.longArray xs) hok (by omega)
  rw [← u64GoSlice_eq] at hg hm
  have ht : (NBT.longArray xs).tag = 12#8 := rfl
  rw [ht] at hg hm
  unfold fieldEnc
  simp only [hw, Bool.false_and, Bool.false_eq_true, if_false, hg]
  have hwt : writeTag (12#8) name = Res.ok (12#8 :: encString name) := by
    unfold writeTag
    have : ¬ name.length > 32767 := by omega
    simp only [this, if_false, beN_eq, encString]
    rfl
  have h0 : ¬ ((12#8 : Byte) = 0) := by decide
  simp only [h0, if_false, hwt, hm]
  rfl

theorem hm_encodeF (cx : SnbtCarrier) (f : Nat) (mb ws : Longs) (h1 : mb.length < 2 ^ 31) (h2 : ws.length < 2 ^ 31) :
    encodeF cx (f + 5) true [] (some (hmGoVal mb ws)) = Res.ok (encDoc .network [] (hmTree (some mb, some ws))) := by
  have hf1 := hm_field cx f mb ws 0 nameMB mb h1 (by decide) rfl
  have hf2 := hm_field cx f mb ws 1 nameWS ws h2 (by decide) rfl
  have hg : getTagType cx (f + 5) (hmGoVal mb ws) = (10#8, hmGoVal mb ws) := by
    simp [getTagType, hmGoVal, tagOfType, GoVal.typeOf]
  have h10 : (10#8 : Byte).toNat = 10 := rfl
  unfold encodeF
  simp only [hg, if_true]
  have hmar : Go.marshal cx (f + 5) (hmGoVal mb ws) 10#8 =
      Res.ok (encPayload (hmTree (some mb, some ws))) := by
    unfold Go.marshal
    have hc : (hmGoVal mb ws).isCarrier = false := rfl
    simp only [hc, Bool.false_eq_true, if_false]
    unfold writeValue
    simp only [h10]
    show resFlatten (resMapM (fieldEnc (getTagType cx (f + 3)) (Go.marshal cx (f + 3)) (hmGoVal mb ws))
      (typeFields (.struct [] hmFieldsT))) (· ++ [0]) = _
    rw [hm_typeFields]
    simp only [resMapM, hf1, hf2, resFlatten]
    simp [hmTree, encPayload, encKvs, NBT.tag, NBT.tagLongArray, NBT.tagEnd]
  rw [hmar]
  simp [encDoc, hmTree, NBT.tag, NBT.tagCompound]

theorem hm_encode (cx : SnbtCarrier) (mb ws : Longs) (h1 : mb.length < 2 ^ 31) (h2 : ws.length < 2 ^ 31) :
    encode cx true [] (some (hmGoVal mb ws)) = Res.ok (encDoc .network [] (hmTree (some mb, some ws))) := by
  unfold encode
  have : 2 * (hmGoVal mb ws).encFuel + 8 = (2 * (hmGoVal mb ws).encFuel + 3) + 5 := by omega
  simp only [this]
  exact hm_encodeF cx _ mb ws h1 h2

/-- the height maps: `wHm` writes C13's `hmEnc` -/
theorem exact_wHm (cx : SnbtCarrier) (mb ws : Longs) (h1 : mb.length < 2 ^ 31) (h2 : ws.length < 2 ^ 31) :
    Exact (wHm cx (some mb, some ws)) (Res.ok (hmEnc (some mb, some ws)).2) (hmEnc (some mb, some ws)).1 := by
  unfold wHm wNBTField
  exact exact_wCounted (WNBT.exact_wEncode cx true [] _ _ (hm_encode cx mb ws h1 h2))

theorem raw_encode (cx : SnbtCarrier) (m : RawMsg) : encode cx true [] (some (.raw m.tag m.data)) = Res.ok (m.tag :: m.data) := by
  simp [encode, encodeF, getTagType, carrierTag, Go.marshal, GoVal.isCarrier, GoVal.typeOf, GoType.isCarrier, carrierMarshal,
    GoVal.encFuel]

theorem exact_wRawField (cx : SnbtCarrier) (m : RawMsg) : Exact (wRawField cx m) (Res.ok (rawEnc m).2) (rawEnc m).1 := by
  unfold wRawField wNBTField
  exact exact_wCounted (WNBT.exact_wEncode cx true [] _ _ (raw_encode cx m))

theorem exact_wEnt (cx : SnbtCarrier) (fuel : Nat) (e : EntRep) : Exact (wEnt cx e) (Res.ok ((entC fuel).enc e).2) ((entC fuel).enc e).1 :=
  exact_wPair wByte _ byteC (pairC shortC (pairC varIntC (rawC fuel))) exact_wByte
    (fun y => exact_wPair (wFix 2) _ shortC (pairC varIntC (rawC fuel)) (exact_wFix 2)
      (fun y => exact_wPair wVarInt _ varIntC (rawC fuel) exact_wVarInt (exact_wRawField cx) y) y) e

theorem exact_wLight (l : LightData) : Exact (wLight l) (Res.ok (lightC.enc l).2) (lightC.enc l).1 :=
  exact_wPair wBitSet _ bitSetC _ exact_wBitSet (fun y =>
    exact_wPair wBitSet _ bitSetC _ exact_wBitSet (fun y =>
      exact_wPair wBitSet _ bitSetC _ exact_wBitSet (fun y =>
        exact_wPair wBitSet _ bitSetC _ exact_wBitSet (fun y =>
          exact_wPair (wAry .varint wByteArray) (wAry .varint wByteArray) (aryC .varint byteArrayC) (aryC .varint byteArrayC)
            (exact_wAry .varint wByteArray byteArrayC exact_wByteArray)
            (exact_wAry .varint wByteArray byteArrayC exact_wByteArray) y) y) y) y) _

/-- **`Chunk.WriteTo` writes the bytes of C13's pure model** and returns their number -/
theorem exact_wChunk (cx : SnbtCarrier) (gbS gbB : Int) (c : Chunk) (h1 : c.hm.motionBlocking.data.length < 2 ^ 31)
    (h2 : c.hm.worldSurface.data.length < 2 ^ 31) :
    Exact (wChunk cx gbS gbB c) (Res.ok (c.writeTo gbS gbB).2) (c.writeTo gbS gbB).1 := by
  unfold wChunk wChunkRep Chunk.writeTo
  exact exact_wPair_at (exact_wHm cx _ _ h1 h2)
    (exact_wPair wByteArray _ byteArrayC (pairC (aryC .varint (entC 0)) lightC) exact_wByteArray
      (fun y => exact_wPair (wAry .varint (wEnt cx)) wLight (aryC .varint (entC 0)) lightC
        (exact_wAry .varint (wEnt cx) (entC 0) (exact_wEnt cx 0)) exact_wLight y) _)

end GoMC.Lemmas.WChunk
