/-
  Lemmas for part 2 of C08: the decoders whose models other properties own (C12 palette container, C13 chunk, the
  typed nbt decoder of C02/C03, C17's JSON text component, the registries over NBTField).  What the owning packages
  proved is re-exported in Props/C08; what they did not — the "negative or inconsistent length ⇒ error" clauses for
  the palette size, the data array of a container, the height maps and the data array of a chunk packet, the array /
  list / string lengths of the typed nbt decoder, the String frame of a JSON text component — is proved here from the
  models.
-/
import GoMC.Lemmas.NoPanic
import GoMC.Lemmas.Palette
import GoMC.Lemmas.ChunkWire
import GoMC.Lemmas.NBTField
import GoMC.Lemmas.NBTTotal
import GoMC.Lemmas.Chat
import GoMC.Model.ChatWire
import GoMC.Props.C02
import GoMC.Props.C17
import GoMC.Lemmas.NBTTyped
namespace GoMC.Lemmas.C08
open GoMC GoMC.Model GoMC.Spec
open GoMC.Lemmas hiding noPanic_readAll noPanic_readByte1 noPanic_bool noPanic_byte noPanic_fix noPanic_varLongRead noPanic_string noPanic_byteArray noPanic_longs noPanic_bitSet noPanic_position noPanic_plugin noPanic_lenDec noPanic_decElems noPanic_ary noPanic_option noPanic_pair noPanic_codec
open GoMC.Model.Chunk GoMC.Lemmas.ChunkWire
open GoMC.Lemmas.DynBT (Cons cons_pure cons_fail cons_crash cons_readFull cons_readByte cons_bind cons_ite)

/-! ### paletted container -/

theorem neg_palette_size (c : Container) (s s1 s2 : Stream) (b : Byte) (h : Bool) (vals : List Int) (cap : Nat) (bits : Int)
    (size : BitVec 32) (n : Nat)
    (hb : Rd.readByte s = (Res.ok b, s1))
    (hp : c.cfg.create (b.toNat : Int) = .indirect h vals cap bits)
    (hv : varIntRead s1 = (Res.ok (size, n), s2))
    (hbad : size.toInt < 0 ∨ size.toInt > (2 : Int) ^ bits.toNat) :
    (c.readFrom s).1 = Res.err ∧ (c.readFrom s).2.2 = s2 := by
  have hpal : (Pal.indirect h vals cap bits).readFrom s1 = (Res.err, Pal.indirect h vals cap bits, s2) := by
    simp only [Pal.readFrom, hv]
    rcases hbad with h1 | h2
    · simp [h1]
    · by_cases h1 : size.toInt < 0
      · simp [h1]
      · simp [h1, h2]
  unfold Container.readFrom
  rw [hb]
  simp only [hp, hpal, and_self]

theorem neg_palette_data (c : Container) (s s1 s2 s3 : Stream) (b : Byte) (n1 : Nat) (p : Pal) (l : BitVec 32) (n : Nat)
    (hb : Rd.readByte s = (Res.ok b, s1))
    (hp : (c.cfg.create (b.toNat : Int)).readFrom s1 = (Res.ok n1, p, s2))
    (hl : varIntRead s2 = (Res.ok (l, n), s3)) (hneg : l.toInt < 0) :
    (c.readFrom s).1 = Res.err ∧ (c.readFrom s).2.2 = s3 := by
  unfold Container.readFrom
  rw [hb]
  simp only [hp]
  rw [neg_readFrom c.data hl hneg]
  exact ⟨rfl, rfl⟩

/-! ### chunk packet -/

theorem newHeightMap_ok_len (bits : Int) (d : Longs) (want : Int) (b : BitStorage)
    (hw : calcBitStorageSize bits 256 = .ok want) (h : newHeightMap bits (some d) = .ok b) : (d.length : Int) = want := by
  unfold newHeightMap at h
  simp only [hw] at h
  by_cases hl : (d.length : Int) ≠ want
  · simp [hl] at h
  · exact Decidable.not_not.mp hl

theorem finish_badHeightMap (gbS gbB : Int) (c : Chunk) (r : ChunkRep) (d : Longs) (want : Int)
    (hw : calcBitStorageSize (hmBitsOf c.secs.length) 256 = .ok want)
    (hbad : (r.1.1 = some d ∨ r.1.2 = some d) ∧ (d.length : Int) ≠ want) : ∀ c', Chunk.finish gbS gbB c r ≠ .ok c' := by
  intro c' hc
  unfold Chunk.finish at hc
  cases h1 : newHeightMap (hmBitsOf c.secs.length) r.1.1 with
  | ok mb =>
    cases h2 : newHeightMap (hmBitsOf c.secs.length) r.1.2 with
    | ok ws =>
      rcases hbad.1 with e | e
      · rw [e] at h1; exact hbad.2 (newHeightMap_ok_len _ d want mb hw h1)
      · rw [e] at h2; exact hbad.2 (newHeightMap_ok_len _ d want ws hw h2)
    | err => simp [h1, h2] at hc
    | panic => simp [h1, h2] at hc
  | err => simp [h1] at hc
  | panic => simp [h1] at hc

theorem neg_chunk_heightmap (gbS gbB : Int) (fuel : Nat) (c : Chunk) (hc : ChunkSane c) (s s' : Stream) (r : ChunkRep) (n : Nat)
    (d : Longs) (want : Int)
    (hdec : (chunkRepC fuel).dec ((none, none), Slice.nil, c.ents, freshLight) s = (Res.ok (r, n), s'))
    (hw : calcBitStorageSize (hmBitsOf c.secs.length) 256 = .ok want)
    (hbad : (r.1.1 = some d ∨ r.1.2 = some d) ∧ (d.length : Int) ≠ want) :
    Chunk.readFromF gbS gbB fuel c s = (Res.err, s') := by
  have hnok := finish_badHeightMap gbS gbB c r d want hw hbad
  have hnp := finish_noPanic gbS gbB c hc r
  unfold Chunk.readFromF
  rw [Rd.bind_ok hdec]
  simp only
  cases hf : Chunk.finish gbS gbB c r with
  | ok c' => exact absurd hf (hnok c')
  | err => rfl
  | panic => exact absurd hf hnp

theorem neg_chunk_data (gbS gbB : Int) (fuel : Nat) (c : Chunk) (s s1 s2 : Stream) (hm : HmVal) (n1 : Nat)
    (l : BitVec 32) (n : Nat)
    (h1 : (hmC fuel).dec (none, none) s = (Res.ok (hm, n1), s1))
    (h2 : varIntRead s1 = (Res.ok (l, n), s2)) (hneg : l.toInt < 0) :
    Chunk.readFromF gbS gbB fuel c s = (Res.err, s2) := by
  have hrep : (chunkRepC fuel).dec ((none, none), Slice.nil, c.ents, freshLight) s = (Res.err, s2) := by
    show pairDec (hmC fuel) (pairC byteArrayC (pairC (aryC .varint (entC fuel)) lightC)) _ s = _
    unfold pairDec
    rw [Rd.bind_ok h1]
    simp only
    have : (pairC byteArrayC (pairC (aryC .varint (entC fuel)) lightC)).dec (Slice.nil, c.ents, freshLight) s1 = (Res.err, s2) := by
      show pairDec byteArrayC (pairC (aryC .varint (entC fuel)) lightC) _ s1 = _
      unfold pairDec
      have hb : byteArrayC.dec Slice.nil s1 = (Res.err, s2) := neg_byteArray Slice.nil h2 hneg
      rw [Rd.bind_err hb]
    rw [Rd.bind_err this]
  unfold Chunk.readFromF
  rw [Rd.bind_err hrep]

/-! ### typed nbt, JSON text component, typed registries -/

theorem neg_arrayLen (s s' : Stream) (n : BitVec 32) (h : NBT.readInt32 s = (Res.ok n, s')) (hneg : n.msb = true) :
    Go.arrayLen s = (Res.err, s') := by
  unfold Go.arrayLen
  rw [Rd.bind_ok h]
  simp [hneg, Rd.fail]

theorem neg_listHeader (s s1 s2 : Stream) (lt : Byte) (n : BitVec 32) (h1 : Rd.readByte s = (Res.ok lt, s1))
    (h2 : NBT.readInt32 s1 = (Res.ok n, s2)) (hneg : n.msb = true) : (Go.listHeader s).1 = Res.err := by
  unfold Go.listHeader
  rw [Rd.bind_ok h1]
  by_cases hl : lt.toNat > 12
  · simp [hl, Rd.fail]
  · simp only [hl, if_false]
    rw [Rd.bind_ok h2]
    simp [hneg, Rd.fail]

theorem neg_readString (s s' : Stream) (n : BitVec 16) (h : NBT.readInt16 s = (Res.ok n, s')) (hneg : n.msb = true) :
    NBT.readString s = (Res.err, s') := by
  unfold NBT.readString
  rw [Rd.bind_ok h]
  simp [hneg, Rd.fail]

/-- a byte / int / long array with a negative length decoded into ANY slice type: an error -/
theorem neg_umSlice (rec : Go.Rec) (e : Go.GoType) (old : Go.GoVal) (tag : Byte) (s s' : Stream) (n : BitVec 32)
    (htag : tag = 7#8 ∨ tag = 11#8 ∨ tag = 12#8)
    (h : NBT.readInt32 s = (Res.ok n, s')) (hneg : n.msb = true) : (Go.umSlice rec e old tag s).1 = Res.err := by
  have ha := neg_arrayLen s s' n h hneg
  have hr : (NBT.refuse tag s).1 = Res.err := by
    rcases htag with rfl | rfl | rfl
    · show (NBT.refuse 7#8 s).1 = _
      unfold NBT.refuse
      simp only [show (7#8 : Byte).toNat = 7 from rfl]
      rw [Rd.bind_ok h]; simp [hneg, Rd.fail]
    · unfold NBT.refuse
      simp only [show (11#8 : Byte).toNat = 11 from rfl]
      rw [Rd.bind_ok h]; rfl
    · unfold NBT.refuse
      simp only [show (12#8 : Byte).toNat = 12 from rfl]
      rw [Rd.bind_ok h]; rfl
  have hg : (Go.refuseG (α := Go.GoVal) tag s).1 = Res.err := by
    unfold Go.refuseG
    rw [Rd.bind_apply]
    rcases hx : NBT.refuse tag s with ⟨r, s2⟩
    rw [hx] at hr
    simp only at hr
    subst hr
    rfl
  rcases htag with rfl | rfl | rfl
  · unfold Go.umSlice
    simp only [show (7#8 : Byte).toNat = 7 from rfl]
    split
    · rw [Rd.bind_err ha]
    · exact hg
  · unfold Go.umSlice
    simp only [show (11#8 : Byte).toNat = 11 from rfl]
    split
    · rw [Rd.bind_err ha]
    · exact hg
  · unfold Go.umSlice
    simp only [show (12#8 : Byte).toNat = 12 from rfl]
    split
    · rw [Rd.bind_err ha]
    · exact hg

open GoMC.Model.Chat in
theorem total_chat_json (parse : Bytes → Option JSON) (d : Msg) (s : Stream) : (jsonMessageRead parse d s).1 ≠ Res.panic := by
  unfold jsonMessageRead
  rw [Rd.bind_apply]
  have hs := noPanic_string [] s
  rcases h : stringDec [] s with ⟨r, s'⟩
  rw [h] at hs
  cases r with
  | ok v =>
    obtain ⟨code, n⟩ := v
    simp only
    cases parse code with
    | none => simp [Rd.fail]
    | some t =>
      simp only
      have := GoMC.Props.C17.C17_json_decode_never_panics t d
      cases hu : unmarshalInto t d with
      | ok m => simp
      | err => simp [Rd.fail]
      | panic => exact absurd hu this
  | err => simp
  | panic => exact absurd rfl hs

open GoMC.Model.Chat in
theorem neg_chat_json (parse : Bytes → Option JSON) (d : Msg) (s s1 : Stream) (l : BitVec 32) (n : Nat)
    (h : varIntRead s = (Res.ok (l, n), s1)) (hneg : l.toInt < 0) : jsonMessageRead parse d s = (Res.err, s1) := by
  unfold jsonMessageRead
  rw [Rd.bind_err (neg_string [] h hneg)]

theorem total_registry_typed (cx : Go.SnbtCarrier) (hsn : ∀ tag s, (cx.unmarshal tag s).1 ≠ Res.panic) (ty : Go.GoType) (s : Stream) :
    (Registry.readFrom (Go.fieldRead cx true ty ty.zero) s).1 ≠ Res.panic :=
  noPanic_regReadFrom _ (fun s => GoMC.Props.C02.C02_field_read_no_panic cx true ty ty.zero
    (fun tag s => GoMC.Props.DYNBT.DYNBT_total tag s) hsn (GoMC.Lemmas.NBTTotal.zero_good ty) s) s


/-! ## Phase 2: work bounds for the part-2 decoders; the NBT form of chat.Message and the chat-type header -/

/-! ### work bound: paletted container -/

/-- loop bodies STARTED by the palette loop `for i := 0; i < size; i++ { value.ReadFrom(r) … }` -/
def readValsIters : List Int → Stream → Nat
  | [], _ => 0
  | _ :: old, s =>
    1 + (match varIntRead s with
      | (.ok _, s') => readValsIters old s'
      | _ => 0)

theorem readVals_bound (cells : List Int) (s : Stream) :
    readValsIters cells s + (readVals cells s).2.flat.length ≤ s.flat.length + 1 := by
  induction cells generalizing s with
  | nil => simp [readValsIters, readVals]
  | cons o old ih =>
    unfold readValsIters readVals
    rcases h : varIntRead s with ⟨r, s'⟩
    have c := cons_run cons_varIntRead h
    cases r with
    | ok a =>
      have := ih s'
      have := c.2 a rfl
      simp only
      omega
    | err => simp only; omega
    | panic => simp only; omega

/-- iterations of the palette's own read loop -/
def palIters : Pal → Stream → Nat
  | .indirect _ vals cap bits, st =>
    match varIntRead st with
    | (.ok (size, _), s1) =>
      if size.toInt < 0 then 0
      else if size.toInt > (2 : Int) ^ bits.toNat then 0
      else
        let k := size.toNat
        readValsIters (if k > cap then List.replicate k 0 else (vals ++ List.replicate (cap - vals.length) 0).take k) s1
    | _ => 0
  | _, _ => 0

theorem palIters_bound (p : Pal) (s : Stream) : palIters p s + (p.readFrom s).2.2.flat.length ≤ s.flat.length + 1 := by
  cases p with
  | single v =>
    simp only [palIters, Pal.readFrom]
    rcases h : varIntRead s with ⟨r, s'⟩
    have c := cons_run cons_varIntRead h
    cases r <;> simp only <;> omega
  | global => simp [palIters, Pal.readFrom]
  | indirect hh vals cap bits =>
    simp only [palIters, Pal.readFrom]
    rcases h : varIntRead s with ⟨r, s1⟩
    have c := cons_run cons_varIntRead h
    cases r with
    | ok a =>
      obtain ⟨size, n⟩ := a
      simp only
      have c2 := c.2 _ rfl
      by_cases h1 : size.toInt < 0
      · simp only [h1, if_true]; omega
      · simp only [h1, if_false]
        by_cases h2 : size.toInt > (2 : Int) ^ bits.toNat
        · simp only [h2, if_true]; omega
        · simp only [h2, if_false]
          have := readVals_bound (if size.toNat > cap then List.replicate size.toNat 0 else (vals ++ List.replicate (cap - vals.length) 0).take size.toNat) s1
          omega
    | err => simp only; omega
    | panic => simp only; omega

/-- `PaletteContainer.ReadFrom`: (iterations of the palette loop, iterations of the data-array loop) -/
def contIters (c : Container) (s : Stream) : Nat × Nat :=
  match Rd.readByte s with
  | (.ok b, s1) =>
    let p := c.cfg.create (b.toNat : Int)
    (palIters p s1,
      match p.readFrom s1 with
      | (.ok _, _, s2) => readFromIters c.data s2
      | _ => 0)
  | _ => (0, 0)

theorem contIters_bound (c : Container) (s : Stream) :
    (contIters c s).1 + 8 * (contIters c s).2 + (c.readFrom s).2.2.flat.length ≤ s.flat.length + 8 := by
  unfold contIters Container.readFrom
  rcases h : Rd.readByte s with ⟨r, s1⟩
  have c0 := cons_run cons_readByte h
  cases r with
  | ok b =>
    have c1 := c0.2 b rfl
    simp only
    have hp := palIters_bound (c.cfg.create (b.toNat : Int)) s1
    rcases h2 : (c.cfg.create (b.toNat : Int)).readFrom s1 with ⟨r2, p, s2⟩
    rw [h2] at hp
    simp only at hp
    cases r2 with
    | ok n1 =>
      simp only
      have hd := readFromIters_bound c.data s2
      rcases h3 : c.data.readFrom s2 with ⟨r3, d, s3⟩
      rw [h3] at hd
      simp only at hd
      cases r3 <;> simp only <;> omega
    | err => simp only; omega
    | panic => simp only; omega
  | err => simp only; omega
  | panic => simp only; omega


/-! ### work bound: section -/
open GoMC.Model.Chunk in
/-- `Section.ReadFrom`: palette-loop and data-loop iterations of the two containers -/
def secIters (sec : WSec) (s : Stream) : Nat × Nat :=
  match fixDec 2 sec.count s with
  | (.ok _, s1) =>
    let i1 := contIters sec.states s1
    match sec.states.readFrom s1 with
    | (.ok _, _, s2) =>
      let i2 := contIters sec.biomes s2
      (i1.1 + i2.1, i1.2 + i2.2)
    | _ => i1
  | _ => (0, 0)

open GoMC.Model.Chunk in
theorem secIters_bound (gbS gbB : Int) (sec : WSec) (s : Stream) :
    (secIters sec s).1 + 8 * (secIters sec s).2 + (Section.readFrom gbS gbB sec s).2.flat.length ≤ s.flat.length + 16 := by
  unfold secIters Section.readFrom
  show _ + _ + ((pairDec shortC (pairC (containerC (blocksCfg gbS)) (containerC (biomesCfg gbB))) sec.core >>= _) s).2.flat.length ≤ _
  unfold pairDec
  rcases h : fixDec 2 sec.count s with ⟨r, s1⟩
  have c0 := cons_run (cons_fix 2 sec.count) h
  have h' : shortC.dec sec.core.1 s = (r, s1) := h
  cases r with
  | ok a =>
    simp only [Rd.bind_apply, h']
    have b1 := contIters_bound sec.states s1
    have hs : sec.core.2.1 = sec.states := rfl
    have hb : sec.core.2.2 = sec.biomes := rfl
    simp only [pairC, pairDec, containerC, containerDec, Rd.bind_apply, hs, hb]
    rcases h2 : sec.states.readFrom s1 with ⟨r2, d2, s2⟩
    rw [h2] at b1
    simp only at b1
    cases r2 with
    | ok n1 =>
      simp only
      have b2 := contIters_bound sec.biomes s2
      rcases h3 : sec.biomes.readFrom s2 with ⟨r3, d3, s3⟩
      rw [h3] at b2
      simp only at b2
      cases r3 <;> simp only [Rd.pure_apply] <;> omega
    | err => simp only; omega
    | panic => simp only; omega
  | err => simp only [Rd.bind_apply, h']; omega
  | panic => simp only [Rd.bind_apply, h']; omega

/-! ### registry over a typed element: the element decoder never gives bytes back -/

theorem closed_cons0 : NBTDecode.Closed (fun {α} (p : Rd α) => Cons 0 p) where
  pure := fun a => cons_pure a
  fail := cons_fail 0
  readFull := fun n => (cons_readFull n).weaken (Nat.zero_le _)
  readByte := cons_readByte.weaken (Nat.zero_le _)
  bind := fun hp hf => cons_bind0 hp hf
  ite := fun hp hq => cons_ite hp hq

theorem cons0_dynUnmarshal (tag : Byte) : Cons 0 (DynBT.unmarshal tag) := by
  intro s
  exact GoMC.Lemmas.DynBT.cons0_unm (s.flat.length + 2) tag s

theorem cons0_decodeInto (cx : Go.SnbtCarrier) (hsn : ∀ tag, Cons 0 (cx.unmarshal tag)) (net disallow : Bool)
    (ty : Go.GoType) (old : Go.GoVal) : Cons 0 (Go.decodeInto cx net disallow ty old) := by
  intro u
  unfold Go.decodeInto
  have hh := NBTDecode.closed_readHead closed_cons0 net
  have hu := GoMC.Lemmas.NBTTyped.closedC_typed closed_cons0 (cons_crash 0) cx disallow cons0_dynUnmarshal hsn
    (Go.typedFuel u ty old)
  exact (closed_cons0.bind hh (fun x => by
    obtain ⟨tg, nm⟩ := x
    exact closed_cons0.bind (hu ty old tg) (fun _ => closed_cons0.pure _))) u

theorem cons0_fieldRead (cx : Go.SnbtCarrier) (hsn : ∀ tag, Cons 0 (cx.unmarshal tag)) (allow : Bool)
    (ty : Go.GoType) (old : Go.GoVal) : Cons 0 (Go.fieldRead cx allow ty old) := by
  intro s
  have h := cons0_decodeInto cx hsn true (!allow) ty old s
  unfold Go.fieldRead
  rcases hd : Go.decodeInto cx true (!allow) ty old s with ⟨r, s1⟩
  rw [hd] at h
  cases r with
  | ok a => simp only; exact ⟨h.1, fun _ _ => by have := h.1; omega⟩
  | err =>
    simp only
    split
    · exact ⟨h.1, fun _ _ => by have := h.1; omega⟩
    · exact ⟨h.1, fun _ hh => by simp at hh⟩
  | panic => simp only; exact ⟨h.1, fun _ hh => by simp at hh⟩

/-! ### chat-type header, translation arguments -/

open GoMC.Model.Chat GoMC.Model.ChatNBT

/-- `typeDec` never panics when the decoder of the two names does not -/
theorem typeDec_noPanic {α : Type} (msgC : Codec α) (old : ChatTypeOf α)
    (hs : ∀ s, (msgC.dec old.sender s).1 ≠ Res.panic) (hz : ∀ s, (msgC.dec msgC.zero s).1 ≠ Res.panic) (s : Stream) :
    (typeDec msgC old s).1 ≠ Res.panic := by
  unfold typeDec
  refine noPanic_bind noPanic_varIntRead (fun x => ?_) s
  refine noPanic_bind hs (fun y => ?_)
  refine noPanic_bind (noPanic_bool false) (fun z => ?_)
  obtain ⟨has, n3⟩ := z
  cases has with
  | true => exact noPanic_bind hz (fun _ => noPanic_pure _)
  | false => exact noPanic_pure _

/-- `(*chat.Type).ReadFrom` never panics when decoding into the old sender name does not -/
theorem typeRead_noPanic (old : ChatTypeOf Go.GoVal) (hs : ∀ s, (readFromInto old.sender s).1 ≠ Res.panic)
    (hz : ∀ s, (readFromInto messageTy.zero s).1 ≠ Res.panic) (s : Stream) : (typeRead old s).1 ≠ Res.panic := by
  unfold typeRead
  exact typeDec_noPanic nameCodec old hs hz s

theorem readFromInto_zero_noPanic (s : Stream) : (readFromInto messageTy.zero s).1 ≠ Res.panic :=
  (GoMC.Props.C17.C17_nbt_decode_never_panics 0 s).2.1

theorem readFromInto_goOf_noPanic (m : Msg) (s : Stream) : (readFromInto (goOf m) s).1 ≠ Res.panic :=
  (GoMC.Props.C17.C17_nbt_decode_never_panics (chatFuel s) s).2.2 m

theorem unread_head (b : Byte) (s : Stream) :
    NBT.readHead true { s with chunks := [b] :: s.chunks } = (Res.ok (b, []), s) := by
  obtain ⟨chunks, failing⟩ := s
  simp only [NBT.readHead, if_true, Rd.bind_apply, Rd.readByte, Stream.flat, List.flatten_cons, List.singleton_append]
  have : Stream.drop { chunks := [b] :: chunks, failing := failing } 1 = { chunks := chunks, failing := failing } := by
    unfold Stream.drop
    simp only [Stream.dropChunks, Nat.one_ne_zero, if_false, List.length_singleton, Nat.lt_irrefl, Nat.sub_self]
    cases chunks <;> simp [Stream.dropChunks]
  rw [this]
  rfl

/-- `(*TranslateArgs).UnmarshalNBT` on a typed array (byte / int / long array: numeric arguments): when decoding the
array into ANY slice fails at this position, so does the hook — whatever the arguments decoded so far -/
theorem chat_args_err (f : Nat) (old : Go.GoVal) (tag : Byte) (htag : tag = 7#8 ∨ tag = 11#8 ∨ tag = 12#8) (s : Stream)
    (hslice : ∀ (e : Go.GoType) (o : Go.GoVal), (Go.umSlice (chatUm f) e o tag s).1 = Res.err) :
    (argsUm (chatUm (f + 1)) old tag s).1 = Res.err := by
  have key : ∀ (e : Go.GoType) (o : Go.GoVal), e ≠ .dyn →
      (chatUm (f + 1) (.slice e) o tag s).1 = Res.err := by
    intro e o he
    unfold chatUm
    have h1 : isMsgTy (.slice e) = false := rfl
    have h2 : isArgsTy (.slice e) = false := by
      cases e <;> first | rfl | exact absurd rfl he
    simp only [h1, h2, Bool.false_eq_true, if_false]
    exact hslice e o
  have run : ∀ {α : Type} (e : Go.GoType) (o : Go.GoVal) (k : Go.GoVal → Rd α), e ≠ .dyn →
      ((unread tag (do
        let (t, _) ← NBT.readHead true
        let v ← chatUm (f + 1) (.slice e) o t
        k v)) s).1 = Res.err := by
    intro α e o k he
    unfold unread
    simp only [Rd.bind_apply, unread_head]
    have := key e o he
    rcases hr : chatUm (f + 1) (.slice e) o tag s with ⟨r, s2⟩
    rw [hr] at this
    simp only at this
    subst this
    rfl
  rcases htag with rfl | rfl | rfl
  · unfold argsUm
    simp only [show (7#8 : Byte).toNat = 7 from rfl]
    exact run _ _ _ (by intro hc; cases hc)
  · unfold argsUm
    simp only [show (11#8 : Byte).toNat = 11 from rfl]
    exact run _ _ _ (by intro hc; cases hc)
  · unfold argsUm
    simp only [show (12#8 : Byte).toNat = 12 from rfl]
    exact run _ _ _ (by intro hc; cases hc)

theorem readFull_short (k : Nat) (s : Stream) (h : s.flat.length < k) : Rd.readFull k s = (Res.err, s.drained) := by
  unfold Rd.readFull
  have : ¬ k ≤ s.flat.length := by omega
  simp [this]

theorem readFull_ok (k : Nat) (s : Stream) (h : k ≤ s.flat.length) :
    Rd.readFull k s = (Res.ok (s.flat.take k), s.drop k) := by
  unfold Rd.readFull; simp [h]

theorem readInts_short : ∀ (n : Nat) (s : Stream), s.flat.length < 4 * n → (NBT.readInts n s).1 = Res.err
  | 0, _, h => by omega
  | n + 1, s, h => by
    unfold NBT.readInts NBT.readInt32
    by_cases h4 : 4 ≤ s.flat.length
    · simp only [Rd.bind_apply, readFull_ok 4 s h4, Rd.pure_apply]
      have := readInts_short n (s.drop 4) (by simp; omega)
      rcases hr : NBT.readInts n (s.drop 4) with ⟨r, s2⟩
      rw [hr] at this
      simp only at this
      subst this
      rfl
    · simp only [Rd.bind_apply, readFull_short 4 s (by omega)]

theorem readLongs_short : ∀ (n : Nat) (s : Stream), s.flat.length < 8 * n → (NBT.readLongs n s).1 = Res.err
  | 0, _, h => by omega
  | n + 1, s, h => by
    unfold NBT.readLongs NBT.readInt64
    by_cases h8 : 8 ≤ s.flat.length
    · simp only [Rd.bind_apply, readFull_ok 8 s h8, Rd.pure_apply]
      have := readLongs_short n (s.drop 8) (by simp; omega)
      rcases hr : NBT.readLongs n (s.drop 8) with ⟨r, s2⟩
      rw [hr] at this
      simp only at this
      subst this
      rfl
    · simp only [Rd.bind_apply, readFull_short 8 s (by omega)]

/-- width of one element of a typed array -/
def arrWidth (tag : Byte) : Nat := if tag = 7#8 then 1 else if tag = 11#8 then 4 else 8

/-- a byte / int / long array whose declared length exceeds what the source holds, decoded into ANY slice type: an error -/
theorem large_umSlice (rec : Go.Rec) (e : Go.GoType) (old : Go.GoVal) (tag : Byte) (s s' : Stream) (n : BitVec 32)
    (htag : tag = 7#8 ∨ tag = 11#8 ∨ tag = 12#8)
    (h : NBT.readInt32 s = (Res.ok n, s')) (hpos : n.msb = false) (hbig : s'.flat.length < arrWidth tag * n.toNat) :
    (Go.umSlice rec e old tag s).1 = Res.err := by
  have ha : Go.arrayLen s = (Res.ok n.toNat, s') := by
    unfold Go.arrayLen
    rw [Rd.bind_ok h]
    simp [hpos]
  have hr : (NBT.refuse tag s).1 = Res.err := by
    rcases htag with rfl | rfl | rfl
    · unfold NBT.refuse
      simp only [show (7#8 : Byte).toNat = 7 from rfl]
      rw [Rd.bind_ok h]
      simp only [hpos, Bool.false_eq_true, if_false]
      have : s'.flat.length < n.toNat := by simpa [arrWidth] using hbig
      rw [Rd.bind_err (readFull_short _ _ this)]
    · unfold NBT.refuse
      simp only [show (11#8 : Byte).toNat = 11 from rfl]
      rw [Rd.bind_ok h]; rfl
    · unfold NBT.refuse
      simp only [show (12#8 : Byte).toNat = 12 from rfl]
      rw [Rd.bind_ok h]; rfl
  have hg : (Go.refuseG (α := Go.GoVal) tag s).1 = Res.err := by
    unfold Go.refuseG
    rw [Rd.bind_apply]
    rcases hx : NBT.refuse tag s with ⟨r, s2⟩
    rw [hx] at hr
    simp only at hr
    subst hr
    rfl
  have fin : ∀ {α β : Type} (p : Rd α) (k : α → Rd β) (t : Stream), (p t).1 = Res.err → ((p >>= k) t).1 = Res.err := by
    intro α β p k t hp
    rw [Rd.bind_apply]
    rcases hq : p t with ⟨r, t2⟩
    rw [hq] at hp
    simp only at hp
    subst hp
    rfl
  rcases htag with rfl | rfl | rfl
  · unfold Go.umSlice
    simp only [show (7#8 : Byte).toNat = 7 from rfl]
    split
    · rw [Rd.bind_ok ha]
      have : s'.flat.length < n.toNat := by simpa [arrWidth] using hbig
      rw [Rd.bind_err (readFull_short _ _ this)]
    · exact hg
  · unfold Go.umSlice
    simp only [show (11#8 : Byte).toNat = 11 from rfl]
    split
    · rw [Rd.bind_ok ha]
      exact fin _ _ _ (readInts_short _ _ (by simpa [arrWidth] using hbig))
    · exact hg
  · unfold Go.umSlice
    simp only [show (12#8 : Byte).toNat = 12 from rfl]
    split
    · rw [Rd.bind_ok ha]
      exact fin _ _ _ (readLongs_short _ _ (by simpa [arrWidth] using hbig))
    · exact hg

end GoMC.Lemmas.C08
