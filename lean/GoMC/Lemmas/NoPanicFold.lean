/-
  Lemmas for part 2 of C08: the decoders whose models other properties own (C12 palette container, C13 chunk, the
  typed nbt decoder of C02/C03, C17's JSON text component, the registries over NBTField).  What the owning packages
  proved is re-exported in Props/C08; what they did not — the "negative or inconsistent length ⇒ error" clauses for
  the palette size, the data array of a container, the height maps and the data array of a chunk packet, the array /
  list / string lengths of the typed nbt decoder, the String frame of a JSON text component — is proved here from the
  models.
-/
import GoMC.Lemmas.NoPanic
import GoMC.Lemmas.Palette
import GoMC.Lemmas.ChunkWire
import GoMC.Lemmas.NBTField
import GoMC.Lemmas.NBTTotal
import GoMC.Lemmas.Chat
import GoMC.Model.ChatWire
import GoMC.Props.C02
import GoMC.Props.C17
namespace GoMC.Lemmas.C08
open GoMC GoMC.Model GoMC.Spec
open GoMC.Lemmas hiding noPanic_readAll noPanic_readByte1 noPanic_bool noPanic_byte noPanic_fix noPanic_varLongRead noPanic_string noPanic_byteArray noPanic_longs noPanic_bitSet noPanic_position noPanic_plugin noPanic_lenDec noPanic_decElems noPanic_ary noPanic_option noPanic_pair noPanic_codec
open GoMC.Model.Chunk GoMC.Lemmas.ChunkWire

/-! ### paletted container -/

theorem neg_palette_size (c : Container) (s s1 s2 : Stream) (b : Byte) (h : Bool) (vals : List Int) (cap : Nat) (bits : Int)
    (size : BitVec 32) (n : Nat)
    (hb : Rd.readByte s = (Res.ok b, s1))
    (hp : c.cfg.create (b.toNat : Int) = .indirect h vals cap bits)
    (hv : varIntRead s1 = (Res.ok (size, n), s2))
    (hbad : size.toInt < 0 ∨ size.toInt > (2 : Int) ^ bits.toNat) :
    (c.readFrom s).1 = Res.err ∧ (c.readFrom s).2.2 = s2 := by
  have hpal : (Pal.indirect h vals cap bits).readFrom s1 = (Res.err, Pal.indirect h vals cap bits, s2) := by
    simp only [Pal.readFrom, hv]
    rcases hbad with h1 | h2
    · simp [h1]
    · by_cases h1 : size.toInt < 0
      · simp [h1]
      · simp [h1, h2]
  unfold Container.readFrom
  rw [hb]
  simp only [hp, hpal, and_self]

theorem neg_palette_data (c : Container) (s s1 s2 s3 : Stream) (b : Byte) (n1 : Nat) (p : Pal) (l : BitVec 32) (n : Nat)
    (hb : Rd.readByte s = (Res.ok b, s1))
    (hp : (c.cfg.create (b.toNat : Int)).readFrom s1 = (Res.ok n1, p, s2))
    (hl : varIntRead s2 = (Res.ok (l, n), s3)) (hneg : l.toInt < 0) :
    (c.readFrom s).1 = Res.err ∧ (c.readFrom s).2.2 = s3 := by
  unfold Container.readFrom
  rw [hb]
  simp only [hp]
  rw [neg_readFrom c.data hl hneg]
  exact ⟨rfl, rfl⟩

/-! ### chunk packet -/

theorem newHeightMap_ok_len (bits : Int) (d : Longs) (want : Int) (b : BitStorage)
    (hw : calcBitStorageSize bits 256 = .ok want) (h : newHeightMap bits (some d) = .ok b) : (d.length : Int) = want := by
  unfold newHeightMap at h
  simp only [hw] at h
  by_cases hl : (d.length : Int) ≠ want
  · simp [hl] at h
  · exact Decidable.not_not.mp hl

theorem finish_badHeightMap (gbS gbB : Int) (c : Chunk) (r : ChunkRep) (d : Longs) (want : Int)
    (hw : calcBitStorageSize (hmBitsOf c.secs.length) 256 = .ok want)
    (hbad : (r.1.1 = some d ∨ r.1.2 = some d) ∧ (d.length : Int) ≠ want) : ∀ c', Chunk.finish gbS gbB c r ≠ .ok c' := by
  intro c' hc
  unfold Chunk.finish at hc
  cases h1 : newHeightMap (hmBitsOf c.secs.length) r.1.1 with
  | ok mb =>
    cases h2 : newHeightMap (hmBitsOf c.secs.length) r.1.2 with
    | ok ws =>
      rcases hbad.1 with e | e
      · rw [e] at h1; exact hbad.2 (newHeightMap_ok_len _ d want mb hw h1)
      · rw [e] at h2; exact hbad.2 (newHeightMap_ok_len _ d want ws hw h2)
    | err => simp [h1, h2] at hc
    | panic => simp [h1, h2] at hc
  | err => simp [h1] at hc
  | panic => simp [h1] at hc

theorem neg_chunk_heightmap (gbS gbB : Int) (fuel : Nat) (c : Chunk) (hc : ChunkSane c) (s s' : Stream) (r : ChunkRep) (n : Nat)
    (d : Longs) (want : Int)
    (hdec : (chunkRepC fuel).dec ((none, none), Slice.nil, c.ents, freshLight) s = (Res.ok (r, n), s'))
    (hw : calcBitStorageSize (hmBitsOf c.secs.length) 256 = .ok want)
    (hbad : (r.1.1 = some d ∨ r.1.2 = some d) ∧ (d.length : Int) ≠ want) :
    Chunk.readFromF gbS gbB fuel c s = (Res.err, s') := by
  have hnok := finish_badHeightMap gbS gbB c r d want hw hbad
  have hnp := finish_noPanic gbS gbB c hc r
  unfold Chunk.readFromF
  rw [Rd.bind_ok hdec]
  simp only
  cases hf : Chunk.finish gbS gbB c r with
  | ok c' => exact absurd hf (hnok c')
  | err => rfl
  | panic => exact absurd hf hnp

theorem neg_chunk_data (gbS gbB : Int) (fuel : Nat) (c : Chunk) (s s1 s2 : Stream) (hm : HmVal) (n1 : Nat)
    (l : BitVec 32) (n : Nat)
    (h1 : (hmC fuel).dec (none, none) s = (Res.ok (hm, n1), s1))
    (h2 : varIntRead s1 = (Res.ok (l, n), s2)) (hneg : l.toInt < 0) :
    Chunk.readFromF gbS gbB fuel c s = (Res.err, s2) := by
  have hrep : (chunkRepC fuel).dec ((none, none), Slice.nil, c.ents, freshLight) s = (Res.err, s2) := by
    show pairDec (hmC fuel) (pairC byteArrayC (pairC (aryC .varint (entC fuel)) lightC)) _ s = _
    unfold pairDec
    rw [Rd.bind_ok h1]
    simp only
    have : (pairC byteArrayC (pairC (aryC .varint (entC fuel)) lightC)).dec (Slice.nil, c.ents, freshLight) s1 = (Res.err, s2) := by
      show pairDec byteArrayC (pairC (aryC .varint (entC fuel)) lightC) _ s1 = _
      unfold pairDec
      have hb : byteArrayC.dec Slice.nil s1 = (Res.err, s2) := neg_byteArray Slice.nil h2 hneg
      rw [Rd.bind_err hb]
    rw [Rd.bind_err this]
  unfold Chunk.readFromF
  rw [Rd.bind_err hrep]

/-! ### typed nbt, JSON text component, typed registries -/

theorem neg_arrayLen (s s' : Stream) (n : BitVec 32) (h : NBT.readInt32 s = (Res.ok n, s')) (hneg : n.msb = true) :
    Go.arrayLen s = (Res.err, s') := by
  unfold Go.arrayLen
  rw [Rd.bind_ok h]
  simp [hneg, Rd.fail]

theorem neg_listHeader (s s1 s2 : Stream) (lt : Byte) (n : BitVec 32) (h1 : Rd.readByte s = (Res.ok lt, s1))
    (h2 : NBT.readInt32 s1 = (Res.ok n, s2)) (hneg : n.msb = true) : (Go.listHeader s).1 = Res.err := by
  unfold Go.listHeader
  rw [Rd.bind_ok h1]
  by_cases hl : lt.toNat > 12
  · simp [hl, Rd.fail]
  · simp only [hl, if_false]
    rw [Rd.bind_ok h2]
    simp [hneg, Rd.fail]

theorem neg_readString (s s' : Stream) (n : BitVec 16) (h : NBT.readInt16 s = (Res.ok n, s')) (hneg : n.msb = true) :
    NBT.readString s = (Res.err, s') := by
  unfold NBT.readString
  rw [Rd.bind_ok h]
  simp [hneg, Rd.fail]

/-- a byte / int / long array with a negative length decoded into ANY slice type: an error -/
theorem neg_umSlice (rec : Go.Rec) (e : Go.GoType) (old : Go.GoVal) (tag : Byte) (s s' : Stream) (n : BitVec 32)
    (htag : tag = 7#8 ∨ tag = 11#8 ∨ tag = 12#8)
    (h : NBT.readInt32 s = (Res.ok n, s')) (hneg : n.msb = true) : (Go.umSlice rec e old tag s).1 = Res.err := by
  have ha := neg_arrayLen s s' n h hneg
  have hr : (NBT.refuse tag s).1 = Res.err := by
    rcases htag with rfl | rfl | rfl
    · show (NBT.refuse 7#8 s).1 = _
      unfold NBT.refuse
      simp only [show (7#8 : Byte).toNat = 7 from rfl]
      rw [Rd.bind_ok h]; simp [hneg, Rd.fail]
    · unfold NBT.refuse
      simp only [show (11#8 : Byte).toNat = 11 from rfl]
      rw [Rd.bind_ok h]; rfl
    · unfold NBT.refuse
      simp only [show (12#8 : Byte).toNat = 12 from rfl]
      rw [Rd.bind_ok h]; rfl
  have hg : (Go.refuseG (α := Go.GoVal) tag s).1 = Res.err := by
    unfold Go.refuseG
    rw [Rd.bind_apply]
    rcases hx : NBT.refuse tag s with ⟨r, s2⟩
    rw [hx] at hr
    simp only at hr
    subst hr
    rfl
  rcases htag with rfl | rfl | rfl
  · unfold Go.umSlice
    simp only [show (7#8 : Byte).toNat = 7 from rfl]
    split
    · rw [Rd.bind_err ha]
    · exact hg
  · unfold Go.umSlice
    simp only [show (11#8 : Byte).toNat = 11 from rfl]
    split
    · rw [Rd.bind_err ha]
    · exact hg
  · unfold Go.umSlice
    simp only [show (12#8 : Byte).toNat = 12 from rfl]
    split
    · rw [Rd.bind_err ha]
    · exact hg

open GoMC.Model.Chat in
theorem total_chat_json (parse : Bytes → Option JSON) (d : Msg) (s : Stream) : (jsonMessageRead parse d s).1 ≠ Res.panic := by
  unfold jsonMessageRead
  rw [Rd.bind_apply]
  have hs := noPanic_string [] s
  rcases h : stringDec [] s with ⟨r, s'⟩
  rw [h] at hs
  cases r with
  | ok v =>
    obtain ⟨code, n⟩ := v
    simp only
    cases parse code with
    | none => simp [Rd.fail]
    | some t =>
      simp only
      have := GoMC.Props.C17.C17_json_decode_never_panics t d
      cases hu : unmarshalInto t d with
      | ok m => simp
      | err => simp [Rd.fail]
      | panic => exact absurd hu this
  | err => simp
  | panic => exact absurd rfl hs

open GoMC.Model.Chat in
theorem neg_chat_json (parse : Bytes → Option JSON) (d : Msg) (s s1 : Stream) (l : BitVec 32) (n : Nat)
    (h : varIntRead s = (Res.ok (l, n), s1)) (hneg : l.toInt < 0) : jsonMessageRead parse d s = (Res.err, s1) := by
  unfold jsonMessageRead
  rw [Rd.bind_err (neg_string [] h hneg)]

theorem total_registry_typed (cx : Go.SnbtCarrier) (hsn : ∀ tag s, (cx.unmarshal tag s).1 ≠ Res.panic) (ty : Go.GoType) (s : Stream) :
    (Registry.readFrom (Go.fieldRead cx true ty ty.zero) s).1 ≠ Res.panic :=
  noPanic_regReadFrom _ (fun s => GoMC.Props.C02.C02_field_read_no_panic cx true ty ty.zero
    (fun tag s => GoMC.Props.DYNBT.DYNBT_total tag s) hsn (GoMC.Lemmas.NBTTotal.zero_good ty) s) s

end GoMC.Lemmas.C08
