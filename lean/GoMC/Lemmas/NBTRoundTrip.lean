/-
  Round trip of the typed codec, compositionally. `ElemExact cx c ok val need` says that for the trees of a class
  `ok`, decoding the payload of `t` into a fresh variable of type `c` yields exactly `val t` and encoding `val t`
  writes exactly the payload of `t` (tag `t.tag`). This file has the base classes: the scalars, strings, typed arrays
  and the carriers. The closure under slices, arrays, maps, pointers and structs is in `Lemmas/NBTFragment`.
-/
import GoMC.Lemmas.NBTCarrier
set_option linter.unusedSimpArgs false
namespace GoMC.Lemmas.NBTTyped
open GoMC GoMC.Rd GoMC.Model GoMC.Model.NBT GoMC.Model.Go GoMC.Lemmas.NBTDecode
open GoMC.Spec (NBT encPayload encList encKvs encString encDoc be16 be32 be64 beBytes beVal Format docName)

/-- A class of trees `ok` for a destination type `c`, with the value `val t` a tree stands for: decoding the
payload of `t` into a fresh `c` yields `val t` (exactly the payload consumed), `getTagType` of `val t` is `t`'s
tag, and `marshal` writes the payload back — given `need t` units of fuel. -/
structure ElemExact (cx : SnbtCarrier) (c : GoType) (ok : NBT → Prop) (val : NBT → GoVal) (need : NBT → Nat) : Prop where
  zeroTy : c.zero.typeOf = c
  reads : ∀ d fuel t, ok t → R (cost t ≤ fuel) (unmarshal cx d fuel c c.zero t.tag) (encPayload t) (val t)
  getTag : ∀ f t, ok t → need t ≤ f → getTagType cx f (val t) = (t.tag, val t)
  marshal : ∀ f t, ok t → need t ≤ f → marshal cx f (val t) t.tag = Res.ok (encPayload t)
  needPos : ∀ t, ok t → 1 ≤ need t

/-- maximum of `need` over a list of trees -/
def needMax (need : NBT → Nat) : List NBT → Nat
  | [] => 0
  | t :: ts => max (need t) (needMax need ts)

theorem le_needMax {need : NBT → Nat} {t : NBT} : ∀ {ts : List NBT}, t ∈ ts → need t ≤ needMax need ts
  | [], h => by cases h
  | x :: xs, h => by
    simp only [needMax]
    rcases List.mem_cons.mp h with rfl | h'
    · omega
    · have := le_needMax (need := need) h'; omega

theorem cost_le_costList {t : NBT} : ∀ {ts : List NBT}, t ∈ ts → cost t + 1 ≤ costList ts
  | [], h => by cases h
  | x :: xs, h => by
    simp only [costList]
    rcases List.mem_cons.mp h with rfl | h'
    · omega
    · have := cost_le_costList h'; omega


theorem cost_le_costKvs {kv : Bytes × NBT} : ∀ {kvs : List (Bytes × NBT)}, kv ∈ kvs → cost kv.2 + 1 ≤ costKvs kvs
  | [], h => by cases h
  | (k, v) :: kvs, h => by
    simp only [costKvs]
    rcases List.mem_cons.mp h with rfl | h'
    · show cost v + 1 ≤ _; omega
    · have := cost_le_costKvs h'; omega

theorem length_le_costKvs : ∀ kvs : List (Bytes × NBT), kvs.length + 1 ≤ costKvs kvs
  | [] => by simp [costKvs]
  | (k, v) :: kvs => by
    have := length_le_costKvs kvs
    simp only [costKvs, List.length_cons]; omega

/-! ### integers: Go's conversions on the two's-complement pattern -/

theorem toInt_emod8 (v : BitVec 8) : v.toInt % 256 = v.toNat := by
  rw [BitVec.toInt_eq_toNat_cond]; have := v.isLt; split <;> omega
theorem toInt_emod16 (v : BitVec 16) : v.toInt % 65536 = v.toNat := by
  rw [BitVec.toInt_eq_toNat_cond]; have := v.isLt; split <;> omega
theorem toInt_emod32 (v : BitVec 32) : v.toInt % 4294967296 = v.toNat := by
  rw [BitVec.toInt_eq_toNat_cond]; have := v.isLt; split <;> omega
theorem toInt_emod64 (v : BitVec 64) : v.toInt % 18446744073709551616 = v.toNat := by
  rw [BitVec.toInt_eq_toNat_cond]; have := v.isLt; split <;> omega

theorem wrapN1_toInt (v : BitVec 8) : wrapN 1 v.toInt = v.toNat := by
  unfold wrapN; rw [show ((256:Int) ^ 1) = 256 from rfl, toInt_emod8]; rfl
theorem wrapN2_toInt (v : BitVec 16) : wrapN 2 v.toInt = v.toNat := by
  unfold wrapN; rw [show ((256:Int) ^ 2) = 65536 from rfl, toInt_emod16]; rfl
theorem wrapN4_toInt (v : BitVec 32) : wrapN 4 v.toInt = v.toNat := by
  unfold wrapN; rw [show ((256:Int) ^ 4) = 4294967296 from rfl, toInt_emod32]; rfl
theorem wrapN8_toInt (v : BitVec 64) : wrapN 8 v.toInt = v.toNat := by
  unfold wrapN; rw [show ((256:Int) ^ 8) = 18446744073709551616 from rfl, toInt_emod64]; rfl

theorem wrapN1_toNat (v : BitVec 8) : wrapN 1 (v.toNat : Int) = v.toNat := by
  unfold wrapN
  have := v.isLt
  have h : ((v.toNat : Int) % ((256:Int) ^ 1)) = v.toNat := by rw [show ((256:Int) ^ 1) = 256 from rfl]; omega
  rw [h]; rfl
theorem wrapN2_toNat (v : BitVec 16) : wrapN 2 (v.toNat : Int) = v.toNat := by
  unfold wrapN
  have := v.isLt
  have h : ((v.toNat : Int) % ((256:Int) ^ 2)) = v.toNat := by rw [show ((256:Int) ^ 2) = 65536 from rfl]; omega
  rw [h]; rfl
theorem wrapN4_toNat (v : BitVec 32) : wrapN 4 (v.toNat : Int) = v.toNat := by
  unfold wrapN
  have := v.isLt
  have h : ((v.toNat : Int) % ((256:Int) ^ 4)) = v.toNat := by rw [show ((256:Int) ^ 4) = 4294967296 from rfl]; omega
  rw [h]; rfl
theorem wrapN8_toNat (v : BitVec 64) : wrapN 8 (v.toNat : Int) = v.toNat := by
  unfold wrapN
  have := v.isLt
  have h : ((v.toNat : Int) % ((256:Int) ^ 8)) = v.toNat := by
    rw [show ((256:Int) ^ 8) = 18446744073709551616 from rfl]; omega
  rw [h]; rfl

/-- `IK.wrap` (the conversion to the destination kind) on what the decoder read for the kind the value was written from -/
theorem wrap_i8 (v : BitVec 8) : IK.wrap .i8 v.toInt = v.toInt := by
  have he := toInt_emod8 v
  have hc := BitVec.toInt_eq_toNat_cond (x := v)
  have hl := v.isLt
  have hp : ((2:Int) ^ 8) = 256 := rfl
  have hpn : ((2:Nat) ^ 8) = 256 := rfl
  unfold IK.wrap
  simp only [IK.bits, IK.signed, Bool.true_and, hp, he]
  rw [hpn] at hc hl
  split at hc <;> split <;> rename_i h2 <;> simp at h2 <;> omega
theorem wrap_i16 (v : BitVec 16) : IK.wrap .i16 v.toInt = v.toInt := by
  have he := toInt_emod16 v
  have hc := BitVec.toInt_eq_toNat_cond (x := v)
  have hl := v.isLt
  have hp : ((2:Int) ^ 16) = 65536 := rfl
  have hpn : ((2:Nat) ^ 16) = 65536 := rfl
  unfold IK.wrap
  simp only [IK.bits, IK.signed, Bool.true_and, hp, he]
  rw [hpn] at hc hl
  split at hc <;> split <;> rename_i h2 <;> simp at h2 <;> omega
theorem wrap_i32 (v : BitVec 32) : IK.wrap .i32 v.toInt = v.toInt := by
  have he := toInt_emod32 v
  have hc := BitVec.toInt_eq_toNat_cond (x := v)
  have hl := v.isLt
  have hp : ((2:Int) ^ 32) = 4294967296 := rfl
  have hpn : ((2:Nat) ^ 32) = 4294967296 := rfl
  unfold IK.wrap
  simp only [IK.bits, IK.signed, Bool.true_and, hp, he]
  rw [hpn] at hc hl
  split at hc <;> split <;> rename_i h2 <;> simp at h2 <;> omega
theorem wrap_i64 (v : BitVec 64) : IK.wrap .i64 v.toInt = v.toInt := by
  have he := toInt_emod64 v
  have hc := BitVec.toInt_eq_toNat_cond (x := v)
  have hl := v.isLt
  have hp : ((2:Int) ^ 64) = 18446744073709551616 := rfl
  have hpn : ((2:Nat) ^ 64) = 18446744073709551616 := rfl
  unfold IK.wrap
  simp only [IK.bits, IK.signed, Bool.true_and, hp, he]
  rw [hpn] at hc hl
  split at hc <;> split <;> rename_i h2 <;> simp at h2 <;> omega
theorem wrap_u8 (v : BitVec 8) : IK.wrap .u8 v.toInt = v.toNat := by
  have he := toInt_emod8 v
  have hp : ((2:Int) ^ 8) = 256 := rfl
  unfold IK.wrap
  simp only [IK.bits, IK.signed, Bool.false_and, Bool.false_eq_true, if_false, hp, he]
theorem wrap_u16 (v : BitVec 16) : IK.wrap .u16 v.toInt = v.toNat := by
  have he := toInt_emod16 v
  have hp : ((2:Int) ^ 16) = 65536 := rfl
  unfold IK.wrap
  simp only [IK.bits, IK.signed, Bool.false_and, Bool.false_eq_true, if_false, hp, he]
theorem wrap_u32 (v : BitVec 32) : IK.wrap .u32 v.toInt = v.toNat := by
  have he := toInt_emod32 v
  have hp : ((2:Int) ^ 32) = 4294967296 := rfl
  unfold IK.wrap
  simp only [IK.bits, IK.signed, Bool.false_and, Bool.false_eq_true, if_false, hp, he]
theorem wrap_u64 (v : BitVec 64) : IK.wrap .u64 v.toInt = v.toNat := by
  have he := toInt_emod64 v
  have hp : ((2:Int) ^ 64) = 18446744073709551616 := rfl
  unfold IK.wrap
  simp only [IK.bits, IK.signed, Bool.false_and, Bool.false_eq_true, if_false, hp, he]



theorem R_arrayLen (c : Prop) (n : Nat) (hn : n < 2147483648) : R c arrayLen (beBytes 4 n) n := by
  unfold arrayLen
  have : beBytes 4 n = beBytes 4 n ++ [] := by simp
  rw [this, ← be32_ofNat _ hn]
  apply R_bind (R_readInt32 c _)
  rw [msb32_false _ hn, toNat32 _ hn]
  simp only [Bool.false_eq_true, if_false]
  exact R_pure c _

theorem map_id_of {α : Type} (g : α → α) (P : α → Prop) (h : ∀ a, P a → g a = a) :
    ∀ xs : List α, (∀ a ∈ xs, P a) → xs.map g = xs
  | [], _ => rfl
  | x :: xs, hx => by
    rw [List.map_cons, h x (hx x List.mem_cons_self), map_id_of g P h xs (fun a ha => hx a (List.mem_cons_of_mem _ ha))]

/-! ### base classes: scalars and strings -/

/-- trees a fresh `i8` stands for -/
def okI8 : NBT → Prop := fun t => ∃ v, t = .byte v
def valI8 : NBT → GoVal := fun t => match t with | .byte v => .int .i8 v.toInt | _ => .int .i8 0

/-- i8 ↔ tagByte -/
theorem elem_i8 (cx : SnbtCarrier) : ElemExact cx (.int .i8) okI8 valI8 (fun _ => 2) where
  zeroTy := rfl
  needPos := fun _ _ => by omega
  reads := by
    rintro d fuel _ ⟨v, rfl⟩
    dsimp only [valI8]
    cases fuel with
    | zero => unfold unmarshal; exact R_fail (by simp [cost]) _ _
    | succ f =>
      unfold unmarshal
      have h2 : (1 : BitVec 8).toNat = 1 := rfl
      simp only [NBT.tag, NBT.tagByte, umInt, h2, intAccepts, encPayload, readInt8]
      have := R_map (fun x : BitVec 8 => GoVal.int .i8 (IK.wrap .i8 x.toInt)) (R_readByte (cost (.byte v) ≤ f + 1) v)
      rw [wrap_i8] at this
      exact this
  getTag := by
    rintro f _ ⟨v, rfl⟩ hf
    dsimp only [valI8]
    obtain ⟨f', rfl⟩ : ∃ f', f = f' + 1 := ⟨f - 1, by omega⟩
    simp [getTagType, tagOfType, GoVal.typeOf, NBT.tag, NBT.tagByte]
  marshal := by
    rintro f _ ⟨v, rfl⟩ hf
    dsimp only [valI8]
    obtain ⟨f', rfl⟩ : ∃ f', f = f' + 2 := ⟨f - 2, by omega⟩
    have h2 : (1 : BitVec 8).toNat = 1 := rfl
    simp only [Go.marshal, GoVal.isCarrier, GoVal.typeOf, GoType.isCarrier, Bool.false_eq_true, if_false,
      NBT.tag, NBT.tagByte, writeValue, h2, wrapN1_toInt, encPayload, BitVec.ofNat_toNat, BitVec.setWidth_eq]

/-- trees a fresh `u8` stands for -/
def okU8 : NBT → Prop := fun t => ∃ v, t = .byte v
def valU8 : NBT → GoVal := fun t => match t with | .byte v => .int .u8 v.toNat | _ => .int .u8 0

/-- u8 ↔ tagByte -/
theorem elem_u8 (cx : SnbtCarrier) : ElemExact cx (.int .u8) okU8 valU8 (fun _ => 2) where
  zeroTy := rfl
  needPos := fun _ _ => by omega
  reads := by
    rintro d fuel _ ⟨v, rfl⟩
    dsimp only [valU8]
    cases fuel with
    | zero => unfold unmarshal; exact R_fail (by simp [cost]) _ _
    | succ f =>
      unfold unmarshal
      have h2 : (1 : BitVec 8).toNat = 1 := rfl
      simp only [NBT.tag, NBT.tagByte, umInt, h2, intAccepts, encPayload, readInt8]
      have := R_map (fun x : BitVec 8 => GoVal.int .u8 (IK.wrap .u8 x.toInt)) (R_readByte (cost (.byte v) ≤ f + 1) v)
      rw [wrap_u8] at this
      exact this
  getTag := by
    rintro f _ ⟨v, rfl⟩ hf
    dsimp only [valU8]
    obtain ⟨f', rfl⟩ : ∃ f', f = f' + 1 := ⟨f - 1, by omega⟩
    simp [getTagType, tagOfType, GoVal.typeOf, NBT.tag, NBT.tagByte]
  marshal := by
    rintro f _ ⟨v, rfl⟩ hf
    dsimp only [valU8]
    obtain ⟨f', rfl⟩ : ∃ f', f = f' + 2 := ⟨f - 2, by omega⟩
    have h2 : (1 : BitVec 8).toNat = 1 := rfl
    simp only [Go.marshal, GoVal.isCarrier, GoVal.typeOf, GoType.isCarrier, Bool.false_eq_true, if_false,
      NBT.tag, NBT.tagByte, writeValue, h2, wrapN1_toNat, encPayload, BitVec.ofNat_toNat, BitVec.setWidth_eq]

/-- trees a fresh `i16` stands for -/
def okI16 : NBT → Prop := fun t => ∃ v, t = .short v
def valI16 : NBT → GoVal := fun t => match t with | .short v => .int .i16 v.toInt | _ => .int .i16 0

/-- i16 ↔ tagShort -/
theorem elem_i16 (cx : SnbtCarrier) : ElemExact cx (.int .i16) okI16 valI16 (fun _ => 2) where
  zeroTy := rfl
  needPos := fun _ _ => by omega
  reads := by
    rintro d fuel _ ⟨v, rfl⟩
    dsimp only [valI16]
    cases fuel with
    | zero => unfold unmarshal; exact R_fail (by simp [cost]) _ _
    | succ f =>
      unfold unmarshal
      have h2 : (2 : BitVec 8).toNat = 2 := rfl
      simp only [NBT.tag, NBT.tagShort, umInt, h2, intAccepts, IK.bits, encPayload]
      simp only [show (16 ≥ 16) = True from by decide, decide_true, if_true]
      have := R_map (fun x : BitVec 16 => GoVal.int .i16 (IK.wrap .i16 x.toInt)) (R_readInt16 (cost (.short v) ≤ f + 1) v)
      rw [wrap_i16] at this
      exact this
  getTag := by
    rintro f _ ⟨v, rfl⟩ hf
    dsimp only [valI16]
    obtain ⟨f', rfl⟩ : ∃ f', f = f' + 1 := ⟨f - 1, by omega⟩
    simp [getTagType, tagOfType, GoVal.typeOf, NBT.tag, NBT.tagShort]
  marshal := by
    rintro f _ ⟨v, rfl⟩ hf
    dsimp only [valI16]
    obtain ⟨f', rfl⟩ : ∃ f', f = f' + 2 := ⟨f - 2, by omega⟩
    have h2 : (2 : BitVec 8).toNat = 2 := rfl
    simp only [Go.marshal, GoVal.isCarrier, GoVal.typeOf, GoType.isCarrier, Bool.false_eq_true, if_false,
      NBT.tag, NBT.tagShort, writeValue, h2, intValue, wrapN2_toInt, beN_eq, encPayload, be16]

/-- trees a fresh `u16` stands for -/
def okU16 : NBT → Prop := fun t => ∃ v, t = .short v
def valU16 : NBT → GoVal := fun t => match t with | .short v => .int .u16 v.toNat | _ => .int .u16 0

/-- u16 ↔ tagShort -/
theorem elem_u16 (cx : SnbtCarrier) : ElemExact cx (.int .u16) okU16 valU16 (fun _ => 2) where
  zeroTy := rfl
  needPos := fun _ _ => by omega
  reads := by
    rintro d fuel _ ⟨v, rfl⟩
    dsimp only [valU16]
    cases fuel with
    | zero => unfold unmarshal; exact R_fail (by simp [cost]) _ _
    | succ f =>
      unfold unmarshal
      have h2 : (2 : BitVec 8).toNat = 2 := rfl
      simp only [NBT.tag, NBT.tagShort, umInt, h2, intAccepts, IK.bits, encPayload]
      simp only [show (16 ≥ 16) = True from by decide, decide_true, if_true]
      have := R_map (fun x : BitVec 16 => GoVal.int .u16 (IK.wrap .u16 x.toInt)) (R_readInt16 (cost (.short v) ≤ f + 1) v)
      rw [wrap_u16] at this
      exact this
  getTag := by
    rintro f _ ⟨v, rfl⟩ hf
    dsimp only [valU16]
    obtain ⟨f', rfl⟩ : ∃ f', f = f' + 1 := ⟨f - 1, by omega⟩
    simp [getTagType, tagOfType, GoVal.typeOf, NBT.tag, NBT.tagShort]
  marshal := by
    rintro f _ ⟨v, rfl⟩ hf
    dsimp only [valU16]
    obtain ⟨f', rfl⟩ : ∃ f', f = f' + 2 := ⟨f - 2, by omega⟩
    have h2 : (2 : BitVec 8).toNat = 2 := rfl
    simp only [Go.marshal, GoVal.isCarrier, GoVal.typeOf, GoType.isCarrier, Bool.false_eq_true, if_false,
      NBT.tag, NBT.tagShort, writeValue, h2, intValue, wrapN2_toNat, beN_eq, encPayload, be16]

/-- trees a fresh `i32` stands for -/
def okI32 : NBT → Prop := fun t => ∃ v, t = .int v
def valI32 : NBT → GoVal := fun t => match t with | .int v => .int .i32 v.toInt | _ => .int .i32 0

/-- i32 ↔ tagInt -/
theorem elem_i32 (cx : SnbtCarrier) : ElemExact cx (.int .i32) okI32 valI32 (fun _ => 2) where
  zeroTy := rfl
  needPos := fun _ _ => by omega
  reads := by
    rintro d fuel _ ⟨v, rfl⟩
    dsimp only [valI32]
    cases fuel with
    | zero => unfold unmarshal; exact R_fail (by simp [cost]) _ _
    | succ f =>
      unfold unmarshal
      have h2 : (3 : BitVec 8).toNat = 3 := rfl
      simp only [NBT.tag, NBT.tagInt, umInt, h2, intAccepts, IK.bits, encPayload]
      simp only [show (32 ≥ 32) = True from by decide, decide_true, if_true]
      have := R_map (fun x : BitVec 32 => GoVal.int .i32 (IK.wrap .i32 x.toInt)) (R_readInt32 (cost (.int v) ≤ f + 1) v)
      rw [wrap_i32] at this
      exact this
  getTag := by
    rintro f _ ⟨v, rfl⟩ hf
    dsimp only [valI32]
    obtain ⟨f', rfl⟩ : ∃ f', f = f' + 1 := ⟨f - 1, by omega⟩
    simp [getTagType, tagOfType, GoVal.typeOf, NBT.tag, NBT.tagInt]
  marshal := by
    rintro f _ ⟨v, rfl⟩ hf
    dsimp only [valI32]
    obtain ⟨f', rfl⟩ : ∃ f', f = f' + 2 := ⟨f - 2, by omega⟩
    have h2 : (3 : BitVec 8).toNat = 3 := rfl
    simp only [Go.marshal, GoVal.isCarrier, GoVal.typeOf, GoType.isCarrier, Bool.false_eq_true, if_false,
      NBT.tag, NBT.tagInt, writeValue, h2, intValue, wrapN4_toInt, beN_eq, encPayload, be32]

/-- trees a fresh `u32` stands for -/
def okU32 : NBT → Prop := fun t => ∃ v, t = .int v
def valU32 : NBT → GoVal := fun t => match t with | .int v => .int .u32 v.toNat | _ => .int .u32 0

/-- u32 ↔ tagInt -/
theorem elem_u32 (cx : SnbtCarrier) : ElemExact cx (.int .u32) okU32 valU32 (fun _ => 2) where
  zeroTy := rfl
  needPos := fun _ _ => by omega
  reads := by
    rintro d fuel _ ⟨v, rfl⟩
    dsimp only [valU32]
    cases fuel with
    | zero => unfold unmarshal; exact R_fail (by simp [cost]) _ _
    | succ f =>
      unfold unmarshal
      have h2 : (3 : BitVec 8).toNat = 3 := rfl
      simp only [NBT.tag, NBT.tagInt, umInt, h2, intAccepts, IK.bits, encPayload]
      simp only [show (32 ≥ 32) = True from by decide, decide_true, if_true]
      have := R_map (fun x : BitVec 32 => GoVal.int .u32 (IK.wrap .u32 x.toInt)) (R_readInt32 (cost (.int v) ≤ f + 1) v)
      rw [wrap_u32] at this
      exact this
  getTag := by
    rintro f _ ⟨v, rfl⟩ hf
    dsimp only [valU32]
    obtain ⟨f', rfl⟩ : ∃ f', f = f' + 1 := ⟨f - 1, by omega⟩
    simp [getTagType, tagOfType, GoVal.typeOf, NBT.tag, NBT.tagInt]
  marshal := by
    rintro f _ ⟨v, rfl⟩ hf
    dsimp only [valU32]
    obtain ⟨f', rfl⟩ : ∃ f', f = f' + 2 := ⟨f - 2, by omega⟩
    have h2 : (3 : BitVec 8).toNat = 3 := rfl
    simp only [Go.marshal, GoVal.isCarrier, GoVal.typeOf, GoType.isCarrier, Bool.false_eq_true, if_false,
      NBT.tag, NBT.tagInt, writeValue, h2, intValue, wrapN4_toNat, beN_eq, encPayload, be32]

/-- trees a fresh `i64` stands for -/
def okI64 : NBT → Prop := fun t => ∃ v, t = .long v
def valI64 : NBT → GoVal := fun t => match t with | .long v => .int .i64 v.toInt | _ => .int .i64 0

/-- i64 ↔ tagLong -/
theorem elem_i64 (cx : SnbtCarrier) : ElemExact cx (.int .i64) okI64 valI64 (fun _ => 2) where
  zeroTy := rfl
  needPos := fun _ _ => by omega
  reads := by
    rintro d fuel _ ⟨v, rfl⟩
    dsimp only [valI64]
    cases fuel with
    | zero => unfold unmarshal; exact R_fail (by simp [cost]) _ _
    | succ f =>
      unfold unmarshal
      have h2 : (4 : BitVec 8).toNat = 4 := rfl
      simp only [NBT.tag, NBT.tagLong, umInt, h2, intAccepts, IK.bits, encPayload]
      simp only [show (64 ≥ 64) = True from by decide, decide_true, if_true]
      have := R_map (fun x : BitVec 64 => GoVal.int .i64 (IK.wrap .i64 x.toInt)) (R_readInt64 (cost (.long v) ≤ f + 1) v)
      rw [wrap_i64] at this
      exact this
  getTag := by
    rintro f _ ⟨v, rfl⟩ hf
    dsimp only [valI64]
    obtain ⟨f', rfl⟩ : ∃ f', f = f' + 1 := ⟨f - 1, by omega⟩
    simp [getTagType, tagOfType, GoVal.typeOf, NBT.tag, NBT.tagLong]
  marshal := by
    rintro f _ ⟨v, rfl⟩ hf
    dsimp only [valI64]
    obtain ⟨f', rfl⟩ : ∃ f', f = f' + 2 := ⟨f - 2, by omega⟩
    have h2 : (4 : BitVec 8).toNat = 4 := rfl
    simp only [Go.marshal, GoVal.isCarrier, GoVal.typeOf, GoType.isCarrier, Bool.false_eq_true, if_false,
      NBT.tag, NBT.tagLong, writeValue, h2, intValue, wrapN8_toInt, beN_eq, encPayload, be64]

/-- trees a fresh `u64` stands for -/
def okU64 : NBT → Prop := fun t => ∃ v, t = .long v
def valU64 : NBT → GoVal := fun t => match t with | .long v => .int .u64 v.toNat | _ => .int .u64 0

/-- u64 ↔ tagLong -/
theorem elem_u64 (cx : SnbtCarrier) : ElemExact cx (.int .u64) okU64 valU64 (fun _ => 2) where
  zeroTy := rfl
  needPos := fun _ _ => by omega
  reads := by
    rintro d fuel _ ⟨v, rfl⟩
    dsimp only [valU64]
    cases fuel with
    | zero => unfold unmarshal; exact R_fail (by simp [cost]) _ _
    | succ f =>
      unfold unmarshal
      have h2 : (4 : BitVec 8).toNat = 4 := rfl
      simp only [NBT.tag, NBT.tagLong, umInt, h2, intAccepts, IK.bits, encPayload]
      simp only [show (64 ≥ 64) = True from by decide, decide_true, if_true]
      have := R_map (fun x : BitVec 64 => GoVal.int .u64 (IK.wrap .u64 x.toInt)) (R_readInt64 (cost (.long v) ≤ f + 1) v)
      rw [wrap_u64] at this
      exact this
  getTag := by
    rintro f _ ⟨v, rfl⟩ hf
    dsimp only [valU64]
    obtain ⟨f', rfl⟩ : ∃ f', f = f' + 1 := ⟨f - 1, by omega⟩
    simp [getTagType, tagOfType, GoVal.typeOf, NBT.tag, NBT.tagLong]
  marshal := by
    rintro f _ ⟨v, rfl⟩ hf
    dsimp only [valU64]
    obtain ⟨f', rfl⟩ : ∃ f', f = f' + 2 := ⟨f - 2, by omega⟩
    have h2 : (4 : BitVec 8).toNat = 4 := rfl
    simp only [Go.marshal, GoVal.isCarrier, GoVal.typeOf, GoType.isCarrier, Bool.false_eq_true, if_false,
      NBT.tag, NBT.tagLong, writeValue, h2, intValue, wrapN8_toNat, beN_eq, encPayload, be64]

def okBool : NBT → Prop := fun t => t = .byte 0 ∨ t = .byte 1
def valBool : NBT → GoVal := fun t => match t with | .byte v => .bool (v != 0) | _ => .bool false

/-- bool ↔ TagByte 0 / 1 -/
theorem elem_bool (cx : SnbtCarrier) : ElemExact cx .bool okBool valBool (fun _ => 2) where
  zeroTy := rfl
  needPos := fun _ _ => by omega
  reads := by
    intro d fuel t ht
    obtain ⟨v, rfl⟩ : ∃ v, t = .byte v := by rcases ht with rfl | rfl <;> exact ⟨_, rfl⟩
    dsimp only [valBool]
    cases fuel with
    | zero => unfold unmarshal; exact R_fail (by simp [cost]) _ _
    | succ f =>
      unfold unmarshal
      have h2 : (1 : BitVec 8).toNat = 1 := rfl
      simp only [NBT.tag, NBT.tagByte, umBool, h2, encPayload, readInt8]
      exact R_map (fun x : BitVec 8 => GoVal.bool (x != 0)) (R_readByte (cost (.byte v) ≤ f + 1) v)
  getTag := by
    intro f t ht hf
    obtain ⟨f', rfl⟩ : ∃ f', f = f' + 1 := ⟨f - 1, by omega⟩
    rcases ht with rfl | rfl <;> simp [valBool, getTagType, tagOfType, GoVal.typeOf, NBT.tag, NBT.tagByte]
  marshal := by
    intro f t ht hf
    obtain ⟨f', rfl⟩ : ∃ f', f = f' + 2 := ⟨f - 2, by omega⟩
    have h2 : (1 : BitVec 8).toNat = 1 := rfl
    rcases ht with rfl | rfl <;>
    simp only [valBool, Go.marshal, GoVal.isCarrier, GoVal.typeOf, GoType.isCarrier, Bool.false_eq_true, if_false,
      NBT.tag, NBT.tagByte, writeValue, h2, encPayload] <;> rfl

def okF32 : NBT → Prop := fun t => ∃ v, t = .float v
def valF32 : NBT → GoVal := fun t => match t with | .float v => .f32 v | _ => .f32 0

/-- f32 ↔ tagFloat -/
theorem elem_f32 (cx : SnbtCarrier) : ElemExact cx .f32 okF32 valF32 (fun _ => 2) where
  zeroTy := rfl
  needPos := fun _ _ => by omega
  reads := by
    rintro d fuel _ ⟨v, rfl⟩
    dsimp only [valF32]
    cases fuel with
    | zero => unfold unmarshal; exact R_fail (by simp [cost]) _ _
    | succ f =>
      unfold unmarshal
      have h2 : (5 : BitVec 8).toNat = 5 := rfl
      simp only [NBT.tag, NBT.tagFloat, umF32, h2, encPayload]
      exact R_map _ (R_readInt32 (cost (.float v) ≤ f + 1) v)
  getTag := by
    rintro f _ ⟨v, rfl⟩ hf
    dsimp only [valF32]
    obtain ⟨f', rfl⟩ : ∃ f', f = f' + 1 := ⟨f - 1, by omega⟩
    simp [getTagType, tagOfType, GoVal.typeOf, NBT.tag, NBT.tagFloat]
  marshal := by
    rintro f _ ⟨v, rfl⟩ hf
    dsimp only [valF32]
    obtain ⟨f', rfl⟩ : ∃ f', f = f' + 2 := ⟨f - 2, by omega⟩
    have h2 : (5 : BitVec 8).toNat = 5 := rfl
    simp only [Go.marshal, GoVal.isCarrier, GoVal.typeOf, GoType.isCarrier, Bool.false_eq_true, if_false,
      NBT.tag, NBT.tagFloat, writeValue, h2, beN_eq, encPayload, be32]

def okF64 : NBT → Prop := fun t => ∃ v, t = .double v
def valF64 : NBT → GoVal := fun t => match t with | .double v => .f64 v | _ => .f64 0

/-- f64 ↔ tagDouble -/
theorem elem_f64 (cx : SnbtCarrier) : ElemExact cx .f64 okF64 valF64 (fun _ => 2) where
  zeroTy := rfl
  needPos := fun _ _ => by omega
  reads := by
    rintro d fuel _ ⟨v, rfl⟩
    dsimp only [valF64]
    cases fuel with
    | zero => unfold unmarshal; exact R_fail (by simp [cost]) _ _
    | succ f =>
      unfold unmarshal
      have h2 : (6 : BitVec 8).toNat = 6 := rfl
      simp only [NBT.tag, NBT.tagDouble, umF64, h2, encPayload]
      exact R_map _ (R_readInt64 (cost (.double v) ≤ f + 1) v)
  getTag := by
    rintro f _ ⟨v, rfl⟩ hf
    dsimp only [valF64]
    obtain ⟨f', rfl⟩ : ∃ f', f = f' + 1 := ⟨f - 1, by omega⟩
    simp [getTagType, tagOfType, GoVal.typeOf, NBT.tag, NBT.tagDouble]
  marshal := by
    rintro f _ ⟨v, rfl⟩ hf
    dsimp only [valF64]
    obtain ⟨f', rfl⟩ : ∃ f', f = f' + 2 := ⟨f - 2, by omega⟩
    have h2 : (6 : BitVec 8).toNat = 6 := rfl
    simp only [Go.marshal, GoVal.isCarrier, GoVal.typeOf, GoType.isCarrier, Bool.false_eq_true, if_false,
      NBT.tag, NBT.tagDouble, writeValue, h2, beN_eq, encPayload, be64]

def okStr : NBT → Prop := fun t => ∃ s, t = .string s ∧ s.length < 32768
def valStr : NBT → GoVal := fun t => match t with | .string s => .str s | _ => .str []

/-- str ↔ tagString -/
theorem elem_str (cx : SnbtCarrier) : ElemExact cx .str okStr valStr (fun _ => 2) where
  zeroTy := rfl
  needPos := fun _ _ => by omega
  reads := by
    rintro d fuel _ ⟨v, rfl, hs⟩
    dsimp only [valStr]
    cases fuel with
    | zero => unfold unmarshal; exact R_fail (by simp [cost]) _ _
    | succ f =>
      unfold unmarshal
      have h2 : (8 : BitVec 8).toNat = 8 := rfl
      simp only [NBT.tag, NBT.tagString, umStr, h2, encPayload]
      exact R_map _ (R_readString (cost (.string v) ≤ f + 1) v hs)
  getTag := by
    rintro f _ ⟨v, rfl, hs⟩ hf
    dsimp only [valStr]
    obtain ⟨f', rfl⟩ : ∃ f', f = f' + 1 := ⟨f - 1, by omega⟩
    simp [getTagType, tagOfType, GoVal.typeOf, NBT.tag, NBT.tagString]
  marshal := by
    rintro f _ ⟨v, rfl, hs⟩ hf
    dsimp only [valStr]
    obtain ⟨f', rfl⟩ : ∃ f', f = f' + 2 := ⟨f - 2, by omega⟩
    have h2 : (8 : BitVec 8).toNat = 8 := rfl
    have hl : ¬ v.length > 32767 := by omega
    simp only [Go.marshal, GoVal.isCarrier, GoVal.typeOf, GoType.isCarrier, Bool.false_eq_true, if_false,
      NBT.tag, NBT.tagString, writeValue, h2, beN_eq, encPayload, hl, encString]

/-! ### base classes: typed arrays -/

def okBytesI8 : NBT → Prop := fun t => ∃ xs, t = .byteArray xs ∧ xs.length < 2147483648 ∧ ∀ b ∈ xs, True
def valBytesI8 : NBT → GoVal := fun t => match t with
  | .byteArray xs => .slice (.int .i8) (true && xs.isEmpty) (xs.map fun b => GoVal.int .i8 b.toInt)
  | _ => .slice (.int .i8) false []

/-- `[]i8` ↔ TagByteArray -/
theorem elem_bytes_i8 (cx : SnbtCarrier) :
    ElemExact cx (.slice (.int .i8)) okBytesI8 valBytesI8 (fun _ => 3) where
  zeroTy := rfl
  needPos := fun _ _ => by omega
  reads := by
    rintro d fuel _ ⟨xs, rfl, hl, _⟩
    dsimp only [valBytesI8]
    cases fuel with
    | zero => unfold unmarshal; exact R_fail (by simp [cost]) _ _
    | succ f =>
      unfold unmarshal
      have h7 : (7 : BitVec 8).toNat = 7 := rfl
      have hbl : isByteLike (.int .i8) = true := rfl
      simp only [NBT.tag, NBT.tagByteArray, umSlice, h7, hbl, if_true, encPayload]
      apply R_bind (R_arrayLen _ _ hl)
      have hfm : ∀ ys : Bytes, List.filterMap (byteElem (.int .i8)) ys = ys.map fun b => GoVal.int .i8 b.toInt := by
        intro ys
        induction ys with
        | nil => rfl
        | cons x xs ih => simp [byteElem] at ih ⊢; exact ih
      refine R_enc (List.append_nil xs) (R_bind (R_readFull _ xs) ?_)
      simp only [hfm, keepNil, GoType.zero, Bool.and_comm]
      exact R_pure _ _
  getTag := by
    rintro f _ ⟨xs, rfl, hl, _⟩ hf
    dsimp only [valBytesI8]
    obtain ⟨f', rfl⟩ : ∃ f', f = f' + 2 := ⟨f - 2, by omega⟩
    rw [show (NBT.byteArray xs).tag = 7 from rfl]
    cases xs with
    | nil => simp [getTagType, tagOfType, arrTag]
    | cons x xs =>
      simp only [List.map_cons]
      rw [getTagType_slice_cons]
      simp [getTagType, tagOfType, GoVal.typeOf, GoVal.isCarrier, GoType.isCarrier, arrTag]
  marshal := by
    rintro f _ ⟨xs, rfl, hl, hok⟩ hf
    dsimp only [valBytesI8]
    obtain ⟨f', rfl⟩ : ∃ f', f = f' + 2 := ⟨f - 2, by omega⟩
    rw [show (NBT.byteArray xs).tag = 7 from rfl]
    have h7 : (7 : BitVec 8).toNat = 7 := rfl
    simp only [Go.marshal, GoVal.isCarrier, GoVal.typeOf, GoType.isCarrier, Bool.false_eq_true, if_false,
      writeValue, h7, encPayload, beN_eq, List.length_map, List.map_map, Function.comp_def]
    rw [map_id_of _ (fun b => True) _ xs hok]
    intro b hb
    simp only [wrapN1_toInt, BitVec.ofNat_toNat, BitVec.setWidth_eq]

def okBytesU8 : NBT → Prop := fun t => ∃ xs, t = .byteArray xs ∧ xs.length < 2147483648 ∧ ∀ b ∈ xs, True
def valBytesU8 : NBT → GoVal := fun t => match t with
  | .byteArray xs => .slice (.int .u8) (false && xs.isEmpty) (xs.map fun b => GoVal.int .u8 b.toNat)
  | _ => .slice (.int .u8) false []

/-- `[]u8` ↔ TagByteArray -/
theorem elem_bytes_u8 (cx : SnbtCarrier) :
    ElemExact cx (.slice (.int .u8)) okBytesU8 valBytesU8 (fun _ => 3) where
  zeroTy := rfl
  needPos := fun _ _ => by omega
  reads := by
    rintro d fuel _ ⟨xs, rfl, hl, _⟩
    dsimp only [valBytesU8]
    cases fuel with
    | zero => unfold unmarshal; exact R_fail (by simp [cost]) _ _
    | succ f =>
      unfold unmarshal
      have h7 : (7 : BitVec 8).toNat = 7 := rfl
      have hbl : isByteLike (.int .u8) = true := rfl
      simp only [NBT.tag, NBT.tagByteArray, umSlice, h7, hbl, if_true, encPayload]
      apply R_bind (R_arrayLen _ _ hl)
      have hfm : ∀ ys : Bytes, List.filterMap (byteElem (.int .u8)) ys = ys.map fun b => GoVal.int .u8 b.toNat := by
        intro ys
        induction ys with
        | nil => rfl
        | cons x xs ih => simp [byteElem] at ih ⊢; exact ih
      refine R_enc (List.append_nil xs) (R_bind (R_readFull _ xs) ?_)
      simp only [hfm, keepNil, GoType.zero, Bool.and_comm]
      exact R_pure _ _
  getTag := by
    rintro f _ ⟨xs, rfl, hl, _⟩ hf
    dsimp only [valBytesU8]
    obtain ⟨f', rfl⟩ : ∃ f', f = f' + 2 := ⟨f - 2, by omega⟩
    rw [show (NBT.byteArray xs).tag = 7 from rfl]
    cases xs with
    | nil => simp [getTagType, tagOfType, arrTag]
    | cons x xs =>
      simp only [List.map_cons]
      rw [getTagType_slice_cons]
      simp [getTagType, tagOfType, GoVal.typeOf, GoVal.isCarrier, GoType.isCarrier, arrTag]
  marshal := by
    rintro f _ ⟨xs, rfl, hl, hok⟩ hf
    dsimp only [valBytesU8]
    obtain ⟨f', rfl⟩ : ∃ f', f = f' + 2 := ⟨f - 2, by omega⟩
    rw [show (NBT.byteArray xs).tag = 7 from rfl]
    have h7 : (7 : BitVec 8).toNat = 7 := rfl
    simp only [Go.marshal, GoVal.isCarrier, GoVal.typeOf, GoType.isCarrier, Bool.false_eq_true, if_false,
      writeValue, h7, encPayload, beN_eq, List.length_map, List.map_map, Function.comp_def]
    rw [map_id_of _ (fun b => True) _ xs hok]
    intro b hb
    simp only [wrapN1_toNat, BitVec.ofNat_toNat, BitVec.setWidth_eq]

def okBytesBool : NBT → Prop := fun t => ∃ xs, t = .byteArray xs ∧ xs.length < 2147483648 ∧ ∀ b ∈ xs, (b = 0 ∨ b = 1)
def valBytesBool : NBT → GoVal := fun t => match t with
  | .byteArray xs => .slice (.bool) (true && xs.isEmpty) (xs.map fun b => GoVal.bool (b != 0))
  | _ => .slice (.bool) false []

/-- `[]bool` ↔ TagByteArray -/
theorem elem_bytes_bool (cx : SnbtCarrier) :
    ElemExact cx (.slice (.bool)) okBytesBool valBytesBool (fun _ => 3) where
  zeroTy := rfl
  needPos := fun _ _ => by omega
  reads := by
    rintro d fuel _ ⟨xs, rfl, hl, _⟩
    dsimp only [valBytesBool]
    cases fuel with
    | zero => unfold unmarshal; exact R_fail (by simp [cost]) _ _
    | succ f =>
      unfold unmarshal
      have h7 : (7 : BitVec 8).toNat = 7 := rfl
      have hbl : isByteLike (.bool) = true := rfl
      simp only [NBT.tag, NBT.tagByteArray, umSlice, h7, hbl, if_true, encPayload]
      apply R_bind (R_arrayLen _ _ hl)
      have hfm : ∀ ys : Bytes, List.filterMap (byteElem (.bool)) ys = ys.map fun b => GoVal.bool (b != 0) := by
        intro ys
        induction ys with
        | nil => rfl
        | cons x xs ih => simp [byteElem] at ih ⊢; exact ih
      refine R_enc (List.append_nil xs) (R_bind (R_readFull _ xs) ?_)
      simp only [hfm, keepNil, GoType.zero, Bool.and_comm]
      exact R_pure _ _
  getTag := by
    rintro f _ ⟨xs, rfl, hl, _⟩ hf
    dsimp only [valBytesBool]
    obtain ⟨f', rfl⟩ : ∃ f', f = f' + 2 := ⟨f - 2, by omega⟩
    rw [show (NBT.byteArray xs).tag = 7 from rfl]
    cases xs with
    | nil => simp [getTagType, tagOfType, arrTag]
    | cons x xs =>
      simp only [List.map_cons]
      rw [getTagType_slice_cons]
      simp [getTagType, tagOfType, GoVal.typeOf, GoVal.isCarrier, GoType.isCarrier, arrTag]
  marshal := by
    rintro f _ ⟨xs, rfl, hl, hok⟩ hf
    dsimp only [valBytesBool]
    obtain ⟨f', rfl⟩ : ∃ f', f = f' + 2 := ⟨f - 2, by omega⟩
    rw [show (NBT.byteArray xs).tag = 7 from rfl]
    have h7 : (7 : BitVec 8).toNat = 7 := rfl
    simp only [Go.marshal, GoVal.isCarrier, GoVal.typeOf, GoType.isCarrier, Bool.false_eq_true, if_false,
      writeValue, h7, encPayload, beN_eq, List.length_map, List.map_map, Function.comp_def]
    rw [map_id_of _ (fun b => (b = 0 ∨ b = 1)) _ xs hok]
    intro b hb
    rcases hb with rfl | rfl <;> rfl

def okNumsI32 : NBT → Prop := fun t => ∃ xs, t = .intArray xs ∧ xs.length < 2147483648
def valNumsI32 : NBT → GoVal := fun t => match t with
  | .intArray xs => .slice (.int .i32) false (xs.map fun b => GoVal.int .i32 b.toInt)
  | _ => .slice (.int .i32) false []

/-- `[]i32` ↔ tagIntArray -/
theorem elem_nums_i32 (cx : SnbtCarrier) :
    ElemExact cx (.slice (.int .i32)) okNumsI32 valNumsI32 (fun _ => 3) where
  zeroTy := rfl
  needPos := fun _ _ => by omega
  reads := by
    rintro d fuel _ ⟨xs, rfl, hl⟩
    dsimp only [valNumsI32]
    cases fuel with
    | zero => unfold unmarshal; exact R_fail (by simp [cost]) _ _
    | succ f =>
      unfold unmarshal
      have h7 : (11 : BitVec 8).toNat = 11 := rfl
      have hbl : isIntLike (.int .i32) = true := rfl
      simp only [NBT.tag, NBT.tagIntArray, umSlice, h7, hbl, if_true, encPayload]
      apply R_bind (R_arrayLen _ _ hl)
      have hfm : ∀ ys : List (BitVec 32), List.filterMap (intElem (.int .i32)) ys = ys.map fun b => GoVal.int .i32 b.toInt := by
        intro ys
        induction ys with
        | nil => rfl
        | cons x xs ih => simp [intElem] at ih ⊢; exact ih
      refine R_enc (List.append_nil _) (R_bind (R_readInts _ xs) ?_)
      simp only [hfm]
      exact R_pure _ _
  getTag := by
    rintro f _ ⟨xs, rfl, hl⟩ hf
    dsimp only [valNumsI32]
    obtain ⟨f', rfl⟩ : ∃ f', f = f' + 2 := ⟨f - 2, by omega⟩
    rw [show (NBT.intArray xs).tag = 11 from rfl]
    cases xs with
    | nil => simp [getTagType, tagOfType, arrTag]
    | cons x xs =>
      simp only [List.map_cons]
      rw [getTagType_slice_cons]
      simp [getTagType, tagOfType, GoVal.typeOf, GoVal.isCarrier, GoType.isCarrier, arrTag]
  marshal := by
    rintro f _ ⟨xs, rfl, hl⟩ hf
    dsimp only [valNumsI32]
    obtain ⟨f', rfl⟩ : ∃ f', f = f' + 2 := ⟨f - 2, by omega⟩
    rw [show (NBT.intArray xs).tag = 11 from rfl]
    have h7 : (11 : BitVec 8).toNat = 11 := rfl
    simp only [Go.marshal, GoVal.isCarrier, GoVal.typeOf, GoType.isCarrier, Bool.false_eq_true, if_false,
      writeValue, h7, encPayload]
    rw [resMapM_map_ok (numOfElem 4) _ be32 xs (by
      intro b _
      simp only [numOfElem, unwrapIface, wrapN4_toInt, beN_eq, be32])]
    simp only [resFlatten, beN_eq, List.length_map]

def okNumsU32 : NBT → Prop := fun t => ∃ xs, t = .intArray xs ∧ xs.length < 2147483648
def valNumsU32 : NBT → GoVal := fun t => match t with
  | .intArray xs => .slice (.int .u32) false (xs.map fun b => GoVal.int .u32 b.toNat)
  | _ => .slice (.int .u32) false []

/-- `[]u32` ↔ tagIntArray -/
theorem elem_nums_u32 (cx : SnbtCarrier) :
    ElemExact cx (.slice (.int .u32)) okNumsU32 valNumsU32 (fun _ => 3) where
  zeroTy := rfl
  needPos := fun _ _ => by omega
  reads := by
    rintro d fuel _ ⟨xs, rfl, hl⟩
    dsimp only [valNumsU32]
    cases fuel with
    | zero => unfold unmarshal; exact R_fail (by simp [cost]) _ _
    | succ f =>
      unfold unmarshal
      have h7 : (11 : BitVec 8).toNat = 11 := rfl
      have hbl : isIntLike (.int .u32) = true := rfl
      simp only [NBT.tag, NBT.tagIntArray, umSlice, h7, hbl, if_true, encPayload]
      apply R_bind (R_arrayLen _ _ hl)
      have hfm : ∀ ys : List (BitVec 32), List.filterMap (intElem (.int .u32)) ys = ys.map fun b => GoVal.int .u32 b.toNat := by
        intro ys
        induction ys with
        | nil => rfl
        | cons x xs ih => simp [intElem] at ih ⊢; exact ih
      refine R_enc (List.append_nil _) (R_bind (R_readInts _ xs) ?_)
      simp only [hfm]
      exact R_pure _ _
  getTag := by
    rintro f _ ⟨xs, rfl, hl⟩ hf
    dsimp only [valNumsU32]
    obtain ⟨f', rfl⟩ : ∃ f', f = f' + 2 := ⟨f - 2, by omega⟩
    rw [show (NBT.intArray xs).tag = 11 from rfl]
    cases xs with
    | nil => simp [getTagType, tagOfType, arrTag]
    | cons x xs =>
      simp only [List.map_cons]
      rw [getTagType_slice_cons]
      simp [getTagType, tagOfType, GoVal.typeOf, GoVal.isCarrier, GoType.isCarrier, arrTag]
  marshal := by
    rintro f _ ⟨xs, rfl, hl⟩ hf
    dsimp only [valNumsU32]
    obtain ⟨f', rfl⟩ : ∃ f', f = f' + 2 := ⟨f - 2, by omega⟩
    rw [show (NBT.intArray xs).tag = 11 from rfl]
    have h7 : (11 : BitVec 8).toNat = 11 := rfl
    simp only [Go.marshal, GoVal.isCarrier, GoVal.typeOf, GoType.isCarrier, Bool.false_eq_true, if_false,
      writeValue, h7, encPayload]
    rw [resMapM_map_ok (numOfElem 4) _ be32 xs (by
      intro b _
      simp only [numOfElem, unwrapIface, wrapN4_toNat, beN_eq, be32])]
    simp only [resFlatten, beN_eq, List.length_map]

def okNumsI64 : NBT → Prop := fun t => ∃ xs, t = .longArray xs ∧ xs.length < 2147483648
def valNumsI64 : NBT → GoVal := fun t => match t with
  | .longArray xs => .slice (.int .i64) false (xs.map fun b => GoVal.int .i64 b.toInt)
  | _ => .slice (.int .i64) false []

/-- `[]i64` ↔ tagLongArray -/
theorem elem_nums_i64 (cx : SnbtCarrier) :
    ElemExact cx (.slice (.int .i64)) okNumsI64 valNumsI64 (fun _ => 3) where
  zeroTy := rfl
  needPos := fun _ _ => by omega
  reads := by
    rintro d fuel _ ⟨xs, rfl, hl⟩
    dsimp only [valNumsI64]
    cases fuel with
    | zero => unfold unmarshal; exact R_fail (by simp [cost]) _ _
    | succ f =>
      unfold unmarshal
      have h7 : (12 : BitVec 8).toNat = 12 := rfl
      have hbl : isLongLike (.int .i64) = true := rfl
      simp only [NBT.tag, NBT.tagLongArray, umSlice, h7, hbl, if_true, encPayload]
      apply R_bind (R_arrayLen _ _ hl)
      have hfm : ∀ ys : List (BitVec 64), List.filterMap (longElem (.int .i64)) ys = ys.map fun b => GoVal.int .i64 b.toInt := by
        intro ys
        induction ys with
        | nil => rfl
        | cons x xs ih => simp [longElem] at ih ⊢; exact ih
      refine R_enc (List.append_nil _) (R_bind (R_readLongs _ xs) ?_)
      simp only [hfm]
      exact R_pure _ _
  getTag := by
    rintro f _ ⟨xs, rfl, hl⟩ hf
    dsimp only [valNumsI64]
    obtain ⟨f', rfl⟩ : ∃ f', f = f' + 2 := ⟨f - 2, by omega⟩
    rw [show (NBT.longArray xs).tag = 12 from rfl]
    cases xs with
    | nil => simp [getTagType, tagOfType, arrTag]
    | cons x xs =>
      simp only [List.map_cons]
      rw [getTagType_slice_cons]
      simp [getTagType, tagOfType, GoVal.typeOf, GoVal.isCarrier, GoType.isCarrier, arrTag]
  marshal := by
    rintro f _ ⟨xs, rfl, hl⟩ hf
    dsimp only [valNumsI64]
    obtain ⟨f', rfl⟩ : ∃ f', f = f' + 2 := ⟨f - 2, by omega⟩
    rw [show (NBT.longArray xs).tag = 12 from rfl]
    have h7 : (12 : BitVec 8).toNat = 12 := rfl
    simp only [Go.marshal, GoVal.isCarrier, GoVal.typeOf, GoType.isCarrier, Bool.false_eq_true, if_false,
      writeValue, h7, encPayload]
    rw [resMapM_map_ok (numOfElem 8) _ be64 xs (by
      intro b _
      simp only [numOfElem, unwrapIface, wrapN8_toInt, beN_eq, be64])]
    simp only [resFlatten, beN_eq, List.length_map]

def okNumsU64 : NBT → Prop := fun t => ∃ xs, t = .longArray xs ∧ xs.length < 2147483648
def valNumsU64 : NBT → GoVal := fun t => match t with
  | .longArray xs => .slice (.int .u64) false (xs.map fun b => GoVal.int .u64 b.toNat)
  | _ => .slice (.int .u64) false []

/-- `[]u64` ↔ tagLongArray -/
theorem elem_nums_u64 (cx : SnbtCarrier) :
    ElemExact cx (.slice (.int .u64)) okNumsU64 valNumsU64 (fun _ => 3) where
  zeroTy := rfl
  needPos := fun _ _ => by omega
  reads := by
    rintro d fuel _ ⟨xs, rfl, hl⟩
    dsimp only [valNumsU64]
    cases fuel with
    | zero => unfold unmarshal; exact R_fail (by simp [cost]) _ _
    | succ f =>
      unfold unmarshal
      have h7 : (12 : BitVec 8).toNat = 12 := rfl
      have hbl : isLongLike (.int .u64) = true := rfl
      simp only [NBT.tag, NBT.tagLongArray, umSlice, h7, hbl, if_true, encPayload]
      apply R_bind (R_arrayLen _ _ hl)
      have hfm : ∀ ys : List (BitVec 64), List.filterMap (longElem (.int .u64)) ys = ys.map fun b => GoVal.int .u64 b.toNat := by
        intro ys
        induction ys with
        | nil => rfl
        | cons x xs ih => simp [longElem] at ih ⊢; exact ih
      refine R_enc (List.append_nil _) (R_bind (R_readLongs _ xs) ?_)
      simp only [hfm]
      exact R_pure _ _
  getTag := by
    rintro f _ ⟨xs, rfl, hl⟩ hf
    dsimp only [valNumsU64]
    obtain ⟨f', rfl⟩ : ∃ f', f = f' + 2 := ⟨f - 2, by omega⟩
    rw [show (NBT.longArray xs).tag = 12 from rfl]
    cases xs with
    | nil => simp [getTagType, tagOfType, arrTag]
    | cons x xs =>
      simp only [List.map_cons]
      rw [getTagType_slice_cons]
      simp [getTagType, tagOfType, GoVal.typeOf, GoVal.isCarrier, GoType.isCarrier, arrTag]
  marshal := by
    rintro f _ ⟨xs, rfl, hl⟩ hf
    dsimp only [valNumsU64]
    obtain ⟨f', rfl⟩ : ∃ f', f = f' + 2 := ⟨f - 2, by omega⟩
    rw [show (NBT.longArray xs).tag = 12 from rfl]
    have h7 : (12 : BitVec 8).toNat = 12 := rfl
    simp only [Go.marshal, GoVal.isCarrier, GoVal.typeOf, GoType.isCarrier, Bool.false_eq_true, if_false,
      writeValue, h7, encPayload]
    rw [resMapM_map_ok (numOfElem 8) _ be64 xs (by
      intro b _
      simp only [numOfElem, unwrapIface, wrapN8_toNat, beN_eq, be64])]
    simp only [resFlatten, beN_eq, List.length_map]

/-! ### base classes: `[n]T` written as typed arrays -/

theorem getTagType_array_cons (cx : SnbtCarrier) (f : Nat) (e : GoType) (x : GoVal) (xs : List GoVal) :
    getTagType cx (f + 1) (.array e (x :: xs)) =
      (if (getTagType cx f x).2.isCarrier then (9, .array e (x :: xs))
       else (arrTag (getTagType cx f x).1, .array e (x :: xs))) := by
  simp only [getTagType]

theorem writeValue_list_array (cx : SnbtCarrier) (f : Nat) (e : GoType) (x : GoVal) (xs : List GoVal) :
    writeValue cx (f + 1) (.array e (x :: xs)) 9 =
      resFlatten (resMapM (elemEnc (getTagType cx f) (Go.marshal cx f) (getTagType cx f x).1) (x :: xs))
        ((getTagType cx f x).1 :: beN 4 (x :: xs).length ++ ·) := by
  have h9 : (9 : BitVec 8).toNat = 9 := rfl
  simp only [writeValue, h9]

def okArrBytesI8 (n : Nat) : NBT → Prop := fun t => ∃ xs, t = .byteArray xs ∧ xs.length = n ∧ n < 2147483648 ∧ ∀ b ∈ xs, True
def valArrBytesI8 : NBT → GoVal := fun t => match t with
  | .byteArray xs => .array (.int .i8) (xs.map fun b => GoVal.int .i8 b.toInt)
  | _ => .array (.int .i8) []

/-- `[n]i8` ↔ TagByteArray -/
theorem elem_arr_bytes_i8 (cx : SnbtCarrier) (n : Nat) :
    ElemExact cx (.array n (.int .i8)) (okArrBytesI8 n) valArrBytesI8 (fun _ => 3) where
  zeroTy := by simp [GoType.zero, GoVal.typeOf]
  needPos := fun _ _ => by omega
  reads := by
    rintro d fuel _ ⟨xs, rfl, hn, hl, _⟩
    dsimp only [valArrBytesI8]
    cases fuel with
    | zero => unfold unmarshal; exact R_fail (by simp [cost]) _ _
    | succ f =>
      unfold unmarshal
      have h7 : (7 : BitVec 8).toNat = 7 := rfl
      have hbl : isByteLike (.int .i8) = true := rfl
      simp only [NBT.tag, NBT.tagByteArray, umArray, h7, hbl, encPayload]
      apply R_bind (R_arrayLen _ _ (by omega))
      have hfm : ∀ ys : Bytes, List.filterMap (byteElem (.int .i8)) ys = ys.map fun b => GoVal.int .i8 b.toInt := by
        intro ys
        induction ys with
        | nil => rfl
        | cons x xs ih => simp [byteElem] at ih ⊢; exact ih
      refine R_enc (List.append_nil xs) (R_bind (R_readFull _ xs) ?_)
      simp only [hfm, hn, Bool.not_true, Bool.false_eq_true, if_false, ne_eq, not_true_eq_false]
      exact R_pure _ _
  getTag := by
    rintro f _ ⟨xs, rfl, hn, hl, _⟩ hf
    dsimp only [valArrBytesI8]
    obtain ⟨f', rfl⟩ : ∃ f', f = f' + 2 := ⟨f - 2, by omega⟩
    rw [show (NBT.byteArray xs).tag = 7 from rfl]
    cases xs with
    | nil => simp [getTagType, tagOfType, arrTag]
    | cons x xs =>
      simp only [List.map_cons]
      rw [getTagType_array_cons]
      simp [getTagType, tagOfType, GoVal.typeOf, GoVal.isCarrier, GoType.isCarrier, arrTag]
  marshal := by
    rintro f _ ⟨xs, rfl, hn, hl, hok⟩ hf
    dsimp only [valArrBytesI8]
    obtain ⟨f', rfl⟩ : ∃ f', f = f' + 2 := ⟨f - 2, by omega⟩
    rw [show (NBT.byteArray xs).tag = 7 from rfl]
    have h7 : (7 : BitVec 8).toNat = 7 := rfl
    simp only [Go.marshal, GoVal.isCarrier, GoVal.typeOf, GoType.isCarrier, Bool.false_eq_true, if_false,
      writeValue, h7, encPayload, beN_eq, List.length_map, List.map_map, Function.comp_def]
    rw [map_id_of _ (fun b => True) _ xs hok]
    intro b hb
    simp only [wrapN1_toInt, BitVec.ofNat_toNat, BitVec.setWidth_eq]

def okArrBytesU8 (n : Nat) : NBT → Prop := fun t => ∃ xs, t = .byteArray xs ∧ xs.length = n ∧ n < 2147483648 ∧ ∀ b ∈ xs, True
def valArrBytesU8 : NBT → GoVal := fun t => match t with
  | .byteArray xs => .array (.int .u8) (xs.map fun b => GoVal.int .u8 b.toNat)
  | _ => .array (.int .u8) []

/-- `[n]u8` ↔ TagByteArray -/
theorem elem_arr_bytes_u8 (cx : SnbtCarrier) (n : Nat) :
    ElemExact cx (.array n (.int .u8)) (okArrBytesU8 n) valArrBytesU8 (fun _ => 3) where
  zeroTy := by simp [GoType.zero, GoVal.typeOf]
  needPos := fun _ _ => by omega
  reads := by
    rintro d fuel _ ⟨xs, rfl, hn, hl, _⟩
    dsimp only [valArrBytesU8]
    cases fuel with
    | zero => unfold unmarshal; exact R_fail (by simp [cost]) _ _
    | succ f =>
      unfold unmarshal
      have h7 : (7 : BitVec 8).toNat = 7 := rfl
      have hbl : isByteLike (.int .u8) = true := rfl
      simp only [NBT.tag, NBT.tagByteArray, umArray, h7, hbl, encPayload]
      apply R_bind (R_arrayLen _ _ (by omega))
      have hfm : ∀ ys : Bytes, List.filterMap (byteElem (.int .u8)) ys = ys.map fun b => GoVal.int .u8 b.toNat := by
        intro ys
        induction ys with
        | nil => rfl
        | cons x xs ih => simp [byteElem] at ih ⊢; exact ih
      refine R_enc (List.append_nil xs) (R_bind (R_readFull _ xs) ?_)
      simp only [hfm, hn, Bool.not_true, Bool.false_eq_true, if_false, ne_eq, not_true_eq_false]
      exact R_pure _ _
  getTag := by
    rintro f _ ⟨xs, rfl, hn, hl, _⟩ hf
    dsimp only [valArrBytesU8]
    obtain ⟨f', rfl⟩ : ∃ f', f = f' + 2 := ⟨f - 2, by omega⟩
    rw [show (NBT.byteArray xs).tag = 7 from rfl]
    cases xs with
    | nil => simp [getTagType, tagOfType, arrTag]
    | cons x xs =>
      simp only [List.map_cons]
      rw [getTagType_array_cons]
      simp [getTagType, tagOfType, GoVal.typeOf, GoVal.isCarrier, GoType.isCarrier, arrTag]
  marshal := by
    rintro f _ ⟨xs, rfl, hn, hl, hok⟩ hf
    dsimp only [valArrBytesU8]
    obtain ⟨f', rfl⟩ : ∃ f', f = f' + 2 := ⟨f - 2, by omega⟩
    rw [show (NBT.byteArray xs).tag = 7 from rfl]
    have h7 : (7 : BitVec 8).toNat = 7 := rfl
    simp only [Go.marshal, GoVal.isCarrier, GoVal.typeOf, GoType.isCarrier, Bool.false_eq_true, if_false,
      writeValue, h7, encPayload, beN_eq, List.length_map, List.map_map, Function.comp_def]
    rw [map_id_of _ (fun b => True) _ xs hok]
    intro b hb
    simp only [wrapN1_toNat, BitVec.ofNat_toNat, BitVec.setWidth_eq]

def okArrBytesBool (n : Nat) : NBT → Prop := fun t => ∃ xs, t = .byteArray xs ∧ xs.length = n ∧ n < 2147483648 ∧ ∀ b ∈ xs, (b = 0 ∨ b = 1)
def valArrBytesBool : NBT → GoVal := fun t => match t with
  | .byteArray xs => .array (.bool) (xs.map fun b => GoVal.bool (b != 0))
  | _ => .array (.bool) []

/-- `[n]bool` ↔ TagByteArray -/
theorem elem_arr_bytes_bool (cx : SnbtCarrier) (n : Nat) :
    ElemExact cx (.array n (.bool)) (okArrBytesBool n) valArrBytesBool (fun _ => 3) where
  zeroTy := by simp [GoType.zero, GoVal.typeOf]
  needPos := fun _ _ => by omega
  reads := by
    rintro d fuel _ ⟨xs, rfl, hn, hl, _⟩
    dsimp only [valArrBytesBool]
    cases fuel with
    | zero => unfold unmarshal; exact R_fail (by simp [cost]) _ _
    | succ f =>
      unfold unmarshal
      have h7 : (7 : BitVec 8).toNat = 7 := rfl
      have hbl : isByteLike (.bool) = true := rfl
      simp only [NBT.tag, NBT.tagByteArray, umArray, h7, hbl, encPayload]
      apply R_bind (R_arrayLen _ _ (by omega))
      have hfm : ∀ ys : Bytes, List.filterMap (byteElem (.bool)) ys = ys.map fun b => GoVal.bool (b != 0) := by
        intro ys
        induction ys with
        | nil => rfl
        | cons x xs ih => simp [byteElem] at ih ⊢; exact ih
      refine R_enc (List.append_nil xs) (R_bind (R_readFull _ xs) ?_)
      simp only [hfm, hn, Bool.not_true, Bool.false_eq_true, if_false, ne_eq, not_true_eq_false]
      exact R_pure _ _
  getTag := by
    rintro f _ ⟨xs, rfl, hn, hl, _⟩ hf
    dsimp only [valArrBytesBool]
    obtain ⟨f', rfl⟩ : ∃ f', f = f' + 2 := ⟨f - 2, by omega⟩
    rw [show (NBT.byteArray xs).tag = 7 from rfl]
    cases xs with
    | nil => simp [getTagType, tagOfType, arrTag]
    | cons x xs =>
      simp only [List.map_cons]
      rw [getTagType_array_cons]
      simp [getTagType, tagOfType, GoVal.typeOf, GoVal.isCarrier, GoType.isCarrier, arrTag]
  marshal := by
    rintro f _ ⟨xs, rfl, hn, hl, hok⟩ hf
    dsimp only [valArrBytesBool]
    obtain ⟨f', rfl⟩ : ∃ f', f = f' + 2 := ⟨f - 2, by omega⟩
    rw [show (NBT.byteArray xs).tag = 7 from rfl]
    have h7 : (7 : BitVec 8).toNat = 7 := rfl
    simp only [Go.marshal, GoVal.isCarrier, GoVal.typeOf, GoType.isCarrier, Bool.false_eq_true, if_false,
      writeValue, h7, encPayload, beN_eq, List.length_map, List.map_map, Function.comp_def]
    rw [map_id_of _ (fun b => (b = 0 ∨ b = 1)) _ xs hok]
    intro b hb
    rcases hb with rfl | rfl <;> rfl

def okArrNumsI32 (n : Nat) : NBT → Prop := fun t => ∃ xs, t = .intArray xs ∧ xs.length = n ∧ n < 2147483648
def valArrNumsI32 : NBT → GoVal := fun t => match t with
  | .intArray xs => .array (.int .i32) (xs.map fun b => GoVal.int .i32 b.toInt)
  | _ => .array (.int .i32) []

/-- `[n]i32` ↔ tagIntArray -/
theorem elem_arr_nums_i32 (cx : SnbtCarrier) (n : Nat) :
    ElemExact cx (.array n (.int .i32)) (okArrNumsI32 n) valArrNumsI32 (fun _ => 3) where
  zeroTy := by simp [GoType.zero, GoVal.typeOf]
  needPos := fun _ _ => by omega
  reads := by
    rintro d fuel _ ⟨xs, rfl, hn, hl⟩
    dsimp only [valArrNumsI32]
    cases fuel with
    | zero => unfold unmarshal; exact R_fail (by simp [cost]) _ _
    | succ f =>
      unfold unmarshal
      have h7 : (11 : BitVec 8).toNat = 11 := rfl
      have hbl : isIntLike (.int .i32) = true := rfl
      simp only [NBT.tag, NBT.tagIntArray, umArray, h7, hbl, encPayload]
      apply R_bind (R_arrayLen _ _ (by omega))
      have hfm : ∀ ys : List (BitVec 32), List.filterMap (intElem (.int .i32)) ys = ys.map fun b => GoVal.int .i32 b.toInt := by
        intro ys
        induction ys with
        | nil => rfl
        | cons x xs ih => simp [intElem] at ih ⊢; exact ih
      simp only [hn, Bool.not_true, Bool.false_eq_true, if_false, ne_eq, not_true_eq_false]
      rw [← hn]
      refine R_enc (List.append_nil _) (R_bind (R_readInts _ xs) ?_)
      simp only [hfm]
      exact R_pure _ _
  getTag := by
    rintro f _ ⟨xs, rfl, hn, hl⟩ hf
    dsimp only [valArrNumsI32]
    obtain ⟨f', rfl⟩ : ∃ f', f = f' + 2 := ⟨f - 2, by omega⟩
    rw [show (NBT.intArray xs).tag = 11 from rfl]
    cases xs with
    | nil => simp [getTagType, tagOfType, arrTag]
    | cons x xs =>
      simp only [List.map_cons]
      rw [getTagType_array_cons]
      simp [getTagType, tagOfType, GoVal.typeOf, GoVal.isCarrier, GoType.isCarrier, arrTag]
  marshal := by
    rintro f _ ⟨xs, rfl, hn, hl⟩ hf
    dsimp only [valArrNumsI32]
    obtain ⟨f', rfl⟩ : ∃ f', f = f' + 2 := ⟨f - 2, by omega⟩
    rw [show (NBT.intArray xs).tag = 11 from rfl]
    have h7 : (11 : BitVec 8).toNat = 11 := rfl
    simp only [Go.marshal, GoVal.isCarrier, GoVal.typeOf, GoType.isCarrier, Bool.false_eq_true, if_false,
      writeValue, h7, encPayload]
    rw [resMapM_map_ok (numOfElem 4) _ be32 xs (by
      intro b _
      simp only [numOfElem, unwrapIface, wrapN4_toInt, beN_eq, be32])]
    simp only [resFlatten, beN_eq, List.length_map]

def okArrNumsU32 (n : Nat) : NBT → Prop := fun t => ∃ xs, t = .intArray xs ∧ xs.length = n ∧ n < 2147483648
def valArrNumsU32 : NBT → GoVal := fun t => match t with
  | .intArray xs => .array (.int .u32) (xs.map fun b => GoVal.int .u32 b.toNat)
  | _ => .array (.int .u32) []

/-- `[n]u32` ↔ tagIntArray -/
theorem elem_arr_nums_u32 (cx : SnbtCarrier) (n : Nat) :
    ElemExact cx (.array n (.int .u32)) (okArrNumsU32 n) valArrNumsU32 (fun _ => 3) where
  zeroTy := by simp [GoType.zero, GoVal.typeOf]
  needPos := fun _ _ => by omega
  reads := by
    rintro d fuel _ ⟨xs, rfl, hn, hl⟩
    dsimp only [valArrNumsU32]
    cases fuel with
    | zero => unfold unmarshal; exact R_fail (by simp [cost]) _ _
    | succ f =>
      unfold unmarshal
      have h7 : (11 : BitVec 8).toNat = 11 := rfl
      have hbl : isIntLike (.int .u32) = true := rfl
      simp only [NBT.tag, NBT.tagIntArray, umArray, h7, hbl, encPayload]
      apply R_bind (R_arrayLen _ _ (by omega))
      have hfm : ∀ ys : List (BitVec 32), List.filterMap (intElem (.int .u32)) ys = ys.map fun b => GoVal.int .u32 b.toNat := by
        intro ys
        induction ys with
        | nil => rfl
        | cons x xs ih => simp [intElem] at ih ⊢; exact ih
      simp only [hn, Bool.not_true, Bool.false_eq_true, if_false, ne_eq, not_true_eq_false]
      rw [← hn]
      refine R_enc (List.append_nil _) (R_bind (R_readInts _ xs) ?_)
      simp only [hfm]
      exact R_pure _ _
  getTag := by
    rintro f _ ⟨xs, rfl, hn, hl⟩ hf
    dsimp only [valArrNumsU32]
    obtain ⟨f', rfl⟩ : ∃ f', f = f' + 2 := ⟨f - 2, by omega⟩
    rw [show (NBT.intArray xs).tag = 11 from rfl]
    cases xs with
    | nil => simp [getTagType, tagOfType, arrTag]
    | cons x xs =>
      simp only [List.map_cons]
      rw [getTagType_array_cons]
      simp [getTagType, tagOfType, GoVal.typeOf, GoVal.isCarrier, GoType.isCarrier, arrTag]
  marshal := by
    rintro f _ ⟨xs, rfl, hn, hl⟩ hf
    dsimp only [valArrNumsU32]
    obtain ⟨f', rfl⟩ : ∃ f', f = f' + 2 := ⟨f - 2, by omega⟩
    rw [show (NBT.intArray xs).tag = 11 from rfl]
    have h7 : (11 : BitVec 8).toNat = 11 := rfl
    simp only [Go.marshal, GoVal.isCarrier, GoVal.typeOf, GoType.isCarrier, Bool.false_eq_true, if_false,
      writeValue, h7, encPayload]
    rw [resMapM_map_ok (numOfElem 4) _ be32 xs (by
      intro b _
      simp only [numOfElem, unwrapIface, wrapN4_toNat, beN_eq, be32])]
    simp only [resFlatten, beN_eq, List.length_map]

def okArrNumsI64 (n : Nat) : NBT → Prop := fun t => ∃ xs, t = .longArray xs ∧ xs.length = n ∧ n < 2147483648
def valArrNumsI64 : NBT → GoVal := fun t => match t with
  | .longArray xs => .array (.int .i64) (xs.map fun b => GoVal.int .i64 b.toInt)
  | _ => .array (.int .i64) []

/-- `[n]i64` ↔ tagLongArray -/
theorem elem_arr_nums_i64 (cx : SnbtCarrier) (n : Nat) :
    ElemExact cx (.array n (.int .i64)) (okArrNumsI64 n) valArrNumsI64 (fun _ => 3) where
  zeroTy := by simp [GoType.zero, GoVal.typeOf]
  needPos := fun _ _ => by omega
  reads := by
    rintro d fuel _ ⟨xs, rfl, hn, hl⟩
    dsimp only [valArrNumsI64]
    cases fuel with
    | zero => unfold unmarshal; exact R_fail (by simp [cost]) _ _
    | succ f =>
      unfold unmarshal
      have h7 : (12 : BitVec 8).toNat = 12 := rfl
      have hbl : isLongLike (.int .i64) = true := rfl
      simp only [NBT.tag, NBT.tagLongArray, umArray, h7, hbl, encPayload]
      apply R_bind (R_arrayLen _ _ (by omega))
      have hfm : ∀ ys : List (BitVec 64), List.filterMap (longElem (.int .i64)) ys = ys.map fun b => GoVal.int .i64 b.toInt := by
        intro ys
        induction ys with
        | nil => rfl
        | cons x xs ih => simp [longElem] at ih ⊢; exact ih
      simp only [hn, Bool.not_true, Bool.false_eq_true, if_false, ne_eq, not_true_eq_false]
      rw [← hn]
      refine R_enc (List.append_nil _) (R_bind (R_readLongs _ xs) ?_)
      simp only [hfm]
      exact R_pure _ _
  getTag := by
    rintro f _ ⟨xs, rfl, hn, hl⟩ hf
    dsimp only [valArrNumsI64]
    obtain ⟨f', rfl⟩ : ∃ f', f = f' + 2 := ⟨f - 2, by omega⟩
    rw [show (NBT.longArray xs).tag = 12 from rfl]
    cases xs with
    | nil => simp [getTagType, tagOfType, arrTag]
    | cons x xs =>
      simp only [List.map_cons]
      rw [getTagType_array_cons]
      simp [getTagType, tagOfType, GoVal.typeOf, GoVal.isCarrier, GoType.isCarrier, arrTag]
  marshal := by
    rintro f _ ⟨xs, rfl, hn, hl⟩ hf
    dsimp only [valArrNumsI64]
    obtain ⟨f', rfl⟩ : ∃ f', f = f' + 2 := ⟨f - 2, by omega⟩
    rw [show (NBT.longArray xs).tag = 12 from rfl]
    have h7 : (12 : BitVec 8).toNat = 12 := rfl
    simp only [Go.marshal, GoVal.isCarrier, GoVal.typeOf, GoType.isCarrier, Bool.false_eq_true, if_false,
      writeValue, h7, encPayload]
    rw [resMapM_map_ok (numOfElem 8) _ be64 xs (by
      intro b _
      simp only [numOfElem, unwrapIface, wrapN8_toInt, beN_eq, be64])]
    simp only [resFlatten, beN_eq, List.length_map]

def okArrNumsU64 (n : Nat) : NBT → Prop := fun t => ∃ xs, t = .longArray xs ∧ xs.length = n ∧ n < 2147483648
def valArrNumsU64 : NBT → GoVal := fun t => match t with
  | .longArray xs => .array (.int .u64) (xs.map fun b => GoVal.int .u64 b.toNat)
  | _ => .array (.int .u64) []

/-- `[n]u64` ↔ tagLongArray -/
theorem elem_arr_nums_u64 (cx : SnbtCarrier) (n : Nat) :
    ElemExact cx (.array n (.int .u64)) (okArrNumsU64 n) valArrNumsU64 (fun _ => 3) where
  zeroTy := by simp [GoType.zero, GoVal.typeOf]
  needPos := fun _ _ => by omega
  reads := by
    rintro d fuel _ ⟨xs, rfl, hn, hl⟩
    dsimp only [valArrNumsU64]
    cases fuel with
    | zero => unfold unmarshal; exact R_fail (by simp [cost]) _ _
    | succ f =>
      unfold unmarshal
      have h7 : (12 : BitVec 8).toNat = 12 := rfl
      have hbl : isLongLike (.int .u64) = true := rfl
      simp only [NBT.tag, NBT.tagLongArray, umArray, h7, hbl, encPayload]
      apply R_bind (R_arrayLen _ _ (by omega))
      have hfm : ∀ ys : List (BitVec 64), List.filterMap (longElem (.int .u64)) ys = ys.map fun b => GoVal.int .u64 b.toNat := by
        intro ys
        induction ys with
        | nil => rfl
        | cons x xs ih => simp [longElem] at ih ⊢; exact ih
      simp only [hn, Bool.not_true, Bool.false_eq_true, if_false, ne_eq, not_true_eq_false]
      rw [← hn]
      refine R_enc (List.append_nil _) (R_bind (R_readLongs _ xs) ?_)
      simp only [hfm]
      exact R_pure _ _
  getTag := by
    rintro f _ ⟨xs, rfl, hn, hl⟩ hf
    dsimp only [valArrNumsU64]
    obtain ⟨f', rfl⟩ : ∃ f', f = f' + 2 := ⟨f - 2, by omega⟩
    rw [show (NBT.longArray xs).tag = 12 from rfl]
    cases xs with
    | nil => simp [getTagType, tagOfType, arrTag]
    | cons x xs =>
      simp only [List.map_cons]
      rw [getTagType_array_cons]
      simp [getTagType, tagOfType, GoVal.typeOf, GoVal.isCarrier, GoType.isCarrier, arrTag]
  marshal := by
    rintro f _ ⟨xs, rfl, hn, hl⟩ hf
    dsimp only [valArrNumsU64]
    obtain ⟨f', rfl⟩ : ∃ f', f = f' + 2 := ⟨f - 2, by omega⟩
    rw [show (NBT.longArray xs).tag = 12 from rfl]
    have h7 : (12 : BitVec 8).toNat = 12 := rfl
    simp only [Go.marshal, GoVal.isCarrier, GoVal.typeOf, GoType.isCarrier, Bool.false_eq_true, if_false,
      writeValue, h7, encPayload]
    rw [resMapM_map_ok (numOfElem 8) _ be64 xs (by
      intro b _
      simp only [numOfElem, unwrapIface, wrapN8_toNat, beN_eq, be64])]
    simp only [resFlatten, beN_eq, List.length_map]

/-! ### carriers as element classes -/

theorem CarrierExact.toElem {cx : SnbtCarrier} {c : GoType} {ok : NBT → Prop} {val : NBT → GoVal}
    (h : CarrierExact cx c ok val) : ElemExact cx c ok val (fun _ => 1) where
  zeroTy := h.zeroTy
  needPos := fun _ _ => Nat.le_refl 1
  reads := fun d fuel t ht => h.reads d fuel c.zero t ht
  getTag := by
    intro f t ht hf
    obtain ⟨f', rfl⟩ : ∃ f', f = f' + 1 := ⟨f - 1, by omega⟩
    exact h.getTag f' t ht
  marshal := by
    intro f t ht hf
    obtain ⟨f', rfl⟩ : ∃ f', f = f' + 1 := ⟨f - 1, by omega⟩
    exact h.marshal f' t ht

def okRaw : NBT → Prop := fun t => t.WF ∧ S15 t
def valRaw : NBT → GoVal := fun t => .raw t.tag (encPayload t)
def okDyn : NBT → Prop := fun t => t.WF ∧ GoMC.Lemmas.DynBT.Small t
def valDyn : NBT → GoVal := fun t => .dyn (GoMC.Lemmas.DynBT.toVal t)

end GoMC.Lemmas.NBTTyped
