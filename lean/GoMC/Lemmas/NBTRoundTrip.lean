/-
  Round trip of the typed codec, compositionally. `ElemExact cx c ok val need` says that for the trees of a class
  `ok`, decoding the payload of `t` into a fresh variable of type `c` yields exactly `val t` and encoding `val t`
  writes exactly the payload of `t` (tag `t.tag`). The classes are closed under slices (`elem_slice`) and maps
  (`elem_map`); the base classes are the scalars, strings, typed arrays and the carriers.
-/
import GoMC.Lemmas.NBTCarrier
set_option linter.unusedSimpArgs false
namespace GoMC.Lemmas.NBTTyped
open GoMC GoMC.Rd GoMC.Model GoMC.Model.NBT GoMC.Model.Go GoMC.Lemmas.NBTDecode
open GoMC.Spec (NBT encPayload encList encKvs encString encDoc be16 be32 be64 beBytes beVal Format docName)

/-- A class of trees `ok` for a destination type `c`, with the value `val t` a tree stands for: decoding the
payload of `t` into a fresh `c` yields `val t` (exactly the payload consumed), `getTagType` of `val t` is `t`'s
tag, and `marshal` writes the payload back — given `need t` units of fuel. -/
structure ElemExact (cx : SnbtCarrier) (c : GoType) (ok : NBT → Prop) (val : NBT → GoVal) (need : NBT → Nat) : Prop where
  zeroTy : c.zero.typeOf = c
  reads : ∀ d fuel t, ok t → R (cost t ≤ fuel) (unmarshal cx d fuel c c.zero t.tag) (encPayload t) (val t)
  getTag : ∀ f t, ok t → need t ≤ f → getTagType cx f (val t) = (t.tag, val t)
  marshal : ∀ f t, ok t → need t ≤ f → marshal cx f (val t) t.tag = Res.ok (encPayload t)
  needPos : ∀ t, ok t → 1 ≤ need t

/-- maximum of `need` over a list of trees -/
def needMax (need : NBT → Nat) : List NBT → Nat
  | [] => 0
  | t :: ts => max (need t) (needMax need ts)

theorem le_needMax {need : NBT → Nat} {t : NBT} : ∀ {ts : List NBT}, t ∈ ts → need t ≤ needMax need ts
  | [], h => by cases h
  | x :: xs, h => by
    simp only [needMax]
    rcases List.mem_cons.mp h with rfl | h'
    · omega
    · have := le_needMax (need := need) h'; omega

theorem cost_le_costList {t : NBT} : ∀ {ts : List NBT}, t ∈ ts → cost t + 1 ≤ costList ts
  | [], h => by cases h
  | x :: xs, h => by
    simp only [costList]
    rcases List.mem_cons.mp h with rfl | h'
    · omega
    · have := cost_le_costList h'; omega

section
variable {cx : SnbtCarrier} {c : GoType} {ok : NBT → Prop} {val : NBT → GoVal} {need : NBT → Nat}
  (hx : ElemExact cx c ok val need)
include hx

/-- trees a `[]c` stands for: lists of `ok` trees whose tag makes a list (not a typed array), the empty list with
the static element tag -/
def okSlice (c : GoType) (ok : NBT → Prop) : NBT → Prop
  | .list e ts => (NBT.list e ts).WF ∧ (∀ t ∈ ts, ok t) ∧ (ts = [] → e = tagOfType c)
  | _ => False

def valSlice (c : GoType) (val : NBT → GoVal) : NBT → GoVal
  | .list _ ts => .slice c false (ts.map val)
  | _ => .slice c false []

def needSlice (need : NBT → Nat) : NBT → Nat
  | .list _ ts => needMax need ts + 2
  | _ => 2

/-- `[]c` for an element class whose values make lists: closed under slices -/
theorem elem_slice (hseq : ∀ t, ok t → (val t).isCarrier = true ∨ arrTag t.tag = 9)
    (hstat : arrTag (tagOfType c) = 9) :
    ElemExact cx (.slice c) (okSlice c ok) (valSlice c val) (needSlice need) where
  zeroTy := rfl
  needPos := by intro t _; cases t <;> simp [needSlice]
  reads := by
    intro d fuel t hok
    cases t with
    | list e ts =>
      obtain ⟨hwf, hoks, hemp⟩ := hok
      have hwf' := hwf
      simp only [NBT.WF, two31] at hwf'
      obtain ⟨hlen, hnz, hle, hwfl⟩ := hwf'
      cases fuel with
      | zero => unfold unmarshal; exact R_fail (by simp [cost]) _ _
      | succ f =>
        have hnz' : e ≠ 0#8 ∨ ts.length = 0 := by
          rcases hnz with h | h
          · right; simp [h]
          · exact Or.inl h
        unfold unmarshal
        have h9 : (9 : BitVec 8).toNat = 9 := rfl
        simp only [NBT.tag, NBT.tagList, umSlice, h9, encPayload, valSlice]
        have : e :: beBytes 4 ts.length ++ encList ts = (e :: beBytes 4 ts.length) ++ (encList ts ++ []) := by simp
        rw [this]
        apply R_bind (R_listHeader _ e ts.length hle hlen hnz')
        simp only
        apply R_bind
        · apply R_rdRepeat
          intro t ht
          have := hx.reads d f t (hoks t ht)
          rw [(wfList_mem hwfl t ht).1] at this
          exact R_mono (fun h => by
            have := cost_le_costList ht
            simp only [cost] at h; omega) this
        · exact R_pure _ _
    | _ => exact hok.elim
  getTag := by
    intro f t hok hf
    cases t with
    | list e ts =>
      obtain ⟨hwf, hoks, hemp⟩ := hok
      simp only [needSlice] at hf
      obtain ⟨f', rfl⟩ : ∃ f', f = f' + 1 := ⟨f - 1, by omega⟩
      cases ts with
      | nil =>
        rw [show (NBT.list e []).tag = 9 from rfl]
        simp only [valSlice, List.map_nil, getTagType, hstat]
      | cons t0 ts' =>
        have hg0 := hx.getTag f' t0 (hoks t0 (List.mem_cons_self)) (by simp only [needMax] at hf; omega)
        simp only [valSlice, List.map_cons]
        rw [getTagType_slice_cons, hg0, show (NBT.list e (t0 :: ts')).tag = 9 from rfl]
        rcases hseq t0 (hoks t0 (List.mem_cons_self)) with h | h
        · simp [h]
        · by_cases hc : (val t0).isCarrier = true
          · simp [hc]
          · simp only [hc, Bool.false_eq_true, if_false, h]
    | _ => exact hok.elim
  marshal := by
    intro f t hok hf
    cases t with
    | list e ts =>
      obtain ⟨hwf, hoks, hemp⟩ := hok
      have hwf' := hwf
      simp only [NBT.WF, two31] at hwf'
      obtain ⟨hlen, hnz, hle, hwfl⟩ := hwf'
      simp only [needSlice] at hf
      obtain ⟨f', rfl⟩ : ∃ f', f = f' + 2 := ⟨f - 2, by omega⟩
      have hsl : ∀ xs, GoVal.isCarrier (.slice c false xs) = false := fun _ => rfl
      rw [show (NBT.list e ts).tag = 9 from rfl]
      simp only [valSlice]
      unfold Go.marshal
      rw [hsl]
      simp only [Bool.false_eq_true, if_false]
      cases ts with
      | nil =>
        have h9 : (9 : BitVec 8).toNat = 9 := rfl
        simp only [List.map_nil, writeValue, h9, resMapM, resFlatten, List.flatten_nil, List.append_nil,
          List.length_nil, encPayload, encList, hemp rfl, beN_eq]
      | cons t0 ts' =>
        have hn0 : need t0 ≤ f' := by simp only [needMax] at hf; omega
        have hg0 := hx.getTag f' t0 (hoks t0 (List.mem_cons_self)) hn0
        have ht0 := wfList_mem hwfl t0 (List.mem_cons_self)
        rw [List.map_cons, writeValue_list_slice, hg0]
        have hm : resMapM (elemEnc (getTagType cx f') (Go.marshal cx f') t0.tag) ((t0 :: ts').map val)
            = Res.ok ((t0 :: ts').map encPayload) := by
          apply resMapM_map_ok
          intro t ht
          have hnt : need t ≤ f' := by have := le_needMax (need := need) ht; omega
          unfold elemEnc
          simp only [hx.getTag f' t (hoks t ht) hnt, (wfList_mem hwfl t ht).1, ht0.1, ne_eq, not_true_eq_false, if_false]
          have := hx.marshal f' t (hoks t ht) hnt
          rw [(wfList_mem hwfl t ht).1] at this
          exact this
        rw [← List.map_cons, hm]
        simp only [resFlatten, encPayload, ht0.1, beN_eq, List.length_map, encList_eq_flatten]
    | _ => exact hok.elim

/-- trees a `map[string]c` stands for: compounds with short, pairwise different keys and `ok` values -/
def okMap (ok : NBT → Prop) : NBT → Prop
  | .compound kvs => (∀ kv ∈ kvs, kv.1.length < 32768 ∧ ok kv.2) ∧ (kvs.map (·.1)).Nodup
  | _ => False

def valMap (c : GoType) (val : NBT → GoVal) : NBT → GoVal
  | .compound kvs => .map c false (kvs.map fun kv => (kv.1, val kv.2))
  | _ => .map c false []

def needMap (need : NBT → Nat) : NBT → Nat
  | .compound kvs => needMax need (kvs.map (·.2)) + 2
  | _ => 2

omit hx in
theorem cost_le_costKvs {kv : Bytes × NBT} : ∀ {kvs : List (Bytes × NBT)}, kv ∈ kvs → cost kv.2 + 1 ≤ costKvs kvs
  | [], h => by cases h
  | (k, v) :: kvs, h => by
    simp only [costKvs]
    rcases List.mem_cons.mp h with rfl | h'
    · show cost v + 1 ≤ _; omega
    · have := cost_le_costKvs h'; omega

omit hx in
theorem length_le_costKvs : ∀ kvs : List (Bytes × NBT), kvs.length + 1 ≤ costKvs kvs
  | [] => by simp [costKvs]
  | (k, v) :: kvs => by
    have := length_le_costKvs kvs
    simp only [costKvs, List.length_cons]; omega

/-- the loop of the map branch, for an element class -/
theorem elem_mapLoop (d : Bool) (f : Nat) : ∀ (kvs : List (Bytes × NBT)) (w : Nat) (acc : List (Bytes × GoVal)),
    (∀ kv ∈ kvs, kv.1.length < 32768 ∧ ok kv.2) →
    R (kvs.length + 1 ≤ w ∧ ∀ kv ∈ kvs, cost kv.2 ≤ f)
      (kvLoop (fun tt tn a => do
          let v ← unmarshal cx d f c c.zero tt
          Pure.pure (setMapKV a tn v)) w acc)
      (encKvs kvs) (kvs.foldl (fun a kv => NBT.mapSet a kv.1 (val kv.2)) acc)
  | kvs, 0, acc, _ => by
    unfold kvLoop
    exact R_fail (by omega) _ _
  | [], w + 1, acc, _ => R_kvLoop_end _ _ w acc
  | (k, t) :: kvs, w + 1, acc, h => by
    have hkt := h (k, t) (List.mem_cons_self)
    obtain ⟨t0, t1, t2⟩ := tag_not_magic t
    simp only [encKvs, List.foldl_cons]
    apply R_kvLoop_entry _ _ w acc (setMapKV acc k (val t)) _ t.tag k (encPayload t) (encKvs kvs) hkt.1 t0 t1 t2
    · have := hx.reads d f t hkt.2
      exact R_map (fun v => setMapKV acc k v) (R_mono (fun hc => hc.2 (k, t) (List.mem_cons_self)) this)
    · exact R_mono (fun hc => ⟨by have := hc.1; simp only [List.length_cons] at this; omega,
          fun kv hkv => hc.2 kv (List.mem_cons_of_mem _ hkv)⟩)
        (elem_mapLoop d f kvs w (setMapKV acc k (val t)) (fun kv hkv => h kv (List.mem_cons_of_mem _ hkv)))

/-- `map[string]c` for an element class: closed under maps -/
theorem elem_map : ElemExact cx (.map c) (okMap ok) (valMap c val) (needMap need) where
  zeroTy := rfl
  needPos := by intro t _; cases t <;> simp [needMap]
  reads := by
    intro d fuel t hok
    cases t with
    | compound kvs =>
      obtain ⟨hoks, hnd⟩ := hok
      cases fuel with
      | zero => unfold unmarshal; exact R_fail (by simp [cost]) _ _
      | succ f =>
        rw [show (NBT.compound kvs).tag = 10 from rfl]
        unfold unmarshal
        have h10 : (10 : BitVec 8).toNat = 10 := rfl
        simp only [umMap, h10, encPayload, valMap]
        have hz : mapEntries (GoType.map c).zero = [] := rfl
        rw [hz]
        have := elem_mapLoop hx d f kvs f [] hoks
        have hfold : kvs.foldl (fun a kv => NBT.mapSet a kv.1 (val kv.2)) [] = kvs.map fun kv => (kv.1, val kv.2) := by
          have h2 := foldl_mapSet_nodup (kvs.map fun kv => (kv.1, val kv.2)) []
            (by rw [List.map_map]; exact hnd) (by intro _ _ a ha; cases ha)
          rw [List.foldl_map] at h2
          simpa using h2
        rw [hfold] at this
        exact R_map (fun kvs' => GoVal.map c false kvs') (R_mono (fun hc => by
          simp only [cost] at hc
          exact ⟨by have := length_le_costKvs kvs; omega, fun kv hkv => by have := cost_le_costKvs hkv; omega⟩) this)
    | _ => exact hok.elim
  getTag := by
    intro f t hok hf
    cases t with
    | compound kvs =>
      simp only [needMap] at hf
      obtain ⟨f', rfl⟩ : ∃ f', f = f' + 1 := ⟨f - 1, by omega⟩
      rw [show (NBT.compound kvs).tag = 10 from rfl]
      simp only [valMap, getTagType, tagOfType, GoVal.typeOf]
    | _ => exact hok.elim
  marshal := by
    intro f t hok hf
    cases t with
    | compound kvs =>
      obtain ⟨hoks, hnd⟩ := hok
      simp only [needMap] at hf
      obtain ⟨f', rfl⟩ : ∃ f', f = f' + 2 := ⟨f - 2, by omega⟩
      rw [show (NBT.compound kvs).tag = 10 from rfl]
      simp only [valMap]
      have hsl : GoVal.isCarrier (.map c false (kvs.map fun kv => (kv.1, val kv.2))) = false := rfl
      unfold Go.marshal
      rw [hsl]
      simp only [Bool.false_eq_true, if_false]
      have h10 : (10 : BitVec 8).toNat = 10 := rfl
      simp only [writeValue, h10]
      have hm : resMapM (entryEnc (getTagType cx f') (Go.marshal cx f')) (kvs.map fun kv => (kv.1, val kv.2))
          = Res.ok (kvs.map fun kv => kv.2.tag :: encString kv.1 ++ encPayload kv.2) := by
        apply resMapM_map_ok
        intro kv hkv
        obtain ⟨hk, hokv⟩ := hoks kv hkv
        have hnt : need kv.2 ≤ f' := by
          have := le_needMax (need := need) (List.mem_map_of_mem (f := (·.2)) hkv); omega
        unfold entryEnc
        have hlen : ¬ kv.1.length > 32767 := by omega
        have ht0 : ¬ kv.2.tag = 0 := (tag_not_magic kv.2).1
        simp only [hx.getTag f' kv.2 hokv hnt, hx.marshal f' kv.2 hokv hnt, if_false, writeTag, hlen]
        rw [if_neg ht0]
        simp only [encString, beN_eq, List.cons_append, List.append_assoc]
      rw [hm]
      simp only [resFlatten, encPayload, encKvs_eq_flatten]
      rfl
    | _ => exact hok.elim
end

/-! ### integers: Go's conversions on the two's-complement pattern -/

theorem toInt_emod8 (v : BitVec 8) : v.toInt % 256 = v.toNat := by
  rw [BitVec.toInt_eq_toNat_cond]; have := v.isLt; split <;> omega
theorem toInt_emod16 (v : BitVec 16) : v.toInt % 65536 = v.toNat := by
  rw [BitVec.toInt_eq_toNat_cond]; have := v.isLt; split <;> omega
theorem toInt_emod32 (v : BitVec 32) : v.toInt % 4294967296 = v.toNat := by
  rw [BitVec.toInt_eq_toNat_cond]; have := v.isLt; split <;> omega
theorem toInt_emod64 (v : BitVec 64) : v.toInt % 18446744073709551616 = v.toNat := by
  rw [BitVec.toInt_eq_toNat_cond]; have := v.isLt; split <;> omega

theorem wrapN1_toInt (v : BitVec 8) : wrapN 1 v.toInt = v.toNat := by
  unfold wrapN; rw [show ((256:Int) ^ 1) = 256 from rfl, toInt_emod8]; rfl
theorem wrapN2_toInt (v : BitVec 16) : wrapN 2 v.toInt = v.toNat := by
  unfold wrapN; rw [show ((256:Int) ^ 2) = 65536 from rfl, toInt_emod16]; rfl
theorem wrapN4_toInt (v : BitVec 32) : wrapN 4 v.toInt = v.toNat := by
  unfold wrapN; rw [show ((256:Int) ^ 4) = 4294967296 from rfl, toInt_emod32]; rfl
theorem wrapN8_toInt (v : BitVec 64) : wrapN 8 v.toInt = v.toNat := by
  unfold wrapN; rw [show ((256:Int) ^ 8) = 18446744073709551616 from rfl, toInt_emod64]; rfl

theorem wrapN1_toNat (v : BitVec 8) : wrapN 1 (v.toNat : Int) = v.toNat := by
  unfold wrapN
  have := v.isLt
  have h : ((v.toNat : Int) % ((256:Int) ^ 1)) = v.toNat := by rw [show ((256:Int) ^ 1) = 256 from rfl]; omega
  rw [h]; rfl
theorem wrapN2_toNat (v : BitVec 16) : wrapN 2 (v.toNat : Int) = v.toNat := by
  unfold wrapN
  have := v.isLt
  have h : ((v.toNat : Int) % ((256:Int) ^ 2)) = v.toNat := by rw [show ((256:Int) ^ 2) = 65536 from rfl]; omega
  rw [h]; rfl
theorem wrapN4_toNat (v : BitVec 32) : wrapN 4 (v.toNat : Int) = v.toNat := by
  unfold wrapN
  have := v.isLt
  have h : ((v.toNat : Int) % ((256:Int) ^ 4)) = v.toNat := by rw [show ((256:Int) ^ 4) = 4294967296 from rfl]; omega
  rw [h]; rfl
theorem wrapN8_toNat (v : BitVec 64) : wrapN 8 (v.toNat : Int) = v.toNat := by
  unfold wrapN
  have := v.isLt
  have h : ((v.toNat : Int) % ((256:Int) ^ 8)) = v.toNat := by
    rw [show ((256:Int) ^ 8) = 18446744073709551616 from rfl]; omega
  rw [h]; rfl

/-- `IK.wrap` (the conversion to the destination kind) on what the decoder read for the kind the value was written from -/
theorem wrap_i8 (v : BitVec 8) : IK.wrap .i8 v.toInt = v.toInt := by
  have he := toInt_emod8 v
  have hc := BitVec.toInt_eq_toNat_cond (x := v)
  have hl := v.isLt
  have hp : ((2:Int) ^ 8) = 256 := rfl
  have hpn : ((2:Nat) ^ 8) = 256 := rfl
  unfold IK.wrap
  simp only [IK.bits, IK.signed, Bool.true_and, hp, he]
  rw [hpn] at hc hl
  split at hc <;> split <;> rename_i h2 <;> simp at h2 <;> omega
theorem wrap_i16 (v : BitVec 16) : IK.wrap .i16 v.toInt = v.toInt := by
  have he := toInt_emod16 v
  have hc := BitVec.toInt_eq_toNat_cond (x := v)
  have hl := v.isLt
  have hp : ((2:Int) ^ 16) = 65536 := rfl
  have hpn : ((2:Nat) ^ 16) = 65536 := rfl
  unfold IK.wrap
  simp only [IK.bits, IK.signed, Bool.true_and, hp, he]
  rw [hpn] at hc hl
  split at hc <;> split <;> rename_i h2 <;> simp at h2 <;> omega
theorem wrap_i32 (v : BitVec 32) : IK.wrap .i32 v.toInt = v.toInt := by
  have he := toInt_emod32 v
  have hc := BitVec.toInt_eq_toNat_cond (x := v)
  have hl := v.isLt
  have hp : ((2:Int) ^ 32) = 4294967296 := rfl
  have hpn : ((2:Nat) ^ 32) = 4294967296 := rfl
  unfold IK.wrap
  simp only [IK.bits, IK.signed, Bool.true_and, hp, he]
  rw [hpn] at hc hl
  split at hc <;> split <;> rename_i h2 <;> simp at h2 <;> omega
theorem wrap_i64 (v : BitVec 64) : IK.wrap .i64 v.toInt = v.toInt := by
  have he := toInt_emod64 v
  have hc := BitVec.toInt_eq_toNat_cond (x := v)
  have hl := v.isLt
  have hp : ((2:Int) ^ 64) = 18446744073709551616 := rfl
  have hpn : ((2:Nat) ^ 64) = 18446744073709551616 := rfl
  unfold IK.wrap
  simp only [IK.bits, IK.signed, Bool.true_and, hp, he]
  rw [hpn] at hc hl
  split at hc <;> split <;> rename_i h2 <;> simp at h2 <;> omega
theorem wrap_u8 (v : BitVec 8) : IK.wrap .u8 v.toInt = v.toNat := by
  have he := toInt_emod8 v
  have hp : ((2:Int) ^ 8) = 256 := rfl
  unfold IK.wrap
  simp only [IK.bits, IK.signed, Bool.false_and, Bool.false_eq_true, if_false, hp, he]
theorem wrap_u16 (v : BitVec 16) : IK.wrap .u16 v.toInt = v.toNat := by
  have he := toInt_emod16 v
  have hp : ((2:Int) ^ 16) = 65536 := rfl
  unfold IK.wrap
  simp only [IK.bits, IK.signed, Bool.false_and, Bool.false_eq_true, if_false, hp, he]
theorem wrap_u32 (v : BitVec 32) : IK.wrap .u32 v.toInt = v.toNat := by
  have he := toInt_emod32 v
  have hp : ((2:Int) ^ 32) = 4294967296 := rfl
  unfold IK.wrap
  simp only [IK.bits, IK.signed, Bool.false_and, Bool.false_eq_true, if_false, hp, he]
theorem wrap_u64 (v : BitVec 64) : IK.wrap .u64 v.toInt = v.toNat := by
  have he := toInt_emod64 v
  have hp : ((2:Int) ^ 64) = 18446744073709551616 := rfl
  unfold IK.wrap
  simp only [IK.bits, IK.signed, Bool.false_and, Bool.false_eq_true, if_false, hp, he]



theorem R_arrayLen (c : Prop) (n : Nat) (hn : n < 2147483648) : R c arrayLen (beBytes 4 n) n := by
  unfold arrayLen
  have : beBytes 4 n = beBytes 4 n ++ [] := by simp
  rw [this, ← be32_ofNat _ hn]
  apply R_bind (R_readInt32 c _)
  rw [msb32_false _ hn, toNat32 _ hn]
  simp only [Bool.false_eq_true, if_false]
  exact R_pure c _

theorem map_id_of {α : Type} (g : α → α) (P : α → Prop) (h : ∀ a, P a → g a = a) :
    ∀ xs : List α, (∀ a ∈ xs, P a) → xs.map g = xs
  | [], _ => rfl
  | x :: xs, hx => by
    rw [List.map_cons, h x (hx x List.mem_cons_self), map_id_of g P h xs (fun a ha => hx a (List.mem_cons_of_mem _ ha))]

/-! ### base classes: scalars and strings -/

/-- trees a fresh `i8` stands for -/
def okI8 : NBT → Prop := fun t => ∃ v, t = .byte v
def valI8 : NBT → GoVal := fun t => match t with | .byte v => .int .i8 v.toInt | _ => .int .i8 0

/-- i8 ↔ tagByte -/
theorem elem_i8 (cx : SnbtCarrier) : ElemExact cx (.int .i8) okI8 valI8 (fun _ => 2) where
  zeroTy := rfl
  needPos := fun _ _ => by omega
  reads := by
    rintro d fuel _ ⟨v, rfl⟩
    dsimp only [valI8]
    cases fuel with
    | zero => unfold unmarshal; exact R_fail (by simp [cost]) _ _
    | succ f =>
      unfold unmarshal
      have h2 : (1 : BitVec 8).toNat = 1 := rfl
      simp only [NBT.tag, NBT.tagByte, umInt, h2, intAccepts, encPayload, readInt8]
      have := R_map (fun x : BitVec 8 => GoVal.int .i8 (IK.wrap .i8 x.toInt)) (R_readByte (cost (.byte v) ≤ f + 1) v)
      rw [wrap_i8] at this
      exact this
  getTag := by
    rintro f _ ⟨v, rfl⟩ hf
    dsimp only [valI8]
    obtain ⟨f', rfl⟩ : ∃ f', f = f' + 1 := ⟨f - 1, by omega⟩
    simp [getTagType, tagOfType, GoVal.typeOf, NBT.tag, NBT.tagByte]
  marshal := by
    rintro f _ ⟨v, rfl⟩ hf
    dsimp only [valI8]
    obtain ⟨f', rfl⟩ : ∃ f', f = f' + 2 := ⟨f - 2, by omega⟩
    have h2 : (1 : BitVec 8).toNat = 1 := rfl
    simp only [Go.marshal, GoVal.isCarrier, GoVal.typeOf, GoType.isCarrier, Bool.false_eq_true, if_false,
      NBT.tag, NBT.tagByte, writeValue, h2, wrapN1_toInt, encPayload, BitVec.ofNat_toNat, BitVec.setWidth_eq]

/-- trees a fresh `u8` stands for -/
def okU8 : NBT → Prop := fun t => ∃ v, t = .byte v
def valU8 : NBT → GoVal := fun t => match t with | .byte v => .int .u8 v.toNat | _ => .int .u8 0

/-- u8 ↔ tagByte -/
theorem elem_u8 (cx : SnbtCarrier) : ElemExact cx (.int .u8) okU8 valU8 (fun _ => 2) where
  zeroTy := rfl
  needPos := fun _ _ => by omega
  reads := by
    rintro d fuel _ ⟨v, rfl⟩
    dsimp only [valU8]
    cases fuel with
    | zero => unfold unmarshal; exact R_fail (by simp [cost]) _ _
    | succ f =>
      unfold unmarshal
      have h2 : (1 : BitVec 8).toNat = 1 := rfl
      simp only [NBT.tag, NBT.tagByte, umInt, h2, intAccepts, encPayload, readInt8]
      have := R_map (fun x : BitVec 8 => GoVal.int .u8 (IK.wrap .u8 x.toInt)) (R_readByte (cost (.byte v) ≤ f + 1) v)
      rw [wrap_u8] at this
      exact this
  getTag := by
    rintro f _ ⟨v, rfl⟩ hf
    dsimp only [valU8]
    obtain ⟨f', rfl⟩ : ∃ f', f = f' + 1 := ⟨f - 1, by omega⟩
    simp [getTagType, tagOfType, GoVal.typeOf, NBT.tag, NBT.tagByte]
  marshal := by
    rintro f _ ⟨v, rfl⟩ hf
    dsimp only [valU8]
    obtain ⟨f', rfl⟩ : ∃ f', f = f' + 2 := ⟨f - 2, by omega⟩
    have h2 : (1 : BitVec 8).toNat = 1 := rfl
    simp only [Go.marshal, GoVal.isCarrier, GoVal.typeOf, GoType.isCarrier, Bool.false_eq_true, if_false,
      NBT.tag, NBT.tagByte, writeValue, h2, wrapN1_toNat, encPayload, BitVec.ofNat_toNat, BitVec.setWidth_eq]

/-- trees a fresh `i16` stands for -/
def okI16 : NBT → Prop := fun t => ∃ v, t = .short v
def valI16 : NBT → GoVal := fun t => match t with | .short v => .int .i16 v.toInt | _ => .int .i16 0

/-- i16 ↔ tagShort -/
theorem elem_i16 (cx : SnbtCarrier) : ElemExact cx (.int .i16) okI16 valI16 (fun _ => 2) where
  zeroTy := rfl
  needPos := fun _ _ => by omega
  reads := by
    rintro d fuel _ ⟨v, rfl⟩
    dsimp only [valI16]
    cases fuel with
    | zero => unfold unmarshal; exact R_fail (by simp [cost]) _ _
    | succ f =>
      unfold unmarshal
      have h2 : (2 : BitVec 8).toNat = 2 := rfl
      simp only [NBT.tag, NBT.tagShort, umInt, h2, intAccepts, IK.bits, encPayload]
      simp only [show (16 ≥ 16) = True from by decide, decide_true, if_true]
      have := R_map (fun x : BitVec 16 => GoVal.int .i16 (IK.wrap .i16 x.toInt)) (R_readInt16 (cost (.short v) ≤ f + 1) v)
      rw [wrap_i16] at this
      exact this
  getTag := by
    rintro f _ ⟨v, rfl⟩ hf
    dsimp only [valI16]
    obtain ⟨f', rfl⟩ : ∃ f', f = f' + 1 := ⟨f - 1, by omega⟩
    simp [getTagType, tagOfType, GoVal.typeOf, NBT.tag, NBT.tagShort]
  marshal := by
    rintro f _ ⟨v, rfl⟩ hf
    dsimp only [valI16]
    obtain ⟨f', rfl⟩ : ∃ f', f = f' + 2 := ⟨f - 2, by omega⟩
    have h2 : (2 : BitVec 8).toNat = 2 := rfl
    simp only [Go.marshal, GoVal.isCarrier, GoVal.typeOf, GoType.isCarrier, Bool.false_eq_true, if_false,
      NBT.tag, NBT.tagShort, writeValue, h2, intValue, wrapN2_toInt, beN_eq, encPayload, be16]

/-- trees a fresh `u16` stands for -/
def okU16 : NBT → Prop := fun t => ∃ v, t = .short v
def valU16 : NBT → GoVal := fun t => match t with | .short v => .int .u16 v.toNat | _ => .int .u16 0

/-- u16 ↔ tagShort -/
theorem elem_u16 (cx : SnbtCarrier) : ElemExact cx (.int .u16) okU16 valU16 (fun _ => 2) where
  zeroTy := rfl
  needPos := fun _ _ => by omega
  reads := by
    rintro d fuel _ ⟨v, rfl⟩
    dsimp only [valU16]
    cases fuel with
    | zero => unfold unmarshal; exact R_fail (by simp [cost]) _ _
    | succ f =>
      unfold unmarshal
      have h2 : (2 : BitVec 8).toNat = 2 := rfl
      simp only [NBT.tag, NBT.tagShort, umInt, h2, intAccepts, IK.bits, encPayload]
      simp only [show (16 ≥ 16) = True from by decide, decide_true, if_true]
      have := R_map (fun x : BitVec 16 => GoVal.int .u16 (IK.wrap .u16 x.toInt)) (R_readInt16 (cost (.short v) ≤ f + 1) v)
      rw [wrap_u16] at this
      exact this
  getTag := by
    rintro f _ ⟨v, rfl⟩ hf
    dsimp only [valU16]
    obtain ⟨f', rfl⟩ : ∃ f', f = f' + 1 := ⟨f - 1, by omega⟩
    simp [getTagType, tagOfType, GoVal.typeOf, NBT.tag, NBT.tagShort]
  marshal := by
    rintro f _ ⟨v, rfl⟩ hf
    dsimp only [valU16]
    obtain ⟨f', rfl⟩ : ∃ f', f = f' + 2 := ⟨f - 2, by omega⟩
    have h2 : (2 : BitVec 8).toNat = 2 := rfl
    simp only [Go.marshal, GoVal.isCarrier, GoVal.typeOf, GoType.isCarrier, Bool.false_eq_true, if_false,
      NBT.tag, NBT.tagShort, writeValue, h2, intValue, wrapN2_toNat, beN_eq, encPayload, be16]

/-- trees a fresh `i32` stands for -/
def okI32 : NBT → Prop := fun t => ∃ v, t = .int v
def valI32 : NBT → GoVal := fun t => match t with | .int v => .int .i32 v.toInt | _ => .int .i32 0

/-- i32 ↔ tagInt -/
theorem elem_i32 (cx : SnbtCarrier) : ElemExact cx (.int .i32) okI32 valI32 (fun _ => 2) where
  zeroTy := rfl
  needPos := fun _ _ => by omega
  reads := by
    rintro d fuel _ ⟨v, rfl⟩
    dsimp only [valI32]
    cases fuel with
    | zero => unfold unmarshal; exact R_fail (by simp [cost]) _ _
    | succ f =>
      unfold unmarshal
      have h2 : (3 : BitVec 8).toNat = 3 := rfl
      simp only [NBT.tag, NBT.tagInt, umInt, h2, intAccepts, IK.bits, encPayload]
      simp only [show (32 ≥ 32) = True from by decide, decide_true, if_true]
      have := R_map (fun x : BitVec 32 => GoVal.int .i32 (IK.wrap .i32 x.toInt)) (R_readInt32 (cost (.int v) ≤ f + 1) v)
      rw [wrap_i32] at this
      exact this
  getTag := by
    rintro f _ ⟨v, rfl⟩ hf
    dsimp only [valI32]
    obtain ⟨f', rfl⟩ : ∃ f', f = f' + 1 := ⟨f - 1, by omega⟩
    simp [getTagType, tagOfType, GoVal.typeOf, NBT.tag, NBT.tagInt]
  marshal := by
    rintro f _ ⟨v, rfl⟩ hf
    dsimp only [valI32]
    obtain ⟨f', rfl⟩ : ∃ f', f = f' + 2 := ⟨f - 2, by omega⟩
    have h2 : (3 : BitVec 8).toNat = 3 := rfl
    simp only [Go.marshal, GoVal.isCarrier, GoVal.typeOf, GoType.isCarrier, Bool.false_eq_true, if_false,
      NBT.tag, NBT.tagInt, writeValue, h2, intValue, wrapN4_toInt, beN_eq, encPayload, be32]

/-- trees a fresh `u32` stands for -/
def okU32 : NBT → Prop := fun t => ∃ v, t = .int v
def valU32 : NBT → GoVal := fun t => match t with | .int v => .int .u32 v.toNat | _ => .int .u32 0

/-- u32 ↔ tagInt -/
theorem elem_u32 (cx : SnbtCarrier) : ElemExact cx (.int .u32) okU32 valU32 (fun _ => 2) where
  zeroTy := rfl
  needPos := fun _ _ => by omega
  reads := by
    rintro d fuel _ ⟨v, rfl⟩
    dsimp only [valU32]
    cases fuel with
    | zero => unfold unmarshal; exact R_fail (by simp [cost]) _ _
    | succ f =>
      unfold unmarshal
      have h2 : (3 : BitVec 8).toNat = 3 := rfl
      simp only [NBT.tag, NBT.tagInt, umInt, h2, intAccepts, IK.bits, encPayload]
      simp only [show (32 ≥ 32) = True from by decide, decide_true, if_true]
      have := R_map (fun x : BitVec 32 => GoVal.int .u32 (IK.wrap .u32 x.toInt)) (R_readInt32 (cost (.int v) ≤ f + 1) v)
      rw [wrap_u32] at this
      exact this
  getTag := by
    rintro f _ ⟨v, rfl⟩ hf
    dsimp only [valU32]
    obtain ⟨f', rfl⟩ : ∃ f', f = f' + 1 := ⟨f - 1, by omega⟩
    simp [getTagType, tagOfType, GoVal.typeOf, NBT.tag, NBT.tagInt]
  marshal := by
    rintro f _ ⟨v, rfl⟩ hf
    dsimp only [valU32]
    obtain ⟨f', rfl⟩ : ∃ f', f = f' + 2 := ⟨f - 2, by omega⟩
    have h2 : (3 : BitVec 8).toNat = 3 := rfl
    simp only [Go.marshal, GoVal.isCarrier, GoVal.typeOf, GoType.isCarrier, Bool.false_eq_true, if_false,
      NBT.tag, NBT.tagInt, writeValue, h2, intValue, wrapN4_toNat, beN_eq, encPayload, be32]

/-- trees a fresh `i64` stands for -/
def okI64 : NBT → Prop := fun t => ∃ v, t = .long v
def valI64 : NBT → GoVal := fun t => match t with | .long v => .int .i64 v.toInt | _ => .int .i64 0

/-- i64 ↔ tagLong -/
theorem elem_i64 (cx : SnbtCarrier) : ElemExact cx (.int .i64) okI64 valI64 (fun _ => 2) where
  zeroTy := rfl
  needPos := fun _ _ => by omega
  reads := by
    rintro d fuel _ ⟨v, rfl⟩
    dsimp only [valI64]
    cases fuel with
    | zero => unfold unmarshal; exact R_fail (by simp [cost]) _ _
    | succ f =>
      unfold unmarshal
      have h2 : (4 : BitVec 8).toNat = 4 := rfl
      simp only [NBT.tag, NBT.tagLong, umInt, h2, intAccepts, IK.bits, encPayload]
      simp only [show (64 ≥ 64) = True from by decide, decide_true, if_true]
      have := R_map (fun x : BitVec 64 => GoVal.int .i64 (IK.wrap .i64 x.toInt)) (R_readInt64 (cost (.long v) ≤ f + 1) v)
      rw [wrap_i64] at this
      exact this
  getTag := by
    rintro f _ ⟨v, rfl⟩ hf
    dsimp only [valI64]
    obtain ⟨f', rfl⟩ : ∃ f', f = f' + 1 := ⟨f - 1, by omega⟩
    simp [getTagType, tagOfType, GoVal.typeOf, NBT.tag, NBT.tagLong]
  marshal := by
    rintro f _ ⟨v, rfl⟩ hf
    dsimp only [valI64]
    obtain ⟨f', rfl⟩ : ∃ f', f = f' + 2 := ⟨f - 2, by omega⟩
    have h2 : (4 : BitVec 8).toNat = 4 := rfl
    simp only [Go.marshal, GoVal.isCarrier, GoVal.typeOf, GoType.isCarrier, Bool.false_eq_true, if_false,
      NBT.tag, NBT.tagLong, writeValue, h2, intValue, wrapN8_toInt, beN_eq, encPayload, be64]

/-- trees a fresh `u64` stands for -/
def okU64 : NBT → Prop := fun t => ∃ v, t = .long v
def valU64 : NBT → GoVal := fun t => match t with | .long v => .int .u64 v.toNat | _ => .int .u64 0

/-- u64 ↔ tagLong -/
theorem elem_u64 (cx : SnbtCarrier) : ElemExact cx (.int .u64) okU64 valU64 (fun _ => 2) where
  zeroTy := rfl
  needPos := fun _ _ => by omega
  reads := by
    rintro d fuel _ ⟨v, rfl⟩
    dsimp only [valU64]
    cases fuel with
    | zero => unfold unmarshal; exact R_fail (by simp [cost]) _ _
    | succ f =>
      unfold unmarshal
      have h2 : (4 : BitVec 8).toNat = 4 := rfl
      simp only [NBT.tag, NBT.tagLong, umInt, h2, intAccepts, IK.bits, encPayload]
      simp only [show (64 ≥ 64) = True from by decide, decide_true, if_true]
      have := R_map (fun x : BitVec 64 => GoVal.int .u64 (IK.wrap .u64 x.toInt)) (R_readInt64 (cost (.long v) ≤ f + 1) v)
      rw [wrap_u64] at this
      exact this
  getTag := by
    rintro f _ ⟨v, rfl⟩ hf
    dsimp only [valU64]
    obtain ⟨f', rfl⟩ : ∃ f', f = f' + 1 := ⟨f - 1, by omega⟩
    simp [getTagType, tagOfType, GoVal.typeOf, NBT.tag, NBT.tagLong]
  marshal := by
    rintro f _ ⟨v, rfl⟩ hf
    dsimp only [valU64]
    obtain ⟨f', rfl⟩ : ∃ f', f = f' + 2 := ⟨f - 2, by omega⟩
    have h2 : (4 : BitVec 8).toNat = 4 := rfl
    simp only [Go.marshal, GoVal.isCarrier, GoVal.typeOf, GoType.isCarrier, Bool.false_eq_true, if_false,
      NBT.tag, NBT.tagLong, writeValue, h2, intValue, wrapN8_toNat, beN_eq, encPayload, be64]

def okBool : NBT → Prop := fun t => t = .byte 0 ∨ t = .byte 1
def valBool : NBT → GoVal := fun t => match t with | .byte v => .bool (v != 0) | _ => .bool false

/-- bool ↔ TagByte 0 / 1 -/
theorem elem_bool (cx : SnbtCarrier) : ElemExact cx .bool okBool valBool (fun _ => 2) where
  zeroTy := rfl
  needPos := fun _ _ => by omega
  reads := by
    intro d fuel t ht
    obtain ⟨v, rfl⟩ : ∃ v, t = .byte v := by rcases ht with rfl | rfl <;> exact ⟨_, rfl⟩
    dsimp only [valBool]
    cases fuel with
    | zero => unfold unmarshal; exact R_fail (by simp [cost]) _ _
    | succ f =>
      unfold unmarshal
      have h2 : (1 : BitVec 8).toNat = 1 := rfl
      simp only [NBT.tag, NBT.tagByte, umBool, h2, encPayload, readInt8]
      exact R_map (fun x : BitVec 8 => GoVal.bool (x != 0)) (R_readByte (cost (.byte v) ≤ f + 1) v)
  getTag := by
    intro f t ht hf
    obtain ⟨f', rfl⟩ : ∃ f', f = f' + 1 := ⟨f - 1, by omega⟩
    rcases ht with rfl | rfl <;> simp [valBool, getTagType, tagOfType, GoVal.typeOf, NBT.tag, NBT.tagByte]
  marshal := by
    intro f t ht hf
    obtain ⟨f', rfl⟩ : ∃ f', f = f' + 2 := ⟨f - 2, by omega⟩
    have h2 : (1 : BitVec 8).toNat = 1 := rfl
    rcases ht with rfl | rfl <;>
    simp only [valBool, Go.marshal, GoVal.isCarrier, GoVal.typeOf, GoType.isCarrier, Bool.false_eq_true, if_false,
      NBT.tag, NBT.tagByte, writeValue, h2, encPayload] <;> rfl

def okF32 : NBT → Prop := fun t => ∃ v, t = .float v
def valF32 : NBT → GoVal := fun t => match t with | .float v => .f32 v | _ => .f32 0

/-- f32 ↔ tagFloat -/
theorem elem_f32 (cx : SnbtCarrier) : ElemExact cx .f32 okF32 valF32 (fun _ => 2) where
  zeroTy := rfl
  needPos := fun _ _ => by omega
  reads := by
    rintro d fuel _ ⟨v, rfl⟩
    dsimp only [valF32]
    cases fuel with
    | zero => unfold unmarshal; exact R_fail (by simp [cost]) _ _
    | succ f =>
      unfold unmarshal
      have h2 : (5 : BitVec 8).toNat = 5 := rfl
      simp only [NBT.tag, NBT.tagFloat, umF32, h2, encPayload]
      exact R_map _ (R_readInt32 (cost (.float v) ≤ f + 1) v)
  getTag := by
    rintro f _ ⟨v, rfl⟩ hf
    dsimp only [valF32]
    obtain ⟨f', rfl⟩ : ∃ f', f = f' + 1 := ⟨f - 1, by omega⟩
    simp [getTagType, tagOfType, GoVal.typeOf, NBT.tag, NBT.tagFloat]
  marshal := by
    rintro f _ ⟨v, rfl⟩ hf
    dsimp only [valF32]
    obtain ⟨f', rfl⟩ : ∃ f', f = f' + 2 := ⟨f - 2, by omega⟩
    have h2 : (5 : BitVec 8).toNat = 5 := rfl
    simp only [Go.marshal, GoVal.isCarrier, GoVal.typeOf, GoType.isCarrier, Bool.false_eq_true, if_false,
      NBT.tag, NBT.tagFloat, writeValue, h2, beN_eq, encPayload, be32]

def okF64 : NBT → Prop := fun t => ∃ v, t = .double v
def valF64 : NBT → GoVal := fun t => match t with | .double v => .f64 v | _ => .f64 0

/-- f64 ↔ tagDouble -/
theorem elem_f64 (cx : SnbtCarrier) : ElemExact cx .f64 okF64 valF64 (fun _ => 2) where
  zeroTy := rfl
  needPos := fun _ _ => by omega
  reads := by
    rintro d fuel _ ⟨v, rfl⟩
    dsimp only [valF64]
    cases fuel with
    | zero => unfold unmarshal; exact R_fail (by simp [cost]) _ _
    | succ f =>
      unfold unmarshal
      have h2 : (6 : BitVec 8).toNat = 6 := rfl
      simp only [NBT.tag, NBT.tagDouble, umF64, h2, encPayload]
      exact R_map _ (R_readInt64 (cost (.double v) ≤ f + 1) v)
  getTag := by
    rintro f _ ⟨v, rfl⟩ hf
    dsimp only [valF64]
    obtain ⟨f', rfl⟩ : ∃ f', f = f' + 1 := ⟨f - 1, by omega⟩
    simp [getTagType, tagOfType, GoVal.typeOf, NBT.tag, NBT.tagDouble]
  marshal := by
    rintro f _ ⟨v, rfl⟩ hf
    dsimp only [valF64]
    obtain ⟨f', rfl⟩ : ∃ f', f = f' + 2 := ⟨f - 2, by omega⟩
    have h2 : (6 : BitVec 8).toNat = 6 := rfl
    simp only [Go.marshal, GoVal.isCarrier, GoVal.typeOf, GoType.isCarrier, Bool.false_eq_true, if_false,
      NBT.tag, NBT.tagDouble, writeValue, h2, beN_eq, encPayload, be64]

def okStr : NBT → Prop := fun t => ∃ s, t = .string s ∧ s.length < 32768
def valStr : NBT → GoVal := fun t => match t with | .string s => .str s | _ => .str []

/-- str ↔ tagString -/
theorem elem_str (cx : SnbtCarrier) : ElemExact cx .str okStr valStr (fun _ => 2) where
  zeroTy := rfl
  needPos := fun _ _ => by omega
  reads := by
    rintro d fuel _ ⟨v, rfl, hs⟩
    dsimp only [valStr]
    cases fuel with
    | zero => unfold unmarshal; exact R_fail (by simp [cost]) _ _
    | succ f =>
      unfold unmarshal
      have h2 : (8 : BitVec 8).toNat = 8 := rfl
      simp only [NBT.tag, NBT.tagString, umStr, h2, encPayload]
      exact R_map _ (R_readString (cost (.string v) ≤ f + 1) v hs)
  getTag := by
    rintro f _ ⟨v, rfl, hs⟩ hf
    dsimp only [valStr]
    obtain ⟨f', rfl⟩ : ∃ f', f = f' + 1 := ⟨f - 1, by omega⟩
    simp [getTagType, tagOfType, GoVal.typeOf, NBT.tag, NBT.tagString]
  marshal := by
    rintro f _ ⟨v, rfl, hs⟩ hf
    dsimp only [valStr]
    obtain ⟨f', rfl⟩ : ∃ f', f = f' + 2 := ⟨f - 2, by omega⟩
    have h2 : (8 : BitVec 8).toNat = 8 := rfl
    have hl : ¬ v.length > 32767 := by omega
    simp only [Go.marshal, GoVal.isCarrier, GoVal.typeOf, GoType.isCarrier, Bool.false_eq_true, if_false,
      NBT.tag, NBT.tagString, writeValue, h2, beN_eq, encPayload, hl, encString]

/-! ### base classes: typed arrays -/

def okBytesI8 : NBT → Prop := fun t => ∃ xs, t = .byteArray xs ∧ xs.length < 2147483648 ∧ ∀ b ∈ xs, True
def valBytesI8 : NBT → GoVal := fun t => match t with
  | .byteArray xs => .slice (.int .i8) (true && xs.isEmpty) (xs.map fun b => GoVal.int .i8 b.toInt)
  | _ => .slice (.int .i8) false []

/-- `[]i8` ↔ TagByteArray -/
theorem elem_bytes_i8 (cx : SnbtCarrier) :
    ElemExact cx (.slice (.int .i8)) okBytesI8 valBytesI8 (fun _ => 3) where
  zeroTy := rfl
  needPos := fun _ _ => by omega
  reads := by
    rintro d fuel _ ⟨xs, rfl, hl, _⟩
    dsimp only [valBytesI8]
    cases fuel with
    | zero => unfold unmarshal; exact R_fail (by simp [cost]) _ _
    | succ f =>
      unfold unmarshal
      have h7 : (7 : BitVec 8).toNat = 7 := rfl
      have hbl : isByteLike (.int .i8) = true := rfl
      simp only [NBT.tag, NBT.tagByteArray, umSlice, h7, hbl, if_true, encPayload]
      apply R_bind (R_arrayLen _ _ hl)
      have hfm : ∀ ys : Bytes, List.filterMap (byteElem (.int .i8)) ys = ys.map fun b => GoVal.int .i8 b.toInt := by
        intro ys
        induction ys with
        | nil => rfl
        | cons x xs ih => simp [byteElem] at ih ⊢; exact ih
      refine R_enc (List.append_nil xs) (R_bind (R_readFull _ xs) ?_)
      simp only [hfm, keepNil, GoType.zero, Bool.and_comm]
      exact R_pure _ _
  getTag := by
    rintro f _ ⟨xs, rfl, hl, _⟩ hf
    dsimp only [valBytesI8]
    obtain ⟨f', rfl⟩ : ∃ f', f = f' + 2 := ⟨f - 2, by omega⟩
    rw [show (NBT.byteArray xs).tag = 7 from rfl]
    cases xs with
    | nil => simp [getTagType, tagOfType, arrTag]
    | cons x xs =>
      simp only [List.map_cons]
      rw [getTagType_slice_cons]
      simp [getTagType, tagOfType, GoVal.typeOf, GoVal.isCarrier, GoType.isCarrier, arrTag]
  marshal := by
    rintro f _ ⟨xs, rfl, hl, hok⟩ hf
    dsimp only [valBytesI8]
    obtain ⟨f', rfl⟩ : ∃ f', f = f' + 2 := ⟨f - 2, by omega⟩
    rw [show (NBT.byteArray xs).tag = 7 from rfl]
    have h7 : (7 : BitVec 8).toNat = 7 := rfl
    simp only [Go.marshal, GoVal.isCarrier, GoVal.typeOf, GoType.isCarrier, Bool.false_eq_true, if_false,
      writeValue, h7, encPayload, beN_eq, List.length_map, List.map_map, Function.comp_def]
    rw [map_id_of _ (fun b => True) _ xs hok]
    intro b hb
    simp only [wrapN1_toInt, BitVec.ofNat_toNat, BitVec.setWidth_eq]

def okBytesU8 : NBT → Prop := fun t => ∃ xs, t = .byteArray xs ∧ xs.length < 2147483648 ∧ ∀ b ∈ xs, True
def valBytesU8 : NBT → GoVal := fun t => match t with
  | .byteArray xs => .slice (.int .u8) (false && xs.isEmpty) (xs.map fun b => GoVal.int .u8 b.toNat)
  | _ => .slice (.int .u8) false []

/-- `[]u8` ↔ TagByteArray -/
theorem elem_bytes_u8 (cx : SnbtCarrier) :
    ElemExact cx (.slice (.int .u8)) okBytesU8 valBytesU8 (fun _ => 3) where
  zeroTy := rfl
  needPos := fun _ _ => by omega
  reads := by
    rintro d fuel _ ⟨xs, rfl, hl, _⟩
    dsimp only [valBytesU8]
    cases fuel with
    | zero => unfold unmarshal; exact R_fail (by simp [cost]) _ _
    | succ f =>
      unfold unmarshal
      have h7 : (7 : BitVec 8).toNat = 7 := rfl
      have hbl : isByteLike (.int .u8) = true := rfl
      simp only [NBT.tag, NBT.tagByteArray, umSlice, h7, hbl, if_true, encPayload]
      apply R_bind (R_arrayLen _ _ hl)
      have hfm : ∀ ys : Bytes, List.filterMap (byteElem (.int .u8)) ys = ys.map fun b => GoVal.int .u8 b.toNat := by
        intro ys
        induction ys with
        | nil => rfl
        | cons x xs ih => simp [byteElem] at ih ⊢; exact ih
      refine R_enc (List.append_nil xs) (R_bind (R_readFull _ xs) ?_)
      simp only [hfm, keepNil, GoType.zero, Bool.and_comm]
      exact R_pure _ _
  getTag := by
    rintro f _ ⟨xs, rfl, hl, _⟩ hf
    dsimp only [valBytesU8]
    obtain ⟨f', rfl⟩ : ∃ f', f = f' + 2 := ⟨f - 2, by omega⟩
    rw [show (NBT.byteArray xs).tag = 7 from rfl]
    cases xs with
    | nil => simp [getTagType, tagOfType, arrTag]
    | cons x xs =>
      simp only [List.map_cons]
      rw [getTagType_slice_cons]
      simp [getTagType, tagOfType, GoVal.typeOf, GoVal.isCarrier, GoType.isCarrier, arrTag]
  marshal := by
    rintro f _ ⟨xs, rfl, hl, hok⟩ hf
    dsimp only [valBytesU8]
    obtain ⟨f', rfl⟩ : ∃ f', f = f' + 2 := ⟨f - 2, by omega⟩
    rw [show (NBT.byteArray xs).tag = 7 from rfl]
    have h7 : (7 : BitVec 8).toNat = 7 := rfl
    simp only [Go.marshal, GoVal.isCarrier, GoVal.typeOf, GoType.isCarrier, Bool.false_eq_true, if_false,
      writeValue, h7, encPayload, beN_eq, List.length_map, List.map_map, Function.comp_def]
    rw [map_id_of _ (fun b => True) _ xs hok]
    intro b hb
    simp only [wrapN1_toNat, BitVec.ofNat_toNat, BitVec.setWidth_eq]

def okBytesBool : NBT → Prop := fun t => ∃ xs, t = .byteArray xs ∧ xs.length < 2147483648 ∧ ∀ b ∈ xs, (b = 0 ∨ b = 1)
def valBytesBool : NBT → GoVal := fun t => match t with
  | .byteArray xs => .slice (.bool) (true && xs.isEmpty) (xs.map fun b => GoVal.bool (b != 0))
  | _ => .slice (.bool) false []

/-- `[]bool` ↔ TagByteArray -/
theorem elem_bytes_bool (cx : SnbtCarrier) :
    ElemExact cx (.slice (.bool)) okBytesBool valBytesBool (fun _ => 3) where
  zeroTy := rfl
  needPos := fun _ _ => by omega
  reads := by
    rintro d fuel _ ⟨xs, rfl, hl, _⟩
    dsimp only [valBytesBool]
    cases fuel with
    | zero => unfold unmarshal; exact R_fail (by simp [cost]) _ _
    | succ f =>
      unfold unmarshal
      have h7 : (7 : BitVec 8).toNat = 7 := rfl
      have hbl : isByteLike (.bool) = true := rfl
      simp only [NBT.tag, NBT.tagByteArray, umSlice, h7, hbl, if_true, encPayload]
      apply R_bind (R_arrayLen _ _ hl)
      have hfm : ∀ ys : Bytes, List.filterMap (byteElem (.bool)) ys = ys.map fun b => GoVal.bool (b != 0) := by
        intro ys
        induction ys with
        | nil => rfl
        | cons x xs ih => simp [byteElem] at ih ⊢; exact ih
      refine R_enc (List.append_nil xs) (R_bind (R_readFull _ xs) ?_)
      simp only [hfm, keepNil, GoType.zero, Bool.and_comm]
      exact R_pure _ _
  getTag := by
    rintro f _ ⟨xs, rfl, hl, _⟩ hf
    dsimp only [valBytesBool]
    obtain ⟨f', rfl⟩ : ∃ f', f = f' + 2 := ⟨f - 2, by omega⟩
    rw [show (NBT.byteArray xs).tag = 7 from rfl]
    cases xs with
    | nil => simp [getTagType, tagOfType, arrTag]
    | cons x xs =>
      simp only [List.map_cons]
      rw [getTagType_slice_cons]
      simp [getTagType, tagOfType, GoVal.typeOf, GoVal.isCarrier, GoType.isCarrier, arrTag]
  marshal := by
    rintro f _ ⟨xs, rfl, hl, hok⟩ hf
    dsimp only [valBytesBool]
    obtain ⟨f', rfl⟩ : ∃ f', f = f' + 2 := ⟨f - 2, by omega⟩
    rw [show (NBT.byteArray xs).tag = 7 from rfl]
    have h7 : (7 : BitVec 8).toNat = 7 := rfl
    simp only [Go.marshal, GoVal.isCarrier, GoVal.typeOf, GoType.isCarrier, Bool.false_eq_true, if_false,
      writeValue, h7, encPayload, beN_eq, List.length_map, List.map_map, Function.comp_def]
    rw [map_id_of _ (fun b => (b = 0 ∨ b = 1)) _ xs hok]
    intro b hb
    rcases hb with rfl | rfl <;> rfl

def okNumsI32 : NBT → Prop := fun t => ∃ xs, t = .intArray xs ∧ xs.length < 2147483648
def valNumsI32 : NBT → GoVal := fun t => match t with
  | .intArray xs => .slice (.int .i32) false (xs.map fun b => GoVal.int .i32 b.toInt)
  | _ => .slice (.int .i32) false []

/-- `[]i32` ↔ tagIntArray -/
theorem elem_nums_i32 (cx : SnbtCarrier) :
    ElemExact cx (.slice (.int .i32)) okNumsI32 valNumsI32 (fun _ => 3) where
  zeroTy := rfl
  needPos := fun _ _ => by omega
  reads := by
    rintro d fuel _ ⟨xs, rfl, hl⟩
    dsimp only [valNumsI32]
    cases fuel with
    | zero => unfold unmarshal; exact R_fail (by simp [cost]) _ _
    | succ f =>
      unfold unmarshal
      have h7 : (11 : BitVec 8).toNat = 11 := rfl
      have hbl : isIntLike (.int .i32) = true := rfl
      simp only [NBT.tag, NBT.tagIntArray, umSlice, h7, hbl, if_true, encPayload]
      apply R_bind (R_arrayLen _ _ hl)
      have hfm : ∀ ys : List (BitVec 32), List.filterMap (intElem (.int .i32)) ys = ys.map fun b => GoVal.int .i32 b.toInt := by
        intro ys
        induction ys with
        | nil => rfl
        | cons x xs ih => simp [intElem] at ih ⊢; exact ih
      refine R_enc (List.append_nil _) (R_bind (R_readInts _ xs) ?_)
      simp only [hfm]
      exact R_pure _ _
  getTag := by
    rintro f _ ⟨xs, rfl, hl⟩ hf
    dsimp only [valNumsI32]
    obtain ⟨f', rfl⟩ : ∃ f', f = f' + 2 := ⟨f - 2, by omega⟩
    rw [show (NBT.intArray xs).tag = 11 from rfl]
    cases xs with
    | nil => simp [getTagType, tagOfType, arrTag]
    | cons x xs =>
      simp only [List.map_cons]
      rw [getTagType_slice_cons]
      simp [getTagType, tagOfType, GoVal.typeOf, GoVal.isCarrier, GoType.isCarrier, arrTag]
  marshal := by
    rintro f _ ⟨xs, rfl, hl⟩ hf
    dsimp only [valNumsI32]
    obtain ⟨f', rfl⟩ : ∃ f', f = f' + 2 := ⟨f - 2, by omega⟩
    rw [show (NBT.intArray xs).tag = 11 from rfl]
    have h7 : (11 : BitVec 8).toNat = 11 := rfl
    simp only [Go.marshal, GoVal.isCarrier, GoVal.typeOf, GoType.isCarrier, Bool.false_eq_true, if_false,
      writeValue, h7, encPayload]
    rw [resMapM_map_ok (numOfElem 4) _ be32 xs (by
      intro b _
      simp only [numOfElem, unwrapIface, wrapN4_toInt, beN_eq, be32])]
    simp only [resFlatten, beN_eq, List.length_map]

def okNumsU32 : NBT → Prop := fun t => ∃ xs, t = .intArray xs ∧ xs.length < 2147483648
def valNumsU32 : NBT → GoVal := fun t => match t with
  | .intArray xs => .slice (.int .u32) false (xs.map fun b => GoVal.int .u32 b.toNat)
  | _ => .slice (.int .u32) false []

/-- `[]u32` ↔ tagIntArray -/
theorem elem_nums_u32 (cx : SnbtCarrier) :
    ElemExact cx (.slice (.int .u32)) okNumsU32 valNumsU32 (fun _ => 3) where
  zeroTy := rfl
  needPos := fun _ _ => by omega
  reads := by
    rintro d fuel _ ⟨xs, rfl, hl⟩
    dsimp only [valNumsU32]
    cases fuel with
    | zero => unfold unmarshal; exact R_fail (by simp [cost]) _ _
    | succ f =>
      unfold unmarshal
      have h7 : (11 : BitVec 8).toNat = 11 := rfl
      have hbl : isIntLike (.int .u32) = true := rfl
      simp only [NBT.tag, NBT.tagIntArray, umSlice, h7, hbl, if_true, encPayload]
      apply R_bind (R_arrayLen _ _ hl)
      have hfm : ∀ ys : List (BitVec 32), List.filterMap (intElem (.int .u32)) ys = ys.map fun b => GoVal.int .u32 b.toNat := by
        intro ys
        induction ys with
        | nil => rfl
        | cons x xs ih => simp [intElem] at ih ⊢; exact ih
      refine R_enc (List.append_nil _) (R_bind (R_readInts _ xs) ?_)
      simp only [hfm]
      exact R_pure _ _
  getTag := by
    rintro f _ ⟨xs, rfl, hl⟩ hf
    dsimp only [valNumsU32]
    obtain ⟨f', rfl⟩ : ∃ f', f = f' + 2 := ⟨f - 2, by omega⟩
    rw [show (NBT.intArray xs).tag = 11 from rfl]
    cases xs with
    | nil => simp [getTagType, tagOfType, arrTag]
    | cons x xs =>
      simp only [List.map_cons]
      rw [getTagType_slice_cons]
      simp [getTagType, tagOfType, GoVal.typeOf, GoVal.isCarrier, GoType.isCarrier, arrTag]
  marshal := by
    rintro f _ ⟨xs, rfl, hl⟩ hf
    dsimp only [valNumsU32]
    obtain ⟨f', rfl⟩ : ∃ f', f = f' + 2 := ⟨f - 2, by omega⟩
    rw [show (NBT.intArray xs).tag = 11 from rfl]
    have h7 : (11 : BitVec 8).toNat = 11 := rfl
    simp only [Go.marshal, GoVal.isCarrier, GoVal.typeOf, GoType.isCarrier, Bool.false_eq_true, if_false,
      writeValue, h7, encPayload]
    rw [resMapM_map_ok (numOfElem 4) _ be32 xs (by
      intro b _
      simp only [numOfElem, unwrapIface, wrapN4_toNat, beN_eq, be32])]
    simp only [resFlatten, beN_eq, List.length_map]

def okNumsI64 : NBT → Prop := fun t => ∃ xs, t = .longArray xs ∧ xs.length < 2147483648
def valNumsI64 : NBT → GoVal := fun t => match t with
  | .longArray xs => .slice (.int .i64) false (xs.map fun b => GoVal.int .i64 b.toInt)
  | _ => .slice (.int .i64) false []

/-- `[]i64` ↔ tagLongArray -/
theorem elem_nums_i64 (cx : SnbtCarrier) :
    ElemExact cx (.slice (.int .i64)) okNumsI64 valNumsI64 (fun _ => 3) where
  zeroTy := rfl
  needPos := fun _ _ => by omega
  reads := by
    rintro d fuel _ ⟨xs, rfl, hl⟩
    dsimp only [valNumsI64]
    cases fuel with
    | zero => unfold unmarshal; exact R_fail (by simp [cost]) _ _
    | succ f =>
      unfold unmarshal
      have h7 : (12 : BitVec 8).toNat = 12 := rfl
      have hbl : isLongLike (.int .i64) = true := rfl
      simp only [NBT.tag, NBT.tagLongArray, umSlice, h7, hbl, if_true, encPayload]
      apply R_bind (R_arrayLen _ _ hl)
      have hfm : ∀ ys : List (BitVec 64), List.filterMap (longElem (.int .i64)) ys = ys.map fun b => GoVal.int .i64 b.toInt := by
        intro ys
        induction ys with
        | nil => rfl
        | cons x xs ih => simp [longElem] at ih ⊢; exact ih
      refine R_enc (List.append_nil _) (R_bind (R_readLongs _ xs) ?_)
      simp only [hfm]
      exact R_pure _ _
  getTag := by
    rintro f _ ⟨xs, rfl, hl⟩ hf
    dsimp only [valNumsI64]
    obtain ⟨f', rfl⟩ : ∃ f', f = f' + 2 := ⟨f - 2, by omega⟩
    rw [show (NBT.longArray xs).tag = 12 from rfl]
    cases xs with
    | nil => simp [getTagType, tagOfType, arrTag]
    | cons x xs =>
      simp only [List.map_cons]
      rw [getTagType_slice_cons]
      simp [getTagType, tagOfType, GoVal.typeOf, GoVal.isCarrier, GoType.isCarrier, arrTag]
  marshal := by
    rintro f _ ⟨xs, rfl, hl⟩ hf
    dsimp only [valNumsI64]
    obtain ⟨f', rfl⟩ : ∃ f', f = f' + 2 := ⟨f - 2, by omega⟩
    rw [show (NBT.longArray xs).tag = 12 from rfl]
    have h7 : (12 : BitVec 8).toNat = 12 := rfl
    simp only [Go.marshal, GoVal.isCarrier, GoVal.typeOf, GoType.isCarrier, Bool.false_eq_true, if_false,
      writeValue, h7, encPayload]
    rw [resMapM_map_ok (numOfElem 8) _ be64 xs (by
      intro b _
      simp only [numOfElem, unwrapIface, wrapN8_toInt, beN_eq, be64])]
    simp only [resFlatten, beN_eq, List.length_map]

def okNumsU64 : NBT → Prop := fun t => ∃ xs, t = .longArray xs ∧ xs.length < 2147483648
def valNumsU64 : NBT → GoVal := fun t => match t with
  | .longArray xs => .slice (.int .u64) false (xs.map fun b => GoVal.int .u64 b.toNat)
  | _ => .slice (.int .u64) false []

/-- `[]u64` ↔ tagLongArray -/
theorem elem_nums_u64 (cx : SnbtCarrier) :
    ElemExact cx (.slice (.int .u64)) okNumsU64 valNumsU64 (fun _ => 3) where
  zeroTy := rfl
  needPos := fun _ _ => by omega
  reads := by
    rintro d fuel _ ⟨xs, rfl, hl⟩
    dsimp only [valNumsU64]
    cases fuel with
    | zero => unfold unmarshal; exact R_fail (by simp [cost]) _ _
    | succ f =>
      unfold unmarshal
      have h7 : (12 : BitVec 8).toNat = 12 := rfl
      have hbl : isLongLike (.int .u64) = true := rfl
      simp only [NBT.tag, NBT.tagLongArray, umSlice, h7, hbl, if_true, encPayload]
      apply R_bind (R_arrayLen _ _ hl)
      have hfm : ∀ ys : List (BitVec 64), List.filterMap (longElem (.int .u64)) ys = ys.map fun b => GoVal.int .u64 b.toNat := by
        intro ys
        induction ys with
        | nil => rfl
        | cons x xs ih => simp [longElem] at ih ⊢; exact ih
      refine R_enc (List.append_nil _) (R_bind (R_readLongs _ xs) ?_)
      simp only [hfm]
      exact R_pure _ _
  getTag := by
    rintro f _ ⟨xs, rfl, hl⟩ hf
    dsimp only [valNumsU64]
    obtain ⟨f', rfl⟩ : ∃ f', f = f' + 2 := ⟨f - 2, by omega⟩
    rw [show (NBT.longArray xs).tag = 12 from rfl]
    cases xs with
    | nil => simp [getTagType, tagOfType, arrTag]
    | cons x xs =>
      simp only [List.map_cons]
      rw [getTagType_slice_cons]
      simp [getTagType, tagOfType, GoVal.typeOf, GoVal.isCarrier, GoType.isCarrier, arrTag]
  marshal := by
    rintro f _ ⟨xs, rfl, hl⟩ hf
    dsimp only [valNumsU64]
    obtain ⟨f', rfl⟩ : ∃ f', f = f' + 2 := ⟨f - 2, by omega⟩
    rw [show (NBT.longArray xs).tag = 12 from rfl]
    have h7 : (12 : BitVec 8).toNat = 12 := rfl
    simp only [Go.marshal, GoVal.isCarrier, GoVal.typeOf, GoType.isCarrier, Bool.false_eq_true, if_false,
      writeValue, h7, encPayload]
    rw [resMapM_map_ok (numOfElem 8) _ be64 xs (by
      intro b _
      simp only [numOfElem, unwrapIface, wrapN8_toNat, beN_eq, be64])]
    simp only [resFlatten, beN_eq, List.length_map]

/-! ### carriers as element classes -/

theorem CarrierExact.toElem {cx : SnbtCarrier} {c : GoType} {ok : NBT → Prop} {val : NBT → GoVal}
    (h : CarrierExact cx c ok val) : ElemExact cx c ok val (fun _ => 1) where
  zeroTy := h.zeroTy
  needPos := fun _ _ => Nat.le_refl 1
  reads := fun d fuel t ht => h.reads d fuel c.zero t ht
  getTag := by
    intro f t ht hf
    obtain ⟨f', rfl⟩ : ∃ f', f = f' + 1 := ⟨f - 1, by omega⟩
    exact h.getTag f' t ht
  marshal := by
    intro f t ht hf
    obtain ⟨f', rfl⟩ : ∃ f', f = f' + 1 := ⟨f - 1, by omega⟩
    exact h.marshal f' t ht

def okRaw : NBT → Prop := fun t => t.WF ∧ S15 t
def valRaw : NBT → GoVal := fun t => .raw t.tag (encPayload t)
def okDyn : NBT → Prop := fun t => t.WF ∧ GoMC.Lemmas.DynBT.Small t
def valDyn : NBT → GoVal := fun t => .dyn (GoMC.Lemmas.DynBT.toVal t)

/-! ### structs with a flat field table -/

/-- a field of a flat struct: its name in the field table, its type, and the element class of that type -/
structure FSpec where
  name : Bytes
  ty : GoType
  ok : NBT → Prop
  val : NBT → GoVal
  need : NBT → Nat

/-- the entries of the compound, in the order of the fields: one per field, under the field's name -/
def okFields : List FSpec → List (Bytes × NBT) → Prop
  | [], [] => True
  | sp :: sps, (k, t) :: kvs => k = sp.name ∧ sp.ok t ∧ okFields sps kvs
  | _, _ => False

def valFields : List FSpec → List (Bytes × NBT) → List GoVal
  | sp :: sps, (_, t) :: kvs => sp.val t :: valFields sps kvs
  | _, _ => []

def needFields : List FSpec → List (Bytes × NBT) → Nat
  | sp :: sps, (_, t) :: kvs => max (sp.need t) (needFields sps kvs)
  | _, _ => 0

def okStruct (sps : List FSpec) : NBT → Prop
  | .compound kvs => okFields sps kvs
  | _ => False

def valStruct (n : Bytes) (fields : List (FieldInfo × GoType)) (sps : List FSpec) : NBT → GoVal
  | .compound kvs => .struct n fields (valFields sps kvs)
  | _ => .struct n fields []

def needStruct (sps : List FSpec) : NBT → Nat
  | .compound kvs => needFields sps kvs + 2
  | _ => 2

/-- The field table (`flds`, from position `k` on) of a struct type with the declared fields `fields` is flat:
entry `k` is declared field `k` itself (index path `[k]`, no `omitempty`, no `,list`), found by its name. -/
inductive Shape (look : Bytes → Option Nat) : Nat → List Fld → List (FieldInfo × GoType) → List FSpec → Prop
  | nil (k : Nat) : Shape look k [] [] []
  | cons {k : Nat} {fld : Fld} {flds : List Fld} {info : FieldInfo} {c : GoType} {fields : List (FieldInfo × GoType)}
      {sp : FSpec} {sps : List FSpec} :
      sp.ty = c → look sp.name = some k → fld.name = sp.name → fld.index = [k] → fld.omitEmpty = false → fld.asList = false →
      sp.name.length < 32768 → Shape look (k + 1) flds fields sps →
      Shape look k (fld :: flds) ((info, c) :: fields) (sp :: sps)

/-- discharges `Shape` for a concrete struct type once `typeFields` of it has been evaluated -/
macro "flat_shape" : tactic =>
  `(tactic| repeat' (first | exact Shape.nil _ | rfl | decide | refine Shape.cons ?_ ?_ ?_ ?_ ?_ ?_ ?_ ?_))

theorem getElem?_append_length {α : Type} (pre : List α) (x : α) (post : List α) :
    (pre ++ x :: post)[pre.length]? = some x := by simp

theorem set_append_length {α : Type} (pre : List α) (x r : α) (post : List α) :
    (pre ++ x :: post).set pre.length r = pre ++ r :: post := by simp

/-- one known key decoded into its (still zero) field -/
theorem R_structStep (cx : SnbtCarrier) (d : Bool) (f : Nat) (flds fldsDone fldsRem : List Fld) (fld : Fld)
    (n : Bytes) (fdone frem : List (FieldInfo × GoType)) (info : FieldInfo) (sp : FSpec)
    (pre zs : List GoVal) (t : NBT)
    (hx : ElemExact cx sp.ty sp.ok sp.val sp.need) (hok : sp.ok t)
    (hflds : flds = fldsDone ++ fld :: fldsRem) (hk1 : fldsDone.length = pre.length) (hk2 : fdone.length = pre.length)
    (hlook : lookupField flds sp.name = some pre.length) (hidx : fld.index = [pre.length]) :
    R (cost t ≤ f) (structStep (unmarshal cx d f) d f flds t.tag sp.name
        (.struct n (fdone ++ (info, sp.ty) :: frem) (pre ++ sp.ty.zero :: zs)))
      (encPayload t) (.struct n (fdone ++ (info, sp.ty) :: frem) (pre ++ sp.val t :: zs)) := by
  have hf : flds[pre.length]? = some fld := by rw [hflds, ← hk1]; exact getElem?_append_length _ _ _
  have h1 : (pre ++ sp.ty.zero :: zs)[pre.length]? = some sp.ty.zero := getElem?_append_length _ _ _
  have h2 : (fdone ++ (info, sp.ty) :: frem)[pre.length]? = some (info, sp.ty) := by
    rw [← hk2]; exact getElem?_append_length _ _ _
  simp only [structStep, hlook, hf, hidx, updAt, updField, h1, h2]
  rw [hx.zeroTy]
  simp only [set_append_length]
  exact R_map (fun r => GoVal.struct n (fdone ++ (info, sp.ty) :: frem) (pre ++ r :: zs)) (hx.reads d f t hok)

/-- the loop of the struct branch over the remaining entries, the fields before them already decoded -/
theorem R_structLoop (cx : SnbtCarrier) (d : Bool) (f : Nat) (flds : List Fld) (n : Bytes) :
    ∀ (sps : List FSpec) (fldsRem : List Fld) (frem : List (FieldInfo × GoType)) (fldsDone : List Fld)
      (fdone : List (FieldInfo × GoType)) (pre : List GoVal) (kvs : List (Bytes × NBT)) (w : Nat),
    Shape (lookupField flds) pre.length fldsRem frem sps →
    (∀ sp ∈ sps, ElemExact cx sp.ty sp.ok sp.val sp.need) →
    flds = fldsDone ++ fldsRem → fldsDone.length = pre.length → fdone.length = pre.length →
    okFields sps kvs →
    R (kvs.length + 1 ≤ w ∧ ∀ kv ∈ kvs, cost kv.2 ≤ f)
      (kvLoop (structStep (unmarshal cx d f) d f flds) w (.struct n (fdone ++ frem) (pre ++ GoType.zeroFields frem)))
      (encKvs kvs) (.struct n (fdone ++ frem) (pre ++ valFields sps kvs))
  | sps, fldsRem, frem, fldsDone, fdone, pre, kvs, 0, _, _, _, _, _, _ => by
    unfold kvLoop
    exact R_fail (by omega) _ _
  | [], _, _, fldsDone, fdone, pre, kvs, w + 1, hsh, _, _, _, _, hok => by
    cases hsh
    cases kvs with
    | nil => exact R_kvLoop_end _ _ w _
    | cons kv kvs => exact hok.elim
  | sp :: sps, _, _, fldsDone, fdone, pre, kvs, w + 1, hsh, hel, hflds, hk1, hk2, hok => by
    cases hsh with
    | @cons _ fld fldsRem info c frem _ _ hty hlook hname hidx _ _ hlen hrest =>
    subst hty
    cases kvs with
    | nil => exact hok.elim
    | cons kv kvs =>
      obtain ⟨k, t⟩ := kv
      obtain ⟨rfl, hokt, hoks⟩ := hok
      obtain ⟨t0, t1, t2⟩ := tag_not_magic t
      simp only [encKvs, valFields, GoType.zeroFields]
      apply R_kvLoop_entry _ _ w _ (.struct n (fdone ++ (info, sp.ty) :: frem) (pre ++ sp.val t :: GoType.zeroFields frem))
        _ t.tag sp.name (encPayload t) (encKvs kvs) hlen t0 t1 t2
      · exact R_mono (fun hc => hc.2 (sp.name, t) List.mem_cons_self)
          (R_structStep cx d f flds fldsDone fldsRem fld n fdone frem info sp pre _ t
            (hel sp List.mem_cons_self) hokt hflds hk1 hk2 hlook hidx)
      · have := R_structLoop cx d f flds n sps fldsRem frem (fldsDone ++ [fld]) (fdone ++ [(info, sp.ty)])
          (pre ++ [sp.val t]) kvs w (by simpa using hrest) (fun sp' h' => hel sp' (List.mem_cons_of_mem _ h'))
          (by simp [hflds]) (by simp [hk1]) (by simp [hk2]) hoks
        simp only [List.append_assoc, List.singleton_append] at this
        exact R_mono (fun hc => ⟨by have := hc.1; simp only [List.length_cons] at this; omega,
          fun kv hkv => hc.2 kv (List.mem_cons_of_mem _ hkv)⟩) this

/-- the struct loop of `writeValue`, from field `vdone.length` on -/
theorem fieldsEnc_ok (cx : SnbtCarrier) (f : Nat) (look : Bytes → Option Nat) (n : Bytes)
    (fields : List (FieldInfo × GoType)) (allvals : List GoVal) :
    ∀ (sps : List FSpec) (fldsRem : List Fld) (frem : List (FieldInfo × GoType)) (vdone : List GoVal)
      (kvs : List (Bytes × NBT)),
    Shape look vdone.length fldsRem frem sps →
    (∀ sp ∈ sps, ElemExact cx sp.ty sp.ok sp.val sp.need) →
    okFields sps kvs → needFields sps kvs ≤ f → allvals = vdone ++ valFields sps kvs →
    resMapM (fieldEnc (getTagType cx f) (Go.marshal cx f) (.struct n fields allvals)) fldsRem =
      Res.ok (kvs.map fun kv => kv.2.tag :: encString kv.1 ++ encPayload kv.2)
  | [], _, _, vdone, kvs, hsh, _, hok, _, _ => by
    cases hsh
    cases kvs with
    | nil => rfl
    | cons kv kvs => exact hok.elim
  | sp :: sps, _, _, vdone, kvs, hsh, hel, hok, hneed, hall => by
    cases hsh with
    | @cons _ fld fldsRem info c frem _ _ hty hlook hname hidx hoe hal hlen hrest =>
    subst hty
    cases kvs with
    | nil => exact hok.elim
    | cons kv kvs =>
      obtain ⟨k, t⟩ := kv
      obtain ⟨rfl, hokt, hoks⟩ := hok
      simp only [needFields] at hneed
      simp only [valFields] at hall
      have hx := hel sp List.mem_cons_self
      have hw : walkEnc fld.index (.struct n fields allvals) = some (sp.val t) := by
        rw [hidx, hall]
        simp only [walkEnc, getElem?_append_length, Option.bind_some]
      have ht0 : ¬ t.tag = 0 := (tag_not_magic t).1
      have hl : ¬ sp.name.length > 32767 := by omega
      have h1 : fieldEnc (getTagType cx f) (Go.marshal cx f) (.struct n fields allvals) fld =
          Res.ok (t.tag :: encString sp.name ++ encPayload t) := by
        simp only [fieldEnc, hw, hoe, hal, Bool.false_and, Bool.false_eq_true, if_false,
          hx.getTag f t hokt (by omega), hx.marshal f t hokt (by omega), writeTag, hname, ht0, hl]
        simp only [encString, beN_eq, List.cons_append, List.append_assoc]
      have h2 := fieldsEnc_ok cx f look n fields allvals sps fldsRem frem (vdone ++ [sp.val t]) kvs
        (by simpa using hrest) (fun sp' h' => hel sp' (List.mem_cons_of_mem _ h')) hoks (by omega)
        (by simp [hall])
      unfold resMapM
      rw [h1, h2]
      rfl

/-- a struct type with a flat field table whose field types are element classes is an element class -/
theorem elem_struct (cx : SnbtCarrier) (n : Bytes) (fields : List (FieldInfo × GoType)) (sps : List FSpec)
    (hsh : Shape (lookupField (typeFields (.struct n fields))) 0 (typeFields (.struct n fields)) fields sps)
    (hel : ∀ sp ∈ sps, ElemExact cx sp.ty sp.ok sp.val sp.need) :
    ElemExact cx (.struct n fields) (okStruct sps) (valStruct n fields sps) (needStruct sps) where
  zeroTy := rfl
  needPos := by intro t _; cases t <;> simp [needStruct]
  reads := by
    intro d fuel t hok
    cases t with
    | compound kvs =>
      cases fuel with
      | zero => unfold unmarshal; exact R_fail (by simp [cost]) _ _
      | succ f =>
        rw [show (NBT.compound kvs).tag = 10 from rfl]
        unfold unmarshal
        have h10 : (10 : BitVec 8).toNat = 10 := rfl
        simp only [umStruct, h10, encPayload, valStruct]
        have hz : structOr (.struct n fields) (GoType.struct n fields).zero = .struct n fields (GoType.zeroFields fields) := by
          simp [structOr, GoType.zero]
        rw [hz]
        have := R_structLoop cx d f (typeFields (.struct n fields)) n sps (typeFields (.struct n fields)) fields [] [] []
          kvs f hsh hel rfl rfl rfl hok
        simp only [List.nil_append] at this
        exact R_mono (fun hc => by
          simp only [cost] at hc
          exact ⟨by have := length_le_costKvs kvs; omega, fun kv hkv => by have := cost_le_costKvs hkv; omega⟩) this
    | _ => exact hok.elim
  getTag := by
    intro f t hok hf
    cases t with
    | compound kvs =>
      simp only [needStruct] at hf
      obtain ⟨f', rfl⟩ : ∃ f', f = f' + 1 := ⟨f - 1, by omega⟩
      rw [show (NBT.compound kvs).tag = 10 from rfl]
      simp only [valStruct, getTagType, tagOfType, GoVal.typeOf]
    | _ => exact hok.elim
  marshal := by
    intro f t hok hf
    cases t with
    | compound kvs =>
      simp only [needStruct] at hf
      obtain ⟨f', rfl⟩ : ∃ f', f = f' + 2 := ⟨f - 2, by omega⟩
      rw [show (NBT.compound kvs).tag = 10 from rfl]
      simp only [valStruct]
      have hsl : GoVal.isCarrier (.struct n fields (valFields sps kvs)) = false := rfl
      unfold Go.marshal
      rw [hsl]
      simp only [Bool.false_eq_true, if_false]
      have h10 : (10 : BitVec 8).toNat = 10 := rfl
      simp only [writeValue, h10]
      rw [fieldsEnc_ok cx f' _ n fields (valFields sps kvs) sps _ fields [] kvs hsh hel hok (by omega) (by simp)]
      simp only [resFlatten, encPayload, encKvs_eq_flatten]
      rfl
    | _ => exact hok.elim

/-! ### the plain fragment of the type universe -/

/-- `Plain τ ok val need`: `τ` is a type of the plain fragment — scalars of a fixed size, strings, typed arrays,
`nbt.RawMessage`, `dynbt.Value`, and slices, string-keyed maps and flat structs of these, nested to any depth —, `ok` the
trees a fresh variable of type `τ` stands for, `val t` the Go value for the tree `t`. -/
inductive Plain : GoType → (NBT → Prop) → (NBT → GoVal) → (NBT → Nat) → Prop
  | i8 : Plain (.int .i8) okI8 valI8 (fun _ => 2)
  | u8 : Plain (.int .u8) okU8 valU8 (fun _ => 2)
  | i16 : Plain (.int .i16) okI16 valI16 (fun _ => 2)
  | u16 : Plain (.int .u16) okU16 valU16 (fun _ => 2)
  | i32 : Plain (.int .i32) okI32 valI32 (fun _ => 2)
  | u32 : Plain (.int .u32) okU32 valU32 (fun _ => 2)
  | i64 : Plain (.int .i64) okI64 valI64 (fun _ => 2)
  | u64 : Plain (.int .u64) okU64 valU64 (fun _ => 2)
  | bool : Plain (.bool) okBool valBool (fun _ => 2)
  | f32 : Plain (.f32) okF32 valF32 (fun _ => 2)
  | f64 : Plain (.f64) okF64 valF64 (fun _ => 2)
  | str : Plain (.str) okStr valStr (fun _ => 2)
  | bytes_i8 : Plain (.slice (.int .i8)) okBytesI8 valBytesI8 (fun _ => 3)
  | bytes_u8 : Plain (.slice (.int .u8)) okBytesU8 valBytesU8 (fun _ => 3)
  | bytes_bool : Plain (.slice (.bool)) okBytesBool valBytesBool (fun _ => 3)
  | nums_i32 : Plain (.slice (.int .i32)) okNumsI32 valNumsI32 (fun _ => 3)
  | nums_u32 : Plain (.slice (.int .u32)) okNumsU32 valNumsU32 (fun _ => 3)
  | nums_i64 : Plain (.slice (.int .i64)) okNumsI64 valNumsI64 (fun _ => 3)
  | nums_u64 : Plain (.slice (.int .u64)) okNumsU64 valNumsU64 (fun _ => 3)
  | raw : Plain .raw okRaw valRaw (fun _ => 1)
  | dyn : Plain .dyn okDyn valDyn (fun _ => 1)
  /-- `[]c` written as a TagList: every `c` but the elements of the typed arrays -/
  | slice {c ok val need} : Plain c ok val need → arrTag (tagOfType c) = 9 →
      Plain (.slice c) (okSlice c ok) (valSlice c val) (needSlice need)
  | map {c ok val need} : Plain c ok val need → Plain (.map c) (okMap ok) (valMap c val) (needMap need)
  /-- a struct type whose field table is flat (`Shape`: every declared field is one entry, in order, without
  `omitempty` / `,list`; names — from tags or not — found by `lookupField`), with fields of the fragment -/
  | struct (n : Bytes) (fields : List (FieldInfo × GoType)) (sps : List FSpec) :
      Shape (lookupField (typeFields (.struct n fields))) 0 (typeFields (.struct n fields)) fields sps →
      (∀ sp ∈ sps, Plain sp.ty sp.ok sp.val sp.need) →
      Plain (.struct n fields) (okStruct sps) (valStruct n fields sps) (needStruct sps)

theorem encFuelList_map_le {need : NBT → Nat} {val : NBT → GoVal} :
    ∀ ts : List NBT, (∀ t ∈ ts, need t ≤ (val t).encFuel) → needMax need ts ≤ GoVal.encFuelList (ts.map val)
  | [], _ => Nat.le_refl 0
  | t :: ts, h => by
    have h1 := h t List.mem_cons_self
    have h2 := encFuelList_map_le ts (fun t' ht' => h t' (List.mem_cons_of_mem _ ht'))
    simp only [needMax, List.map_cons, GoVal.encFuelList]
    omega

theorem encFuelKvs_map_le {need : NBT → Nat} {val : NBT → GoVal} :
    ∀ kvs : List (Bytes × NBT), (∀ kv ∈ kvs, need kv.2 ≤ (val kv.2).encFuel) →
      needMax need (kvs.map (·.2)) ≤ GoVal.encFuelKvs (kvs.map fun kv => (kv.1, val kv.2))
  | [], _ => Nat.le_refl 0
  | (k, t) :: kvs, h => by
    have h1 := h (k, t) List.mem_cons_self
    have h2 := encFuelKvs_map_le kvs (fun t' ht' => h t' (List.mem_cons_of_mem _ ht'))
    simp only [needMax, List.map_cons, GoVal.encFuelKvs]
    simp only at h1
    omega

theorem needFields_le_encFuel : ∀ (sps : List FSpec) (kvs : List (Bytes × NBT)),
    (∀ sp ∈ sps, ∀ t, sp.ok t → sp.need t ≤ (sp.val t).encFuel) → okFields sps kvs →
    needFields sps kvs ≤ GoVal.encFuelList (valFields sps kvs)
  | [], [], _, _ => Nat.le_refl 0
  | [], _ :: _, _, h => h.elim
  | _ :: _, [], _, h => h.elim
  | sp :: sps, (k, t) :: kvs, hf, hok => by
    have h1 := hf sp List.mem_cons_self t hok.2.1
    have h2 := needFields_le_encFuel sps kvs (fun sp' h' => hf sp' (List.mem_cons_of_mem _ h')) hok.2.2
    simp only [needFields, valFields, GoVal.encFuelList]
    omega

/-- every type of the plain fragment is an exact element class; its trees have the tag the type announces (or the
value is a carrier), and the fuel `Encode` provides suffices -/
theorem plain_exact (cx : SnbtCarrier) {c : GoType} {ok : NBT → Prop} {val : NBT → GoVal} {need : NBT → Nat}
    (h : Plain c ok val need) :
    ElemExact cx c ok val need ∧
    (∀ t, ok t → (val t).isCarrier = true ∨ arrTag t.tag = arrTag (tagOfType c)) ∧
    (∀ t, ok t → need t ≤ (val t).encFuel) := by
  induction h with
  | i8 => exact ⟨elem_i8 cx, by rintro _ ⟨v, rfl⟩ <;> exact Or.inr rfl, by rintro _ ⟨v, rfl⟩ <;> simp [valI8, GoVal.encFuel]⟩
  | u8 => exact ⟨elem_u8 cx, by rintro _ ⟨v, rfl⟩ <;> exact Or.inr rfl, by rintro _ ⟨v, rfl⟩ <;> simp [valU8, GoVal.encFuel]⟩
  | i16 => exact ⟨elem_i16 cx, by rintro _ ⟨v, rfl⟩ <;> exact Or.inr rfl, by rintro _ ⟨v, rfl⟩ <;> simp [valI16, GoVal.encFuel]⟩
  | u16 => exact ⟨elem_u16 cx, by rintro _ ⟨v, rfl⟩ <;> exact Or.inr rfl, by rintro _ ⟨v, rfl⟩ <;> simp [valU16, GoVal.encFuel]⟩
  | i32 => exact ⟨elem_i32 cx, by rintro _ ⟨v, rfl⟩ <;> exact Or.inr rfl, by rintro _ ⟨v, rfl⟩ <;> simp [valI32, GoVal.encFuel]⟩
  | u32 => exact ⟨elem_u32 cx, by rintro _ ⟨v, rfl⟩ <;> exact Or.inr rfl, by rintro _ ⟨v, rfl⟩ <;> simp [valU32, GoVal.encFuel]⟩
  | i64 => exact ⟨elem_i64 cx, by rintro _ ⟨v, rfl⟩ <;> exact Or.inr rfl, by rintro _ ⟨v, rfl⟩ <;> simp [valI64, GoVal.encFuel]⟩
  | u64 => exact ⟨elem_u64 cx, by rintro _ ⟨v, rfl⟩ <;> exact Or.inr rfl, by rintro _ ⟨v, rfl⟩ <;> simp [valU64, GoVal.encFuel]⟩
  | bool => exact ⟨elem_bool cx, by rintro _ (rfl | rfl) <;> exact Or.inr rfl, by rintro _ (rfl | rfl) <;> simp [valBool, GoVal.encFuel]⟩
  | f32 => exact ⟨elem_f32 cx, by rintro _ ⟨v, rfl⟩ <;> exact Or.inr rfl, by rintro _ ⟨v, rfl⟩ <;> simp [valF32, GoVal.encFuel]⟩
  | f64 => exact ⟨elem_f64 cx, by rintro _ ⟨v, rfl⟩ <;> exact Or.inr rfl, by rintro _ ⟨v, rfl⟩ <;> simp [valF64, GoVal.encFuel]⟩
  | str => exact ⟨elem_str cx, by rintro _ ⟨v, rfl, hs⟩ <;> exact Or.inr rfl, by rintro _ ⟨v, rfl, hs⟩ <;> simp [valStr, GoVal.encFuel]⟩
  | bytes_i8 => exact ⟨elem_bytes_i8 cx, by rintro _ ⟨xs, rfl, hl, hb⟩ <;> exact Or.inr rfl, by rintro _ ⟨xs, rfl, hl, hb⟩ <;> simp [valBytesI8, GoVal.encFuel]⟩
  | bytes_u8 => exact ⟨elem_bytes_u8 cx, by rintro _ ⟨xs, rfl, hl, hb⟩ <;> exact Or.inr rfl, by rintro _ ⟨xs, rfl, hl, hb⟩ <;> simp [valBytesU8, GoVal.encFuel]⟩
  | bytes_bool => exact ⟨elem_bytes_bool cx, by rintro _ ⟨xs, rfl, hl, hb⟩ <;> exact Or.inr rfl, by rintro _ ⟨xs, rfl, hl, hb⟩ <;> simp [valBytesBool, GoVal.encFuel]⟩
  | nums_i32 => exact ⟨elem_nums_i32 cx, by rintro _ ⟨xs, rfl, hl⟩ <;> exact Or.inr rfl, by rintro _ ⟨xs, rfl, hl⟩ <;> simp [valNumsI32, GoVal.encFuel]⟩
  | nums_u32 => exact ⟨elem_nums_u32 cx, by rintro _ ⟨xs, rfl, hl⟩ <;> exact Or.inr rfl, by rintro _ ⟨xs, rfl, hl⟩ <;> simp [valNumsU32, GoVal.encFuel]⟩
  | nums_i64 => exact ⟨elem_nums_i64 cx, by rintro _ ⟨xs, rfl, hl⟩ <;> exact Or.inr rfl, by rintro _ ⟨xs, rfl, hl⟩ <;> simp [valNumsI64, GoVal.encFuel]⟩
  | nums_u64 => exact ⟨elem_nums_u64 cx, by rintro _ ⟨xs, rfl, hl⟩ <;> exact Or.inr rfl, by rintro _ ⟨xs, rfl, hl⟩ <;> simp [valNumsU64, GoVal.encFuel]⟩
  | raw => exact ⟨(rawExact cx).toElem, fun _ _ => Or.inl rfl, fun _ _ => by simp [valRaw, GoVal.encFuel]⟩
  | dyn => exact ⟨(dynExact cx).toElem, fun _ _ => Or.inl rfl, fun _ _ => by simp [valDyn, GoVal.encFuel]⟩
  | @slice c ok val need _ hstat ih =>
    obtain ⟨hx, htag, hfuel⟩ := ih
    refine ⟨elem_slice hx (fun t ht => (htag t ht).imp id (fun h => h.trans hstat)) hstat, ?_, ?_⟩
    · intro t ht
      cases t with
      | list e ts => exact Or.inr rfl
      | _ => exact ht.elim
    · intro t ht
      cases t with
      | list e ts =>
        have := encFuelList_map_le (need := need) (val := val) ts (fun t' ht' => hfuel t' (ht.2.1 t' ht'))
        simp only [needSlice, valSlice, GoVal.encFuel]
        omega
      | _ => exact ht.elim
  | @map c ok val need _ ih =>
    obtain ⟨hx, htag, hfuel⟩ := ih
    refine ⟨elem_map hx, ?_, ?_⟩
    · intro t ht
      cases t with
      | compound kvs => exact Or.inr rfl
      | _ => exact ht.elim
    · intro t ht
      cases t with
      | compound kvs =>
        have := encFuelKvs_map_le (need := need) (val := val) kvs (fun kv hkv => hfuel kv.2 (ht.1 kv hkv).2)
        simp only [needMap, valMap, GoVal.encFuel]
        omega
      | _ => exact ht.elim
  | struct n fields sps hsh _ ih =>
    refine ⟨elem_struct cx n fields sps hsh (fun sp h => (ih sp h).1), ?_, ?_⟩
    · intro t ht
      cases t with
      | compound kvs => exact Or.inr rfl
      | _ => exact ht.elim
    · intro t ht
      cases t with
      | compound kvs =>
        have := needFields_le_encFuel sps kvs (fun sp h => (ih sp h).2.2) ht
        simp only [needStruct, valStruct, GoVal.encFuel]
        omega
      | _ => exact ht.elim

/-! ### whole documents -/

/-- `Encode(val t, name)` writes the document `name : t` -/
theorem elem_root_enc {cx : SnbtCarrier} {c : GoType} {ok : NBT → Prop} {val : NBT → GoVal} {need : NBT → Nat}
    (hx : ElemExact cx c ok val need) (f : Nat) (fmt : Format) (name : Bytes) (t : NBT) (hn : name.length < 32768)
    (hok : ok t) (hf : need t ≤ f) :
    encodeF cx f (isNet fmt) name (some (val t)) = Res.ok (encDoc fmt name t) := by
  unfold encodeF
  simp only [hx.getTag f t hok hf, hx.marshal f t hok hf]
  cases fmt with
  | file =>
    simp only [isNet, Bool.false_eq_true, if_false, writeTag]
    rw [if_neg (by omega)]
    simp only [encDoc, encString, beN_eq, List.cons_append, List.append_assoc]
  | network =>
    simp only [isNet, if_true, encDoc, List.cons_append, List.nil_append]

/-- `Decode(&v)` with a fresh `v` of type `c`, on the document `name : t` followed by anything: `val t`, the root
name, and exactly the document consumed -/
theorem elem_root_dec {cx : SnbtCarrier} {c : GoType} {ok : NBT → Prop} {val : NBT → GoVal} {need : NBT → Nat}
    (hx : ElemExact cx c ok val need) (d : Bool) (fmt : Format) (name : Bytes) (t : NBT) (hn : name.length < 32768)
    (hok : ok t) (s : Stream) (rest : Bytes) (hs : s.flat = encDoc fmt name t ++ rest) :
    ∃ s', decodeTyped cx (isNet fmt) d c s = (Res.ok (val t, docName fmt name), s') ∧ s'.flat = rest ∧
      s'.failing = s.failing :=
  decodeTyped_of_R cx d fmt name t c (val t) (fun f => cost t ≤ f + 1) hn
    (fun f => hx.reads d (f + 1) t hok) (fun f hf => by have := cost_le t; omega) s rest hs

/-- The round trip on the plain fragment, both halves against the format: encoding the value of a tree writes the
document of that tree, and decoding that document (followed by anything) into a fresh variable gives the value
back, with the root name, consuming exactly the document. -/
theorem plain_roundtrip (cx : SnbtCarrier) {c : GoType} {ok : NBT → Prop} {val : NBT → GoVal} {need : NBT → Nat}
    (h : Plain c ok val need) (d : Bool) (fmt : Format) (name : Bytes) (t : NBT) (hn : name.length < 32768) (hok : ok t) :
    encode cx (isNet fmt) name (some (val t)) = Res.ok (encDoc fmt name t) ∧
    ∀ (s : Stream) (rest : Bytes), s.flat = encDoc fmt name t ++ rest →
      ∃ s', decodeTyped cx (isNet fmt) d c s = (Res.ok (val t, docName fmt name), s') ∧ s'.flat = rest ∧
        s'.failing = s.failing := by
  obtain ⟨hx, _, hfuel⟩ := plain_exact cx h
  refine ⟨?_, fun s rest hs => elem_root_dec hx d fmt name t hn hok s rest hs⟩
  unfold encode
  exact elem_root_enc hx _ fmt name t hn hok (by have := hfuel t hok; simp only; omega)

/-- non-vacuity: `map[string][][]int32`, `[]nbt.RawMessage` and `map[string][]string` are in the fragment -/
example : ∃ ok val need, Plain (.map (.slice (.slice (.int .i32)))) ok val need := ⟨_, _, _, .map (.slice .nums_i32 rfl)⟩
example : ∃ ok val need, Plain (.slice .raw) ok val need := ⟨_, _, _, .slice .raw rfl⟩
example : ∃ ok val need, Plain (.map (.slice .str)) ok val need := ⟨_, _, _, .map (.slice .str rfl)⟩

/-- … and the class of `[]string` contains the list of "a" and "" -/
example : okSlice .str okStr (.list 8 [.string [97], .string []]) := by
  refine ⟨by simp [NBT.WF, NBT.WFList, NBT.tag, NBT.tagString, NBT.tagEnd], ?_, by intro h; cases h⟩
  intro t ht
  simp only [List.mem_cons, List.not_mem_nil, or_false] at ht
  rcases ht with rfl | rfl
  · exact ⟨_, rfl, by decide⟩
  · exact ⟨_, rfl, by decide⟩

/-! ### an instance: `type Ex struct { A int32 `nbt:"a"`; B []string; In struct { X, Y float64 } `nbt:"in"`;
M map[string][]int64 }` is in the fragment -/

def exInnerFields : List (FieldInfo × GoType) := [
  ({ name := [88], anonymous := false, exported := true }, .f64),
  ({ name := [89], anonymous := false, exported := true }, .f64)]
def exInnerSpecs : List FSpec := [⟨[88], .f64, okF64, valF64, fun _ => 2⟩, ⟨[89], .f64, okF64, valF64, fun _ => 2⟩]

theorem exInner_plain : Plain (.struct [] exInnerFields) (okStruct exInnerSpecs) (valStruct [] exInnerFields exInnerSpecs)
    (needStruct exInnerSpecs) := by
  refine .struct [] exInnerFields exInnerSpecs ?_ ?_
  · have htf : typeFields (.struct [] exInnerFields) =
        [⟨[88], false, [0], .f64, false, false⟩, ⟨[89], false, [1], .f64, false, false⟩] := by rfl
    rw [htf]
    simp only [exInnerFields, exInnerSpecs]
    flat_shape
  · intro sp h
    simp only [exInnerSpecs, List.mem_cons, List.not_mem_nil, or_false] at h
    rcases h with rfl | rfl <;> exact .f64

def exFields : List (FieldInfo × GoType) := [
  ({ name := [65], anonymous := false, exported := true, nbt := [97] }, .int .i32),
  ({ name := [66], anonymous := false, exported := true }, .slice .str),
  ({ name := [73, 110], anonymous := false, exported := true, nbt := [105, 110] }, .struct [] exInnerFields),
  ({ name := [77], anonymous := false, exported := true }, .map (.slice (.int .i64)))]
def exSpecs : List FSpec := [
  ⟨[97], .int .i32, okI32, valI32, fun _ => 2⟩,
  ⟨[66], .slice .str, okSlice .str okStr, valSlice .str valStr, needSlice fun _ => 2⟩,
  ⟨[105, 110], .struct [] exInnerFields, okStruct exInnerSpecs, valStruct [] exInnerFields exInnerSpecs, needStruct exInnerSpecs⟩,
  ⟨[77], .map (.slice (.int .i64)), okMap okNumsI64, valMap (.slice (.int .i64)) valNumsI64, needMap fun _ => 3⟩]

theorem ex_plain : Plain (.struct [69, 120] exFields) (okStruct exSpecs) (valStruct [69, 120] exFields exSpecs)
    (needStruct exSpecs) := by
  refine .struct _ exFields exSpecs ?_ ?_
  · have htf : typeFields (.struct [69, 120] exFields) =
        [⟨[97], true, [0], .int .i32, false, false⟩, ⟨[66], false, [1], .slice .str, false, false⟩,
         ⟨[105, 110], true, [2], .struct [] exInnerFields, false, false⟩,
         ⟨[77], false, [3], .map (.slice (.int .i64)), false, false⟩] := by rfl
    rw [htf]
    simp only [exFields, exSpecs]
    flat_shape
  · intro sp h
    simp only [exSpecs, List.mem_cons, List.not_mem_nil, or_false] at h
    rcases h with rfl | rfl | rfl | rfl
    · exact .i32
    · exact .slice .str rfl
    · exact exInner_plain
    · exact .map .nums_i64

/-- the document `{a: 7, B: ["x"], in: {X: 1.0, Y: -0.0}, M: {"k": [1, 2]}}` is in the class of `Ex` -/
example : okStruct exSpecs (.compound [([97], .int 7), ([66], .list 8 [.string [120]]),
    ([105, 110], .compound [([88], .double 0x3ff0000000000000), ([89], .double 0x8000000000000000)]),
    ([77], .compound [([107], .longArray [1, 2])])]) := by
  simp only [okStruct, exSpecs, okFields, exInnerSpecs, and_true, true_and]
  refine ⟨⟨_, rfl⟩, ?_, ⟨⟨_, rfl⟩, ⟨_, rfl⟩⟩, ?_⟩
  · refine ⟨by simp [NBT.WF, NBT.WFList, NBT.tag, NBT.tagString, NBT.tagEnd], ?_, by intro h; cases h⟩
    intro t ht
    simp only [List.mem_cons, List.not_mem_nil, or_false] at ht
    subst ht
    exact ⟨_, rfl, by decide⟩
  · refine ⟨?_, by simp⟩
    intro kv hkv
    simp only [List.mem_cons, List.not_mem_nil, or_false] at hkv
    subst hkv
    exact ⟨by decide, _, rfl, by decide⟩

end GoMC.Lemmas.NBTTyped
