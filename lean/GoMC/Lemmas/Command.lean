import GoMC.Model.Command
/-
  Lemmas about the command-dispatcher model: trimming, the three string parsers consume text,
  the loop invariant of `Graph.Execute`.
-/
namespace GoMC.Command

/-! ### trimming -/

theorem dropWhile_head {p : Char → Bool} : ∀ {s : List Char} {d : Char} {u : List Char},
    s.dropWhile p = d :: u → p d = false := by
  intro s
  induction s with
  | nil => intro d u h; simp at h
  | cons a t ih =>
    intro d u h
    rw [List.dropWhile_cons] at h
    by_cases hp : p a = true
    · simp [hp] at h; exact ih h
    · simp [hp] at h
      obtain ⟨rfl, _⟩ := h
      simpa using hp

theorem trimRight_cons (c : Char) (t : List Char) :
    trimRight (c :: t) = [] ∨ ∃ r, trimRight (c :: t) = c :: r := by
  unfold trimRight
  split
  · by_cases h : isSpace c = true <;> simp [h]
  · right; exact ⟨_, rfl⟩

theorem trimRight_length_le : ∀ s : List Char, (trimRight s).length ≤ s.length := by
  intro s
  induction s with
  | nil => simp [trimRight]
  | cons c t ih =>
    unfold trimRight
    split
    · by_cases h : isSpace c = true <;> simp [h]
    · simp; exact ih

theorem trimRight_idem : ∀ s : List Char, trimRight (trimRight s) = trimRight s := by
  intro s
  induction s with
  | nil => simp [trimRight]
  | cons c t ih =>
    cases hr : trimRight t with
    | nil =>
      by_cases h : isSpace c = true
      · have : trimRight (c :: t) = [] := by simp [trimRight, hr, h]
        rw [this]; simp [trimRight]
      · have : trimRight (c :: t) = [c] := by simp [trimRight, hr, h]
        rw [this]; simp [trimRight, h]
    | cons a r =>
      have e : trimRight (c :: t) = c :: a :: r := by simp [trimRight, hr]
      rw [e]
      have : trimRight (a :: r) = a :: r := by rw [← hr]; exact ih
      rw [trimRight, this]

theorem trimSpace_length_le (s : List Char) : (trimSpace s).length ≤ s.length := by
  unfold trimSpace trimLeft
  exact Nat.le_trans (trimRight_length_le _) (List.dropWhile_suffix _).length_le

theorem trimSpace_head {s : List Char} {c : Char} {t : List Char} (h : trimSpace s = c :: t) :
    isSpace c = false := by
  unfold trimSpace trimLeft at h
  cases hy : s.dropWhile isSpace with
  | nil => rw [hy] at h; simp [trimRight] at h
  | cons d u =>
    rw [hy] at h
    have hd := dropWhile_head hy
    rcases trimRight_cons d u with e | ⟨r, e⟩
    · rw [e] at h; cases h
    · rw [e] at h; cases h; exact hd

theorem trimSpace_idem (s : List Char) : trimSpace (trimSpace s) = trimSpace s := by
  cases hz : trimSpace s with
  | nil => rfl
  | cons c t =>
    have hc := trimSpace_head hz
    have h1 : trimLeft (c :: t) = c :: t := by simp [trimLeft, hc]
    show trimRight (trimLeft (c :: t)) = c :: t
    rw [h1, ← hz]
    unfold trimSpace
    exact trimRight_idem _

theorem isAsciiSpace_isSpace {c : Char} (h : isSpace c = false) : isAsciiSpace c = false := by
  unfold isSpace at h
  cases ha : isAsciiSpace c with
  | false => rfl
  | true => simp [ha] at h

/-- what the loop knows about `cmd` at every node but the root: it went through `TrimSpace` and is not empty -/
def Trimmed (s : List Char) : Prop := trimSpace s = s ∧ s ≠ []

theorem Trimmed.cons {s : List Char} (h : Trimmed s) : ∃ c t, s = c :: t ∧ isAsciiSpace c = false := by
  obtain ⟨h1, h2⟩ := h
  cases s with
  | nil => exact absurd rfl h2
  | cons c t => exact ⟨c, t, rfl, isAsciiSpace_isSpace (trimSpace_head h1)⟩

/-! ### the parsers consume text -/

theorem wordParse_shorter {cmd : List Char} (h : Trimmed cmd) :
    ∃ left v, wordParse cmd = .ok left v ∧ left.length < cmd.length := by
  obtain ⟨c, t, rfl, hc⟩ := h.cons
  refine ⟨_, _, rfl, ?_⟩
  rw [List.dropWhile_cons]
  simp [hc]
  exact Nat.lt_succ_of_le (List.dropWhile_suffix _).length_le

theorem scanQuoted_bound : ∀ (t : List Char) (i : Nat) (e : Bool) (sb : List Char) (j : Nat) (v : List Char),
    scanQuoted t i e sb = some (j, v) → j < i + t.length := by
  intro t
  induction t with
  | nil => intro i e sb j v h; simp [scanQuoted] at h
  | cons a t ih =>
    intro i e sb j v h
    cases e with
    | true =>
      simp only [scanQuoted] at h
      have := ih _ _ _ _ _ h
      simp; omega
    | false =>
      simp only [scanQuoted] at h
      by_cases h1 : a = '\\'
      · simp [h1] at h
        have := ih _ _ _ _ _ h
        simp; omega
      · by_cases h2 : a = '"'
        · simp [h2] at h
          obtain ⟨rfl, _⟩ := h
          simp
        · simp [h1, h2] at h
          have := ih _ _ _ _ _ h
          simp; omega

theorem quotedParse_shorter {cmd : List Char} (h : Trimmed cmd) :
    quotedParse cmd ≠ .panic ∧ ∀ left v, quotedParse cmd = .ok left v → left.length < cmd.length := by
  obtain ⟨l0, v0, hw, hlt⟩ := wordParse_shorter h
  obtain ⟨c, t, rfl, _⟩ := h.cons
  unfold quotedParse
  by_cases hq : c = '"'
  · simp only [hq, if_true]
    cases hs : scanQuoted t 0 false [] with
    | none => simp
    | some p =>
      obtain ⟨j, sb⟩ := p
      have hb := scanQuoted_bound _ _ _ _ _ _ hs
      simp
      omega
  · simp only [hq, if_false]
    rw [hw]
    simp
    simpa using hlt

theorem stringParse_shorter {p : PKind} {cmd : List Char} (hp : p.known = true) (h : Trimmed cmd) :
    stringParse p cmd ≠ .panic ∧ ∀ left v, stringParse p cmd = .ok left v → left.length < cmd.length := by
  cases p with
  | word =>
    obtain ⟨l0, v0, hw, hlt⟩ := wordParse_shorter h
    simp only [stringParse, hw]
    simp
    exact hlt
  | quotable => exact quotedParse_shorter h
  | greedy =>
    obtain ⟨c, t, rfl, _⟩ := h.cons
    simp [stringParse]
  | unknown => simp [PKind.known] at hp
  | none => simp [PKind.known] at hp

/-! ### the loop invariant -/

/-- holds at the head of every round of the `for` loop in `Graph.Execute` -/
structure Inv (g : Graph) (idx : Nat) (node : Node) (cmd : List Char) : Prop where
  mem : g.nodes[idx]? = some node
  trimmed : idx ≠ 0 → Trimmed cmd
  lit : idx ≠ 0 → node.kind = .literal → node.name <+: cmd ∧ node.name ≠ []

theorem WellBuilt.nodeOK {g : Graph} (wb : WellBuilt g) {i : Nat} {n : Node} (h : g.nodes[i]? = some n) :
    NodeOK g i n := by
  obtain ⟨hi, rfl⟩ := List.getElem?_eq_some_iff.mp h
  exact wb.2 i hi

theorem WellBuilt.child {g : Graph} (wb : WellBuilt g) {i : Nat} {n : Node} (h : g.nodes[i]? = some n)
    {c : Nat} (hc : c ∈ n.children) : c ≠ 0 ∧ ∃ f, g.nodes[c]? = some f ∧ f.kind ≠ .root := by
  obtain ⟨h0, hlt⟩ := (wb.nodeOK h).2.1 c hc
  refine ⟨by omega, g.nodes[c], List.getElem?_eq_getElem hlt, ?_⟩
  intro hk
  have := ((wb.2 c hlt).1).mp hk
  omega

/-- `Node.parse` under the invariant: no panic, and the text left over is no longer (strictly shorter off the root) -/
theorem parse_inv {g : Graph} (wb : WellBuilt g) {idx : Nat} {node : Node} {cmd : List Char}
    (inv : Inv g idx node cmd) :
    node.parse cmd ≠ .panic ∧
    ∀ left v, node.parse cmd = .ok left v → left.length ≤ cmd.length ∧ (idx ≠ 0 → left.length < cmd.length) := by
  have ok := wb.nodeOK inv.mem
  unfold Node.parse
  cases hk : node.kind with
  | root =>
    have h0 : idx = 0 := ok.1.mp hk
    simp [h0]
  | literal =>
    have h0 : idx ≠ 0 := fun h => by have := ok.1.mpr h; rw [hk] at this; cases this
    obtain ⟨hpre, hne⟩ := inv.lit h0 hk
    have hp : node.name.isPrefixOf cmd = true := List.isPrefixOf_iff_prefix.mpr hpre
    simp [hp]
    have hl : 0 < node.name.length := List.length_pos_iff.mpr hne
    have hc : node.name.length ≤ cmd.length := hpre.length_le
    omega
  | argument =>
    have h0 : idx ≠ 0 := fun h => by have := ok.1.mpr h; rw [hk] at this; cases this
    obtain ⟨h1, h2⟩ := stringParse_shorter (ok.2.2 hk) (inv.trimmed h0)
    refine ⟨h1, ?_⟩
    intro left v hl
    have := h2 left v hl
    exact ⟨Nat.le_of_lt this, fun _ => this⟩

theorem findChild_spec (g : Graph) (lit : List Char) : ∀ (cs : List Nat),
    (∀ c ∈ cs, c ≠ 0 ∧ ∃ f, g.nodes[c]? = some f ∧ f.kind ≠ .root) →
    ∃ i, findChild g cs lit = .next i ∧
      (i ≠ 0 → ∃ f, g.nodes[i]? = some f ∧ f.name = lit) := by
  intro cs
  induction cs with
  | nil => intro _; exact ⟨0, rfl, fun h => absurd rfl h⟩
  | cons c t ih =>
    intro h
    obtain ⟨_, f, hf, _⟩ := h c (List.mem_cons_self)
    unfold findChild
    rw [hf]
    by_cases hn : f.name = lit
    · simp only [hn, if_true]
      exact ⟨c, rfl, fun _ => ⟨f, hf, hn⟩⟩
    · simp only [hn, if_false]
      exact ih (fun c' hc' => h c' (List.mem_cons_of_mem _ hc'))

theorem firstWord_prefix {left : List Char} (h : Trimmed left) :
    firstWord left <+: left ∧ firstWord left ≠ [] := by
  unfold firstWord
  rw [h.1]
  refine ⟨List.takeWhile_prefix _, ?_⟩
  obtain ⟨c, t, rfl, hc⟩ := h.cons
  simp [hc]

/-- the part of a round after `node.parse`: trim, run the handler or look for the next node -/
def after (fixed : Bool) (g : Graph) (idx : Nat) (node : Node) (left0 : List Char) (args : List Arg) : Step :=
  let left := trimSpace left0
  if left.isEmpty then .done (runNode fixed idx node args)
  else
    match node.next g left with
    | .err => .done .err
    | .panic => .done .panic
    | .next 0 => .done .err
    | .next i =>
      match g.nodes[i]? with
      | none => .done .panic
      | some n' => .cont i n' left args

theorem step_eq (fixed : Bool) (g : Graph) (idx : Nat) (node : Node) (cmd : List Char) (args : List Arg) :
    step fixed g idx node cmd args =
      match node.parse cmd with
      | .err => .done .err
      | .panic => .done .panic
      | .ok left v => after fixed g idx node left (args ++ [v]) := by
  unfold step after
  cases node.parse cmd <;> rfl

theorem runNode_fixed (idx : Nat) (n : Node) (args : List Arg) : runNode true idx n args ≠ .panic := by
  unfold runNode
  cases n.run <;> simp

/-- the result of `Node.next` for a node of a well-built graph -/
theorem next_spec {g : Graph} (wb : WellBuilt g) {idx : Nat} {node : Node} (hm : g.nodes[idx]? = some node)
    {left : List Char} (ht : Trimmed left) :
    ∃ i, node.next g left = .next i ∧
      (i ≠ 0 → ∃ f, g.nodes[i]? = some f ∧ (f.kind = .literal → f.name <+: left ∧ f.name ≠ [])) := by
  unfold Node.next
  cases hc : node.children with
  | nil => exact ⟨0, rfl, fun h => absurd rfl h⟩
  | cons c0 rest =>
    have hch : ∀ c ∈ c0 :: rest, c ≠ 0 ∧ ∃ f, g.nodes[c]? = some f ∧ f.kind ≠ .root := by
      intro c hcm; rw [← hc] at hcm; exact wb.child hm hcm
    obtain ⟨_, f, hf, hroot⟩ := hch c0 List.mem_cons_self
    simp only [hf]
    cases hk : f.kind with
    | root => exact absurd hk hroot
    | literal =>
      obtain ⟨i, hi, hspec⟩ := findChild_spec g (firstWord left) (c0 :: rest) hch
      refine ⟨i, hi, fun h0 => ?_⟩
      obtain ⟨f', hf', hname⟩ := hspec h0
      exact ⟨f', hf', fun _ => hname ▸ firstWord_prefix ht⟩
    | argument =>
      refine ⟨c0, rfl, fun _ => ⟨f, hf, fun hl => ?_⟩⟩
      rw [hk] at hl; cases hl

theorem after_inv {g : Graph} (wb : WellBuilt g) (fixed : Bool) {idx : Nat} {node : Node}
    (hm : g.nodes[idx]? = some node) (left0 : List Char) (args : List Arg) :
    match after fixed g idx node left0 args with
    | .done o => fixed = true → o ≠ .panic
    | .cont i n c _ => Inv g i n c ∧ i ≠ 0 ∧ c.length ≤ left0.length := by
  unfold after
  by_cases he : (trimSpace left0).isEmpty = true
  · simp only [he, if_true]
    intro hf; subst hf; exact runNode_fixed _ _ _
  · simp only [he]
    have ht : Trimmed (trimSpace left0) := ⟨trimSpace_idem _, by simpa using he⟩
    obtain ⟨i, hi, hspec⟩ := next_spec wb hm ht
    rw [hi]
    cases i with
    | zero => simp
    | succ k =>
      obtain ⟨f, hf, hlit⟩ := hspec (Nat.succ_ne_zero k)
      simp only [hf]
      refine ⟨⟨hf, fun _ => ht, fun _ hk => hlit hk⟩, Nat.succ_ne_zero k, trimSpace_length_le _⟩

/-- one round: no panic (repaired code), the invariant is kept, and the text gets shorter off the root -/
theorem step_inv {g : Graph} (wb : WellBuilt g) (fixed : Bool) {idx : Nat} {node : Node} {cmd : List Char}
    (inv : Inv g idx node cmd) (args : List Arg) :
    match step fixed g idx node cmd args with
    | .done o => fixed = true → o ≠ .panic
    | .cont i n c _ => Inv g i n c ∧ i ≠ 0 ∧ c.length ≤ cmd.length ∧ (idx ≠ 0 → c.length < cmd.length) := by
  rw [step_eq]
  obtain ⟨hnp, hlen⟩ := parse_inv wb inv
  cases hp : node.parse cmd with
  | err => simp
  | panic => exact absurd hp hnp
  | ok left v =>
    obtain ⟨h1, h2⟩ := hlen left v hp
    have := after_inv wb fixed inv.mem left (args ++ [v])
    simp only
    cases ha : after fixed g idx node left (args ++ [v]) with
    | done o => rw [ha] at this; exact this
    | cont i n c a =>
      rw [ha] at this
      obtain ⟨hi, h0, hl⟩ := this
      exact ⟨hi, h0, Nat.le_trans hl h1, fun h => Nat.lt_of_le_of_lt hl (h2 h)⟩

/-- fuel the loop needs in a state: one round at the root, then at most one per remaining character -/
def need (idx : Nat) (cmd : List Char) : Nat := if idx = 0 then cmd.length + 1 else cmd.length

theorem loop_inv {g : Graph} (wb : WellBuilt g) (fixed : Bool) : ∀ (fuel idx : Nat) (node : Node)
    (cmd : List Char) (args : List Arg), Inv g idx node cmd → need idx cmd ≤ fuel →
    loop fixed g fuel idx node cmd args ≠ .fuelOut ∧ (fixed = true → loop fixed g fuel idx node cmd args ≠ .panic) := by
  intro fuel
  induction fuel with
  | zero =>
    intro idx node cmd args inv hn
    exfalso
    unfold need at hn
    by_cases h0 : idx = 0
    · simp [h0] at hn
    · simp [h0] at hn
      exact (inv.trimmed h0).2 hn
  | succ f ih =>
    intro idx node cmd args inv hn
    have hs := step_inv wb fixed inv args
    unfold loop
    cases hst : step fixed g idx node cmd args with
    | done o =>
      rw [hst] at hs
      simp only
      refine ⟨?_, hs⟩
      -- a finished round never reports fuelOut
      rw [step_eq] at hst
      intro ho; subst ho
      cases hp : node.parse cmd with
      | err => rw [hp] at hst; cases hst
      | panic => rw [hp] at hst; cases hst
      | ok left v =>
        rw [hp] at hst
        simp only [after] at hst
        split at hst
        · cases hr : node.run <;> simp [runNode, hr] at hst
          cases fixed <;> simp at hst
        · split at hst <;> try cases hst
          split at hst <;> cases hst
    | cont i n c a =>
      rw [hst] at hs
      obtain ⟨hi, h0, hle, hlt⟩ := hs
      simp only
      apply ih i n c a hi
      unfold need at hn ⊢
      simp only [h0, if_false]
      by_cases hz : idx = 0
      · simp [hz] at hn; omega
      · simp [hz] at hn; have := hlt hz; omega

theorem root_inv {g : Graph} {root : Node} (h : g.nodes[0]? = some root) (line : List Char) :
    Inv g 0 root line :=
  ⟨h, fun h => absurd rfl h, fun h => absurd rfl h⟩

/-! ### which handler runs -/

theorem step_done_ran {fixed : Bool} {g : Graph} {idx : Nat} {node : Node} {cmd : List Char} {args : List Arg}
    {i : Nat} {a : List Arg} (h : step fixed g idx node cmd args = .done (.ran i a)) :
    i = idx ∧ node.run = .handler := by
  rw [step_eq] at h
  cases hp : node.parse cmd with
  | err => rw [hp] at h; cases h
  | panic => rw [hp] at h; cases h
  | ok left v =>
    rw [hp] at h
    simp only [after] at h
    split at h
    · cases hr : node.run <;> simp [runNode, hr] at h
      · cases fixed <;> simp at h
      · exact ⟨h.1.symm, rfl⟩
    · split at h <;> try cases h
      split at h <;> cases h

theorem step_cont_mem {fixed : Bool} {g : Graph} {idx : Nat} {node : Node} {cmd : List Char} {args : List Arg}
    {i : Nat} {n : Node} {c : List Char} {a : List Arg} (h : step fixed g idx node cmd args = .cont i n c a) :
    g.nodes[i]? = some n := by
  rw [step_eq] at h
  cases hp : node.parse cmd with
  | err => rw [hp] at h; cases h
  | panic => rw [hp] at h; cases h
  | ok left v =>
    rw [hp] at h
    simp only [after] at h
    split at h
    · cases h
    · split at h <;> try cases h
      split at h
      · cases h
      · rename_i hn; cases h; exact hn

theorem loop_ran {fixed : Bool} {g : Graph} : ∀ (fuel idx : Nat) (node : Node) (cmd : List Char) (args : List Arg)
    (i : Nat) (a : List Arg), g.nodes[idx]? = some node → loop fixed g fuel idx node cmd args = .ran i a →
    ∃ n, g.nodes[i]? = some n ∧ n.run = .handler := by
  intro fuel
  induction fuel with
  | zero => intro idx node cmd args i a _ h; simp [loop] at h
  | succ f ih =>
    intro idx node cmd args i a hm h
    unfold loop at h
    cases hs : step fixed g idx node cmd args with
    | done o =>
      rw [hs] at h
      simp only at h
      subst h
      obtain ⟨rfl, hr⟩ := step_done_ran hs
      exact ⟨node, hm, hr⟩
    | cont i' n c a' =>
      rw [hs] at h
      exact ih i' n c a' i a (step_cont_mem hs) h

end GoMC.Command
