import GoMC.Lemmas.SNBTSpecRead
namespace GoMC.Model.SNBT
open GoMC Spec
open GoMC.Spec.SNBT (isWs isDigit isLetter isTokenByte skipWs spanToken spanDigits digitsVal stripSign inRange lower
  classify readQuoted readKey arrayElem mkArray readArrayElems readValue readEntries readElems FloatSem Tok)

/-- the per-node statement for the grammar reader: the text of `t`, followed by anything that cannot continue a
token, is read as `canon t` -/
def RVt (fs : FloatSem) (fm : FmtOracle) (t : NBT) : Prop :=
  ∀ (k : Bytes), TokEnd k → ∀ f, (wtext fm t).length + 1 ≤ f →
    readValue fs f (wtext fm t ++ k) = some (canonT t, false, k)

theorem tokEnd_sep (r : List Bytes) (c : Byte) (k : Bytes) (hc : c = 93 ∨ c = 125) : TokEnd (sepJoin r ++ c :: k) := by
  cases r with
  | nil => rcases hc with e | e <;> subst e <;> simp [sepJoin, TokEnd, isAllowedInUnquotedString, isNumber, isUpper, isLower]
  | cons w r' => simp [sepJoin, TokEnd, isAllowedInUnquotedString, isNumber, isUpper, isLower]

/-- first byte of a value text: not white space, not a closing bracket; if it is `B`, `I` or `L` the rest of the
text is made of token bytes (a bare string) -/
def Head1 (w : Bytes) : Prop :=
  ∃ c w', w = c :: w' ∧ isSpace c = false ∧ (c == 93) = false ∧ (c == 125) = false ∧
    ((c == 66 || c == 73 || c == 76) = true → ∀ x ∈ w', isAllowedInUnquotedString x = true)

theorem numstart_facts2 (c : Byte) (h : (isNumber c || isSign c) = true) :
    isSpace c = false ∧ (c == 93) = false ∧ (c == 125) = false ∧ (c == 66 || c == 73 || c == 76) = false := by
  have : ∀ n : Fin (2^8), (let c : Byte := BitVec.ofFin n
      (isNumber c || isSign c) = true →
      isSpace c = false ∧ (c == 93) = false ∧ (c == 125) = false ∧ (c == 66 || c == 73 || c == 76) = false) := by
    decide +kernel
  exact this c.toFin h

theorem allowed_facts (c : Byte) (h : isAllowedInUnquotedString c = true) :
    isSpace c = false ∧ (c == 93) = false ∧ (c == 125) = false ∧ (c == 59) = false ∧ (c == 34 || c == 39) = false := by
  have : ∀ n : Fin (2^8), (let c : Byte := BitVec.ofFin n
      isAllowedInUnquotedString c = true →
      isSpace c = false ∧ (c == 93) = false ∧ (c == 125) = false ∧ (c == 59) = false ∧ (c == 34 || c == 39) = false) := by
    decide +kernel
  exact this c.toFin h

theorem head1_num (c : Byte) (w' : Bytes) (h : (isNumber c || isSign c) = true) : Head1 (c :: w') := by
  obtain ⟨h1, h2, h3, h4⟩ := numstart_facts2 c h
  exact ⟨c, w', rfl, h1, h2, h3, by rw [h4]; intro h; cases h⟩

theorem head1_int (v : Int) (suf : Bytes) : Head1 (formatInt v ++ suf) := by
  obtain ⟨c0, ds, he, hc0, _⟩ := formatInt_shape v
  rw [he]; exact head1_num c0 _ hc0

theorem head1_float (w : Bytes) (hw : FloatText w) (suf : Bytes) : Head1 (w ++ suf) := by
  obtain ⟨c0, ip, fd, hc0, _, _, hshape⟩ := hw
  have hstart : (isNumber c0 || isSign c0) = true := by
    rcases hc0 with h | ⟨h, _⟩
    · simp [h]
    · subst h; decide
  rcases hshape with e | ⟨_, e⟩ <;> rw [e] <;> exact head1_num c0 _ hstart

/-- the two shapes of an escaped string -/
theorem writeEscapeStr_cases (str : Bytes) :
    (∃ q, (q = 34 ∨ q = 39) ∧ writeEscapeStr str = [q] ++ escapeWith q str ++ [q]) ∨
    (writeEscapeStr str = str ∧ ∃ c cs, str = c :: cs ∧ (∀ x ∈ c :: cs, isAllowedInUnquotedString x = true) ∧
      (isLetter c || c == 95) = true) := by
  unfold writeEscapeStr
  by_cases hq : needQuote str = true
  · left
    simp only [hq, Bool.not_true, Bool.false_eq_true, if_false]
    split
    · exact ⟨39, Or.inr rfl, rfl⟩
    · exact ⟨34, Or.inl rfl, rfl⟩
  · right
    have hq' : needQuote str = false := by simpa using hq
    simp only [hq', Bool.not_false, if_true, true_and]
    unfold needQuote at hq'
    cases str with
    | nil => simp at hq'
    | cons c cs =>
      simp only [Bool.or_eq_false_iff, List.any_eq_false, Bool.not_eq_true', Bool.not_eq_false] at hq'
      obtain ⟨⟨⟨⟨hn, h45⟩, h43⟩, h46⟩, hall⟩ := hq'
      have hall' : ∀ x ∈ c :: cs, isAllowedInUnquotedString x = true := by
        intro x hx; have := hall x hx; simpa using this
      exact ⟨c, cs, rfl, hall', bare_first_letter c (hall' c (by simp)) hn h45 h43 h46⟩

theorem head1_str (str : Bytes) : Head1 (writeEscapeStr str) := by
  rcases writeEscapeStr_cases str with ⟨q, hq, e⟩ | ⟨e, c, cs, hs, hall, _⟩
  · rw [e]
    refine ⟨q, escapeWith q str ++ [q], by simp, ?_, ?_, ?_, ?_⟩
    · rcases hq with h | h <;> subst h <;> decide
    · rcases hq with h | h <;> subst h <;> decide
    · rcases hq with h | h <;> subst h <;> decide
    · rcases hq with h | h <;> subst h <;> exact fun h => absurd h (by decide)
  · rw [e, hs]
    obtain ⟨h1, h2, h3, _, _⟩ := allowed_facts c (hall c (by simp))
    exact ⟨c, cs, rfl, h1, h2, h3, fun _ x hx => hall x (by simp [hx])⟩

theorem head1_wtext (fo : FloatOracle) (fm : FmtOracle) (t : NBT) (hf : FloatHypT fo fm t) : Head1 (wtext fm t) := by
  cases t with
  | byte v => exact head1_int _ _
  | short v => exact head1_int _ _
  | int v => have := head1_int v.toInt []; simpa [wtext] using this
  | long v => exact head1_int _ _
  | float b => exact head1_float _ hf.1 _
  | double b => exact head1_float _ hf.1 _
  | string s => exact head1_str s
  | byteArray xs => exact ⟨91, _, rfl, by decide, by decide, by decide, fun h => absurd h (by decide)⟩
  | intArray xs => exact ⟨91, _, rfl, by decide, by decide, by decide, fun h => absurd h (by decide)⟩
  | longArray xs => exact ⟨91, _, rfl, by decide, by decide, by decide, fun h => absurd h (by decide)⟩
  | list e xs => exact ⟨91, _, rfl, by decide, by decide, by decide, fun h => absurd h (by decide)⟩
  | compound kvs => exact ⟨123, _, rfl, by decide, by decide, by decide, fun h => absurd h (by decide)⟩

/-- a compound name written by `writeEscapeStr` is read back -/
theorem readKey_str (str k : Bytes) (hk : TokEnd k) : readKey (writeEscapeStr str ++ k) = some (str, false, k) := by
  rcases writeEscapeStr_cases str with ⟨q, hq, e⟩ | ⟨e, c, cs, hs, hall, _⟩
  · rw [e]
    have hq92 : (q == 92) = false := by rcases hq with h | h <;> subst h <;> decide
    have hqq : (q == 34 || q == 39) = true := by rcases hq with h | h <;> subst h <;> decide
    have hrd := readQuoted_escape q hq92 str k [] false
    simp only [List.cons_append, List.nil_append, List.append_assoc]
    unfold readKey
    simp only [hqq, if_true]
    simpa using hrd
  · rw [e, hs]
    obtain ⟨_, _, _, _, hnq⟩ := allowed_facts c (hall c (by simp))
    have hsp := spanToken_run (c :: cs) k hall hk
    simp only [List.cons_append] at hsp ⊢
    unfold readKey
    simp only [hnq, Bool.false_eq_true, if_false, hsp]
    simp

theorem readElems_spec (fs : FloatSem) (fm : FmtOracle) :
    ∀ (xs : List NBT), xs ≠ [] → (∀ x ∈ xs, RVt fs fm x) →
    ∀ (k : Bytes) (acc : List NBT) (g : Nat), (joinElems (wtextList fm xs)).length + 2 ≤ g →
      readElems fs g (joinElems (wtextList fm xs) ++ 93 :: k) acc false =
        some (acc.reverse ++ xs.map canonT, false, k) := by
  intro xs
  induction xs with
  | nil => intro h; exact absurd rfl h
  | cons x r ih =>
    intro _ hall k acc g hg
    obtain ⟨g, rfl⟩ : ∃ g', g = g' + 1 := ⟨g - 1, by omega⟩
    have hx := hall x (by simp)
    simp only [wtextList] at hg ⊢
    rw [joinElems_cons] at hg ⊢
    simp only [List.length_append] at hg
    unfold readElems
    rw [List.append_assoc, hx _ (tokEnd_sep _ 93 k (Or.inl rfl)) g (by omega)]
    simp only [Bool.or_false]
    cases hr : r with
    | nil =>
      simp only [wtextList, sepJoin, List.nil_append]
      rw [skipWs_cons 93 _ (by decide)]
      simp
    | cons y r' =>
      have hsep : sepJoin (wtextList fm (y :: r')) = 44 :: joinElems (wtextList fm (y :: r')) := by
        simp [wtextList, sepJoin]
      rw [hsep]
      simp only [List.cons_append]
      rw [skipWs_cons 44 _ (by decide)]
      simp only [beq_self_eq_true, if_true]
      rw [hr, hsep] at hg
      have := ih (by rw [hr]; simp) (fun z hz => hall z (by simp [hz])) k (canonT x :: acc) g
        (by rw [hr]; simp only [List.length_cons] at hg; omega)
      rw [hr] at this
      rw [this]
      simp


theorem readEntries_spec (fs : FloatSem) (fm : FmtOracle) :
    ∀ (kvs : List (Bytes × NBT)), kvs ≠ [] → (∀ kv ∈ kvs, RVt fs fm kv.2) →
    ∀ (k : Bytes) (acc : List (Bytes × NBT)) (g : Nat), (joinElems (wtextKvs fm kvs)).length + 2 ≤ g →
      readEntries fs g (joinElems (wtextKvs fm kvs) ++ 125 :: k) acc false =
        some (acc.reverse ++ kvs.map (fun kv => (kv.1, canonT kv.2)), false, k) := by
  intro kvs
  induction kvs with
  | nil => intro h; exact absurd rfl h
  | cons kv r ih =>
    obtain ⟨key, v⟩ := kv
    intro _ hall k acc g hg
    obtain ⟨g, rfl⟩ : ∃ g', g = g' + 1 := ⟨g - 1, by omega⟩
    have hx : RVt fs fm v := hall (key, v) (by simp)
    simp only [wtextKvs] at hg ⊢
    rw [joinElems_cons] at hg ⊢
    simp only [List.length_append, List.length_cons, List.length_nil] at hg
    obtain ⟨c0, w0, he0, hsp0, _⟩ := head1_str key
    unfold readEntries
    have hbs : writeEscapeStr key ++ [58] ++ wtext fm v ++ sepJoin (wtextKvs fm r) ++ 125 :: k =
        writeEscapeStr key ++ (58 :: (wtext fm v ++ (sepJoin (wtextKvs fm r) ++ 125 :: k))) := by simp
    rw [hbs]
    have hsk : skipWs (writeEscapeStr key ++ (58 :: (wtext fm v ++ (sepJoin (wtextKvs fm r) ++ 125 :: k)))) =
        writeEscapeStr key ++ (58 :: (wtext fm v ++ (sepJoin (wtextKvs fm r) ++ 125 :: k))) := by
      rw [he0]; exact skipWs_cons c0 _ hsp0
    rw [hsk, readKey_str key _ (by show isAllowedInUnquotedString 58 = false; decide)]
    simp only
    rw [skipWs_cons 58 _ (by decide)]
    simp only [bne_self_eq_false, Bool.false_eq_true, if_false]
    rw [hx _ (tokEnd_sep _ 125 k (Or.inr rfl)) g (by omega)]
    simp only [Bool.or_false]
    cases hr : r with
    | nil =>
      simp only [wtextKvs, sepJoin, List.nil_append]
      rw [skipWs_cons 125 _ (by decide)]
      simp
    | cons y r' =>
      obtain ⟨ky, vy⟩ := y
      have hsep : sepJoin (wtextKvs fm ((ky, vy) :: r')) = 44 :: joinElems (wtextKvs fm ((ky, vy) :: r')) := by
        simp [wtextKvs, sepJoin]
      rw [hsep]
      simp only [List.cons_append]
      rw [skipWs_cons 44 _ (by decide)]
      simp only [beq_self_eq_true, if_true]
      rw [hr, hsep] at hg
      have := ih (by rw [hr]; simp) (fun z hz => hall z (by simp [hz])) k ((key, canonT v) :: acc) g
        (by rw [hr]; simp only [List.length_cons] at hg; omega)
      rw [hr] at this
      rw [this]
      simp

/-- the list production -/
theorem rv_list (fs : FloatSem) (fm : FmtOracle) (e : Byte) (xs : List NBT)
    (hall : ∀ x ∈ xs, RVt fs fm x ∧ x.tag = e ∧ Head1 (wtext fm x)) : RVt fs fm (.list e xs) := by
  intro k hk f hf
  obtain ⟨f, rfl⟩ : ∃ f', f = f' + 1 := ⟨f - 1, by omega⟩
  simp only [wtext, List.length_cons, List.length_append, List.length_nil] at hf
  show readValue fs (f + 1) (91 :: (joinElems (wtextList fm xs) ++ [93]) ++ k) = _
  have hcs : (91 :: (joinElems (wtextList fm xs) ++ [93]) ++ k) = 91 :: (joinElems (wtextList fm xs) ++ 93 :: k) := by simp
  rw [hcs]
  unfold readValue
  rw [skipWs_cons 91 _ (by decide)]
  simp only [show ((91 : Byte) == 123) = false by decide, show ((91 : Byte) == 91) = true by decide,
    Bool.false_eq_true, if_false, if_true]
  cases xs with
  | nil =>
    simp only [wtextList, joinElems, List.nil_append]
    rw [skipWs_cons 93 _ (by decide)]
    simp only [beq_self_eq_true, if_true]
    rfl
  | cons x r =>
    obtain ⟨hx, _, c, w', hw, hsp, h93, _, hbil⟩ := hall x (by simp)
    have hJ : joinElems (wtextList fm (x :: r)) ++ 93 :: k = c :: (w' ++ (sepJoin (wtextList fm r) ++ 93 :: k)) := by
      simp only [wtextList]; rw [joinElems_cons, hw]; simp
    have hsk : skipWs (joinElems (wtextList fm (x :: r)) ++ 93 :: k) =
        c :: (w' ++ (sepJoin (wtextList fm r) ++ 93 :: k)) := by
      rw [hJ]; exact skipWs_cons c _ hsp
    rw [hsk]
    simp only [h93, Bool.false_eq_true, if_false]
    have harr : ((c == 66 || c == 73 || c == 76) &&
        (w' ++ (sepJoin (wtextList fm r) ++ 93 :: k)).head? == some 59) = false := by
      by_cases hb : (c == 66 || c == 73 || c == 76) = true
      · rw [hb, Bool.true_and]
        cases w' with
        | nil =>
          cases r with
          | nil => simp [wtextList, sepJoin]
          | cons y r' => simp [wtextList, sepJoin]
        | cons y w'' =>
          have hy := hbil hb y (by simp)
          obtain ⟨_, _, _, h59, _⟩ := allowed_facts y hy
          simp only [List.cons_append, List.head?_cons]
          rw [Bool.eq_false_iff]; intro h
          simp only [beq_iff_eq, Option.some.injEq] at h
          subst h; revert h59; decide
      · have hb' : (c == 66 || c == 73 || c == 76) = false := by simpa using hb
        rw [hb', Bool.false_and]
    rw [harr]
    simp only [Bool.false_eq_true, if_false]
    rw [readElems_spec fs fm (x :: r) (by simp) (fun z hz => (hall z hz).1) k [] f (by omega)]
    simp only [List.reverse_nil, List.nil_append, List.map_cons, Bool.false_eq_true, if_false]
    have hallt : ((canonT x :: r.map canonT).all fun y => y.tag == (canonT x).tag) = true := by
      rw [List.all_eq_true]
      intro y hy
      have hxt : (canonT x).tag = e := by rw [canon_tag]; exact (hall x (by simp)).2.1
      rcases List.mem_cons.mp hy with h | h
      · rw [h]; simp
      · obtain ⟨z, hz, rfl⟩ := List.mem_map.mp h
        rw [hxt, canon_tag, (hall z (by simp [hz])).2.1]; simp
    rw [hallt]
    simp only [if_true]
    have hxt : (canonT x).tag = e := by rw [canon_tag]; exact (hall x (by simp)).2.1
    rw [hxt]
    show _ = some (GoMC.Spec.SNBT.canon (.list e (x :: r)), false, k)
    simp only [GoMC.Spec.SNBT.canon, canonList_eq]

/-- the compound production -/
theorem rv_compound (fs : FloatSem) (fm : FmtOracle) (kvs : List (Bytes × NBT))
    (hall : ∀ kv ∈ kvs, RVt fs fm kv.2) : RVt fs fm (.compound kvs) := by
  intro k hk f hf
  obtain ⟨f, rfl⟩ : ∃ f', f = f' + 1 := ⟨f - 1, by omega⟩
  simp only [wtext, List.length_cons, List.length_append, List.length_nil] at hf
  show readValue fs (f + 1) (123 :: (joinElems (wtextKvs fm kvs) ++ [125]) ++ k) = _
  have hcs : (123 :: (joinElems (wtextKvs fm kvs) ++ [125]) ++ k) = 123 :: (joinElems (wtextKvs fm kvs) ++ 125 :: k) := by simp
  rw [hcs]
  unfold readValue
  rw [skipWs_cons 123 _ (by decide)]
  simp only [show ((123 : Byte) == 123) = true by decide, if_true]
  cases kvs with
  | nil =>
    simp only [wtextKvs, joinElems, List.nil_append]
    rw [skipWs_cons 125 _ (by decide)]
    simp only [beq_self_eq_true, if_true]
    rfl
  | cons kv r =>
    obtain ⟨key, v⟩ := kv
    obtain ⟨c, w', hw, hsp, _, h125, _⟩ := head1_str key
    have hsk : skipWs (joinElems (wtextKvs fm ((key, v) :: r)) ++ 125 :: k) =
        c :: (w' ++ ([58] ++ wtext fm v ++ sepJoin (wtextKvs fm r) ++ 125 :: k)) := by
      simp only [wtextKvs]; rw [joinElems_cons, hw]
      simp only [List.cons_append, List.append_assoc, List.nil_append]
      exact skipWs_cons c _ hsp
    rw [hsk]
    simp only [h125, Bool.false_eq_true, if_false]
    rw [readEntries_spec fs fm ((key, v) :: r) (by simp) hall k [] f (by omega)]
    simp only [List.reverse_nil, List.nil_append, Option.map_some]
    show _ = some (GoMC.Spec.SNBT.canon (.compound ((key, v) :: r)), false, k)
    simp only [GoMC.Spec.SNBT.canon, canonKvs_eq]

theorem rv_of_scalar (fs : FloatSem) (fm : FmtOracle) (t : NBT) (w : Bytes) (hw : scalarText fm t = some w)
    (hwt : wtext fm t = w) (hc : canonT t = t) (hf : FloatHyp (semOracle fs) fm t) : RVt fs fm t := by
  intro k hk f hfl
  obtain ⟨f, rfl⟩ : ∃ f', f = f' + 1 := ⟨f - 1, by omega⟩
  rw [hwt, hc]; exact rv_scalar fs fm t w hw hf k hk f

theorem rv_of_array (fs : FloatSem) (fm : FmtOracle) (t : NBT) (ha : ∃ w, arrayText t = some w)
    (hc : canonT t = t) : RVt fs fm t := by
  intro k hk f hfl
  obtain ⟨f, rfl⟩ : ∃ f', f = f' + 1 := ⟨f - 1, by omega⟩
  rw [hc]; exact rv_array fs fm t ha k f

mutual
  /-- the tree induction for the grammar reader -/
  theorem RV_tree (fs : FloatSem) (fm : FmtOracle) : (t : NBT) → t.WF → FloatHypT (semOracle fs) fm t → RVt fs fm t
    | .byte v, _, _ => rv_of_scalar fs fm (.byte v) _ rfl rfl rfl trivial
    | .short v, _, _ => rv_of_scalar fs fm (.short v) _ rfl rfl rfl trivial
    | .int v, _, _ => rv_of_scalar fs fm (.int v) _ rfl rfl rfl trivial
    | .long v, _, _ => rv_of_scalar fs fm (.long v) _ rfl rfl rfl trivial
    | .float b, _, hf => rv_of_scalar fs fm (.float b) _ rfl rfl rfl hf
    | .double b, _, hf => rv_of_scalar fs fm (.double b) _ rfl rfl rfl hf
    | .string s, _, _ => rv_of_scalar fs fm (.string s) _ rfl rfl rfl trivial
    | .byteArray xs, _, _ => rv_of_array fs fm (.byteArray xs) ⟨_, rfl⟩ rfl
    | .intArray xs, _, _ => rv_of_array fs fm (.intArray xs) ⟨_, rfl⟩ rfl
    | .longArray xs, _, _ => rv_of_array fs fm (.longArray xs) ⟨_, rfl⟩ rfl
    | .list e xs, hwf, hf => rv_list fs fm e xs (RV_list fs fm xs e hwf.2.2.2 hf)
    | .compound kvs, hwf, hf => rv_compound fs fm kvs (RV_kvs fs fm kvs hwf hf)
  theorem RV_list (fs : FloatSem) (fm : FmtOracle) : (xs : List NBT) → (e : BitVec 8) → NBT.WFList e xs →
      FloatHypList (semOracle fs) fm xs → ∀ y ∈ xs, RVt fs fm y ∧ y.tag = e ∧ Head1 (wtext fm y)
    | [], _, _, _ => fun y h => by cases h
    | x :: r, e, hwf, hf => fun y hy => by
      rcases List.mem_cons.mp hy with h | h
      · rw [h]; exact ⟨RV_tree fs fm x hwf.2.1 hf.1, hwf.1, head1_wtext _ fm x hf.1⟩
      · exact RV_list fs fm r e hwf.2.2 hf.2 y h
  theorem RV_kvs (fs : FloatSem) (fm : FmtOracle) : (kvs : List (Bytes × NBT)) → NBT.WFKvs kvs →
      FloatHypKvs (semOracle fs) fm kvs → ∀ kv ∈ kvs, RVt fs fm kv.2
    | [], _, _ => fun kv h => by cases h
    | (k, v) :: r, hwf, hf => fun kv hkv => by
      rcases List.mem_cons.mp hkv with h | h
      · rw [h]; exact RV_tree fs fm v hwf.2.1 hf.1
      · exact RV_kvs fs fm r hwf.2.2 hf.2 kv h
end

mutual
  theorem fits_canon : (t : NBT) → t.WF → GoMC.Spec.SNBT.fits (canonT t) = true
    | .byte _, _ => rfl
    | .short _, _ => rfl
    | .int _, _ => rfl
    | .long _, _ => rfl
    | .float _, _ => rfl
    | .double _, _ => rfl
    | .string s, h => by
      have h' : s.length < 65536 := h
      simp [canonT, GoMC.Spec.SNBT.canon, GoMC.Spec.SNBT.fits, h']
    | .byteArray _, _ => rfl
    | .intArray _, _ => rfl
    | .longArray _, _ => rfl
    | .list e [], _ => rfl
    | .list e (x :: r), hwf => by
      have h1 := fits_canon x hwf.2.2.2.2.1
      have h2 := fitsList_canon r e hwf.2.2.2.2.2
      show GoMC.Spec.SNBT.fits (.list e (GoMC.Spec.SNBT.canon x :: GoMC.Spec.SNBT.canon.canonList r)) = true
      simp only [GoMC.Spec.SNBT.fits, GoMC.Spec.SNBT.fits.fitsList]
      simp only [canonT] at h1
      rw [h1, h2]; rfl
    | .compound kvs, hwf => by
      have := fitsKvs_canon kvs hwf
      show GoMC.Spec.SNBT.fits (.compound (GoMC.Spec.SNBT.canon.canonKvs kvs)) = true
      simp only [GoMC.Spec.SNBT.fits]; exact this
  theorem fitsList_canon : (xs : List NBT) → (e : BitVec 8) → NBT.WFList e xs →
      GoMC.Spec.SNBT.fits.fitsList (GoMC.Spec.SNBT.canon.canonList xs) = true
    | [], _, _ => rfl
    | x :: r, e, hwf => by
      have h1 := fits_canon x hwf.2.1
      have h2 := fitsList_canon r e hwf.2.2
      simp only [canonT] at h1
      simp only [GoMC.Spec.SNBT.canon.canonList, GoMC.Spec.SNBT.fits.fitsList, h1, h2]; rfl
  theorem fitsKvs_canon : (kvs : List (Bytes × NBT)) → NBT.WFKvs kvs →
      GoMC.Spec.SNBT.fits.fitsKvs (GoMC.Spec.SNBT.canon.canonKvs kvs) = true
    | [], _ => rfl
    | (k, v) :: r, hwf => by
      have h0 : k.length < 65536 := hwf.1
      have h1 := fits_canon v hwf.2.1
      have h2 := fitsKvs_canon r hwf.2.2
      simp only [canonT] at h1
      simp [GoMC.Spec.SNBT.canon.canonKvs, GoMC.Spec.SNBT.fits.fitsKvs, h0, h1, h2]
end

/-- the grammar reader reads the writer's text of every well-formed tree as that tree (canonical empty lists) -/
theorem read_wtext (fs : FloatSem) (fm : FmtOracle) (t : NBT) (hwf : t.WF) (hf : FloatHypT (semOracle fs) fm t) :
    GoMC.Spec.SNBT.read fs (wtext fm t) = .ok (canonT t) := by
  have h := RV_tree fs fm t hwf hf [] trivial ((wtext fm t).length + 2) (by omega)
  rw [List.append_nil] at h
  unfold GoMC.Spec.SNBT.read
  rw [h]
  simp [skipWs, fits_canon t hwf]

end GoMC.Model.SNBT
