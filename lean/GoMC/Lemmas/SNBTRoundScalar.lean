/-
  C04_roundtrip, scalars and strings: the walker prints `scalarText`, and `MarshalNBT` of that text gives back the
  payload.
-/
import GoMC.Lemmas.SNBTRound
import GoMC.Lemmas.SNBTWalker
namespace GoMC.Model.SNBT
open GoMC Scanner DState Spec

/-- the text the writer prints for a scalar or string value -/
def scalarText (fm : FmtOracle) : NBT → Option Bytes
  | .byte v => some (formatInt v.toInt ++ [66])
  | .short v => some (formatInt v.toInt ++ [83])
  | .int v => some (formatInt v.toInt)
  | .long v => some (formatInt v.toInt ++ [76])
  | .float b => some (fm.ff32 b ++ [70])
  | .double b => some (fm.ff64 b ++ [68])
  | .string s => some (writeEscapeStr s)
  | _ => none

/-- hypotheses on the `strconv` float functions for the float in `t` (none for other values): the printed text has
the 'f' shape and parses back to the same bits -/
def FloatHyp (fo : FloatOracle) (fm : FmtOracle) : NBT → Prop
  | .float b => FloatText (fm.ff32 b) ∧ fo.pf32 (fm.ff32 b) = some b
  | .double b => FloatText (fm.ff64 b) ∧ fo.pf64 (fm.ff64 b) = some b
  | _ => True

theorem toInt_range {w : Nat} (hw : 0 < w) (v : BitVec w) :
    -((2 : Int) ^ (w - 1)) ≤ v.toInt ∧ v.toInt < (2 : Int) ^ (w - 1) := by
  have h1 := BitVec.toInt_lt (x := v)
  have h2 := BitVec.le_toInt (x := v)
  have : (2 : Int) ^ w = 2 * 2 ^ (w - 1) := by
    obtain ⟨k, rfl⟩ : ∃ k, w = k + 1 := ⟨w - 1, by omega⟩
    simp [Int.pow_succ, Int.mul_comm]
  constructor <;> omega

theorem parseInt_toInt {w : Nat} (hw : 0 < w) (v : BitVec w) : parseInt w (formatInt v.toInt) = some v.toInt := by
  rw [parseInt_formatInt]
  have := toInt_range hw v
  simp [this.1, this.2]

/-- text → binary for scalars and strings: the text the writer prints for `t` is parsed to `encPayload t` -/
theorem marshal_scalar (fo : FloatOracle) (fm : FmtOracle) (t : NBT) (w : Bytes) (hw : scalarText fm t = some w)
    (hf : FloatHyp fo fm t) (hwf : t.WF) (hlen : ∀ s, t = .string s → s.length < 2 ^ 15) :
    marshal fo w = .ok (encPayload t) := by
  cases t with
  | byte v =>
    simp only [scalarText, Option.some.injEq] at hw; subst hw
    have hp := parseLiteral_int_suffix fo v.toInt 66 (Or.inl rfl)
    simp only [if_true, parseInt_toInt (by decide : 0 < 8) v, Option.map_some] at hp
    rw [marshal_tok fo _ (isTok_int _ _ (Or.inr (Or.inl rfl))) _ _ hp rfl]
    simp [litPayload, encPayload]
  | short v =>
    simp only [scalarText, Option.some.injEq] at hw; subst hw
    have hp := parseLiteral_int_suffix fo v.toInt 83 (Or.inr (Or.inl rfl))
    simp only [show ¬ ((83 : Byte) = 66) by decide, if_false, if_true, parseInt_toInt (by decide : 0 < 16) v,
      Option.map_some] at hp
    rw [marshal_tok fo _ (isTok_int _ _ (Or.inr (Or.inr (Or.inl rfl)))) _ _ hp rfl]
    simp [litPayload, encPayload, be16]
  | int v =>
    simp only [scalarText, Option.some.injEq] at hw; subst hw
    have hp := parseLiteral_int_plain fo v.toInt
    simp only [parseInt_toInt (by decide : 0 < 32) v, Option.map_some] at hp
    rw [marshal_tok fo _ (by simpa using isTok_int v.toInt [] (Or.inl rfl)) _ _ hp rfl]
    simp [litPayload, encPayload, be32]
  | long v =>
    simp only [scalarText, Option.some.injEq] at hw; subst hw
    have hp := parseLiteral_int_suffix fo v.toInt 76 (Or.inr (Or.inr (Or.inl rfl)))
    simp only [show ¬ ((76 : Byte) = 66) by decide, show ¬ ((76 : Byte) = 83) by decide, if_false, if_true,
      parseInt_toInt (by decide : 0 < 64) v, Option.map_some] at hp
    rw [marshal_tok fo _ (isTok_int _ _ (Or.inr (Or.inr (Or.inr (Or.inl rfl))))) _ _ hp rfl]
    simp [litPayload, encPayload, be64]
  | float b =>
    simp only [scalarText, Option.some.injEq] at hw; subst hw
    obtain ⟨hft, hpf⟩ := hf
    have hp := parseLiteral_float fo _ hft 70 (Or.inl rfl)
    simp only [if_true, hpf, Option.map_some] at hp
    rw [marshal_tok fo _ (isTok_float _ hft 70 (Or.inl rfl)) _ _ hp rfl]
    simp [litPayload, encPayload, be32]
  | double b =>
    simp only [scalarText, Option.some.injEq] at hw; subst hw
    obtain ⟨hft, hpf⟩ := hf
    have hp := parseLiteral_float fo _ hft 68 (Or.inr rfl)
    simp only [show ¬ ((68 : Byte) = 70) by decide, if_false, hpf, Option.map_some] at hp
    rw [marshal_tok fo _ (isTok_float _ hft 68 (Or.inr rfl)) _ _ hp rfl]
    simp [litPayload, encPayload, be64]
  | string s =>
    simp only [scalarText, Option.some.injEq] at hw; subst hw
    have hl := hlen s rfl
    rw [marshal_tok fo _ (isTok_str s) _ _ (parseLiteral_writeEscapeStr fo s)
      (litOk_str s hl)]
    simp [litPayload, encPayload, encString]
  | _ => simp [scalarText] at hw



theorem beBytes_length (k n : Nat) : (beBytes k n).length = k := by
  induction k with
  | zero => rfl
  | succ k ih => simp [beBytes, ih]

theorem beNat_beBytes (k n : Nat) : beNat (beBytes k n) = n % 256 ^ k := by
  induction k with
  | zero => simp [beBytes, beNat, Nat.mod_one]
  | succ k ih =>
    simp only [beBytes, beNat, beBytes_length, ih, BitVec.toNat_ofNat]
    have h256 : (2 : Nat) ^ 8 = 256 := by decide
    rw [h256, Nat.mod_pow_succ, Nat.mul_comm (256 ^ k)]
    omega

theorem readFull_prefix (s : Stream) (bs rest : Bytes) (hs : s.flat = bs ++ rest) :
    Rd.readFull bs.length s = (Res.ok bs, s.drop bs.length) := by
  unfold Rd.readFull
  rw [hs]
  simp

/-- reading back a big-endian `8k`-bit value as a signed integer -/
theorem readIntBE_be (k : Nat) (hk : 0 < k) (v : BitVec (8 * k)) (s : Stream) (rest : Bytes)
    (hs : s.flat = beBytes k v.toNat ++ rest) : readIntBE k s = (Res.ok v.toInt, s.drop k) := by
  unfold readIntBE
  have := readFull_prefix s (beBytes k v.toNat) rest hs
  rw [beBytes_length] at this
  rw [Rd.bind_ok this]
  have hb : beNat (beBytes k v.toNat) = v.toNat := by
    rw [beNat_beBytes]
    have : (256 : Nat) ^ k = 2 ^ (8 * k) := by rw [Nat.pow_mul]
    rw [this]
    exact Nat.mod_eq_of_lt v.isLt
  simp only [Rd.pure_apply, hb]
  congr 1
  rw [BitVec.toInt_eq_toNat_cond]
  have hp : (2 : Nat) ^ (8 * k) = 2 * 2 ^ (8 * k - 1) := by
    obtain ⟨j, hj⟩ : ∃ j, 8 * k = j + 1 := ⟨8 * k - 1, by omega⟩
    rw [hj]; simp [Nat.pow_succ, Nat.mul_comm]
  by_cases h : 2 * v.toNat < 2 ^ (8 * k)
  · have : ¬ (v.toNat ≥ 2 ^ (8 * k - 1)) := by omega
    simp [h, this]
  · have : v.toNat ≥ 2 ^ (8 * k - 1) := by omega
    simp only [h, this, if_true, if_false, ge_iff_le]
    simp



theorem readByte_cons (s : Stream) (b : Byte) (rest : Bytes) (hs : s.flat = b :: rest) :
    Rd.readByte s = (Res.ok b, s.drop 1) := by
  unfold Rd.readByte; rw [hs]

/-- `readString` on `uint16 length ++ bytes` (length < 2^15: Go reads it as a signed int16) -/
theorem readString_ok (str : Bytes) (hl : str.length < 2 ^ 15) (s : Stream) (rest : Bytes)
    (hs : s.flat = encString str ++ rest) : ∃ s', readString s = (Res.ok str, s') ∧ s'.flat = rest := by
  have hs' : s.flat = beBytes 2 (BitVec.ofNat 16 str.length).toNat ++ (str ++ rest) := by
    rw [hs]
    simp only [encString, List.append_assoc, BitVec.toNat_ofNat]
    rw [Nat.mod_eq_of_lt (by omega)]
  have h1 := readIntBE_be 2 (by decide) (BitVec.ofNat 16 str.length) s (str ++ rest) hs'
  have hint : (BitVec.ofNat 16 str.length).toInt = (str.length : Int) := by
    rw [BitVec.toInt_eq_toNat_cond]
    simp only [BitVec.toNat_ofNat]
    rw [Nat.mod_eq_of_lt (by omega)]
    have : 2 * str.length < 2 ^ 16 := by omega
    simp [this]
  rw [hint] at h1
  unfold readString
  rw [Rd.bind_ok h1]
  have hnn : ¬ ((str.length : Int) < 0) := by omega
  simp only [hnn, if_false]
  have hlen2 : (encString str).length = 2 + str.length := by simp [encString, beBytes_length]
  have hfl : (s.drop 2).flat = str ++ rest := by
    rw [Stream.flat_drop, hs', List.drop_append_of_le_length (by simp [beBytes_length])]
    simp [beBytes_length]
  by_cases h0 : str.length = 0
  · have : str = [] := List.length_eq_zero_iff.mp h0
    subst this
    refine ⟨s.drop 2, by simp, by simpa using hfl⟩
  · have hpos : (str.length : Int) > 0 := by omega
    simp only [hpos, if_true, Int.toNat_natCast]
    rw [readFull_prefix (s.drop 2) str rest hfl]
    exact ⟨_, rfl, by rw [Stream.flat_drop, hfl]; simp⟩

/-- binary → text for scalars and strings: the walker prints `scalarText` and consumes exactly the payload
(strings shorter than 2^15 bytes: Go reads the length as a signed 16-bit integer) -/
theorem walker_scalar (fm : FmtOracle) (t : NBT) (w : Bytes) (hw : scalarText fm t = some w)
    (hlen : ∀ s, t = .string s → s.length < 2 ^ 15) (f : Nat) (s : Stream) (rest : Bytes)
    (hs : s.flat = encPayload t ++ rest) :
    ∃ s', encode fm (f + 1) t.tag s = (Res.ok w, s') ∧ s'.flat = rest := by
  have hdrop : ∀ n, n = (encPayload t).length → (s.drop n).flat = rest := by
    intro n hn; rw [Stream.flat_drop, hs, hn, List.drop_left]
  cases t with
  | byte v =>
    simp only [scalarText, Option.some.injEq] at hw; subst hw
    have := readByte_cons s v rest (by simpa [encPayload] using hs)
    unfold encode
    simp only [NBT.tag, NBT.tagByte, show (1 : BitVec 8).toNat = 1 from rfl]
    rw [Rd.bind_ok this]
    exact ⟨_, rfl, hdrop 1 (by simp [encPayload])⟩
  | short v =>
    simp only [scalarText, Option.some.injEq] at hw; subst hw
    have := readIntBE_be 2 (by decide) v s rest (by simpa [encPayload, be16] using hs)
    unfold encode
    simp only [NBT.tag, NBT.tagShort, show (2 : BitVec 8).toNat = 2 from rfl]
    rw [Rd.bind_ok this]
    exact ⟨_, rfl, hdrop 2 (by simp [encPayload, be16, beBytes_length])⟩
  | int v =>
    simp only [scalarText, Option.some.injEq] at hw; subst hw
    have := readIntBE_be 4 (by decide) v s rest (by simpa [encPayload, be32] using hs)
    unfold encode
    simp only [NBT.tag, NBT.tagInt, show (3 : BitVec 8).toNat = 3 from rfl]
    rw [Rd.bind_ok this]
    exact ⟨_, rfl, hdrop 4 (by simp [encPayload, be32, beBytes_length])⟩
  | long v =>
    simp only [scalarText, Option.some.injEq] at hw; subst hw
    have := readIntBE_be 8 (by decide) v s rest (by simpa [encPayload, be64] using hs)
    unfold encode
    simp only [NBT.tag, NBT.tagLong, show (4 : BitVec 8).toNat = 4 from rfl]
    rw [Rd.bind_ok this]
    exact ⟨_, rfl, hdrop 8 (by simp [encPayload, be64, beBytes_length])⟩
  | float b =>
    simp only [scalarText, Option.some.injEq] at hw; subst hw
    have := readFull_prefix s (beBytes 4 b.toNat) rest (by simpa [encPayload, be32] using hs)
    rw [beBytes_length] at this
    unfold encode
    simp only [NBT.tag, NBT.tagFloat, show (5 : BitVec 8).toNat = 5 from rfl]
    rw [Rd.bind_ok this]
    have hb : BitVec.ofNat 32 (beNat (beBytes 4 b.toNat)) = b := by
      rw [beNat_beBytes]
      apply BitVec.eq_of_toNat_eq
      simp
      have := b.isLt; omega
    simp only [Rd.pure_apply, hb]
    exact ⟨_, rfl, hdrop 4 (by simp [encPayload, be32, beBytes_length])⟩
  | double b =>
    simp only [scalarText, Option.some.injEq] at hw; subst hw
    have := readFull_prefix s (beBytes 8 b.toNat) rest (by simpa [encPayload, be64] using hs)
    rw [beBytes_length] at this
    unfold encode
    simp only [NBT.tag, NBT.tagDouble, show (6 : BitVec 8).toNat = 6 from rfl]
    rw [Rd.bind_ok this]
    have hb : BitVec.ofNat 64 (beNat (beBytes 8 b.toNat)) = b := by
      rw [beNat_beBytes]
      apply BitVec.eq_of_toNat_eq
      simp
      have := b.isLt; omega
    simp only [Rd.pure_apply, hb]
    exact ⟨_, rfl, hdrop 8 (by simp [encPayload, be64, beBytes_length])⟩
  | string str =>
    simp only [scalarText, Option.some.injEq] at hw; subst hw
    obtain ⟨s', h1, h2⟩ := readString_ok str (hlen str rfl) s rest (by simpa [encPayload] using hs)
    unfold encode
    simp only [NBT.tag, NBT.tagString, show (8 : BitVec 8).toNat = 8 from rfl]
    rw [Rd.bind_ok h1]
    exact ⟨s', rfl, h2⟩
  | _ => simp [scalarText] at hw


end GoMC.Model.SNBT
