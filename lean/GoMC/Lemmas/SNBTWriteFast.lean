/-
  The walker the driver runs (`Model/SNBTWriteFast.lean`: plain byte string, no accumulators) computes exactly what
  the model `Model/SNBTWrite.lean` computes: same result, same bytes left — for every tag, fuel and source.
-/
import GoMC.Model.SNBTWriteFast
namespace GoMC.Model.SNBT
open GoMC

/-- `q` on the content of a source is `p` on the source -/
def WSim {α} (p : Rd α) (q : RB α) : Prop := ∀ s : Stream, q s.flat = ((p s).1, (p s).2.flat)

theorem RB.bind_apply {α β} (q : RB α) (g : α → RB β) (bs : Bytes) :
    (q >>= g) bs = match q bs with
      | (Res.ok a, r) => g a r
      | (Res.err, r) => (Res.err, r)
      | (Res.panic, r) => (Res.panic, r) := rfl

theorem RB.pure_apply {α} (a : α) (bs : Bytes) : (Pure.pure a : RB α) bs = (Res.ok a, bs) := rfl

theorem RB.bind_assoc {α β γ} (q : RB α) (g : α → RB β) (h : β → RB γ) :
    (q >>= g) >>= h = q >>= fun a => g a >>= h := by
  funext bs
  simp only [RB.bind_apply]
  rcases hq : q bs with ⟨r, rest⟩
  cases r <;> rfl

theorem RB.pure_bind {α β} (a : α) (g : α → RB β) : (Pure.pure a >>= g) = g a := by
  funext bs; rfl

theorem wsim_pure {α} (a : α) : WSim (Pure.pure a : Rd α) (Pure.pure a : RB α) := fun _ => rfl

theorem wsim_fail {α} : WSim (Rd.fail : Rd α) (RB.fail : RB α) := fun _ => rfl
theorem wsim_crash {α} : WSim (Rd.crash : Rd α) (RB.crash : RB α) := fun _ => rfl

theorem wsim_bind {α β} {p : Rd α} {q : RB α} {f : α → Rd β} {g : α → RB β} (h : WSim p q)
    (hf : ∀ a, WSim (f a) (g a)) : WSim (p >>= f) (q >>= g) := by
  intro s
  rw [RB.bind_apply, Rd.bind_apply, h s]
  rcases hp : p s with ⟨r, s'⟩
  cases r with
  | ok a => exact hf a s'
  | err => rfl
  | panic => rfl

theorem wsim_ite {α} (c : Prop) [Decidable c] {p1 p2 : Rd α} {q1 q2 : RB α} (h1 : WSim p1 q1) (h2 : WSim p2 q2) :
    WSim (if c then p1 else p2) (if c then q1 else q2) := by
  by_cases h : c
  · rw [if_pos h, if_pos h]; exact h1
  · rw [if_neg h, if_neg h]; exact h2

theorem wsim_readByte : WSim Rd.readByte RB.readByte := by
  intro s
  unfold Rd.readByte RB.readByte
  cases h : s.flat with
  | nil => simp
  | cons b r => simp [h]

theorem wsim_readFull (n : Nat) : WSim (Rd.readFull n) (RB.readFull n) := by
  intro s
  unfold Rd.readFull RB.readFull
  by_cases h : n ≤ s.flat.length
  · simp [h]
  · simp [h]

theorem wsim_readIntBE (k : Nat) : WSim (readIntBE k) (readIntBEB k) := by
  unfold readIntBE readIntBEB
  exact wsim_bind (wsim_readFull k) (fun _ => wsim_pure _)

theorem wsim_readString : WSim readString readStringB := by
  unfold readString readStringB
  refine wsim_bind (wsim_readIntBE 2) (fun n => ?_)
  exact wsim_ite _ wsim_fail (wsim_ite _ (wsim_readFull _) (wsim_pure _))

theorem wsim_byteLoop : ∀ (n : Nat) (first : Bool) (acc : Bytes),
    WSim (byteLoop n first acc) (byteLoopB n first >>= fun r => pure (acc ++ r)) := by
  intro n
  induction n with
  | zero =>
    intro first acc s
    simp [byteLoop, byteLoopB, RB.bind_apply, RB.pure_apply]
  | succ n ih =>
    intro first acc
    unfold byteLoop byteLoopB
    rw [RB.bind_assoc]
    refine wsim_bind wsim_readByte (fun b => ?_)
    have := ih false (acc ++ sepIf first ++ formatInt (signed8 b) ++ [66])
    rw [RB.bind_assoc]
    have e : (fun a => (Pure.pure (sepIf first ++ formatInt (signed8 b) ++ [66] ++ a) : RB Bytes) >>= fun r => pure (acc ++ r)) =
        fun r => (pure ((acc ++ sepIf first ++ formatInt (signed8 b) ++ [66]) ++ r) : RB Bytes) := by
      funext a; rw [RB.pure_bind]; simp [List.append_assoc]
    rw [e]; exact this

theorem wsim_numLoop (k : Nat) (suf : Byte) : ∀ (n : Nat) (first : Bool) (acc : Bytes),
    WSim (numLoop k suf n first acc) (numLoopB k suf n first >>= fun r => pure (acc ++ r)) := by
  intro n
  induction n with
  | zero =>
    intro first acc s
    simp [numLoop, numLoopB, RB.bind_apply, RB.pure_apply]
  | succ n ih =>
    intro first acc
    unfold numLoop numLoopB
    rw [RB.bind_assoc]
    refine wsim_bind (wsim_readIntBE k) (fun v => ?_)
    have := ih false (acc ++ sepIf first ++ formatInt v ++ [suf])
    rw [RB.bind_assoc]
    have e : (fun a => (Pure.pure (sepIf first ++ formatInt v ++ [suf] ++ a) : RB Bytes) >>= fun r => pure (acc ++ r)) =
        fun r => (pure ((acc ++ sepIf first ++ formatInt v ++ [suf]) ++ r) : RB Bytes) := by
      funext a; rw [RB.pure_bind]; simp [List.append_assoc]
    rw [e]; exact this

/-- a loop started with the empty accumulator -/
theorem wsim_nil {p : Rd Bytes} {q : RB Bytes} (h : WSim p (q >>= fun r => pure ([] ++ r))) : WSim p q := by
  intro s
  have := h s
  rw [RB.bind_apply] at this
  rcases hq : q s.flat with ⟨r, rest⟩
  rw [hq] at this
  cases r <;> simpa [RB.pure_apply] using this


theorem wsim_all (fo : FmtOracle) : ∀ f : Nat,
    (∀ tag, WSim (encode fo f tag) (encodeB fo f tag)) ∧
    (∀ t n first acc, WSim (wListLoop fo f t n first acc) (wListLoopB fo f t n first >>= fun r => pure (acc ++ r))) ∧
    (∀ first acc, WSim (wCompLoop fo f first acc) (wCompLoopB fo f first >>= fun r => pure (acc ++ r))) := by
  intro f
  induction f with
  | zero =>
    refine ⟨fun tag => ?_, fun t n first acc => ?_, fun first acc => ?_⟩
    · unfold encode encodeB; exact wsim_crash
    · unfold wListLoop wListLoopB
      by_cases h : n = 0
      · rw [if_pos h, if_pos h]
        intro s; simp [RB.bind_apply, RB.pure_apply]
      · rw [if_neg h, if_neg h]
        intro s; rfl
    · unfold wCompLoop wCompLoopB
      intro s; rfl
  | succ f ih =>
    obtain ⟨hE, hL, hC⟩ := ih
    refine ⟨fun tag => ?_, fun t n first acc => ?_, fun first acc => ?_⟩
    · unfold encode encodeB
      generalize tag.toNat = k
      split
      all_goals (try dsimp only)
      all_goals first
        | exact wsim_bind wsim_readByte (fun _ => wsim_pure _)
        | exact wsim_bind wsim_readString (fun _ => wsim_pure _)
        | exact wsim_bind (wsim_readIntBE _) (fun _ => wsim_pure _)
        | exact wsim_bind (wsim_readFull _) (fun _ => wsim_pure _)
        | exact (wsim_bind (wsim_readIntBE 4) (fun n => wsim_ite _ wsim_fail
            (wsim_bind (wsim_nil (wsim_byteLoop _ _ [])) (fun _ => wsim_pure _))))
        | exact (wsim_bind (wsim_readIntBE 4) (fun n => wsim_ite _ wsim_fail
            (wsim_bind (wsim_nil (wsim_numLoop 4 73 _ _ [])) (fun _ => wsim_pure _))))
        | exact (wsim_bind (wsim_readIntBE 4) (fun n => wsim_ite _ wsim_fail
            (wsim_bind (wsim_nil (wsim_numLoop 8 76 _ _ [])) (fun _ => wsim_pure _))))
        | exact (wsim_bind wsim_readByte (fun lt => wsim_bind (wsim_readIntBE 4) (fun n =>
            wsim_ite _ wsim_fail (wsim_ite _ wsim_fail (wsim_bind (wsim_nil (hL _ _ _ [])) (fun _ => wsim_pure _))))))
        | exact wsim_nil (hC true [])
        | skip
      -- the default case: the second `match` has no branch for `k` either
      split
      all_goals first
        | exact wsim_fail
        | (exfalso; simp_all)
    · unfold wListLoop wListLoopB
      cases n with
      | zero =>
        intro s; simp [RB.bind_apply, RB.pure_apply]
      | succ n =>
        dsimp only
        rw [RB.bind_assoc]
        refine wsim_bind (hE t) (fun el => ?_)
        have := hL t n false (acc ++ sepIf first ++ el)
        rw [RB.bind_assoc]
        have e : (fun a => (Pure.pure (sepIf first ++ el ++ a) : RB Bytes) >>= fun r => pure (acc ++ r)) =
            fun r => (pure ((acc ++ sepIf first ++ el) ++ r) : RB Bytes) := by
          funext a; rw [RB.pure_bind]; simp [List.append_assoc]
        rw [e]; exact this
    · unfold wCompLoop wCompLoopB
      rw [RB.bind_assoc]
      refine wsim_bind wsim_readByte (fun tt => ?_)
      by_cases hbad : (tt == 0x1f || tt == 0x78) = true
      · rw [if_pos hbad, if_pos hbad]
        intro s; rfl
      rw [if_neg hbad, if_neg hbad, RB.bind_assoc]
      refine wsim_bind (wsim_ite _ (wsim_pure _) wsim_readString) (fun tn => ?_)
      dsimp only
      by_cases h0 : (tt == 0) = true
      · rw [if_pos h0, if_pos h0]
        intro s; simp [RB.bind_apply, RB.pure_apply]
      rw [if_neg h0, if_neg h0, RB.bind_assoc]
      refine wsim_bind (hE tt) (fun v => ?_)
      have := hC false (acc ++ (if first = true then [123] else if (tt != 0) = true then [44] else []) ++
        writeEscapeStr tn ++ [58] ++ v)
      rw [RB.bind_assoc]
      have e : (fun a => (Pure.pure ((if first = true then [123] else if (tt != 0) = true then [44] else []) ++
            writeEscapeStr tn ++ [58] ++ v ++ a) : RB Bytes) >>= fun r => pure (acc ++ r)) =
          fun r => (pure ((acc ++ (if first = true then [123] else if (tt != 0) = true then [44] else []) ++
            writeEscapeStr tn ++ [58] ++ v) ++ r) : RB Bytes) := by
        funext a; rw [RB.pure_bind]; simp [List.append_assoc]
      rw [e]; exact this

/-- **the driver's walker is the model's walker** -/
theorem unmarshalNBTB_eq (fo : FmtOracle) (tag : Byte) (data : Bytes) :
    unmarshalNBTB fo tag data =
      ((unmarshalNBT fo tag (Stream.ofBytes data)).1, (unmarshalNBT fo tag (Stream.ofBytes data)).2.flat) := by
  unfold unmarshalNBTB unmarshalNBT
  by_cases h : (tag == 0) = true
  · rw [if_pos h, if_pos h]
    simp
  · rw [if_neg h, if_neg h]
    have := (wsim_all fo (walkFuel data.length)).1 tag (Stream.ofBytes data)
    simp only [Stream.flat_ofBytes] at this ⊢
    exact this

theorem rawStringB_eq (fo : FmtOracle) (tag : Byte) (data : Bytes) : rawStringB fo tag data = rawString fo tag data := by
  unfold rawStringB rawString
  by_cases h : (tag == 0) = true
  · rw [if_pos h, if_pos h]
  · rw [if_neg h, if_neg h]
    have := (wsim_all fo (walkFuel data.length)).1 tag (Stream.ofBytes data)
    simp only [Stream.flat_ofBytes] at this
    rw [this]
    rfl

end GoMC.Model.SNBT
