/-
  Spec sanity for `GoMC.Spec.NBT` (used by C01–C04, C13, C17): the independent reader parses every
  well-formed encoding back to the tree it came from and leaves what follows untouched (`parse_enc`,
  `parseDoc_enc`); hence the grammar is unambiguous and prefix-free (`enc_injective`, `enc_prefix_free`).
-/
import GoMC.Spec.NBT
namespace GoMC.Spec
open GoMC

theorem take?_append (xs rest : Bytes) : take? xs.length (xs ++ rest) = some (xs, rest) := by
  unfold take?
  simp

theorem beBytes_length (k n : Nat) : (beBytes k n).length = k := by
  induction k with
  | zero => rfl
  | succ k ih => simp [beBytes, ih]

theorem beVal_beBytes (k n : Nat) : beVal (beBytes k n) = n % 256 ^ k := by
  induction k with
  | zero => simp [beBytes, beVal, Nat.mod_one]
  | succ k ih =>
    simp only [beBytes, beVal, beBytes_length, ih, BitVec.toNat_ofNat]
    have h256 : (2:Nat)^8 = 256 := by decide
    rw [h256, Nat.mod_pow_succ, Nat.add_comm, Nat.mul_comm]

theorem beVal_lt (bs : Bytes) : beVal bs < 256 ^ bs.length := by
  induction bs with
  | nil => simp [beVal]
  | cons b bs ih =>
    simp only [beVal, List.length_cons, Nat.pow_succ]
    have := b.isLt
    have h256 : (2:Nat)^8 = 256 := by decide
    rw [h256] at this
    have : b.toNat * 256 ^ bs.length ≤ 255 * 256 ^ bs.length := Nat.mul_le_mul_right _ (by omega)
    omega

theorem pow256_2 : (256:Nat) ^ 2 = 2 ^ 16 := by decide
theorem pow256_4 : (256:Nat) ^ 4 = 2 ^ 32 := by decide
theorem pow256_8 : (256:Nat) ^ 8 = 2 ^ 64 := by decide

theorem take?_be (k n : Nat) (rest : Bytes) : take? k (beBytes k n ++ rest) = some (beBytes k n, rest) := by
  have := take?_append (beBytes k n) rest
  rwa [beBytes_length] at this

theorem readCount_enc (n : Nat) (h : n < 2 ^ 31) (rest : Bytes) :
    readCount (beBytes 4 n ++ rest) = some (n, rest) := by
  unfold readCount
  rw [take?_be]
  simp only [beVal_beBytes]
  have : n % 256 ^ 4 = n := Nat.mod_eq_of_lt (by omega)
  rw [this]
  simp [h]

theorem readString_enc (s : Bytes) (h : s.length < 2 ^ 16) (rest : Bytes) :
    readString (encString s ++ rest) = some (s, rest) := by
  unfold readString encString
  rw [List.append_assoc, take?_be]
  simp only [beVal_beBytes]
  have : s.length % 256 ^ 2 = s.length := Nat.mod_eq_of_lt (by omega)
  rw [this]
  exact take?_append s rest

theorem readNums_enc (k : Nat) (xs : List Nat) (hx : ∀ x ∈ xs, x < 256 ^ k) (rest : Bytes) :
    readNums k xs.length ((xs.map (beBytes k)).flatten ++ rest) = some (xs, rest) := by
  induction xs with
  | nil => simp [readNums]
  | cons x xs ih =>
    simp only [List.map_cons, List.flatten_cons, List.length_cons, readNums, List.append_assoc]
    rw [take?_be]
    simp only
    rw [ih (fun y hy => hx y (List.mem_cons_of_mem _ hy))]
    simp only [beVal_beBytes]
    rw [Nat.mod_eq_of_lt (hx x (List.mem_cons_self))]

theorem NBT.tag_ne_end (t : NBT) : t.tag ≠ NBT.tagEnd := by
  cases t <;> simp [NBT.tag, NBT.tagEnd, NBT.tagByte, NBT.tagShort, NBT.tagInt, NBT.tagLong, NBT.tagFloat,
    NBT.tagDouble, NBT.tagByteArray, NBT.tagString, NBT.tagList, NBT.tagCompound, NBT.tagIntArray, NBT.tagLongArray]

theorem NBT.tag_le (t : NBT) : t.tag.toNat ≤ 12 := by
  cases t <;> simp [NBT.tag, NBT.tagByte, NBT.tagShort, NBT.tagInt, NBT.tagLong, NBT.tagFloat,
    NBT.tagDouble, NBT.tagByteArray, NBT.tagString, NBT.tagList, NBT.tagCompound, NBT.tagIntArray, NBT.tagLongArray]

/-- every entry of a compound takes at least one byte, and the End marker one more -/
theorem encKvs_length (kvs : List (Bytes × NBT)) : kvs.length + 1 ≤ (encKvs kvs).length := by
  induction kvs with
  | nil => simp [encKvs]
  | cons e kvs ih =>
    obtain ⟨k, v⟩ := e
    simp only [encKvs, List.length_cons, List.length_append]
    omega

private theorem ofNat_toNat (w : Nat) (xs : List (BitVec w)) : xs.map (BitVec.ofNat w ∘ BitVec.toNat) = xs := by
  induction xs with
  | nil => rfl
  | cons x xs ih => simp [ih]


/-! #### one lemma per constructor (the recursive facts are hypotheses), then the mutual induction -/

theorem parse_byte (f : Nat) (v : BitVec 8) (rest : Bytes) :
    parsePayload (f + 1) (NBT.byte v).tag (encPayload (.byte v) ++ rest) = some (.byte v, rest) := by
  rw [parsePayload.eq_def]
  have h : (1 : BitVec 8).toNat = 1 := rfl
  simp only [NBT.tag, NBT.tagByte, encPayload, h]
  simp [take?, beVal]

theorem parse_short (f : Nat) (v : BitVec 16) (rest : Bytes) :
    parsePayload (f + 1) (NBT.short v).tag (encPayload (.short v) ++ rest) = some (.short v, rest) := by
  rw [parsePayload.eq_def]
  have h : (2 : BitVec 8).toNat = 2 := rfl
  simp only [NBT.tag, NBT.tagShort, encPayload, be16, h]
  simp only [take?_be, Option.bind, beVal_beBytes]
  have : v.toNat % 256 ^ 2 = v.toNat := by rw [pow256_2]; exact Nat.mod_eq_of_lt v.isLt
  rw [this]
  simp only [BitVec.ofNat_toNat, BitVec.setWidth_eq]

theorem parse_int (f : Nat) (v : BitVec 32) (rest : Bytes) :
    parsePayload (f + 1) (NBT.int v).tag (encPayload (.int v) ++ rest) = some (.int v, rest) := by
  rw [parsePayload.eq_def]
  have h : (3 : BitVec 8).toNat = 3 := rfl
  simp only [NBT.tag, NBT.tagInt, encPayload, be32, h]
  simp only [take?_be, Option.bind, beVal_beBytes]
  have : v.toNat % 256 ^ 4 = v.toNat := by rw [pow256_4]; exact Nat.mod_eq_of_lt v.isLt
  rw [this]
  simp only [BitVec.ofNat_toNat, BitVec.setWidth_eq]

theorem parse_long (f : Nat) (v : BitVec 64) (rest : Bytes) :
    parsePayload (f + 1) (NBT.long v).tag (encPayload (.long v) ++ rest) = some (.long v, rest) := by
  rw [parsePayload.eq_def]
  have h : (4 : BitVec 8).toNat = 4 := rfl
  simp only [NBT.tag, NBT.tagLong, encPayload, be64, h]
  simp only [take?_be, Option.bind, beVal_beBytes]
  have : v.toNat % 256 ^ 8 = v.toNat := by rw [pow256_8]; exact Nat.mod_eq_of_lt v.isLt
  rw [this]
  simp only [BitVec.ofNat_toNat, BitVec.setWidth_eq]

theorem parse_float (f : Nat) (v : BitVec 32) (rest : Bytes) :
    parsePayload (f + 1) (NBT.float v).tag (encPayload (.float v) ++ rest) = some (.float v, rest) := by
  rw [parsePayload.eq_def]
  have h : (5 : BitVec 8).toNat = 5 := rfl
  simp only [NBT.tag, NBT.tagFloat, encPayload, be32, h]
  simp only [take?_be, Option.bind, beVal_beBytes]
  have : v.toNat % 256 ^ 4 = v.toNat := by rw [pow256_4]; exact Nat.mod_eq_of_lt v.isLt
  rw [this]
  simp only [BitVec.ofNat_toNat, BitVec.setWidth_eq]

theorem parse_double (f : Nat) (v : BitVec 64) (rest : Bytes) :
    parsePayload (f + 1) (NBT.double v).tag (encPayload (.double v) ++ rest) = some (.double v, rest) := by
  rw [parsePayload.eq_def]
  have h : (6 : BitVec 8).toNat = 6 := rfl
  simp only [NBT.tag, NBT.tagDouble, encPayload, be64, h]
  simp only [take?_be, Option.bind, beVal_beBytes]
  have : v.toNat % 256 ^ 8 = v.toNat := by rw [pow256_8]; exact Nat.mod_eq_of_lt v.isLt
  rw [this]
  simp only [BitVec.ofNat_toNat, BitVec.setWidth_eq]

theorem parse_byteArray (f : Nat) (xs : List (BitVec 8)) (rest : Bytes) (hwf : xs.length < 2 ^ 31) :
    parsePayload (f + 1) (NBT.byteArray xs).tag (encPayload (.byteArray xs) ++ rest) = some (.byteArray xs, rest) := by
  rw [parsePayload.eq_def]
  have h : (7 : BitVec 8).toNat = 7 := rfl
  simp only [NBT.tag, NBT.tagByteArray, encPayload, h]
  rw [List.append_assoc, readCount_enc _ hwf]
  simp only [Option.bind, take?_append]

theorem parse_string (f : Nat) (s : Bytes) (rest : Bytes) (hwf : s.length < 2 ^ 16) :
    parsePayload (f + 1) (NBT.string s).tag (encPayload (.string s) ++ rest) = some (.string s, rest) := by
  rw [parsePayload.eq_def]
  have h : (8 : BitVec 8).toNat = 8 := rfl
  simp only [NBT.tag, NBT.tagString, encPayload, h]
  rw [readString_enc _ hwf]
  simp only [Option.bind]

theorem parse_intArray (f : Nat) (xs : List (BitVec 32)) (rest : Bytes) (hwf : xs.length < 2 ^ 31) :
    parsePayload (f + 1) (NBT.intArray xs).tag (encPayload (.intArray xs) ++ rest) = some (.intArray xs, rest) := by
  rw [parsePayload.eq_def]
  have h : (11 : BitVec 8).toNat = 11 := rfl
  simp only [NBT.tag, NBT.tagIntArray, encPayload, h]
  rw [List.append_assoc, readCount_enc _ hwf]
  simp only [Option.bind]
  have hx : ∀ x ∈ xs.map BitVec.toNat, x < 256 ^ 4 := by
    intro x hx
    obtain ⟨y, _, rfl⟩ := List.mem_map.mp hx
    rw [pow256_4]; exact y.isLt
  have := readNums_enc 4 (xs.map BitVec.toNat) hx rest
  simp only [List.length_map, List.map_map] at this
  have he : (List.map (beBytes 4 ∘ BitVec.toNat) xs) = List.map be32 xs := by
    apply List.map_congr_left; intro a _; rfl
  rw [he] at this
  simp only [this, List.map_map, ofNat_toNat]

theorem parse_longArray (f : Nat) (xs : List (BitVec 64)) (rest : Bytes) (hwf : xs.length < 2 ^ 31) :
    parsePayload (f + 1) (NBT.longArray xs).tag (encPayload (.longArray xs) ++ rest) = some (.longArray xs, rest) := by
  rw [parsePayload.eq_def]
  have h : (12 : BitVec 8).toNat = 12 := rfl
  simp only [NBT.tag, NBT.tagLongArray, encPayload, h]
  rw [List.append_assoc, readCount_enc _ hwf]
  simp only [Option.bind]
  have hx : ∀ x ∈ xs.map BitVec.toNat, x < 256 ^ 8 := by
    intro x hx
    obtain ⟨y, _, rfl⟩ := List.mem_map.mp hx
    rw [pow256_8]; exact y.isLt
  have := readNums_enc 8 (xs.map BitVec.toNat) hx rest
  simp only [List.length_map, List.map_map] at this
  have he : (List.map (beBytes 8 ∘ BitVec.toNat) xs) = List.map be64 xs := by
    apply List.map_congr_left; intro a _; rfl
  rw [he] at this
  simp only [this, List.map_map, ofNat_toNat]

theorem parse_list (f : Nat) (e : BitVec 8) (xs : List NBT) (rest : Bytes)
    (hlen : xs.length < 2 ^ 31) (hne : xs = [] ∨ e ≠ NBT.tagEnd) (hle : e.toNat ≤ 12)
    (ih : parseList f e xs.length (encList xs ++ rest) = some (xs, rest)) :
    parsePayload (f + 1) (NBT.list e xs).tag (encPayload (.list e xs) ++ rest) = some (.list e xs, rest) := by
  rw [parsePayload.eq_def]
  have h : (9 : BitVec 8).toNat = 9 := rfl
  simp only [NBT.tag, NBT.tagList, encPayload, h]
  simp only [List.cons_append, List.append_assoc]
  rw [readCount_enc _ hlen]
  simp only [Option.bind]
  have h1 : ¬ e.toNat > 12 := by omega
  have h2 : ¬ (e = NBT.tagEnd ∧ xs.length ≠ 0) := by
    rintro ⟨he, hn⟩
    rcases hne with rfl | hne
    · simp at hn
    · exact hne he
  simp only [h1, h2, if_false, ih]

theorem parse_compound (f : Nat) (kvs : List (Bytes × NBT)) (rest : Bytes)
    (ih : parseKvs f (encKvs kvs ++ rest).length (encKvs kvs ++ rest) = some (kvs, rest)) :
    parsePayload (f + 1) (NBT.compound kvs).tag (encPayload (.compound kvs) ++ rest) = some (.compound kvs, rest) := by
  rw [parsePayload.eq_def]
  have h : (10 : BitVec 8).toNat = 10 := rfl
  simp only [NBT.tag, NBT.tagCompound, encPayload, h]
  simp only [ih, Option.bind]

theorem parseList_cons (fuel : Nat) (e : BitVec 8) (x : NBT) (xs : List NBT) (rest : Bytes)
    (h1 : parsePayload fuel e (encPayload x ++ (encList xs ++ rest)) = some (x, encList xs ++ rest))
    (h2 : parseList fuel e xs.length (encList xs ++ rest) = some (xs, rest)) :
    parseList fuel e (x :: xs).length (encList (x :: xs) ++ rest) = some (x :: xs, rest) := by
  rw [parseList.eq_def]
  simp only [List.length_cons, encList, List.append_assoc]
  simp only [h1, h2]

theorem parseKvs_cons (fuel w : Nat) (k : Bytes) (v : NBT) (kvs : List (Bytes × NBT)) (rest : Bytes)
    (hk : k.length < 2 ^ 16)
    (h1 : parsePayload fuel v.tag (encPayload v ++ (encKvs kvs ++ rest)) = some (v, encKvs kvs ++ rest))
    (h2 : parseKvs fuel w (encKvs kvs ++ rest) = some (kvs, rest)) :
    parseKvs fuel (w + 1) (encKvs ((k, v) :: kvs) ++ rest) = some ((k, v) :: kvs, rest) := by
  rw [parseKvs.eq_def]
  simp only [encKvs, List.cons_append, List.append_assoc]
  simp only [NBT.tag_ne_end v, if_false]
  rw [readString_enc k hk]
  simp only [h1, h2]

theorem depth_pos (t : NBT) : 1 ≤ t.depth := by
  cases t <;> simp [NBT.depth]

mutual
  /-- the reader inverts the encoder on well-formed trees, for any fuel ≥ the nesting depth -/
  theorem parse_enc : ∀ (t : NBT) (fuel : Nat) (rest : Bytes), t.WF → t.depth ≤ fuel →
      parsePayload fuel t.tag (encPayload t ++ rest) = some (t, rest)
    | .byte v, fuel, rest, _, hd => by
      obtain ⟨f, rfl⟩ : ∃ f, fuel = f + 1 := ⟨fuel - 1, by have := depth_pos (.byte v); omega⟩
      exact parse_byte f v rest
    | .short v, fuel, rest, _, hd => by
      obtain ⟨f, rfl⟩ : ∃ f, fuel = f + 1 := ⟨fuel - 1, by have := depth_pos (.short v); omega⟩
      exact parse_short f v rest
    | .int v, fuel, rest, _, hd => by
      obtain ⟨f, rfl⟩ : ∃ f, fuel = f + 1 := ⟨fuel - 1, by have := depth_pos (.int v); omega⟩
      exact parse_int f v rest
    | .long v, fuel, rest, _, hd => by
      obtain ⟨f, rfl⟩ : ∃ f, fuel = f + 1 := ⟨fuel - 1, by have := depth_pos (.long v); omega⟩
      exact parse_long f v rest
    | .float v, fuel, rest, _, hd => by
      obtain ⟨f, rfl⟩ : ∃ f, fuel = f + 1 := ⟨fuel - 1, by have := depth_pos (.float v); omega⟩
      exact parse_float f v rest
    | .double v, fuel, rest, _, hd => by
      obtain ⟨f, rfl⟩ : ∃ f, fuel = f + 1 := ⟨fuel - 1, by have := depth_pos (.double v); omega⟩
      exact parse_double f v rest
    | .byteArray xs, fuel, rest, hwf, hd => by
      obtain ⟨f, rfl⟩ : ∃ f, fuel = f + 1 := ⟨fuel - 1, by have := depth_pos (.byteArray xs); omega⟩
      exact parse_byteArray f xs rest (by simpa [NBT.WF] using hwf)
    | .string s, fuel, rest, hwf, hd => by
      obtain ⟨f, rfl⟩ : ∃ f, fuel = f + 1 := ⟨fuel - 1, by have := depth_pos (.string s); omega⟩
      exact parse_string f s rest (by simpa [NBT.WF] using hwf)
    | .list e xs, fuel, rest, hwf, hd => by
      obtain ⟨f, rfl⟩ : ∃ f, fuel = f + 1 := ⟨fuel - 1, by have := depth_pos (.list e xs); omega⟩
      simp only [NBT.WF] at hwf
      obtain ⟨hlen, hne, hle, hwfl⟩ := hwf
      have hd' : NBT.depthList xs ≤ f := by simp only [NBT.depth] at hd; omega
      exact parse_list f e xs rest hlen hne hle (parseList_enc xs e f rest hwfl hd')
    | .compound kvs, fuel, rest, hwf, hd => by
      obtain ⟨f, rfl⟩ : ∃ f, fuel = f + 1 := ⟨fuel - 1, by have := depth_pos (.compound kvs); omega⟩
      simp only [NBT.WF] at hwf
      have hd' : NBT.depthKvs kvs ≤ f := by simp only [NBT.depth] at hd; omega
      have hw : kvs.length ≤ (encKvs kvs ++ rest).length := by
        have := encKvs_length kvs
        simp only [List.length_append]; omega
      exact parse_compound f kvs rest (parseKvs_enc kvs f _ rest hwf hd' hw)
    | .intArray xs, fuel, rest, hwf, hd => by
      obtain ⟨f, rfl⟩ : ∃ f, fuel = f + 1 := ⟨fuel - 1, by have := depth_pos (.intArray xs); omega⟩
      exact parse_intArray f xs rest (by simpa [NBT.WF] using hwf)
    | .longArray xs, fuel, rest, hwf, hd => by
      obtain ⟨f, rfl⟩ : ∃ f, fuel = f + 1 := ⟨fuel - 1, by have := depth_pos (.longArray xs); omega⟩
      exact parse_longArray f xs rest (by simpa [NBT.WF] using hwf)
  theorem parseList_enc : ∀ (xs : List NBT) (e : BitVec 8) (fuel : Nat) (rest : Bytes),
      NBT.WFList e xs → NBT.depthList xs ≤ fuel →
      parseList fuel e xs.length (encList xs ++ rest) = some (xs, rest)
    | [], e, fuel, rest, _, _ => by
      rw [parseList.eq_def]; simp [encList]
    | x :: xs, e, fuel, rest, hwf, hd => by
      simp only [NBT.WFList] at hwf
      obtain ⟨htag, hwx, hwxs⟩ := hwf
      simp only [NBT.depthList] at hd
      have hdx : x.depth ≤ fuel := by omega
      have hdxs : NBT.depthList xs ≤ fuel := by omega
      have h1 := parse_enc x fuel (encList xs ++ rest) hwx hdx
      rw [htag] at h1
      exact parseList_cons fuel e x xs rest h1 (parseList_enc xs e fuel rest hwxs hdxs)
  theorem parseKvs_enc : ∀ (kvs : List (Bytes × NBT)) (fuel width : Nat) (rest : Bytes),
      NBT.WFKvs kvs → NBT.depthKvs kvs ≤ fuel → kvs.length ≤ width →
      parseKvs fuel width (encKvs kvs ++ rest) = some (kvs, rest)
    | [], fuel, width, rest, _, _, _ => by
      rw [parseKvs.eq_def]; simp [encKvs]
    | (k, v) :: kvs, fuel, width, rest, hwf, hd, hw => by
      simp only [NBT.WFKvs] at hwf
      obtain ⟨hk, hwv, hwkvs⟩ := hwf
      simp only [NBT.depthKvs] at hd
      have hdv : v.depth ≤ fuel := by omega
      have hdk : NBT.depthKvs kvs ≤ fuel := by omega
      obtain ⟨w, rfl⟩ : ∃ w, width = w + 1 := ⟨width - 1, by simp only [List.length_cons] at hw; omega⟩
      have hw' : kvs.length ≤ w := by simp only [List.length_cons] at hw; omega
      exact parseKvs_cons fuel w k v kvs rest hk (parse_enc v fuel (encKvs kvs ++ rest) hwv hdv)
        (parseKvs_enc kvs fuel w rest hwkvs hdk hw')
end


/-! ### documents, unambiguity, prefix-freeness -/

mutual
  theorem depth_le_length : ∀ t : NBT, t.depth ≤ (encPayload t).length
    | .byte _ => by simp [NBT.depth, encPayload]
    | .short _ => by simp [NBT.depth, encPayload, be16, beBytes_length]
    | .int _ => by simp [NBT.depth, encPayload, be32, beBytes_length]
    | .long _ => by simp [NBT.depth, encPayload, be64, beBytes_length]
    | .float _ => by simp [NBT.depth, encPayload, be32, beBytes_length]
    | .double _ => by simp [NBT.depth, encPayload, be64, beBytes_length]
    | .byteArray _ => by simp [NBT.depth, encPayload, beBytes_length]; omega
    | .string _ => by simp [NBT.depth, encPayload, encString, beBytes_length]; omega
    | .list _ xs => by
      have := depthList_le_length xs
      simp only [NBT.depth, encPayload, List.length_cons, List.length_append, beBytes_length]; omega
    | .compound kvs => by
      have := depthKvs_lt_length kvs
      simp only [NBT.depth, encPayload]; omega
    | .intArray _ => by simp [NBT.depth, encPayload, beBytes_length]; omega
    | .longArray _ => by simp [NBT.depth, encPayload, beBytes_length]; omega
  theorem depthList_le_length : ∀ xs : List NBT, NBT.depthList xs ≤ (encList xs).length
    | [] => by simp [NBT.depthList]
    | x :: xs => by
      have := depth_le_length x
      have := depthList_le_length xs
      simp only [NBT.depthList, encList, List.length_append]; omega
  theorem depthKvs_lt_length : ∀ kvs : List (Bytes × NBT), NBT.depthKvs kvs + 1 ≤ (encKvs kvs).length
    | [] => by simp [NBT.depthKvs, encKvs]
    | (k, v) :: kvs => by
      have := depth_le_length v
      have := depthKvs_lt_length kvs
      simp only [NBT.depthKvs, encKvs, List.length_cons, List.length_append]; omega
end

/-- `parsePayload` with the fuel `parseDoc` uses -/
theorem parse_enc_len (t : NBT) (rest : Bytes) (h : t.WF) (n : Nat)
    (hn : (encPayload t).length ≤ n) :
    parsePayload n t.tag (encPayload t ++ rest) = some (t, rest) :=
  parse_enc t n rest h (Nat.le_trans (depth_le_length t) hn)

theorem parseDoc_enc_file (name : Bytes) (t : NBT) (rest : Bytes) (hname : name.length < 2 ^ 16) (h : t.WF) :
    parseDoc .file (encDoc .file name t ++ rest) = some (name, t, rest) := by
  unfold parseDoc encDoc
  simp only [List.cons_append, List.append_assoc]
  rw [readString_enc name hname]
  simp only [Option.bind]
  rw [parse_enc t _ rest h (by
    have := depth_le_length t
    simp only [List.length_cons, List.length_append]; omega)]

theorem parseDoc_enc_network (name : Bytes) (t : NBT) (rest : Bytes) (h : t.WF) :
    parseDoc .network (encDoc .network name t ++ rest) = some ([], t, rest) := by
  unfold parseDoc encDoc
  simp only [List.cons_append]
  rw [parse_enc t _ rest h (by
    have := depth_le_length t
    simp only [List.length_cons, List.length_append]; omega)]
  simp only [Option.bind]

/-- the name a reader reports: the root name in file format, nothing in network format -/
def docName (fmt : Format) (name : Bytes) : Bytes :=
  match fmt with
  | .file => name
  | .network => []

theorem parseDoc_enc (fmt : Format) (name : Bytes) (t : NBT) (rest : Bytes)
    (hname : name.length < 2 ^ 16) (h : t.WF) :
    parseDoc fmt (encDoc fmt name t ++ rest) = some (docName fmt name, t, rest) := by
  cases fmt
  · exact parseDoc_enc_file name t rest hname h
  · exact parseDoc_enc_network name t rest h

/-- payloads of one tag: the encoding determines the tree and where it ends (unambiguous, prefix-free) -/
theorem enc_prefix_free (t₁ t₂ : NBT) (r₁ r₂ : Bytes) (h₁ : t₁.WF) (h₂ : t₂.WF) (htag : t₁.tag = t₂.tag)
    (h : encPayload t₁ ++ r₁ = encPayload t₂ ++ r₂) : t₁ = t₂ ∧ r₁ = r₂ := by
  have e₁ := parse_enc t₁ (max t₁.depth t₂.depth) r₁ h₁ (Nat.le_max_left _ _)
  have e₂ := parse_enc t₂ (max t₁.depth t₂.depth) r₂ h₂ (Nat.le_max_right _ _)
  rw [htag, h, e₂] at e₁
  simp only [Option.some.injEq, Prod.mk.injEq] at e₁
  exact ⟨e₁.1.symm, e₁.2.symm⟩

theorem enc_injective (t₁ t₂ : NBT) (h₁ : t₁.WF) (h₂ : t₂.WF) (htag : t₁.tag = t₂.tag)
    (h : encPayload t₁ = encPayload t₂) : t₁ = t₂ :=
  (enc_prefix_free t₁ t₂ [] [] h₁ h₂ htag (by rw [h])).1

/-- whole documents: the bytes determine root name, tree and the end of the document -/
theorem encDoc_prefix_free (fmt : Format) (n₁ n₂ : Bytes) (t₁ t₂ : NBT) (r₁ r₂ : Bytes)
    (hn₁ : n₁.length < 2 ^ 16) (hn₂ : n₂.length < 2 ^ 16) (h₁ : t₁.WF) (h₂ : t₂.WF)
    (h : encDoc fmt n₁ t₁ ++ r₁ = encDoc fmt n₂ t₂ ++ r₂) :
    docName fmt n₁ = docName fmt n₂ ∧ t₁ = t₂ ∧ r₁ = r₂ := by
  have e₁ := parseDoc_enc fmt n₁ t₁ r₁ hn₁ h₁
  have e₂ := parseDoc_enc fmt n₂ t₂ r₂ hn₂ h₂
  rw [h, e₂] at e₁
  simp only [Option.some.injEq, Prod.mk.injEq] at e₁
  exact ⟨e₁.1.symm, e₁.2.1.symm, e₁.2.2.symm⟩

theorem encDoc_injective (fmt : Format) (n₁ n₂ : Bytes) (t₁ t₂ : NBT)
    (hn₁ : n₁.length < 2 ^ 16) (hn₂ : n₂.length < 2 ^ 16) (h₁ : t₁.WF) (h₂ : t₂.WF)
    (h : encDoc fmt n₁ t₁ = encDoc fmt n₂ t₂) : docName fmt n₁ = docName fmt n₂ ∧ t₁ = t₂ := by
  have := encDoc_prefix_free fmt n₁ n₂ t₁ t₂ [] [] hn₁ hn₂ h₁ h₂ (by rw [h])
  exact ⟨this.1, this.2.1⟩

end GoMC.Spec
