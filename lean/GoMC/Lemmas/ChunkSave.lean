/-
  Lemmas for C13 stage 2, save form: the chunk-level part of `ChunkFromSave ∘ ChunkToSave` — section index
  arithmetic (`int8(i + YPos)` written, `int32(Y) − YPos` read), slot filling, the six height maps, status — relative
  to a per-section round trip `SecSaveRT` (which is C12's `…WithData` constructor composed with `saveIndices`).
-/
import GoMC.Model.ChunkSave
import GoMC.Lemmas.ChunkWire
namespace GoMC.Lemmas.ChunkSave
open GoMC GoMC.Model GoMC.Model.Chunk GoMC.Lemmas GoMC.Lemmas.ChunkWire
open GoMC.Lemmas.Palette (Inv abs)

/-! ### section index arithmetic -/

/-- an `int32` that fits an `int8` survives `int8(·)` followed by `int32(·)` -/
theorem sext_trunc (x : BitVec 32) (hlo : -128 ≤ x.toInt) (hhi : x.toInt ≤ 127) :
    (BitVec.setWidth 8 x).signExtend 32 = x := by
  apply BitVec.eq_of_toInt_eq
  rw [BitVec.toInt_signExtend_of_le (by decide), BitVec.toInt_setWidth]
  have hx : x.toInt = Int.bmod (x.toNat : Int) (2 ^ 32) := by rw [BitVec.toInt_eq_toNat_bmod]
  have hn := x.isLt
  rw [BitVec.toInt_eq_toNat_cond] at hlo hhi ⊢
  simp only [Int.bmod]
  split at hlo <;> split <;> omega

/-- what `ChunkFromSave` computes from the `Y` that `ChunkToSave` wrote for section `k` -/
theorem index_roundtrip (ypos : BitVec 32) (k n : Nat) (hk : k < n) (hn : n < 2 ^ 31)
    (hlo : -128 ≤ (k : Int) + ypos.toInt) (hhi : (k : Int) + ypos.toInt ≤ 127) :
    let y : BitVec 8 := BitVec.setWidth 8 (BitVec.ofNat 32 k + ypos)
    let i : BitVec 32 := y.signExtend 32 - ypos
    i = BitVec.ofNat 32 k ∧ i.slt 0#32 = false ∧ i.slt (BitVec.ofNat 32 n) = true ∧ i.toNat = k := by
  intro y i
  have hkk : (BitVec.ofNat 32 k).toInt = (k : Int) := by
    rw [BitVec.toInt_eq_toNat_cond]; simp only [BitVec.toNat_ofNat]; split <;> omega
  have hsum : (BitVec.ofNat 32 k + ypos).toInt = (k : Int) + ypos.toInt := by
    rw [BitVec.toInt_add, hkk]
    have h1 := ypos.isLt
    rw [BitVec.toInt_eq_toNat_cond] at hlo hhi ⊢
    simp only [Int.bmod]
    split at hlo <;> split <;> omega
  have hi : i = BitVec.ofNat 32 k := by
    show (BitVec.setWidth 8 (BitVec.ofNat 32 k + ypos)).signExtend 32 - ypos = _
    rw [sext_trunc _ (by omega) (by omega)]
    apply BitVec.eq_of_toNat_eq
    simp only [BitVec.toNat_sub, BitVec.toNat_add, BitVec.toNat_ofNat]
    have := ypos.isLt
    omega
  refine ⟨hi, ?_, ?_, ?_⟩
  · rw [hi, BitVec.slt, hkk]; simp
  · have hnn : (BitVec.ofNat 32 n).toInt = (n : Int) := by
      rw [BitVec.toInt_eq_toNat_cond]; simp only [BitVec.toNat_ofNat]; split <;> omega
    rw [hi, BitVec.slt, hkk, hnn]; simp; omega
  · rw [hi]; simp only [BitVec.toNat_ofNat]; omega

/-! ### the per-section interface -/

/-- what must come back of a section: arrays (in well-formed containers), the counter recomputed exactly, light -/
structure SecSame (isAir : Int → Bool) (gbS gbB : Nat) (s' s : WSec) : Prop where
  statesInv : Inv (blocksCfg gbS) gbS 4096 s'.states
  states : abs 4096 s'.states = abs 4096 s.states
  biomesInv : Inv (biomesCfg gbB) gbB 64 s'.biomes
  biomes : abs 64 s'.biomes = abs 64 s.biomes
  sky : s'.sky = s.sky
  blk : s'.blk = s.blk
  count : s'.count = BitVec.ofNat 16 (((abs 4096 s.states).filter fun v => !isAir v).length)

/-- the section survives the save form (for whatever `Y` it is stored under) -/
def SecSaveRT {DS DB} (R : Registry DS DB) (gbS gbB : Nat) (s : WSec) : Prop :=
  ∃ st bi, writePalette R.descS 4 s.states = .ok st ∧ writePalette R.descB 0 s.biomes = .ok bi ∧
    ∀ y, ∃ s', loadSection R gbS gbB ⟨y, st, bi, s.sky, s.blk⟩ = .ok s' ∧ SecSame R.isAir gbS gbB s' s

/-! ### ChunkToSave -/

theorem toSaveSecs_ok {DS DB} (R : Registry DS DB) (gbS gbB : Nat) (ypos : BitVec 32) :
    ∀ (i : Nat) (secs : List WSec), (∀ s ∈ secs, SecSaveRT R gbS gbB s) →
    ∃ (out : List (SaveSec DS DB)) (res : List WSec),
      toSaveSecs R gbS gbB ypos i secs = .ok out ∧ out.length = secs.length ∧ res.length = secs.length ∧
      ∀ (k : Nat) (h1 : k < out.length) (h2 : k < secs.length) (h3 : k < res.length),
        out[k].y = BitVec.setWidth 8 (BitVec.ofNat 32 (i + k) + ypos) ∧
        loadSection R gbS gbB out[k] = .ok res[k] ∧ SecSame R.isAir gbS gbB res[k] secs[k]
  | _, [], _ => ⟨[], [], rfl, rfl, rfl, fun k h1 _ _ => by simp at h1⟩
  | i, v :: vs, h => by
    obtain ⟨st, bi, h1, h2, h3⟩ := h v (by simp)
    obtain ⟨rest, rres, r1, r2, r2', r3⟩ := toSaveSecs_ok R gbS gbB ypos (i + 1) vs (fun s hs => h s (by simp [hs]))
    obtain ⟨s', l1, l2⟩ := h3 (BitVec.setWidth 8 (BitVec.ofNat 32 i + ypos))
    refine ⟨({ y := BitVec.setWidth 8 (BitVec.ofNat 32 i + ypos), states := st, biomes := bi, sky := v.sky, blk := v.blk } : SaveSec DS DB) :: rest,
      s' :: rres, ?_, by simp [r2], by simp [r2'], ?_⟩
    · simp only [toSaveSecs, h1, h2, r1]
    · intro k k1 k2 k3
      cases k with
      | zero =>
        simp only [List.getElem_cons_zero, Nat.add_zero, true_and]
        exact ⟨l1, l2⟩
      | succ k =>
        simp only [List.getElem_cons_succ]
        have := r3 k (by simpa using k1) (by simpa using k2) (by simpa using k3)
        rw [show i + (k + 1) = i + 1 + k by omega]
        exact this

/-! ### ChunkFromSave: the section loop fills slot `j + k` with the `k`-th saved section -/

theorem loadSections_fill {DS DB} (R : Registry DS DB) (gbS gbB : Nat) (ypos : BitVec 32) (n : Nat) :
    ∀ (vs : List (SaveSec DS DB)) (slots : List (Option WSec)) (j : Nat) (res : List WSec),
      slots.length = n → j + vs.length ≤ n → res.length = vs.length →
      (∀ (k : Nat) (h : k < vs.length),
        let i : BitVec 32 := vs[k].y.signExtend 32 - ypos
        i.slt 0#32 = false ∧ i.slt (BitVec.ofNat 32 n) = true ∧ i.toNat = j + k) →
      (∀ (k : Nat) (h1 : k < vs.length) (h2 : k < res.length), loadSection R gbS gbB vs[k] = .ok res[k]) →
      ∃ out, loadSections R gbS gbB ypos n vs slots = .ok out ∧ out.length = n ∧
        (∀ m, m < j → out[m]? = slots[m]?) ∧ (∀ m, j + vs.length ≤ m → out[m]? = slots[m]?) ∧
        (∀ (k : Nat) (h : k < res.length), out[j + k]? = some (some res[k]))
  | [], slots, j, res, hs, _, hr, _, _ => by
    have : res = [] := List.length_eq_zero_iff.mp (by simpa using hr)
    subst this
    exact ⟨slots, rfl, hs, fun _ _ => rfl, fun _ _ => rfl, fun k h => by simp at h⟩
  | v :: vs, slots, j, res, hs, hj, hr, hidx, hload => by
    cases res with
    | nil => simp at hr
    | cons r rs =>
      have h0 := hidx 0 (by simp)
      simp only [List.getElem_cons_zero, Nat.add_zero] at h0
      have l0 := hload 0 (by simp) (by simp)
      simp only [List.getElem_cons_zero] at l0
      obtain ⟨out, o1, o2, o3, o4, o5⟩ := loadSections_fill R gbS gbB ypos n vs (slots.set j (some r)) (j + 1) rs
        (by simp [hs]) (by simp at hj; omega) (by simpa using hr)
        (fun k h => by
          have := hidx (k + 1) (by simpa using h)
          simp only [List.getElem_cons_succ] at this
          rw [show j + 1 + k = j + (k + 1) by omega]; exact this)
        (fun k h1 h2 => by
          have := hload (k + 1) (by simpa using h1) (by simpa using h2)
          simpa using this)
      refine ⟨out, ?_, o2, ?_, ?_, ?_⟩
      · simp only [loadSections, h0.1, h0.2.1, Bool.false_eq_true, not_true_eq_false, or_self, if_false, l0, h0.2.2]
        exact o1
      · intro m hm
        rw [o3 m (by omega), List.getElem?_set_ne (by omega)]
      · intro m hm
        simp only [List.length_cons] at hm
        rw [o4 m (by omega), List.getElem?_set_ne (by omega)]
      · intro k hk
        cases k with
        | zero =>
          simp only [Nat.add_zero, List.getElem_cons_zero]
          rw [o3 j (by omega), List.getElem?_set_self (by simp at hj; omega)]
        | succ k =>
          simp only [List.getElem_cons_succ]
          have := o5 k (by simpa using hk)
          rw [show j + (k + 1) = j + 1 + k by omega]
          exact this

theorem mapM_id_some : ∀ (xs : List WSec), (xs.map some).mapM id = some xs
  | [] => rfl
  | x :: xs => by simp [List.mapM_cons, mapM_id_some xs]

/-! ### the chunk level -/

/-- the six height maps are height maps of a chunk with this many sections -/
structure HmOK (n : Nat) (h : HeightMaps) : Prop where
  wswg : newHeightMap (hmBitsOf n) (some h.worldSurfaceWG.data) = .ok h.worldSurfaceWG
  ws : newHeightMap (hmBitsOf n) (some h.worldSurface.data) = .ok h.worldSurface
  ofwg : newHeightMap (hmBitsOf n) (some h.oceanFloorWG.data) = .ok h.oceanFloorWG
  ofl : newHeightMap (hmBitsOf n) (some h.oceanFloor.data) = .ok h.oceanFloor
  mb : newHeightMap (hmBitsOf n) (some h.motionBlocking.data) = .ok h.motionBlocking
  mbnl : newHeightMap (hmBitsOf n) (some h.motionBlockingNoLeaves.data) = .ok h.motionBlockingNoLeaves

theorem getElem?_some_of_fill {out : List (Option WSec)} {res : List WSec} (hl : out.length = res.length)
    (h : ∀ (k : Nat) (hk : k < res.length), out[0 + k]? = some (some res[k])) : out = res.map some := by
  apply List.ext_getElem?
  intro k
  by_cases hk : k < res.length
  · have := h k hk
    simp only [Nat.zero_add] at this
    rw [this]; simp [hk]
  · rw [List.getElem?_eq_none (by omega), List.getElem?_eq_none (by simp; omega)]

theorem save_roundtrip {DS DB} (R : Registry DS DB) (gbS gbB : Nat) (dst₀ : SaveChunk DS DB) (c : Chunk)
    (hn : c.secs.length < 2 ^ 31)
    (hy : ∀ k : Nat, k < c.secs.length → -128 ≤ (k : Int) + dst₀.ypos.toInt ∧ (k : Int) + dst₀.ypos.toInt ≤ 127)
    (hsecs : ∀ s ∈ c.secs, SecSaveRT R gbS gbB s) (hhm : HmOK c.secs.length c.hm) :
    ∃ sv c', chunkToSave R gbS gbB dst₀ c = .ok sv ∧ chunkFromSave R gbS gbB sv = .ok c' ∧
      sv.otherHM = dst₀.otherHM ∧ sv.untouched = dst₀.untouched ∧ sv.ypos = dst₀.ypos ∧
      sv.secs.length = c.secs.length ∧
      (∀ (k : Nat) (h : k < sv.secs.length), sv.secs[k].y = BitVec.setWidth 8 (BitVec.ofNat 32 k + dst₀.ypos)) ∧
      sv.hm = ⟨some c.hm.worldSurfaceWG.data, some c.hm.worldSurface.data, some c.hm.oceanFloorWG.data,
               some c.hm.oceanFloor.data, some c.hm.motionBlocking.data, some c.hm.motionBlockingNoLeaves.data⟩ ∧
      sv.status = c.status ∧
      c'.secs.length = c.secs.length ∧
      (∀ (k : Nat) (h1 : k < c'.secs.length) (h2 : k < c.secs.length), SecSame R.isAir gbS gbB c'.secs[k] c.secs[k]) ∧
      c'.hm = c.hm ∧ c'.status = c.status := by
  obtain ⟨out, res, t1, t2, t3, t4⟩ := toSaveSecs_ok R gbS gbB dst₀.ypos 0 c.secs hsecs
  let svhm : SaveHM := ⟨some c.hm.worldSurfaceWG.data, some c.hm.worldSurface.data, some c.hm.oceanFloorWG.data,
    some c.hm.oceanFloor.data, some c.hm.motionBlocking.data, some c.hm.motionBlockingNoLeaves.data⟩
  let sv : SaveChunk DS DB := ⟨out, svhm, dst₀.otherHM, c.status, dst₀.ypos, dst₀.untouched⟩
  have hsv : chunkToSave R gbS gbB dst₀ c = .ok sv := by simp only [chunkToSave, t1, sv, svhm]
  -- the section loop
  obtain ⟨slots, l1, l2, _, _, l5⟩ := loadSections_fill R gbS gbB dst₀.ypos out.length out (List.replicate out.length none) 0 res
    (by simp) (by omega) (by omega)
    (fun k h => by
      have hk : k < c.secs.length := by omega
      have hyk := hy k hk
      have e := (t4 k h hk (by omega)).1
      simp only [Nat.zero_add] at e ⊢
      rw [e]
      have := index_roundtrip dst₀.ypos k out.length h (by omega) hyk.1 hyk.2
      exact ⟨this.2.1, this.2.2.1, this.2.2.2⟩)
    (fun k h1 h2 => (t4 k h1 (by omega) h2).2.1)
  have hslots : slots = res.map some := getElem?_some_of_fill (by omega) l5
  let c' : Chunk := ⟨res, c.hm, Slice.nil, c.status⟩
  have hc' : chunkFromSave R gbS gbB sv = .ok c' := by
    simp only [chunkFromSave, sv, svhm]
    simp only [l1, hslots, mapM_id_some]
    rw [t2]
    simp only [hhm.ws, hhm.wswg, hhm.ofwg, hhm.ofl, hhm.mb, hhm.mbnl]
    simp [c']
  refine ⟨sv, c', hsv, hc', rfl, rfl, rfl, t2, ?_, rfl, rfl, t3, ?_, rfl, rfl⟩
  · intro k h
    have h' : k < out.length := h
    have := (t4 k h' (by omega) (by omega)).1
    simpa using this
  · intro k h1 h2
    exact (t4 k (by omega) h2 h1).2.2

/-! ### the per-section interface from per-container facts -/

open GoMC.Lemmas.Palette (GbOK InReg get_mem) in
/-- `countNoneAirBlocks` on a well-formed container never fails and counts the non-air entries of its abstraction -/
theorem countNonAirP_ok {cfg : PalCfg} {gb n : Nat} {c : PCont} (hgb : GbOK cfg gb) (hinv : Inv cfg gb n c)
    (isAir : Int → Bool) : ∀ m : Nat, m ≤ n → m < 65536 →
    countNonAirP isAir c m = .ok (BitVec.ofNat 16 ((((abs n c).take m).filter fun v => !isAir v).length)) := by
  intro m
  induction m with
  | zero => intro _ _; simp [countNonAirP]
  | succ k ih =>
    intro hk h16
    have hkn : k < n := by omega
    obtain ⟨x, hx, _, hxm⟩ := get_mem hgb hinv hkn
    have habs : (abs n c)[k]? = some x := by simp [Palette.abs, Palette.getV, hx, hkn]
    have htake : (abs n c).take (k + 1) = (abs n c).take k ++ [x] := by
      rw [List.take_add_one, habs]; rfl
    have hle : (((abs n c).take k).filter fun v => !isAir v).length ≤ k := by
      have := List.length_filter_le (fun v => !isAir v) ((abs n c).take k)
      simp only [List.length_take] at this; omega
    simp only [countNonAirP, ih (by omega) (by omega), hx, htake, List.filter_append, List.length_append]
    cases hx' : isAir x
    · simp only [Bool.not_false, if_true, List.filter_cons, List.filter_nil, List.length_cons, List.length_nil, hx']
      rw [Chunk.ofNat16_add_one (by omega)]
    · simp [hx']

/-- a registry id can be described and the description leads back to it (`Bij` at `v`) -/
def BijAt {D} (desc : Int → Res D) (ofDesc : D → Option Int) (v : Int) : Prop :=
  ∃ d, desc v = .ok d ∧ ofDesc d = some v

/-- a container survives `write…Palette` followed by `read…Palette` -/
def ContSaveRT {D} (desc : Int → Res D) (ofDesc : D → Option Int) (minBits : Int) (cfg : PalCfg) (gb n : Nat) (c : PCont) : Prop :=
  ∃ st, writePalette desc minBits c = .ok st ∧
    ∃ c', readPalette ofDesc cfg (n : Int) st = .ok c' ∧ Inv cfg gb n c' ∧ abs n c' = abs n c

set_option maxRecDepth 20000 in
theorem secSaveRT_of {DS DB} (R : Registry DS DB) {gbS gbB : Nat} (hS : Palette.GbOK (blocksCfg gbS) gbS) (s : WSec)
    (h1 : ContSaveRT R.descS R.stateOf 4 (blocksCfg gbS) gbS 4096 s.states)
    (h2 : ContSaveRT R.descB R.biomeOf 0 (biomesCfg gbB) gbB 64 s.biomes) : SecSaveRT R gbS gbB s := by
  obtain ⟨st, a1, cs, a2, a3, a4⟩ := h1
  obtain ⟨bi, b1, cb, b2, b3, b4⟩ := h2
  refine ⟨st, bi, a1, b1, fun y => ?_⟩
  have hcnt := countNonAirP_ok hS a3 R.isAir 4096 (by omega) (by omega)
  have htake : (abs 4096 cs).take 4096 = abs 4096 cs := List.take_of_length_le (by simp)
  rw [htake, a4] at hcnt
  refine ⟨⟨BitVec.ofNat 16 (((abs 4096 s.states).filter fun v => !R.isAir v).length), cs, cb, s.sky, s.blk⟩, ?_,
    ⟨a3, a4, b3, b4, rfl, rfl, rfl⟩⟩
  have a2' : readPalette R.stateOf (blocksCfg gbS) 4096 st = .ok cs := a2
  have b2' : readPalette R.biomeOf (biomesCfg gbB) 64 bi = .ok cb := b2
  simp only [loadSection, a2', hcnt, b2']

/-- a single-value container (every untouched section; every section filled with one state) survives the save form -/
theorem contSaveRT_single {D} (desc : Int → Res D) (ofDesc : D → Option Int) (minBits : Int) (cfg : PalCfg) (gb n : Nat)
    (v : Int) (d : BitStorage) (hinv : Inv cfg gb n ⟨0, cfg, .single v, d⟩) (hb : BijAt desc ofDesc v) :
    ContSaveRT desc ofDesc minBits cfg gb n ⟨0, cfg, .single v, d⟩ := by
  obtain ⟨dv, h1, h2⟩ := hb
  have hv : Palette.InReg gb v := by cases hinv; assumption
  have habs : abs n (⟨0, cfg, .single v, d⟩ : PCont) = List.replicate n v := by
    cases hinv with
    | single _ _ _ hd => exact Palette.abs_single hd
  obtain ⟨w1, w2, w3⟩ := Palette.withData_single (cfg := cfg) (n := n) (some []) hv
  refine ⟨⟨[dv], some []⟩, ?_, Model.Container.new cfg (n : Int) v, ?_, w2, by rw [w3, habs]⟩
  · simp [writePalette, Pal.export, mapRes, h1, saveIndices]
  · simp [readPalette, h2, w1]

/-! ### indirect containers: `saveIndices` re-packs the indices at the width the palette size prescribes -/

section indirect
open GoMC.Lemmas.BitStorage
open GoMC.Spec (entry unpack pack vpl size)

theorem packLoop_ok {w sb n : Nat} (hw1 : 1 ≤ w) (hw : w ≤ 63) (hs1 : 1 ≤ sb) (hs : sb ≤ 63) (src : BitStorage)
    (hsrc : WF sb n src) (hval : ∀ k, k < n → entry sb src.data k < 2 ^ w) :
    ∀ (ks : List Nat) (p : BitStorage), WF w n p → Clean w n p.data → (∀ k ∈ ks, k < n) →
      ∃ p', packLoop src ks p = .ok p' ∧ WF w n p' ∧ Clean w n p'.data ∧
        ∀ j, entry w p'.data j = if j ∈ ks then entry sb src.data j else entry w p.data j
  | [], p, hp, hc, _ => ⟨p, rfl, hp, hc, fun j => by simp⟩
  | k :: ks, p, hp, hc, hk => by
    have hkn : k < n := hk k (by simp)
    have hg := get_ok hsrc hs1 hs hkn
    have hset := set_ok hp hw1 hw hkn (hval k hkn)
    have hcl : k / vpl w < p.data.length := by rw [hp.size]; exact div_lt_size hw1 (by omega) hkn
    obtain ⟨p', h1, h2, h3, h4⟩ := packLoop_ok hw1 hw hs1 hs src hsrc hval ks
      { p with data := newData w p.data k (entry sb src.data k) } (wf_newData hp _ _)
      (clean_newData hw1 (by omega) _ _ _ hkn hc) (fun j hj => hk j (by simp [hj]))
    refine ⟨p', ?_, h2, h3, ?_⟩
    · simp only [packLoop, hg, hset]
      exact h1
    · intro j
      rw [h4 j]
      simp only [entry_newData hw1 (by omega) p.data hcl (hval k hkn) j, List.mem_cons]
      by_cases hjk : j = k
      · subst hjk; simp
      · simp [hjk]

theorem saveIndices_indirect (cfg : PalCfg) {sb n : Nat} (hs1 : 1 ≤ sb) (hs : sb ≤ 63) (d : BitStorage) (hd : WF sb n d)
    (plen : Nat) (hp2 : 2 ≤ plen) (hp31 : plen ≤ 2 ^ 31) (hidx : ∀ k, k < n → entry sb d.data k < plen) :
    saveIndices d plen cfg.minBits = .ok (pack (Palette.saveW cfg.kind plen) (unpack sb n d.data)) := by
  obtain ⟨hw1, hw31, hlen⟩ := Palette.saveW_bounds cfg.kind hp2 hp31
  have hwidth : max cfg.minBits ((bitLen (plen - 1) : Nat) : Int) = ((Palette.saveW cfg.kind plen : Nat) : Int) :=
    Palette.saveBits_eq cfg plen
  generalize hwd : Palette.saveW cfg.kind plen = w at *
  have hlen' : d.len = (n : Int) := hd.length
  obtain ⟨p', h1, h2, h3, h4⟩ := packLoop_ok hw1 (by omega) hs1 hs d hd
    (fun k hk => Nat.lt_of_lt_of_le (hidx k hk) hlen) (List.range n)
    (fresh w n (List.replicate (size w n) 0#64)) (wf_fresh w n _ (by simp)) (clean_replicate w n _)
    (fun k hk => by simpa using hk)
  have hunp : unpack w n p'.data = unpack sb n d.data := by
    apply List.ext_getElem
    · simp
    · intro j hj _
      have hj' : j < n := by simpa using hj
      simp only [Spec.unpack, List.getElem_map, List.getElem_range, h4 j, List.mem_range, hj', if_true]
  have hdata : p'.data = pack w (unpack sb n d.data) := by
    rw [← hunp]; exact (pack_unpack_of_clean hw1 (by omega) _ h2.size h3).symm
  match plen, hp2 with
  | k + 2, _ =>
    simp only [saveIndices, hwidth, hlen', new_nil hw1 (by omega : w ≤ 64) n, Int.toNat_natCast, h1, hdata]

end indirect

theorem mapRes_bij {D} (desc : Int → Res D) (ofDesc : D → Option Int) :
    ∀ vals : List Int, (∀ v ∈ vals, BijAt desc ofDesc v) → ∃ ds, mapRes desc vals = .ok ds ∧ ds.mapM ofDesc = some vals
  | [], _ => ⟨[], rfl, rfl⟩
  | v :: vs, h => by
    obtain ⟨d, h1, h2⟩ := h v (by simp)
    obtain ⟨ds, g1, g2⟩ := mapRes_bij desc ofDesc vs (fun x hx => h x (by simp [hx]))
    exact ⟨d :: ds, by simp [mapRes, h1, g1], by simp [List.mapM_cons, h2, g2]⟩

/-- an indirect container (linear or hash palette: up to 256 block states / 8 biomes) survives the save form,
relative to `Bij` at its palette entries -/
theorem contSaveRT_indirect {D} (desc : Int → Res D) (ofDesc : D → Option Int) (cfg : PalCfg) (gb n : Nat)
    (hgb : Palette.GbOK cfg gb) (hn : 0 < n) (c : PCont) (hinv : Inv cfg gb n c)
    (hpal : ∃ h vals cap pb, c.pal = .indirect h vals cap pb)
    (hb : ∀ v ∈ c.pal.export, BijAt desc ofDesc v) :
    ContSaveRT desc ofDesc cfg.minBits cfg gb n c := by
  cases hinv with
  | single v d hv hd => obtain ⟨_, _, _, _, h⟩ := hpal; cases h
  | global bits d hs hd => obtain ⟨_, _, _, _, h⟩ := hpal; cases h
  | indirect bits h sb vals d hs hlen hnd hreg hd hidx hne =>
    have hb : ∀ v ∈ vals, BijAt desc ofDesc v := hb
    obtain ⟨hs1, hs8⟩ := Palette.indShape_sb hs
    have hne' : vals ≠ [] := by
      rcases hne rfl with h0 | h0
      · omega
      · exact h0
    have hpos : 0 < vals.length := List.length_pos_iff.mpr hne'
    have hidx' : ∀ k, k < n → Spec.entry sb d.data k < vals.length := by
      intro k hk; rcases hidx k hk with h1 | h1 <;> omega
    have habs := Palette.abs_indirect (strict := true) (gb := gb) (cfg := cfg) (bits := bits) (h := h) (vals := vals)
      (cap := 2 ^ sb) (pb := (sb : Int)) hs hd hidx'
    obtain ⟨ds, m1, m2⟩ := mapRes_bij desc ofDesc vals hb
    have h256 : vals.length ≤ 2 ^ 31 := by
      have : (2 : Nat) ^ sb ≤ 2 ^ 8 := Nat.pow_le_pow_right (by omega) hs8
      have : (2 : Nat) ^ 8 ≤ 2 ^ 31 := by decide
      omega
    by_cases h1 : vals.length = 1
    · -- one palette entry: no data in the save form, the loader builds the single-value container
      obtain ⟨v, rfl⟩ : ∃ v, vals = [v] := by
        cases vals with
        | nil => simp at h1
        | cons v vs => cases vs with
          | nil => exact ⟨v, rfl⟩
          | cons _ _ => simp at h1
      obtain ⟨w1, w2, w3⟩ := Palette.withData_single (cfg := cfg) (n := n) (some []) (hreg v (by simp))
      refine ⟨⟨ds, some []⟩, ?_, Model.Container.new cfg (n : Int) v, ?_, w2, ?_⟩
      · simp [writePalette, Pal.export, m1, saveIndices]
      · simp [readPalette, m2, w1]
      · rw [w3, habs]
        apply List.ext_getElem
        · simp
        · intro j hj _
          have hj' : j < n := by simpa using hj
          have := hidx' j hj'
          simp only [List.length_singleton] at this
          simp only [List.getElem_replicate, List.getElem_map, Spec.unpack, List.getElem_range]
          have e0 : Spec.entry sb d.data j = 0 := by omega
          simp [e0]
    · have hp2 : 2 ≤ vals.length := by omega
      have hsave := saveIndices_indirect cfg hs1 (by omega) d hd vals.length hp2 h256 hidx'
      obtain ⟨c', w1, w2, w3⟩ := Palette.withData_ok (n := n) hgb vals hreg hp2 h256 (Spec.unpack sb n d.data)
        (by intro i hi
            obtain ⟨j, hj, rfl⟩ := List.mem_map.mp hi
            exact hidx' j (by simpa using hj))
        (by simp)
      refine ⟨⟨ds, some (Spec.pack (Palette.saveW cfg.kind vals.length) (Spec.unpack sb n d.data))⟩, ?_, c', ?_, w2, ?_⟩
      · simp [writePalette, Pal.export, m1, hsave]
      · simp [readPalette, m2, w1]
      · rw [w3, habs]

/-! ### direct containers: the raw ids, whatever the padding bits of the longs hold -/

section direct
open GoMC.Lemmas.BitStorage GoMC.Lemmas.Palette
open GoMC.Spec (entry unpack pack vpl size)

theorem entry_lt (b : Nat) (data : List (BitVec 64)) (k : Nat) : entry b data k < 2 ^ b := by
  unfold entry
  exact Nat.mod_lt _ (Nat.two_pow_pos b)

/-- `New…WithData(n, data, [])` for ANY long array of the right length (C12's `withData_direct` is the special case
`data = pack gb ids`): succeeds, well-formed, position `k` holds entry `k` of the data -/
theorem withData_direct_raw {cfg : PalCfg} {gb n : Nat} (hgb : GbOK cfg gb) (data : List (BitVec 64))
    (hpl : data.length = size gb n) :
    ∃ c, Model.Container.withData cfg (n : Int) (some data) [] = .ok c ∧ Inv cfg gb n c ∧
      Palette.abs n c = (unpack gb n data).map fun (i : Nat) => (i : Int) := by
  obtain ⟨hg1, hg31⟩ := gb_pos hgb
  let src : Nat → Res Int := fun k =>
    match (fresh gb n data).get (k : Int) with
    | .ok j => .ok j
    | _ => .panic
  have hsrcv : ∀ k, k < n → src k = .ok ((entry gb data k : Nat) : Int) := by
    intro k hk
    simp only [src, fresh_get hg1 (by omega) _ hpl hk]
  let M : List Int := (List.range (2 ^ gb)).map fun (i : Nat) => (i : Int)
  have hsrc : ∀ k, k < n → ∃ x, src k = .ok x ∧ x ∈ M ∧ InReg gb x := by
    intro k hk
    have hlt := entry_lt gb data k
    have e : ((2 ^ gb : Nat) : Int) = (2 : Int) ^ gb := by norm_cast
    refine ⟨_, hsrcv k hk, ?_, ⟨by omega, by omega⟩⟩
    simp only [M, List.mem_map, List.mem_range]
    exact ⟨_, hlt, rfl⟩
  have hkw : cfg.kind = .blocks → 4 ≤ gb := by
    intro hk
    obtain ⟨_, _, h3⟩ := hgb
    rw [hk] at h3; simp only at h3; omega
  have hnoind : ¬ ∃ h', IndShape cfg.kind (gb : Int) h' gb := by
    obtain ⟨_, _, h3⟩ := hgb
    rintro ⟨h', hs⟩
    cases hk : cfg.kind <;> rw [hk] at h3 hs <;> simp only [IndShape] at hs <;> simp only at h3 <;> omega
  obtain ⟨d, c, hnew, hloop, hinv, hgets⟩ := fill_ok hgb hg1 hg31 hkw src M hsrc (fun h => absurd h hnoind)
  refine ⟨c, ?_, hinv, ?_⟩
  · simp only [Model.Container.withData, List.isEmpty_nil, if_true, hgb.1, new_some hg1 (by omega : gb ≤ 64), hpl, hnew,
      Int.toNat_natCast]
    exact hloop
  · apply List.ext_getElem
    · simp
    · intro j hj1 hj2
      have hj : j < n := by simpa using hj1
      simp only [Palette.abs, getV, List.getElem_map, List.getElem_range, hgets j hj, hsrcv j hj, Spec.unpack]

/-- a direct container (more than 256 block states / 8 biomes ever in the palette) survives the save form: the
save form carries an empty palette and the raw ids -/
theorem contSaveRT_global {D} (desc : Int → Res D) (ofDesc : D → Option Int) (minBits : Int) (cfg : PalCfg) (gb n : Nat)
    (hgb : GbOK cfg gb) (c : PCont) (hinv : Inv cfg gb n c) (hpal : c.pal = .global) :
    ContSaveRT desc ofDesc minBits cfg gb n c := by
  obtain ⟨hg1, hg31⟩ := gb_pos hgb
  cases hinv with
  | single v d hv hd => cases hpal
  | indirect bits h sb vals d hs hlen hnd hreg hd hidx hne => cases hpal
  | global bits d hs hd =>
    obtain ⟨c', w1, w2, w3⟩ := withData_direct_raw (n := n) hgb d.data hd.size
    refine ⟨⟨[], some d.data⟩, ?_, c', ?_, w2, ?_⟩
    · simp [writePalette, Pal.export, mapRes, saveIndices]
    · simp [readPalette, w1]
    · rw [w3, abs_global hd hg1 (by omega)]

end direct

/-- **every well-formed container survives the save form**, relative to `Bij` at the entries of its palette -/
theorem contSaveRT_all {D} (desc : Int → Res D) (ofDesc : D → Option Int) (cfg : PalCfg) (gb n : Nat)
    (hgb : Palette.GbOK cfg gb) (hn : 0 < n) (c : PCont) (hinv : Inv cfg gb n c)
    (hb : ∀ v ∈ c.pal.export, BijAt desc ofDesc v) : ContSaveRT desc ofDesc cfg.minBits cfg gb n c := by
  cases hp : c.pal with
  | single v =>
    cases hinv with
    | single v' d hv hd =>
      simp only [Pal.single.injEq] at hp; subst hp
      exact contSaveRT_single desc ofDesc _ cfg gb n v' d (.single v' d hv hd) (hb v' (by simp [Pal.export]))
    | indirect bits h sb vals d hs hlen hnd hreg hd hidx hne => cases hp
    | global bits d hs hd => cases hp
  | indirect h vals cap pb => exact contSaveRT_indirect desc ofDesc cfg gb n hgb hn c hinv ⟨h, vals, cap, pb, hp⟩ hb
  | global => exact contSaveRT_global desc ofDesc _ cfg gb n hgb c hinv hp

end GoMC.Lemmas.ChunkSave
