/-
  C17 helper: `chat.Type.WriteTo/ReadFrom` round-trips over any `Message` codec that round-trips
  (uses the C06 field lemmas for VarInt and Boolean).
-/
import GoMC.Lemmas.Chat
import GoMC.Lemmas.Fields
namespace GoMC.Lemmas.Chat
open GoMC GoMC.Spec GoMC.Model GoMC.Model.Chat GoMC.Lemmas

/-- `chat.Type` as a field codec over the codec of `Message` -/
def typeC {α : Type} (msgC : Codec α) : Codec (ChatTypeOf α) := ⟨typeEnc msgC, typeDec msgC, ⟨0, msgC.zero, none⟩⟩

def typeDom {α : Type} (dom : α → Prop) (t : ChatTypeOf α) : Prop := dom t.sender ∧ ∀ m, t.target = some m → dom m

def typeEqv {α : Type} (eqv : α → α → Prop) (d v : ChatTypeOf α) : Prop :=
  d.id = v.id ∧ eqv d.sender v.sender ∧
    match d.target, v.target with
    | none, none => True
    | some a, some b => eqv a b
    | _, _ => False

theorem rt_type {α : Type} {msgC : Codec α} {dom eqv} (hc : RT msgC dom eqv) : RT (typeC msgC) (typeDom dom) (typeEqv eqv) := by
  intro v d s rest hv hs
  obtain ⟨id, sender, target⟩ := v
  obtain ⟨hds, hdt⟩ := hv
  cases target with
  | none =>
    have he : ((typeC msgC).enc ⟨id, sender, none⟩).1 = (varIntEnc id).1 ++ ((msgC.enc sender).1 ++ (0#8 :: rest.take 0)) := by
      simp [typeC, typeEnc, boolEnc, wr]
    have hs' : s.flat = (varIntEnc id).1 ++ ((msgC.enc sender).1 ++ (0#8 :: rest)) := by
      rw [hs]; simp [typeC, typeEnc, boolEnc, wr]
    obtain ⟨i', s1, h1, e1, f1, fl1⟩ := rt_varInt id 0 s _ trivial hs'
    obtain ⟨m', s2, h2, e2, f2, fl2⟩ := hc sender d.sender s1 _ hds f1
    have h3 := boolDec_cons false s2 _ rest f2
    refine ⟨⟨id, m', none⟩, s2.drop 1, ?_, ⟨rfl, e2, trivial⟩, (readByte_cons s2 _ rest f2).2, ?_⟩
    · simp only [typeC, typeDec]
      have h1' : varIntRead s = (Res.ok (i', ((varIntC.enc id).1).length), s1) := h1
      rw [Rd.bind_ok h1']
      simp only
      rw [Rd.bind_ok h2]
      simp only
      rw [Rd.bind_ok h3]
      subst e1
      simp [typeEnc, boolEnc, wr, varIntC, Nat.add_assoc]
    · simp [fl1, fl2]
  | some tm =>
    have hs' : s.flat = (varIntEnc id).1 ++ ((msgC.enc sender).1 ++ (1#8 :: ((msgC.enc tm).1 ++ rest))) := by
      rw [hs]; simp [typeC, typeEnc, boolEnc, wr]
    obtain ⟨i', s1, h1, e1, f1, fl1⟩ := rt_varInt id 0 s _ trivial hs'
    obtain ⟨m', s2, h2, e2, f2, fl2⟩ := hc sender d.sender s1 _ hds f1
    have h3 := boolDec_cons false s2 _ _ f2
    have f3 := (readByte_cons s2 _ _ f2).2
    obtain ⟨t', s4, h4, e4, f4, fl4⟩ := hc tm msgC.zero (s2.drop 1) rest (hdt tm rfl) f3
    refine ⟨⟨id, m', some t'⟩, s4, ?_, ⟨rfl, e2, e4⟩, f4, ?_⟩
    · simp only [typeC, typeDec]
      have h1' : varIntRead s = (Res.ok (i', ((varIntC.enc id).1).length), s1) := h1
      rw [Rd.bind_ok h1']
      simp only
      rw [Rd.bind_ok h2]
      simp only
      rw [Rd.bind_ok h3]
      have : ((1#8 != 0#8) = true) := by decide
      simp only [this, if_true]
      rw [Rd.bind_ok h4]
      subst e1
      simp [typeEnc, boolEnc, wr, varIntC, Nat.add_assoc]
      exact Nat.add_comm _ _
    · simp [fl1, fl2, fl4]

end GoMC.Lemmas.Chat
