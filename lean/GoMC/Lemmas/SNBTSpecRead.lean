/-
  C04_writer_tokens: the independent recursive-descent reader of `Spec/SNBT.lean` reads the writer's text of a tree
  back as that tree.  Part 1: tokens (numbers, strings).
-/
import GoMC.Lemmas.SNBTRoundTree
namespace GoMC.Model.SNBT
open GoMC Spec
open GoMC.Spec.SNBT (isWs isDigit isLetter isTokenByte skipWs spanToken spanDigits digitsVal stripSign inRange lower
  classify readQuoted readKey arrayElem mkArray readArrayElems readValue readEntries readElems FloatSem Tok)

theorem spec_classes (c : Byte) : isDigit c = isNumber c ∧ isTokenByte c = isAllowedInUnquotedString c ∧
    isWs c = isSpace c := by
  have : ∀ n : Fin (2^8), (let c : Byte := BitVec.ofFin n
      isDigit c = isNumber c ∧ isTokenByte c = isAllowedInUnquotedString c ∧ isWs c = isSpace c) := by decide +kernel
  exact this c.toFin

theorem skipWs_cons (c : Byte) (k : Bytes) (h : isSpace c = false) : skipWs (c :: k) = c :: k := by
  unfold skipWs; rw [(spec_classes c).2.2, h]; simp

/-- nothing, or a byte that cannot be part of a token -/
def TokEnd : Bytes → Prop
  | [] => True
  | c :: _ => isAllowedInUnquotedString c = false

theorem spanToken_run (w k : Bytes) (hw : ∀ c ∈ w, isAllowedInUnquotedString c = true) (hk : TokEnd k) :
    spanToken (w ++ k) = (w, k) := by
  induction w with
  | nil =>
    cases k with
    | nil => rfl
    | cons c k' =>
      simp only [List.nil_append]; unfold spanToken
      rw [(spec_classes c).2.1, show isAllowedInUnquotedString c = false from hk]; simp
  | cons c w ih =>
    simp only [List.cons_append]; unfold spanToken
    rw [(spec_classes c).2.1, hw c (by simp)]
    simp only [if_true]
    rw [ih (fun x hx => hw x (by simp [hx]))]

theorem spanDigits_run (ds k : Bytes) (hd : ∀ c ∈ ds, isNumber c = true)
    (hk : ∀ c k', k = c :: k' → isNumber c = false) : spanDigits (ds ++ k) = (ds, k) := by
  induction ds with
  | nil =>
    cases k with
    | nil => rfl
    | cons c k' =>
      simp only [List.nil_append]; unfold spanDigits
      rw [(spec_classes c).1, hk c k' rfl]; simp
  | cons c ds ih =>
    simp only [List.cons_append]; unfold spanDigits
    rw [(spec_classes c).1, hd c (by simp)]
    simp only [if_true]
    rw [ih (fun x hx => hd x (by simp [hx]))]

theorem digitsVal_append (a b : Bytes) : digitsVal (a ++ b) = b.foldl (fun acc c => 10 * acc + (c.toNat - 48)) (digitsVal a) := by
  unfold digitsVal; rw [List.foldl_append]

theorem digitsVal_natDigits (f n : Nat) (h : n < f) : digitsVal (natDigits f n) = n := by
  induction f generalizing n with
  | zero => omega
  | succ f ih =>
    unfold natDigits
    split
    · rename_i hn
      have := (digit_facts ⟨n, hn⟩).2.1
      simp only [digitVal] at this
      simp only [digitsVal, List.foldl_cons, List.foldl_nil, this]; omega
    · rename_i hn
      rw [digitsVal_append, ih _ (by omega)]
      have := (digit_facts ⟨n % 10, Nat.mod_lt _ (by decide)⟩).2.1
      simp only [digitVal] at this
      simp only [List.foldl_cons, List.foldl_nil, this]
      omega



theorem formatNat_digits (n : Nat) : (∀ c ∈ formatNat n, isNumber c = true) ∧ formatNat n ≠ [] ∧ digitsVal (formatNat n) = n :=
  ⟨natDigits_isNumber _ _, natDigits_ne_nil _ _ (by omega), digitsVal_natDigits _ _ (by omega)⟩

theorem digit_not_letter (c : Byte) (h : isNumber c = true) :
    (isLetter c || c == 95) = false ∧ (c == 45) = false ∧ (c == 43) = false := by
  have : ∀ n : Fin (2^8), (let c : Byte := BitVec.ofFin n
      isNumber c = true → (isLetter c || c == 95) = false ∧ (c == 45) = false ∧ (c == 43) = false) := by decide +kernel
  exact this c.toFin h

/-- the sign / magnitude split of the text of an integer -/
theorem stripSign_formatInt (v : Int) (suf : Bytes) :
    stripSign (formatInt v ++ suf) = (decide (v < 0), formatNat v.natAbs ++ suf) ∧
    (∃ c0 r, formatInt v ++ suf = c0 :: r ∧ (isLetter c0 || c0 == 95) = false) := by
  unfold formatInt
  by_cases hv : v < 0
  · simp only [hv, if_true, List.cons_append]
    exact ⟨by simp [stripSign], 45, _, rfl, by decide⟩
  · simp only [hv, if_false]
    have hn : v.toNat = v.natAbs := by omega
    obtain ⟨hd, hne, _⟩ := formatNat_digits v.toNat
    cases hf : formatNat v.toNat with
    | nil => exact absurd hf hne
    | cons c0 r =>
      have hc0 := digit_not_letter c0 (hd c0 (by rw [hf]; simp))
      refine ⟨?_, c0, r ++ suf, rfl, hc0.1⟩
      simp only [List.cons_append, stripSign, hc0.2.1, hc0.2.2, Bool.false_eq_true, if_false, decide_false]
      rw [← hn, hf]; simp

theorem inRange_toInt {w : Nat} (hw : 0 < w) (x : BitVec w) :
    inRange w (decide (x.toInt < 0)) x.toInt.natAbs = some x.toInt := by
  obtain ⟨h1, h2⟩ := toInt_range hw x
  have hpow : ((2 ^ (w - 1) : Nat) : Int) = (2 : Int) ^ (w - 1) := by simp
  unfold inRange
  by_cases hv : x.toInt < 0
  · simp only [hv, decide_true, if_true]
    have : x.toInt.natAbs ≤ 2 ^ (w - 1) := by omega
    simp only [this, if_true]
    congr 1; omega
  · simp only [hv, decide_false, Bool.false_eq_true, if_false]
    have : x.toInt.natAbs < 2 ^ (w - 1) := by omega
    simp only [this, if_true]
    congr 1; omega

theorem suffix_not_digit (s : Byte) (h : s = 66 ∨ s = 83 ∨ s = 76 ∨ s = 73 ∨ s = 70 ∨ s = 68) : isNumber s = false := by
  rcases h with e | e | e | e | e | e <;> subst e <;> decide

theorem classify_byte (fs : FloatSem) (x : BitVec 8) :
    classify fs (formatInt x.toInt ++ [66]) = Tok.val (.byte x) := by
  obtain ⟨hstrip, c0, r, hc0, hnl⟩ := stripSign_formatInt x.toInt [66]
  obtain ⟨hd, hne, hval⟩ := formatNat_digits x.toInt.natAbs
  have hspan : spanDigits (formatNat x.toInt.natAbs ++ [66]) = (formatNat x.toInt.natAbs, [66]) := by
    apply spanDigits_run _ _ hd
    intro c k' e
    injection e with e1 _; subst e1; decide
  unfold classify
  rw [hc0]
  simp only [hnl, Bool.false_eq_true, if_false]
  rw [← hc0, hstrip]
  simp only [hspan]
  have hemp : (formatNat x.toInt.natAbs).isEmpty = false := by
    cases h : formatNat x.toInt.natAbs with
    | nil => exact absurd h hne
    | cons _ _ => rfl
  simp only [hemp, Bool.false_eq_true, if_false, hval]
  simp [lower, inRange_toInt (by decide : 0 < 8) x]

theorem classify_short (fs : FloatSem) (x : BitVec 16) :
    classify fs (formatInt x.toInt ++ [83]) = Tok.val (.short x) := by
  obtain ⟨hstrip, c0, r, hc0, hnl⟩ := stripSign_formatInt x.toInt [83]
  obtain ⟨hd, hne, hval⟩ := formatNat_digits x.toInt.natAbs
  have hspan : spanDigits (formatNat x.toInt.natAbs ++ [83]) = (formatNat x.toInt.natAbs, [83]) := by
    apply spanDigits_run _ _ hd
    intro c k' e
    injection e with e1 _; subst e1; decide
  unfold classify
  rw [hc0]
  simp only [hnl, Bool.false_eq_true, if_false]
  rw [← hc0, hstrip]
  simp only [hspan]
  have hemp : (formatNat x.toInt.natAbs).isEmpty = false := by
    cases h : formatNat x.toInt.natAbs with
    | nil => exact absurd h hne
    | cons _ _ => rfl
  simp only [hemp, Bool.false_eq_true, if_false, hval]
  simp [lower, inRange_toInt (by decide : 0 < 16) x]

theorem classify_long (fs : FloatSem) (x : BitVec 64) :
    classify fs (formatInt x.toInt ++ [76]) = Tok.val (.long x) := by
  obtain ⟨hstrip, c0, r, hc0, hnl⟩ := stripSign_formatInt x.toInt [76]
  obtain ⟨hd, hne, hval⟩ := formatNat_digits x.toInt.natAbs
  have hspan : spanDigits (formatNat x.toInt.natAbs ++ [76]) = (formatNat x.toInt.natAbs, [76]) := by
    apply spanDigits_run _ _ hd
    intro c k' e
    injection e with e1 _; subst e1; decide
  unfold classify
  rw [hc0]
  simp only [hnl, Bool.false_eq_true, if_false]
  rw [← hc0, hstrip]
  simp only [hspan]
  have hemp : (formatNat x.toInt.natAbs).isEmpty = false := by
    cases h : formatNat x.toInt.natAbs with
    | nil => exact absurd h hne
    | cons _ _ => rfl
  simp only [hemp, Bool.false_eq_true, if_false, hval]
  simp [lower, inRange_toInt (by decide : 0 < 64) x]

theorem classify_intI (fs : FloatSem) (x : BitVec 32) :
    classify fs (formatInt x.toInt ++ [73]) = Tok.val (.int x) := by
  obtain ⟨hstrip, c0, r, hc0, hnl⟩ := stripSign_formatInt x.toInt [73]
  obtain ⟨hd, hne, hval⟩ := formatNat_digits x.toInt.natAbs
  have hspan : spanDigits (formatNat x.toInt.natAbs ++ [73]) = (formatNat x.toInt.natAbs, [73]) := by
    apply spanDigits_run _ _ hd
    intro c k' e
    injection e with e1 _; subst e1; decide
  unfold classify
  rw [hc0]
  simp only [hnl, Bool.false_eq_true, if_false]
  rw [← hc0, hstrip]
  simp only [hspan]
  have hemp : (formatNat x.toInt.natAbs).isEmpty = false := by
    cases h : formatNat x.toInt.natAbs with
    | nil => exact absurd h hne
    | cons _ _ => rfl
  simp only [hemp, Bool.false_eq_true, if_false, hval]
  simp [lower, inRange_toInt (by decide : 0 < 32) x]

theorem classify_int (fs : FloatSem) (x : BitVec 32) :
    classify fs (formatInt x.toInt ++ ([] : Bytes)) = Tok.val (.int x) := by
  obtain ⟨hstrip, c0, r, hc0, hnl⟩ := stripSign_formatInt x.toInt ([] : Bytes)
  obtain ⟨hd, hne, hval⟩ := formatNat_digits x.toInt.natAbs
  have hspan : spanDigits (formatNat x.toInt.natAbs ++ ([] : Bytes)) = (formatNat x.toInt.natAbs, ([] : Bytes)) := by
    apply spanDigits_run _ _ hd
    intro c k' e
    cases e
  unfold classify
  rw [hc0]
  simp only [hnl, Bool.false_eq_true, if_false]
  rw [← hc0, hstrip]
  simp only [hspan]
  have hemp : (formatNat x.toInt.natAbs).isEmpty = false := by
    cases h : formatNat x.toInt.natAbs with
    | nil => exact absurd h hne
    | cons _ _ => rfl
  simp only [hemp, Bool.false_eq_true, if_false, hval]
  simp [lower, inRange_toInt (by decide : 0 < 32) x]



theorem classify_float32 (fs : FloatSem) (w : Bytes) (hw : FloatText w) (b : _) (hf : fs.f32 w = some b) :
    classify fs (w ++ [70]) = Tok.val (.float b) := by
  obtain ⟨c0, ip, fd, hc0, hip, hfd, hshape⟩ := hw
  have hnl : isNumber (70 : Byte) = false := by decide
  have hD : ∃ (neg : Bool) (D : Bytes), D ≠ [] ∧ (∀ c ∈ D, isNumber c = true) ∧
      (∀ rest, stripSign (c0 :: ip ++ rest) = (neg, D ++ rest)) ∧ (isLetter c0 || c0 == 95) = false := by
    rcases hc0 with h | ⟨h, hne⟩
    · have hf' := digit_not_letter c0 h
      have n45 : ¬ c0 = 45#8 := by simpa using hf'.2.1
      have n43 : ¬ c0 = 43#8 := by simpa using hf'.2.2
      refine ⟨false, c0 :: ip, by simp, ?_, ?_, hf'.1⟩
      · intro c hc; rcases List.mem_cons.mp hc with e | e
        · rw [e]; exact h
        · exact hip c e
      · intro rest; simp [stripSign, n45, n43]
    · subst h
      exact ⟨true, ip, hne, hip, fun rest => by simp [stripSign], by decide⟩
  obtain ⟨neg, D, hDne, hDd, hstrip, hlet⟩ := hD
  have hemp : D.isEmpty = false := by cases D with | nil => exact absurd rfl hDne | cons _ _ => rfl
  have htake : ∀ t : Bytes, (t ++ [(70 : Byte)]).take ((t ++ [(70 : Byte)]).length - 1) = t := by
    intro t; simp
  rcases hshape with e | ⟨hne, e⟩
  · subst e
    have hspan : spanDigits (D ++ [70]) = (D, [70]) :=
      spanDigits_run D [70] hDd (by intro c k' e; injection e with e1 _; subst e1; exact hnl)
    unfold classify
    simp only [List.cons_append, hlet, Bool.false_eq_true, if_false]
    rw [show c0 :: (ip ++ [70]) = c0 :: ip ++ [70] by simp, hstrip [70]]
    simp only [hspan, hemp, Bool.false_eq_true, if_false]
    rw [htake (c0 :: ip)]
    simp [lower, hf]
  · subst e
    obtain ⟨f0, fs', rfl⟩ : ∃ f0 fs', fd = f0 :: fs' := by
      cases fd with
      | nil => exact absurd rfl hne
      | cons a b => exact ⟨a, b, rfl⟩
    have hfemp : (f0 :: fs').isEmpty = false := rfl
    have hspan : spanDigits (D ++ (46 :: (f0 :: fs') ++ [70])) = (D, 46 :: (f0 :: fs') ++ [70]) :=
      spanDigits_run D _ hDd (by intro c k' e; injection e with e1 _; subst e1; decide)
    have hspan2 : spanDigits ((f0 :: fs') ++ [70]) = (f0 :: fs', [70]) :=
      spanDigits_run (f0 :: fs') [70] hfd (by intro c k' e; injection e with e1 _; subst e1; exact hnl)
    have ht := htake (c0 :: ip ++ 46 :: (f0 :: fs'))
    unfold classify
    simp only [List.cons_append, hlet, Bool.false_eq_true, if_false]
    rw [show c0 :: (ip ++ 46 :: (f0 :: fs') ++ [70]) = c0 :: ip ++ (46 :: (f0 :: fs') ++ [70]) by simp, hstrip (46 :: (f0 :: fs') ++ [70])]
    simp only [hspan]
    simp only [hemp, Bool.false_eq_true, if_false, List.cons_append]
    simp only [bne_self_eq_false, Bool.false_eq_true, if_false]
    simp only [List.cons_append] at hspan2
    simp only [hspan2, hfemp, Bool.false_eq_true, if_false]
    have hE : (((70 : Byte) == 101) || ((70 : Byte) == 69)) = false := by decide
    simp only [hE, Bool.false_eq_true, if_false]
    simp only [List.cons_append, List.append_assoc] at ht hf ⊢
    rw [ht, hf]
    simp [lower]

theorem classify_float64 (fs : FloatSem) (w : Bytes) (hw : FloatText w) (b : _) (hf : fs.f64 w = some b) :
    classify fs (w ++ [68]) = Tok.val (.double b) := by
  obtain ⟨c0, ip, fd, hc0, hip, hfd, hshape⟩ := hw
  have hnl : isNumber (68 : Byte) = false := by decide
  have hD : ∃ (neg : Bool) (D : Bytes), D ≠ [] ∧ (∀ c ∈ D, isNumber c = true) ∧
      (∀ rest, stripSign (c0 :: ip ++ rest) = (neg, D ++ rest)) ∧ (isLetter c0 || c0 == 95) = false := by
    rcases hc0 with h | ⟨h, hne⟩
    · have hf' := digit_not_letter c0 h
      have n45 : ¬ c0 = 45#8 := by simpa using hf'.2.1
      have n43 : ¬ c0 = 43#8 := by simpa using hf'.2.2
      refine ⟨false, c0 :: ip, by simp, ?_, ?_, hf'.1⟩
      · intro c hc; rcases List.mem_cons.mp hc with e | e
        · rw [e]; exact h
        · exact hip c e
      · intro rest; simp [stripSign, n45, n43]
    · subst h
      exact ⟨true, ip, hne, hip, fun rest => by simp [stripSign], by decide⟩
  obtain ⟨neg, D, hDne, hDd, hstrip, hlet⟩ := hD
  have hemp : D.isEmpty = false := by cases D with | nil => exact absurd rfl hDne | cons _ _ => rfl
  have htake : ∀ t : Bytes, (t ++ [(68 : Byte)]).take ((t ++ [(68 : Byte)]).length - 1) = t := by
    intro t; simp
  rcases hshape with e | ⟨hne, e⟩
  · subst e
    have hspan : spanDigits (D ++ [68]) = (D, [68]) :=
      spanDigits_run D [68] hDd (by intro c k' e; injection e with e1 _; subst e1; exact hnl)
    unfold classify
    simp only [List.cons_append, hlet, Bool.false_eq_true, if_false]
    rw [show c0 :: (ip ++ [68]) = c0 :: ip ++ [68] by simp, hstrip [68]]
    simp only [hspan, hemp, Bool.false_eq_true, if_false]
    rw [htake (c0 :: ip)]
    simp [lower, hf]
  · subst e
    obtain ⟨f0, fs', rfl⟩ : ∃ f0 fs', fd = f0 :: fs' := by
      cases fd with
      | nil => exact absurd rfl hne
      | cons a b => exact ⟨a, b, rfl⟩
    have hfemp : (f0 :: fs').isEmpty = false := rfl
    have hspan : spanDigits (D ++ (46 :: (f0 :: fs') ++ [68])) = (D, 46 :: (f0 :: fs') ++ [68]) :=
      spanDigits_run D _ hDd (by intro c k' e; injection e with e1 _; subst e1; decide)
    have hspan2 : spanDigits ((f0 :: fs') ++ [68]) = (f0 :: fs', [68]) :=
      spanDigits_run (f0 :: fs') [68] hfd (by intro c k' e; injection e with e1 _; subst e1; exact hnl)
    have ht := htake (c0 :: ip ++ 46 :: (f0 :: fs'))
    unfold classify
    simp only [List.cons_append, hlet, Bool.false_eq_true, if_false]
    rw [show c0 :: (ip ++ 46 :: (f0 :: fs') ++ [68]) = c0 :: ip ++ (46 :: (f0 :: fs') ++ [68]) by simp, hstrip (46 :: (f0 :: fs') ++ [68])]
    simp only [hspan]
    simp only [hemp, Bool.false_eq_true, if_false, List.cons_append]
    simp only [bne_self_eq_false, Bool.false_eq_true, if_false]
    simp only [List.cons_append] at hspan2
    simp only [hspan2, hfemp, Bool.false_eq_true, if_false]
    have hE : (((68 : Byte) == 101) || ((68 : Byte) == 69)) = false := by decide
    simp only [hE, Bool.false_eq_true, if_false]
    simp only [List.cons_append, List.append_assoc] at ht hf ⊢
    rw [ht, hf]
    simp [lower]

/-- a bare string token: the string of its bytes -/
theorem classify_bare (fs : FloatSem) (c : Byte) (cs : Bytes) (h : (isLetter c || c == 95) = true) :
    classify fs (c :: cs) = Tok.val (.string (c :: cs)) := by
  unfold classify; simp only [h, if_true]

theorem bare_first_letter (c : Byte) (h : isAllowedInUnquotedString c = true) (hn : isNumber c = false)
    (h45 : (c == 45) = false) (h43 : (c == 43) = false) (h46 : (c == 46) = false) : (isLetter c || c == 95) = true := by
  have : ∀ n : Fin (2^8), (let c : Byte := BitVec.ofFin n
      isAllowedInUnquotedString c = true → isNumber c = false → (c == 45) = false → (c == 43) = false →
      (c == 46) = false → (isLetter c || c == 95) = true) := by decide +kernel
  exact this c.toFin h hn h45 h43 h46

/-- reading back an escaped string -/
theorem readQuoted_escape (q : Byte) (hq : (q == 92) = false) (str k acc : Bytes) (u : Bool) :
    readQuoted q (escapeWith q str ++ q :: k) acc u = some (acc.reverse ++ str, u, k) := by
  have hq' : ((92 : Byte) == q) = false := by
    rw [Bool.eq_false_iff] at hq ⊢
    intro h; apply hq; simp only [beq_iff_eq] at h ⊢; exact h.symm
  induction str generalizing acc u with
  | nil => simp only [escapeWith, List.nil_append]; unfold readQuoted; simp
  | cons c cs ih =>
    unfold escapeWith
    by_cases h1 : (c == q) = true
    · have : c = q := by simpa using h1
      subst this
      simp only [h1, if_true, List.cons_append, List.nil_append]
      unfold readQuoted
      simp only [hq', Bool.false_eq_true, if_false, beq_self_eq_true, if_true]
      rw [ih]; simp
    · have h1' : (c == q) = false := by simpa using h1
      by_cases h2 : (c == (92 : Byte)) = true
      · have : c = 92 := by simpa using h2
        subst this
        simp only [h1', Bool.false_eq_true, if_false, beq_self_eq_true, if_true, List.cons_append, List.nil_append]
        unfold readQuoted
        simp only [hq', Bool.false_eq_true, if_false, beq_self_eq_true, if_true]
        rw [ih]; simp
      · have h2' : (c == (92 : Byte)) = false := by simpa using h2
        simp only [h1', h2', Bool.false_eq_true, if_false, List.cons_append, List.nil_append]
        unfold readQuoted
        simp only [h1', h2', Bool.false_eq_true, if_false]
        rw [ih]; simp



theorem digit_allowed (c : Byte) (h : isNumber c = true) : isAllowedInUnquotedString c = true := num_allowed c h

theorem formatInt_allowed (v : Int) : ∀ c ∈ formatInt v, isAllowedInUnquotedString c = true := by
  obtain ⟨c0, ds, he, hc0, hds, _, _⟩ := formatInt_shape v
  rw [he]
  intro c hc
  rcases List.mem_cons.mp hc with e | e
  · rw [e]; exact num_sign_allowed c0 hc0
  · exact digit_allowed c (hds c e)

theorem floatText_allowed (w : Bytes) (hw : FloatText w) : ∀ c ∈ w, isAllowedInUnquotedString c = true := by
  obtain ⟨c0, ip, fd, hc0, hip, hfd, hshape⟩ := hw
  have h0 : isAllowedInUnquotedString c0 = true := by
    rcases hc0 with h | ⟨h, _⟩
    · exact digit_allowed c0 h
    · subst h; decide
  intro c hc
  rcases hshape with e | ⟨_, e⟩ <;> subst e
  · rcases List.mem_cons.mp hc with e | e
    · rw [e]; exact h0
    · exact digit_allowed c (hip c e)
  · simp only [List.cons_append, List.mem_cons, List.mem_append] at hc
    rcases hc with e | e | e | e
    · rw [e]; exact h0
    · exact digit_allowed c (hip c e)
    · rw [e]; decide
    · exact digit_allowed c (hfd c e)

/-- a token of unquoted-class bytes that the grammar classifies as the value `v` -/
theorem rv_tok (fs : FloatSem) (w k : Bytes) (v : NBT) (hne : w ≠ []) (hall : ∀ c ∈ w, isAllowedInUnquotedString c = true)
    (hk : TokEnd k) (hcl : classify fs w = .val v) (f : Nat) :
    readValue fs (f + 1) (w ++ k) = some (v, false, k) := by
  cases w with
  | nil => exact absurd rfl hne
  | cons c cs =>
    obtain ⟨h1, h2, h3, h4, _, _⟩ := allowed_start_facts c (hall c (by simp))
    have hspan := spanToken_run (c :: cs) k hall hk
    unfold readValue
    simp only [List.cons_append] at hspan ⊢
    rw [skipWs_cons c _ h1]
    simp only [h2, h3, h4, Bool.false_eq_true, if_false]
    rw [hspan]
    simp only [List.isEmpty_cons, Bool.false_eq_true, if_false, hcl]

/-- a quoted string -/
theorem rv_quoted (fs : FloatSem) (q : Byte) (hq : q = 34 ∨ q = 39) (str k : Bytes) (f : Nat) :
    readValue fs (f + 1) ([q] ++ escapeWith q str ++ [q] ++ k) = some (.string str, false, k) := by
  have hq92 : (q == 92) = false := by rcases hq with e | e <;> subst e <;> decide
  have hsp : isSpace q = false := by rcases hq with e | e <;> subst e <;> decide
  have h123 : (q == 123) = false ∧ (q == 91) = false ∧ (q == 34 || q == 39) = true := by
    rcases hq with e | e <;> subst e <;> decide
  have hrd := readQuoted_escape q hq92 str k [] false
  unfold readValue
  simp only [List.cons_append, List.nil_append, List.append_assoc]
  rw [skipWs_cons q _ hsp]
  simp only [h123.1, h123.2.1, h123.2.2, Bool.false_eq_true, if_false, if_true]
  rw [hrd]
  simp



/-- the `strconv` oracle that a `FloatSem` is -/
def semOracle (fs : FloatSem) : FloatOracle := ⟨fs.f32, fs.f64⟩

theorem append_allowed {a b : Bytes} (ha : ∀ c ∈ a, isAllowedInUnquotedString c = true)
    (hb : ∀ c ∈ b, isAllowedInUnquotedString c = true) : ∀ c ∈ a ++ b, isAllowedInUnquotedString c = true := by
  intro c hc; rcases List.mem_append.mp hc with h | h
  · exact ha c h
  · exact hb c h

/-- the grammar reads the writer's text of a scalar or string as that value -/
theorem rv_scalar (fs : FloatSem) (fm : FmtOracle) (t : NBT) (w : Bytes) (hw : scalarText fm t = some w)
    (hf : FloatHyp (semOracle fs) fm t) (k : Bytes) (hk : TokEnd k) (f : Nat) :
    readValue fs (f + 1) (w ++ k) = some (t, false, k) := by
  cases t with
  | byte v =>
    simp only [scalarText, Option.some.injEq] at hw; subst hw
    exact rv_tok fs _ k _ (by simp)
      (append_allowed (formatInt_allowed _) (by decide)) hk (classify_byte fs v) f
  | short v =>
    simp only [scalarText, Option.some.injEq] at hw; subst hw
    exact rv_tok fs _ k _ (by simp)
      (append_allowed (formatInt_allowed _) (by decide)) hk (classify_short fs v) f
  | int v =>
    simp only [scalarText, Option.some.injEq] at hw; subst hw
    have h := classify_int fs v
    simp only [List.append_nil] at h
    exact rv_tok fs _ k _ (by have := formatInt_length_pos v.toInt; intro h; simp [h] at this)
      (formatInt_allowed _) hk h f
  | long v =>
    simp only [scalarText, Option.some.injEq] at hw; subst hw
    exact rv_tok fs _ k _ (by simp)
      (append_allowed (formatInt_allowed _) (by decide)) hk (classify_long fs v) f
  | float b =>
    simp only [scalarText, Option.some.injEq] at hw; subst hw
    obtain ⟨hft, hpf⟩ := hf
    exact rv_tok fs _ k _ (by simp) (append_allowed (floatText_allowed _ hft) (by decide)) hk
      (classify_float32 fs _ hft b hpf) f
  | double b =>
    simp only [scalarText, Option.some.injEq] at hw; subst hw
    obtain ⟨hft, hpf⟩ := hf
    exact rv_tok fs _ k _ (by simp) (append_allowed (floatText_allowed _ hft) (by decide)) hk
      (classify_float64 fs _ hft b hpf) f
  | string str =>
    simp only [scalarText, Option.some.injEq] at hw; subst hw
    unfold writeEscapeStr
    by_cases hq : needQuote str = true
    · simp only [hq, Bool.not_true, Bool.false_eq_true, if_false]
      split
      · exact rv_quoted fs 39 (Or.inr rfl) str k f
      · exact rv_quoted fs 34 (Or.inl rfl) str k f
    · have hq' : needQuote str = false := by simpa using hq
      simp only [hq', Bool.not_false, if_true]
      unfold needQuote at hq'
      cases str with
      | nil => simp at hq'
      | cons c cs =>
        simp only [Bool.or_eq_false_iff, List.any_eq_false, Bool.not_eq_true', Bool.not_eq_false] at hq'
        obtain ⟨⟨⟨⟨hn, h45⟩, h43⟩, h46⟩, hall⟩ := hq'
        have hall' : ∀ x ∈ c :: cs, isAllowedInUnquotedString x = true := by
          intro x hx; have := hall x hx; simpa using this
        exact rv_tok fs _ k _ (by simp) hall' hk
          (classify_bare fs c cs (bare_first_letter c (hall' c (by simp)) hn h45 h43 h46)) f
  | _ => simp [scalarText] at hw



/-! ### typed arrays -/

theorem arrayElem_int (kind s : Byte) (W : Nat) (hW : 0 < W) (x : BitVec W)
    (hk : (kind = 66 ∧ s = 66 ∧ W = 8) ∨ (kind = 73 ∧ s = 73 ∧ W = 32) ∨ (kind = 76 ∧ s = 76 ∧ W = 64)) :
    arrayElem kind (formatInt x.toInt ++ [s]) = some (some x.toInt) := by
  obtain ⟨hstrip, c0, r, hc0, hnl⟩ := stripSign_formatInt x.toInt [s]
  obtain ⟨hd, hne, hval⟩ := formatNat_digits x.toInt.natAbs
  have hsd : isNumber s = false := by rcases hk with ⟨_, e, _⟩ | ⟨_, e, _⟩ | ⟨_, e, _⟩ <;> subst e <;> decide
  have hspan : spanDigits (formatNat x.toInt.natAbs ++ [s]) = (formatNat x.toInt.natAbs, [s]) :=
    spanDigits_run _ _ hd (by intro c k' e; injection e with e1 _; subst e1; exact hsd)
  have hemp : (formatNat x.toInt.natAbs).isEmpty = false := by
    cases h : formatNat x.toInt.natAbs with
    | nil => exact absurd h hne
    | cons _ _ => rfl
  unfold arrayElem
  rw [hstrip]
  simp only [hspan, hemp, Bool.false_eq_true, if_false, hval, List.map_cons, List.map_nil]
  rcases hk with ⟨a, b, c⟩ | ⟨a, b, c⟩ | ⟨a, b, c⟩ <;> subst a <;> subst b <;> subst c <;>
    simp [lower, inRange_toInt (by decide) x]

theorem readArrayElems_spec (kind s : Byte) (W : Nat) (hW : 0 < W)
    (hk : (kind = 66 ∧ s = 66 ∧ W = 8) ∨ (kind = 73 ∧ s = 73 ∧ W = 32) ∨ (kind = 76 ∧ s = 76 ∧ W = 64)) :
    ∀ (xs : List (BitVec W)), xs ≠ [] → ∀ (k : Bytes) (acc : List Int) (g : Nat), xs.length ≤ g →
      readArrayElems kind g (joinElems (xs.map fun x => formatInt x.toInt ++ [s]) ++ 93 :: k) acc false =
        some (acc.reverse ++ xs.map (·.toInt), false, k) := by
  have hsall : isAllowedInUnquotedString s = true := by
    rcases hk with ⟨_, e, _⟩ | ⟨_, e, _⟩ | ⟨_, e, _⟩ <;> subst e <;> decide
  intro xs
  induction xs with
  | nil => intro h; exact absurd rfl h
  | cons x r ih =>
    intro _ k acc g hg
    obtain ⟨g, rfl⟩ : ∃ g', g = g' + 1 := ⟨g - 1, by simp at hg; omega⟩
    rw [List.map_cons, joinElems_cons]
    have hall : ∀ c ∈ formatInt x.toInt ++ [s], isAllowedInUnquotedString c = true :=
      append_allowed (formatInt_allowed _) (by intro c hc; simp at hc; rw [hc]; exact hsall)
    obtain ⟨c0, ds, he, hc0, _⟩ := formatInt_shape x.toInt
    have hsp0 : isSpace c0 = false := (numstart_facts c0 hc0).1
    have htend : TokEnd (sepJoin (r.map fun x => formatInt x.toInt ++ [s]) ++ 93 :: k) := by
      cases r.map fun x => formatInt x.toInt ++ [s] <;> simp [sepJoin, TokEnd, isAllowedInUnquotedString, isNumber, isUpper, isLower]
    have hspan := spanToken_run (formatInt x.toInt ++ [s]) _ hall htend
    unfold readArrayElems
    simp only [List.append_assoc]
    have hskip : skipWs (formatInt x.toInt ++ ([s] ++ (sepJoin (r.map fun x => formatInt x.toInt ++ [s]) ++ 93 :: k))) =
        formatInt x.toInt ++ ([s] ++ (sepJoin (r.map fun x => formatInt x.toInt ++ [s]) ++ 93 :: k)) := by
      rw [he]; exact skipWs_cons c0 _ hsp0
    rw [hskip]
    simp only [List.append_assoc] at hspan
    rw [hspan]
    have hne : (formatInt x.toInt ++ [s]).isEmpty = false := by simp
    simp only [hne, Bool.false_eq_true, if_false, arrayElem_int kind s W hW x hk]
    cases r with
    | nil =>
      simp only [List.map_nil, sepJoin, List.nil_append]
      rw [skipWs_cons 93 _ (by decide)]
      simp
    | cons y r' =>
      simp only [List.map_cons, sepJoin, List.cons_append]
      rw [skipWs_cons 44 _ (by decide)]
      simp only [beq_self_eq_true, if_true]
      have := ih (by simp) k (x.toInt :: acc) g (by simp at hg ⊢; omega)
      simp only [List.map_cons] at this
      rw [this]
      simp



theorem rv_array_gen (fs : FloatSem) (kind s : Byte) (W : Nat) (hW : 0 < W)
    (hk : (kind = 66 ∧ s = 66 ∧ W = 8) ∨ (kind = 73 ∧ s = 73 ∧ W = 32) ∨ (kind = 76 ∧ s = 76 ∧ W = 64))
    (xs : List (BitVec W)) (k : Bytes) (f : Nat) :
    readValue fs (f + 1) (91 :: ([kind, 59] ++ joinElems (xs.map fun x => formatInt x.toInt ++ [s]) ++ [93]) ++ k) =
      some (mkArray kind (xs.map (·.toInt)), false, k) := by
  have hkind : (kind == 66 || kind == 73 || kind == 76) = true ∧ (kind == 93) = false ∧ isSpace kind = false := by
    rcases hk with ⟨e, _, _⟩ | ⟨e, _, _⟩ | ⟨e, _, _⟩ <;> subst e <;> decide
  unfold readValue
  simp only [List.cons_append, List.nil_append, List.append_assoc]
  rw [skipWs_cons 91 _ (by decide)]
  simp only [show ((91 : Byte) == 123) = false by decide, Bool.false_eq_true, if_false, beq_self_eq_true, if_true]
  rw [skipWs_cons kind _ hkind.2.2]
  simp only [hkind.2.1, Bool.false_eq_true, if_false, hkind.1, List.head?_cons, Bool.true_and, beq_self_eq_true,
    if_true, List.drop_succ_cons, List.drop_zero]
  cases xs with
  | nil =>
    simp only [List.map_nil, joinElems, List.nil_append]
    rw [skipWs_cons 93 _ (by decide)]
    simp
  | cons x r =>
    have hspec := readArrayElems_spec kind s W hW hk (x :: r) (by simp) k []
    obtain ⟨c0, ds, he, hc0, _⟩ := formatInt_shape x.toInt
    have hsp0 := numstart_facts c0 hc0
    have h93 : (c0 == 93) = false := by
      have : ∀ n : Fin (2^8), (let c : Byte := BitVec.ofFin n
          (isNumber c || isSign c) = true → (c == 93) = false) := by decide +kernel
      exact this c0.toFin hc0
    generalize hJ : joinElems ((x :: r).map fun x => formatInt x.toInt ++ [s]) = J at hspec ⊢
    have hJ0 : ∃ J', J = c0 :: J' := by
      rw [← hJ, List.map_cons, joinElems_cons, he]; exact ⟨_, rfl⟩
    obtain ⟨J', hJ'⟩ := hJ0
    have hsk : skipWs (J ++ (93 :: k)) = J ++ 93 :: k := by rw [hJ']; exact skipWs_cons c0 _ hsp0.1
    rw [hsk]
    rw [hJ']
    simp only [List.cons_append, h93, Bool.false_eq_true, if_false]
    rw [← List.cons_append, ← hJ']
    have hlen := joinElems_length_ge ((x :: r).map fun x => formatInt x.toInt ++ [s])
    rw [hJ] at hlen
    rw [hspec _ (by simp only [List.length_map, List.length_append, List.length_cons] at hlen ⊢; omega)]
    simp

theorem ofInt_toInt_map {W : Nat} (xs : List (BitVec W)) : (xs.map (·.toInt)).map (BitVec.ofInt W) = xs := by
  induction xs with
  | nil => rfl
  | cons x r ih => simp [ih]

/-- the grammar reads the writer's text of a typed array as that array -/
theorem rv_array (fs : FloatSem) (fm : FmtOracle) (t : NBT) (ha : ∃ w, arrayText t = some w) (k : Bytes) (f : Nat) :
    readValue fs (f + 1) (wtext fm t ++ k) = some (t, false, k) := by
  obtain ⟨w, hw⟩ := ha
  cases t with
  | byteArray xs =>
    have := rv_array_gen fs 66 66 8 (by decide) (Or.inl ⟨rfl, rfl, rfl⟩) xs k f
    simp only [mkArray, beq_self_eq_true, if_true, ofInt_toInt_map] at this
    simpa [wtext] using this
  | intArray xs =>
    have := rv_array_gen fs 73 73 32 (by decide) (Or.inr (Or.inl ⟨rfl, rfl, rfl⟩)) xs k f
    simp only [mkArray, show ((73 : Byte) == 66) = false by decide, beq_self_eq_true, if_true, Bool.false_eq_true,
      if_false, ofInt_toInt_map] at this
    simpa [wtext] using this
  | longArray xs =>
    have := rv_array_gen fs 76 76 64 (by decide) (Or.inr (Or.inr ⟨rfl, rfl, rfl⟩)) xs k f
    simp only [mkArray, show ((76 : Byte) == 66) = false by decide, show ((76 : Byte) == 73) = false by decide,
      Bool.false_eq_true, if_false, ofInt_toInt_map] at this
    simpa [wtext] using this
  | _ => simp [arrayText] at hw


end GoMC.Model.SNBT
