/-
  Lemmas for C04_parse_sound, token level: for EVERY literal token (arbitrary accepted layout: `+` signs, leading
  zeros, exponents, either suffix case, any escapes) `parseLiteral` and the grammar reader of `Spec/SNBT.lean`
  (`classify`, `readQuoted`) agree — same type, same value, same range errors — wherever the grammar is specified.
-/
import GoMC.Lemmas.SNBTTokShapes
namespace GoMC.Model.SNBT
open GoMC Spec
open GoMC.Spec.SNBT (isWs isDigit isLetter isTokenByte skipWs spanToken spanDigits digitsVal stripSign inRange lower
  classify readQuoted readKey arrayElem mkArray readArrayElems readValue readEntries readElems FloatSem Tok)

theorem parseLiteral_bareTok (fo : FloatOracle) (c : Byte) (cs : Bytes) (hL : (isLetter c || c == 95) = true)
    (hall : ∀ x ∈ c :: cs, isAllowedInUnquotedString x = true) :
    parseLiteral fo (c :: cs) = .ok (tagString, some (.str (c :: cs))) := by
  have hf : isNumber c = false ∧ (c == 45) = false ∧ (c == 43) = false ∧ (c == 46) = false ∧
      (c == 34 || c == 39) = false := by
    have : ∀ n : Fin (2^8), (let c : Byte := BitVec.ofFin n; (isLetter c || c == 95) = true →
        isNumber c = false ∧ (c == 45) = false ∧ (c == 43) = false ∧ (c == 46) = false ∧
        (c == 34 || c == 39) = false) := by decide +kernel
    exact this c.toFin hL
  obtain ⟨h1, h2, h3, h4, h5⟩ := hf
  have hs : (clsLoop { strlen := (c :: cs).length } 0 (c :: cs)).IsStr := by
    unfold clsLoop
    exact clsLoop_isStr _ _ _ (clsStep_first _ c h1 h2 h3) (fun x hx => hall x (by simp [hx]))
  unfold parseLiteral
  simp only [h5, Bool.false_eq_true, if_false]
  generalize clsLoop { strlen := (c :: cs).length } 0 (c :: cs) = k at hs ⊢
  obtain ⟨a, b, d⟩ := hs
  simp [a, b, d]

theorem token_sound (fs : FloatSem) (tok : Bytes) (hne : tok ≠ [])
    (hall : ∀ c ∈ tok, isAllowedInUnquotedString c = true) : TokOK (semOracle fs) tok (classify fs tok) := by
  cases tok with
  | nil => exact absurd rfl hne
  | cons c0 rest =>
    by_cases hL : (isLetter c0 || c0 == 95) = true
    · rw [classify_bare fs c0 rest hL]
      refine ⟨fun t h => ?_, (by intro h; cases h)⟩
      injection h with h; subst h
      exact ⟨.str (c0 :: rest), parseLiteral_bareTok _ c0 rest hL hall, rfl⟩
    · have hL' : (isLetter c0 || c0 == 95) = false := by simpa using hL
      obtain ⟨sg, neg, body, hss, htok, hsg⟩ := stripSign_spec (c0 :: rest)
      obtain ⟨ip, r1, hsd, hbody, hipd, hr1⟩ := spanDigits_spec body
      unfold classify
      simp only [hL', Bool.false_eq_true, if_false, hss, hsd]
      by_cases hip : ip = []
      · subst hip
        simp only [List.isEmpty_nil, if_true]
        exact TokOK_unspec _ _
      · have hemp : ip.isEmpty = false := by cases ip with | nil => exact absurd rfl hip | cons _ _ => rfl
        simp only [hemp, Bool.false_eq_true, if_false]
        have htok' : c0 :: rest = sg ++ ip ++ r1 := by rw [htok, hbody]; simp
        rw [htok']
        -- leaves
        have leafI : ∀ (w : Nat) (tok : Bytes) (mkT : Int → NBT) (mkL : Int → Lit) (tag : Byte) (X : Tok),
            parseLiteral (semOracle fs) tok = .ok (tag, (parseInt w (sg ++ ip)).map mkL) →
            (∀ a, litNBT (mkL a) = mkT a ∧ (mkT a).tag = tag) →
            (∀ a, inRange w neg (digitsVal ip) = some a → X = .val (mkT a)) →
            (inRange w neg (digitsVal ip) = none → X = .bad) → TokOK (semOracle fs) tok X := by
          intro w tok mkT mkL tag X hp hrel h1 h2
          rw [parseInt_sign_digits w sg ip neg hsg hip hipd] at hp
          exact TokOK_opt _ _ _ mkT mkL tag hp hrel X h1 h2
        cases r1 with
        | nil =>
          simp only [List.append_nil]
          exact leafI 32 _ (fun v => .int (BitVec.ofInt 32 v)) (fun v => .i32 (BitVec.ofInt 32 v)) tagInt _
            (parseLiteral_intShape _ sg ip neg hsg hip hipd) (fun a => ⟨rfl, rfl⟩)
            (fun a h => by rw [h]) (fun h => by rw [h])
        | cons d r2 =>
          cases r2 with
          | nil =>
            dsimp only
            obtain ⟨l1, l2, l3, l4, l5, l6⟩ := lower_cases d
            rw [l1, l2, l3, l4, l5, l6, take_init]
            have hps : isIntegerType d = true → parseLiteral (semOracle fs) (sg ++ ip ++ [d]) = intDispatch (semOracle fs) d (sg ++ ip) :=
              fun h => parseLiteral_intSuffix _ sg ip neg d hsg hip hipd h
            have hd0 : (d == 0) = false := by
              have : isNumber d = false := hr1 d [] rfl
              have hda := hall d (by rw [htok']; simp)
              have : ∀ n : Fin (2^8), (let c : Byte := BitVec.ofFin n; isAllowedInUnquotedString c = true → (c == 0) = false) := by
                decide +kernel
              exact this d.toFin hda
            by_cases c1 : (d == 66 || d == 98) = true
            · have hi : isIntegerType d = true := by
                rcases Bool.or_eq_true _ _ |>.mp c1 with h | h <;> (have := eq_of_beq h; subst this; decide)
              have hp := hps hi
              unfold intDispatch at hp
              simp only [c1, if_true] at hp ⊢
              exact leafI 8 _ (fun v => .byte (BitVec.ofInt 8 v)) (fun v => .i8 (BitVec.ofInt 8 v)) tagByte _ hp
                (fun a => ⟨rfl, rfl⟩) (fun a h => by rw [h]) (fun h => by rw [h])
            · have c1' : (d == 66 || d == 98) = false := by simpa using c1
              by_cases c2 : (d == 83 || d == 115) = true
              · have hi : isIntegerType d = true := by
                  rcases Bool.or_eq_true _ _ |>.mp c2 with h | h <;> (have := eq_of_beq h; subst this; decide)
                have hp := hps hi
                unfold intDispatch at hp
                simp only [c1', c2, Bool.false_eq_true, if_false, if_true] at hp ⊢
                exact leafI 16 _ (fun v => .short (BitVec.ofInt 16 v)) (fun v => .i16 (BitVec.ofInt 16 v)) tagShort _ hp
                  (fun a => ⟨rfl, rfl⟩) (fun a h => by rw [h]) (fun h => by rw [h])
              · have c2' : (d == 83 || d == 115) = false := by simpa using c2
                by_cases c3 : (d == 73 || d == 105) = true
                · have hi : isIntegerType d = true := by
                    rcases Bool.or_eq_true _ _ |>.mp c3 with h | h <;> (have := eq_of_beq h; subst this; decide)
                  have hp := hps hi
                  unfold intDispatch at hp
                  simp only [c1', c2', c3, Bool.true_or, Bool.false_eq_true, if_false, if_true] at hp ⊢
                  exact leafI 32 _ (fun v => .int (BitVec.ofInt 32 v)) (fun v => .i32 (BitVec.ofInt 32 v)) tagInt _ hp
                    (fun a => ⟨rfl, rfl⟩) (fun a h => by rw [h]) (fun h => by rw [h])
                · have c3' : (d == 73 || d == 105) = false := by simpa using c3
                  by_cases c4 : (d == 76 || d == 108) = true
                  · have hi : isIntegerType d = true := by
                      rcases Bool.or_eq_true _ _ |>.mp c4 with h | h <;> (have := eq_of_beq h; subst this; decide)
                    have hp := hps hi
                    unfold intDispatch at hp
                    simp only [c1', c2', c3', hd0, c4, Bool.or_false, Bool.false_eq_true, if_false, if_true] at hp ⊢
                    exact leafI 64 _ (fun v => .long (BitVec.ofInt 64 v)) (fun v => .i64 (BitVec.ofInt 64 v)) tagLong _ hp
                      (fun a => ⟨rfl, rfl⟩) (fun a h => by rw [h]) (fun h => by rw [h])
                  · have c4' : (d == 76 || d == 108) = false := by simpa using c4
                    by_cases c5 : (d == 70 || d == 102) = true
                    · have hi : isIntegerType d = true := by
                        rcases Bool.or_eq_true _ _ |>.mp c5 with h | h <;> (have := eq_of_beq h; subst this; decide)
                      have hp := hps hi
                      unfold intDispatch at hp
                      simp only [c1', c2', c3', hd0, c4', c5, Bool.or_false, Bool.false_eq_true, if_false, if_true] at hp ⊢
                      exact TokOK_opt _ _ (fs.f32 (sg ++ ip)) (fun b => .float b) (fun b => .f32 b) tagFloat hp
                        (fun a => ⟨rfl, rfl⟩) _ (fun a h => by rw [h]) (fun h => by rw [h])
                    · have c5' : (d == 70 || d == 102) = false := by simpa using c5
                      by_cases c6 : (d == 68 || d == 100) = true
                      · have hi : isIntegerType d = true := by
                          rcases Bool.or_eq_true _ _ |>.mp c6 with h | h <;> (have := eq_of_beq h; subst this; decide)
                        have hp := hps hi
                        unfold intDispatch at hp
                        simp only [c1', c2', c3', hd0, c4', c5', c6, Bool.or_false, Bool.false_eq_true, if_false, if_true] at hp ⊢
                        exact TokOK_opt _ _ (fs.f64 (sg ++ ip)) (fun b => .double b) (fun b => .f64 b) tagDouble hp
                          (fun a => ⟨rfl, rfl⟩) _ (fun a h => by rw [h]) (fun h => by rw [h])
                      · have c6' : (d == 68 || d == 100) = false := by simpa using c6
                        simp only [c1', c2', c3', c4', c5', c6', Bool.false_eq_true, if_false]
                        exact TokOK_unspec _ _
          | cons d2 r3 =>
            dsimp only
            generalize hR2 : d2 :: r3 = R2
            by_cases hd46 : d = 46
            case neg =>
              rw [if_pos (by simpa using hd46)]
              exact TokOK_unspec _ _
            subst hd46
            rw [if_neg (by simp)]
            obtain ⟨fp, r3', hsd2, hR2s, hfpd, hr3⟩ := spanDigits_spec R2
            rw [hsd2]
            dsimp only
            by_cases hfp : fp = []
            case pos =>
              subst hfp
              simp only [List.isEmpty_nil, if_true]
              exact TokOK_unspec _ _
            have hfemp : fp.isEmpty = false := by cases fp with | nil => exact absurd rfl hfp | cons _ _ => rfl
            simp only [hfemp, Bool.false_eq_true, if_false]
            rw [hR2s]
            cases r3' with
            | nil =>
              dsimp only
              have hp := parseLiteral_decShape (semOracle fs) sg ip fp [] neg false false hsg hip hipd hfpd
                (Or.inl ⟨rfl, rfl, rfl⟩)
              have hT : sg ++ ip ++ 46 :: (fp ++ []) = sg ++ ip ++ (46 :: fp ++ []) := by simp
              rw [hT]
              exact TokOK_opt _ _ (fs.f64 (sg ++ ip ++ (46 :: fp ++ []))) (fun b => .double b) (fun b => .f64 b) tagDouble hp
                (fun a => ⟨rfl, rfl⟩) _ (fun a h => by rw [h]) (fun h => by rw [h])
            | cons e r =>
              dsimp only
              by_cases hee : (e == 101 || e == 69) = true
              · simp only [hee, if_true]
                have hee' : e = 101 ∨ e = 69 := by
                  rcases Bool.or_eq_true _ _ |>.mp hee with h | h
                  · exact Or.inl (eq_of_beq h)
                  · exact Or.inr (eq_of_beq h)
                obtain ⟨sg2, ng, b2, hss2, hr, hsg2⟩ := stripSign_spec r
                obtain ⟨ed, r', hsd3, hb2, hedd, hr'⟩ := spanDigits_spec b2
                rw [hss2]
                dsimp only
                rw [hsd3]
                dsimp only
                by_cases hed : ed = []
                case pos =>
                  subst hed
                  simp only [List.isEmpty_nil, if_true]
                  exact TokOK_unspec _ _
                have heemp : ed.isEmpty = false := by cases ed with | nil => exact absurd rfl hed | cons _ _ => rfl
                simp only [heemp, Bool.false_eq_true, if_false]
                have hex : IsExp (e :: (sg2 ++ ed)) true (!sg2.isEmpty) :=
                  Or.inr ⟨e, sg2, ed, ng, hee', hsg2, hedd, rfl, rfl, rfl⟩
                rw [hr, hb2]
                cases r' with
                | nil =>
                  dsimp only
                  have hp := parseLiteral_decShape (semOracle fs) sg ip fp (e :: (sg2 ++ ed)) neg _ _ hsg hip hipd hfpd hex
                  have hT : sg ++ ip ++ 46 :: (fp ++ e :: (sg2 ++ (ed ++ []))) = sg ++ ip ++ (46 :: fp ++ e :: (sg2 ++ ed)) := by simp
                  rw [hT]
                  exact TokOK_opt _ _ (fs.f64 (sg ++ ip ++ (46 :: fp ++ e :: (sg2 ++ ed)))) (fun b => .double b) (fun b => .f64 b)
                    tagDouble hp (fun a => ⟨rfl, rfl⟩) _ (fun a h => by rw [h]) (fun h => by rw [h])
                | cons s1 r'' =>
                  cases r'' with
                  | nil =>
                    dsimp only
                    have hT : sg ++ ip ++ 46 :: (fp ++ e :: (sg2 ++ (ed ++ [s1]))) = (sg ++ ip ++ (46 :: fp ++ e :: (sg2 ++ ed))) ++ [s1] := by simp
                    rw [hT, take_init]
                    obtain ⟨_, _, _, _, l5, l6⟩ := lower_cases s1
                    rw [l5, l6]
                    by_cases c5 : (s1 == 70 || s1 == 102) = true
                    · have hi : isFloatType s1 = true := by
                        rcases Bool.or_eq_true _ _ |>.mp c5 with h | h <;> (have := eq_of_beq h; subst this; decide)
                      have hp := parseLiteral_decSuffix (semOracle fs) sg ip fp (e :: (sg2 ++ ed)) neg _ _ s1 hsg hip hipd hfpd hex hi
                      simp only [c5, if_true] at hp ⊢
                      exact TokOK_opt _ _ (fs.f32 (sg ++ ip ++ (46 :: fp ++ e :: (sg2 ++ ed)))) (fun b => .float b) (fun b => .f32 b) tagFloat hp
                        (fun a => ⟨rfl, rfl⟩) _ (fun a h => by rw [h]) (fun h => by rw [h])
                    · have c5' : (s1 == 70 || s1 == 102) = false := by simpa using c5
                      by_cases c6 : (s1 == 68 || s1 == 100) = true
                      · have hi : isFloatType s1 = true := by
                          rcases Bool.or_eq_true _ _ |>.mp c6 with h | h <;> (have := eq_of_beq h; subst this; decide)
                        have hp := parseLiteral_decSuffix (semOracle fs) sg ip fp (e :: (sg2 ++ ed)) neg _ _ s1 hsg hip hipd hfpd hex hi
                        simp only [c5', c6, Bool.false_eq_true, if_false, if_true] at hp ⊢
                        exact TokOK_opt _ _ (fs.f64 (sg ++ ip ++ (46 :: fp ++ e :: (sg2 ++ ed)))) (fun b => .double b) (fun b => .f64 b) tagDouble hp
                          (fun a => ⟨rfl, rfl⟩) _ (fun a h => by rw [h]) (fun h => by rw [h])
                      · have c6' : (s1 == 68 || s1 == 100) = false := by simpa using c6
                        simp only [c5', c6', Bool.false_eq_true, if_false]
                        exact TokOK_unspec _ _
                  | cons _ _ =>
                    dsimp only
                    exact TokOK_unspec _ _
              · have hee' : (e == 101 || e == 69) = false := by simpa using hee
                simp only [hee', Bool.false_eq_true, if_false]
                cases r with
                | nil =>
                  dsimp only
                  have hT : sg ++ ip ++ 46 :: (fp ++ [e]) = (sg ++ ip ++ (46 :: fp ++ [])) ++ [e] := by simp
                  rw [hT, take_init]
                  obtain ⟨_, _, _, _, l5, l6⟩ := lower_cases e
                  rw [l5, l6]
                  by_cases c5 : (e == 70 || e == 102) = true
                  · have hi : isFloatType e = true := by
                      rcases Bool.or_eq_true _ _ |>.mp c5 with h | h <;> (have := eq_of_beq h; subst this; decide)
                    have hp := parseLiteral_decSuffix (semOracle fs) sg ip fp [] neg _ _ e hsg hip hipd hfpd (Or.inl ⟨rfl, rfl, rfl⟩) hi
                    simp only [c5, if_true] at hp ⊢
                    exact TokOK_opt _ _ (fs.f32 (sg ++ ip ++ (46 :: fp ++ []))) (fun b => .float b) (fun b => .f32 b) tagFloat hp
                      (fun a => ⟨rfl, rfl⟩) _ (fun a h => by rw [h]) (fun h => by rw [h])
                  · have c5' : (e == 70 || e == 102) = false := by simpa using c5
                    by_cases c6 : (e == 68 || e == 100) = true
                    · have hi : isFloatType e = true := by
                        rcases Bool.or_eq_true _ _ |>.mp c6 with h | h <;> (have := eq_of_beq h; subst this; decide)
                      have hp := parseLiteral_decSuffix (semOracle fs) sg ip fp [] neg _ _ e hsg hip hipd hfpd (Or.inl ⟨rfl, rfl, rfl⟩) hi
                      simp only [c5', c6, Bool.false_eq_true, if_false, if_true] at hp ⊢
                      exact TokOK_opt _ _ (fs.f64 (sg ++ ip ++ (46 :: fp ++ []))) (fun b => .double b) (fun b => .f64 b) tagDouble hp
                        (fun a => ⟨rfl, rfl⟩) _ (fun a h => by rw [h]) (fun h => by rw [h])
                    · have c6' : (e == 68 || e == 100) = false := by simpa using c6
                      simp only [c5', c6', Bool.false_eq_true, if_false]
                      exact TokOK_unspec _ _
                | cons _ _ =>
                  dsimp only
                  exact TokOK_unspec _ _


/-! ### quoted strings: the unquote loop of `parseLiteral` against the grammar's `readQuoted` -/

/-- whenever the unquote loop of `parseLiteral` succeeds on `rest` (what follows the opening quote), `rest` is
`pre ++ q :: tail` where `q` is the first unescaped closing quote, and the grammar reads `pre ++ q :: k` (for ANY
continuation `k`) as the same string, leaving exactly `k`; `ub` tells whether an escape other than `\\`, `\q`
occurred (then the grammar's reading is `unspecified`) -/
theorem unquote_readQuoted (q : Byte) : ∀ (n : Nat) (rest acc s : Bytes), rest.length ≤ n →
    unquoteLoop q rest acc = .ok s →
    ∃ pre tail ub, rest = pre ++ q :: tail ∧
      (∀ k u, readQuoted q (pre ++ q :: k) acc.reverse u = some (s, u || ub, k)) ∧
      (∀ k, unquoteLoop q (pre ++ q :: k) acc = .ok s) := by
  intro n
  induction n with
  | zero =>
    intro rest acc s hl h
    have : rest = [] := List.length_eq_zero_iff.mp (by omega)
    subst this
    simp [unquoteLoop] at h
  | succ n ih =>
    intro rest acc s hl h
    cases rest with
    | nil => simp [unquoteLoop] at h
    | cons c cs =>
      unfold unquoteLoop at h
      by_cases hq : (c == q) = true
      · rw [if_pos hq] at h
        injection h with h; subst h
        have : c = q := eq_of_beq hq
        subst this
        refine ⟨[], cs, false, rfl, fun k u => ?_, fun k => ?_⟩
        · simp only [List.nil_append]
          unfold readQuoted
          simp
        · simp only [List.nil_append]
          unfold unquoteLoop
          simp
      · rw [if_neg hq] at h
        have hq' : (c == q) = false := by simpa using hq
        by_cases h92 : (c == 92) = true
        · rw [if_pos h92] at h
          cases cs with
          | nil => cases h
          | cons c2 rest2 =>
            dsimp only at h
            obtain ⟨pre, tail, ub, he, hr, hu⟩ := ih rest2 (acc ++ [c2]) s (by simp at hl; omega) h
            refine ⟨c :: c2 :: pre, tail, (!(c2 == q || c2 == 92)) || ub, by rw [he]; rfl, fun k u => ?_, fun k => ?_⟩
            · simp only [List.cons_append]
              unfold readQuoted
              simp only [hq', h92, Bool.false_eq_true, if_false, if_true]
              have := hr k (u || !(c2 == q || c2 == 92))
              simp only [List.reverse_append, List.reverse_cons, List.reverse_nil, List.nil_append,
                List.cons_append] at this
              rw [this]
              simp [Bool.or_assoc]
            · simp only [List.cons_append]
              unfold unquoteLoop
              simp only [hq', h92, Bool.false_eq_true, if_false, if_true]
              exact hu k
        · rw [if_neg h92] at h
          have h92' : (c == 92) = false := by simpa using h92
          obtain ⟨pre, tail, ub, he, hr, hu⟩ := ih cs (acc ++ [c]) s (by simp at hl; omega) h
          refine ⟨c :: pre, tail, ub, by rw [he]; rfl, fun k u => ?_, fun k => ?_⟩
          · simp only [List.cons_append]
            unfold readQuoted
            simp only [hq', h92', Bool.false_eq_true, if_false]
            have := hr k u
            simp only [List.reverse_append, List.reverse_cons, List.reverse_nil, List.nil_append,
              List.cons_append] at this
            exact this
          · simp only [List.cons_append]
            unfold unquoteLoop
            simp only [hq', h92', Bool.false_eq_true, if_false]
            exact hu k

/-- a quoted literal: `parseLiteral` and the grammar agree on the string -/
theorem quoted_sound (fo : FloatOracle) (q : Byte) (rest : Bytes) (hq : (q == 34 || q == 39) = true) (tag : Byte)
    (ov : Option Lit) (h : parseLiteral fo (q :: rest) = .ok (tag, ov)) :
    ∃ s pre tail ub, tag = tagString ∧ ov = some (.str s) ∧ rest = pre ++ q :: tail ∧
      (∀ k u, readQuoted q (pre ++ q :: k) [] u = some (s, u || ub, k)) ∧
      (∀ k, unquoteLoop q (pre ++ q :: k) [] = .ok s) := by
  unfold parseLiteral at h
  simp only [hq, if_true] at h
  cases hu : unquoteLoop q rest [] with
  | err => rw [hu] at h; cases h
  | panic => rw [hu] at h; cases h
  | fuel => rw [hu] at h; cases h
  | ok s =>
    rw [hu] at h
    dsimp only at h
    injection h with h
    injection h with h1 h2
    obtain ⟨pre, tail, ub, he, hr, hu'⟩ := unquote_readQuoted q rest.length rest [] s (Nat.le_refl _) hu
    exact ⟨s, pre, tail, ub, h1.symm, h2.symm, he, fun k u => by simpa using hr k u, hu'⟩

end GoMC.Model.SNBT
